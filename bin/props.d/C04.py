PROP = dict(
    driver='reqlife', cmd='d_reqlife', monitors=['MON04'], proof_files=['ReqMgrProofs.v'],
    level_text="(being built)",
    level_note="(being built)",
    trusted=[], assumptions=[],
    drive_timeout=3000,
)
