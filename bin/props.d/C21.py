PROP = dict(
    driver='taskq', cmd='d_taskq', monitors=['MON21', 'MON21F'], proof_files=['TaskQueueProofs.v'],
    level_text="(being built)",
    level_note="(being built)",
    trusted=["go-ipfs-pq / container/heap assumed to present a tracker that no other tracker strictly precedes under DefaultPeerComparator (the model accepts any such choice; the driver checks every observed pop against it)",
             "verif hook VerifSetTickerChan (add-only, build tag verif) lets the driver deliver thaw ticks",
             "the driver reads 'all workers parked' off the goroutine stacks (runtime.Stack)"],
    assumptions=["creation stamps of successive pushes are distinct (time.Now is strictly increasing across pushes)"],
    drive_timeout=1500,
)
HOOKS = ["5bb2d21 verif hooks: let a harness drive the task queue's thaw ticker (build tag verif)"]
