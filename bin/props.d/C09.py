# C09 — Responses from other peers cannot affect a request
PROP = dict(
    driver='reqpeer', cmd='d_reqpeer', monitors=['MON09'], proof_files=['ReqMgrMsgProofs.v', 'ReqMgrMsgMonitor.v'],
    level_text="Theorem C09_holds (frame): for every response-hook oracle, every state of the request table, every message "
               "(any responses with any ids/status/metadata/extensions, any blocks) and every request r in the table whose owner is not "
               "the sender: r's entry (state, terminal error, cancelled flag, last response, loader flag and queue) is unchanged, no event "
               "of the step carries r's id (no response-hook call, no update/cancel sent, no context cancel, no termination), and no nil "
               "dereference happens on consistent tables for messages with distinct ids. C09_projection: for every sequence of run-loop "
               "labels (messages from any peer, new request, executor pick-up / online / pause / release, unpause, cancel, update) r's "
               "final entry and r's events equal those of the sequence with the messages foreign to r removed; C09_locality: requests are "
               "independent under every label. C09_owner_reaches_hook / C09_owner_is_ingested: the owner's response does reach hooks and "
               "loader. C09_monitor: the executable monitor MON09 accepts every model history (every hook oracle, every label sequence, "
               "with the cleaned run built from any owner map agreeing with the LNew labels). The model (processResponses with filter-hooks-filter order, updateLastResponses, ingest, processTerminations, "
               "cancelOnError, terminateRequest and the other handlers) is run against the real requestmanager.RequestManager every run "
               "(events and the whole table after every label, via a snapshot taken inside the run loop); the monitor (frame on the "
               "implementation's observations, every hook call made for the calling peer's own request, and identical observations when "
               "the foreign responses are removed) is evaluated on the implementation's histories.",
    level_note="Kernel-checked over the Gallina model of requestmanager/server.go as repaired (fix e7cd682: the peer filter now runs "
               "before the response hooks). Hooks are pure oracles of (peer, response). The executor side is represented by the labels the "
               "driver plays itself (pick up, go online, pause, release); block hooks are covered as a function of the unchanged entry "
               "(C09_block_hook_args), not by an executor model. Messages with duplicate request ids can make the Go code dereference nil "
               "(not reachable through a decoded message, which keys responses by id); the model records that as a flag and proves it is "
               "never raised for distinct ids.",
    trusted=["verif hooks RequestManager.VerifSnapshot / ReconciledLoader.VerifRemoteQueue (add-only, build tag verif): table and loader queue copied inside the run loop",
             "scripted fakes at the edges: peer handler, conn manager (Unprotect marks terminateRequest), task queue; the driver plays the executor's calls (GetRequestTask, SetRemoteOnline, SendRequest, ReleaseRequestTask)",
             "status-code classes (IsTerminal/IsFailure) transcribed by hand and compared on all 14 codes plus unknown ones every run"],
    assumptions=["response hooks are functions of (peer, response)",
                 "request ids are not reused while a request with that id is in the table (ids are UUIDs)",
                 "a message carries at most one response per request id (message.GraphSyncMessage keeps responses in a map)"],
    drive_timeout=1500,
)
HOOKS = ["81f512a verif hooks: snapshot of the request table and of a loader's remote queue (build tag verif)"]
