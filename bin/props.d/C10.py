# C10 — Messages from one peer cannot alter a response served to another
PROP = dict(
    driver='resppeer', cmd='d_resppeer', monitors=['MON10'], proof_files=['RespMgrMsgProofs.v'],
    level_text="Theorems over the model of the response manager's table (processRequests, newRequest, abortRequest, processUpdate, the API handlers, startTask/finishTask/getUpdates, terminateRequest), the subscriber and the executor's per-block protocol: "
               "C10_frame (every state: a label that reaches the manager because of another peer - that peer's cancel/update/new with any ids and hook results, or send reports for its messages - leaves the whole slot of an id owned by p unchanged and outputs nothing for p); "
               "C10_holds / C10_projection / C10_from_free (every state, every history of messages, API calls, task starts, executor steps and send reports: p's response goes through the same sequence of label, outputs and slot as in the history with the foreign labels removed, until it leaves the table); "
               "C10_owner_cancel / C10_owner_update (the owner's own cancel/update do take effect); C10_refuted_unfixed (the pinned code fails all of it: four witnesses). "
               "The model is run label by label against the real ResponseManager + QueryExecutor + ResponseAssembler + hooks/listeners (table snapshot through a verif hook, every hook call, message, listener notification, protect/unprotect and task-queue call compared), and every history is run twice, with and without the foreign peers' messages; the monitor compares the life of each response of the monitored peer in the two runs.",
    level_note="Kernel-checked over the hand-written model. The run-time monitor (life/mon10_at over observations) is the observation-level rendering of gwalk; that rendering is validated by computation on the model (Examples) and by the correspondence, not by a separate theorem. "
               "Not modelled: an executor whose table entry was replaced (same peer sends the same id twice while the first response runs) or removed under it - its further steps are marked unmodelled and not compared; two signals pending at one select (Go picks at random) - not compared. "
               "The in-progress count handed to the request-processing listener depends on all peers' requests by design and is not part of the claim. An id that another peer holds when p first asks for it is refused (id squatting is outside the statement).",
    trusted=["verif hook responsemanager.VerifTable (add-only, build tag verif) reports the table from inside the manager's loop; taskqueue.VerifSetTickerChan stops the unused thaw ticker",
             "edge fakes of the harness: one transaction = one captured message; sent/error reports are delivered by calling the real subscribers directly, streams closed and later messages scrubbed as messagequeue.publishError does; one real task queue per (peer, request id), popped by the script (cross-request scheduling is C21's subject); reports are delivered per (peer, request id) in build order"],
    assumptions=["labels are applied one at a time: the manager loop is idle and at most one executor goroutine runs between two observations (executors park in the block hook)",
                 "all blocks of the served DAG are present (a 3-block chain); extensions dedup-by-key / do-not-send are not used"],
    drive_timeout=1500,
)
HOOKS = ['7d2624e verif hooks: expose the response table (build tag verif)']
