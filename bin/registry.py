# Per-property configuration for bin/check.  One entry per claimed property.

TRUSTED_BASE = [
    "Coq 8.16.1 kernel (coqc, full .vo build; vm_compute used for Examples and for evaluating cases; native_compute not used)",
    "no Axiom/Parameter/Admitted in the development (gate greps every run); Print Assumptions of each property theorem must be closed",
    "hand-written Gallina model tied to /repo only by the correspondence run of this check (Go harness built from /repo's working tree with -tags verif; generators bound what is covered)",
    "translator harness/cmd/gsgen for the regenerated coq/gen/*.v files",
    "Go toolchain, go-ipld-prime, go-ipfs-pq, go-peertaskqueue, libp2p: outside the model",
]

HOOK_COMMITS = ["ad1ad74 verif hooks: let the harness hold the allocator's lock (build tag verif)",
                'a8e40aa verif hooks: let the harness hold the peer process table lock (build tag verif)',
                '95b4529 verif hooks: expose link tracker map sizes (build tag verif)',
                'e1cc3da verif hooks: expose queued builder block sizes (build tag verif)',
                'bfc4b1d verif hooks: count non-empty queued builders (build tag verif)']
NOT_YET = {
    'C16': "the technique applies, but the history-level exactly-once theorem is not built: the message-queue model, its driver and an executable monitor exist and run inside C15's check as correspondence, which is not a proof of C16, so nothing is claimed for C16 (DESIGN.md 10)",
}

PROPS = {
    'C13': dict(
        drivers=[dict(driver='alloc', monitors=['MON13', 'MON14X']), dict(driver='allocconc', cmd='d_allocconc', monitors=['MON13C'])],
        proof_files=['AllocProofs.v', 'AllocConcProofs.v'], props=['C13', 'C13conc'],
        level_text="Theorem C13_holds: for all limits, peers and operation scripts (all amounts) the allocator model's history satisfies the executable accounting/limits monitor; C13_limits: invariant on every reachable state. The model is run against the real allocator.Allocator on generated scripts every run and the same monitor is evaluated on the implementation's histories. Concurrent callers: every public method holds the allocator's lock for its whole body, so a group of overlapping calls acts as some permutation of them; C13conc_acceptor_sound — whenever the executable acceptor accepts the observations of a script with groups there is a linearisation whose model run yields exactly them, and its final state satisfies the limits invariant; C13conc_limits — every state reachable through groups (also mid-group) satisfies it. A second driver forces groups of 2-3 calls on the real allocator to overlap (lock held through a verif hook until all callers are parked on it) and evaluates acceptor and monitor MON13C.",
        level_note="Kernel-checked over the Gallina model of allocator.go; tie to the Go code is differential (sampled scripts + exhaustive small scripts in the thorough tier). Heap tie-breaking assumed unobservable; nextAllocIndex assumed not to wrap.",
        trusted=["go-ipfs-pq heap assumed to return a comparator-minimal element; ties are unobservable (comparator classes are treated identically)",
                 "uint64 arithmetic modelled over N: sound because every addition is guarded by fits() (invariant total<=max proved)"],
        assumptions=["nextAllocIndex does not wrap (2^64 waiting allocations)"],
    ),
    'C14': dict(
        drivers=[dict(driver='alloc', monitors=['MON14', 'MON14X']), dict(driver='allocconc', cmd='d_allocconc', monitors=['MON14C'])],
        proof_files=['AllocProofs.v', 'AllocFifoProofs.v', 'AllocOrderProofs.v', 'AllocConcProofs.v'], props=['C14', 'C14fifo', 'C13conc'],
        level_text="Theorems over the allocator model: exact immediate-grant decision rule in every state (C14_immediate_iff), no-lost-wake-up invariant after every operation of every script (C14_no_lost_wakeup), release-peer fails exactly the waiting allocations in that call (C14_release_peer_fails_waiting). History level: C14_monitor — the executable monitor_C14 (immediate-grant rule, every granted/failed ticket is the head of its peer's waiting queue when it is resolved, no lost wake-up after every op, release-peer fails all waiting tickets in that call) accepts every history the model can produce, for all limits and scripts; C14_monitor_enforces_request_order — any history the monitor accepts (in particular an implementation history) grants each peer's tickets in strictly increasing request order; C14_no_overtake, C14_queues_in_request_order; C14_monitor_x / C14_no_pass_over — the stronger monitor (every grant of a release takes the smallest-ticket eligible waiting head: nothing is granted while an earlier-requested waiting allocation of ANY peer that fits its own peer's limit is left waiting) also accepts every model history. Both monitors are evaluated on every implementation history; a second driver runs groups of overlapping calls (see C13).",
        level_note="Kernel-checked over the Gallina model of allocator.go, including the per-peer FIFO clause at history level. Cross-peer grant order inside one call is not observable through per-ticket channels (outcomes of one call are compared sorted by ticket; the theorem covers that sorting).",
        trusted=["go-ipfs-pq heap assumed to return a comparator-minimal element; ties are unobservable"],
        assumptions=["cross-peer order of grants inside one call is not observable through per-ticket channels and is not compared"],
    ),
    'C19': dict(
        driver='linktracker', monitors=['MON19'], proof_files=['LinkTrackerProofs.v'],
        level_text="Refinement theorem C19_holds: for every operation sequence over interleaved requests the model of linktracker+peerLinkTracker (refcounts, per-key trackers) produces a history accepted by the executable in-progress-requests specification (send iff present, not skipped and unheld in scope; complete-full iff nothing missing; no state when idle); C19_send_iff and C19_idle_no_state as corollaries. Model run against the real ResponseAssembler streams/transactions on generated scripts each run; the same monitor is evaluated on the implementation's histories.",
        level_note="Kernel-checked over the Gallina model; tie to Go is differential (decisions, indices, completion status and the sizes of all internal maps after every op via a verif-tag hook). Histories that assign a dedup key to a request that already has state are outside the protocol and unclaimed.",
        trusted=["verif hook VerifTrackerSizes (add-only, build tag verif) reports map sizes"],
        assumptions=["operations on one peer's tracker are serialised by its mutex (each op is one atomic step)"],
    ),
    'C18': dict(
        drivers=[dict(driver='publisher', monitors=['MON18', 'HIST18']), dict(driver='pubburst', monitors=['MON18B'])],
        proof_files=['PublisherProofs.v', 'PublisherHistory.v'], coq_targets=['theories/PublisherBurst.vo', 'theories/PublisherTrace.vo'],
        level_text="Refinement theorem C18_holds: for every call sequence the publisher model (two inverse indexes, snapshot range loops, closed flag) delivers, call by call, exactly what the active-subscriptions specification allows (each publish once to exactly the active subscribers, exactly one close per ended subscription, nothing after shutdown); C18_registry_consistent: both indexes describe one duplicate-free set in every reachable state. C18_history (corollary, the property in its own words): for every subscriber s, topic t and call sequence, what s is handed for t call by call equals the trace of a two-bit automaton computed from the calls alone (the event of each publish on t while (t,s) is active, one close at the call that ends the subscription, nothing otherwise, nothing after shutdown); C18_history_univ states it for any observed universe, and that executable check (HIST18) is evaluated on the Go publisher's deliveries too. The model is run against the real notifications publisher on generated call sequences each run (a marker publish waits for the command queue to drain) and the same monitor is evaluated on the implementation's deliveries; a second driver issues bursts of 20-270 calls while the publisher's goroutine is held inside a blocked subscriber callback (so its command queue really fills) and compares every subscriber's complete log with the log the model prescribes.",
        level_note="Kernel-checked over the Gallina model; calls are issued sequentially so the FIFO command queue makes processing order = call order (concurrent callers are not modelled here; C16 covers the message-queue use). Order of several closes to one subscriber within one call is unconstrained.",
        trusted=["harness synchronisation: a marker event on a private topic is used to wait for the publisher goroutine after each call; after shutdown a bounded wait (400ms) is used"],
        assumptions=["API calls are issued one after another (the publisher's own goroutine is the only concurrency)"],
    ),
    'C08': dict(
        drivers=[dict(driver='selval', monitors=['MON08']), dict(driver='e2eval', monitors=['MON08E'])], proof_files=['SelWalkProofs.v'], gens=['gsgen'], coq_targets=['theories/SelWalkCases.vo'],
        level_text="Theorem C08_holds: for every selector spec AST (all clause kinds incl. interpret-as, any nesting, any limits) and every accepted depth, the validator accepts iff every recursion limit anywhere in the spec is a depth <= the accepted depth. The walking selector and the default depth in the theorem are regenerated from selectorvalidator.go / impl/graphsync.go by a translator on every run, so removing or altering a clause breaks the proof; the modelled WalkMatching fragment and the visitor are tied to go-ipld-prime and to ValidateMaxRecursionDepth differentially (well-formed and mutated nodes).",
        level_note="Kernel-checked; trusted: translator gsgen (Go AST of the builder expression -> Coq term), hand model of the go-ipld-prime selector fragment (ExploreRecursive/Fields/All/Edge/Matcher under WalkMatching) and of the visitor, both compared with the real code on every run. Nodes with links in explored positions are not well-formed selectors and are not modelled.",
        trusted=["translator gsgen for GenMaxDepthSel.v", "hand model of the go-ipld-prime selector fragment used by the validator (compared differentially on well-formed and mutated nodes)"],
        assumptions=["selector nodes contain no links outside stop-at conditions"],
    ),
    'C07': dict(
        drivers=[dict(driver='budget', monitors=['MON07']), dict(driver='e2ebudget', monitors=['MON07E'])],
        proof_files=['LtreeProofs.v'],
        level_text="Theorems C07_cap / C07_enough / C07_exceeded: for every traversal plan (all DAG shapes, selectors, codecs), every oracle answering loads (present, missing, hard error) and every budget n, at most n loads reach the store; with needs <= n the budgeted traversal is identical to the free one; with needs > n it is the free one cut after exactly n loads followed by a budget refusal and abort. C07_effective_budget: the budget that applies is the smaller non-zero of global and per-request. Tied to the code two ways each run: the real ipldutil.Traverser with and without a budget on generated DAGs (budgeted trace must equal the predicted cut of the free trace), and two real GraphSync instances over the mocknet with every global/per-request budget combination on either side.",
        level_note="Kernel-checked over traversal plans; that go-ipld-prime's engine behaves as a plan (depth-first, skip prunes the subtree, budget checked before each load) is validated by the trace comparison, not proved. effective_budget is a hand transcription of the two server.go sites, checked by the whole-stack grid.",
        trusted=["go-ipld-prime traversal engine (checkLinkBudget, SkipMe) outside the model; compared by traces", "whole-stack grid uses the libp2p mocknet"],
        assumptions=["the store answers each link load once per traversal step (Advance / Error)"],
    ),
    'C15': dict(
        drivers=[dict(driver='msgqueue', monitors=['MON15']), dict(driver='mq16', cmd='d_mq16', monitors=['MON15P'])],
        proof_files=['MsgQueueProofs.v', 'MsgQueueParkProofs.v'], props=['C15', 'C15park'],
        level_text="Theorem C15_accounting: for every history of response-assembler transactions (blocks, extension data, statuses, any requests, any split over messages), network outcomes (connect/send ok or failing, retries exhausted, initial connect failure), shutdowns and select choices, in every state where the queue goroutine is parked the peer's accounted memory equals exactly the block bytes of the queued builders plus those of the message in flight; idle implies nothing with content queued and zero accounted; exited implies nothing queued and zero accounted. C15_build_reservation: one transaction returns at once whatever part of its reservation did not become queued block bytes (all of it when refused). C15_monitor: the executable monitor accepts every model history. The model (message builder, scrubbing, retry loop, drain, shutdown) is run against the real MessageQueue + Allocator + ResponseAssembler with a scripted network each run, comparing accounted memory, every queued builder's size, phase, wire contents and per-request events after every label; the same monitor is evaluated on the implementation's observations.",
        level_note="Reservations that have to WAIT are covered by the parked-reservation extension (MsgQueuePark.v: per-peer limit in the model, a transaction that is not granted at once parks in the allocator, releases grant pending reservations in order, the queue's exit answers all pending ones with an error; C15_parked_accounting / C15_parked_monitor in props/C15park.v), driven on the real MessageQueue + real Allocator with small limits by d_mq16 (monitor MON15P); the first driver keeps limits far away. Interleavings are explored at the granularity of parked states: a label is applied while the queue goroutine is parked (idle, inside a scripted network call, or exited) and the goroutine then runs until it parks again; builds racing with a running goroutine are represented by the select-choice hints only.",
        trusted=["verif hooks VerifQueuedBlockSizes / VerifQueuedNonEmpty (add-only, build tag verif)",
                 "harness detects that the queue goroutine is parked by inspecting goroutine stacks (runtime.Stack), and releases one scripted network call per LNet label",
                 "dag-cbor EncodedLength gives the extension size the response builder reserves"],
        assumptions=["allocator limits are not reached (1 TiB limits in the harness)", "labels are applied at parked states of the queue goroutine"],
        drive_timeout=3000,
    ),
    'C17': dict(
        drivers=[dict(driver='peermgr', monitors=['MON17']), dict(driver='peerconc', monitors=['MON17C']), dict(driver='peerrace', monitors=['MON17R'], mismatch=None),
                 dict(driver='mq16', cmd='d_mq16', monitors=['MON17F']), dict(driver='msgqueue', monitors=['MON17F'])],
        proof_files=['PeerMgrProofs.v', 'PeerMgrConcProofs.v', 'PeerMgrMonitor.v', 'MsgQueueFifo.v', 'MsgQueueContent.v'], props=['C17', 'C17fifo'],
        level_text="Invariant theorems over all label sequences (Connected, Disconnected, GetProcess, queue self-shutdown, late queue exit with its onShutdown callback) of the PeerManager model: at most one live queue per peer (C17_one_live), the last disconnect leaves no live queue and no table entry (C17_last_disconnect), every send is handed the table's queue (C17_get_process); the same with concurrent senders: GetProcess is modelled as its read-locked lookup plus its write-locked getOrCreate, a group of k concurrent calls (optionally racing one Connected/Disconnected/late-exit call) is a run of those labels, so one-live holds in every state groups can reach (C17_conc_one_live) and all concurrent senders are handed the same queue (C17_conc_same_process). C17_monitor / C17_conc_monitor: the executable monitors MON17 and MON17C accept the model's own trace of every label sequence (every group script the harness can produce), so they demand nothing the model does not satisfy. The model is run against the real peermanager.PeerManager with a scripted process factory each run; the one-live/table monitor is evaluated on the implementation's snapshots; C17_fifo_wire: over the message-queue model of C15/C16, for every history (transactions, network outcomes, retries, shutdowns, select choices) the messages whose send succeeds reach the wire in strictly increasing topic order = the order their builders were queued (that model is tied to the real MessageQueue by the C15/C16 drivers). C17_fifo_content: for every history, each sent message carries, per request, exactly the entries that request's transactions queued into it, in order, and an entry queued before another but into a later message never leaves at all (it was scrubbed): nothing overtakes. The two message-queue drivers (real MessageQueue + Allocator + ResponseAssembler, scripted network, backlogs of two or more pending builders around the 512 KiB threshold) evaluate the executable order monitor MON17F on the implementation's wire. Driver peerrace queues a late exit callback, a Disconnected and a Connected (or a send) of one peer on the held table lock in each of the six orders and releases them together (monitor only: every order is legal). A further driver forces groups of 1-4 concurrent GetProcess callers into the all-lookups-first interleaving on the real code by holding the table lock (verif hook) until every caller is parked on it.",
        level_note="FIFO is proved over the message-queue model at topic and at content granularity; the executable order monitor mon17 (per request the wire entries continue through the queue log in order, every entry of a message was queued after every entry of earlier messages, every present link has its block in the same message) is a decision procedure evaluated on implementation histories under the drivers' guarantee that one request never queues the same link twice; that it accepts every model history is not a theorem (it is tied to the model through the wire comparison). Disconnected is one atomic step in the model although the Go code calls Shutdown() on the removed process just after releasing the table lock (two adjacent statements, no blocking call in between).",
        trusted=["scripted process factory stands in for messagequeue.MessageQueue's life cycle (Startup, Shutdown, exit callback)"],
        assumptions=["Disconnected's table removal and the following Shutdown() call are treated as one step"],
    ),
}

# Further properties are configured by one fragment each: bin/props.d/<id>.py defines PROP (the dict
# above), and optionally NOT_YET_REASON / HOOKS (list of hook-commit lines).
import glob as _glob, os as _os
# A fragment takes part in MANIFEST.json only once the integrator has listed its id in bin/props.d/ENABLED
# (bin/check itself accepts any fragment, so that a property can be run while it is being built).
_dir = _os.path.join(_os.path.dirname(_os.path.abspath(__file__)), 'props.d')
_en = _os.path.join(_dir, 'ENABLED')
ENABLED = set(open(_en).read().split()) if _os.path.exists(_en) else set()
DRAFT = set()
for _f in sorted(_glob.glob(_os.path.join(_dir, '*.py'))):
    _ns = {}
    exec(compile(open(_f).read(), _f, 'exec'), _ns)
    _id = _os.path.basename(_f)[:-3]
    if 'PROP' in _ns:
        PROPS[_id] = _ns['PROP']
        if _id in ENABLED: NOT_YET.pop(_id, None)
        else: DRAFT.add(_id)
    elif 'NOT_YET_REASON' in _ns:
        NOT_YET[_id] = _ns['NOT_YET_REASON']
    for _h in _ns.get('HOOKS', []):
        if _h not in HOOK_COMMITS: HOOK_COMMITS.append(_h)
