// Package rng is the single source of randomness of the harness: one splitmix64 state seeded by
// VERIF_SEED, so every disagreement replays exactly.
package rng

type R struct{ s uint64 }

func New(seed uint64) *R { return &R{s: seed*0x9E3779B97F4A7C15 + 0x1234567} }

func (r *R) U64() uint64 {
	r.s += 0x9E3779B97F4A7C15
	z := r.s
	z = (z ^ (z >> 30)) * 0xBF58476D1CE4E5B9
	z = (z ^ (z >> 27)) * 0x94D049BB133111EB
	return z ^ (z >> 31)
}

// Intn returns a value in [0,n)
func (r *R) Intn(n int) int {
	if n <= 0 {
		return 0
	}
	return int(r.U64() % uint64(n))
}

// Range returns a value in [lo,hi]
func (r *R) Range(lo, hi int) int { return lo + r.Intn(hi-lo+1) }

func (r *R) Bool() bool { return r.U64()&1 == 1 }

// P is true with probability num/den
func (r *R) P(num, den int) bool { return r.Intn(den) < num }

// Fork derives an independent stream (for per-case seeds)
func (r *R) Fork() *R { return New(r.U64()) }

func (r *R) Bytes(n int) []byte {
	b := make([]byte, n)
	for i := range b {
		b[i] = byte(r.U64())
	}
	return b
}

func Pick[T any](r *R, xs []T) T { return xs[r.Intn(len(xs))] }
