// Package drv is the shared command-line plumbing of the per-property driver commands
// (harness/cmd/d_<name>): flags, PRNG, corpus lookup.  A driver command is
//
//	func main() { drv.Main("name", run) }     with   func run(c *drv.Ctx) error
//
// and is invoked by bin/check as  build/d_<name> <name> -seed N -tier quick|thorough -out DIR
// [-replay case.json] [-corpus DIR] [-n N].
package drv

import (
	"encoding/json"
	"flag"
	"fmt"
	"os"
	"path/filepath"
	"sort"

	"verif/harness/internal/rng"
)

type Ctx struct {
	Seed   uint64
	Tier   string
	Out    string
	Replay string // replay one case: JSON file with a "case" member (as written by bin/check)
	Corpus string // corpus root directory
	R      *rng.R
	N      int // -n override of case count (0 = driver default)
}

func (c *Ctx) Thorough() bool { return c.Tier == "thorough" }

// Count picks the number of generated cases for the tier
func (c *Ctx) Count(quick, thorough int) int {
	if c.N > 0 {
		return c.N
	}
	if c.Thorough() {
		return thorough
	}
	return quick
}

// CorpusFiles lists *.json under corpus/<name>, sorted
func (c *Ctx) CorpusFiles(name string) []string {
	if c.Corpus == "" {
		return nil
	}
	fs, _ := filepath.Glob(filepath.Join(c.Corpus, name, "*.json"))
	sort.Strings(fs)
	return fs
}

func ReadJSON(path string, v any) error {
	b, err := os.ReadFile(path)
	if err != nil {
		return err
	}
	return json.Unmarshal(b, v)
}

// ReplayCase unmarshals the "case" member of a replay file into v
func ReplayCase(path string, v any) error {
	var w struct {
		Case json.RawMessage `json:"case"`
	}
	if err := ReadJSON(path, &w); err != nil {
		return err
	}
	if len(w.Case) == 0 || string(w.Case) == "null" {
		return fmt.Errorf("replay file %s has no case", path)
	}
	return json.Unmarshal(w.Case, v)
}

func Main(name string, run func(*Ctx) error) {
	args := os.Args[1:]
	if len(args) > 0 && args[0] == name {
		args = args[1:]
	}
	fs := flag.NewFlagSet(name, flag.ExitOnError)
	c := &Ctx{}
	fs.Uint64Var(&c.Seed, "seed", 1, "PRNG seed")
	fs.StringVar(&c.Tier, "tier", "quick", "quick|thorough")
	fs.StringVar(&c.Out, "out", "", "output directory")
	fs.StringVar(&c.Replay, "replay", "", "replay one case (JSON file with a 'case' member)")
	fs.StringVar(&c.Corpus, "corpus", "", "corpus root directory")
	fs.IntVar(&c.N, "n", 0, "override number of generated cases")
	_ = fs.Parse(args)
	c.R = rng.New(c.Seed)
	if c.Out == "" {
		fmt.Fprintln(os.Stderr, "-out required")
		os.Exit(2)
	}
	if err := run(c); err != nil {
		fmt.Fprintln(os.Stderr, "driver error:", err)
		os.Exit(3)
	}
}
