// Package e2e builds pairs (or more) of real GraphSync instances connected over the libp2p mocknet,
// each with an in-memory block store, as the repository's own impl tests do.
package e2e

import (
	"bytes"
	"context"
	"fmt"
	"io"
	"sync"

	"github.com/ipld/go-ipld-prime"
	"github.com/ipld/go-ipld-prime/linking"
	cidlink "github.com/ipld/go-ipld-prime/linking/cid"
	"github.com/libp2p/go-libp2p/core/host"
	"github.com/libp2p/go-libp2p/core/peer"
	mocknet "github.com/libp2p/go-libp2p/p2p/net/mock"

	"github.com/ipfs/go-graphsync"
	gsimpl "github.com/ipfs/go-graphsync/impl"
	gsnet "github.com/ipfs/go-graphsync/network"
)

// Store is a thread-safe in-memory block store usable as an ipld.LinkSystem
type Store struct {
	mu     sync.Mutex
	blocks map[string][]byte
	Writes []string // keys in the order they were committed
}

func NewStore() *Store { return &Store{blocks: map[string][]byte{}} }

func (s *Store) Put(l ipld.Link, data []byte) {
	s.mu.Lock()
	defer s.mu.Unlock()
	s.blocks[l.String()] = append([]byte(nil), data...)
}

func (s *Store) Get(l ipld.Link) ([]byte, bool) {
	s.mu.Lock()
	defer s.mu.Unlock()
	b, ok := s.blocks[l.String()]
	return b, ok
}

func (s *Store) Has(l ipld.Link) bool { _, ok := s.Get(l); return ok }

// Clear drops every block (a caller discarding the partial data of a cancelled request)
func (s *Store) Clear() {
	s.mu.Lock()
	defer s.mu.Unlock()
	s.blocks = map[string][]byte{}
}

func (s *Store) Keys() []string {
	s.mu.Lock()
	defer s.mu.Unlock()
	var ks []string
	for k := range s.blocks {
		ks = append(ks, k)
	}
	return ks
}

func (s *Store) LinkSystem() ipld.LinkSystem {
	lsys := cidlink.DefaultLinkSystem()
	lsys.TrustedStorage = true
	lsys.StorageReadOpener = func(lctx linking.LinkContext, l ipld.Link) (io.Reader, error) {
		b, ok := s.Get(l)
		if !ok {
			return nil, fmt.Errorf("not found: %s", l)
		}
		return bytes.NewReader(b), nil
	}
	lsys.StorageWriteOpener = func(lctx linking.LinkContext) (io.Writer, linking.BlockWriteCommitter, error) {
		var buf bytes.Buffer
		return &buf, func(l ipld.Link) error {
			s.mu.Lock()
			defer s.mu.Unlock()
			s.blocks[l.String()] = append([]byte(nil), buf.Bytes()...)
			s.Writes = append(s.Writes, l.String())
			return nil
		}, nil
	}
	return lsys
}

// Node is one GraphSync instance
type Node struct {
	Host  host.Host
	Net   gsnet.GraphSyncNetwork
	Store *Store
	GS    graphsync.GraphExchange
}

func (n *Node) ID() peer.ID { return n.Host.ID() }

// World is a set of linked nodes
type World struct {
	Ctx    context.Context
	Cancel context.CancelFunc
	MN     mocknet.Mocknet
	Nodes  []*Node
}

// NewWorld creates k hosts, all linked; GraphSync instances are created by Start
func NewWorld(k int) (*World, error) {
	ctx, cancel := context.WithCancel(context.Background())
	w := &World{Ctx: ctx, Cancel: cancel, MN: mocknet.New()}
	for i := 0; i < k; i++ {
		h, err := w.MN.GenPeer()
		if err != nil {
			cancel()
			return nil, err
		}
		w.Nodes = append(w.Nodes, &Node{Host: h, Net: gsnet.NewFromLibp2pHost(h), Store: NewStore()})
	}
	if err := w.MN.LinkAll(); err != nil {
		cancel()
		return nil, err
	}
	return w, nil
}

// Start creates the GraphSync instance of node i with the given options
func (w *World) Start(i int, opts ...gsimpl.Option) graphsync.GraphExchange {
	n := w.Nodes[i]
	n.GS = gsimpl.New(w.Ctx, n.Net, n.Store.LinkSystem(), opts...)
	return n.GS
}

func (w *World) Close() {
	w.Cancel()
	_ = w.MN.Close()
}
