// Package cw writes the files a driver hands back to bin/check: sharded cases_NNN.v files that
// Coq evaluates, cases.json (replayable form of every case) and stats.json (what was generated).
package cw

import (
	"crypto/sha256"
	"encoding/hex"
	"encoding/json"
	"fmt"
	"os"
	"path/filepath"
	"sort"
	"strings"
)

type Stats struct {
	Evaluations        int            `json:"evaluations"`
	DistinctNontrivial int            `json:"distinct_nontrivial"`
	Rule               string         `json:"rule"`
	Distribution       map[string]int `json:"distribution"`
	Samples            []any          `json:"samples"`
	GoViolations       []GoViolation  `json:"go_violations"`
	Extra              map[string]any `json:"extra,omitempty"`
}

// GoViolation is a property violation established on the Go side alone (e.g. a stored block whose
// bytes do not hash to its key, a panic, a hang); Case indexes cases.json.
type GoViolation struct {
	Case int    `json:"case"`
	What string `json:"what"`
	Key  string `json:"key"` // stable classification used to match known findings
}

type Writer struct {
	Dir       string
	Header    string // Coq preamble: Require lines, scopes
	CaseType  string // Coq type of one case
	Checks    []Check
	ShardSize int

	terms  []string
	cases  []any
	seen   map[string]bool
	Stats  Stats
	nontri int
}

// Check names a boolean function over a case evaluated by Coq; failing indices are printed under Name.
type Check struct{ Name, Fn string }

func New(dir, header, caseType string, checks []Check) *Writer {
	return &Writer{Dir: dir, Header: header, CaseType: caseType, Checks: checks, ShardSize: 400,
		seen: map[string]bool{}, Stats: Stats{Distribution: map[string]int{}}}
}

// Add records one case: its Coq term, its replayable JSON form, whether it is non-trivial by the
// driver's rule, and distribution tags.
func (w *Writer) Add(term string, js any, nontrivial bool, tags ...string) int {
	idx := len(w.terms)
	w.terms = append(w.terms, term)
	w.cases = append(w.cases, js)
	w.Stats.Evaluations++
	h := sha256.Sum256([]byte(term))
	k := hex.EncodeToString(h[:8])
	if nontrivial && !w.seen[k] {
		w.seen[k] = true
		w.Stats.DistinctNontrivial++
	}
	for _, t := range tags {
		w.Stats.Distribution[t]++
	}
	if len(w.Stats.Samples) < 3 && nontrivial {
		w.Stats.Samples = append(w.Stats.Samples, js)
	}
	return idx
}

func (w *Writer) Violation(idx int, what, key string) {
	w.Stats.GoViolations = append(w.Stats.GoViolations, GoViolation{idx, what, key})
}

func (w *Writer) Flush() error {
	if err := os.MkdirAll(w.Dir, 0o755); err != nil {
		return err
	}
	n := len(w.terms)
	shard := 0
	for lo := 0; lo < n || (n == 0 && shard == 0); lo += w.ShardSize {
		hi := lo + w.ShardSize
		if hi > n {
			hi = n
		}
		var b strings.Builder
		b.WriteString(w.Header)
		fmt.Fprintf(&b, "\nDefinition cases : list (%s) := [\n", w.CaseType)
		for i := lo; i < hi; i++ {
			b.WriteString("  ")
			b.WriteString(w.terms[i])
			if i+1 < hi {
				b.WriteString(";")
			}
			b.WriteString("\n")
		}
		b.WriteString("].\n")
		for _, c := range w.Checks {
			fmt.Fprintf(&b, "Definition %s := Eval vm_compute in GS.Base.failing_idx (%s) %d%%N cases.\nPrint %s.\n", c.Name, c.Fn, lo, c.Name)
		}
		if err := os.WriteFile(filepath.Join(w.Dir, fmt.Sprintf("cases_%03d.v", shard)), []byte(b.String()), 0o644); err != nil {
			return err
		}
		shard++
		if n == 0 {
			break
		}
	}
	cj, _ := json.Marshal(w.cases)
	if err := os.WriteFile(filepath.Join(w.Dir, "cases.json"), cj, 0o644); err != nil {
		return err
	}
	if w.Stats.GoViolations == nil {
		w.Stats.GoViolations = []GoViolation{}
	}
	if w.Stats.Samples == nil {
		w.Stats.Samples = []any{}
	}
	sj, _ := json.MarshalIndent(w.Stats, "", " ")
	return os.WriteFile(filepath.Join(w.Dir, "stats.json"), sj, 0o644)
}

// ---- Coq term helpers ----

func N(x uint64) string { return fmt.Sprintf("%d", x) }

func Bool(b bool) string {
	if b {
		return "true"
	}
	return "false"
}

func List(xs []string) string { return "[" + strings.Join(xs, "; ") + "]" }

func NList(xs []uint64) string {
	s := make([]string, len(xs))
	for i, x := range xs {
		s[i] = N(x)
	}
	return List(s)
}

func SortedKeys[V any](m map[string]V) []string {
	ks := make([]string, 0, len(m))
	for k := range m {
		ks = append(ks, k)
	}
	sort.Strings(ks)
	return ks
}
