package dag

import (
	"bytes"
	"fmt"

	"github.com/ipfs/go-cid"
	"github.com/ipld/go-ipld-prime/codec/dagcbor"
	"github.com/ipld/go-ipld-prime/datamodel"
	"github.com/ipld/go-ipld-prime/fluent/qp"
	cidlink "github.com/ipld/go-ipld-prime/linking/cid"
	basicnode "github.com/ipld/go-ipld-prime/node/basic"
)

// ChainSalt is Chain with a salt in every block, so that chains of different salts share no block
func ChainSalt(n int, salt int64) *DAG {
	d := &DAG{Blocks: make([]Block, n)}
	for i := n - 1; i >= 0; i-- {
		node, _ := qp.BuildMap(basicnode.Prototype.Any, -1, func(ma datamodel.MapAssembler) {
			qp.MapEntry(ma, "v", qp.Int(int64(i)))
			qp.MapEntry(ma, "s", qp.Int(salt))
			if i+1 < n {
				qp.MapEntry(ma, "next", qp.Link(cidlink.Link{Cid: d.Blocks[i+1].Cid}))
			}
		})
		var buf bytes.Buffer
		_ = dagcbor.Encode(node, &buf)
		d.Blocks[i] = Block{Cid: mkCid(cid.DagCBOR, buf.Bytes(), false), Data: buf.Bytes()}
		if i+1 < n {
			d.Blocks[i].Kids = []int{i + 1}
		}
	}
	d.Shape = fmt.Sprintf("chain=%d salt=%d", n, salt)
	return d
}
