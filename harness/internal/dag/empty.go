package dag

// GenEmptyLeaf builds a root with links to a zero-length raw block (index 1) and ordinary raw leaves (2..).

import (
	"bytes"
	"fmt"

	"github.com/ipfs/go-cid"
	"github.com/ipld/go-ipld-prime/codec/dagcbor"
	"github.com/ipld/go-ipld-prime/datamodel"
	"github.com/ipld/go-ipld-prime/fluent/qp"
	cidlink "github.com/ipld/go-ipld-prime/linking/cid"
	"github.com/ipld/go-ipld-prime/node/basicnode"

	"verif/harness/internal/rng"
)

func GenEmptyLeaf(r *rng.R) *DAG {
	n := r.Range(2, 5)
	d := &DAG{Blocks: make([]Block, n)}
	d.Blocks[1] = Block{Cid: mkCid(cid.Raw, []byte{}, false), Data: []byte{}}
	for i := 2; i < n; i++ {
		data := []byte(fmt.Sprintf("leaf-next-to-empty-%d-%d", i, r.Intn(100000)))
		d.Blocks[i] = Block{Cid: mkCid(cid.Raw, data, false), Data: data}
	}
	emptyAt := r.Intn(n - 1)
	order := []int{}
	for i := 2; i < n; i++ {
		order = append(order, i)
	}
	order = append(order[:emptyAt], append([]int{1}, order[emptyAt:]...)...)
	node, err := qp.BuildMap(basicnode.Prototype.Any, -1, func(ma datamodel.MapAssembler) {
		qp.MapEntry(ma, "kids", qp.List(-1, func(la datamodel.ListAssembler) {
			for _, k := range order {
				qp.ListEntry(la, qp.Link(cidlink.Link{Cid: d.Blocks[k].Cid}))
			}
		}))
	})
	if err != nil {
		panic(err)
	}
	var buf bytes.Buffer
	if err := dagcbor.Encode(node, &buf); err != nil {
		panic(err)
	}
	d.Blocks[0] = Block{Cid: mkCid(cid.DagCBOR, buf.Bytes(), false), Data: buf.Bytes(), Kids: order}
	d.Shape = fmt.Sprintf("empty-raw-leaf blocks=%d", n)
	return d
}
