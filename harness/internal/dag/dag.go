// Package dag generates small random DAGs as real IPLD blocks (dag-cbor interior nodes, raw leaves,
// shared children, links held by inline nodes, identity-hash and empty blocks) plus selectors.
package dag

import (
	"bytes"
	"fmt"

	"github.com/ipfs/go-cid"
	"github.com/ipld/go-ipld-prime"
	"github.com/ipld/go-ipld-prime/codec/dagcbor"
	_ "github.com/ipld/go-ipld-prime/codec/raw"
	"github.com/ipld/go-ipld-prime/datamodel"
	"github.com/ipld/go-ipld-prime/fluent/qp"
	cidlink "github.com/ipld/go-ipld-prime/linking/cid"
	"github.com/ipld/go-ipld-prime/node/basicnode"
	"github.com/ipld/go-ipld-prime/traversal/selector"
	"github.com/ipld/go-ipld-prime/traversal/selector/builder"
	mh "github.com/multiformats/go-multihash"

	"verif/harness/internal/rng"
)

// Block is one block of a generated DAG
type Block struct {
	Cid  cid.Cid
	Data []byte
	Kids []int // indices (into DAG.Blocks) of linked blocks, in link order
}

type DAG struct {
	Blocks []Block // Blocks[0] is the root
	Shape  string  // description for evidence
}

func (d *DAG) Root() ipld.Link { return cidlink.Link{Cid: d.Blocks[0].Cid} }

func (d *DAG) Index(c cid.Cid) int {
	for i, b := range d.Blocks {
		if b.Cid.Equals(c) {
			return i
		}
	}
	return -1
}

func mkCid(codec uint64, data []byte, identity bool) cid.Cid {
	code := uint64(mh.SHA2_256)
	if identity {
		code = mh.IDENTITY
	}
	h, err := mh.Sum(data, code, -1)
	if err != nil {
		panic(err)
	}
	return cid.NewCidV1(codec, h)
}

type Opts struct {
	MaxBlocks   int
	MaxFanout   int
	Shared      bool // allow a child to be linked from several parents / twice
	Inline      bool // allow links inside inline (nested) maps, so that paths grow by more than one segment
	Identity    bool // allow identity-hash leaves
	EmptyLeaves bool // allow zero-length raw leaves
}

// Gen builds a random DAG bottom-up: node i may link only to nodes with a larger index (acyclic).
func Gen(r *rng.R, o Opts) *DAG {
	n := r.Range(1, o.MaxBlocks)
	d := &DAG{Blocks: make([]Block, n)}
	// choose children first
	kids := make([][]int, n)
	hasParent := make([]bool, n)
	for i := 0; i < n; i++ {
		if i+1 >= n {
			break
		}
		f := r.Range(0, o.MaxFanout)
		for j := 0; j < f; j++ {
			var c int
			if o.Shared && r.P(1, 4) {
				c = r.Range(i+1, n-1)
			} else {
				// prefer an orphan
				c = -1
				for k := i + 1; k < n; k++ {
					if !hasParent[k] {
						c = k
						break
					}
				}
				if c < 0 {
					if !o.Shared {
						break
					}
					c = r.Range(i+1, n-1)
				}
			}
			hasParent[c] = true
			kids[i] = append(kids[i], c)
		}
	}
	// attach remaining orphans to the root chain so that everything is reachable
	for k := 1; k < n; k++ {
		if !hasParent[k] {
			p := r.Range(0, k-1)
			kids[p] = append(kids[p], k)
			hasParent[k] = true
		}
	}
	// build blocks from the leaves up
	for i := n - 1; i >= 0; i-- {
		if len(kids[i]) == 0 && i > 0 && r.P(1, 2) {
			// raw leaf
			var data []byte
			switch {
			case o.EmptyLeaves && r.P(1, 6):
				data = []byte{}
			default:
				data = []byte(fmt.Sprintf("leaf-%d-%d", i, r.Intn(1000)))
			}
			id := o.Identity && r.P(1, 5)
			d.Blocks[i] = Block{Cid: mkCid(cid.Raw, data, id), Data: data}
			continue
		}
		ks := kids[i]
		inlineAt := -1
		if o.Inline && len(ks) > 0 && r.P(1, 3) {
			inlineAt = r.Intn(len(ks))
		}
		node, err := qp.BuildMap(basicnode.Prototype.Any, -1, func(ma datamodel.MapAssembler) {
			qp.MapEntry(ma, "v", qp.Int(int64(i)))
			qp.MapEntry(ma, "kids", qp.List(-1, func(la datamodel.ListAssembler) {
				for j, k := range ks {
					if j == inlineAt {
						qp.ListEntry(la, qp.Map(-1, func(ma datamodel.MapAssembler) {
							qp.MapEntry(ma, "tag", qp.String("inline"))
							qp.MapEntry(ma, "l", qp.Link(cidlink.Link{Cid: d.Blocks[k].Cid}))
						}))
					} else {
						qp.ListEntry(la, qp.Link(cidlink.Link{Cid: d.Blocks[k].Cid}))
					}
				}
			}))
		})
		if err != nil {
			panic(err)
		}
		var buf bytes.Buffer
		if err := dagcbor.Encode(node, &buf); err != nil {
			panic(err)
		}
		d.Blocks[i] = Block{Cid: mkCid(cid.DagCBOR, buf.Bytes(), false), Data: buf.Bytes(), Kids: ks}
	}
	d.Shape = fmt.Sprintf("blocks=%d", n)
	return d
}

// Chain builds a linear chain of n dag-cbor blocks (block i links to block i+1)
func Chain(n int) *DAG {
	d := &DAG{Blocks: make([]Block, n)}
	for i := n - 1; i >= 0; i-- {
		node, _ := qp.BuildMap(basicnode.Prototype.Any, -1, func(ma datamodel.MapAssembler) {
			qp.MapEntry(ma, "v", qp.Int(int64(i)))
			if i+1 < n {
				qp.MapEntry(ma, "next", qp.Link(cidlink.Link{Cid: d.Blocks[i+1].Cid}))
			}
		})
		var buf bytes.Buffer
		_ = dagcbor.Encode(node, &buf)
		d.Blocks[i] = Block{Cid: mkCid(cid.DagCBOR, buf.Bytes(), false), Data: buf.Bytes()}
		if i+1 < n {
			d.Blocks[i].Kids = []int{i + 1}
		}
	}
	d.Shape = fmt.Sprintf("chain=%d", n)
	return d
}

var ssb = builder.NewSelectorSpecBuilder(basicnode.Prototype.Any)

// Selector returns a random selector node and its description
func Selector(r *rng.R) (datamodel.Node, string) {
	switch r.Intn(6) {
	case 0:
		d := int64(r.Range(1, 6))
		return ssb.ExploreRecursive(selector.RecursionLimitDepth(d), ssb.ExploreAll(ssb.ExploreRecursiveEdge())).Node(), fmt.Sprintf("all-recursive(depth=%d)", d)
	case 1:
		// only the "kids" field, recursively
		return ssb.ExploreRecursive(selector.RecursionLimitNone(), ssb.ExploreFields(func(efsb builder.ExploreFieldsSpecBuilder) {
			efsb.Insert("kids", ssb.ExploreAll(ssb.ExploreUnion(ssb.ExploreRecursiveEdge(),
				ssb.ExploreFields(func(e2 builder.ExploreFieldsSpecBuilder) { e2.Insert("l", ssb.ExploreRecursiveEdge()) }))))
		})).Node(), "kids-recursive"
	case 2:
		// first two kids only
		return ssb.ExploreRecursive(selector.RecursionLimitDepth(8), ssb.ExploreFields(func(efsb builder.ExploreFieldsSpecBuilder) {
			efsb.Insert("kids", ssb.ExploreRange(0, 2, ssb.ExploreRecursiveEdge()))
		})).Node(), "first-two-kids"
	default:
		return ssb.ExploreRecursive(selector.RecursionLimitNone(), ssb.ExploreAll(ssb.ExploreRecursiveEdge())).Node(), "all-recursive"
	}
}

// AllSelector explores everything
func AllSelector() datamodel.Node {
	return ssb.ExploreRecursive(selector.RecursionLimitNone(), ssb.ExploreAll(ssb.ExploreRecursiveEdge())).Node()
}
