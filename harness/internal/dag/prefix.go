package dag

// GenPrefix builds DAGs whose link paths contain siblings where one path segment is a string prefix of the
// next one (map keys k / kk, a / ab, k1 / k10; list indices 1 / 10..12), the shorter one being a plain link and
// the longer one an inline node holding a link — so that "kids/1" is a string prefix of "kids/10/l" although it
// is not a prefix of it as a list of segments.  Block layout is fixed: 0 root, 1 X (short key), 2 Y (under the
// long key), 3 P (list index 1), 4 Q (under list index 10), 5.. further leaves.

import (
	"bytes"
	"fmt"

	"github.com/ipfs/go-cid"
	"github.com/ipld/go-ipld-prime/codec/dagcbor"
	"github.com/ipld/go-ipld-prime/datamodel"
	"github.com/ipld/go-ipld-prime/fluent/qp"
	cidlink "github.com/ipld/go-ipld-prime/linking/cid"
	"github.com/ipld/go-ipld-prime/node/basicnode"

	"verif/harness/internal/rng"
)

func GenPrefix(r *rng.R) *DAG {
	pairs := [][2]string{{"k", "kk"}, {"a", "ab"}, {"k1", "k10"}, {"m", "meta"}}
	pair := pairs[r.Intn(len(pairs))]
	nExtra := r.Range(0, 3)
	n := 5 + nExtra
	d := &DAG{Blocks: make([]Block, n)}
	for i := 1; i < n; i++ {
		data := []byte(fmt.Sprintf("prefix-leaf-%d-%d", i, r.Intn(100000)))
		d.Blocks[i] = Block{Cid: mkCid(cid.Raw, data, false), Data: data}
	}
	lnk := func(i int) qp.Assemble { return qp.Link(cidlink.Link{Cid: d.Blocks[i].Cid}) }
	inline := func(i int) qp.Assemble {
		return qp.Map(-1, func(ma datamodel.MapAssembler) {
			qp.MapEntry(ma, "l", lnk(i))
		})
	}
	listLen := r.Range(11, 13)
	node, err := qp.BuildMap(basicnode.Prototype.Any, -1, func(ma datamodel.MapAssembler) {
		qp.MapEntry(ma, pair[0], lnk(1))
		qp.MapEntry(ma, pair[1], inline(2))
		qp.MapEntry(ma, "z", qp.List(-1, func(la datamodel.ListAssembler) {
			extra := 5
			for i := 0; i < listLen; i++ {
				switch {
				case i == 1:
					qp.ListEntry(la, lnk(3))
				case i == 10:
					qp.ListEntry(la, inline(4))
				case i > 10 && extra < n:
					qp.ListEntry(la, inline(extra))
					extra++
				default:
					qp.ListEntry(la, qp.Int(int64(i)))
				}
			}
		}))
	})
	if err != nil {
		panic(err)
	}
	var buf bytes.Buffer
	if err := dagcbor.Encode(node, &buf); err != nil {
		panic(err)
	}
	kids := []int{1, 2, 3, 4}
	for i := 5; i < n; i++ {
		kids = append(kids, i)
	}
	d.Blocks[0] = Block{Cid: mkCid(cid.DagCBOR, buf.Bytes(), false), Data: buf.Bytes(), Kids: kids}
	d.Shape = fmt.Sprintf("prefix-siblings(%s/%s,list=%d) blocks=%d", pair[0], pair[1], listLen, n)
	return d
}
