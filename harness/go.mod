module verif/harness

go 1.25.7

require (
	github.com/ipfs/go-block-format v0.2.4
	github.com/ipfs/go-cid v0.6.2
	github.com/ipfs/go-graphsync v0.0.0
	github.com/ipfs/go-peertaskqueue v0.8.3
	github.com/ipld/go-ipld-prime v0.24.0
	github.com/libp2p/go-libp2p v0.48.0
	github.com/libp2p/go-msgio v0.3.0
	github.com/multiformats/go-multihash v0.2.3
	github.com/multiformats/go-varint v0.1.0
	go.opentelemetry.io/otel/trace v1.44.0
)

require (
	github.com/benbjohnson/clock v1.3.5 // indirect
	github.com/beorn7/perks v1.0.1 // indirect
	github.com/cespare/xxhash/v2 v2.3.0 // indirect
	github.com/decred/dcrd/dcrec/secp256k1/v4 v4.4.1 // indirect
	github.com/go-logr/logr v1.4.3 // indirect
	github.com/go-logr/stdr v1.2.2 // indirect
	github.com/google/uuid v1.6.0 // indirect
	github.com/hannahhoward/go-pubsub v0.0.0-20200423002714-8d62886cc36e // indirect
	github.com/huin/goupnp v1.3.0 // indirect
	github.com/ipfs/boxo v0.41.0 // indirect
	github.com/ipfs/go-ipfs-pq v0.0.4 // indirect
	github.com/ipfs/go-log/v2 v2.9.2 // indirect
	github.com/ipld/go-codec-dagpb v1.7.0 // indirect
	github.com/jackpal/go-nat-pmp v1.0.2 // indirect
	github.com/klauspost/cpuid/v2 v2.3.0 // indirect
	github.com/koron/go-ssdp v0.0.6 // indirect
	github.com/libp2p/go-buffer-pool v0.1.0 // indirect
	github.com/libp2p/go-libp2p-asn-util v0.4.1 // indirect
	github.com/libp2p/go-netroute v0.4.0 // indirect
	github.com/mattn/go-isatty v0.0.22 // indirect
	github.com/mr-tron/base58 v1.3.0 // indirect
	github.com/multiformats/go-base32 v0.1.0 // indirect
	github.com/multiformats/go-base36 v0.2.0 // indirect
	github.com/multiformats/go-multiaddr v0.16.1 // indirect
	github.com/multiformats/go-multiaddr-fmt v0.1.0 // indirect
	github.com/multiformats/go-multibase v0.3.0 // indirect
	github.com/multiformats/go-multicodec v0.10.0 // indirect
	github.com/multiformats/go-multistream v0.6.1 // indirect
	github.com/munnerz/goautoneg v0.0.0-20191010083416-a7dc8b61c822 // indirect
	github.com/polydawn/refmt v0.90.0 // indirect
	github.com/prometheus/client_golang v1.23.2 // indirect
	github.com/prometheus/client_model v0.6.2 // indirect
	github.com/prometheus/common v0.67.5 // indirect
	github.com/prometheus/procfs v0.20.1 // indirect
	github.com/spaolacci/murmur3 v1.1.0 // indirect
	go.opentelemetry.io/auto/sdk v1.2.1 // indirect
	go.opentelemetry.io/otel v1.44.0 // indirect
	go.opentelemetry.io/otel/metric v1.44.0 // indirect
	go.uber.org/multierr v1.11.0 // indirect
	go.uber.org/zap v1.28.0 // indirect
	go.yaml.in/yaml/v2 v2.4.4 // indirect
	golang.org/x/crypto v0.53.0 // indirect
	golang.org/x/exp v0.0.0-20260603202125-055de637280b // indirect
	golang.org/x/net v0.55.0 // indirect
	golang.org/x/sync v0.22.0 // indirect
	golang.org/x/sys v0.46.0 // indirect
	golang.org/x/time v0.12.0 // indirect
	google.golang.org/protobuf v1.36.11 // indirect
	lukechampine.com/blake3 v1.4.1 // indirect
)

replace github.com/ipfs/go-graphsync => /repo
