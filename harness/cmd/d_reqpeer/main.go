// d_reqpeer drives the real requestmanager.RequestManager for C09 (responses from other peers cannot
// affect a request).
//
// The run loop, the request table, processResponses and every function it calls, the real response
// hook registry, the real response collectors, the real reconciled loaders and traversers are the
// code of /repo.  Scripted fakes stand only at the edges: the peer handler (records what is sent),
// the conn manager (records Unprotect = terminateRequest), the task queue (records pushes; the
// driver itself plays the executor that picks a task up, goes online, pauses, releases).
//
// Every step is synchronous: API calls that answer are waited for; ProcessResponses is followed by
// VerifSnapshot (verif hook), which is handled by the run loop after everything sent before it.
// A case is run twice: as generated, and with every response that does not come from the peer its
// request was sent to removed; the monitor requires identical observations.
package main

import (
	"bytes"
	"context"
	"errors"
	"fmt"
	"io"
	"math"
	"os"
	"os/exec"
	"path/filepath"
	"sort"
	"strconv"
	"strings"
	"sync"
	"time"

	blocks "github.com/ipfs/go-block-format"
	"github.com/ipfs/go-cid"
	"github.com/ipfs/go-peertaskqueue/peertask"
	"github.com/ipfs/go-peertaskqueue/peertracker"
	"github.com/ipld/go-ipld-prime"
	"github.com/ipld/go-ipld-prime/datamodel"
	cidlink "github.com/ipld/go-ipld-prime/linking/cid"
	"github.com/ipld/go-ipld-prime/node/basicnode"
	selectorparse "github.com/ipld/go-ipld-prime/traversal/selector/parse"
	"github.com/libp2p/go-libp2p/core/peer"
	mh "github.com/multiformats/go-multihash"

	"github.com/ipfs/go-graphsync"
	"github.com/ipfs/go-graphsync/listeners"
	gsmsg "github.com/ipfs/go-graphsync/message"
	"github.com/ipfs/go-graphsync/messagequeue"
	"github.com/ipfs/go-graphsync/persistenceoptions"
	"github.com/ipfs/go-graphsync/requestmanager"
	"github.com/ipfs/go-graphsync/requestmanager/executor"
	"github.com/ipfs/go-graphsync/requestmanager/hooks"

	"verif/harness/internal/cw"
	"verif/harness/internal/drv"
	"verif/harness/internal/rng"
)

// ---------------------------------------------------------------- case format (replayable)

type rpResp struct {
	ID     uint64      `json:"id"`
	Status int32       `json:"st"`
	MD     [][2]uint64 `json:"md,omitempty"` // (link, action) action: 0 Present 1 DuplicateNotSent 2 Missing 3 DuplicateDAGSkipped
	Exts   []uint64    `json:"ex,omitempty"` // sorted, distinct
}

type rpLabel struct {
	K      string      `json:"k"` // msg new gettask online release unpause cancel update
	ID     uint64      `json:"id,omitempty"`
	P      uint64      `json:"p,omitempty"`
	Paused bool        `json:"paused,omitempty"`
	Exts   []uint64    `json:"ex,omitempty"`
	From   uint64      `json:"from,omitempty"`
	Resps  []rpResp    `json:"rs,omitempty"`
	Blocks [][2]uint64 `json:"bl,omitempty"` // (link, data length)
}

type rpHook struct {
	P      uint64   `json:"p"`
	ID     uint64   `json:"id"`
	Status int32    `json:"st"`
	Exts   []uint64 `json:"ex,omitempty"`
	Err    uint64   `json:"err,omitempty"` // 0 none, 999 PauseRequest, else TerminateWithError
}

type rpCase struct {
	Hooks  []rpHook  `json:"hooks"`
	Labels []rpLabel `json:"labels"`
	E2E    *e2eSpec  `json:"e2e,omitempty"` // end-to-end differential case (see e2e.go); Labels is empty then
	Tags   []string  `json:"tags,omitempty"`
}

// ---------------------------------------------------------------- naming

func peerOf(n uint64) peer.ID { return peer.ID(fmt.Sprintf("peer-%d", n)) }
func peerNum(p peer.ID) uint64 {
	var n uint64
	if _, err := fmt.Sscanf(string(p), "peer-%d", &n); err != nil {
		return 77
	}
	return n
}

func ridOf(n uint64) graphsync.RequestID {
	b := make([]byte, 16)
	b[0] = 0xC9
	b[6] = 0x40 // uuid v4 shape
	b[8] = 0x80
	for i := 0; i < 8; i++ {
		b[15-i] = byte(n >> (8 * i))
	}
	id, err := graphsync.ParseRequestID(b)
	if err != nil {
		panic(err)
	}
	return id
}
func ridNum(id graphsync.RequestID) uint64 {
	b := id.Bytes()
	if len(b) != 16 || b[0] != 0xC9 {
		return 7777
	}
	var n uint64
	for i := 8; i < 16; i++ {
		n = n<<8 | uint64(b[i])
	}
	return n
}

func linkOf(n uint64) cid.Cid {
	h, _ := mh.Sum([]byte(fmt.Sprintf("c09-link-%d", n)), mh.SHA2_256, -1)
	return cid.NewCidV1(cid.Raw, h)
}

var linkNums = map[cid.Cid]uint64{}

func init() {
	for n := uint64(0); n < 64; n++ {
		linkNums[linkOf(n)] = n
	}
}

var actions = []graphsync.LinkAction{graphsync.LinkActionPresent, graphsync.LinkActionDuplicateNotSent, graphsync.LinkActionMissing, graphsync.LinkActionDuplicateDAGSkipped}

func actionNum(a graphsync.LinkAction) uint64 {
	for i, x := range actions {
		if x == a {
			return uint64(i)
		}
	}
	return 9
}

func extName(n uint64) graphsync.ExtensionName {
	return graphsync.ExtensionName(fmt.Sprintf("c09/ext-%d", n))
}

const extUniverse = 6

func errCode(err error) uint64 {
	if err == nil {
		return 0
	}
	var n uint64
	if _, e := fmt.Sscanf(err.Error(), "hook-error-%d", &n); e == nil {
		return n
	}
	switch err.(type) {
	case hooks.ErrPaused:
		return 999
	case graphsync.RequestClientCancelledErr:
		return 998
	case graphsync.RequestFailedBusyErr:
		return 31
	case graphsync.RequestFailedUnknownErr:
		return 32
	case graphsync.RequestFailedLegalErr:
		return 33
	case graphsync.RequestFailedContentNotFoundErr:
		return 34
	case graphsync.RequestCancelledErr:
		return 35
	}
	if _, e := fmt.Sscanf(err.Error(), "unknown response status code: %d", &n); e == nil {
		return n
	}
	return 55555
}

// ---------------------------------------------------------------- observations

type obsEvent struct {
	kind   string // hook send ctx term push done
	p      uint64
	id     uint64
	resp   string // Coq term of the response (hook)
	skind  string // Coq term of the send kind
	err    uint64
	hasErr bool
}

func (e obsEvent) term() string {
	switch e.kind {
	case "hook":
		return fmt.Sprintf("EvHook %s (%s)", num(e.p), e.resp)
	case "send":
		return fmt.Sprintf("EvSend %s %s (%s)", num(e.p), num(e.id), e.skind)
	case "ctx":
		return "EvCtxCancel " + num(e.id)
	case "term":
		return fmt.Sprintf("EvTerminate %s %s %s", num(e.id), num(e.p), optN(e.hasErr, e.err))
	case "push":
		return fmt.Sprintf("EvPush %s %s", num(e.p), num(e.id))
	case "done":
		return "EvTaskDone " + num(e.id)
	}
	return "EvTaskDone 424242"
}

type evlog struct {
	mu  sync.Mutex
	evs []obsEvent
}

func (l *evlog) add(e obsEvent) {
	l.mu.Lock()
	l.evs = append(l.evs, e)
	l.mu.Unlock()
}
func (l *evlog) take() []obsEvent {
	l.mu.Lock()
	defer l.mu.Unlock()
	out := l.evs
	l.evs = nil
	return out
}
func (l *evlog) countCancelSends(id uint64) int {
	l.mu.Lock()
	defer l.mu.Unlock()
	n := 0
	for _, e := range l.evs {
		if e.kind == "send" && e.id == id && e.skind == "KCancel" {
			n++
		}
	}
	return n
}

// Coq lists are written with the monomorphic constructors of ReqMgrMsg.v (cheap to elaborate)
func consList(cons, nilc string, xs []string) string {
	var b strings.Builder
	for _, x := range xs {
		b.WriteString("(" + cons + " " + x + " ")
	}
	b.WriteString(nilc)
	b.WriteString(strings.Repeat(")", len(xs)))
	return b.String()
}

// num writes a number: the constants n0..n40, n99..n102, n998, n999 of ReqMgrMsg.v, else a literal
func num(n uint64) string {
	if n <= 40 || (n >= 99 && n <= 102) || n == 998 || n == 999 {
		return fmt.Sprintf("n%d", n)
	}
	return fmt.Sprintf("%d", n)
}

func nlist(xs []uint64) string {
	ss := make([]string, len(xs))
	for i, x := range xs {
		ss[i] = num(x)
	}
	return consList("cN", "nN", ss)
}

func plist(ps [][2]uint64) string {
	ss := make([]string, len(ps))
	for i, p := range ps {
		ss[i] = num(p[0]) + " " + num(p[1])
	}
	return consList("cP", "nP", ss)
}

func optN(has bool, n uint64) string {
	if has {
		return "(sN " + num(n) + ")"
	}
	return "noN"
}

func respTerm(id uint64, status int32, md [][2]uint64, exts []uint64) string {
	st := uint64(uint32(status))
	return fmt.Sprintf("mk_resp %s %s %s %s", num(id), num(st), plist(md), nlist(exts))
}

func respDataTerm(rd graphsync.ResponseData) string {
	var md [][2]uint64
	rd.Metadata().Iterate(func(c cid.Cid, a graphsync.LinkAction) {
		n, ok := linkNums[c]
		if !ok {
			n = 999
		}
		md = append(md, [2]uint64{n, actionNum(a)})
	})
	var exts []uint64
	for n := uint64(1); n <= extUniverse; n++ {
		if _, ok := rd.Extension(extName(n)); ok {
			exts = append(exts, n)
		}
	}
	return respTerm(ridNum(rd.RequestID()), int32(rd.Status()), md, exts)
}

// ---------------------------------------------------------------- fakes at the edges

type fakePeerHandler struct{ log *evlog }

func (f *fakePeerHandler) AllocateAndBuildMessage(p peer.ID, blkSize uint64, fn func(*messagequeue.Builder)) {
	b := messagequeue.NewBuilder(context.Background(), messagequeue.Topic(0))
	fn(b)
	m, err := b.Build()
	if err != nil {
		panic(err)
	}
	for _, r := range m.Requests() {
		e := obsEvent{kind: "send", p: peerNum(p), id: ridNum(r.ID())}
		switch r.Type() {
		case graphsync.RequestTypeNew:
			e.skind = "KNew"
		case graphsync.RequestTypeCancel:
			e.skind = "KCancel"
		case graphsync.RequestTypeUpdate:
			var exts []uint64
			for n := uint64(1); n <= extUniverse; n++ {
				if _, ok := r.Extension(extName(n)); ok {
					exts = append(exts, n)
				}
			}
			e.skind = "KUpdate " + nlist(exts)
		default:
			e.skind = "KUnknown"
		}
		f.log.add(e)
	}
}

type fakeConnManager struct {
	log  *evlog
	tags map[string]uint64
	mu   sync.Mutex
}

func (f *fakeConnManager) Protect(p peer.ID, tag string) {}
func (f *fakeConnManager) Unprotect(p peer.ID, tag string) bool {
	f.mu.Lock()
	id, ok := f.tags[tag]
	f.mu.Unlock()
	if !ok {
		id = 8888
	}
	f.log.add(obsEvent{kind: "term", p: peerNum(p), id: id})
	return false
}

type fakeTaskQueue struct{ log *evlog }

func (f *fakeTaskQueue) PushTask(p peer.ID, task peertask.Task) {
	f.log.add(obsEvent{kind: "push", p: peerNum(p), id: ridNum(task.Topic.(graphsync.RequestID))})
}
func (f *fakeTaskQueue) TaskDone(p peer.ID, task *peertask.Task) {
	f.log.add(obsEvent{kind: "done", id: ridNum(task.Topic.(graphsync.RequestID))})
}
func (f *fakeTaskQueue) Remove(t peertask.Topic, p peer.ID)                                {}
func (f *fakeTaskQueue) Stats() graphsync.RequestStats                                     { return graphsync.RequestStats{} }
func (f *fakeTaskQueue) WithPeerTopics(p peer.ID, fn func(*peertracker.PeerTrackerTopics)) { fn(nil) }

// ---------------------------------------------------------------- running one history on the real RequestManager

type held struct {
	rt   executor.RequestTask
	task *peertask.Task
}

type reqChans struct {
	resp <-chan graphsync.ResponseProgress
	errs <-chan error
}

type stepObs struct {
	events []obsEvent
	tab    map[uint64]string // id -> Coq term "mk_entry ..."
	upd    []string          // "cSet id (entry)" / "cDel id" with respect to the previous step, sorted by id
	states map[uint64]string
	owners map[uint64]uint64
}

var errHang = errors.New("wait expired")

const waitLimit = 10 * time.Second

func runHistory(hookRows []rpHook, labels []rpLabel) (obs []stepObs, err error) {
	ctx, cancel := context.WithCancel(context.Background())
	defer cancel()
	log := &evlog{}
	fph := &fakePeerHandler{log}
	fcm := &fakeConnManager{log: log, tags: map[string]uint64{}}
	ftq := &fakeTaskQueue{log}
	respHooks := hooks.NewResponseHooks()
	respHooks.Register(func(p peer.ID, rd graphsync.ResponseData, ha graphsync.IncomingResponseHookActions) {
		log.add(obsEvent{kind: "hook", p: peerNum(p), id: ridNum(rd.RequestID()), resp: respDataTerm(rd)})
		pn, idn, st := peerNum(p), ridNum(rd.RequestID()), int32(rd.Status())
		for _, h := range hookRows {
			if h.P == pn && h.ID == idn && h.Status == st {
				if len(h.Exts) > 0 {
					var eds []graphsync.ExtensionData
					for _, x := range h.Exts {
						eds = append(eds, graphsync.ExtensionData{Name: extName(x), Data: basicnode.NewString("u")})
					}
					ha.UpdateRequestWithExtensions(eds...)
				}
				if pz, ok := ha.(interface{ PauseRequest() }); ok && h.Err == 999 {
					pz.PauseRequest() // not in the interface of response hooks, but the concrete actions object has it
				} else if h.Err != 0 {
					ha.TerminateWithError(fmt.Errorf("hook-error-%d", h.Err))
				}
				return
			}
		}
	})
	lsys := cidlink.DefaultLinkSystem()
	lsys.StorageReadOpener = func(ipld.LinkContext, datamodel.Link) (io.Reader, error) {
		return nil, errors.New("not in the local store")
	}
	lsys.StorageWriteOpener = func(ipld.LinkContext) (io.Writer, ipld.BlockWriteCommitter, error) {
		return io.Discard, func(datamodel.Link) error { return nil }, nil
	}
	rm := requestmanager.New(ctx, persistenceoptions.New(), lsys, hooks.NewRequestHooks(), respHooks,
		listeners.NewNetworkErrorListeners(), listeners.NewRequestProcessingListeners(), ftq, fcm, 0, nil)
	rm.SetDelegate(fph)
	rm.Startup()
	defer rm.Shutdown()

	heldTasks := map[uint64]held{}
	chans := map[uint64]reqChans{}
	owner := map[uint64]uint64{}

	for _, lb := range labels {
		switch lb.K {
		case "new":
			id := ridOf(lb.ID)
			fcm.mu.Lock()
			fcm.tags[id.Tag()] = lb.ID
			fcm.mu.Unlock()
			rctx := context.WithValue(ctx, graphsync.RequestIDContextKey{}, id)
			rc, ec := rm.NewRequest(rctx, peerOf(lb.P), cidlink.Link{Cid: linkOf(0)}, selectorparse.CommonSelector_ExploreAllRecursively)
			chans[lb.ID] = reqChans{rc, ec}
			owner[lb.ID] = lb.P
		case "gettask":
			p, ok := owner[lb.ID]
			if !ok {
				p = 1
			}
			task := &peertask.Task{Topic: ridOf(lb.ID), Priority: math.MaxInt32, Work: 1}
			ch := make(chan executor.RequestTask)
			rm.GetRequestTask(peerOf(p), task, ch)
			select {
			case rt := <-ch:
				if !rt.Empty {
					heldTasks[lb.ID] = held{rt, task}
				}
			case <-time.After(waitLimit):
				return obs, errHang
			}
		case "online":
			if h, ok := heldTasks[lb.ID]; ok {
				h.rt.ReconciledLoader.SetRemoteOnline(true)
				rm.SendRequest(h.rt.P, h.rt.Request)
			}
		case "release":
			if h, ok := heldTasks[lb.ID]; ok {
				var rerr error
				if lb.Paused {
					// what executor.ExecuteTask does for a traversal that ended with ErrPaused
					rm.SendRequest(h.rt.P, gsmsg.NewCancelRequest(h.rt.Request.ID()))
					h.rt.ReconciledLoader.SetRemoteOnline(false)
					rerr = hooks.ErrPaused{}
				}
				rm.ReleaseRequestTask(h.rt.P, h.task, rerr)
				delete(heldTasks, lb.ID)
			}
		case "unpause":
			_ = rm.UnpauseRequest(ctx, ridOf(lb.ID))
		case "update":
			var eds []graphsync.ExtensionData
			for _, x := range lb.Exts {
				eds = append(eds, graphsync.ExtensionData{Name: extName(x), Data: basicnode.NewString("a")})
			}
			_ = rm.UpdateRequest(ctx, ridOf(lb.ID), eds...)
		case "cancel":
			if _, running := heldTasks[lb.ID]; !running {
				// answers at once: unknown id, or a queued/paused request is terminated inside the handler
				_ = rm.CancelRequest(ctx, ridOf(lb.ID))
			} else {
				// a running request is only marked; CancelRequest answers when the executor releases it
				before := log.countCancelSends(lb.ID)
				go func(id graphsync.RequestID) { _ = rm.CancelRequest(ctx, id) }(ridOf(lb.ID))
				deadline := time.Now().Add(waitLimit)
				for log.countCancelSends(lb.ID) == before {
					if time.Now().After(deadline) {
						return obs, errHang
					}
					time.Sleep(20 * time.Microsecond) // polling a condition, not a synchronisation by delay
				}
			}
		case "msg":
			var rs []gsmsg.GraphSyncResponse
			for _, r := range lb.Resps {
				var md []gsmsg.GraphSyncLinkMetadatum
				for _, m := range r.MD {
					md = append(md, gsmsg.GraphSyncLinkMetadatum{Link: linkOf(m[0]), Action: actions[m[1]%4]})
				}
				var eds []graphsync.ExtensionData
				for _, x := range r.Exts {
					eds = append(eds, graphsync.ExtensionData{Name: extName(x), Data: basicnode.NewString("r")})
				}
				rs = append(rs, gsmsg.NewResponse(ridOf(r.ID), graphsync.ResponseStatusCode(r.Status), md, eds...))
			}
			var bs []blocks.Block
			for _, b := range lb.Blocks {
				blk, berr := blocks.NewBlockWithCid(make([]byte, b[1]), linkOf(b[0]))
				if berr != nil {
					return obs, berr
				}
				bs = append(bs, blk)
			}
			rm.ProcessResponses(peerOf(lb.From), rs, bs)
		default:
			return obs, fmt.Errorf("unknown label kind %q", lb.K)
		}
		// sentinel: handled by the run loop after everything sent to it above
		snap := rm.VerifSnapshot()
		evs := log.take()
		// terminated requests: the error channel carries the terminal error and both channels close
		for i := range evs {
			if evs[i].kind != "term" {
				continue
			}
			c, ok := chans[evs[i].id]
			if !ok {
				continue
			}
			var got []uint64
			timeout := time.After(waitLimit)
		drainErrs:
			for {
				select {
				case e, open := <-c.errs:
					if !open {
						break drainErrs
					}
					got = append(got, errCode(e))
				case <-timeout:
					return obs, errHang
				}
			}
		drainResps:
			for {
				select {
				case _, open := <-c.resp:
					if !open {
						break drainResps
					}
					got = append(got, 66666) // no data can have been produced: nothing was ever loaded
				case <-timeout:
					return obs, errHang
				}
			}
			switch len(got) {
			case 0:
			case 1:
				evs[i].hasErr, evs[i].err = true, got[0]
			default:
				evs[i].hasErr, evs[i].err = true, 77777
			}
			delete(chans, evs[i].id)
		}
		so := stepObs{events: evs, states: map[uint64]string{}, owners: map[uint64]uint64{}, tab: map[uint64]string{}}
		for _, e := range snap {
			so.tab[ridNum(e.ID)] = entryTerm(e)
			so.states[ridNum(e.ID)] = e.State.String()
			so.owners[ridNum(e.ID)] = peerNum(e.Peer)
		}
		prev := map[uint64]string{}
		if len(obs) > 0 {
			prev = obs[len(obs)-1].tab
		}
		ids := map[uint64]bool{}
		for id := range prev {
			ids[id] = true
		}
		for id := range so.tab {
			ids[id] = true
		}
		var sorted []uint64
		for id := range ids {
			sorted = append(sorted, id)
		}
		sort.Slice(sorted, func(i, j int) bool { return sorted[i] < sorted[j] })
		for _, id := range sorted {
			now, in := so.tab[id]
			switch {
			case !in:
				so.upd = append(so.upd, "cDel "+num(id))
			case prev[id] != now:
				so.upd = append(so.upd, fmt.Sprintf("cSet %s (%s)", num(id), now))
			}
		}
		obs = append(obs, so)
	}
	return obs, nil
}

func entryTerm(e requestmanager.VerifEntry) string {
	state := "Queued"
	switch e.State {
	case graphsync.Running:
		state = "Running"
	case graphsync.Paused:
		state = "Paused"
	}
	term := optN(e.TerminalError != nil, errCode(e.TerminalError))
	loader := "noLd"
	if e.HasLoader {
		items := make([]string, len(e.LoaderQueue))
		for i, it := range e.LoaderQueue {
			n, ok := linkNums[it.Link]
			if !ok {
				n = 999
			}
			items[i] = fmt.Sprintf("%s %s %s", num(n), num(actionNum(it.Action)), optN(it.HasBlock, uint64(it.BlockLen)))
		}
		loader = fmt.Sprintf("(sLd %s %s)", cw.Bool(e.LoaderOpen), consList("cQ", "nQ", items))
	}
	return fmt.Sprintf("mk_entry %s %s %s %s (%s) %s", num(peerNum(e.Peer)), state, term,
		cw.Bool(e.CtxDone), respDataTerm(e.LastResponse), loader)
}

// ---------------------------------------------------------------- Coq terms

func labelTerm(lb rpLabel) string {
	switch lb.K {
	case "new":
		return fmt.Sprintf("LNew %s %s", num(lb.ID), num(lb.P))
	case "gettask":
		return "LGetTask " + num(lb.ID)
	case "online":
		return "LOnline " + num(lb.ID)
	case "release":
		return fmt.Sprintf("LRelease %s %s", num(lb.ID), cw.Bool(lb.Paused))
	case "unpause":
		return "LUnpause " + num(lb.ID)
	case "cancel":
		return "LCancel " + num(lb.ID)
	case "update":
		return fmt.Sprintf("LUpdate %s %s", num(lb.ID), nlist(lb.Exts))
	case "msg":
		rs := make([]string, len(lb.Resps))
		for i, r := range lb.Resps {
			md := make([][2]uint64, len(r.MD))
			for j, m := range r.MD {
				md[j] = [2]uint64{m[0], m[1] % 4}
			}
			rs[i] = "(" + respTerm(r.ID, r.Status, md, r.Exts) + ")"
		}
		return fmt.Sprintf("LMsg (mk_msg %s %s %s)", num(lb.From), consList("cR", "nR", rs), plist(lb.Blocks))
	}
	return "LGetTask 424242"
}

func obsTerm(obs []stepObs) string {
	ss := make([]string, len(obs))
	for i, o := range obs {
		evs := make([]string, len(o.events))
		for j, e := range o.events {
			evs[j] = "(" + e.term() + ")"
		}
		upd := "nU"
		for j := len(o.upd) - 1; j >= 0; j-- {
			upd = "(" + o.upd[j] + " " + upd + ")"
		}
		ss[i] = fmt.Sprintf("%s %s\n     ", consList("cEv", "nEv", evs), upd)
	}
	return consList("cO", "nO", ss)
}

func labelsTerm(lbs []rpLabel) string {
	ls := make([]string, len(lbs))
	for i, lb := range lbs {
		ls[i] = "(" + labelTerm(lb) + ")\n     "
	}
	return consList("cL", "nL", ls)
}

func hooksTerm(hs []rpHook) string {
	rows := make([]string, len(hs))
	for i, h := range hs {
		rows[i] = fmt.Sprintf("(mk_hrow %s %s %s %s %s)", num(h.P), num(h.ID), num(uint64(uint32(h.Status))), nlist(h.Exts), optN(h.Err != 0, h.Err))
	}
	return consList("cH", "nH", rows)
}

// cleanLabels removes from every message the responses whose sender is not the peer the request was
// sent to (requests are created once per id in a case, so ownership is a function of the id)
func cleanLabels(lbs []rpLabel) []rpLabel {
	owner := map[uint64]uint64{}
	for _, lb := range lbs {
		if lb.K == "new" {
			if _, dup := owner[lb.ID]; !dup {
				owner[lb.ID] = lb.P
			}
		}
	}
	out := make([]rpLabel, len(lbs))
	for i, lb := range lbs {
		out[i] = lb
		if lb.K != "msg" {
			continue
		}
		out[i].Resps = nil
		for _, r := range lb.Resps {
			if o, ok := owner[r.ID]; ok && o == lb.From {
				out[i].Resps = append(out[i].Resps, r)
			}
		}
	}
	return out
}

// ---------------------------------------------------------------- generator

var allStatuses = []int32{10, 11, 12, 13, 14, 15, 20, 21, 30, 31, 32, 33, 34, 35, 0, 99}

func sortedSubset(r *rng.R, max uint64, pEach int) []uint64 {
	var out []uint64
	for n := uint64(1); n <= max; n++ {
		if r.P(pEach, 100) {
			out = append(out, n)
		}
	}
	return out
}

func genResp(r *rng.R, id uint64) rpResp {
	x := rpResp{ID: id}
	switch {
	case r.P(45, 100):
		x.Status = 14
	case r.P(30, 100):
		x.Status = rng.Pick(r, []int32{20, 21, 30, 31, 32, 33, 34, 35})
	default:
		x.Status = rng.Pick(r, allStatuses)
	}
	for n := r.Intn(4); n > 0; n-- {
		a := uint64(0)
		if r.P(35, 100) {
			a = uint64(r.Intn(4))
		}
		x.MD = append(x.MD, [2]uint64{uint64(r.Range(1, 5)), a})
	}
	x.Exts = sortedSubset(r, 3, 30)
	return x
}

func genCase(r *rng.R, maxLabels int) rpCase {
	var c rpCase
	npeers := uint64(r.Range(2, 3))
	nextID := uint64(1)
	type live struct{ id, p uint64 }
	var reqs []live
	addNew := func(p uint64) {
		c.Labels = append(c.Labels, rpLabel{K: "new", ID: nextID, P: p})
		reqs = append(reqs, live{nextID, p})
		nextID++
	}
	addNew(1)
	for n := r.Intn(3); n > 0; n-- {
		if r.P(2, 3) {
			addNew(1)
		} else {
			addNew(uint64(r.Range(1, int(npeers))))
		}
	}
	// bring some of the initial requests to a later point of their life before the messages start
	for _, q := range append([]live(nil), reqs...) {
		if !r.P(3, 5) {
			continue
		}
		c.Labels = append(c.Labels, rpLabel{K: "gettask", ID: q.id})
		if r.P(3, 4) {
			c.Labels = append(c.Labels, rpLabel{K: "online", ID: q.id})
		}
		if r.P(1, 3) {
			c.Labels = append(c.Labels, rpLabel{K: "release", ID: q.id, Paused: true})
		}
	}
	pickID := func() uint64 {
		if r.P(1, 12) {
			return 9 // never created
		}
		return reqs[r.Intn(len(reqs))].id
	}
	n := r.Range(3, maxLabels)
	for i := 0; i < n; i++ {
		x := r.Intn(100)
		switch {
		case x < 50:
			lb := rpLabel{K: "msg"}
			// owner of a random request (a genuine message), or anybody
			if r.P(40, 100) {
				lb.From = reqs[r.Intn(len(reqs))].p
			} else {
				lb.From = uint64(r.Range(1, int(npeers)))
			}
			used := map[uint64]bool{}
			for k := r.Range(1, 3); k > 0; k-- {
				id := pickID()
				if used[id] {
					continue
				}
				used[id] = true
				lb.Resps = append(lb.Resps, genResp(r, id))
			}
			for k := r.Intn(4); k > 0; k-- {
				lb.Blocks = append(lb.Blocks, [2]uint64{uint64(r.Range(1, 5)), uint64(r.Range(1, 9))})
			}
			c.Labels = append(c.Labels, lb)
		case x < 63:
			c.Labels = append(c.Labels, rpLabel{K: "gettask", ID: pickID()})
		case x < 75:
			c.Labels = append(c.Labels, rpLabel{K: "online", ID: pickID()})
		case x < 82:
			c.Labels = append(c.Labels, rpLabel{K: "release", ID: pickID(), Paused: r.P(2, 3)})
		case x < 87:
			c.Labels = append(c.Labels, rpLabel{K: "unpause", ID: pickID()})
		case x < 91:
			c.Labels = append(c.Labels, rpLabel{K: "cancel", ID: pickID()})
		case x < 95:
			c.Labels = append(c.Labels, rpLabel{K: "update", ID: pickID(), Exts: sortedSubset(r, 3, 40)})
		default:
			addNew(uint64(r.Range(1, int(npeers))))
		}
	}
	// hook rows: keyed on (peer, id, status) pairs that occur in the messages, so that they fire
	type key struct {
		p, id uint64
		st    int32
	}
	seen := map[key]bool{}
	for _, lb := range c.Labels {
		if lb.K != "msg" {
			continue
		}
		for _, x := range lb.Resps {
			k := key{lb.From, x.ID, x.Status}
			if seen[k] || !r.P(55, 100) {
				continue
			}
			seen[k] = true
			h := rpHook{P: k.p, ID: k.id, Status: k.st}
			switch y := r.Intn(10); {
			case y < 4:
				h.Exts = sortedSubset(r, 3, 50)
				if len(h.Exts) == 0 {
					h.Exts = []uint64{2}
				}
			case y < 7:
				h.Err = uint64(100 + r.Intn(3))
			case y < 8:
				h.Err = 999
			default:
				h.Exts = []uint64{1}
				h.Err = uint64(100 + r.Intn(3))
			}
			c.Hooks = append(c.Hooks, h)
		}
	}
	return c
}

// ---------------------------------------------------------------- main

const header = `From Coq Require Import List NArith Bool.
From GS Require Import Base ReqMgrMsg.
Import ListNotations.
Open Scope N_scope.
`

func run(c *drv.Ctx) error {
	w := cw.New(c.Out, header, "rcase", []cw.Check{
		{Name: "MISMATCH", Fn: "rcase_agrees"},
		{Name: "MON09", Fn: "rcase_mon"},
	})
	w.ShardSize = 70
	w.Stats.Rule = "histories of the real RequestManager run loop: 1-4 requests to 2-3 peers driven through their life cycle " +
		"(queued, picked up, online, paused, unpaused, cancelled, released), interleaved with response messages from every peer " +
		"carrying live, finished and unknown request ids, every status code, metadata, blocks and extensions, with response hooks " +
		"scripted per (peer, id, status) to return update extensions / errors / pause; each history is also run with the foreign " +
		"responses removed. non-trivial = some response from a non-owner targets a request that is in the table AND some response hook ran; " +
		"distinct = distinct (history, observation) terms. kind:e2e cases: real task queue + executor + traverser fetch a 3-7 block chain from peer 1 in 1-7 response messages with 1-4 messages from peers 2/3 under the request's id interleaved; run with and without them, all requestor behaviour for the request compared"
	sup := childSupervision()
	add := func(rc rpCase, kind string) error {
		var obs, obsClean []stepObs
		var err error
		clean := cleanLabels(rc.Labels)
		if sup.stop(w.Stats.Evaluations) {
			return nil
		}
		if sup.poisoned(w.Stats.Evaluations) {
			// an earlier attempt died (panic in the code under test) while this history was running
			rc.Tags = []string{"kind:" + kind, "crashed"}
			idx := w.Add(fmt.Sprintf("mk_rcase %s\n    %s nO nO", hooksTerm(rc.Hooks), labelsTerm(rc.Labels)), rc, false, rc.Tags...)
			w.Violation(idx, "the process died (panic in the request manager) while this history was running", "reqpeer-panic")
			return nil
		}
		sup.begin(w.Stats.Evaluations)
		if rc.E2E != nil {
			// evaluated on the Go side: identical behaviour with and without the foreign messages
			viol, tags, eerr := runE2ECase(rc)
			if eerr != nil {
				return eerr
			}
			rc.Tags = tags
			idx := w.Add("mk_rcase nH nL nO nO", rc, true, tags...)
			if viol != "" {
				w.Violation(idx, viol, "reqpeer-e2e")
			}
			return nil
		}
		for attempt := 0; attempt < 2; attempt++ {
			obs, err = runHistory(rc.Hooks, rc.Labels)
			if err == nil {
				obsClean, err = runHistory(rc.Hooks, clean)
			}
			if err != errHang {
				break
			}
		}
		if err != nil && err != errHang {
			return err
		}
		// the clean run's observations are written once when they are, as terms, those of the full run
		ot, oct := obsTerm(obs), obsTerm(obsClean)
		var term string
		if ot == oct {
			term = fmt.Sprintf("(let o := %s in\n    mk_rcase %s\n    %s\n    o o)", ot, hooksTerm(rc.Hooks), labelsTerm(rc.Labels))
		} else {
			term = fmt.Sprintf("mk_rcase %s\n    %s\n    %s\n    %s", hooksTerm(rc.Hooks), labelsTerm(rc.Labels), ot, oct)
		}
		tags := []string{"kind:" + kind}
		foreignLive, hookRan := 0, false
		for i, lb := range rc.Labels {
			if i >= len(obs) {
				break
			}
			for _, e := range obs[i].events {
				if e.kind == "hook" {
					hookRan = true
				}
			}
			if lb.K != "msg" || i == 0 {
				continue
			}
			for _, x := range lb.Resps {
				if o, ok := obs[i-1].owners[x.ID]; ok && o != lb.From {
					foreignLive++
					tags = append(tags, "foreign-response-at:"+obs[i-1].states[x.ID])
					tags = append(tags, fmt.Sprintf("foreign-status:%d", x.Status))
					for _, h := range rc.Hooks {
						if h.P == lb.From && h.ID == x.ID && h.Status == x.Status {
							if len(h.Exts) > 0 {
								tags = append(tags, "foreign-response-with-hook-row:extensions")
							}
							if h.Err != 0 {
								tags = append(tags, "foreign-response-with-hook-row:error")
							}
						}
					}
				} else if ok {
					tags = append(tags, "owner-response-at:"+obs[i-1].states[x.ID])
				} else {
					tags = append(tags, "response-for-absent-id")
				}
			}
		}
		tags = dedup(tags)
		rc.Tags = tags
		idx := w.Add(term, rc, foreignLive > 0 && hookRan, tags...)
		if err == errHang {
			w.Violation(idx, "the request manager did not answer within 10s (twice)", "reqpeer-hang")
		}
		return nil
	}
	if c.Replay != "" {
		var rc rpCase
		if err := drv.ReplayCase(c.Replay, &rc); err != nil {
			return err
		}
		if err := add(rc, "replay"); err != nil {
			return err
		}
		return w.Flush()
	}
	for _, f := range c.CorpusFiles("reqpeer") {
		var rc rpCase
		if err := drv.ReplayCase(f, &rc); err != nil {
			return fmt.Errorf("%s: %w", f, err)
		}
		if err := add(rc, "corpus"); err != nil {
			return err
		}
	}
	n := c.Count(500, 9000)
	for i := 0; i < n; i++ {
		r := c.R.Fork()
		maxLabels := 14
		if r.P(1, 5) {
			maxLabels = 30
		}
		if err := add(genCase(r, maxLabels), "generated"); err != nil {
			return err
		}
	}
	ne := c.Count(40, 500)
	if c.N > 0 {
		ne = c.N / 10
	}
	for i := 0; i < ne; i++ {
		if err := add(genE2E(c.R.Fork()), "e2e"); err != nil {
			return err
		}
	}
	return w.Flush()
}

func dedup(xs []string) []string {
	seen := map[string]bool{}
	var out []string
	for _, x := range xs {
		if !seen[x] {
			seen[x] = true
			out = append(out, x)
		}
	}
	return out
}

// ---------------------------------------------------------------- crash containment
// A panic in the run loop of the code under test kills the process.  The command therefore runs
// itself as a child; when the child dies, the history it was running is recorded as a violation
// (with the history as the replay) and the child is started again, skipping that history.

type supervision struct {
	progress string
	poison   map[int]bool
	stopAt   int
}

func childSupervision() *supervision {
	s := &supervision{progress: os.Getenv("D_REQPEER_PROGRESS"), poison: map[int]bool{}, stopAt: -1}
	for _, f := range strings.Split(os.Getenv("D_REQPEER_POISON"), ",") {
		if n, err := strconv.Atoi(f); err == nil {
			s.poison[n] = true
		}
	}
	if n, err := strconv.Atoi(os.Getenv("D_REQPEER_STOPAT")); err == nil {
		s.stopAt = n
	}
	return s
}
func (s *supervision) poisoned(i int) bool { return s.poison[i] }
func (s *supervision) stop(i int) bool     { return s.stopAt >= 0 && i > s.stopAt }
func (s *supervision) begin(i int) {
	if s.progress != "" {
		_ = os.WriteFile(s.progress, []byte(strconv.Itoa(i)), 0o644)
	}
}

func supervise() int {
	out := ""
	for i, a := range os.Args {
		if (a == "-out" || a == "--out") && i+1 < len(os.Args) {
			out = os.Args[i+1]
		}
	}
	if out == "" {
		fmt.Fprintln(os.Stderr, "-out required")
		return 2
	}
	_ = os.MkdirAll(out, 0o755)
	progress := filepath.Join(out, "progress")
	var poison []string
	stopAt := ""
	for attempt := 0; ; attempt++ {
		_ = os.Remove(progress)
		cmd := exec.Command(os.Args[0], os.Args[1:]...)
		cmd.Env = append(os.Environ(), "D_REQPEER_CHILD=1", "D_REQPEER_PROGRESS="+progress,
			"D_REQPEER_POISON="+strings.Join(poison, ","), "D_REQPEER_STOPAT="+stopAt)
		var stderr bytes.Buffer
		cmd.Stdout, cmd.Stderr = os.Stdout, &stderr
		err := cmd.Run()
		if err == nil {
			_ = os.Remove(progress)
			return 0
		}
		b, rerr := os.ReadFile(progress)
		if rerr != nil || attempt >= 8 {
			os.Stderr.Write(stderr.Bytes())
			return 2
		}
		idx := strings.TrimSpace(string(b))
		poison = append(poison, idx)
		if len(poison) >= 4 {
			stopAt = idx // enough evidence: end the run at the last history that crashed
		}
	}
}

func main() {
	if os.Getenv("D_REQPEER_CHILD") == "" {
		os.Exit(supervise())
	}
	drv.Main("reqpeer", run)
}
