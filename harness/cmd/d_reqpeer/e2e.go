package main

// End-to-end differential cases for C09: the real RequestManager with the real task queue, executor,
// traverser and reconciled loader fetches a real block chain from peer 1 (the driver plays peer 1's
// responder by feeding the response messages); messages from peers 2 and 3 carrying the request's id
// are interleaved.  The same history is run with and without the foreign messages and everything the
// requestor does for the request must be identical: data delivered on the response channel, errors,
// response-hook and block-hook calls, messages sent.

import (
	"context"
	"fmt"
	"os"
	"sort"
	"strings"
	"sync"
	"time"

	blocks "github.com/ipfs/go-block-format"
	"github.com/ipld/go-ipld-prime/node/basicnode"
	"github.com/libp2p/go-libp2p/core/peer"

	"github.com/ipfs/go-graphsync"
	"github.com/ipfs/go-graphsync/listeners"
	gsmsg "github.com/ipfs/go-graphsync/message"
	"github.com/ipfs/go-graphsync/persistenceoptions"
	"github.com/ipfs/go-graphsync/requestmanager"
	"github.com/ipfs/go-graphsync/requestmanager/executor"
	"github.com/ipfs/go-graphsync/requestmanager/hooks"
	"github.com/ipfs/go-graphsync/taskqueue"

	"verif/harness/internal/dag"
	"verif/harness/internal/e2e"
	"verif/harness/internal/rng"
)

type e2eForeign struct {
	Before int         `json:"before"` // delivered before genuine message number Before (len(Cuts)+1 = after the last)
	From   uint64      `json:"from"`
	Resp   rpResp      `json:"resp"`             // ID 1 = the victim, 9 = unknown
	Blocks []int       `json:"blocks,omitempty"` // chain block indices sent along (real blocks)
	Junk   [][2]uint64 `json:"junk,omitempty"`   // (link, len) unrelated blocks
}

type e2eSpec struct {
	N            int          `json:"n"`    // chain length
	Cuts         []int        `json:"cuts"` // genuine message k carries blocks [Cuts[k-1], Cuts[k]); the last one up to N with the final status
	Foreign      []e2eForeign `json:"foreign"`
	BlockHookExt int          `json:"bhx"` // block hook returns an update extension at this block index (0 = never)
}

type e2eObs struct {
	progress []string
	errs     []uint64
	respHook []string
	blkHook  []string
	sends    []string
	hung     bool
}

func (o e2eObs) canon() string {
	s := append([]string(nil), o.sends...)
	sort.Strings(s)
	return fmt.Sprintf("progress=%v errs=%v resphooks=%v blockhooks=%v sends=%v hung=%v", o.progress, o.errs, o.respHook, o.blkHook, s, o.hung)
}

func runE2E(hookRows []rpHook, sp e2eSpec, withForeign bool) (e2eObs, error) {
	var o e2eObs
	var mu sync.Mutex
	ctx, cancel := context.WithCancel(context.Background())
	defer cancel()
	chain := dag.Chain(sp.N)
	store := e2e.NewStore()
	log := &evlog{}
	fph := &fakePeerHandler{log}
	fcm := &fakeConnManager{log: log, tags: map[string]uint64{}}
	respHooks := hooks.NewResponseHooks()
	respHooks.Register(func(p peer.ID, rd graphsync.ResponseData, ha graphsync.IncomingResponseHookActions) {
		pn, idn, st := peerNum(p), ridNum(rd.RequestID()), int32(rd.Status())
		mu.Lock()
		o.respHook = append(o.respHook, fmt.Sprintf("(%d,%d,%d)", pn, idn, st))
		mu.Unlock()
		for _, h := range hookRows {
			if h.P == pn && h.ID == idn && h.Status == st {
				for _, x := range h.Exts {
					ha.UpdateRequestWithExtensions(graphsync.ExtensionData{Name: extName(x), Data: basicnode.NewString("u")})
				}
				if h.Err != 0 {
					ha.TerminateWithError(fmt.Errorf("hook-error-%d", h.Err))
				}
				return
			}
		}
	})
	blockHooks := hooks.NewBlockHooks()
	blockHooks.Register(func(p peer.ID, rd graphsync.ResponseData, bd graphsync.BlockData, ha graphsync.IncomingBlockHookActions) {
		mu.Lock()
		o.blkHook = append(o.blkHook, fmt.Sprintf("(%d,%d,#%d,%d)", peerNum(p), ridNum(rd.RequestID()), bd.Index(), bd.BlockSize()))
		mu.Unlock()
		if sp.BlockHookExt != 0 && int(bd.Index()) == sp.BlockHookExt {
			ha.UpdateRequestWithExtensions(graphsync.ExtensionData{Name: extName(4), Data: basicnode.NewString("b")})
		}
	})
	tq := taskqueue.NewTaskQueue(ctx)
	rm := requestmanager.New(ctx, persistenceoptions.New(), store.LinkSystem(), hooks.NewRequestHooks(), respHooks,
		listeners.NewNetworkErrorListeners(), listeners.NewRequestProcessingListeners(), tq, fcm, 0, nil)
	ex := executor.NewExecutor(rm, blockHooks)
	rm.SetDelegate(fph)
	rm.Startup()
	tq.Startup(2, ex)
	defer rm.Shutdown()
	defer tq.Shutdown()

	id := ridOf(1)
	fcm.tags[id.Tag()] = 1
	rctx := context.WithValue(ctx, graphsync.RequestIDContextKey{}, id)
	respCh, errCh := rm.NewRequest(rctx, peerOf(1), chain.Root(), dag.AllSelector())

	// the responder can only answer a request it has received: wait until the executor sent it
	deadline := time.Now().Add(waitLimit)
	for {
		log.mu.Lock()
		sent := false
		for _, e := range log.evs {
			if e.kind == "send" && e.skind == "KNew" {
				sent = true
			}
		}
		log.mu.Unlock()
		if sent {
			break
		}
		if time.Now().After(deadline) {
			return o, errHang
		}
		time.Sleep(20 * time.Microsecond) // polling a condition
	}

	foreignBefore := func(k int) {
		if !withForeign {
			return
		}
		for _, f := range sp.Foreign {
			if f.Before != k {
				continue
			}
			var md []gsmsg.GraphSyncLinkMetadatum
			for _, m := range f.Resp.MD {
				// metadata over chain blocks (m[0] < N) or unrelated links
				if int(m[0]) < sp.N {
					md = append(md, gsmsg.GraphSyncLinkMetadatum{Link: chain.Blocks[m[0]].Cid, Action: actions[m[1]%4]})
				} else {
					md = append(md, gsmsg.GraphSyncLinkMetadatum{Link: linkOf(m[0]), Action: actions[m[1]%4]})
				}
			}
			var eds []graphsync.ExtensionData
			for _, x := range f.Resp.Exts {
				eds = append(eds, graphsync.ExtensionData{Name: extName(x), Data: basicnode.NewString("r")})
			}
			var bs []blocks.Block
			for _, i := range f.Blocks {
				if i < sp.N {
					b, _ := blocks.NewBlockWithCid(chain.Blocks[i].Data, chain.Blocks[i].Cid)
					bs = append(bs, b)
				}
			}
			for _, j := range f.Junk {
				b, _ := blocks.NewBlockWithCid(make([]byte, j[1]), linkOf(j[0]))
				bs = append(bs, b)
			}
			rm.ProcessResponses(peerOf(f.From), []gsmsg.GraphSyncResponse{
				gsmsg.NewResponse(ridOf(f.Resp.ID), graphsync.ResponseStatusCode(f.Resp.Status), md, eds...)}, bs)
		}
	}
	cuts := append(append([]int(nil), sp.Cuts...), sp.N)
	lo := 0
	for k, hi := range cuts {
		foreignBefore(k + 1)
		var md []gsmsg.GraphSyncLinkMetadatum
		var bs []blocks.Block
		for i := lo; i < hi; i++ {
			md = append(md, gsmsg.GraphSyncLinkMetadatum{Link: chain.Blocks[i].Cid, Action: graphsync.LinkActionPresent})
			b, _ := blocks.NewBlockWithCid(chain.Blocks[i].Data, chain.Blocks[i].Cid)
			bs = append(bs, b)
		}
		st := graphsync.PartialResponse
		if k == len(cuts)-1 {
			st = graphsync.RequestCompletedFull
		}
		rm.ProcessResponses(peerOf(1), []gsmsg.GraphSyncResponse{gsmsg.NewResponse(id, st, md)}, bs)
		lo = hi
	}
	foreignBefore(len(cuts) + 1)

	timeout := time.After(waitLimit)
	rc, ec := respCh, errCh
	for rc != nil || ec != nil {
		select {
		case p, ok := <-rc:
			if !ok {
				rc = nil
				continue
			}
			last := -1
			if p.LastBlock.Link != nil {
				for i, b := range chain.Blocks {
					if p.LastBlock.Link.String() == b.Cid.String() {
						last = i
					}
				}
			}
			o.progress = append(o.progress, fmt.Sprintf("%s@%d", p.Path.String(), last))
		case e, ok := <-ec:
			if !ok {
				ec = nil
				continue
			}
			o.errs = append(o.errs, errCode(e))
		case <-timeout:
			o.hung = true
			rc, ec = nil, nil
		}
	}
	_ = rm.VerifSnapshot() // everything sent to the run loop has been handled
	mu.Lock()
	defer mu.Unlock()
	for _, e := range log.take() {
		if e.kind == "send" {
			o.sends = append(o.sends, fmt.Sprintf("%d/%d/%s", e.p, e.id, e.skind))
		}
	}
	return o, nil
}

func genE2E(r *rng.R) rpCase {
	sp := e2eSpec{N: r.Range(3, 7)}
	for i := 1; i < sp.N; i++ {
		if r.P(1, 2) {
			sp.Cuts = append(sp.Cuts, i)
		}
	}
	if r.P(1, 3) {
		sp.BlockHookExt = r.Range(1, sp.N)
	}
	ngen := len(sp.Cuts) + 1
	var c rpCase
	for k := r.Range(1, 5); k > 0; k-- {
		f := e2eForeign{Before: r.Range(1, ngen+1), From: uint64(r.Range(2, 3))}
		vid := uint64(1)
		if r.P(1, 8) {
			vid = 9
		}
		f.Resp = genResp(r, vid)
		f.Resp.MD = nil
		for n := r.Intn(4); n > 0; n-- {
			l := uint64(r.Intn(sp.N)) // mostly real chain links, in a wrong order
			if r.P(1, 4) {
				l = uint64(20 + r.Intn(5))
			}
			a := uint64(0)
			if r.P(1, 3) {
				a = uint64(r.Intn(4))
			}
			f.Resp.MD = append(f.Resp.MD, [2]uint64{l, a})
		}
		for n := r.Intn(3); n > 0; n-- {
			f.Blocks = append(f.Blocks, r.Intn(sp.N))
		}
		if r.P(1, 3) {
			f.Junk = append(f.Junk, [2]uint64{uint64(20 + r.Intn(5)), uint64(r.Range(1, 9))})
		}
		sp.Foreign = append(sp.Foreign, f)
		if r.P(2, 3) {
			h := rpHook{P: f.From, ID: f.Resp.ID, Status: f.Resp.Status}
			switch r.Intn(3) {
			case 0:
				h.Exts = []uint64{uint64(r.Range(1, 3))}
			case 1:
				h.Err = uint64(100 + r.Intn(3))
			default:
				h.Exts = []uint64{1}
				h.Err = 101
			}
			c.Hooks = append(c.Hooks, h)
		}
	}
	// the owner's responses may trigger update extensions (never errors: the outcome of a request
	// cancelled half-way by its own hooks depends on the executor's progress)
	if r.P(1, 2) {
		c.Hooks = append(c.Hooks, rpHook{P: 1, ID: 1, Status: 14, Exts: []uint64{2}})
	}
	if r.P(1, 2) {
		c.Hooks = append(c.Hooks, rpHook{P: 1, ID: 1, Status: 20, Exts: []uint64{3}})
	}
	c.E2E = &sp
	return c
}

// runE2ECase returns the violation (if any) and tags
func runE2ECase(c rpCase) (violation string, tags []string, err error) {
	sp := *c.E2E
	var base, full e2eObs
	for attempt := 0; attempt < 2; attempt++ {
		base, err = runE2E(c.Hooks, sp, false)
		if err == nil && !base.hung {
			break
		}
	}
	if err != nil {
		return "", nil, fmt.Errorf("e2e baseline: %w", err)
	}
	if base.hung || len(base.errs) != 0 || len(base.progress) == 0 {
		return "", nil, fmt.Errorf("e2e baseline (no foreign messages) did not complete cleanly: %s", base.canon())
	}
	for attempt := 0; attempt < 2; attempt++ {
		full, err = runE2E(c.Hooks, sp, true)
		if err == nil && !full.hung {
			break
		}
	}
	if err != nil {
		return "e2e: the request was never sent when foreign messages are present", nil, nil
	}
	tags = []string{"kind:e2e", fmt.Sprintf("e2e-chain:%d", sp.N), fmt.Sprintf("e2e-genuine-messages:%d", len(sp.Cuts)+1)}
	for _, f := range sp.Foreign {
		tags = append(tags, fmt.Sprintf("e2e-foreign-status:%d", f.Resp.Status))
	}
	if os.Getenv("D_REQPEER_DEBUG") != "" {
		fmt.Fprintln(os.Stderr, "e2e WITHOUT:", base.canon(), "\ne2e WITH:   ", full.canon())
	}
	if base.canon() != full.canon() {
		return "e2e: what the requestor did for the request differs when foreign messages are interleaved: WITHOUT " + base.canon() + " WITH " + full.canon(), tags, nil
	}
	for _, h := range append(append([]string(nil), full.respHook...), full.blkHook...) {
		if !strings.HasPrefix(h, "(1,") {
			return "e2e: hook called for a peer other than the request's: " + h, tags, nil
		}
	}
	return "", tags, nil
}
