package main

// Driver for C08: generated selector ASTs rendered with the real selector builder, validated by the
// real selectorvalidator.ValidateMaxRecursionDepth; plus mutated (ill-formed) nodes to tie the
// model's interpreter to go-ipld-prime's WalkMatching.

import (
	"fmt"
	"strings"

	"github.com/ipfs/go-cid"
	"github.com/ipld/go-ipld-prime/datamodel"
	"github.com/ipld/go-ipld-prime/fluent/qp"
	cidlink "github.com/ipld/go-ipld-prime/linking/cid"
	"github.com/ipld/go-ipld-prime/node/basicnode"
	"github.com/ipld/go-ipld-prime/traversal/selector"
	"github.com/ipld/go-ipld-prime/traversal/selector/builder"

	"github.com/ipfs/go-graphsync/selectorvalidator"

	"verif/harness/internal/cw"
	"verif/harness/internal/rng"
)

type selAst struct {
	K    string    `json:"k"` // matcher edge all fields index range union rec interp
	N    *selAst   `json:"n,omitempty"`
	L    []*selAst `json:"l,omitempty"`
	Keys []string  `json:"keys,omitempty"`
	I    int64     `json:"i,omitempty"`
	A    int64     `json:"a,omitempty"`
	B    int64     `json:"b,omitempty"`
	Lim  *int64    `json:"lim,omitempty"` // nil = none
	Stop bool      `json:"stop,omitempty"`
	Adl  string    `json:"adl,omitempty"`
}

type selCase struct {
	Sel  *selAst  `json:"sel,omitempty"`
	Max  int64    `json:"max"`
	Mut  []string `json:"mut,omitempty"` // mutations applied to the rendered node (ill-formed cases)
	Seed uint64   `json:"seed,omitempty"`
	Tags []string `json:"tags,omitempty"`
}

var ssb = builder.NewSelectorSpecBuilder(basicnode.Prototype.Any)

func renderSel(s *selAst) datamodel.Node {
	switch s.K {
	case "matcher":
		return ssb.Matcher().Node()
	case "edge":
		return ssb.ExploreRecursiveEdge().Node()
	case "all":
		return ssb.ExploreAll(specOfNode(renderSel(s.N))).Node()
	case "fields":
		return ssb.ExploreFields(func(efsb builder.ExploreFieldsSpecBuilder) {
			for i, k := range s.Keys {
				efsb.Insert(k, specOfNode(renderSel(s.L[i])))
			}
		}).Node()
	case "index":
		return ssb.ExploreIndex(s.I, specOfNode(renderSel(s.N))).Node()
	case "range":
		return ssb.ExploreRange(s.A, s.B, specOfNode(renderSel(s.N))).Node()
	case "union":
		var ms []builder.SelectorSpec
		for _, m := range s.L {
			ms = append(ms, specOfNode(renderSel(m)))
		}
		return ssb.ExploreUnion(ms...).Node()
	case "rec":
		lim := selector.RecursionLimitNone()
		if s.Lim != nil {
			lim = selector.RecursionLimitDepth(*s.Lim)
		}
		n := ssb.ExploreRecursive(lim, specOfNode(renderSel(s.N))).Node()
		if !s.Stop {
			return n
		}
		// add a stop-at condition {"!": {"/": <link>}} to the body
		body, _ := n.LookupByString(selector.SelectorKey_ExploreRecursive)
		nb, _ := qp.BuildMap(basicnode.Prototype.Any, -1, func(ma datamodel.MapAssembler) {
			qp.MapEntry(ma, selector.SelectorKey_ExploreRecursive, qp.Map(-1, func(ma datamodel.MapAssembler) {
				it := body.MapIterator()
				for !it.Done() {
					k, v, _ := it.Next()
					ks, _ := k.AsString()
					qp.MapEntry(ma, ks, qp.Node(v))
				}
				qp.MapEntry(ma, selector.SelectorKey_StopAt, qp.Map(1, func(ma datamodel.MapAssembler) {
					qp.MapEntry(ma, "/", qp.Link(cidlink.Link{Cid: cid.MustParse("bafkqaaa")}))
				}))
			}))
		})
		return nb
	case "interp":
		return ssb.ExploreInterpretAs(s.Adl, specOfNode(renderSel(s.N))).Node()
	}
	panic("bad sel kind " + s.K)
}

type nodeSpec struct{ n datamodel.Node }

func (ns nodeSpec) Node() datamodel.Node                    { return ns.n }
func (ns nodeSpec) Selector() (selector.Selector, error)    { return selector.CompileSelector(ns.n) }
func specOfNode(n datamodel.Node) builder.SelectorSpec      { return nodeSpec{n} }

func coqZ(z int64) string {
	if z < 0 {
		return fmt.Sprintf("(%d)%%Z", z)
	}
	return fmt.Sprintf("%d%%Z", z)
}

func coqStr(s string) string { return `"` + strings.ReplaceAll(s, `"`, `""`) + `"` }

func selTerm(s *selAst) string {
	switch s.K {
	case "matcher":
		return "SMatcher"
	case "edge":
		return "SEdge"
	case "all":
		return "(SAll " + selTerm(s.N) + ")"
	case "fields":
		var fs []string
		for i, k := range s.Keys {
			fs = append(fs, "("+coqStr(k)+", "+selTerm(s.L[i])+")")
		}
		return "(SFields " + cw.List(fs) + ")"
	case "index":
		return "(SIndex " + coqZ(s.I) + " " + selTerm(s.N) + ")"
	case "range":
		return "(SRange " + coqZ(s.A) + " " + coqZ(s.B) + " " + selTerm(s.N) + ")"
	case "union":
		var ms []string
		for _, m := range s.L {
			ms = append(ms, selTerm(m))
		}
		return "(SUnion " + cw.List(ms) + ")"
	case "rec":
		lim := "None"
		if s.Lim != nil {
			lim = "(Some " + coqZ(*s.Lim) + ")"
		}
		return "(SRec " + lim + " " + selTerm(s.N) + " " + cw.Bool(s.Stop) + ")"
	case "interp":
		return "(SInterp " + coqStr(s.Adl) + " " + selTerm(s.N) + ")"
	}
	panic("bad")
}

func nodeTerm(n datamodel.Node) string {
	switch n.Kind() {
	case datamodel.Kind_Map:
		var es []string
		it := n.MapIterator()
		for !it.Done() {
			k, v, _ := it.Next()
			ks, _ := k.AsString()
			es = append(es, "("+coqStr(ks)+", "+nodeTerm(v)+")")
		}
		return "(NMap " + cw.List(es) + ")"
	case datamodel.Kind_List:
		var es []string
		it := n.ListIterator()
		for !it.Done() {
			_, v, _ := it.Next()
			es = append(es, nodeTerm(v))
		}
		return "(NList " + cw.List(es) + ")"
	case datamodel.Kind_Int:
		z, _ := n.AsInt()
		return "(NInt " + coqZ(z) + ")"
	case datamodel.Kind_String:
		s, _ := n.AsString()
		return "(NStr " + coqStr(s) + ")"
	default:
		return "NOther"
	}
}

// ---- generators ----

func genLimit(r *rng.R, max int64) *int64 {
	var v int64
	switch r.Intn(10) {
	case 0, 1:
		return nil
	case 2:
		v = max
	case 3:
		v = max + 1
	case 4:
		v = max - 1
	case 5:
		v = int64(r.Range(-3, 0))
	case 6:
		v = 1 << 40
	default:
		v = int64(r.Range(1, int(max)))
	}
	return &v
}

var adls = []string{"unixfs", "unixfs-preload", "hamt"}
var fieldNames = []string{"a", "Links", "Hash", "f>", "R", "l", ">", "0", "depth", "none"}

func genSel(r *rng.R, depth int, max int64, inRec bool) *selAst {
	if depth <= 0 {
		if inRec && r.P(2, 3) {
			return &selAst{K: "edge"}
		}
		return &selAst{K: "matcher"}
	}
	switch r.Intn(12) {
	case 0:
		return &selAst{K: "matcher"}
	case 1:
		if inRec {
			return &selAst{K: "edge"}
		}
		return &selAst{K: "all", N: genSel(r, depth-1, max, inRec)}
	case 2:
		return &selAst{K: "all", N: genSel(r, depth-1, max, inRec)}
	case 3:
		n := r.Range(1, 3)
		s := &selAst{K: "fields"}
		used := map[string]bool{}
		for i := 0; i < n; i++ {
			k := rng.Pick(r, fieldNames)
			if used[k] {
				continue
			}
			used[k] = true
			s.Keys = append(s.Keys, k)
			s.L = append(s.L, genSel(r, depth-1, max, inRec))
		}
		return s
	case 4:
		return &selAst{K: "index", I: int64(r.Range(0, 5)), N: genSel(r, depth-1, max, inRec)}
	case 5:
		a := int64(r.Range(0, 3))
		return &selAst{K: "range", A: a, B: a + int64(r.Range(1, 4)), N: genSel(r, depth-1, max, inRec)}
	case 6, 7:
		n := r.Range(1, 3)
		s := &selAst{K: "union"}
		for i := 0; i < n; i++ {
			s.L = append(s.L, genSel(r, depth-1, max, inRec))
		}
		return s
	case 8, 9, 10:
		return &selAst{K: "rec", Lim: genLimit(r, max), N: genSel(r, depth-1, max, true), Stop: r.P(1, 6)}
	default:
		return &selAst{K: "interp", Adl: rng.Pick(r, adls), N: genSel(r, depth-1, max, inRec)}
	}
}

func i64(v int64) *int64 { return &v }

func countKinds(s *selAst, m map[string]int) {
	m[s.K]++
	if s.N != nil {
		countKinds(s.N, m)
	}
	for _, c := range s.L {
		countKinds(c, m)
	}
}

// recUnder reports whether some recursive clause sits under an interpret-as / union / fields clause
func recUnder(s *selAst, under bool) bool {
	if s.K == "rec" && under {
		return true
	}
	u := under || s.K == "interp" || s.K == "union" || s.K == "fields" || s.K == "rec"
	if s.N != nil && recUnder(s.N, u) {
		return true
	}
	for _, c := range s.L {
		if recUnder(c, u) {
			return true
		}
	}
	return false
}

// mutate a rendered node into an ill-formed one (no link nodes are introduced)
func mutateNode(r *rng.R, n datamodel.Node, muts *[]string) datamodel.Node {
	switch n.Kind() {
	case datamodel.Kind_Map:
		nb, err := qp.BuildMap(basicnode.Prototype.Any, -1, func(ma datamodel.MapAssembler) {
			it := n.MapIterator()
			for !it.Done() {
				k, v, _ := it.Next()
				ks, _ := k.AsString()
				switch r.Intn(14) {
				case 0:
					*muts = append(*muts, "drop:"+ks)
					continue
				case 1:
					nk := rng.Pick(r, []string{"R", "a", "f", "|", "l", ":>", ">", "f>", "depth", "none", "~", "&", "i", "r", "x"})
					if nk != ks {
						if _, err := n.LookupByString(nk); err != nil {
							*muts = append(*muts, "rename:"+ks+"->"+nk)
							ks = nk
						}
					}
					qp.MapEntry(ma, ks, qp.Node(mutateNode(r, v, muts)))
				case 2:
					*muts = append(*muts, "scalar:"+ks)
					switch r.Intn(4) {
					case 0:
						qp.MapEntry(ma, ks, qp.Int(int64(r.Range(-2, 200))))
					case 1:
						qp.MapEntry(ma, ks, qp.String("x"))
					case 2:
						qp.MapEntry(ma, ks, qp.Null())
					default:
						qp.MapEntry(ma, ks, qp.Bool(true))
					}
				case 3:
					*muts = append(*muts, "listwrap:"+ks)
					qp.MapEntry(ma, ks, qp.List(-1, func(la datamodel.ListAssembler) {
						qp.ListEntry(la, qp.Node(v))
						qp.ListEntry(la, qp.Node(mutateNode(r, v, muts)))
					}))
				default:
					qp.MapEntry(ma, ks, qp.Node(mutateNode(r, v, muts)))
				}
			}
			if r.P(1, 10) {
				nk := rng.Pick(r, []string{"zz", "depth2", "none2", "extra"})
				if _, err := n.LookupByString(nk); err != nil {
					*muts = append(*muts, "extra:"+nk)
					qp.MapEntry(ma, nk, qp.Int(7))
				}
			}
		})
		if err != nil || nb == nil {
			// two renames collided on one key: the builder refuses duplicate keys; keep the node as it was
			return n
		}
		return nb
	case datamodel.Kind_List:
		nb, err := qp.BuildList(basicnode.Prototype.Any, -1, func(la datamodel.ListAssembler) {
			it := n.ListIterator()
			for !it.Done() {
				_, v, _ := it.Next()
				qp.ListEntry(la, qp.Node(mutateNode(r, v, muts)))
			}
		})
		if err != nil || nb == nil {
			return n
		}
		return nb
	case datamodel.Kind_Link:
		return n
	default:
		return n
	}
}

func hasLinkOutsideStop(n datamodel.Node, key string) bool {
	switch n.Kind() {
	case datamodel.Kind_Link:
		return key != "/"
	case datamodel.Kind_Map:
		it := n.MapIterator()
		for !it.Done() {
			k, v, _ := it.Next()
			ks, _ := k.AsString()
			if key == "!" && ks == "/" {
				continue // the stop-at condition itself
			}
			if hasLinkOutsideStop(v, ks) {
				return true
			}
		}
	case datamodel.Kind_List:
		it := n.ListIterator()
		for !it.Done() {
			_, v, _ := it.Next()
			if hasLinkOutsideStop(v, "") {
				return true
			}
		}
	}
	return false
}

const selHeader = `From Coq Require Import List String ZArith Bool.
From GS Require Import Base SelWalk SelWalkCases.
Import ListNotations.
Open Scope string_scope.
Open Scope list_scope.
Definition mk_scase := Build_scase.
`

func driveSelVal(c *ctx) error {
	w := cw.New(c.out, selHeader, "scase", []cw.Check{
		{Name: "MISMATCH", Fn: "scase_agrees"},
		{Name: "MON08", Fn: "scase_mon"},
	})
	w.ShardSize = 250
	w.Stats.Rule = "selector ASTs (depth <= 5; matcher/edge/all/fields/index/range/union/recursive(with limits around the accepted depth, none, negative, huge)/interpret-as, optional stop-at) " +
		"rendered with the real selector builder and validated by the real ValidateMaxRecursionDepth; 25% additionally mutated into ill-formed nodes (renamed/dropped keys, scalars, lists, extra entries) " +
		"to tie the model's interpreter to go-ipld-prime; non-trivial = contains a recursive clause nested under interpret-as/union/fields/another recursion; distinct = distinct terms"
	run := func(sc selCase, tag string) {
		c.inflight(sc)
		var node datamodel.Node
		var ast *selAst
		if sc.Sel != nil {
			node = renderSel(sc.Sel)
			ast = sc.Sel
		}
		tags := []string{"kind:" + tag}
		if len(sc.Mut) > 0 || tag == "mutated" {
			r := rng.New(sc.Seed)
			var muts []string
			node = mutateNode(r, node, &muts)
			sc.Mut = muts
			if len(muts) > 0 {
				ast = nil
			}
			if hasLinkOutsideStop(node, "") {
				return
			}
		}
		accepts := selectorvalidator.ValidateMaxRecursionDepth(node, sc.Max) == nil
		if accepts {
			tags = append(tags, "go-accepts")
		} else {
			tags = append(tags, "go-rejects")
		}
		nontrivial := false
		if sc.Sel != nil {
			km := map[string]int{}
			countKinds(sc.Sel, km)
			nontrivial = recUnder(sc.Sel, false)
			if km["interp"] > 0 && km["rec"] > 0 {
				tags = append(tags, "has-interp+rec")
			}
			if _, err := selector.CompileSelector(renderSel(sc.Sel)); err == nil {
				tags = append(tags, "parses")
			}
		}
		sel := "None"
		if ast != nil {
			sel = "(Some " + selTerm(ast) + ")"
		}
		term := fmt.Sprintf("mk_scase %s\n    %s %s %s", sel, nodeTerm(node), coqZ(sc.Max), cw.Bool(accepts))
		sc.Tags = tags
		w.Add(term, sc, nontrivial, tags...)
	}
	if c.replay != "" {
		var rf struct {
			Case selCase `json:"case"`
		}
		if err := readJSON(c.replay, &rf); err != nil {
			return err
		}
		tag := "replay"
		if len(rf.Case.Mut) > 0 {
			tag = "mutated"
		}
		run(rf.Case, tag)
		return w.Flush()
	}
	for _, f := range c.corpusFiles("selval") {
		var rf struct {
			Case selCase `json:"case"`
		}
		if err := readJSON(f, &rf); err != nil {
			return fmt.Errorf("%s: %w", f, err)
		}
		run(rf.Case, "corpus")
	}
	// deep nestings: a recursion of each verdict class under 1..70 enclosing clauses of every kind
	nd := 70
	if c.thorough() {
		nd = 400
	}
	for i := 0; i < nd; i++ {
		r := c.r.Fork()
		k := 1 + (i*7)%70
		lims := []*int64{nil, i64(101), i64(100), i64(1)}
		inner := &selAst{K: "rec", Lim: lims[i%4], N: &selAst{K: "all", N: &selAst{K: "edge"}}}
		cur := inner
		for j := 0; j < k; j++ {
			switch r.Intn(7) {
			case 0:
				cur = &selAst{K: "all", N: cur}
			case 1:
				cur = &selAst{K: "fields", Keys: []string{"a"}, L: []*selAst{cur}}
			case 2:
				cur = &selAst{K: "index", I: 0, N: cur}
			case 3:
				cur = &selAst{K: "range", A: 0, B: 2, N: cur}
			case 4:
				cur = &selAst{K: "union", L: []*selAst{{K: "matcher"}, cur}}
			case 5:
				cur = &selAst{K: "rec", Lim: i64(3), N: &selAst{K: "union", L: []*selAst{{K: "edge"}, cur}}}
			default:
				cur = &selAst{K: "interp", Adl: "unixfs", N: cur}
			}
		}
		run(selCase{Sel: cur, Max: 100}, "deep")
	}
	n := c.count(3000, 30000)
	for i := 0; i < n; i++ {
		r := c.r.Fork()
		max := int64(100)
		if r.P(1, 5) {
			max = int64(r.Range(0, 12))
		}
		sc := selCase{Sel: genSel(r, r.Range(1, 5), max, false), Max: max}
		if r.P(1, 4) {
			sc.Seed = r.U64()
			run(sc, "mutated")
		} else {
			run(sc, "wellformed")
		}
	}
	return w.Flush()
}

func init() { drivers["selval"] = driveSelVal }
