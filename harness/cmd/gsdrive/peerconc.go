package main

// Driver for C17, concurrent senders: label scripts against the real peermanager.PeerManager in which
// some steps are *groups* — k goroutines calling GetProcess(p) at once, optionally with one other
// PeerManager call waiting for the write lock — forced into the interleaving "all read-locked lookups
// first" by holding the table lock (verif hook) until every goroutine of the group is parked on it.

import (
	"context"
	"fmt"
	"runtime"
	"sort"
	"strings"
	"sync"
	"time"

	"github.com/libp2p/go-libp2p/core/peer"

	"github.com/ipfs/go-graphsync/peermanager"

	"verif/harness/internal/cw"
	"verif/harness/internal/rng"
)

type pcLabel struct {
	K string   `json:"k"` // connected | disconnected | get | selfshutdown | exit | conc
	P uint64   `json:"p,omitempty"`
	Q uint64   `json:"q,omitempty"`
	N int      `json:"n,omitempty"` // conc: number of concurrent GetProcess callers
	W *pcLabel `json:"w,omitempty"` // conc: the other call waiting for the write lock
}

type pcCase struct {
	Labels []pcLabel `json:"labels"`
}

type pcProcs struct {
	mu    sync.Mutex
	procs []*fakeProc
}

// parkedOnTable counts goroutines blocked on the PeerManager's table lock
func parkedOnTable() int {
	n := 0
	for _, g := range goroutineStates() {
		if !strings.Contains(g.body, "peermanager.(*PeerManager)") {
			continue
		}
		switch g.state {
		case "sync.RWMutex.RLock", "sync.RWMutex.Lock", "sync.Mutex.Lock", "semacquire":
			n++
		}
	}
	return n
}

func pcBaseCoq(l pcLabel) string {
	switch l.K {
	case "connected":
		return fmt.Sprintf("LConnected %d", l.P)
	case "disconnected":
		return fmt.Sprintf("LDisconnected %d", l.P)
	case "get":
		return fmt.Sprintf("LGetProcess %d", l.P)
	case "selfshutdown":
		return fmt.Sprintf("LSelfShutdown %d", l.Q)
	default:
		return fmt.Sprintf("LExit %d", l.Q)
	}
}

func runPcCase(c pcCase) (labels []string, owner []uint64, obs []string, groups, multi int, err error) {
	ps := &pcProcs{}
	pm := peermanager.New(context.Background(), func(ctx context.Context, p peer.ID, onShutdown func(peer.ID)) peermanager.PeerHandler {
		var pn uint64
		fmt.Sscanf(string(p), "peer-%d", &pn)
		ps.mu.Lock()
		defer ps.mu.Unlock()
		f := &fakeProc{id: uint64(len(ps.procs)), p: pn, onShutdown: onShutdown}
		ps.procs = append(ps.procs, f)
		return f
	})
	inTable := func(p uint64) bool {
		for _, q := range pm.ConnectedPeers() {
			if q == pmPeer(p) {
				return true
			}
		}
		return false
	}
	// base performs one non-group label; returns what GetProcess returned, if it was one
	base := func(l pcLabel) []uint64 {
		switch l.K {
		case "connected":
			pm.Connected(pmPeer(l.P))
		case "disconnected":
			pm.Disconnected(pmPeer(l.P))
		case "get":
			return []uint64{pm.GetProcess(pmPeer(l.P)).(*fakeProc).id}
		case "selfshutdown":
			ps.mu.Lock()
			var f *fakeProc
			if int(l.Q) < len(ps.procs) {
				f = ps.procs[l.Q]
			}
			ps.mu.Unlock()
			if f != nil && !f.signalled {
				f.Shutdown()
			}
		case "exit":
			ps.mu.Lock()
			var f *fakeProc
			if int(l.Q) < len(ps.procs) {
				f = ps.procs[l.Q]
			}
			ps.mu.Unlock()
			if f != nil && f.signalled && !f.exited {
				f.exited = true
				f.onShutdown(pmPeer(f.p))
			}
		}
		return nil
	}
	for _, l := range c.Labels {
		var rets []uint64
		if l.K != "conc" {
			rets = base(l)
			labels = append(labels, "GBase ("+pcBaseCoq(l)+")")
		} else {
			groups++
			w := l.W
			if w != nil && (w.K == "get" || w.K == "conc" || w.K == "selfshutdown") {
				w = nil // the writer must be a call that takes the table's write lock
			}
			if w != nil && w.K == "exit" {
				// only a process that can really exit now runs the callback (and takes the lock)
				ps.mu.Lock()
				ok := int(w.Q) < len(ps.procs) && ps.procs[w.Q].signalled && !ps.procs[w.Q].exited
				ps.mu.Unlock()
				if !ok {
					w = nil
				}
			}
			if w != nil && !inTable(l.P) {
				// the callers will take the write lock too, and which writer wins is not determined: keep only
				// writers whose effect commutes with the callers' getOrCreate (see PeerMgrConc.v)
				if w.K == "disconnected" && w.P == l.P {
					w = nil // would remove the process the callers create, or find nothing to remove
				} else if w.K == "connected" && w.P != l.P && !inTable(w.P) {
					w = nil // would create a process too: the two new processes' numbers depend on the order
				}
			}
			n := l.N
			if n < 1 {
				n = 1
			}
			before := parkedOnTable()
			pm.VerifLockTable()
			var wg sync.WaitGroup
			res := make([]uint64, n)
			for i := 0; i < n; i++ {
				wg.Add(1)
				go func(i int) {
					defer wg.Done()
					res[i] = pm.GetProcess(pmPeer(l.P)).(*fakeProc).id
				}(i)
			}
			want := n
			if w != nil {
				want++
				wg.Add(1)
				go func(wl pcLabel) {
					defer wg.Done()
					base(wl)
				}(*w)
			}
			deadline := time.Now().Add(20 * time.Second)
			for parkedOnTable()-before < want {
				if time.Now().After(deadline) {
					pm.VerifUnlockTable()
					wg.Wait()
					return nil, nil, nil, 0, 0, fmt.Errorf("group goroutines did not park on the table lock")
				}
				runtime.Gosched()
				time.Sleep(50 * time.Microsecond)
			}
			pm.VerifUnlockTable()
			wg.Wait()
			rets = res
			if n > 1 {
				multi++
			}
			ws := "None"
			if w != nil {
				ws = "(Some (" + pcBaseCoq(*w) + "))"
			}
			labels = append(labels, fmt.Sprintf("GConc %d %d%%nat %s", l.P, n, ws))
		}
		sort.Slice(rets, func(i, j int) bool { return rets[i] < rets[j] })
		var tab []string
		peers := pm.ConnectedPeers()
		sort.Slice(peers, func(i, j int) bool {
			var a, b uint64
			fmt.Sscanf(string(peers[i]), "peer-%d", &a)
			fmt.Sscanf(string(peers[j]), "peer-%d", &b)
			return a < b
		})
		for _, p := range peers {
			var pn uint64
			fmt.Sscanf(string(p), "peer-%d", &pn)
			h := pm.GetProcess(p).(*fakeProc)
			tab = append(tab, fmt.Sprintf("(%d, %d)", pn, h.id))
		}
		var sts []uint64
		ps.mu.Lock()
		for _, f := range ps.procs {
			switch {
			case f.exited:
				sts = append(sts, 2)
			case f.signalled:
				sts = append(sts, 1)
			default:
				sts = append(sts, 0)
			}
		}
		ps.mu.Unlock()
		obs = append(obs, fmt.Sprintf("Build_gobs %s %s %s", cw.NList(rets), cw.List(tab), cw.NList(sts)))
	}
	ps.mu.Lock()
	for _, f := range ps.procs {
		owner = append(owner, f.p)
	}
	ps.mu.Unlock()
	return
}

func genPcCase(r *rng.R, maxLen int) pcCase {
	np := r.Range(1, 2)
	n := r.Range(1, maxLen)
	var c pcCase
	created := 0
	baseLabel := func() pcLabel {
		p := uint64(r.Range(1, np))
		switch x := r.Intn(100); {
		case x < 30:
			created++
			return pcLabel{K: "connected", P: p}
		case x < 60:
			return pcLabel{K: "disconnected", P: p}
		case x < 70:
			created++
			return pcLabel{K: "get", P: p}
		case x < 80:
			return pcLabel{K: "selfshutdown", Q: uint64(r.Intn(created + 1))}
		default:
			return pcLabel{K: "exit", Q: uint64(r.Intn(created + 1))}
		}
	}
	for i := 0; i < n; i++ {
		if r.P(35, 100) {
			l := pcLabel{K: "conc", P: uint64(r.Range(1, np)), N: r.Range(1, 4)}
			if r.P(1, 2) {
				w := baseLabel()
				l.W = &w
			}
			created += l.N
			c.Labels = append(c.Labels, l)
		} else {
			c.Labels = append(c.Labels, baseLabel())
		}
	}
	return c
}

const pcHeader = `From Coq Require Import List NArith Bool.
From GS Require Import Base PeerMgr PeerMgrConc.
Import ListNotations.
Open Scope N_scope.
`

func drivePeerConc(c *ctx) error {
	w := cw.New(c.out, pcHeader, "gcase", []cw.Check{
		{Name: "MISMATCH", Fn: "gcase_agrees"},
		{Name: "MON17C", Fn: "gcase_mon"},
	})
	w.Stats.Rule = "label scripts over 1-2 peers against the real peermanager.PeerManager in which ~35% of the steps are groups of 1-4 concurrent GetProcess " +
		"callers (optionally with one Connected/Disconnected/late-exit call waiting for the write lock) forced into the all-lookups-first interleaving through the " +
		"table-lock hook; non-trivial = a group of >= 2 callers for a peer that had no table entry; distinct = distinct terms"
	groups, multi := 0, 0
	run := func(pc pcCase, tag string) error {
		c.inflight(pc)
		var labels, obs []string
		var owner []uint64
		var g, m int
		var err error
		for attempt := 0; attempt < 2; attempt++ {
			labels, owner, obs, g, m, err = runPcCase(pc)
			if err == nil {
				break
			}
		}
		if err != nil {
			return err
		}
		groups += g
		multi += m
		term := fmt.Sprintf("Build_gcase %s %s\n    %s", cw.List(labels), cw.NList(owner), cw.List(obs))
		w.Add(term, pc, m > 0, "kind:"+tag)
		return nil
	}
	defer func() { w.Stats.Extra = map[string]any{"groups": groups, "groups_with_2plus_callers": multi} }()
	if c.replay != "" {
		var rf struct {
			Case pcCase `json:"case"`
		}
		if err := readJSON(c.replay, &rf); err != nil {
			return err
		}
		if err := run(rf.Case, "replay"); err != nil {
			return err
		}
		w.Stats.Extra = map[string]any{"groups": groups, "groups_with_2plus_callers": multi}
		return w.Flush()
	}
	for _, f := range c.corpusFiles("peerconc") {
		var rf struct {
			Case pcCase `json:"case"`
		}
		if err := readJSON(f, &rf); err != nil {
			return fmt.Errorf("%s: %w", f, err)
		}
		if err := run(rf.Case, "corpus"); err != nil {
			return err
		}
	}
	n := c.count(600, 6000)
	for i := 0; i < n; i++ {
		if err := run(genPcCase(c.r.Fork(), 12), "random"); err != nil {
			return err
		}
	}
	w.Stats.Extra = map[string]any{"groups": groups, "groups_with_2plus_callers": multi}
	return w.Flush()
}

func init() { drivers["peerconc"] = drivePeerConc }
