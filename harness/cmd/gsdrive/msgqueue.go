package main

// Driver for C15/C16: the real messagequeue.MessageQueue + real allocator.Allocator + real
// responseassembler transactions, with a scripted network (every ConnectTo / SendMsg blocks until the
// script releases it with an outcome) and recording subscribers.

import (
	"context"
	"errors"
	"fmt"
	"runtime"
	"sort"
	"strings"
	"sync"
	"time"

	"github.com/ipfs/go-cid"
	"github.com/ipld/go-ipld-prime/codec/dagcbor"
	cidlink "github.com/ipld/go-ipld-prime/linking/cid"
	"github.com/ipld/go-ipld-prime/node/basicnode"
	"github.com/libp2p/go-libp2p/core/peer"

	"github.com/ipfs/go-graphsync"
	"github.com/ipfs/go-graphsync/allocator"
	gsmsg "github.com/ipfs/go-graphsync/message"
	"github.com/ipfs/go-graphsync/messagequeue"
	gsnet "github.com/ipfs/go-graphsync/network"
	"github.com/ipfs/go-graphsync/notifications"
	"github.com/ipfs/go-graphsync/responsemanager/responseassembler"

	"verif/harness/internal/cw"
	"verif/harness/internal/rng"
)

type mqBlock struct {
	L    uint64 `json:"l"`
	Size uint64 `json:"size"`
	Has  bool   `json:"has"`
}

type mqLabel struct {
	K      string    `json:"k"` // build | net | shutdown
	R      uint64    `json:"r,omitempty"`
	Blocks []mqBlock `json:"blocks,omitempty"`
	Ext    int       `json:"ext,omitempty"`    // payload bytes of an extension item (0 = none, -1 = extension with nil data)
	Status string    `json:"status,omitempty"` // "" | finish | error | pause
	OK     bool      `json:"ok,omitempty"`
}

type mqCase struct {
	Univ   []uint64  `json:"univ"`
	Labels []mqLabel `json:"labels"`
	Dedup  bool      `json:"dedup,omitempty"` // every request in its own dedup bucket (DedupKey): a link shared by two requests is sent for each
	Tags   []string  `json:"tags,omitempty"`
}

type mqWorld struct {
	mu       sync.Mutex
	arrive   chan string      // "connect" | "send"
	release  chan bool        // outcome for the blocked call
	inCall   string           // which call the goroutine is blocked in ("" = none)
	pendMsg  gsmsg.GraphSyncMessage
	wire     []string         // messages whose SendMsg returned ok, since last observation
	events   map[uint64][]string
	nEvents  int
	exited   bool
	linkIdx  map[string]uint64
}

type mqNet struct{ w *mqWorld }
type mqSender struct{ w *mqWorld }

func (n mqNet) ConnectTo(ctx context.Context, p peer.ID) error {
	n.w.arrive <- "connect"
	if ok := <-n.w.release; !ok {
		return errors.New("cannot connect")
	}
	return nil
}
func (n mqNet) NewMessageSender(ctx context.Context, p peer.ID, o gsnet.MessageSenderOpts) (gsnet.MessageSender, error) {
	return mqSender{n.w}, nil
}
func (s mqSender) SendMsg(ctx context.Context, m gsmsg.GraphSyncMessage) error {
	s.w.mu.Lock()
	s.w.pendMsg = m
	s.w.mu.Unlock()
	s.w.arrive <- "send"
	if ok := <-s.w.release; !ok {
		return errors.New("send failed")
	}
	return nil
}
func (s mqSender) Close() error { return nil }
func (s mqSender) Reset() error { return nil }

type mqSub struct {
	w *mqWorld
	r uint64
}

func (s *mqSub) OnNext(t notifications.Topic, e notifications.Event) {
	ev := e.(messagequeue.Event)
	s.w.mu.Lock()
	s.w.events[s.r] = append(s.w.events[s.r], fmt.Sprintf("(%d, %d)", uint64(ev.Name), uint64(t.(messagequeue.Topic))))
	s.w.nEvents++
	s.w.mu.Unlock()
}
func (s *mqSub) OnClose(t notifications.Topic) {
	s.w.mu.Lock()
	s.w.events[s.r] = append(s.w.events[s.r], fmt.Sprintf("(3, %d)", uint64(t.(messagequeue.Topic))))
	s.w.nEvents++
	s.w.mu.Unlock()
}

type mqHandler struct{ q *messagequeue.MessageQueue }

func (h mqHandler) AllocateAndBuildMessage(p peer.ID, size uint64, fn func(*messagequeue.Builder)) {
	h.q.AllocateAndBuildMessage(size, fn)
}

func (w *mqWorld) wireTerm(m gsmsg.GraphSyncMessage) string {
	type rr struct {
		id   uint64
		term string
	}
	var rs []rr
	for _, resp := range m.Responses() {
		var rid uint64
		for k, v := range fixedReqIDs {
			if v == resp.RequestID() {
				rid = k
			}
		}
		var md []string
		resp.Metadata().Iterate(func(c cid.Cid, a graphsync.LinkAction) {
			md = append(md, fmt.Sprintf("(%d, %s)", w.linkIdx[cidlink.Link{Cid: c}.String()], cw.Bool(a == graphsync.LinkActionPresent)))
		})
		rs = append(rs, rr{rid, fmt.Sprintf("(%d, (%d, %s))", rid, resp.Status(), cw.List(md))})
	}
	sort.Slice(rs, func(i, j int) bool { return rs[i].id < rs[j].id })
	var rts []string
	for _, r := range rs {
		rts = append(rts, r.term)
	}
	var bl []uint64
	for _, b := range m.Blocks() {
		bl = append(bl, w.linkIdx[cidlink.Link{Cid: b.Cid()}.String()])
	}
	sort.Slice(bl, func(i, j int) bool { return bl[i] < bl[j] })
	return fmt.Sprintf("(%s, %s)", cw.List(rts), cw.NList(bl))
}

// runMqCase executes the labels; returns the Coq terms of labels (with hints) and observations
func runMqCase(c mqCase) (labelTerms []string, obsTerms []string, sawError bool, hung bool) {
	ctx, cancel := context.WithCancel(context.Background())
	defer cancel()
	w := &mqWorld{arrive: make(chan string, 4), release: make(chan bool), events: map[uint64][]string{}, linkIdx: map[string]uint64{}}
	p := peer.ID("peer-1")
	alloc := allocator.NewAllocator(1<<40, 1<<40)
	q := messagequeue.New(ctx, p, mqNet{w}, alloc, 3, 10*time.Second, func(peer.ID) {
		w.mu.Lock()
		w.exited = true
		w.mu.Unlock()
	})
	q.Startup()
	ra := responseassembler.New(ctx, mqHandler{q})
	streams := map[uint64]responseassembler.ResponseStream{}
	stream := func(r uint64) responseassembler.ResponseStream {
		s, ok := streams[r]
		if !ok {
			s = ra.NewStream(ctx, p, reqID(r), &mqSub{w, r})
			streams[r] = s
		}
		return s
	}
	// wait until the queue goroutine is parked (idle at its select, blocked in a scripted network call, or
	// gone) and every event publisher goroutine is idle, by inspecting goroutine stacks: no timing guesses
	settle := func(expectArrival bool) {
		deadline := time.Now().Add(5 * time.Second)
		for time.Now().Before(deadline) {
			st := goroutineStates()
			pubBusy := false
			for _, g := range st {
				if strings.Contains(g.body, "notifications.(*publisher).start") && g.state != "sync.Cond.Wait" {
					pubBusy = true
				}
			}
			qstate := "gone"
			for _, g := range st {
				if !strings.Contains(g.body, "messagequeue.(*MessageQueue).runQueue") {
					continue
				}
				switch {
				case strings.HasPrefix(g.first, "github.com/ipfs/go-graphsync/messagequeue.(*MessageQueue).runQueue") && g.state == "select":
					qstate = "idle"
				case strings.Contains(g.body, "main.mqNet.ConnectTo") && g.state == "chan receive":
					qstate = "connect"
				case strings.Contains(g.body, "main.mqSender.SendMsg") && g.state == "chan receive":
					qstate = "send"
				default:
					qstate = "busy"
				}
			}
			if qstate != "busy" && !pubBusy {
				// drain arrival notifications (they are only used as a cross-check)
				for {
					select {
					case <-w.arrive:
						continue
					default:
					}
					break
				}
				switch qstate {
				case "connect", "send":
					w.inCall = qstate
				default:
					w.inCall = ""
				}
				w.mu.Lock()
				w.exited = w.exited || qstate == "gone"
				w.mu.Unlock()
				return
			}
			time.Sleep(100 * time.Microsecond)
		}
		hung = true
	}
	// wait for the queue goroutine to come up and park at its select
	for i := 0; i < 50000; i++ {
		up := false
		for _, g := range goroutineStates() {
			if strings.HasPrefix(g.first, "github.com/ipfs/go-graphsync/messagequeue.(*MessageQueue).runQueue") && g.state == "select" {
				up = true
			}
		}
		if up {
			break
		}
		time.Sleep(50 * time.Microsecond)
	}
	doneKnown := false
	lastObs := ""
	for _, l := range c.Labels {
		term := ""
		expectArrival := false
		switch l.K {
		case "build":
			var ops []string
			s := stream(l.R)
			if c.Dedup {
				// (re)assign the request's own dedup bucket: a finished request loses its key
				s.DedupKey(fmt.Sprintf("bucket-%d", l.R))
			}
			_ = s.Transaction(func(rb responseassembler.ResponseBuilder) error {
				for _, b := range l.Blocks {
					lk := mkLink(b.L)
					w.mu.Lock()
					w.linkIdx[lk.String()] = b.L
					w.mu.Unlock()
					var data []byte
					if b.Has {
						data = make([]byte, b.Size)
					}
					rb.SendResponse(lk, data)
					ops = append(ops, fmt.Sprintf("TBlock %d %d %s", b.L, b.Size, cw.Bool(b.Has)))
				}
				if l.Ext != 0 {
					ed := graphsync.ExtensionData{Name: "verif/ext"}
					size := int64(0)
					if l.Ext > 0 {
						ed.Data = basicnode.NewBytes(make([]byte, l.Ext))
						size, _ = dagcbor.EncodedLength(ed.Data)
					}
					rb.SendExtensionData(ed)
					ops = append(ops, fmt.Sprintf("TExt %d", size))
				}
				switch l.Status {
				case "finish":
					st := rb.FinishRequest()
					ops = append(ops, fmt.Sprintf("TStatus %d", st))
				case "error":
					rb.FinishWithError(graphsync.RequestFailedUnknown)
					ops = append(ops, fmt.Sprintf("TStatus %d", graphsync.RequestFailedUnknown))
				case "pause":
					rb.PauseRequest()
					ops = append(ops, fmt.Sprintf("TStatus %d", graphsync.RequestPaused))
				}
				return nil
			})
			term = fmt.Sprintf("LBuild %d %s", l.R, cw.List(ops))
		case "net":
			if w.inCall == "" {
				continue // nothing to release: skip the label entirely
			}
			kind := w.inCall
			if kind == "send" && l.OK {
				w.mu.Lock()
				w.wire = append(w.wire, w.wireTerm(w.pendMsg))
				w.mu.Unlock()
			}
			w.inCall = ""
			w.release <- l.OK
			if !l.OK {
				sawError = true
			}
			// a failed send (queue not shut down) is followed, 100ms later, by a reconnect attempt
			if kind == "send" && !l.OK && !doneKnown {
				expectArrival = true
			}
			term = fmt.Sprintf("LNet %s", cw.Bool(l.OK))
		case "shutdown":
			q.Shutdown()
			doneKnown = true
			term = "LShutdown"
		}
		settle(expectArrival)
		w.mu.Lock()
		phase := 0
		switch {
		case w.inCall == "connect":
			phase = 1
		case w.inCall == "send":
			phase = 2
		case w.exited:
			phase = 4
		}
		if w.exited {
			doneKnown = true
		}
		evs := make([]string, len(c.Univ))
		for i, r := range c.Univ {
			evs[i] = cw.List(w.events[r])
			w.events[r] = nil
		}
		wire := w.wire
		w.wire = nil
		w.mu.Unlock()
		hint := phase != 4
		labelTerms = append(labelTerms, fmt.Sprintf("(%s, %s)", term, cw.Bool(hint)))
		obsTerms = append(obsTerms, fmt.Sprintf("Build_qobs %d %s %d %d %s %s", alloc.AllocatedForPeer(p),
			cw.NList(q.VerifQueuedBlockSizes()), q.VerifQueuedNonEmpty(), phase, cw.List(evs), cw.List(wire)))
		lastObs = fmt.Sprintf("Build_qobs %d %s %d %d @EVENTS@ []", alloc.AllocatedForPeer(p),
			cw.NList(q.VerifQueuedBlockSizes()), q.VerifQueuedNonEmpty(), phase)
	}
	// late subscriber events: wait until the event count has been stable for 10ms, then attribute them to the
	// last step
	{
		last, stable := -1, 0
		for i := 0; i < 2000 && stable < 10; i++ {
			w.mu.Lock()
			n := w.nEvents
			w.mu.Unlock()
			if n == last {
				stable++
			} else {
				stable = 0
				last = n
			}
			time.Sleep(time.Millisecond)
		}
		w.mu.Lock()
		if len(obsTerms) > 0 {
			extra := make([]string, len(c.Univ))
			any := false
			for i, r := range c.Univ {
				extra[i] = cw.List(w.events[r])
				if len(w.events[r]) > 0 {
					any = true
				}
			}
			if any {
				labelTerms = append(labelTerms, "(LNet true, true)") // a no-op label when nothing is blocked
				obsTerms = append(obsTerms, strings.Replace(lastObs, "@EVENTS@", cw.List(extra), 1))
			}
		}
		w.mu.Unlock()
	}
	// unblock the goroutine so that it can exit, and wait until it and its publisher are gone
	cancel()
	if w.inCall != "" {
		select {
		case w.release <- false:
		case <-time.After(100 * time.Millisecond):
		}
	}
	for i := 0; i < 20000; i++ {
		alive := false
		for _, g := range goroutineStates() {
			if strings.Contains(g.body, "messagequeue.(*MessageQueue).runQueue") || strings.Contains(g.body, "notifications.(*publisher).start") {
				alive = true
			}
		}
		if !alive {
			break
		}
		time.Sleep(100 * time.Microsecond)
	}
	return
}

// a backlog of at least two pending messages behind a held send, block sizes mixed around the 512 KiB threshold
func genMqBacklog(r *rng.R) mqCase {
	var c mqCase
	nreq := r.Range(1, 3)
	for i := 1; i <= nreq; i++ {
		c.Univ = append(c.Univ, uint64(i))
	}
	link := uint64(1)
	c.Labels = append(c.Labels, mqLabel{K: "build", R: 1, Blocks: []mqBlock{{L: link, Size: uint64(r.Range(1, 2000)), Has: true}}})
	if r.P(1, 2) {
		c.Labels = append(c.Labels, mqLabel{K: "net", OK: true})
	}
	n := r.Range(3, 7)
	for i := 0; i < n; i++ {
		link++
		size := uint64(r.Range(250000, 330000))
		if i >= 2 && r.P(1, 2) {
			size = uint64(r.Range(50000, 150000))
		}
		c.Labels = append(c.Labels, mqLabel{K: "build", R: uint64(r.Range(1, nreq)), Blocks: []mqBlock{{L: link, Size: size, Has: true}}})
	}
	for i := 0; i < 2*n+8; i++ {
		c.Labels = append(c.Labels, mqLabel{K: "net", OK: i >= 2*n || r.P(9, 10)})
	}
	return c
}

// a held send fails for good while at least three messages are pending behind it: the failing request's data
// sits only in the first one or two pending builders (they empty when the request is scrubbed) with several
// messages of other requests queued after them — whatever is left must still leave in the order it was queued
func genMqBacklogFail(r *rng.R) mqCase {
	var c mqCase
	nreq := r.Range(2, 3)
	for i := 1; i <= nreq; i++ {
		c.Univ = append(c.Univ, uint64(i))
	}
	link := uint64(1)
	c.Labels = append(c.Labels, mqLabel{K: "build", R: 1, Blocks: []mqBlock{{L: link, Size: uint64(r.Range(1, 2000)), Has: true}}})
	c.Labels = append(c.Labels, mqLabel{K: "net", OK: true}) // connected: held in SendMsg
	nfail := r.Range(1, 2)
	nother := r.Range(4, 6)
	if r.P(1, 3) {
		// a message of another request ahead of the failing request's pending data
		link++
		c.Labels = append(c.Labels, mqLabel{K: "build", R: 2, Blocks: []mqBlock{{L: link, Size: uint64(r.Range(250000, 330000)), Has: true}}})
	}
	for i := 0; i < nfail; i++ {
		link++
		c.Labels = append(c.Labels, mqLabel{K: "build", R: 1, Blocks: []mqBlock{{L: link, Size: uint64(r.Range(250000, 330000)), Has: true}}})
	}
	for i := 0; i < nother; i++ {
		link++
		c.Labels = append(c.Labels, mqLabel{K: "build", R: uint64(r.Range(2, nreq)), Blocks: []mqBlock{{L: link, Size: uint64(r.Range(250000, 330000)), Has: true}}})
	}
	if r.P(1, 2) {
		// the send fails and so does the reconnect
		c.Labels = append(c.Labels, mqLabel{K: "net", OK: false}, mqLabel{K: "net", OK: false})
	} else {
		// retries run out: three failed sends, each followed by a successful reconnect
		for i := 0; i < 3; i++ {
			c.Labels = append(c.Labels, mqLabel{K: "net", OK: false}, mqLabel{K: "net", OK: true})
		}
	}
	for i := 0; i < 2*(nfail+nother)+6; i++ {
		c.Labels = append(c.Labels, mqLabel{K: "net", OK: true})
	}
	return c
}

// mixed builders: a queued builder whose blocks all belong to request 1 and which also carries block-less content
// of request 2 (a final status, an extension, a link whose block is missing) with its own subscriber, queued
// behind a message of request 1 that then fails (send and reconnect fail, retries run out, or the shutdown drain):
// request 1 is scrubbed out of the builder, request 2's content must still be sent and reported
func genMqMixedScrub(r *rng.R) mqCase {
	var c mqCase
	c.Univ = []uint64{1, 2, 3}
	link := uint64(1)
	c.Labels = append(c.Labels, mqLabel{K: "build", R: 1, Blocks: []mqBlock{{L: link, Size: uint64(r.Range(1, 2000)), Has: true}}})
	c.Labels = append(c.Labels, mqLabel{K: "net", OK: true}) // connected: held in SendMsg
	viaDrain := r.P(1, 4)
	if viaDrain {
		// a second message of request 1 ahead of the mixed builder: the drain fails it first
		link++
		c.Labels = append(c.Labels, mqLabel{K: "build", R: 1, Blocks: []mqBlock{{L: link, Size: uint64(r.Range(300000, 400000)), Has: true}}})
		link++
		c.Labels = append(c.Labels, mqLabel{K: "build", R: 1, Blocks: []mqBlock{{L: link, Size: uint64(r.Range(300000, 400000)), Has: true}}})
	} else {
		for i := r.Range(1, 2); i > 0; i-- {
			link++
			c.Labels = append(c.Labels, mqLabel{K: "build", R: 1, Blocks: []mqBlock{{L: link, Size: uint64(r.Range(1, 3000)), Has: true}}})
		}
	}
	// block-less content of other requests into the same builder
	for i := r.Range(1, 2); i > 0; i-- {
		l := mqLabel{K: "build", R: uint64(r.Range(2, 3))}
		switch r.Intn(4) {
		case 0:
			l.Status = "finish"
		case 1:
			l.Status = "pause"
		case 2:
			l.Ext = r.Range(1, 200)
		default:
			link++
			l.Blocks = []mqBlock{{L: link, Size: 100, Has: false}}
		}
		c.Labels = append(c.Labels, l)
	}
	if r.P(1, 3) {
		link++
		c.Labels = append(c.Labels, mqLabel{K: "build", R: 1, Blocks: []mqBlock{{L: link, Size: uint64(r.Range(1, 3000)), Has: true}}})
	}
	switch {
	case viaDrain:
		c.Labels = append(c.Labels, mqLabel{K: "shutdown"}, mqLabel{K: "net", OK: r.P(1, 2)})
	case r.P(1, 2):
		c.Labels = append(c.Labels, mqLabel{K: "net", OK: false}, mqLabel{K: "net", OK: false})
	default:
		for i := 0; i < 3; i++ {
			c.Labels = append(c.Labels, mqLabel{K: "net", OK: false}, mqLabel{K: "net", OK: true})
		}
	}
	for i := 0; i < 6; i++ {
		c.Labels = append(c.Labels, mqLabel{K: "net", OK: true})
	}
	return c
}

func genMqCase(r *rng.R) mqCase {
	nreq := r.Range(1, 3)
	var c mqCase
	for i := 1; i <= nreq; i++ {
		c.Univ = append(c.Univ, uint64(i))
	}
	n := r.Range(2, 14)
	link := uint64(0)
	// a quarter of the cases: every request has its own dedup bucket and requests traverse common blocks, so
	// that one unsent message receives the same block (same CID) more than once
	c.Dedup = nreq >= 2 && r.P(1, 3)
	poolSize := map[uint64]uint64{}
	used := map[uint64]map[uint64]bool{}
	inCall := false // approximate: the generator does not know exactly; "net" labels with nothing blocked are skipped
	big := r.P(1, 4)
	for i := 0; i < n; i++ {
		x := r.Intn(100)
		switch {
		case x < 50:
			l := mqLabel{K: "build", R: uint64(r.Range(1, nreq))}
			nb := r.Range(0, 3)
			for j := 0; j < nb; j++ {
				link++
				size := uint64(r.Range(1, 2000))
				if big && r.P(1, 2) {
					size = uint64(r.Range(150000, 400000))
				}
				lk := link
				if c.Dedup && r.P(2, 3) {
					// a block from the common pool (links 1001..1004, fixed size each) this request has not used yet
					cand := uint64(1001 + r.Intn(2))
					if used[l.R] == nil {
						used[l.R] = map[uint64]bool{}
					}
					if !used[l.R][cand] {
						used[l.R][cand] = true
						if poolSize[cand] == 0 {
							poolSize[cand] = size
						}
						lk, size = cand, poolSize[cand]
					}
				}
				l.Blocks = append(l.Blocks, mqBlock{L: lk, Size: size, Has: lk > 1000 || r.P(5, 6)})
			}
			if r.P(1, 4) {
				l.Ext = r.Range(1, 300)
			} else if r.P(1, 20) {
				l.Ext = -1
			}
			switch r.Intn(8) {
			case 0:
				l.Status = "finish"
			case 1:
				l.Status = "error"
			case 2:
				l.Status = "pause"
			}
			c.Labels = append(c.Labels, l)
			inCall = true
		case x < 92:
			ok := r.P(3, 4)
			c.Labels = append(c.Labels, mqLabel{K: "net", OK: ok})
		default:
			c.Labels = append(c.Labels, mqLabel{K: "shutdown"})
		}
	}
	_ = inCall
	// resolve whatever is still in flight so that the history ends parked idle or exited
	for i := 0; i < 8; i++ {
		c.Labels = append(c.Labels, mqLabel{K: "net", OK: true})
	}
	return c
}

const mqHeader = `From Coq Require Import List NArith Bool.
From GS Require Import Base MsgQueue MsgQueueOrder.
Import ListNotations.
Open Scope N_scope.
`

func driveMsgQueue(c *ctx) error {
	w := cw.New(c.out, mqHeader, "qcase", []cw.Check{
		{Name: "MISMATCH", Fn: "qcase_agrees"},
		{Name: "MON15", Fn: "qcase_mon15"},
		{Name: "MON16", Fn: "qcase_mon16"},
		{Name: "MON17F", Fn: "qcase_mon17"},
	})
	w.ShardSize = 150
	w.Stats.Rule = "scripts of response-assembler transactions (blocks of 1B-400KiB with distinct links, extension payloads, statuses) over 1-3 requests, network outcomes " +
		"(connect / send ok or fail, released one call at a time) and queue shutdowns, against the real MessageQueue + Allocator + ResponseAssembler with a scripted network; " +
		"every script ends by resolving all in-flight calls; non-trivial = some network call failed or the queue was shut down with data queued; distinct = distinct terms"
	type res struct {
		mc      mqCase
		labels  []string
		obs     []string
		err     bool
		hung    bool
		tag     string
	}
	var cases []res
	if c.replay != "" {
		var rf struct {
			Case mqCase `json:"case"`
		}
		if err := readJSON(c.replay, &rf); err != nil {
			return err
		}
		cases = append(cases, res{mc: rf.Case, tag: "replay"})
	} else {
		for _, f := range c.corpusFiles("msgqueue") {
			var rf struct {
				Case mqCase `json:"case"`
			}
			if err := readJSON(f, &rf); err != nil {
				return fmt.Errorf("%s: %w", f, err)
			}
			cases = append(cases, res{mc: rf.Case, tag: "corpus"})
		}
		n := c.count(400, 4000)
		for i := 0; i < n; i++ {
			cases = append(cases, res{mc: genMqCase(c.r.Fork()), tag: "random"})
		}
		for i := 0; i < n/10; i++ {
			cases = append(cases, res{mc: genMqBacklog(c.r.Fork()), tag: "backlog"})
		}
		for i := 0; i < n/16; i++ {
			cases = append(cases, res{mc: genMqBacklogFail(c.r.Fork()), tag: "backlog-fail"})
		}
		for i := 0; i < n/16; i++ {
			cases = append(cases, res{mc: genMqMixedScrub(c.r.Fork()), tag: "mixed-scrub"})
		}
	}
	// run in parallel: each case has its own queue, allocator and network
	var wg sync.WaitGroup
	retried := 0
	sem := make(chan struct{}, 1) // sequential: parking is detected from goroutine stacks of the whole process
	for i := range cases {
		wg.Add(1)
		sem <- struct{}{}
		go func(i int) {
			defer wg.Done()
			defer func() { <-sem }()
			cases[i].labels, cases[i].obs, cases[i].err, cases[i].hung = runMqCase(cases[i].mc)
			if cases[i].hung {
				// the 5s wait for the goroutines to park expired (machine under load): the observations of
				// such a run are not taken at parked states, so run the case again; a second expiry is kept
				// and reported (a queue goroutine that never parks is a real defect)
				time.Sleep(200 * time.Millisecond)
				cases[i].labels, cases[i].obs, cases[i].err, cases[i].hung = runMqCase(cases[i].mc)
				retried++
			}
		}(i)
	}
	wg.Wait()
	if retried > 0 {
		w.Stats.Extra = map[string]interface{}{"cases_rerun_after_wait_expired": retried}
	}
	for _, r := range cases {
		tags := []string{"kind:" + r.tag}
		if r.err {
			tags = append(tags, "has-network-failure")
		}
		if r.hung {
			tags = append(tags, "harness-wait-expired")
		}
		shut := false
		for _, l := range r.mc.Labels {
			if l.K == "shutdown" {
				shut = true
			}
		}
		if shut {
			tags = append(tags, "has-shutdown")
		}
		if r.mc.Dedup {
			tags = append(tags, "dedup-buckets-common-blocks")
		}
		term := fmt.Sprintf("Build_qcase %s\n    %s\n    %s", cw.NList(r.mc.Univ), cw.List(r.labels), cw.List(r.obs))
		r.mc.Tags = tags
		w.Add(term, r.mc, r.err || shut, tags...)
	}
	return w.Flush()
}

func init() { drivers["msgqueue"] = driveMsgQueue }

type gState struct {
	state string // e.g. "select", "chan receive", "runnable"
	first string // first frame's function line
	body  string
}

func goroutineStates() []gState {
	buf := make([]byte, 1<<20)
	n := runtime.Stack(buf, true)
	var out []gState
	for _, blk := range strings.Split(string(buf[:n]), "\n\n") {
		lines := strings.Split(blk, "\n")
		if len(lines) < 2 || !strings.HasPrefix(lines[0], "goroutine ") {
			continue
		}
		st := ""
		if i := strings.Index(lines[0], "["); i >= 0 {
			st = strings.TrimSuffix(strings.TrimSpace(lines[0][i+1:]), "]:")
			if j := strings.Index(st, ","); j >= 0 {
				st = st[:j] // strip ", N minutes"
			}
		}
		out = append(out, gState{state: st, first: lines[1], body: blk})
	}
	return out
}
