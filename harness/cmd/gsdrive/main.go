// gsdrive drives the real go-graphsync packages (built from /repo's working tree with -tags verif)
// on generated and corpus cases and writes what it observed as Coq terms for the model to check.
//
//	gsdrive <driver> -seed N -tier quick|thorough -out DIR [-replay case.json] [-corpus DIR]
package main

import (
	"encoding/json"
	"flag"
	"fmt"
	"os"
	"path/filepath"
	"sort"

	"verif/harness/internal/rng"
)

type ctx struct {
	seed    uint64
	tier    string
	out     string
	replay  string
	corpus  string
	r       *rng.R
	n       int // -n override of case count (0 = driver default)
}

func (c *ctx) thorough() bool { return c.tier == "thorough" }

// count picks the number of generated cases for the tier
func (c *ctx) count(quick, thorough int) int {
	if c.n > 0 {
		return c.n
	}
	if c.thorough() {
		return thorough
	}
	return quick
}

var drivers = map[string]func(*ctx) error{}

// inflight records the case about to be run in <out>/inflight.json; if the driver then dies or hangs inside
// the code under test, bin/check reports that case as the replay. Removed when the driver ends normally.
func (c *ctx) inflight(v any) {
	if c.out == "" {
		return
	}
	_ = os.MkdirAll(c.out, 0o755)
	if b, err := json.Marshal(v); err == nil {
		_ = os.WriteFile(filepath.Join(c.out, "inflight.json"), b, 0o644)
	}
}

// corpusFiles lists *.json under corpus/<name>, sorted
func (c *ctx) corpusFiles(name string) []string {
	if c.corpus == "" {
		return nil
	}
	fs, _ := filepath.Glob(filepath.Join(c.corpus, name, "*.json"))
	sort.Strings(fs)
	return fs
}

func readJSON(path string, v any) error {
	b, err := os.ReadFile(path)
	if err != nil {
		return err
	}
	return json.Unmarshal(b, v)
}

func main() {
	if len(os.Args) < 2 {
		fmt.Fprintln(os.Stderr, "usage: gsdrive <driver> [flags]")
		os.Exit(2)
	}
	name := os.Args[1]
	fs := flag.NewFlagSet(name, flag.ExitOnError)
	c := &ctx{}
	fs.Uint64Var(&c.seed, "seed", 1, "PRNG seed")
	fs.StringVar(&c.tier, "tier", "quick", "quick|thorough")
	fs.StringVar(&c.out, "out", "", "output directory")
	fs.StringVar(&c.replay, "replay", "", "replay one case (JSON file with a 'case' member)")
	fs.StringVar(&c.corpus, "corpus", "", "corpus root directory")
	fs.IntVar(&c.n, "n", 0, "override number of generated cases")
	_ = fs.Parse(os.Args[2:])
	c.r = rng.New(c.seed)
	d, ok := drivers[name]
	if !ok {
		fmt.Fprintln(os.Stderr, "unknown driver", name)
		os.Exit(2)
	}
	if c.out == "" {
		fmt.Fprintln(os.Stderr, "-out required")
		os.Exit(2)
	}
	if err := d(c); err != nil {
		fmt.Fprintln(os.Stderr, "driver error:", err)
		os.Exit(3)
	}
	_ = os.Remove(filepath.Join(c.out, "inflight.json"))
}
