package main

// Driver for C18, bursts: the publisher's goroutine is held inside a blocked subscriber callback while the
// whole call sequence is issued (the commands pile up in its queue), then released; every subscriber's
// complete log is compared with the log the model prescribes (PublisherBurst.v).

import (
	"fmt"
	"strings"
	"sync"
	"time"

	"github.com/ipfs/go-graphsync/notifications"

	"verif/harness/internal/cw"
	"verif/harness/internal/rng"
)

type blockerSub struct {
	entered chan struct{}
	hold    chan struct{}
}

func (b *blockerSub) OnNext(t notifications.Topic, e notifications.Event) {
	b.entered <- struct{}{}
	<-b.hold
}
func (b *blockerSub) OnClose(t notifications.Topic) {}

type blockerTopic struct{}

func runPubBurst(c pubCase) (logs []string, nEvents int, timedOut bool) {
	ps := notifications.NewPublisher()
	ps.Startup()
	var mu sync.Mutex
	subs := map[uint64]*recSub{}
	for _, s := range c.Univ {
		subs[s] = &recSub{mu: &mu, id: s, subs: map[uint64]bool{}}
	}
	marker := &markerSub{ch: make(chan uint64, 4)}
	ps.Subscribe(markerTopic{}, marker)
	blk := &blockerSub{entered: make(chan struct{}, 1), hold: make(chan struct{})}
	ps.Subscribe(blockerTopic{}, blk)
	ps.Publish(blockerTopic{}, uint64(0))
	select {
	case <-blk.entered:
	case <-time.After(10 * time.Second):
		return nil, 0, true
	}
	// the publisher's goroutine is now parked inside the blocker's callback: everything below queues up
	shut := false
	for _, o := range c.Ops {
		switch o.K {
		case "subscribe":
			if ps.Subscribe(pubTopic(o.T), subs[o.S]) {
				mu.Lock()
				subs[o.S].subs[o.T] = true
				mu.Unlock()
			}
		case "unsubscribe":
			ps.Unsubscribe(subs[o.S])
		case "publish":
			ps.Publish(pubTopic(o.T), o.E)
		case "close":
			ps.Close(pubTopic(o.T))
		case "shutdown":
			ps.Shutdown()
			shut = true
		}
	}
	if !shut {
		ps.Publish(markerTopic{}, uint64(1))
	}
	close(blk.hold)
	if !shut {
		select {
		case <-marker.ch:
		case <-time.After(20 * time.Second):
			timedOut = true
		}
	} else {
		// after shutdown the marker is dropped: the publisher's goroutine drains its queue, closes every
		// remaining subscription and returns; once it is gone nothing more can be delivered
		if !waitPublishersGone(20 * time.Second) {
			timedOut = true
		}
	}
	mu.Lock()
	for _, s := range c.Univ {
		logs = append(logs, cw.List(subs[s].evs))
		nEvents += len(subs[s].evs)
	}
	mu.Unlock()
	if !shut {
		ps.Shutdown()
		waitPublishersGone(20 * time.Second)
	}
	return
}

// waitPublishersGone waits until no goroutine is running a publisher's command loop any more
func waitPublishersGone(d time.Duration) bool {
	deadline := time.Now().Add(d)
	for {
		n := 0
		for _, g := range goroutineStates() {
			if strings.Contains(g.body, "notifications.(*publisher).start") {
				n++
			}
		}
		if n == 0 {
			return true
		}
		if time.Now().After(deadline) {
			return false
		}
		time.Sleep(100 * time.Microsecond)
	}
}

func pubBurstTerm(c pubCase, logs []string) string {
	ops := make([]string, len(c.Ops))
	for i, o := range c.Ops {
		switch o.K {
		case "subscribe":
			ops[i] = fmt.Sprintf("PSubscribe %d %d", o.T, o.S)
		case "unsubscribe":
			ops[i] = fmt.Sprintf("PUnsubscribe %d", o.S)
		case "publish":
			ops[i] = fmt.Sprintf("PPublish %d %d", o.T, o.E)
		case "close":
			ops[i] = fmt.Sprintf("PClose %d", o.T)
		default:
			ops[i] = "PShutdown"
		}
	}
	return fmt.Sprintf("Build_bcase %s\n    %s\n    %s", cw.NList(c.Univ), cw.List(ops), cw.List(logs))
}

// genPubBurst: long scripts (the queue must grow well past a few dozen commands), mostly publishes and
// subscribes so that the logs are long; a shutdown only at the very end, if at all
func genPubBurst(r *rng.R) pubCase {
	ns := r.Range(1, 3)
	nt := r.Range(1, 3)
	var c pubCase
	for i := 1; i <= ns; i++ {
		c.Univ = append(c.Univ, uint64(i))
	}
	n := rng.Pick(r, []int{20, 34, 37, 50, 70, 100, 130, 160, 200, 260})
	n += r.Intn(7)
	ev := uint64(100)
	for i := 0; i < n; i++ {
		x := r.Intn(100)
		t := uint64(r.Range(1, nt))
		if r.P(1, 8) {
			t = 0 // the nil interface value: a topic like any other
		}
		s := uint64(r.Range(1, ns))
		switch {
		case x < 25 || i < ns:
			c.Ops = append(c.Ops, pubOp{K: "subscribe", T: t, S: s})
		case x < 85:
			ev++
			c.Ops = append(c.Ops, pubOp{K: "publish", T: t, E: ev})
		case x < 92:
			c.Ops = append(c.Ops, pubOp{K: "close", T: t})
		default:
			c.Ops = append(c.Ops, pubOp{K: "unsubscribe", S: s})
		}
	}
	if r.P(1, 3) {
		c.Ops = append(c.Ops, pubOp{K: "shutdown"})
	}
	return c
}

const pubBurstHeader = `From Coq Require Import List NArith Bool.
From GS Require Import Base Publisher PublisherBurst.
Import ListNotations.
Open Scope N_scope.
`

func drivePubBurst(c *ctx) error {
	w := cw.New(c.out, pubBurstHeader, "bcase", []cw.Check{
		{Name: "MISMATCH", Fn: "bcase_agrees"},
		{Name: "MON18B", Fn: "bcase_agrees"},
	})
	w.ShardSize = 60
	w.Stats.Rule = "bursts: 20-270 subscribe/unsubscribe/publish/close-topic(/final shutdown) calls issued while the real publisher's goroutine is held inside a " +
		"blocked subscriber callback, then released; every subscriber's complete log is compared with the log the model prescribes (closes of one call sorted); " +
		"non-trivial = at least 10 events delivered; distinct = distinct terms"
	add := func(pc pubCase, tag string) {
		c.inflight(pc)
		logs, nev, to := runPubBurst(pc)
		if to {
			logs, nev, to = runPubBurst(pc) // a wait that expired on a loaded machine: once more
		}
		tags := []string{"kind:" + tag, fmt.Sprintf("calls:%d-%d", len(pc.Ops)/50*50, len(pc.Ops)/50*50+49)}
		if to {
			tags = append(tags, "harness-timeout")
		}
		w.Add(pubBurstTerm(pc, logs), pc, nev >= 10, tags...)
	}
	if c.replay != "" {
		var rf struct {
			Case pubCase `json:"case"`
		}
		if err := readJSON(c.replay, &rf); err != nil {
			return err
		}
		add(rf.Case, "replay")
		return w.Flush()
	}
	for _, f := range c.corpusFiles("pubburst") {
		var rf struct {
			Case pubCase `json:"case"`
		}
		if err := readJSON(f, &rf); err != nil {
			return fmt.Errorf("%s: %w", f, err)
		}
		add(rf.Case, "corpus")
	}
	n := c.count(120, 1500)
	for i := 0; i < n; i++ {
		add(genPubBurst(c.r.Fork()), "random")
	}
	return w.Flush()
}

func init() { drivers["pubburst"] = drivePubBurst }
