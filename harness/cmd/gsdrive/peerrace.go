package main

// Driver for C17, racing writers: a queue's late exit callback (onShutdown) racing a Disconnected and a
// Connected (or a send) of the same peer, all three queued on the PeerManager's table lock while the harness
// holds it (verif hook) and released together. Which of them runs first is not determined; the property holds
// for every order, so only the monitor is evaluated (no model comparison): after the next send every live queue
// is the table's queue of its peer, and after the peer's last disconnect none of its queues is live.

import (
	"context"
	"fmt"
	"runtime"
	"sort"
	"sync"
	"time"

	"github.com/libp2p/go-libp2p/core/peer"

	"github.com/ipfs/go-graphsync/peermanager"

	"verif/harness/internal/cw"
)

type prCase struct {
	Pre    int      `json:"pre"`    // extra Connected(p) before the queue fails (0..1): connection count when the race starts is 1+Pre
	Third  string   `json:"third"`  // what races the exit and the Disconnected: "connected" | "get"
	Order  []int    `json:"order"`  // order in which the three calls are queued on the lock (permutation of 0 exit, 1 disconnected, 2 third)
	Rounds int      `json:"rounds"` // the whole scenario is repeated on fresh managers (the interleaving is the scheduler's)
	Tags   []string `json:"tags,omitempty"`
}

type prObs struct {
	owner     []uint64
	afterSend string
	final     []uint64
}

func runPrOnce(c prCase) (prObs, error) {
	var o prObs
	ps := &pcProcs{}
	pm := peermanager.New(context.Background(), func(ctx context.Context, p peer.ID, onShutdown func(peer.ID)) peermanager.PeerHandler {
		ps.mu.Lock()
		defer ps.mu.Unlock()
		f := &fakeProc{id: uint64(len(ps.procs)), p: 7, onShutdown: onShutdown}
		ps.procs = append(ps.procs, f)
		return f
	})
	p := pmPeer(7)
	conns := 0
	pm.Connected(p)
	conns++
	for i := 0; i < c.Pre; i++ {
		pm.Connected(p)
		conns++
	}
	// the queue fails to connect: it shuts itself down; its goroutine will exit and run the callback
	ps.mu.Lock()
	q0 := ps.procs[0]
	ps.mu.Unlock()
	q0.Shutdown()
	calls := []func(){
		func() { q0.exited = true; q0.onShutdown(p) },
		func() { pm.Disconnected(p) },
		func() {
			if c.Third == "get" {
				pm.GetProcess(p)
			} else {
				pm.Connected(p)
			}
		},
	}
	before := parkedOnTable()
	pm.VerifLockTable()
	var wg sync.WaitGroup
	for k, i := range c.Order {
		wg.Add(1)
		go func(f func()) { defer wg.Done(); f() }(calls[i])
		deadline := time.Now().Add(20 * time.Second)
		for parkedOnTable()-before < k+1 {
			if time.Now().After(deadline) {
				pm.VerifUnlockTable()
				wg.Wait()
				return o, fmt.Errorf("racing calls did not park on the table lock")
			}
			runtime.Gosched()
			time.Sleep(50 * time.Microsecond)
		}
	}
	pm.VerifUnlockTable()
	wg.Wait()
	conns-- // the Disconnected
	if c.Third == "connected" {
		conns++
	}
	// a send
	pm.GetProcess(p)
	snap := func() (string, []uint64) {
		var tab []string
		peers := pm.ConnectedPeers()
		sort.Slice(peers, func(i, j int) bool { return peers[i] < peers[j] })
		for _, q := range peers {
			h := pm.GetProcess(q).(*fakeProc)
			tab = append(tab, fmt.Sprintf("(7, %d)", h.id))
		}
		var sts []uint64
		ps.mu.Lock()
		for _, f := range ps.procs {
			switch {
			case f.exited:
				sts = append(sts, 2)
			case f.signalled:
				sts = append(sts, 1)
			default:
				sts = append(sts, 0)
			}
		}
		ps.mu.Unlock()
		return fmt.Sprintf("Build_pmobs None %s %s", cw.List(tab), cw.NList(sts)), sts
	}
	o.afterSend, _ = snap()
	// the peer's remaining connections go away; at least one Disconnected is delivered
	if conns < 1 {
		conns = 1
	}
	for i := 0; i < conns; i++ {
		pm.Disconnected(p)
	}
	_, o.final = snap()
	ps.mu.Lock()
	for range ps.procs {
		o.owner = append(o.owner, 7)
	}
	ps.mu.Unlock()
	return o, nil
}

const prHeader = `From Coq Require Import List NArith Bool.
From GS Require Import Base PeerMgr PeerMgrConc.
Import ListNotations.
Open Scope N_scope.
`

func drivePeerRace(c *ctx) error {
	w := cw.New(c.out, prHeader, "rcase", []cw.Check{{Name: "MON17R", Fn: "rcase_mon"}})
	w.Stats.Rule = "real peermanager.PeerManager with a scripted process factory: Connected (once or twice), the queue shuts itself down, then its late exit callback, a Disconnected and " +
		"a Connected (or a send) of the same peer are queued on the table lock in each of the 6 orders while the harness holds it, and released together; then a send, then the remaining " +
		"disconnects; every order of the racing calls is legal, so only the monitor is evaluated: after the send every live queue is the table's, after the last disconnect none is live; " +
		"repeated on fresh managers; non-trivial = all; distinct = distinct terms"
	run := func(rc prCase, tag string) error {
		c.inflight(rc)
		rounds := rc.Rounds
		if rounds < 1 {
			rounds = 1
		}
		for r := 0; r < rounds; r++ {
			o, err := runPrOnce(rc)
			if err != nil {
				o, err = runPrOnce(rc)
			}
			if err != nil {
				return err
			}
			term := fmt.Sprintf("Build_rcase %s (%s) 7 %s", cw.NList(o.owner), o.afterSend, cw.NList(o.final))
			rc.Tags = []string{"kind:" + tag, "third:" + rc.Third, fmt.Sprintf("order:%v", rc.Order)}
			w.Add(term, rc, true, rc.Tags...)
		}
		return nil
	}
	if c.replay != "" {
		var rf struct {
			Case prCase `json:"case"`
		}
		if err := readJSON(c.replay, &rf); err != nil {
			return err
		}
		if rf.Case.Rounds < 20 {
			rf.Case.Rounds = 20
		}
		if err := run(rf.Case, "replay"); err != nil {
			return err
		}
		return w.Flush()
	}
	orders := [][]int{{0, 1, 2}, {0, 2, 1}, {1, 0, 2}, {1, 2, 0}, {2, 0, 1}, {2, 1, 0}}
	rounds := c.count(6, 40)
	for _, third := range []string{"connected", "get"} {
		for pre := 0; pre <= 1; pre++ {
			for _, ord := range orders {
				if err := run(prCase{Pre: pre, Third: third, Order: ord, Rounds: rounds}, "grid"); err != nil {
					return err
				}
			}
		}
	}
	return w.Flush()
}

func init() { drivers["peerrace"] = drivePeerRace }
