package main

// Driver for C08 (whole stack): a real responder with DEFAULT settings (the default validator is registered by
// impl.New; no hook validates) receives requests whose selectors carry recursion limits around the default
// depth; optionally an application request hook that does something else (pauses the response, sets a link
// budget). Observed on the requestor's side: whether a RequestRejected status came back and how many blocks.

import (
	"context"
	"fmt"
	"sync"
	"sync/atomic"
	"time"

	"github.com/libp2p/go-libp2p/core/peer"

	"github.com/ipfs/go-graphsync"
	"github.com/ipld/go-ipld-prime/traversal/selector"

	"verif/harness/internal/cw"
	"verif/harness/internal/dag"
	"verif/harness/internal/e2e"
	"verif/harness/internal/rng"
)

type e2eValCase struct {
	Sel  *selAst  `json:"sel"`
	Hook string   `json:"hook"` // none | pause | maxlinks : what the application's incoming-request hook does (it never validates)
	Len  int      `json:"len"`
	Tags []string `json:"tags,omitempty"`
}

type e2eValObs struct {
	rejected bool
	blocks   uint64
}

func runE2EVal(c e2eValCase) (e2eValObs, error) {
	var o e2eValObs
	w, err := e2e.NewWorld(2)
	if err != nil {
		return o, err
	}
	defer w.Close()
	req := w.Start(0)
	resp := w.Start(1) // default settings
	var blocks uint64
	var rejected int32
	var mu sync.Mutex
	var pausedID *graphsync.RequestID
	if c.Hook != "none" {
		resp.RegisterIncomingRequestHook(func(p peer.ID, r graphsync.RequestData, ha graphsync.IncomingRequestHookActions) {
			switch c.Hook {
			case "pause":
				ha.PauseResponse()
				id := r.ID()
				mu.Lock()
				pausedID = &id
				mu.Unlock()
			case "maxlinks":
				ha.MaxLinks(1000)
			}
		})
	}
	req.RegisterIncomingResponseHook(func(p peer.ID, r graphsync.ResponseData, ha graphsync.IncomingResponseHookActions) {
		if r.Status() == graphsync.RequestRejected {
			atomic.StoreInt32(&rejected, 1)
		}
	})
	req.RegisterIncomingBlockHook(func(p peer.ID, r graphsync.ResponseData, b graphsync.BlockData, ha graphsync.IncomingBlockHookActions) {
		atomic.AddUint64(&blocks, 1)
	})
	d := dag.ChainSalt(c.Len, 7)
	for _, b := range d.Blocks {
		w.Nodes[1].Store.Put(dagLink(b), b.Data)
	}
	ctx, cancel := context.WithTimeout(w.Ctx, 20*time.Second)
	defer cancel()
	progress, errs := req.Request(ctx, w.Nodes[1].ID(), d.Root(), renderSel(c.Sel))
	done := make(chan struct{})
	// a response the application's hook paused is resumed as soon as it is parked: whatever the default validation
	// decided must already have happened
	go func() {
		for {
			select {
			case <-done:
				return
			case <-time.After(5 * time.Millisecond):
			}
			mu.Lock()
			id := pausedID
			mu.Unlock()
			if id != nil {
				if resp.Unpause(ctx, *id) == nil {
					return
				}
			}
		}
	}()
	for progress != nil || errs != nil {
		select {
		case _, ok := <-progress:
			if !ok {
				progress = nil
			}
		case _, ok := <-errs:
			if !ok {
				errs = nil
			}
		case <-ctx.Done():
			close(done)
			return o, fmt.Errorf("request timed out")
		}
	}
	close(done)
	o.rejected = atomic.LoadInt32(&rejected) == 1
	o.blocks = atomic.LoadUint64(&blocks)
	return o, nil
}

const e2eValHeader = `From Coq Require Import List String ZArith NArith Bool.
From GS Require Import Base SelWalk SelWalkCases.
Import ListNotations.
Open Scope string_scope.
Open Scope list_scope.
Definition mk_vcase := Build_vcase.
`

func driveE2EVal(c *ctx) error {
	w := cw.New(c.out, e2eValHeader, "vcase", []cw.Check{{Name: "MON08E", Fn: "vcase_ok"}})
	w.Stats.Rule = "two real GraphSync instances over the libp2p mocknet, the responder with default settings (default validator, no validating hook) and optionally an " +
		"application request hook that pauses the response or sets a link budget; selectors: recursion limits none / 99 / 100 / 101 / 1000 plain, nested in union, fields, " +
		"another recursion and interpret-as, plus random ASTs; a paused response is resumed as soon as it is parked; observed = a RequestRejected status reached the requestor, " +
		"blocks received; expected = rejected iff some limit is none or above the (regenerated) default depth, no block when rejected; non-trivial = the hook pauses or the recursion is nested; distinct = distinct terms"
	run := func(vc e2eValCase, tag string) error {
		c.inflight(vc)
		obs, err := runE2EVal(vc)
		if err != nil {
			obs, err = runE2EVal(vc)
		}
		if err != nil {
			return err
		}
		hook := map[string]int{"none": 0, "pause": 1, "maxlinks": 2}[vc.Hook]
		vc.Tags = []string{"kind:" + tag, "hook:" + vc.Hook}
		if obs.rejected {
			vc.Tags = append(vc.Tags, "go-rejects")
		} else {
			vc.Tags = append(vc.Tags, "go-serves")
		}
		term := fmt.Sprintf("mk_vcase %s %d %s %d", selTerm(vc.Sel), hook, cw.Bool(obs.rejected), obs.blocks)
		w.Add(term, vc, vc.Hook == "pause" || recUnder(vc.Sel, false), vc.Tags...)
		return nil
	}
	if c.replay != "" {
		var rf struct {
			Case e2eValCase `json:"case"`
		}
		if err := readJSON(c.replay, &rf); err != nil {
			return err
		}
		if err := run(rf.Case, "replay"); err != nil {
			return err
		}
		return w.Flush()
	}
	rec := func(lim *int64) *selAst { return &selAst{K: "rec", Lim: lim, N: &selAst{K: "all", N: &selAst{K: "edge"}}} }
	wraps := []func(*selAst) *selAst{
		func(s *selAst) *selAst { return s },
		func(s *selAst) *selAst { return &selAst{K: "union", L: []*selAst{{K: "matcher"}, s}} },
		func(s *selAst) *selAst { return &selAst{K: "fields", Keys: []string{"next"}, L: []*selAst{s}} },
		func(s *selAst) *selAst {
			return &selAst{K: "rec", Lim: i64(3), N: &selAst{K: "all", N: &selAst{K: "union", L: []*selAst{{K: "edge"}, s}}}}
		},
		func(s *selAst) *selAst { return &selAst{K: "interp", Adl: "unixfs", N: s} },
	}
	lims := []*int64{nil, i64(99), i64(100), i64(101), i64(1000)}
	hooks := []string{"none", "pause", "maxlinks"}
	for _, wrap := range wraps {
		for _, lim := range lims {
			for _, hook := range hooks {
				// the quick tier runs every (wrap, limit) with the pausing hook, and the other two hooks at the two limits that must be rejected closest to the boundary
				if !c.thorough() && hook != "pause" && lim != nil && *lim != 101 {
					continue
				}
				if err := run(e2eValCase{Sel: wrap(rec(lim)), Hook: hook, Len: 4}, "grid"); err != nil {
					return err
				}
			}
		}
	}
	n := c.count(20, 200)
	for i := 0; i < n; i++ {
		r := c.r.Fork()
		s := genSel(r, 3, 100, false)
		if _, err := selector.CompileSelector(renderSel(s)); err != nil {
			continue // the requestor itself refuses a selector that does not compile: nothing reaches the responder
		}
		if err := run(e2eValCase{Sel: s, Hook: rng.Pick(r, hooks), Len: 3}, "random"); err != nil {
			return err
		}
	}
	return w.Flush()
}

func init() { drivers["e2eval"] = driveE2EVal }
