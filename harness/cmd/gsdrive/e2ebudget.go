package main

// Driver for C07 (whole stack): two real GraphSync instances over the libp2p mocknet; a chain DAG held
// by the responder; global and per-request link budgets on the requestor or on the responder.

import (
	"context"
	"fmt"
	"sync"
	"sync/atomic"
	"time"

	"github.com/libp2p/go-libp2p/core/peer"

	"github.com/ipfs/go-graphsync"
	gsimpl "github.com/ipfs/go-graphsync/impl"

	"verif/harness/internal/cw"
	"verif/harness/internal/dag"
	"verif/harness/internal/e2e"
)

type e2eBudgetCase struct {
	Side   string   `json:"side"` // "requestor" | "responder"
	Global uint64   `json:"global"`
	Per    uint64   `json:"per"`
	Len    int      `json:"len"`
	Reps   int      `json:"reps,omitempty"` // sequential requests on the same pair of instances (default 1), each over a fresh chain
	Pers   []uint64 `json:"pers,omitempty"` // per-request budget of each sequential request set by the hook (overrides Per; len = Reps): a request's budget is its own, it must not leak into later requests
	Paused bool     `json:"paused,omitempty"` // responder side: the request hook that sets the per-request budget also pauses the response; it is resumed as soon as it is parked
	Local  int      `json:"local,omitempty"` // the requestor already holds the first Local blocks of each chain (its request then asks the responder to skip them); < Len
	Tags   []string `json:"tags,omitempty"`
}

type e2eBudgetObs struct {
	loaded uint64
	failed bool
}

// returns blocks loaded by the enforcing peer's traversal and whether the request ended with an error
func runE2EBudget(c e2eBudgetCase) (out []e2eBudgetObs, err error) {
	w, err := e2e.NewWorld(2)
	if err != nil {
		return nil, err
	}
	defer w.Close()
	reps := c.Reps
	if reps < 1 {
		reps = 1
	}
	var reqOpts, respOpts []gsimpl.Option
	if c.Side == "requestor" && c.Global > 0 {
		reqOpts = append(reqOpts, gsimpl.MaxLinksPerOutgoingRequests(c.Global))
	}
	if c.Side == "responder" && c.Global > 0 {
		respOpts = append(respOpts, gsimpl.MaxLinksPerIncomingRequests(c.Global))
	}
	req := w.Start(0, reqOpts...)
	resp := w.Start(1, respOpts...)
	var respBlocks, reqBlocks, curPer uint64
	var pmu sync.Mutex
	var pausedID *graphsync.RequestID
	curPer = c.Per
	resp.RegisterIncomingRequestHook(func(p peer.ID, r graphsync.RequestData, ha graphsync.IncomingRequestHookActions) {
		ha.ValidateRequest()
		if per := atomic.LoadUint64(&curPer); c.Side == "responder" && per > 0 {
			ha.MaxLinks(per)
		}
		if c.Side == "responder" && c.Paused {
			ha.PauseResponse()
			id := r.ID()
			pmu.Lock()
			pausedID = &id
			pmu.Unlock()
		}
	})
	resp.RegisterOutgoingBlockHook(func(p peer.ID, r graphsync.RequestData, b graphsync.BlockData, ha graphsync.OutgoingBlockHookActions) {
		atomic.AddUint64(&respBlocks, 1)
	})
	req.RegisterOutgoingRequestHook(func(p peer.ID, r graphsync.RequestData, ha graphsync.OutgoingRequestHookActions) {
		if per := atomic.LoadUint64(&curPer); c.Side == "requestor" && per > 0 {
			ha.MaxLinks(per)
		}
	})
	req.RegisterIncomingBlockHook(func(p peer.ID, r graphsync.ResponseData, b graphsync.BlockData, ha graphsync.IncomingBlockHookActions) {
		atomic.AddUint64(&reqBlocks, 1)
	})
	// every request of the case runs on the same two instances: a budget is per request, so each must
	// behave as the first one does
	if len(c.Pers) > 0 {
		reps = len(c.Pers)
	}
	for rep := 0; rep < reps; rep++ {
		if len(c.Pers) > 0 {
			atomic.StoreUint64(&curPer, c.Pers[rep])
		}
		d := dag.ChainSalt(c.Len, int64(rep))
		for i, b := range d.Blocks {
			w.Nodes[1].Store.Put(dagLink(b), b.Data)
			if i < c.Local {
				w.Nodes[0].Store.Put(dagLink(b), b.Data)
			}
		}
		atomic.StoreUint64(&respBlocks, 0)
		atomic.StoreUint64(&reqBlocks, 0)
		failed := false
		ctx, cancel := context.WithTimeout(w.Ctx, 30*time.Second)
		progress, errs := req.Request(ctx, w.Nodes[1].ID(), d.Root(), dag.AllSelector())
		stopUnpause := make(chan struct{})
		if c.Paused {
			go func() {
				for {
					select {
					case <-stopUnpause:
						return
					case <-time.After(2 * time.Millisecond):
					}
					pmu.Lock()
					id := pausedID
					pmu.Unlock()
					if id != nil && resp.Unpause(ctx, *id) == nil {
						pmu.Lock()
						pausedID = nil
						pmu.Unlock()
						return
					}
				}
			}()
		}
		for progress != nil || errs != nil {
			select {
			case _, ok := <-progress:
				if !ok {
					progress = nil
				}
			case e, ok := <-errs:
				if !ok {
					errs = nil
				} else if e != nil {
					failed = true
				}
			case <-ctx.Done():
				cancel()
				close(stopUnpause)
				return nil, fmt.Errorf("request timed out")
			}
		}
		close(stopUnpause)
		cancel()
		if c.Side == "responder" {
			// let the responder finish its bookkeeping
			time.Sleep(5 * time.Millisecond)
			out = append(out, e2eBudgetObs{atomic.LoadUint64(&respBlocks), failed})
		} else {
			out = append(out, e2eBudgetObs{atomic.LoadUint64(&reqBlocks), failed})
		}
	}
	return out, nil
}

const e2eBudgetHeader = `From Coq Require Import List NArith Bool.
From GS Require Import Base Ltree.
Import ListNotations.
Open Scope N_scope.
Definition mk_ebcase := Build_ebcase.
`

func driveE2EBudget(c *ctx) error {
	w := cw.New(c.out, e2eBudgetHeader, "ebcase", []cw.Check{{Name: "MON07E", Fn: "ebcase_ok"}})
	w.Stats.Rule = "two real GraphSync instances over the libp2p mocknet; chain DAGs of 1..6 blocks on the responder; every combination of global and per-request " +
		"link budget in {0..4} on the requestor and on the responder; 1-3 sequential requests (fresh chains) per pair of instances, also with per-request budgets that differ from request to request (hook sets MaxLinks for some only); responder-side cases also with the budget-setting hook pausing the response at its start (resumed at once), and with the requestor holding the first 1-2 blocks (so the request carries do-not-send-first-blocks); observed = blocks loaded by the enforcing peer and whether the request failed; " +
		"non-trivial = both budgets non-zero; distinct = distinct terms"
	run := func(ec e2eBudgetCase, tag string) error {
		c.inflight(ec)
		obs, err := runE2EBudget(ec)
		if err != nil {
			obs, err = runE2EBudget(ec) // a request that timed out on a loaded machine is tried once more
		}
		if err != nil {
			return err
		}
		side := 0
		if ec.Side == "responder" {
			side = 1
		}
		for i, o := range obs {
			per := ec.Per
			if len(ec.Pers) > 0 {
				per = ec.Pers[i]
			}
			term := fmt.Sprintf("mk_ebcase %d %d %d %d %d %s", side, ec.Global, per, ec.Len, o.loaded, cw.Bool(o.failed))
			ec.Tags = []string{"kind:" + tag, "side:" + ec.Side, fmt.Sprintf("request-no:%d", i+1)}
			w.Add(term, ec, (ec.Global > 0 && per > 0) || len(ec.Pers) > 0, ec.Tags...)
		}
		return nil
	}
	if c.replay != "" {
		var rf struct {
			Case e2eBudgetCase `json:"case"`
		}
		if err := readJSON(c.replay, &rf); err != nil {
			return err
		}
		if err := run(rf.Case, "replay"); err != nil {
			return err
		}
		return w.Flush()
	}
	maxB := 3
	lens := []int{1, 3, 5}
	if c.thorough() {
		maxB = 5
		lens = []int{1, 2, 3, 4, 5, 6, 7}
	}
	for _, side := range []string{"requestor", "responder"} {
		// per-request budgets that differ between the sequential requests of one pair of instances (a hook that sets
		// MaxLinks for some requests only): each request is capped by ITS budget and the global one, never by an earlier request's
		for g := 0; g <= maxB; g += 3 {
			for _, pers := range [][]uint64{{2, 0}, {1, 4, 0}, {3, 1, 5}, {0, 2, 0, 6}} {
				if err := run(e2eBudgetCase{Side: side, Global: uint64(g), Pers: pers, Len: 5}, "varying-per-request"); err != nil {
					return err
				}
			}
		}
		for g := 0; g <= maxB; g++ {
			for p := 0; p <= maxB; p++ {
				// one DAG length per combination in the quick tier, chosen to straddle the budget
				ls := lens
				if !c.thorough() {
					ls = []int{lens[(g+2*p)%len(lens)]}
					if g > 0 && g == p {
						ls = []int{g + 2}
					}
				}
				for _, l := range ls {
					if err := run(e2eBudgetCase{Side: side, Global: uint64(g), Per: uint64(p), Len: l, Reps: 1 + (g+p+l)%3}, "grid"); err != nil {
						return err
					}
					// the responder's budget counts the blocks IT loads, also those the request tells it not to send:
					// the requestor holds a prefix locally, so its request carries do-not-send-first-blocks
					if side == "responder" && p > 0 && (g == 0 || g > p) {
						// the hook that sets the per-request budget also pauses the response at its start
						if err := run(e2eBudgetCase{Side: side, Global: uint64(g), Per: uint64(p), Len: l + 2, Reps: 1, Paused: true}, "grid-paused-at-start"); err != nil {
							return err
						}
					}
					if side == "responder" && l >= 3 && (g > 0 || p > 0) {
						k := 1 + (g+p)%2
						if err := run(e2eBudgetCase{Side: side, Global: uint64(g), Per: uint64(p), Len: l, Reps: 1, Local: k}, "grid-local-prefix"); err != nil {
							return err
						}
					}
				}
			}
		}
	}
	return w.Flush()
}

func init() { drivers["e2ebudget"] = driveE2EBudget }
