package main

import (
	"github.com/ipld/go-ipld-prime"
	cidlink "github.com/ipld/go-ipld-prime/linking/cid"

	"verif/harness/internal/dag"
)

func dagLink(b dag.Block) ipld.Link { return cidlink.Link{Cid: b.Cid} }
