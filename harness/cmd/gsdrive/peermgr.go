package main

// Driver for C17: label scripts against the real peermanager.PeerManager with a scripted process
// factory (processes record Startup/Shutdown and fire their onShutdown callback on command).

import (
	"context"
	"fmt"
	"sort"

	"github.com/libp2p/go-libp2p/core/peer"

	"github.com/ipfs/go-graphsync/peermanager"

	"verif/harness/internal/cw"
	"verif/harness/internal/rng"
)

type pmLabel struct {
	K string `json:"k"` // connected | disconnected | get | selfshutdown | exit
	P uint64 `json:"p,omitempty"`
	Q uint64 `json:"q,omitempty"`
}

type pmCase struct {
	Labels []pmLabel `json:"labels"`
	Tags   []string  `json:"tags,omitempty"`
}

type fakeProc struct {
	id         uint64
	p          uint64
	started    bool
	signalled  bool
	exited     bool
	onShutdown func(peer.ID)
}

func (f *fakeProc) Startup()  { f.started = true }
func (f *fakeProc) Shutdown() { f.signalled = true }

func pmPeer(p uint64) peer.ID { return peer.ID(fmt.Sprintf("peer-%d", p)) }

func runPmCase(c pmCase) (labels []string, owner []uint64, obs []string, maxLive int) {
	var procs []*fakeProc
	pm := peermanager.New(context.Background(), func(ctx context.Context, p peer.ID, onShutdown func(peer.ID)) peermanager.PeerHandler {
		var pn uint64
		fmt.Sscanf(string(p), "peer-%d", &pn)
		f := &fakeProc{id: uint64(len(procs)), p: pn, onShutdown: onShutdown}
		procs = append(procs, f)
		return f
	})
	for _, l := range c.Labels {
		ret := "None"
		switch l.K {
		case "connected":
			pm.Connected(pmPeer(l.P))
			labels = append(labels, fmt.Sprintf("LConnected %d", l.P))
		case "disconnected":
			pm.Disconnected(pmPeer(l.P))
			labels = append(labels, fmt.Sprintf("LDisconnected %d", l.P))
		case "get":
			h := pm.GetProcess(pmPeer(l.P)).(*fakeProc)
			ret = fmt.Sprintf("(Some %d)", h.id)
			labels = append(labels, fmt.Sprintf("LGetProcess %d", l.P))
		case "selfshutdown":
			if int(l.Q) < len(procs) && !procs[l.Q].signalled {
				procs[l.Q].Shutdown()
			}
			labels = append(labels, fmt.Sprintf("LSelfShutdown %d", l.Q))
		case "exit":
			if int(l.Q) < len(procs) && procs[l.Q].signalled && !procs[l.Q].exited {
				procs[l.Q].exited = true
				procs[l.Q].onShutdown(pmPeer(procs[l.Q].p))
			}
			labels = append(labels, fmt.Sprintf("LExit %d", l.Q))
		}
		// table snapshot: for every connected peer, which process GetProcess would return -- read without
		// creating: ConnectedPeers lists the table's keys, and for those GetProcess does not create
		var tab []string
		peers := pm.ConnectedPeers()
		sort.Slice(peers, func(i, j int) bool {
			var a, b uint64
			fmt.Sscanf(string(peers[i]), "peer-%d", &a)
			fmt.Sscanf(string(peers[j]), "peer-%d", &b)
			return a < b
		})
		for _, p := range peers {
			var pn uint64
			fmt.Sscanf(string(p), "peer-%d", &pn)
			h := pm.GetProcess(p).(*fakeProc)
			tab = append(tab, fmt.Sprintf("(%d, %d)", pn, h.id))
		}
		var sts []uint64
		livePer := map[uint64]int{}
		for _, f := range procs {
			switch {
			case f.exited:
				sts = append(sts, 2)
			case f.signalled:
				sts = append(sts, 1)
			default:
				sts = append(sts, 0)
				livePer[f.p]++
				if livePer[f.p] > maxLive {
					maxLive = livePer[f.p]
				}
			}
		}
		obs = append(obs, fmt.Sprintf("Build_pmobs %s %s %s", ret, cw.List(tab), cw.NList(sts)))
	}
	for _, f := range procs {
		owner = append(owner, f.p)
	}
	return
}

func genPmCase(r *rng.R, maxLen int) pmCase {
	np := r.Range(1, 2)
	n := r.Range(1, maxLen)
	var c pmCase
	created := 0
	for i := 0; i < n; i++ {
		p := uint64(r.Range(1, np))
		switch x := r.Intn(100); {
		case x < 25:
			c.Labels = append(c.Labels, pmLabel{K: "connected", P: p})
			created++
		case x < 50:
			c.Labels = append(c.Labels, pmLabel{K: "disconnected", P: p})
		case x < 70:
			c.Labels = append(c.Labels, pmLabel{K: "get", P: p})
			created++
		case x < 80:
			c.Labels = append(c.Labels, pmLabel{K: "selfshutdown", Q: uint64(r.Intn(created + 1))})
		default:
			c.Labels = append(c.Labels, pmLabel{K: "exit", Q: uint64(r.Intn(created + 1))})
		}
	}
	return c
}

const pmHeader = `From Coq Require Import List NArith Bool.
From GS Require Import Base PeerMgr.
Import ListNotations.
Open Scope N_scope.
`

func drivePeerMgr(c *ctx) error {
	w := cw.New(c.out, pmHeader, "pmcase", []cw.Check{
		{Name: "MISMATCH", Fn: "pmcase_agrees"},
		{Name: "MON17", Fn: "pmcase_mon"},
	})
	w.Stats.Rule = "label scripts (Connected / Disconnected / GetProcess / process self-shutdown / late process exit firing the onShutdown callback) over 1-2 peers " +
		"against the real peermanager.PeerManager with a scripted process factory; non-trivial = some process exits after a newer process for the same peer was created; distinct = distinct terms"
	run := func(pc pmCase, tag string) {
		c.inflight(pc)
		labels, owner, obs, _ := runPmCase(pc)
		// non-trivial: an exit label for a process that is not the newest of its peer
		nontriv := false
		newest := map[uint64]uint64{}
		for i, o := range owner {
			newest[o] = uint64(i)
		}
		for _, l := range pc.Labels {
			if l.K == "exit" && int(l.Q) < len(owner) && newest[owner[l.Q]] != l.Q {
				nontriv = true
			}
		}
		term := fmt.Sprintf("Build_pmcase %s %s\n    %s", cw.List(labels), cw.NList(owner), cw.List(obs))
		tags := []string{"kind:" + tag}
		if nontriv {
			tags = append(tags, "late-exit-of-old-process")
		}
		w.Add(term, pc, nontriv, tags...)
	}
	if c.replay != "" {
		var rf struct {
			Case pmCase `json:"case"`
		}
		if err := readJSON(c.replay, &rf); err != nil {
			return err
		}
		run(rf.Case, "replay")
		return w.Flush()
	}
	for _, f := range c.corpusFiles("peermgr") {
		var rf struct {
			Case pmCase `json:"case"`
		}
		if err := readJSON(f, &rf); err != nil {
			return fmt.Errorf("%s: %w", f, err)
		}
		run(rf.Case, "corpus")
	}
	n := c.count(2000, 20000)
	for i := 0; i < n; i++ {
		run(genPmCase(c.r.Fork(), 16), "random")
	}
	return w.Flush()
}

func init() { drivers["peermgr"] = drivePeerMgr }
