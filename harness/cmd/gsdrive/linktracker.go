package main

// Driver for C19: scripts against the real peerLinkTracker / linktracker.LinkTracker, reached through
// responseassembler.ResponseAssembler streams and transactions (public API); map sizes through the
// verif hook VerifTrackerSizes.

import (
	"context"
	"crypto/sha256"
	"fmt"

	"github.com/ipfs/go-cid"
	"github.com/ipld/go-ipld-prime"
	cidlink "github.com/ipld/go-ipld-prime/linking/cid"
	"github.com/libp2p/go-libp2p/core/peer"
	mh "github.com/multiformats/go-multihash"

	"github.com/ipfs/go-graphsync"
	"github.com/ipfs/go-graphsync/messagequeue"
	"github.com/ipfs/go-graphsync/responsemanager/responseassembler"

	"verif/harness/internal/cw"
	"verif/harness/internal/rng"
)

type ltOp struct {
	K   string   `json:"k"` // dedup | ignore | skip | record | finish
	R   uint64   `json:"r"`
	Key uint64   `json:"key,omitempty"`
	Ls  []uint64 `json:"ls,omitempty"`
	N   uint64   `json:"n,omitempty"`
	L   uint64   `json:"l,omitempty"`
	Has bool     `json:"has,omitempty"`
	// finish only: how the request's tracking is ended — "" FinishRequest, "err" FinishWithError(unknown failure),
	// "cancelled" FinishWithError(RequestCancelled), "clear" ResponseStream.ClearRequest.  All four must release the
	// request's tracking state (the model has one LFinish); the three error forms do not report completeness, so the
	// driver fills that one bit of the observation from the script (no missing link recorded for the request since it
	// started) — what is compared for them is the tracker state after the call and every later send decision.
	Mode string `json:"mode,omitempty"`
}

// ltKeyString: key 0 is the empty string — a request carrying it is keyed (its own scope), not keyless
func ltKeyString(k uint64) string {
	if k == 0 {
		return ""
	}
	return fmt.Sprintf("key-%d", k)
}

type ltCase struct {
	Ops  []ltOp   `json:"ops"`
	Tags []string `json:"tags,omitempty"`
}

type nopHandler struct{}

func (nopHandler) AllocateAndBuildMessage(p peer.ID, blkSize uint64, buildResponseFn func(*messagequeue.Builder)) {
}

func mkLink(n uint64) ipld.Link {
	h := sha256.Sum256([]byte(fmt.Sprintf("link-%d", n)))
	m, _ := mh.Encode(h[:], mh.SHA2_256)
	return cidlink.Link{Cid: cid.NewCidV1(cid.Raw, m)}
}

var fixedReqIDs = map[uint64]graphsync.RequestID{}

func reqID(n uint64) graphsync.RequestID {
	if id, ok := fixedReqIDs[n]; ok {
		return id
	}
	b := make([]byte, 16)
	b[0] = 0xAB
	for i := 0; i < 8; i++ {
		b[15-i] = byte(n >> (8 * i))
	}
	id, err := graphsync.ParseRequestID(b)
	if err != nil {
		panic(err)
	}
	fixedReqIDs[n] = id
	return id
}

// runLtCase returns one Coq observation term per op
func runLtCase(c ltCase) (obs []string, sends, skips int) {
	ctx, cancel := context.WithCancel(context.Background())
	defer cancel()
	ra := responseassembler.New(ctx, nopHandler{})
	p := peer.ID("peer-1")
	streams := map[uint64]responseassembler.ResponseStream{}
	stream := func(r uint64) responseassembler.ResponseStream {
		s, ok := streams[r]
		if !ok {
			s = ra.NewStream(ctx, p, reqID(r), nil)
			streams[r] = s
		}
		return s
	}
	miss := map[uint64]bool{}
	for _, o := range c.Ops {
		out := "ONone"
		s := stream(o.R)
		if o.K == "record" && !o.Has {
			miss[o.R] = true
		}
		switch o.K {
		case "dedup":
			s.DedupKey(ltKeyString(o.Key))
		case "ignore":
			var ls []ipld.Link
			for _, l := range o.Ls {
				ls = append(ls, mkLink(l))
			}
			s.IgnoreBlocks(ls)
		case "skip":
			s.SkipFirstBlocks(int64(o.N))
		case "record":
			var data []byte
			if o.Has {
				data = []byte{1, 2, 3}
			}
			_ = s.Transaction(func(rb responseassembler.ResponseBuilder) error {
				bd := rb.SendResponse(mkLink(o.L), data)
				sent := bd.BlockSizeOnWire() > 0
				if sent {
					sends++
				} else if o.Has {
					skips++
				}
				out = fmt.Sprintf("OSend %s %d", cw.Bool(sent), bd.Index())
				return nil
			})
		case "finish":
			switch o.Mode {
			case "err", "cancelled":
				code := graphsync.RequestFailedUnknown
				if o.Mode == "cancelled" {
					code = graphsync.RequestCancelled
				}
				_ = s.Transaction(func(rb responseassembler.ResponseBuilder) error {
					rb.FinishWithError(code)
					return nil
				})
				out = fmt.Sprintf("OFin %s", cw.Bool(!miss[o.R]))
			case "clear":
				s.ClearRequest()
				out = fmt.Sprintf("OFin %s", cw.Bool(!miss[o.R]))
			default:
				_ = s.Transaction(func(rb responseassembler.ResponseBuilder) error {
					st := rb.FinishRequest()
					out = fmt.Sprintf("OFin %s", cw.Bool(st == graphsync.RequestCompletedFull))
					return nil
				})
			}
			delete(miss, o.R)
		}
		sz := responseassembler.VerifTrackerSizes(ra, p)
		szs := make([]uint64, len(sz))
		for i, v := range sz {
			szs[i] = uint64(v)
		}
		obs = append(obs, fmt.Sprintf("mk_lobs (%s) %s", out, cw.NList(szs)))
	}
	return
}

func ltCaseTerm(c ltCase, obs []string) string {
	ops := make([]string, len(c.Ops))
	for i, o := range c.Ops {
		switch o.K {
		case "dedup":
			ops[i] = fmt.Sprintf("LDedup %d %d", o.R, o.Key)
		case "ignore":
			ops[i] = fmt.Sprintf("LIgnore %d %s", o.R, cw.NList(o.Ls))
		case "skip":
			ops[i] = fmt.Sprintf("LSkip %d %d", o.R, o.N)
		case "record":
			ops[i] = fmt.Sprintf("LRecord %d %d %s", o.R, o.L, cw.Bool(o.Has))
		case "finish":
			ops[i] = fmt.Sprintf("LFinish %d", o.R)
		}
	}
	return fmt.Sprintf("mk_lcase %s\n    %s", cw.List(ops), cw.List(obs))
}

func genLtCase(r *rng.R, maxOps int) (ltCase, string) {
	nreq := r.Range(1, 4)
	nlink := r.Range(1, 5)
	n := r.Range(1, maxOps)
	wellFormed := r.P(8, 10)
	started := map[uint64]bool{}
	var c ltCase
	kind := "protocol-order"
	if !wellFormed {
		kind = "free-order"
	}
	for i := 0; i < n; i++ {
		q := uint64(r.Range(1, nreq))
		x := r.Intn(100)
		switch {
		case x < 8:
			if wellFormed && started[q] {
				continue
			}
			c.Ops = append(c.Ops, ltOp{K: "dedup", R: q, Key: uint64(r.Range(0, 2))})
			started[q] = true
		case x < 14:
			if wellFormed && started[q] && r.P(2, 3) {
				continue
			}
			var ls []uint64
			for j := r.Range(0, 3); j > 0; j-- {
				ls = append(ls, uint64(r.Range(1, nlink)))
			}
			c.Ops = append(c.Ops, ltOp{K: "ignore", R: q, Ls: ls})
			started[q] = true
		case x < 20:
			c.Ops = append(c.Ops, ltOp{K: "skip", R: q, N: uint64(r.Range(0, 4))})
			started[q] = true
		case x < 80:
			c.Ops = append(c.Ops, ltOp{K: "record", R: q, L: uint64(r.Range(1, nlink)), Has: r.P(3, 4)})
			started[q] = true
		default:
			mode := []string{"", "", "", "err", "cancelled", "clear"}[r.Intn(6)]
			if !wellFormed {
				mode = "" // a key assigned to a request that already has state splits its state over two trackers: the script-side completeness bit would not be the model's
			}
			c.Ops = append(c.Ops, ltOp{K: "finish", R: q, Mode: mode})
			started[q] = false
		}
	}
	// usually finish everything so that the emptiness clause is exercised
	if r.P(3, 4) {
		for q := uint64(1); q <= uint64(nreq); q++ {
			if started[q] {
				mode := []string{"", "", "err", "cancelled", "clear"}[r.Intn(5)]
				if !wellFormed {
					mode = ""
				}
				c.Ops = append(c.Ops, ltOp{K: "finish", R: q, Mode: mode})
			}
		}
	}
	return c, kind
}

func enumLtScripts(L int, emit func(ltCase)) {
	var alphabet []ltOp
	for _, q := range []uint64{1, 2} {
		alphabet = append(alphabet, ltOp{K: "dedup", R: q, Key: 1})
		alphabet = append(alphabet, ltOp{K: "skip", R: q, N: 1})
		alphabet = append(alphabet, ltOp{K: "ignore", R: q, Ls: []uint64{1}})
		for _, l := range []uint64{1, 2} {
			alphabet = append(alphabet, ltOp{K: "record", R: q, L: l, Has: true})
		}
		alphabet = append(alphabet, ltOp{K: "record", R: q, L: 1, Has: false})
		alphabet = append(alphabet, ltOp{K: "finish", R: q})
	}
	var rec func(prefix []ltOp, depth int)
	rec = func(prefix []ltOp, depth int) {
		if len(prefix) > 0 {
			emit(ltCase{Ops: append([]ltOp(nil), prefix...)})
		}
		if depth == 0 {
			return
		}
		for _, o := range alphabet {
			rec(append(prefix, o), depth-1)
		}
	}
	rec(nil, L)
}

const ltHeader = `From Coq Require Import List NArith Bool.
From GS Require Import Base LinkTracker.
Import ListNotations.
Open Scope N_scope.
Definition mk_lobs := Build_lobs.
Definition mk_lcase := Build_lcase.
`

func driveLinkTracker(c *ctx) error {
	w := cw.New(c.out, ltHeader, "lcase", []cw.Check{
		{Name: "MISMATCH", Fn: "lcase_agrees"},
		{Name: "MON19", Fn: "lcase_mon"},
	})
	w.Stats.Rule = "scripts of dedup-key/ignore/skip-first/record-traversal/finish over 1-4 interleaved requests, 1-5 links, 3 dedup keys (one of them the empty string, which is a key like any other) " +
		"against the real ResponseAssembler link tracking (streams + transactions); 80% respect the protocol order, 20% free; " +
		"non-trivial = some block was suppressed as a duplicate or skipped AND some block was sent; distinct = distinct (script, observation) terms"
	add := func(lc ltCase, tag string) {
		c.inflight(lc)
		obs, sends, skips := runLtCase(lc)
		tags := []string{"kind:" + tag}
		if skips > 0 {
			tags = append(tags, "has-suppressed-block")
		}
		w.Add(ltCaseTerm(lc, obs), lc, sends > 0 && skips > 0, tags...)
	}
	if c.replay != "" {
		var rf struct {
			Case ltCase `json:"case"`
		}
		if err := readJSON(c.replay, &rf); err != nil {
			return err
		}
		add(rf.Case, "replay")
		return w.Flush()
	}
	for _, f := range c.corpusFiles("linktracker") {
		var rf struct {
			Case ltCase `json:"case"`
		}
		if err := readJSON(f, &rf); err != nil {
			return fmt.Errorf("%s: %w", f, err)
		}
		add(rf.Case, "corpus")
	}
	n := c.count(2000, 15000)
	for i := 0; i < n; i++ {
		lc, kind := genLtCase(c.r.Fork(), 30)
		add(lc, kind)
	}
	if c.thorough() {
		cnt := 0
		enumLtScripts(4, func(lc ltCase) { add(lc, "exhaustive<=4"); cnt++ })
		w.Stats.Extra = map[string]any{"exhaustive_scripts_len_le_4": cnt}
	}
	return w.Flush()
}

func init() { drivers["linktracker"] = driveLinkTracker }
