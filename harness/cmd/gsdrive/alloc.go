package main

// Driver for C13/C14: scripts against the real allocator.Allocator through its public API.

import (
	"fmt"
	"math"
	"sort"
	"strings"

	"github.com/ipfs/go-graphsync/allocator"
	"github.com/libp2p/go-libp2p/core/peer"

	"verif/harness/internal/cw"
	"verif/harness/internal/rng"
)

type allocOp struct {
	K string `json:"k"` // "alloc" | "release" | "releasepeer"
	P uint64 `json:"p"`
	A uint64 `json:"a"`
}

type allocCase struct {
	MT   uint64    `json:"mt"`
	MP   uint64    `json:"mp"`
	Univ []uint64  `json:"univ"`
	Ops  []allocOp `json:"ops"`
}

type allocObs struct {
	Outs     []string // "G<t>" / "F<t>" sorted by ticket
	outsCoq  []string
	Err      bool
	Total    uint64
	Pending  uint64
	NPending uint64
	Allocs   []uint64
}

func runAllocCase(c allocCase) []allocObs {
	a := allocator.NewAllocator(c.MT, c.MP)
	pid := func(p uint64) peer.ID { return peer.ID(fmt.Sprintf("peer-%d", p)) }
	type tk struct {
		id uint64
		ch <-chan error
	}
	var outstanding []tk
	next := uint64(0)
	var res []allocObs
	for _, o := range c.Ops {
		var ob allocObs
		switch o.K {
		case "alloc":
			ch := a.AllocateBlockMemory(pid(o.P), o.A)
			outstanding = append(outstanding, tk{next, ch})
			next++
		case "release":
			ob.Err = a.ReleaseBlockMemory(pid(o.P), o.A) != nil
		case "releasepeer":
			ob.Err = a.ReleasePeerMemory(pid(o.P)) != nil
		}
		var keep []tk
		sort.Slice(outstanding, func(i, j int) bool { return outstanding[i].id < outstanding[j].id })
		for _, t := range outstanding {
			select {
			case err := <-t.ch:
				if err == nil {
					ob.Outs = append(ob.Outs, fmt.Sprintf("G%d", t.id))
					ob.outsCoq = append(ob.outsCoq, fmt.Sprintf("Granted %d", t.id))
				} else {
					ob.Outs = append(ob.Outs, fmt.Sprintf("F%d", t.id))
					ob.outsCoq = append(ob.outsCoq, fmt.Sprintf("Failed %d", t.id))
				}
			default:
				keep = append(keep, t)
			}
		}
		outstanding = keep
		st := a.Stats()
		ob.Total = st.TotalAllocatedAllPeers
		ob.Pending = st.TotalPendingAllocations
		ob.NPending = st.NumPeersWithPendingAllocations
		for _, p := range c.Univ {
			ob.Allocs = append(ob.Allocs, a.AllocatedForPeer(pid(p)))
		}
		res = append(res, ob)
	}
	return res
}

func allocCaseTerm(c allocCase, obs []allocObs) string {
	ops := make([]string, len(c.Ops))
	for i, o := range c.Ops {
		switch o.K {
		case "alloc":
			ops[i] = fmt.Sprintf("OAlloc %d %d", o.P, o.A)
		case "release":
			ops[i] = fmt.Sprintf("ORelease %d %d", o.P, o.A)
		default:
			ops[i] = fmt.Sprintf("OReleasePeer %d", o.P)
		}
	}
	os := make([]string, len(obs))
	for i, ob := range obs {
		os[i] = fmt.Sprintf("mk_obs %s %s %d %d %d %s", cw.List(ob.outsCoq), cw.Bool(ob.Err), ob.Total, ob.Pending, ob.NPending, cw.NList(ob.Allocs))
	}
	return fmt.Sprintf("mk_case %d %d %s\n    %s\n    %s", c.MT, c.MP, cw.NList(c.Univ), cw.List(ops), cw.List(os))
}

// ---- generators ----

func genAllocCase(r *rng.R, maxOps int) (allocCase, string) {
	np := r.Range(1, 4)
	c := allocCase{}
	for i := 0; i < np; i++ {
		c.Univ = append(c.Univ, uint64(i+1))
	}
	kind := "small-limits"
	switch r.Intn(10) {
	case 0: // huge limits, hostile amounts
		kind = "huge-limits"
		c.MT = math.MaxUint64 - uint64(r.Intn(3))
		c.MP = math.MaxUint64 - uint64(r.Intn(5))
	case 1:
		kind = "peer-limit-above-total"
		c.MT = uint64(r.Range(1, 8))
		c.MP = c.MT + uint64(r.Range(0, 4))
	default:
		c.MT = uint64(r.Range(1, 14))
		c.MP = uint64(r.Range(1, int(c.MT)))
	}
	amounts := func() uint64 {
		switch r.Intn(16) {
		case 0:
			return 0
		case 1:
			return c.MP
		case 2:
			return c.MP + 1
		case 3:
			return c.MT
		case 4:
			return c.MT + 1
		case 5:
			if r.P(1, 3) {
				return math.MaxUint64 - uint64(r.Intn(12))
			}
			return c.MP - 1
		default:
			m := c.MP
			if m > 6 {
				m = 6
			}
			if m == 0 {
				return 0
			}
			return uint64(r.Range(1, int(m)))
		}
	}
	n := r.Range(1, maxOps)
	sensible := r.P(7, 10)
	if sensible {
		kind += "/stateful"
	} else {
		kind += "/free"
	}
	// shadow of what each peer was granted-ish, to steer "sensible" releases
	held := map[uint64][]uint64{}
	for i := 0; i < n; i++ {
		p := rng.Pick(r, c.Univ)
		x := r.Intn(100)
		switch {
		case x < 50:
			a := amounts()
			c.Ops = append(c.Ops, allocOp{"alloc", p, a})
			held[p] = append(held[p], a)
		case x < 90:
			a := amounts()
			if sensible && len(held[p]) > 0 {
				k := r.Intn(len(held[p]))
				a = held[p][k]
				held[p] = append(held[p][:k], held[p][k+1:]...)
			}
			c.Ops = append(c.Ops, allocOp{"release", p, a})
		default:
			c.Ops = append(c.Ops, allocOp{"releasepeer", p, 0})
			held[p] = nil
		}
	}
	return c, kind
}

// exhaustive enumeration for the thorough tier: all scripts of length <= L over a small alphabet
func enumAllocScripts(L int, emit func(allocCase)) {
	limits := [][2]uint64{{3, 2}, {4, 4}, {2, 3}}
	var alphabet []allocOp
	for _, p := range []uint64{1, 2} {
		for _, a := range []uint64{1, 2, 3} {
			alphabet = append(alphabet, allocOp{"alloc", p, a})
		}
		for _, a := range []uint64{1, 2} {
			alphabet = append(alphabet, allocOp{"release", p, a})
		}
		alphabet = append(alphabet, allocOp{"releasepeer", p, 0})
	}
	var rec func(prefix []allocOp, depth int)
	for _, lim := range limits {
		lim := lim
		rec = func(prefix []allocOp, depth int) {
			if len(prefix) > 0 {
				ops := append([]allocOp(nil), prefix...)
				emit(allocCase{MT: lim[0], MP: lim[1], Univ: []uint64{1, 2}, Ops: ops})
			}
			if depth == 0 {
				return
			}
			for _, o := range alphabet {
				rec(append(prefix, o), depth-1)
			}
		}
		rec(nil, L)
	}
}

const allocHeader = `From Coq Require Import List NArith Bool.
From GS Require Import Base Alloc AllocOrder.
Import ListNotations.
Open Scope N_scope.
Definition mk_obs := Build_obs.
Definition mk_case := Build_acase.
`

func allocNontrivial(obs []allocObs) (bool, []string) {
	waited, grantedLater, failed := false, false, false
	for i, ob := range obs {
		_ = i
		if ob.Pending > 0 || ob.NPending > 0 {
			waited = true
		}
		for _, o := range ob.Outs {
			if strings.HasPrefix(o, "F") {
				failed = true
			}
		}
	}
	// a grant delivered during a release op
	_ = grantedLater
	tags := []string{}
	if waited {
		tags = append(tags, "has-waiting")
	}
	if failed {
		tags = append(tags, "has-failed-ticket")
	}
	return waited, tags
}

func driveAlloc(c *ctx) error {
	w := cw.New(c.out, allocHeader, "acase", []cw.Check{
		{Name: "MISMATCH", Fn: "case_agrees"},
		{Name: "MON13", Fn: "case_mon13"},
		{Name: "MON14", Fn: "case_mon14"},
		{Name: "MON14X", Fn: "case_mon14x"},
	})
	w.Stats.Rule = "scripts of allocate/release/release-peer over 1-4 peers on the real allocator.Allocator; " +
		"70% stateful (releases mirror earlier allocations), 30% free; 10% with limits near 2^64 and hostile amounts; " +
		"non-trivial = at least one allocation had to wait; distinct = distinct (config, script, observation) terms"
	add := func(ac allocCase, tag string) {
		c.inflight(ac)
		obs := runAllocCase(ac)
		nt, tags := allocNontrivial(obs)
		tags = append(tags, "kind:"+tag, fmt.Sprintf("len:%02d-%02d", len(ac.Ops)/10*10, len(ac.Ops)/10*10+9))
		w.Add(allocCaseTerm(ac, obs), ac, nt, tags...)
	}
	if c.replay != "" {
		var rf struct {
			Case allocCase `json:"case"`
		}
		if err := readJSON(c.replay, &rf); err != nil {
			return err
		}
		add(rf.Case, "replay")
		return w.Flush()
	}
	for _, f := range c.corpusFiles("alloc") {
		var rf struct {
			Case allocCase `json:"case"`
		}
		if err := readJSON(f, &rf); err != nil {
			return fmt.Errorf("%s: %w", f, err)
		}
		add(rf.Case, "corpus")
	}
	n := c.count(1500, 12000)
	for i := 0; i < n; i++ {
		ac, kind := genAllocCase(c.r.Fork(), 40)
		add(ac, kind)
	}
	if c.thorough() {
		cnt := 0
		enumAllocScripts(4, func(ac allocCase) { add(ac, "exhaustive<=4"); cnt++ })
		w.Stats.Extra = map[string]any{"exhaustive_scripts_len_le_4": cnt}
	}
	return w.Flush()
}

func init() { drivers["alloc"] = driveAlloc }
