package main

// Driver for C07 (traverser level): the real ipldutil.Traverser over generated DAGs, once without a
// budget and once with budget n; the model predicts the budgeted trace from the free one.

import (
	"bytes"
	"context"
	"errors"
	"fmt"
	"os"
	"sync"

	"github.com/ipld/go-ipld-prime"
	"github.com/ipld/go-ipld-prime/datamodel"
	"github.com/ipld/go-ipld-prime/linking"
	cidlink "github.com/ipld/go-ipld-prime/linking/cid"
	"github.com/ipld/go-ipld-prime/node/basicnode"
	"github.com/ipld/go-ipld-prime/traversal"

	"github.com/ipfs/go-graphsync/ipldutil"

	"verif/harness/internal/cw"
	"verif/harness/internal/dag"
	"verif/harness/internal/rng"
)

type budgetCase struct {
	Seed    uint64 `json:"seed"`
	Budget  uint64 `json:"budget"`
	Desc    string `json:"desc,omitempty"`
	Tags    []string `json:"tags,omitempty"`
}

type travTrace struct {
	evs []string
	ok  bool
	loads int
}

type segTable struct{ m map[string]uint64 }

func (s *segTable) id(seg string) uint64 {
	if v, ok := s.m[seg]; ok {
		return v
	}
	v := uint64(len(s.m))
	s.m[seg] = v
	return v
}

func (s *segTable) path(p datamodel.Path) string {
	var xs []uint64
	for _, sg := range p.Segments() {
		xs = append(xs, s.id(sg.String()))
	}
	return cw.NList(xs)
}

// runTraversal steps the real traverser; present[i] says whether block i is in the store, hardErr[i]
// makes the load of block i fail with a non-skip error
func runTraversal(d *dag.DAG, sel datamodel.Node, present, hardErr []bool, budget uint64, segs *segTable) travTrace {
	ctx, cancel := context.WithCancel(context.Background())
	defer cancel()
	var mu sync.Mutex
	var tr travTrace
	var b *traversal.Budget
	if budget > 0 {
		b = &traversal.Budget{NodeBudget: 1 << 60, LinkBudget: int64(budget)}
	}
	t := ipldutil.TraversalBuilder{
		Root:     d.Root(),
		Selector: sel,
		Chooser: func(l datamodel.Link, lc linking.LinkContext) (datamodel.NodePrototype, error) {
			return basicnode.Prototype.Any, nil
		},
		Budget: b,
		Visitor: func(p traversal.Progress, n ipld.Node, r traversal.VisitReason) error {
			mu.Lock()
			tr.evs = append(tr.evs, "EVisit 0")
			mu.Unlock()
			return nil
		},
	}.Start(ctx)
	for {
		done, err := t.IsComplete()
		if done {
			tr.ok = err == nil
			if err != nil && os.Getenv("GSDRIVE_DEBUG") != "" {
				fmt.Fprintln(os.Stderr, "traversal error:", err)
			}
			var be *traversal.ErrBudgetExceeded
			if errors.As(err, &be) {
				idx := d.Index(be.Link.(cidlink.Link).Cid)
				mu.Lock()
				tr.evs = append(tr.evs, fmt.Sprintf("ELoad %s %d (AErr ErrBudget)", segs.path(be.Path), idx))
				mu.Unlock()
			}
			break
		}
		lnk, lctx := t.CurrentRequest()
		idx := d.Index(lnk.(cidlink.Link).Cid)
		p := segs.path(lctx.LinkPath)
		tr.loads++
		mu.Lock()
		switch {
		case hardErr[idx]:
			tr.evs = append(tr.evs, fmt.Sprintf("ELoad %s %d (AErr (ErrOther 1))", p, idx))
			mu.Unlock()
			t.Error(errors.New("storage failure"))
		case present[idx]:
			tr.evs = append(tr.evs, fmt.Sprintf("ELoad %s %d AOk", p, idx))
			mu.Unlock()
			if err := t.Advance(bytes.NewReader(d.Blocks[idx].Data)); err != nil {
				tr.ok = false
			}
		default:
			tr.evs = append(tr.evs, fmt.Sprintf("ELoad %s %d ASkip", p, idx))
			mu.Unlock()
			t.Error(traversal.SkipMe{})
		}
	}
	t.Shutdown(ctx)
	return tr
}

const budgetHeader = `From Coq Require Import List NArith Bool.
From GS Require Import Base Ltree.
Import ListNotations.
Open Scope N_scope.
Definition mk_bcase := Build_bcase.
`

func genBudgetWorld(r *rng.R) (*dag.DAG, datamodel.Node, []bool, []bool, string) {
	d := dag.Gen(r, dag.Opts{MaxBlocks: r.Range(1, 12), MaxFanout: 3, Shared: true, Inline: true, Identity: true, EmptyLeaves: false})
	sel, sdesc := dag.Selector(r)
	present := make([]bool, len(d.Blocks))
	hard := make([]bool, len(d.Blocks))
	for i := range present {
		present[i] = r.P(5, 6)
		if i > 0 && r.P(1, 25) {
			hard[i] = true
		}
	}
	if r.P(9, 10) {
		present[0] = true
	}
	return d, sel, present, hard, d.Shape + " sel=" + sdesc
}

func driveBudget(c *ctx) error {
	w := cw.New(c.out, budgetHeader, "bcase", []cw.Check{
		{Name: "MON07", Fn: "bcase_ok"},
	})
	w.Stats.Rule = "random DAGs (1-12 blocks, shared children, links in inline nodes, identity CIDs; 1/6 of blocks missing, occasional storage error) and selectors, " +
		"traversed by the real ipldutil.Traverser without a budget and with budget n in {1,2,needs-1,needs,needs+1,random}; " +
		"non-trivial = the budget is exceeded (needs > n) on a traversal with a missing block or >= 4 loads; distinct = distinct terms"
	run := func(bc budgetCase, tag string) {
		c.inflight(bc)
		r := rng.New(bc.Seed)
		d, sel, present, hard, desc := genBudgetWorld(r)
		segs := &segTable{m: map[string]uint64{}}
		free := runTraversal(d, sel, present, hard, 0, segs)
		n := bc.Budget
		if n == 0 {
			needs := uint64(free.loads)
			switch r.Intn(6) {
			case 0:
				n = 1
			case 1:
				n = 2
			case 2:
				if needs > 1 {
					n = needs - 1
				} else {
					n = 1
				}
			case 3:
				n = needs
			case 4:
				n = needs + 1
			default:
				n = uint64(r.Range(1, 14))
			}
			if n == 0 {
				n = 1
			}
		}
		bud := runTraversal(d, sel, present, hard, n, segs)
		bc.Budget = n
		bc.Desc = desc
		tags := []string{"kind:" + tag}
		exceeded := uint64(free.loads) > n
		if exceeded {
			tags = append(tags, "budget-exceeded")
		} else {
			tags = append(tags, "budget-sufficient")
		}
		if n == 1 {
			tags = append(tags, "budget=1")
		}
		term := fmt.Sprintf("mk_bcase %d\n    %s %s\n    %s %s", n, cw.List(free.evs), cw.Bool(free.ok), cw.List(bud.evs), cw.Bool(bud.ok))
		bc.Tags = tags
		w.Add(term, bc, exceeded && free.loads >= 3, tags...)
	}
	if c.replay != "" {
		var rf struct {
			Case budgetCase `json:"case"`
		}
		if err := readJSON(c.replay, &rf); err != nil {
			return err
		}
		run(rf.Case, "replay")
		return w.Flush()
	}
	for _, f := range c.corpusFiles("budget") {
		var rf struct {
			Case budgetCase `json:"case"`
		}
		if err := readJSON(f, &rf); err != nil {
			return fmt.Errorf("%s: %w", f, err)
		}
		run(rf.Case, "corpus")
	}
	n := c.count(1500, 15000)
	for i := 0; i < n; i++ {
		run(budgetCase{Seed: c.r.U64()}, "random")
	}
	return w.Flush()
}

func init() { drivers["budget"] = driveBudget }
