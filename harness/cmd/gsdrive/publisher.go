package main

// Driver for C18: call sequences against the real notifications.Publisher with recording subscribers.

import (
	"fmt"
	"sync"
	"time"

	"github.com/ipfs/go-graphsync/notifications"

	"verif/harness/internal/cw"
	"verif/harness/internal/rng"
)

type pubOp struct {
	K string `json:"k"` // subscribe | unsubscribe | publish | close | shutdown
	T uint64 `json:"t,omitempty"`
	S uint64 `json:"s,omitempty"`
	E uint64 `json:"e,omitempty"`
}

type pubCase struct {
	Univ []uint64 `json:"univ"`
	Ops  []pubOp  `json:"ops"`
}

type recSub struct {
	mu   *sync.Mutex
	id   uint64
	evs  []string
	subs map[uint64]bool // topics this subscriber believes it is subscribed to (harness shadow, for waiting only)
}

func (r *recSub) OnNext(t notifications.Topic, e notifications.Event) {
	r.mu.Lock()
	defer r.mu.Unlock()
	r.evs = append(r.evs, fmt.Sprintf("ENext %d %d", pubTopicNum(t), e.(uint64)))
}
func (r *recSub) OnClose(t notifications.Topic) {
	r.mu.Lock()
	defer r.mu.Unlock()
	r.evs = append(r.evs, fmt.Sprintf("EClose %d", pubTopicNum(t)))
	delete(r.subs, pubTopicNum(t))
}

// topic 0 of a script is the nil interface value (a legal map key, so a topic like any other)
func pubTopic(t uint64) notifications.Topic {
	if t == 0 {
		return nil
	}
	return t
}
func pubTopicNum(t notifications.Topic) uint64 {
	if t == nil {
		return 0
	}
	return t.(uint64)
}

type markerSub struct{ ch chan uint64 }

func (m *markerSub) OnNext(t notifications.Topic, e notifications.Event) { m.ch <- e.(uint64) }
func (m *markerSub) OnClose(t notifications.Topic)                       {}

type markerTopic struct{}

func runPubCase(c pubCase) (obs []string, nEvents int, timedOut bool) {
	ps := notifications.NewPublisher()
	ps.Startup()
	var mu sync.Mutex
	subs := map[uint64]*recSub{}
	for _, s := range c.Univ {
		subs[s] = &recSub{mu: &mu, id: s, subs: map[uint64]bool{}}
	}
	marker := &markerSub{ch: make(chan uint64, 4)}
	ps.Subscribe(markerTopic{}, marker)
	seq := uint64(0)
	shut := false
	sync_ := func() {
		if shut {
			// after shutdown markers are dropped: wait until every subscription the harness knows of has been
			// closed, or a timeout (a missing close then shows up as an observation)
			deadline := time.Now().Add(400 * time.Millisecond)
			for time.Now().Before(deadline) {
				mu.Lock()
				open := 0
				for _, s := range subs {
					open += len(s.subs)
				}
				mu.Unlock()
				if open == 0 {
					time.Sleep(200 * time.Microsecond)
					return
				}
				time.Sleep(100 * time.Microsecond)
			}
			timedOut = true
			return
		}
		seq++
		ps.Publish(markerTopic{}, seq)
		select {
		case <-marker.ch:
		case <-time.After(2 * time.Second):
			timedOut = true
		}
	}
	for _, o := range c.Ops {
		mu.Lock()
		for _, s := range subs {
			s.evs = nil
		}
		mu.Unlock()
		switch o.K {
		case "subscribe":
			if ps.Subscribe(pubTopic(o.T), subs[o.S]) {
				mu.Lock()
				subs[o.S].subs[o.T] = true
				mu.Unlock()
			}
		case "unsubscribe":
			ps.Unsubscribe(subs[o.S])
		case "publish":
			ps.Publish(pubTopic(o.T), o.E)
		case "close":
			ps.Close(pubTopic(o.T))
		case "shutdown":
			ps.Shutdown()
			shut = true
		}
		sync_()
		mu.Lock()
		per := make([]string, len(c.Univ))
		for i, s := range c.Univ {
			per[i] = cw.List(subs[s].evs)
			nEvents += len(subs[s].evs)
		}
		mu.Unlock()
		obs = append(obs, cw.List(per))
	}
	if !shut {
		ps.Shutdown()
	}
	return
}

// shutrace: concurrent callers.  k goroutines each subscribe their own recording subscriber to topics 1, 2, 3, ...
// until Subscribe reports the publisher closed (or 40 topics), while the main goroutine calls Shutdown.  Whatever
// the interleaving, the calls are linearised by the publisher's lock: every Subscribe that returned true was queued
// before the shutdown command, every one that returned false is dropped.  So the history is equivalent to the
// sequential script  [accepted subscribes] ++ [shutdown]  and every accepted (topic, subscriber) must be told
// exactly once that it ended, at the shutdown, with nothing else delivered.  The case handed to the model and to
// the monitors is that script with the subscribers' complete logs as the observation of the shutdown call.
func runShutRace(k int) (pc pubCase, obs []string, accepted int, closes int) {
	ps := notifications.NewPublisher()
	ps.Startup()
	var mu sync.Mutex
	subs := make([]*recSub, k)
	acc := make([][]uint64, k)
	for i := range subs {
		subs[i] = &recSub{mu: &mu, id: uint64(i + 1), subs: map[uint64]bool{}}
		pc.Univ = append(pc.Univ, uint64(i+1))
	}
	var wg sync.WaitGroup
	start := make(chan struct{})
	for i := 0; i < k; i++ {
		wg.Add(1)
		go func(i int) {
			defer wg.Done()
			<-start
			for t := uint64(1); t <= 40; t++ {
				if !ps.Subscribe(t, subs[i]) {
					return
				}
				acc[i] = append(acc[i], t)
			}
		}(i)
	}
	close(start)
	ps.Shutdown()
	wg.Wait()
	for i := range acc {
		accepted += len(acc[i])
	}
	deadline := time.Now().Add(2 * time.Second) // only ever waited out when a close is really missing
	for {
		mu.Lock()
		closes = 0
		for _, sb := range subs {
			closes += len(sb.evs)
		}
		mu.Unlock()
		if closes >= accepted || time.Now().After(deadline) {
			break
		}
		time.Sleep(50 * time.Microsecond)
	}
	empty := make([]string, k)
	for i := range empty {
		empty[i] = "[]"
	}
	for i := range acc {
		for _, t := range acc[i] {
			pc.Ops = append(pc.Ops, pubOp{K: "subscribe", T: t, S: uint64(i + 1)})
			obs = append(obs, cw.List(empty))
		}
	}
	pc.Ops = append(pc.Ops, pubOp{K: "shutdown"})
	per := make([]string, k)
	mu.Lock()
	for i, sb := range subs {
		per[i] = cw.List(sb.evs)
	}
	mu.Unlock()
	obs = append(obs, cw.List(per))
	return
}

func pubCaseTerm(c pubCase, obs []string) string {
	ops := make([]string, len(c.Ops))
	for i, o := range c.Ops {
		switch o.K {
		case "subscribe":
			ops[i] = fmt.Sprintf("PSubscribe %d %d", o.T, o.S)
		case "unsubscribe":
			ops[i] = fmt.Sprintf("PUnsubscribe %d", o.S)
		case "publish":
			ops[i] = fmt.Sprintf("PPublish %d %d", o.T, o.E)
		case "close":
			ops[i] = fmt.Sprintf("PClose %d", o.T)
		default:
			ops[i] = "PShutdown"
		}
	}
	return fmt.Sprintf("mk_pcase %s\n    %s\n    %s", cw.NList(c.Univ), cw.List(ops), cw.List(obs))
}

func genPubCase(r *rng.R, maxOps int) pubCase {
	ns := r.Range(1, 3)
	nt := r.Range(1, 3)
	var c pubCase
	for i := 1; i <= ns; i++ {
		c.Univ = append(c.Univ, uint64(i))
	}
	n := r.Range(1, maxOps)
	ev := uint64(100)
	for i := 0; i < n; i++ {
		x := r.Intn(100)
		t := uint64(r.Range(1, nt))
		if r.P(1, 8) {
			t = 0 // the nil interface value: a topic like any other
		}
		s := uint64(r.Range(1, ns))
		switch {
		case x < 35:
			c.Ops = append(c.Ops, pubOp{K: "subscribe", T: t, S: s})
		case x < 70:
			ev++
			c.Ops = append(c.Ops, pubOp{K: "publish", T: t, E: ev})
		case x < 82:
			c.Ops = append(c.Ops, pubOp{K: "close", T: t})
		case x < 95:
			c.Ops = append(c.Ops, pubOp{K: "unsubscribe", S: s})
		default:
			c.Ops = append(c.Ops, pubOp{K: "shutdown"})
		}
	}
	if r.P(1, 2) {
		c.Ops = append(c.Ops, pubOp{K: "shutdown"})
	}
	return c
}

const pubHeader = `From Coq Require Import List NArith Bool.
From GS Require Import Base Publisher PublisherTrace.
Import ListNotations.
Open Scope N_scope.
Definition mk_pcase := Build_pcase.
`

func drivePublisher(c *ctx) error {
	w := cw.New(c.out, pubHeader, "pcase", []cw.Check{
		{Name: "MISMATCH", Fn: "pcase_agrees"},
		{Name: "MON18", Fn: "pcase_mon"},
		{Name: "HIST18", Fn: "pcase_hist"},
	})
	w.Stats.Rule = "sequences of subscribe/unsubscribe/publish/close-topic/shutdown over 1-3 topics (plus, in 1 op of 8, the nil topic) and 1-3 recording subscribers " +
		"on the real notifications publisher (a marker publish waits for the command queue to drain after every call); " +
		"non-trivial = at least 3 events delivered and some subscription ended; distinct = distinct (script, observation) terms"
	add := func(pc pubCase, tag string) {
		c.inflight(pc)
		obs, nev, to := runPubCase(pc)
		ended := false
		for _, o := range pc.Ops {
			if o.K == "close" || o.K == "unsubscribe" || o.K == "shutdown" {
				ended = true
			}
		}
		tags := []string{"kind:" + tag}
		if to {
			tags = append(tags, "harness-timeout")
		}
		w.Add(pubCaseTerm(pc, obs), pc, nev >= 3 && ended, tags...)
	}
	if c.replay != "" {
		var rf struct {
			Case pubCase `json:"case"`
		}
		if err := readJSON(c.replay, &rf); err != nil {
			return err
		}
		add(rf.Case, "replay")
		return w.Flush()
	}
	for _, f := range c.corpusFiles("publisher") {
		var rf struct {
			Case pubCase `json:"case"`
		}
		if err := readJSON(f, &rf); err != nil {
			return fmt.Errorf("%s: %w", f, err)
		}
		add(rf.Case, "corpus")
	}
	n := c.count(1500, 12000)
	for i := 0; i < n; i++ {
		add(genPubCase(c.r.Fork(), 25), "random")
	}
	// concurrent subscribers racing Shutdown: many trials, a sample and every failing trial become cases
	trials, failing := c.count(4000, 40000), 0
	for i := 0; i < trials && failing < 3; i++ {
		pc, obs, accepted, closes := runShutRace(2 + i%3)
		if closes != accepted {
			failing++
		}
		if i < 20 || closes != accepted {
			c.inflight(pc)
			w.Add(pubCaseTerm(pc, obs), pc, accepted > 0, "kind:shutrace")
		}
	}
	return w.Flush()
}

func init() { drivers["publisher"] = drivePublisher }
