// Command d_stall drives property C25 (a stalled peer cannot block service to other peers).
//
// Every case builds one REAL GraphSync instance (impl.New: real ResponseManager, RequestManager,
// ResponseAssembler, PeerManager, MessageQueue, Allocator, task queues, executors, hooks) on a scripted
// network: sends to a stalled peer block inside SendMsg until the case lets them through, sends to the
// other peers are recorded.  A history (requests, cancels, updates of the peers, API calls of the
// responder's user, hook results) is delivered message by message; then the other peer's probe request
// arrives and must be accepted (its request hook runs) and answered (its final status reaches the
// network) while the stalled peer stays stalled.  The same history is evaluated by the model
// (GS.Stall) and the verdicts are compared; the property monitor is evaluated on the implementation's
// verdict.  Requestor half: requests / cancels / updates towards the stalled peer, then a request to
// the other peer whose (hand-built) response must be processed.
package main

import (
	"bytes"
	"context"
	"encoding/json"
	"errors"
	"fmt"
	"os"
	"path/filepath"
	"sort"
	"strings"
	"sync"
	"sync/atomic"
	"time"

	blocks "github.com/ipfs/go-block-format"
	"github.com/ipfs/go-cid"
	"github.com/ipld/go-ipld-prime/codec/dagcbor"
	_ "github.com/ipld/go-ipld-prime/codec/raw"
	"github.com/ipld/go-ipld-prime/datamodel"
	"github.com/ipld/go-ipld-prime/fluent/qp"
	cidlink "github.com/ipld/go-ipld-prime/linking/cid"
	"github.com/ipld/go-ipld-prime/node/basicnode"
	"github.com/ipld/go-ipld-prime/traversal/selector"
	"github.com/ipld/go-ipld-prime/traversal/selector/builder"
	"github.com/libp2p/go-libp2p/core/peer"
	mh "github.com/multiformats/go-multihash"

	"github.com/ipfs/go-graphsync"
	gsimpl "github.com/ipfs/go-graphsync/impl"
	gsmsg "github.com/ipfs/go-graphsync/message"
	gsnet "github.com/ipfs/go-graphsync/network"

	"verif/harness/internal/cw"
	"verif/harness/internal/drv"
	"verif/harness/internal/e2e"
	"verif/harness/internal/rng"
)

func main() { drv.Main("stall", run) }

// ---------------------------------------------------------------------------------------------
// case description (replayable)

type op struct {
	K       string `json:"k"`                 // new cancel update unpause apiupdate apicancel apipause connect disconnect wait | (requestor) request rcancel rupdate
	P       int    `json:"p,omitempty"`       // peer (1 = the possibly stalled peer, 2 = the other peer, 3 = a third)
	R       int    `json:"r"`                 // request number
	Ext     int    `json:"ext,omitempty"`     // payload bytes of the extension data (0 = none)
	Invalid bool   `json:"invalid,omitempty"` // request hook terminates the request
	Pause   bool   `json:"pause,omitempty"`   // request hook pauses the response
	HErr    bool   `json:"herr,omitempty"`    // update hook terminates
	Unpause bool   `json:"unpause,omitempty"` // update hook unpauses
	Blocks  []int  `json:"blocks,omitempty"`  // block sizes of the requested DAG (a chain), root first
	W       string `json:"w,omitempty"`       // what to wait for after the op: "" | hook | done | stats
	Exp     []int  `json:"exp,omitempty"`     // stats: active tasks, pending tasks, allocated bytes, pending bytes
	HookUpd int    `json:"hookupd,omitempty"` // requestor: incoming-response hook sends an update with this payload
}

type scase struct {
	Kind     string   `json:"kind"` // resp | req
	Family   string   `json:"family"`
	Workers  int      `json:"workers"`
	Cap      int      `json:"cap"`
	MaxTotal uint64   `json:"max_total"`
	MaxPeer  uint64   `json:"max_peer"`
	Stalled  bool     `json:"stalled"` // peer 1 stalled
	Ops      []op     `json:"ops"`
	Probe    op       `json:"probe"`
	Expect   string   `json:"expect"` // what the generator expects (only used to size the waits): answered | blocked
	Tags     []string `json:"tags"`
}

// ---------------------------------------------------------------------------------------------
// scripted network

type sentRec struct {
	to      peer.ID
	reqs    []graphsync.RequestID
	reqType []graphsync.RequestType
	status  map[graphsync.RequestID]graphsync.ResponseStatusCode
	nblocks int
}

type fakeNet struct {
	mu      sync.Mutex
	recv    gsnet.Receiver
	stalled map[peer.ID]chan struct{}
	log     []sentRec
}

type nopConnMgr struct{}

func (nopConnMgr) Protect(peer.ID, string)        {}
func (nopConnMgr) Unprotect(peer.ID, string) bool { return false }

func (n *fakeNet) SendMessage(ctx context.Context, p peer.ID, m gsmsg.GraphSyncMessage) error {
	return n.deliver(ctx, p, m)
}
func (n *fakeNet) SetDelegate(r gsnet.Receiver)             { n.mu.Lock(); n.recv = r; n.mu.Unlock() }
func (n *fakeNet) ConnectTo(context.Context, peer.ID) error { return nil }
func (n *fakeNet) ConnectionManager() gsnet.ConnManager     { return nopConnMgr{} }
func (n *fakeNet) NewMessageSender(_ context.Context, p peer.ID, _ gsnet.MessageSenderOpts) (gsnet.MessageSender, error) {
	return &fakeSender{n, p}, nil
}

type fakeSender struct {
	n *fakeNet
	p peer.ID
}

func (s *fakeSender) SendMsg(ctx context.Context, m gsmsg.GraphSyncMessage) error {
	return s.n.deliver(ctx, s.p, m)
}
func (s *fakeSender) Close() error { return nil }
func (s *fakeSender) Reset() error { return nil }

func (n *fakeNet) deliver(ctx context.Context, p peer.ID, m gsmsg.GraphSyncMessage) error {
	n.mu.Lock()
	gate := n.stalled[p]
	n.mu.Unlock()
	if gate != nil {
		select {
		case <-gate: // the stall ends
		case <-ctx.Done():
			return ctx.Err()
		}
	}
	rec := sentRec{to: p, status: map[graphsync.RequestID]graphsync.ResponseStatusCode{}, nblocks: len(m.Blocks())}
	for _, r := range m.Requests() {
		rec.reqs = append(rec.reqs, r.ID())
		rec.reqType = append(rec.reqType, r.Type())
	}
	for _, r := range m.Responses() {
		rec.status[r.RequestID()] = r.Status()
	}
	n.mu.Lock()
	n.log = append(n.log, rec)
	n.mu.Unlock()
	return nil
}

func (n *fakeNet) terminalSent(to peer.ID, id graphsync.RequestID) bool {
	n.mu.Lock()
	defer n.mu.Unlock()
	for _, r := range n.log {
		if r.to == to {
			if st, ok := r.status[id]; ok && st.IsTerminal() {
				return true
			}
		}
	}
	return false
}

func (n *fakeNet) requestSent(to peer.ID, id graphsync.RequestID, t graphsync.RequestType) bool {
	n.mu.Lock()
	defer n.mu.Unlock()
	for _, r := range n.log {
		if r.to == to {
			for i, x := range r.reqs {
				if x == id && r.reqType[i] == t {
					return true
				}
			}
		}
	}
	return false
}

func (n *fakeNet) release() {
	n.mu.Lock()
	for p, g := range n.stalled {
		close(g)
		delete(n.stalled, p)
	}
	n.mu.Unlock()
}

// ---------------------------------------------------------------------------------------------
// blocks of an exact size

func mkCid(codec uint64, data []byte) cid.Cid {
	h, err := mh.Sum(data, mh.SHA2_256, -1)
	if err != nil {
		panic(err)
	}
	return cid.NewCidV1(codec, h)
}

type blk struct {
	c    cid.Cid
	data []byte
}

// chain builds a chain of dag-cbor blocks (the last one raw) whose encoded sizes are exactly sizes[i];
// tag makes the content unique (no block is shared between requests: the responder dedups per peer)
func chain(tag uint64, sizes []int) ([]blk, error) {
	out := make([]blk, len(sizes))
	for i := len(sizes) - 1; i >= 0; i-- {
		sz := sizes[i]
		if i == len(sizes)-1 {
			data := make([]byte, sz)
			for j := range data {
				data[j] = byte(tag>>uint(8*(j%8))) ^ byte(j*131+i)
			}
			if sz >= 8 {
				for j := 0; j < 8; j++ {
					data[j] = byte(tag >> uint(8*j))
				}
			}
			out[i] = blk{mkCid(cid.Raw, data), data}
			continue
		}
		next := out[i+1].c
		var enc []byte
		// the length header of a byte string grows at 24, 256 and 65536 bytes, so not every size is reachable
		// by padding one field: a second short field moves the reachable sizes
	search:
		for q := 0; q < 4; q++ {
			pad := sz - 60 - q
			if pad < 0 {
				return nil, fmt.Errorf("interior block of %d bytes is too small", sz)
			}
			for try := 0; try < 6; try++ {
				node, err := qp.BuildMap(basicnode.Prototype.Any, -1, func(ma datamodel.MapAssembler) {
					qp.MapEntry(ma, "n", qp.Link(cidlink.Link{Cid: next}))
					qp.MapEntry(ma, "p", qp.Bytes(bytes.Repeat([]byte{byte(tag), byte(tag >> 8), byte(i)}, pad/3+1)[:pad]))
					qp.MapEntry(ma, "q", qp.Bytes(make([]byte, q)))
				})
				if err != nil {
					return nil, err
				}
				var buf bytes.Buffer
				if err := dagcbor.Encode(node, &buf); err != nil {
					return nil, err
				}
				enc = buf.Bytes()
				if len(enc) == sz {
					break search
				}
				pad += sz - len(enc)
				if pad < 0 {
					return nil, fmt.Errorf("interior block of %d bytes is too small", sz)
				}
			}
		}
		if len(enc) != sz {
			return nil, fmt.Errorf("could not build a block of exactly %d bytes (got %d)", sz, len(enc))
		}
		out[i] = blk{mkCid(cid.DagCBOR, enc), enc}
	}
	return out, nil
}

var ssb = builder.NewSelectorSpecBuilder(basicnode.Prototype.Any)

func allSelector() datamodel.Node {
	return ssb.ExploreRecursive(selector.RecursionLimitDepth(50), ssb.ExploreAll(ssb.ExploreRecursiveEdge())).Node()
}

func extData(n int) (graphsync.ExtensionData, uint64) {
	ed := graphsync.ExtensionData{Name: "verif/stall", Data: basicnode.NewBytes(make([]byte, n))}
	l, _ := dagcbor.EncodedLength(ed.Data)
	return ed, uint64(l)
}

// ---------------------------------------------------------------------------------------------
// one run of one case against the real code

type verdict struct {
	Accepted      bool
	Answered      bool
	AnsweredAfter bool
	SetupOK       bool
	WaitExpired   bool
	Note          string
}

type world struct {
	ctx     context.Context
	cancel  context.CancelFunc
	net     *fakeNet
	gs      graphsync.GraphExchange
	store   *e2e.Store
	peers   map[int]peer.ID
	ids     map[int]graphsync.RequestID
	mu      sync.Mutex
	hooked  map[graphsync.RequestID]bool // request hook ran
	newOps  map[graphsync.RequestID]op   // scripted request-hook results
	updOps  map[graphsync.RequestID][]op // scripted update-hook results, consumed in order
	rspUpd  map[graphsync.RequestID]int  // requestor: response hook sends an update of this payload (once)
	plans   map[int][]int
	tagSeq  uint64
	lastAPI chan struct{} // closed when the most recent API call returned
}

func peerOf(i int) peer.ID { return peer.ID(fmt.Sprintf("verif-stall-peer-%d", i)) }

func waitFor(d time.Duration, cond func() bool) bool {
	end := time.Now().Add(d)
	pause := 200 * time.Microsecond
	for {
		if cond() {
			return true
		}
		if time.Now().After(end) {
			return cond()
		}
		time.Sleep(pause)
		if pause < 4*time.Millisecond {
			pause *= 2
		}
	}
}

func newWorld(c scase, seq uint64) *world {
	ctx, cancel := context.WithCancel(context.Background())
	w := &world{ctx: ctx, cancel: cancel, store: e2e.NewStore(), peers: map[int]peer.ID{}, ids: map[int]graphsync.RequestID{},
		hooked: map[graphsync.RequestID]bool{}, newOps: map[graphsync.RequestID]op{}, updOps: map[graphsync.RequestID][]op{},
		rspUpd: map[graphsync.RequestID]int{}, plans: map[int][]int{}, tagSeq: seq << 20}
	w.net = &fakeNet{stalled: map[peer.ID]chan struct{}{}}
	for i := 1; i <= 5; i++ { // 4: connects during the history, 5: never seen before its first message
		w.peers[i] = peerOf(i)
	}
	if c.Stalled {
		w.net.stalled[w.peers[1]] = make(chan struct{})
	}
	opts := []gsimpl.Option{
		gsimpl.MaxMemoryResponder(c.MaxTotal), gsimpl.MaxMemoryPerPeerResponder(c.MaxPeer),
		gsimpl.MaxInProgressIncomingRequests(uint64(c.Workers)),
		gsimpl.SendMessageTimeout(10 * time.Minute), gsimpl.MessageSendRetries(1),
	}
	if c.Cap > 0 {
		opts = append(opts, gsimpl.MaxInProgressIncomingRequestsPerPeer(uint64(c.Cap)))
	}
	w.gs = gsimpl.New(ctx, w.net, w.store.LinkSystem(), opts...)
	w.gs.RegisterIncomingRequestHook(func(p peer.ID, rd graphsync.RequestData, ha graphsync.IncomingRequestHookActions) {
		w.mu.Lock()
		o, ok := w.newOps[rd.ID()]
		w.mu.Unlock()
		if ok {
			if o.Ext > 0 {
				ed, _ := extData(o.Ext)
				ha.SendExtensionData(ed)
			}
			if o.Invalid {
				ha.TerminateWithError(errors.New("scripted rejection"))
			} else {
				ha.ValidateRequest()
			}
			if o.Pause {
				ha.PauseResponse()
			}
		}
		w.mu.Lock()
		w.hooked[rd.ID()] = true
		w.mu.Unlock()
	})
	w.gs.RegisterRequestUpdatedHook(func(p peer.ID, rd graphsync.RequestData, upd graphsync.RequestData, ha graphsync.RequestUpdatedHookActions) {
		w.mu.Lock()
		l := w.updOps[rd.ID()]
		var o op
		ok := len(l) > 0
		if ok {
			o = l[0]
			w.updOps[rd.ID()] = l[1:]
		}
		w.mu.Unlock()
		if !ok {
			return
		}
		if o.Ext > 0 {
			ed, _ := extData(o.Ext)
			ha.SendExtensionData(ed)
		}
		if o.HErr {
			ha.TerminateWithError(errors.New("scripted update failure"))
		}
		if o.Unpause {
			ha.UnpauseResponse()
		}
	})
	w.gs.RegisterIncomingResponseHook(func(p peer.ID, rd graphsync.ResponseData, ha graphsync.IncomingResponseHookActions) {
		w.mu.Lock()
		n := w.rspUpd[rd.RequestID()]
		delete(w.rspUpd, rd.RequestID())
		w.mu.Unlock()
		if n > 0 {
			ed, _ := extData(n)
			ha.UpdateRequestWithExtensions(ed)
		}
	})
	for i := 1; i <= 3; i++ {
		w.net.recv.Connected(w.peers[i])
	}
	return w
}

func (w *world) id(r int) graphsync.RequestID {
	w.mu.Lock()
	defer w.mu.Unlock()
	if x, ok := w.ids[r]; ok {
		return x
	}
	x := graphsync.NewRequestID()
	w.ids[r] = x
	return x
}

// callD runs f on its own goroutine and reports whether it returned within d: no call into the
// library may hold up the driver, whatever the library does
func callD(d time.Duration, f func()) bool {
	done := make(chan struct{})
	go func() { defer close(done); f() }()
	select {
	case <-done:
		return true
	case <-time.After(d):
		return false
	}
}

func (w *world) inject(p int, reqs ...gsmsg.GraphSyncRequest) error {
	b := gsmsg.NewBuilder()
	for _, r := range reqs {
		b.AddRequest(r)
	}
	m, err := b.Build()
	if err != nil {
		return err
	}
	// the network hands the message over on its own goroutine; the hand-over itself waits when the
	// loop's mailbox is full
	callD(setupWait, func() { w.net.recv.ReceiveMessage(w.ctx, w.peers[p], m) })
	return nil
}

// newRequestMsg stores the DAG and returns the request
func (w *world) newRequest(o op) (gsmsg.GraphSyncRequest, error) {
	w.tagSeq++
	sizes := o.Blocks
	if len(sizes) == 0 {
		sizes = []int{16}
	}
	bl, err := chain(w.tagSeq, sizes)
	if err != nil {
		return gsmsg.GraphSyncRequest{}, err
	}
	for _, b := range bl {
		w.store.Put(cidlink.Link{Cid: b.c}, b.data)
	}
	id := w.id(o.R)
	w.mu.Lock()
	w.newOps[id] = o
	w.mu.Unlock()
	return gsmsg.NewRequest(id, bl[0].c, allSelector(), graphsync.Priority(0)), nil
}

func (w *world) stats(exp []int) bool {
	if len(exp) != 4 {
		return true
	}
	st := w.gs.Stats()
	return int(st.IncomingRequests.Active) == exp[0] && int(st.IncomingRequests.Pending) == exp[1] &&
		int(st.OutgoingResponses.TotalAllocatedAllPeers) == exp[2] && int(st.OutgoingResponses.TotalPendingAllocations) == exp[3]
}

const setupWait = 6 * time.Second

func (w *world) wait(o op, v *verdict) {
	ok := true
	setupWait := setupWait
	if !v.SetupOK {
		setupWait = 500 * time.Millisecond // the history already went off its expected course: do not wait long again
	}
	switch o.W {
	case "hook":
		id := w.id(o.R)
		ok = waitFor(setupWait, func() bool { w.mu.Lock(); defer w.mu.Unlock(); return w.hooked[id] })
	case "done":
		id := w.id(o.R)
		ok = waitFor(setupWait, func() bool { return w.net.terminalSent(w.peers[o.P], id) })
	case "stats":
		ok = waitFor(setupWait, func() bool { return w.stats(o.Exp) })
	case "ret":
		// the API call returns once the loop has handled it
		select {
		case <-w.lastAPI:
		case <-time.After(setupWait):
			ok = false
		}
	}
	if !ok {
		v.SetupOK = false
		st := w.gs.Stats()
		v.Note += fmt.Sprintf("wait %q after op %s r=%d expired (stats %+v %+v); ", o.W, o.K, o.R, st.IncomingRequests, st.OutgoingResponses)
	}
}

func (w *world) apply(o op, v *verdict) error {
	switch o.K {
	case "new":
		rq, err := w.newRequest(o)
		if err != nil {
			return err
		}
		if err := w.inject(o.P, rq); err != nil {
			return err
		}
	case "cancel":
		if err := w.inject(o.P, gsmsg.NewCancelRequest(w.id(o.R))); err != nil {
			return err
		}
	case "update":
		id := w.id(o.R)
		w.mu.Lock()
		w.updOps[id] = append(w.updOps[id], o)
		w.mu.Unlock()
		ed, _ := extData(3)
		if err := w.inject(o.P, gsmsg.NewUpdateRequest(id, ed)); err != nil {
			return err
		}
	case "unpause", "apiupdate", "apicancel", "apipause":
		// API calls wait for the loop: run them on their own goroutine, as a user of the library would
		id := w.id(o.R)
		var exts []graphsync.ExtensionData
		if o.Ext > 0 {
			ed, _ := extData(o.Ext)
			exts = append(exts, ed)
		}
		done := make(chan struct{})
		w.lastAPI = done
		go func() {
			defer close(done)
			switch o.K {
			case "unpause":
				_ = w.gs.Unpause(w.ctx, id, exts...)
			case "apiupdate":
				_ = w.gs.SendUpdate(w.ctx, id, exts...)
			case "apicancel":
				_ = w.gs.Cancel(w.ctx, id)
			case "apipause":
				_ = w.gs.Pause(w.ctx, id)
			}
		}()
	case "connect", "disconnect":
		// a write to the message manager's peer table, through the network's connection notifications
		// (the real PeerManager.Connected / Disconnected)
		p := w.peers[o.P]
		ok := callD(1500*time.Millisecond, func() {
			if o.K == "connect" {
				w.net.recv.Connected(p)
			} else {
				w.net.recv.Disconnected(p)
			}
		})
		if !ok {
			v.Note += fmt.Sprintf("%s of peer %d did not return; ", o.K, o.P)
		}
	case "wait":
	default:
		return fmt.Errorf("unknown op %q", o.K)
	}
	w.wait(o, v)
	return nil
}

func probeWait(c scase) time.Duration {
	if c.Expect == "blocked" {
		return 1200 * time.Millisecond
	}
	return 4 * time.Second
}

func runResp(c scase, seq uint64) (verdict, error) {
	v := verdict{SetupOK: true}
	w := newWorld(c, seq)
	defer w.cancel()
	for _, o := range c.Ops {
		if err := w.apply(o, &v); err != nil {
			return v, err
		}
	}
	rq, err := w.newRequest(c.Probe)
	if err != nil {
		return v, err
	}
	pid := w.id(c.Probe.R)
	if err := w.inject(c.Probe.P, rq); err != nil {
		return v, err
	}
	v.Answered = waitFor(probeWait(c), func() bool { return w.net.terminalSent(w.peers[c.Probe.P], pid) })
	w.mu.Lock()
	v.Accepted = w.hooked[pid]
	w.mu.Unlock()
	if !v.Answered && c.Expect != "blocked" {
		v.WaitExpired = true
	}
	// the stall ends: whatever was held up must now go through
	w.net.release()
	v.AnsweredAfter = waitFor(setupWait, func() bool { return w.net.terminalSent(w.peers[c.Probe.P], pid) })
	if !v.AnsweredAfter {
		v.WaitExpired = true
	}
	return v, nil
}

// requestor half: ops towards the stalled peer, then a request to peer 2 whose response we hand-build
func runReq(c scase, seq uint64) (verdict, error) {
	v := verdict{SetupOK: true}
	w := newWorld(c, seq)
	defer w.cancel()
	type out struct {
		cancel context.CancelFunc
		prog   <-chan graphsync.ResponseProgress
		errs   <-chan error
	}
	outs := map[int]*out{}
	var outsMu sync.Mutex
	request := func(o op) ([]blk, error) {
		w.tagSeq++
		sizes := o.Blocks
		if len(sizes) == 0 {
			sizes = []int{16}
		}
		bl, err := chain(w.tagSeq, sizes)
		if err != nil {
			return nil, err
		}
		id := w.id(o.R)
		if o.HookUpd > 0 {
			w.mu.Lock()
			w.rspUpd[id] = o.HookUpd
			w.mu.Unlock()
		}
		ctx, cancel := context.WithCancel(context.WithValue(w.ctx, graphsync.RequestIDContextKey{}, id))
		// Request returns once the request manager's loop has registered the request
		ok := callD(probeWait(c), func() {
			prog, errs := w.gs.Request(ctx, w.peers[o.P], cidlink.Link{Cid: bl[0].c}, allSelector())
			outsMu.Lock()
			outs[o.R] = &out{cancel, prog, errs}
			outsMu.Unlock()
		})
		if !ok {
			v.Note += fmt.Sprintf("Request r=%d did not return; ", o.R)
		}
		return bl, nil
	}
	getOut := func(r int) *out {
		outsMu.Lock()
		defer outsMu.Unlock()
		return outs[r]
	}
	for _, o := range c.Ops {
		switch o.K {
		case "new": // the stalled peer's allowance on the responder side of the same node
			if err := w.apply(o, &v); err != nil {
				return v, err
			}
		case "request":
			if _, err := request(o); err != nil {
				return v, err
			}
		case "rcancel":
			if x := getOut(o.R); x != nil {
				x.cancel()
			}
		case "rupdate":
			id := w.id(o.R)
			ed, _ := extData(o.Ext + 1)
			go func() { _ = w.gs.SendUpdate(w.ctx, id, ed) }()
		default:
			return v, fmt.Errorf("unknown requestor op %q", o.K)
		}
	}
	bl, err := request(c.Probe)
	if err != nil {
		return v, err
	}
	pid := w.id(c.Probe.R)
	q := w.peers[c.Probe.P]
	// accepted = the request reached the other peer's side of the network
	v.Accepted = waitFor(probeWait(c), func() bool { return w.net.requestSent(q, pid, graphsync.RequestTypeNew) })
	// the other peer answers with the whole DAG
	b := gsmsg.NewBuilder()
	for _, x := range bl {
		bb, _ := blocks.NewBlockWithCid(x.data, x.c)
		b.AddBlock(bb)
		b.AddLink(pid, cidlink.Link{Cid: x.c}, graphsync.LinkActionPresent)
	}
	b.AddResponseCode(pid, graphsync.RequestCompletedFull)
	m, err := b.Build()
	if err != nil {
		return v, err
	}
	go func() { w.net.recv.ReceiveMessage(w.ctx, q, m) }()
	done := make(chan bool, 1)
	x := getOut(c.Probe.R)
	if x == nil {
		// the request manager never registered the request
		w.net.release()
		v.WaitExpired = true
		return v, nil
	}
	go func() {
		n := 0
		for range x.prog {
			n++
		}
		var errs []error
		for e := range x.errs {
			errs = append(errs, e)
		}
		done <- n > 0 && len(errs) == 0
	}()
	select {
	case ok := <-done:
		v.Answered = ok
	case <-time.After(probeWait(c)):
		v.Answered = false
		v.WaitExpired = true
	}
	if c.Probe.HookUpd > 0 {
		ok := waitFor(probeWait(c), func() bool { return w.net.requestSent(q, pid, graphsync.RequestTypeUpdate) })
		v.Answered = v.Answered && ok
	}
	w.net.release()
	v.AnsweredAfter = v.Answered
	if !v.Answered {
		select {
		case ok := <-done:
			v.AnsweredAfter = ok
		case <-time.After(setupWait):
		}
	}
	return v, nil
}

const caseDeadline = 90 * time.Second

func runCase(c scase, seq uint64) (verdict, error) {
	one := func() (verdict, error) {
		type res struct {
			v   verdict
			err error
		}
		ch := make(chan res, 1)
		go func() {
			var r res
			if c.Kind == "req" {
				r.v, r.err = runReq(c, seq)
			} else {
				r.v, r.err = runResp(c, seq)
			}
			ch <- r
		}()
		select {
		case r := <-ch:
			return r.v, r.err
		case <-time.After(caseDeadline):
			return verdict{WaitExpired: true, Note: "the case did not finish; "}, nil
		}
	}
	v, err := one()
	if err != nil {
		return v, err
	}
	if v.WaitExpired || !v.SetupOK {
		// a wait expired where the generator expected progress: run the case once more (loaded machine);
		// a second expiry is kept and reported
		v2, err := one()
		if err != nil {
			return v2, err
		}
		v2.Note = "rerun after: " + v.Note + " | " + v2.Note
		return v2, nil
	}
	return v, nil
}

// ---------------------------------------------------------------------------------------------
// Coq terms

func b2(b bool) string { return cw.Bool(b) }

func planTerm(sizes []int) string {
	if len(sizes) == 0 {
		sizes = []int{16}
	}
	xs := make([]string, len(sizes))
	for i, s := range sizes {
		xs[i] = fmt.Sprintf("(%d, 0)", s)
	}
	return cw.List(xs)
}

func extLen(n int) uint64 {
	if n <= 0 {
		return 0
	}
	_, l := extData(n)
	return l
}

func itemTerm(o op) (string, error) {
	switch o.K {
	case "new":
		return fmt.Sprintf("[INew %d %d %d %s %s %s]", o.P, o.R, extLen(o.Ext), b2(!o.Invalid), b2(o.Pause), planTerm(o.Blocks)), nil
	case "cancel":
		return fmt.Sprintf("[ICancel %d %d]", o.P, o.R), nil
	case "update":
		return fmt.Sprintf("[IUpdate %d %d %d %s %s]", o.P, o.R, extLen(o.Ext), b2(o.HErr), b2(o.Unpause)), nil
	case "unpause":
		return fmt.Sprintf("[IApiUnpause %d %d]", o.R, extLen(o.Ext)), nil
	case "apiupdate":
		return fmt.Sprintf("[IApiUpdate %d %d]", o.R, extLen(o.Ext)), nil
	case "apicancel":
		return fmt.Sprintf("[IApiCancel %d]", o.R), nil
	case "apipause":
		return fmt.Sprintf("[IApiPause %d]", o.R), nil
	}
	return "", fmt.Errorf("no item for op %q", o.K)
}

// evTerm: one event of the history for the model; "" = nothing (a pure wait)
func evTerm(o op) (string, error) {
	switch o.K {
	case "connect", "disconnect":
		return fmt.Sprintf("EvPeerTable %d", o.P), nil
	case "wait":
		return "", nil
	}
	t, err := itemTerm(o)
	if err != nil {
		return "", err
	}
	return "EvMsg " + t, nil
}

func qitemTerm(o op) (string, error) {
	switch o.K {
	case "request":
		return fmt.Sprintf("[QNewRequest %d %d]", o.P, o.R), nil
	case "rcancel":
		return fmt.Sprintf("[QCancel %d %d]", o.P, o.R), nil
	case "rupdate":
		return fmt.Sprintf("[QUpdate %d %d]", o.P, o.R), nil
	}
	return "", fmt.Errorf("no requestor item for op %q", o.K)
}

func caseTerm(c scase, v verdict) (string, error) {
	stalled := "[]"
	if c.Stalled {
		stalled = "[1]"
	}
	if c.Kind == "req" {
		var ms []string
		var fill []string
		for _, o := range c.Ops {
			if o.K == "new" {
				t, err := itemTerm(o)
				if err != nil {
					return "", err
				}
				fill = append(fill, t)
				continue
			}
			t, err := qitemTerm(o)
			if err != nil {
				return "", err
			}
			ms = append(ms, t)
		}
		pt, _ := qitemTerm(c.Probe)
		ms = append(ms, pt)
		ms = append(ms, fmt.Sprintf("[QResponses %d %d %s false true]", c.Probe.P, c.Probe.R, b2(c.Probe.HookUpd > 0)))
		return fmt.Sprintf("CReq {| qc_mt := %d; qc_mp := %d; qc_fill := %s; qc_msgs := %s; qc_obs_sent := %s; qc_obs_done := %s |}",
			c.MaxTotal, c.MaxPeer, cw.List(fill), cw.List(ms), b2(v.Accepted), b2(v.Answered)), nil
	}
	var ms []string
	for _, o := range c.Ops {
		t, err := evTerm(o)
		if err != nil {
			return "", err
		}
		if t != "" {
			ms = append(ms, t)
		}
	}
	pt, err := evTerm(c.Probe)
	if err != nil {
		return "", err
	}
	ms = append(ms, pt)
	return fmt.Sprintf("CResp {| sc_cfg := {| c_workers := %d; c_cap := %d; c_maxtotal := %d; c_maxpeer := %d; c_stalled := %s |}; "+
		"sc_msgs := %s; sc_probe_peer := %d; sc_probe_rid := %d; sc_api_sites := []; sc_obs_accepted := %s; sc_obs_answered := %s; sc_obs_answered_after := %s |}",
		c.Workers, c.Cap, c.MaxTotal, c.MaxPeer, stalled, cw.List(ms), c.Probe.P, c.Probe.R, b2(v.Accepted), b2(v.Answered), b2(v.AnsweredAfter)), nil
}

// ---------------------------------------------------------------------------------------------
// generators

func sum(xs []int) int {
	t := 0
	for _, x := range xs {
		t += x
	}
	return t
}

// fill: requests of peer 1 whose blocks fit into its allowance and leave less than `room` free
func genFill(r *rng.R, c *scase, nextR *int, room int) {
	limit := int(c.MaxPeer)
	left := limit - r.Range(0, room-1) // bytes to queue: more than limit-room
	n := r.Range(1, 2)
	for i := 0; i < n; i++ {
		var blocksz []int
		take := left
		if i+1 < n {
			take = left / 2
		}
		if take < 8 {
			break
		}
		if take >= 300 && r.P(1, 2) {
			a := r.Range(100, take-100)
			blocksz = []int{a, take - a}
		} else {
			blocksz = []int{take}
		}
		left -= take
		o := op{K: "new", P: 1, R: *nextR, Blocks: blocksz}
		*nextR++
		if c.Stalled {
			o.W = "stats"
			cum := sum(blocksz) // everything queued for peer 1 so far stays accounted: nothing is sent
			for _, prev := range c.Ops {
				if prev.K == "new" && prev.P == 1 {
					cum += sum(prev.Blocks)
				}
			}
			o.Exp = []int{0, 0, cum, 0}
		} else {
			o.W = "done"
		}
		c.Ops = append(c.Ops, o)
	}
}

func baseCase(r *rng.R, kind, family string) scase {
	c := scase{Kind: kind, Family: family, Workers: r.Range(1, 3), MaxPeer: uint64(r.Range(600, 2000)), Stalled: r.P(4, 5)}
	c.MaxTotal = c.MaxPeer * uint64(r.Range(4, 50))
	return c
}

func probeOp(r *rng.R, rid int) op {
	o := op{K: "new", P: 2, R: rid}
	switch r.Intn(3) {
	case 0:
		o.Blocks = []int{r.Range(1, 200)}
	case 1:
		o.Blocks = []int{r.Range(80, 200), r.Range(1, 200)}
	default:
		o.Blocks = []int{r.Range(80, 150), r.Range(80, 150), r.Range(1, 100)}
	}
	return o
}

// tableWrites: while a reservation of peer 1 is parked in an executor (a legitimate wait), the message manager's
// peer table is written: peer 4 connects, peer 3 disconnects, the never-seen peer 5 sends its first request (its
// queue is created) and must be answered; the probe may come from the never-seen peer as well
func tableWrites(r *rng.R, c *scase, nextR *int) {
	used5 := false
	n := 0
	for n == 0 {
		if r.P(1, 2) {
			c.Ops = append(c.Ops, op{K: "connect", P: 4})
			n++
		}
		if r.P(1, 2) {
			c.Ops = append(c.Ops, op{K: "disconnect", P: 3})
			n++
		}
		if r.P(1, 3) && !used5 {
			c.Ops = append(c.Ops, op{K: "new", P: 5, R: *nextR, W: "done", Blocks: []int{r.Range(80, 200), r.Range(1, 100)}})
			*nextR++
			used5 = true
			n++
		}
	}
	c.Probe = probeOp(r, *nextR)
	if !used5 && r.P(1, 3) {
		c.Probe.P = 5
	}
	c.Tags = append(c.Tags, "table-write-while-parked")
}

// abortsWhileParked: the executors of the target responses of peer 1 are parked on its reservation and do not drain
// their signal slots; every target gets 2-3 aborts of mixed kinds (the requestor's cancel, the local CancelResponse).
// A target that is still queued is simply retired by its first abort.
func abortsWhileParked(r *rng.R, c *scase, targets []int) {
	for _, t := range targets {
		for i, n := 0, r.Range(2, 3); i < n; i++ {
			if r.P(1, 2) {
				c.Ops = append(c.Ops, op{K: "cancel", P: 1, R: t})
			} else {
				c.Ops = append(c.Ops, op{K: "apicancel", R: t, W: "ret"})
			}
		}
	}
	c.Tags = append(c.Tags, "aborts-while-parked")
}

// family "site": the allowance of peer 1 is full; one loop-side call site transacts for peer 1
func genSite(r *rng.R) scase {
	c := baseCase(r, "resp", "site")
	c.Workers = r.Range(2, 3) // at most one request of peer 1 runs in this family: a worker stays free
	nextR := 10
	ext := 0
	if r.P(3, 4) {
		ext = r.Range(1, 40)
	}
	genFill(r, &c, &nextR, 1) // completely full: any extension waits
	site := rng.Pick(r, []string{"newreq", "update", "unpause", "apiupdate", "apicancel", "update-unpause", "update-err", "newreq-invalid"})
	rr := nextR
	nextR++
	setup := op{K: "new", P: 1, R: rr, Pause: true, W: "hook", Blocks: []int{r.Range(1, 50)}}
	switch site {
	case "newreq":
		c.Ops = append(c.Ops, op{K: "new", P: 1, R: rr, Ext: ext, Pause: r.Bool(), Blocks: []int{8}})
	case "newreq-invalid":
		c.Ops = append(c.Ops, op{K: "new", P: 1, R: rr, Ext: ext, Invalid: true, Blocks: []int{8}})
	case "update":
		c.Ops = append(c.Ops, setup, op{K: "update", P: 1, R: rr, Ext: ext})
	case "update-unpause":
		c.Ops = append(c.Ops, setup, op{K: "update", P: 1, R: rr, Ext: ext, Unpause: true})
	case "update-err":
		c.Ops = append(c.Ops, setup, op{K: "update", P: 1, R: rr, Ext: ext, HErr: true})
	case "unpause", "apiupdate", "apicancel":
		// an API call is not ordered with the messages that follow it: wait until the loop has taken it,
		// i.e. until it returned, or (when it is going to wait) until its reservation is pending
		k := site
		if site == "apicancel" {
			ext = 0
		}
		o := op{K: k, R: rr, Ext: ext, W: "ret"}
		if ext > 0 && c.Stalled {
			o.W = "stats"
			o.Exp = []int{0, 0, int(c.MaxPeer), int(extLen(ext))}
		}
		c.Ops = append(c.Ops, setup, o)
	}
	c.Probe = probeOp(r, nextR)
	if c.Stalled && ext == 0 && (site == "unpause" || site == "update-unpause") && r.P(3, 4) {
		// the unpaused request's block does not fit the full allowance: an executor parks on peer 1's reservation
		c.Ops = append(c.Ops, op{K: "wait", W: "stats", Exp: []int{1, 0, int(c.MaxPeer), setup.Blocks[0]}})
		both := r.P(1, 3)
		if both || r.P(1, 2) {
			abortsWhileParked(r, &c, []int{rr})
			c.Probe = probeOp(r, nextR)
			if both {
				tableWrites(r, &c, &nextR)
			}
		} else {
			tableWrites(r, &c, &nextR)
		}
	}
	c.Expect = "answered"
	tagSite := strings.SplitN(site, "-", 2)[0]
	if ext > 0 && c.Stalled {
		c.Expect = "blocked"
		c.Tags = append(c.Tags, "stalled", "loop-ext", "site:"+tagSite)
	} else {
		c.Tags = append(c.Tags, "no-loop-ext", "site:"+tagSite)
		if c.Stalled {
			c.Tags = append(c.Tags, "stalled")
		}
	}
	return c
}

// family "pool": peer 1 runs k requests whose blocks do not fit into its allowance: each occupies a worker
func genPool(r *rng.R) scase {
	c := baseCase(r, "resp", "pool")
	c.Workers = r.Range(1, 3)
	if r.P(1, 2) {
		c.Cap = r.Range(1, 3)
	}
	// s <= limit - 40 < 2s - 40: one block fits, two do not, and a block plus the extension data of an update
	// hook (at most 32 bytes) still fits the limit: a reservation above the per-peer limit is never granted
	s := r.Range(int(c.MaxPeer)/2+1, int(c.MaxPeer)-40)
	k := r.Range(1, 4)
	nextR := 10
	busy := k
	if busy > c.Workers {
		busy = c.Workers
	}
	if c.Cap > 0 && busy > c.Cap {
		busy = c.Cap
	}
	for i := 0; i < k; i++ {
		o := op{K: "new", P: 1, R: nextR, Blocks: []int{s, s}}
		nextR++
		if c.Stalled {
			if i == k-1 {
				o.W = "stats"
				o.Exp = []int{busy, k - busy, s, busy * s}
			}
		} else {
			o.W = "done"
		}
		c.Ops = append(c.Ops, o)
	}
	if r.P(1, 2) {
		// updates (whose hook attaches extension data) for requests that are running or still queued:
		// those are left to the executors, the loop only records them
		for i := 0; i < k; i++ {
			c.Ops = append(c.Ops, op{K: "update", P: 1, R: 10 + i, Ext: r.Range(1, 30)})
		}
		c.Tags = append(c.Tags, "updates-not-paused")
	}
	c.Probe = probeOp(r, nextR)
	if c.Stalled && busy < c.Workers && r.P(3, 4) {
		// busy executors are parked on peer 1's reservations, one is free
		both := r.P(1, 3)
		if both || r.P(1, 2) {
			var targets []int
			for i := 0; i < k; i++ {
				targets = append(targets, 10+i)
			}
			abortsWhileParked(r, &c, targets)
			if both {
				tableWrites(r, &c, &nextR)
			}
		} else {
			tableWrites(r, &c, &nextR)
		}
	}
	c.Expect = "answered"
	if c.Stalled && busy >= c.Workers {
		c.Expect = "blocked"
		c.Tags = append(c.Tags, "stalled", "pool-exhausted")
		if c.Cap == 0 {
			c.Tags = append(c.Tags, "cap-unset")
		} else {
			c.Tags = append(c.Tags, "cap>=workers")
		}
	} else {
		c.Tags = append(c.Tags, "pool-free")
		if c.Stalled {
			c.Tags = append(c.Tags, "stalled")
		}
	}
	return c
}

// family "resume": the per-peer cap is set below the pool size; peer 1 has at least as many responses as there are
// executors, every one paused by the request hook and then resumed (UnpauseResponse, no extensions) one after the
// other; each resumed response is larger than the allowance, so each one that runs parks an executor. The cap must
// hold for resumed tasks as for new ones: an executor stays free for the other peer.
func genResume(r *rng.R) scase {
	c := baseCase(r, "resp", "resume")
	c.Workers = r.Range(2, 3)
	c.Cap = r.Range(1, c.Workers-1)
	s := r.Range(int(c.MaxPeer)/2+1, int(c.MaxPeer)-40)
	k := c.Workers + r.Range(0, 1)
	nextR := 10
	for i := 0; i < k; i++ {
		c.Ops = append(c.Ops, op{K: "new", P: 1, R: nextR, Pause: true, W: "hook", Blocks: []int{s, s}})
		nextR++
	}
	n0 := 0
	if r.P(1, 3) {
		// a new (never paused) request of peer 1 counts against the same cap: it runs first
		o := op{K: "new", P: 1, R: nextR, Blocks: []int{s, s}}
		if c.Stalled {
			o.W, o.Exp = "stats", []int{1, 0, s, s}
		}
		c.Ops = append(c.Ops, o)
		nextR++
		n0 = 1
	}
	// resume one after the other; after each resume wait until the task queue and the allocator show what the cap
	// allows: min(started, cap) responses running (each with one reservation waiting), the others queued
	for j := 1; j <= k; j++ {
		o := op{K: "unpause", R: 10 + j - 1, W: "ret"}
		if c.Stalled {
			run := n0 + j
			if run > c.Cap {
				run = c.Cap
			}
			o.W, o.Exp = "stats", []int{run, n0 + j - run, s, run * s}
		}
		c.Ops = append(c.Ops, o)
	}
	if !c.Stalled {
		for i := 0; i < k+n0; i++ {
			c.Ops = append(c.Ops, op{K: "wait", P: 1, R: 10 + i, W: "done"})
		}
	}
	c.Probe = probeOp(r, nextR)
	if c.Stalled && r.P(1, 3) {
		tableWrites(r, &c, &nextR)
	}
	c.Expect = "answered"
	c.Tags = append(c.Tags, "pool-free", "resume-route")
	if c.Stalled {
		c.Tags = append(c.Tags, "stalled")
	}
	return c
}

// family "mix": histories without loop-side extension data: fills, paused requests, cancels, updates,
// unpauses without extensions, a third peer
func genMix(r *rng.R) scase {
	c := baseCase(r, "resp", "mix")
	c.Workers = r.Range(2, 3)
	nextR := 10
	genFill(r, &c, &nextR, r.Range(1, 200))
	n := r.Range(1, 5)
	var paused []int
	for i := 0; i < n; i++ {
		switch r.Intn(7) {
		case 0, 1:
			o := op{K: "new", P: 1, R: nextR, Pause: true, W: "hook", Blocks: []int{r.Range(1, 40)}}
			paused = append(paused, nextR)
			nextR++
			c.Ops = append(c.Ops, o)
		case 2:
			if len(paused) > 0 {
				c.Ops = append(c.Ops, op{K: "update", P: 1, R: rng.Pick(r, paused), HErr: r.P(1, 4)})
			}
		case 3:
			if len(paused) > 0 {
				c.Ops = append(c.Ops, op{K: "cancel", P: 1, R: rng.Pick(r, paused)})
			}
		case 4:
			if len(paused) > 0 {
				c.Ops = append(c.Ops, op{K: rng.Pick(r, []string{"apicancel", "apipause", "apiupdate"}), R: rng.Pick(r, paused), W: "ret"})
			}
		case 5:
			// the third peer: served completely
			o := op{K: "new", P: 3, R: nextR, W: "done", Blocks: []int{r.Range(80, 300), r.Range(1, 300)}}
			nextR++
			c.Ops = append(c.Ops, o)
		case 6:
			c.Ops = append(c.Ops, op{K: "new", P: 1, R: nextR, Invalid: true, W: "hook", Blocks: []int{9}})
			nextR++
		}
	}
	if c.Stalled && r.P(1, 2) {
		// one request of peer 1 is unpaused (no extensions) with a block that does not fit: an executor waits
		// with a reservation of peer 1 pending; then size-0 transactions for peer 1 from inside the loop
		cum := 0
		for _, o := range c.Ops {
			if o.K == "new" && o.P == 1 && !o.Pause && !o.Invalid {
				cum += sum(o.Blocks)
			}
		}
		b := int(c.MaxPeer) - cum + 1 + r.Range(0, 30)
		rr := nextR
		nextR++
		c.Ops = append(c.Ops, op{K: "new", P: 1, R: rr, Pause: true, W: "hook", Blocks: []int{b}},
			op{K: "unpause", R: rr, W: "stats", Exp: []int{1, 0, cum, b}})
		for i, m := 0, r.Range(1, 3); i < m; i++ {
			switch r.Intn(3) {
			case 0:
				c.Ops = append(c.Ops, op{K: "new", P: 1, R: nextR, Pause: true, W: "hook", Blocks: []int{r.Range(1, 40)}})
				paused = append(paused, nextR)
				nextR++
			case 1:
				if len(paused) > 0 {
					c.Ops = append(c.Ops, op{K: "apicancel", R: rng.Pick(r, paused), W: "ret"})
				}
			case 2:
				c.Ops = append(c.Ops, op{K: "new", P: 1, R: nextR, Invalid: true, W: "hook", Blocks: []int{9}})
				nextR++
			}
		}
		c.Tags = append(c.Tags, "pending-then-status")
		if r.P(1, 2) {
			abortsWhileParked(r, &c, []int{rr})
		}
		if r.P(2, 3) {
			tableWrites(r, &c, &nextR)
			goto probed
		}
	}
	c.Probe = probeOp(r, nextR)
probed:
	c.Expect = "answered"
	c.Tags = append(c.Tags, "no-loop-ext", "mix")
	if c.Stalled {
		c.Tags = append(c.Tags, "stalled")
	}
	return c
}

// family "req": the requestor half
func genReq(r *rng.R) scase {
	c := baseCase(r, "req", "req")
	nextR := 10
	if r.P(1, 2) {
		genFill(r, &c, &nextR, 1)
	}
	n := r.Range(1, 4)
	var mine []int
	for i := 0; i < n; i++ {
		switch r.Intn(4) {
		case 0, 1:
			c.Ops = append(c.Ops, op{K: "request", P: 1, R: nextR, Blocks: []int{r.Range(1, 100)}})
			mine = append(mine, nextR)
			nextR++
		case 2:
			if len(mine) > 0 {
				c.Ops = append(c.Ops, op{K: "rupdate", P: 1, R: rng.Pick(r, mine), Ext: r.Range(0, 30)})
			}
		case 3:
			if len(mine) > 0 {
				c.Ops = append(c.Ops, op{K: "rcancel", P: 1, R: rng.Pick(r, mine)})
			}
		}
	}
	c.Probe = op{K: "request", P: 2, R: nextR, Blocks: []int{r.Range(80, 200), r.Range(1, 200)}}
	if r.P(1, 2) {
		c.Probe.HookUpd = r.Range(1, 30)
	}
	c.Expect = "answered"
	c.Tags = append(c.Tags, "requestor")
	if c.Stalled {
		c.Tags = append(c.Tags, "stalled")
	}
	return c
}

func genCase(r *rng.R) scase {
	x := r.Intn(100)
	switch {
	case x < 37:
		return genSite(r)
	case x < 55:
		return genPool(r)
	case x < 65:
		return genResume(r)
	case x < 84:
		return genMix(r)
	default:
		return genReq(r)
	}
}

// ---------------------------------------------------------------------------------------------

const header = `From Coq Require Import List NArith Bool.
From GS Require Import Base Alloc Stall.
Import ListNotations.
Open Scope N_scope.
`

func run(c *drv.Ctx) error {
	w := cw.New(c.Out, header, "anycase", []cw.Check{
		{Name: "MISMATCH", Fn: "anycase_agrees"},
		{Name: "MON25", Fn: "anycase_mon25"},
	})
	w.ShardSize = 200
	w.Stats.Rule = "directed histories against one real GraphSync node (impl.New: real ResponseManager, RequestManager, ResponseAssembler, " +
		"MessageQueue, Allocator, task queues, executors, hooks) on a scripted network whose sends to peer 1 block while it is stalled: " +
		"families site (allowance of peer 1 full, then one loop-side call site: request hook / update hook / Unpause / SendUpdate / Cancel, with or without extension data), " +
		"pool (k requests of peer 1 larger than its allowance, with or without MaxInProgressIncomingRequestsPerPeer), mix (fills, pauses, updates, cancels, third peer, no loop-side extension data), " +
		"req (requests, updates, cancels towards peer 1, then a request to peer 2 answered by a hand-built response); then the probe of peer 2; " +
		"non-trivial = peer 1 stalled; distinct = distinct terms"
	var cases []scase
	if c.Replay != "" {
		var sc scase
		if err := drv.ReplayCase(c.Replay, &sc); err != nil {
			return err
		}
		cases = append(cases, sc)
	} else {
		for _, f := range c.CorpusFiles("stall") {
			var sc scase
			if err := drv.ReadJSON(f, &sc); err != nil {
				return fmt.Errorf("%s: %w", f, err)
			}
			sc.Tags = append(sc.Tags, "corpus")
			cases = append(cases, sc)
		}
		n := c.Count(150, 1500)
		for i := 0; i < n; i++ {
			cases = append(cases, genCase(c.R.Fork()))
		}
	}
	type res struct {
		v   verdict
		err error
	}
	for i := range cases {
		tags := append([]string{"family:" + cases[i].Family, "expect:" + cases[i].Expect}, cases[i].Tags...)
		sort.Strings(tags)
		cases[i].Tags = tags
	}
	results := make([]res, len(cases))
	par := 10
	sem := make(chan struct{}, par)
	var wg sync.WaitGroup
	var unserved int32 // cases in which the healthy peer was expected to be served and was not
	const failFast = 6 // after that many no further case is started: the run is already decided
	inflight := filepath.Join(c.Out, "inflight.json")
	_ = os.MkdirAll(c.Out, 0o755)
	ran := 0
	for i := range cases {
		if atomic.LoadInt32(&unserved) >= failFast {
			break
		}
		wg.Add(1)
		sem <- struct{}{}
		// the case about to run (the most recently started one): a death of this process becomes a replay of it
		if b, err := json.Marshal(cases[i]); err == nil {
			_ = os.WriteFile(inflight, b, 0o644)
		}
		ran = i + 1
		go func(i int) {
			defer wg.Done()
			defer func() { <-sem }()
			v, err := runCase(cases[i], uint64(i+1))
			results[i] = res{v, err}
			if err == nil && cases[i].Expect == "answered" && !(v.Accepted && v.Answered) {
				atomic.AddInt32(&unserved, 1)
			}
		}(i)
	}
	wg.Wait()
	_ = os.Remove(inflight)
	cases = cases[:ran]
	reruns, expired := 0, 0
	var notes []string
	for i, sc := range cases {
		if results[i].err != nil {
			return fmt.Errorf("case %d: %w", i, results[i].err)
		}
		v := results[i].v
		term, err := caseTerm(sc, v)
		if err != nil {
			return err
		}
		idx := w.Add(term, sc, sc.Stalled, sc.Tags...)
		if sc.Expect == "answered" && !(v.Accepted && v.Answered) {
			what := "the healthy peer's request was not served within the deadline"
			if sc.Stalled {
				what += " while peer 1 was stalled"
			}
			w.Violation(idx, what+" ("+v.Note+")", "stall-unserved:"+sc.Family)
		}
		if strings.HasPrefix(v.Note, "rerun") {
			reruns++
		}
		if v.WaitExpired {
			expired++
		}
		if v.Note != "" && len(notes) < 5 {
			notes = append(notes, fmt.Sprintf("case %d: %s", i, v.Note))
		}
	}
	w.Stats.Extra = map[string]any{"cases_rerun_after_wait_expired": reruns, "cases_with_expired_wait_after_rerun": expired, "notes": notes}
	return w.Flush()
}
