// d_quiesce drives C23 (reported request state agrees with the work queue when quiescent):
// three REAL GraphSync instances over the libp2p mocknet with 1–2 workers per queue, several
// requests over distinct chain DAGs between them, driven through random histories of
// pause/unpause (API and hooks) on either side, cancels (context and API) on either side, hook
// errors and responder rejections, with blocking block hooks as gates so that "running" and
// "queued behind a busy worker" persist while PeerState is observed.
//
// After every operation the driver waits until the complete observation (PeerState of every peer on
// every node, both directions) is unchanged over several consecutive barrier rounds (PeerState is a
// synchronous round trip through the actor loop) and records, per node and direction: every
// request's reported state, its topic's place in the task queue, Diagnostics() and Stats().
// Coq then (a) evaluates the C23 monitor on these observations and (b) checks that the sequence of
// snapshots is reachable, through quiescent states, in the model of the managers + queue + workers
// using only the labels the history permits.
package main

import (
	"context"
	"encoding/json"
	"errors"
	"fmt"
	"os"
	"runtime"
	"sort"
	"strings"
	"sync"
	"sync/atomic"
	"time"

	"github.com/ipfs/go-cid"
	"github.com/ipld/go-ipld-prime/codec/dagcbor"
	"github.com/ipld/go-ipld-prime/datamodel"
	"github.com/ipld/go-ipld-prime/fluent/qp"
	cidlink "github.com/ipld/go-ipld-prime/linking/cid"
	"github.com/ipld/go-ipld-prime/node/basicnode"
	"github.com/libp2p/go-libp2p/core/peer"
	mh "github.com/multiformats/go-multihash"

	"bytes"

	"github.com/ipfs/go-graphsync"
	gsimpl "github.com/ipfs/go-graphsync/impl"
	"github.com/ipfs/go-graphsync/peerstate"

	"verif/harness/internal/cw"
	"verif/harness/internal/dag"
	"verif/harness/internal/drv"
	"verif/harness/internal/e2e"
	"verif/harness/internal/rng"
)

const nNodes = 3

// ---------- case input ----------

type reqSpec struct {
	From     int    `json:"from"`
	To       int    `json:"to"`
	Len      int    `json:"len"`       // chain length (blocks)
	RespHook string `json:"resp_hook"` // responder request hook: "ok" | "pause" | "reject"
	RespGate int    `json:"resp_gate"` // initial tokens of the responder's block-hook gate (-1 = open)
	ReqGate  int    `json:"req_gate"`  // initial tokens of the requestor's block-hook gate (-1 = open)
	SentGate int    `json:"sent_gate"` // initial tokens of the responder block-sent listener gate (-1 = open); holds the final-status notification, so CompletingSend persists
}

type op struct {
	Kind string `json:"kind"`
	K    int    `json:"k"`           // request (1-based index into Reqs)
	N    int    `json:"n,omitempty"` // tokens for allow ops (-1 = open)
}

// op kinds:
//   start                     requestor: Request(ctx with chosen id)
//   reqCancelCtx reqCancelApi requestor: cancel the request's context / GraphExchange.Cancel
//   reqPause reqUnpause       requestor: Pause / Unpause (unpause waits until the responder has retired the id)
//   reqUnpauseRace            requestor: Unpause at once, while the responder may still hold the cancelled incarnation
//   respPause respUnpause respCancel   responder: Pause / Unpause / Cancel
//   disconnect                unlink and disconnect the two peers of request k (network failure)
//   awaitReqState awaitRespState   wait (bounded) until k is reported in state code N (directed corpus cases)
//   respClose reqClose        take every token out of the gate again (the next block hook blocks)
//   sentAllow                 add N tokens to the responder's block-sent listener gate of k
//   respAllow reqAllow        add N tokens to a gate (block hooks take one token per block)
//   respHookPause respHookErr the responder's next block hook for k pauses / terminates with an error
//   reqHookPause reqHookErr   the requestor's next block hook for k pauses / terminates with an error

type qcase struct {
	Workers [nNodes][2]int `json:"workers"` // per node: outgoing (requestor) workers, incoming (responder) workers
	PerPeer [nNodes]int    `json:"per_peer"`
	Reqs    []reqSpec      `json:"reqs"`
	Ops     []op           `json:"ops"`
	Tags    []string       `json:"tags,omitempty"`
	Inst    string         `json:"inst,omitempty"` // which node/direction this Coq case is about
}

// ---------- gates ----------

type gate struct {
	tok  chan struct{}
	mu   sync.Mutex
	next string // "", "pause", "err": what the next hook invocation does after taking its token
}

func newGate(n int) *gate {
	g := &gate{tok: make(chan struct{}, 1<<16)}
	g.allow(n)
	return g
}
func (g *gate) allow(n int) {
	if n < 0 {
		n = 4096
	}
	for i := 0; i < n; i++ {
		select {
		case g.tok <- struct{}{}:
		default:
		}
	}
}
func (g *gate) pass(done <-chan struct{}) string {
	select {
	case <-g.tok:
	case <-done:
		return ""
	}
	g.mu.Lock()
	defer g.mu.Unlock()
	a := g.next
	g.next = ""
	return a
}
func (g *gate) drain() {
	for {
		select {
		case <-g.tok:
		default:
			return
		}
	}
}
func (g *gate) setNext(a string) { g.mu.Lock(); g.next = a; g.mu.Unlock() }

// ---------- one run ----------

type instKey struct {
	node int
	resp bool
}

type observation struct {
	seen  map[instKey][][2]int // per instance: per id (state code, queue code)
	diag  map[instKey][][2]int // (k, kind) sorted
	stats map[instKey][2]int
}

func (o *observation) equal(p *observation) bool {
	return fmt.Sprint(o.seen, o.diag, o.stats) == fmt.Sprint(p.seen, p.diag, p.stats)
}

type runner struct {
	c       qcase
	w       *e2e.World
	gs      []*gsimpl.GraphSync
	ids     []graphsync.RequestID
	byID    map[graphsync.RequestID]int
	cancel  []context.CancelFunc
	rgate   []*gate // responder-side gate of request k
	qgate   []*gate
	sgate   []*gate // responder block-sent listener gate of request k
	done    chan struct{}
	arrived []int32 // request k reached the responder request hook (count)
	insts   []instKey
	instID  map[instKey][]int
	perm    map[instKey][]string // cumulative permitted labels (Coq terms), in order of first grant
	permOn  map[instKey]map[string]bool
	obs     []*observation
	permAt  []map[instKey]int // how many permitted labels each instance had at observation i
	expire  bool              // a settle wait expired
	persist bool              // an unchanged, inconsistent observation outlasted persistFor
	bad     []string          // things the harness could not interpret (unknown id ...)
}

func saltedChain(n int, salt int) *dag.DAG {
	d := &dag.DAG{Blocks: make([]dag.Block, n)}
	for i := n - 1; i >= 0; i-- {
		node, _ := qp.BuildMap(basicnode.Prototype.Any, -1, func(ma datamodel.MapAssembler) {
			qp.MapEntry(ma, "v", qp.Int(int64(i)))
			qp.MapEntry(ma, "salt", qp.Int(int64(salt)))
			qp.MapEntry(ma, "pad", qp.String(strings.Repeat("x", 40)))
			if i+1 < n {
				qp.MapEntry(ma, "next", qp.Link(cidlink.Link{Cid: d.Blocks[i+1].Cid}))
			}
		})
		var buf bytes.Buffer
		_ = dagcbor.Encode(node, &buf)
		h, _ := mh.Sum(buf.Bytes(), mh.SHA2_256, -1)
		d.Blocks[i] = dag.Block{Cid: cid.NewCidV1(cid.DagCBOR, h), Data: buf.Bytes()}
	}
	return d
}

func stateCode(s graphsync.RequestState) int {
	switch s {
	case graphsync.Queued:
		return 1
	case graphsync.Running:
		return 2
	case graphsync.Paused:
		return 3
	case graphsync.CompletingSend:
		return 4
	}
	return 9
}

func diagKind(s string) int {
	switch {
	case strings.Contains(s, "in active task queue to be in running state"):
		return 1
	case strings.Contains(s, "in active task queue but appears to have no tracked state"):
		return 2
	case strings.Contains(s, "in pending task queue to be in queued state"):
		return 3
	case strings.Contains(s, "in pending task queue but appears to have no tracked state"):
		return 4
	case strings.Contains(s, "in running state is not in the active task queue"):
		return 5
	case strings.Contains(s, "in queued state is not in the pending task queue"):
		return 6
	}
	return 0
}

func (r *runner) grant(i instKey, k int, lbl string) {
	t := fmt.Sprintf("(%d, %s)", k, lbl)
	if r.permOn[i] == nil {
		r.permOn[i] = map[string]bool{}
	}
	if !r.permOn[i][t] {
		r.permOn[i][t] = true
		r.perm[i] = append(r.perm[i], t)
	}
}

func newresOf(h string) string {
	switch h {
	case "pause":
		return "NewPaused"
	case "reject":
		return "NewErr"
	}
	return "NewOk"
}

func (r *runner) setup() error {
	c := r.c
	w, err := e2e.NewWorld(nNodes)
	if err != nil {
		return err
	}
	r.w = w
	r.done = make(chan struct{})
	r.byID = map[graphsync.RequestID]int{}
	r.instID = map[instKey][]int{}
	r.perm = map[instKey][]string{}
	r.permOn = map[instKey]map[string]bool{}
	r.ids = make([]graphsync.RequestID, len(c.Reqs)+1)
	r.cancel = make([]context.CancelFunc, len(c.Reqs)+1)
	r.rgate = make([]*gate, len(c.Reqs)+1)
	r.qgate = make([]*gate, len(c.Reqs)+1)
	r.sgate = make([]*gate, len(c.Reqs)+1)
	r.arrived = make([]int32, len(c.Reqs)+1)
	for i, q := range c.Reqs {
		k := i + 1
		r.ids[k] = graphsync.NewRequestID()
		r.byID[r.ids[k]] = k
		r.rgate[k] = newGate(q.RespGate)
		r.qgate[k] = newGate(q.ReqGate)
		r.sgate[k] = newGate(q.SentGate)
		d := saltedChain(q.Len, k)
		for _, b := range d.Blocks {
			w.Nodes[q.To].Store.Put(cidlink.Link{Cid: b.Cid}, b.Data)
		}
		r.instID[instKey{q.From, false}] = append(r.instID[instKey{q.From, false}], k)
		r.instID[instKey{q.To, true}] = append(r.instID[instKey{q.To, true}], k)
	}
	for n := 0; n < nNodes; n++ {
		for _, resp := range []bool{false, true} {
			if len(r.instID[instKey{n, resp}]) > 0 {
				r.insts = append(r.insts, instKey{n, resp})
			}
		}
	}
	for n := 0; n < nNodes; n++ {
		opts := []gsimpl.Option{
			gsimpl.MaxInProgressOutgoingRequests(uint64(c.Workers[n][0])),
			gsimpl.MaxInProgressIncomingRequests(uint64(c.Workers[n][1])),
		}
		if c.PerPeer[n] > 0 {
			opts = append(opts, gsimpl.MaxInProgressIncomingRequestsPerPeer(uint64(c.PerPeer[n])))
		}
		g := w.Start(n, opts...).(*gsimpl.GraphSync)
		r.gs = append(r.gs, g)
		g.RegisterIncomingRequestHook(func(p peer.ID, rd graphsync.RequestData, ha graphsync.IncomingRequestHookActions) {
			k, ok := r.byID[rd.ID()]
			if !ok {
				return
			}
			atomic.AddInt32(&r.arrived[k], 1)
			switch c.Reqs[k-1].RespHook {
			case "ok":
				ha.ValidateRequest()
			case "pause":
				ha.ValidateRequest()
				ha.PauseResponse()
			case "reject":
				// not validated: prepareQuery fails, RequestRejected is queued, CompletingSend
			}
		})
		g.RegisterOutgoingBlockHook(func(p peer.ID, rd graphsync.RequestData, bd graphsync.BlockData, ha graphsync.OutgoingBlockHookActions) {
			k, ok := r.byID[rd.ID()]
			if !ok {
				return
			}
			switch r.rgate[k].pass(r.done) {
			case "pause":
				ha.PauseResponse()
			case "err":
				ha.TerminateWithError(errors.New("responder hook error"))
			}
		})
		g.RegisterBlockSentListener(func(p peer.ID, rd graphsync.RequestData, bd graphsync.BlockData) {
			// runs on the message queue's notification path, before TerminateRequest for a final
			// status carried by the same message
			if k, ok := r.byID[rd.ID()]; ok {
				r.sgate[k].pass(r.done)
			}
		})
		g.RegisterIncomingBlockHook(func(p peer.ID, rd graphsync.ResponseData, bd graphsync.BlockData, ha graphsync.IncomingBlockHookActions) {
			k, ok := r.byID[rd.RequestID()]
			if !ok {
				return
			}
			switch r.qgate[k].pass(r.done) {
			case "pause":
				ha.PauseRequest()
			case "err":
				ha.TerminateWithError(errors.New("requestor hook error"))
			}
		})
	}
	return nil
}

func (r *runner) close() {
	close(r.done)
	for _, g := range r.rgate[1:] {
		g.allow(-1)
	}
	for _, g := range r.qgate[1:] {
		g.allow(-1)
	}
	for _, g := range r.sgate[1:] {
		g.allow(-1)
	}
	for _, cf := range r.cancel {
		if cf != nil {
			cf()
		}
	}
	r.w.Close()
}

// collect takes one observation: PeerState of every other peer on every node
func (r *runner) collect() *observation {
	o := &observation{seen: map[instKey][][2]int{}, diag: map[instKey][][2]int{}, stats: map[instKey][2]int{}}
	for n := 0; n < nNodes; n++ {
		st := map[bool]map[int]int{false: {}, true: {}}
		qc := map[bool]map[int]int{false: {}, true: {}}
		dg := map[bool][][2]int{}
		for m := 0; m < nNodes; m++ {
			if m == n {
				continue
			}
			ps := r.gs[n].PeerState(r.w.Nodes[m].ID())
			for _, side := range []bool{false, true} {
				var p peerstate.PeerState
				if side {
					p = ps.IncomingState
				} else {
					p = ps.OutgoingState
				}
				for id, s := range p.RequestStates {
					k, ok := r.byID[id]
					if !ok {
						r.bad = append(r.bad, "unknown request id in RequestStates")
						continue
					}
					st[side][k] = stateCode(s)
				}
				for _, id := range p.TaskQueueState.Pending {
					k, ok := r.byID[id]
					if !ok {
						r.bad = append(r.bad, "unknown request id in pending topics")
						continue
					}
					qc[side][k] |= 1
				}
				for _, id := range p.TaskQueueState.Active {
					k, ok := r.byID[id]
					if !ok {
						r.bad = append(r.bad, "unknown request id in active topics")
						continue
					}
					qc[side][k] |= 2
				}
				for id, msgs := range p.Diagnostics() {
					k := r.byID[id]
					for _, m := range msgs {
						dg[side] = append(dg[side], [2]int{k, diagKind(m)})
					}
				}
			}
		}
		gst := r.gs[n].Stats()
		for _, side := range []bool{false, true} {
			ik := instKey{n, side}
			ids := r.instID[ik]
			if len(ids) == 0 {
				continue
			}
			row := make([][2]int, len(ids))
			for i, k := range ids {
				row[i] = [2]int{st[side][k], qc[side][k]}
			}
			o.seen[ik] = row
			d := dg[side]
			sort.Slice(d, func(i, j int) bool { return d[i][0] < d[j][0] || (d[i][0] == d[j][0] && d[i][1] < d[j][1]) })
			o.diag[ik] = d
			if side {
				o.stats[ik] = [2]int{int(gst.IncomingRequests.Active), int(gst.IncomingRequests.Pending)}
			} else {
				o.stats[ik] = [2]int{int(gst.OutgoingRequests.Active), int(gst.OutgoingRequests.Pending)}
			}
		}
	}
	return o
}

// consistent is the Go-side copy of the monitor, used only to decide how long to keep waiting:
// responder directions show no diagnostics at all, requestor directions nothing but pending
// tasks of requests no longer tracked
func (o *observation) consistent() bool {
	for ik, d := range o.diag {
		for _, e := range d {
			if ik.resp || e[1] != 4 {
				return false
			}
		}
	}
	return true
}

const (
	stableRounds  = 8
	roundGap      = 400 * time.Microsecond
	settleMax     = 4 * time.Second
	stableFor     = 5 * time.Millisecond
	persistFor    = 300 * time.Millisecond
	persistRounds = 120
)

// settle waits until the observation is consistent and unchanged over stableRounds consecutive
// barrier rounds.  An observation that is unchanged but NOT consistent is given persistFor (and at
// least persistRounds barrier rounds) to resolve: the only transient discrepancies are a worker
// between its queue operation and the message it sends to the actor loop (a few instructions; once
// the message is in the mailbox the next barrier is behind it), so one that stays that long with
// nothing moving is what the monitor is there to report.  When the deadline passes with the
// observation still changing (or the extra condition unmet) the last observation is returned.
func (r *runner) settle(extra func(*observation) bool) *observation {
	start := time.Now()
	deadline := start.Add(settleMax)
	var last *observation
	same, sameBad := 0, 0
	var badSince, sameSince time.Time
	for {
		o := r.collect()
		eq := last != nil && o.equal(last)
		if eq && o.consistent() && (extra == nil || extra(o)) {
			if same == 0 {
				sameSince = time.Now()
			}
			same++
		} else {
			same = 0
		}
		if eq && !o.consistent() {
			if sameBad == 0 {
				badSince = time.Now()
			}
			sameBad++
		} else {
			sameBad = 0
		}
		last = o
		if same >= stableRounds && time.Since(sameSince) >= stableFor {
			return o
		}
		if sameBad >= persistRounds && time.Since(badSince) >= persistFor {
			r.persist = true
			return o
		}
		if time.Now().After(deadline) {
			r.expire = true
			return o
		}
		runtime.Gosched()
		time.Sleep(roundGap)
	}
}

func (r *runner) record(o *observation) {
	r.obs = append(r.obs, o)
	at := map[instKey]int{}
	for _, ik := range r.insts {
		at[ik] = len(r.perm[ik])
	}
	r.permAt = append(r.permAt, at)
}

// capExceeded returns the first observation at which some peer has more than cap active topics in
// the incoming queue of ik's node (-1 if none), the peer's node and the count
func (r *runner) capExceeded(ik instKey, cap int) (int, int, int) {
	for i, o := range r.obs {
		perPeer := map[int]int{}
		for j, k := range r.instID[ik] {
			if o.seen[ik][j][1]&2 != 0 {
				perPeer[r.c.Reqs[k-1].From]++
			}
		}
		for m := 0; m < nNodes; m++ {
			if perPeer[m] > cap {
				return i, m, perPeer[m]
			}
		}
	}
	return -1, 0, 0
}

// bounded wait for an API call that may legitimately block (requestor Cancel waits for the worker)
func bounded(f func()) {
	ch := make(chan struct{})
	go func() { f(); close(ch) }()
	select {
	case <-ch:
	case <-time.After(30 * time.Millisecond):
	}
}

func (r *runner) retiredAtResponder(k int) func(*observation) bool {
	q := r.c.Reqs[k-1]
	ik := instKey{q.To, true}
	idx := -1
	for i, kk := range r.instID[ik] {
		if kk == k {
			idx = i
		}
	}
	return func(o *observation) bool {
		row := o.seen[ik]
		return idx < 0 || (row[idx][0] == 0 && row[idx][1] == 0)
	}
}

func (r *runner) apply(o op) {
	k := o.K
	if k < 1 || k > len(r.c.Reqs) {
		return
	}
	q := r.c.Reqs[k-1]
	out := instKey{q.From, false}
	in := instKey{q.To, true}
	id := r.ids[k]
	bg := context.Background()
	switch o.Kind {
	case "start":
		if r.cancel[k] != nil {
			return
		}
		ctx, cf := context.WithCancel(context.WithValue(r.w.Ctx, graphsync.RequestIDContextKey{}, id))
		r.cancel[k] = cf
		r.grant(out, k, "QNew")
		r.grant(out, k, "WEnd OCancelled")
		r.grant(out, k, "QEnd")
		r.grant(in, k, "RNew "+newresOf(q.RespHook))
		r.grant(in, k, "WEnd OFinished")
		d := saltedChain(q.Len, k)
		prog, errs := r.gs[q.From].Request(ctx, r.w.Nodes[q.To].ID(), d.Root(), dag.AllSelector())
		go func() {
			for prog != nil || errs != nil {
				select {
				case _, ok := <-prog:
					if !ok {
						prog = nil
					}
				case _, ok := <-errs:
					if !ok {
						errs = nil
					}
				}
			}
		}()
	case "reqCancelCtx":
		r.grant(in, k, "RCancel")
		r.grant(in, k, "WEnd OCancelled")
		if r.cancel[k] != nil {
			r.cancel[k]()
		}
	case "reqCancelApi":
		r.grant(in, k, "RCancel")
		r.grant(in, k, "WEnd OCancelled")
		bounded(func() { _ = r.gs[q.From].Cancel(bg, id) })
	case "reqPause":
		r.grant(out, k, "WEnd OPaused")
		r.grant(in, k, "RCancel")
		r.grant(in, k, "WEnd OCancelled")
		_ = r.gs[q.From].Pause(bg, id)
	case "reqUnpause", "reqUnpauseRace":
		r.grant(out, k, "QUnpause")
		if o.Kind == "reqUnpause" {
			// the executor re-sends the request under the same id: when the request really is paused,
			// let the responder retire the cancelled incarnation first (finding C23-F1 is the race
			// without this)
			cur := r.collect()
			paused := false
			for i, kk := range r.instID[out] {
				if kk == k && cur.seen[out][i][0] == 3 {
					paused = true
				}
			}
			if paused {
				r.rgate[k].allow(-1)
				e, p := r.expire, r.persist
				r.settle(r.retiredAtResponder(k))
				r.expire, r.persist = e, p
			}
		}
		_ = r.gs[q.From].Unpause(bg, id)
	case "respPause":
		r.grant(in, k, "WEnd OPaused")
		_ = r.gs[q.To].Pause(bg, id)
	case "respUnpause":
		r.grant(in, k, "RUnpause")
		_ = r.gs[q.To].Unpause(bg, id)
	case "respCancel":
		r.grant(in, k, "RAbort")
		_ = r.gs[q.To].Cancel(bg, id)
	case "disconnect":
		// cut the link between the two peers of request k: the responder's sends fail from now on
		// (message queue error -> CloseWithNetworkError for every response to that peer)
		for kk := 1; kk <= len(r.c.Reqs); kk++ {
			qq := r.c.Reqs[kk-1]
			if (qq.From == q.From && qq.To == q.To) || (qq.From == q.To && qq.To == q.From) {
				r.grant(instKey{qq.To, true}, kk, "RNetErr")
				r.grant(instKey{qq.To, true}, kk, "WEnd ONetErr")
			}
		}
		a, b := r.w.Nodes[q.From].ID(), r.w.Nodes[q.To].ID()
		_ = r.w.MN.UnlinkPeers(a, b)
		_ = r.w.MN.DisconnectPeers(a, b)
	case "respAllow":
		r.rgate[k].allow(o.N)
	case "reqAllow":
		r.qgate[k].allow(o.N)
	case "sentAllow":
		r.sgate[k].allow(o.N)
	case "respClose":
		r.rgate[k].drain()
	case "reqClose":
		r.qgate[k].drain()
	case "awaitReqState", "awaitRespState":
		// progress wait used by directed corpus cases (coverage only, never a verdict): up to 2 s for
		// request k to be reported in state code N on the requestor / responder
		ik := out
		if o.Kind == "awaitRespState" {
			ik = in
		}
		deadline := time.Now().Add(2 * time.Second)
		for time.Now().Before(deadline) {
			cur := r.collect()
			hit := false
			for i, kk := range r.instID[ik] {
				if kk == k && cur.seen[ik][i][0] == o.N {
					hit = true
				}
			}
			if hit {
				break
			}
			time.Sleep(roundGap)
		}
	case "respHookPause":
		r.grant(in, k, "WEnd OPaused")
		r.rgate[k].setNext("pause")
	case "respHookErr":
		r.rgate[k].setNext("err")
	case "reqHookPause":
		r.grant(out, k, "WEnd OPaused")
		r.grant(in, k, "RCancel")
		r.grant(in, k, "WEnd OCancelled")
		r.qgate[k].setNext("pause")
	case "reqHookErr":
		r.grant(in, k, "RCancel")
		r.grant(in, k, "WEnd OCancelled")
		r.qgate[k].setNext("err")
	}
}

// finish ends everything: open every gate, cancel every request on both sides, wait until no
// request is tracked anywhere and the queues report nothing, then take the last observation
func (r *runner) finish() (ended bool) {
	bg := context.Background()
	for k := 1; k <= len(r.c.Reqs); k++ {
		q := r.c.Reqs[k-1]
		out := instKey{q.From, false}
		in := instKey{q.To, true}
		r.grant(in, k, "RCancel")
		r.grant(in, k, "WEnd OCancelled")
		r.grant(in, k, "RAbort")
		r.grant(out, k, "QEnd")
		r.rgate[k].setNext("")
		r.qgate[k].setNext("")
		r.rgate[k].allow(-1)
		r.qgate[k].allow(-1)
		r.sgate[k].allow(-1)
		if r.cancel[k] != nil {
			r.cancel[k]()
		}
	}
	// requests cancelled by the requestor reach the responder as cancel messages; a response whose
	// requestor is already gone (finished or never started) is cancelled by the responder itself
	e := r.expire
	r.settle(nil)
	for k := 1; k <= len(r.c.Reqs); k++ {
		q := r.c.Reqs[k-1]
		_ = r.gs[q.To].Cancel(bg, r.ids[k])
	}
	r.expire = e
	o := r.settle(func(o *observation) bool {
		for _, row := range o.seen {
			for _, e := range row {
				if e[0] != 0 || e[1] != 0 {
					return false
				}
			}
		}
		for _, s := range o.stats {
			if s[0] != 0 || s[1] != 0 {
				return false
			}
		}
		return true
	})
	ended = true
	for _, row := range o.seen {
		for _, e := range row {
			if e[0] != 0 {
				ended = false
			}
		}
	}
	r.record(o)
	return ended
}

// progress wait (coverage only, never a verdict): after an op that makes the requestor's executor
// (re)send request k, give the message time to reach the responder's request hook, unless the
// request is not executing at the requestor
func (r *runner) awaitArrival(k int, before int32) {
	q := r.c.Reqs[k-1]
	out := instKey{q.From, false}
	deadline := time.Now().Add(400 * time.Millisecond)
	for time.Now().Before(deadline) {
		if atomic.LoadInt32(&r.arrived[k]) > before {
			return
		}
		cur := r.collect()
		for i, kk := range r.instID[out] {
			if kk == k && cur.seen[out][i][0] != 2 {
				return
			}
		}
		time.Sleep(roundGap)
	}
}

func runCase(c qcase) (*runner, bool, error) {
	r := &runner{c: c}
	if err := r.setup(); err != nil {
		return nil, false, err
	}
	defer r.close()
	for _, o := range c.Ops {
		var before int32
		if o.K >= 1 && o.K <= len(c.Reqs) {
			before = atomic.LoadInt32(&r.arrived[o.K])
		}
		r.apply(o)
		if o.Kind == "start" || o.Kind == "reqUnpause" || o.Kind == "reqUnpauseRace" {
			r.awaitArrival(o.K, before)
		}
		r.record(r.settle(nil))
	}
	ended := r.finish()
	return r, ended, nil
}

// ---------- output ----------

const header = `From Coq Require Import List NArith Bool.
From GS Require Import Base StateQueue.
Import ListNotations.
Open Scope N_scope.
`

func pairList(xs [][2]int) string {
	s := make([]string, len(xs))
	for i, x := range xs {
		s[i] = fmt.Sprintf("(%d, %d)", x[0], x[1])
	}
	return cw.List(s)
}

func (r *runner) term(ik instKey, ended bool) string {
	ids := r.instID[ik]
	idl := make([]uint64, len(ids))
	for i, k := range ids {
		idl[i] = uint64(k)
	}
	nw := r.c.Workers[ik.node][0]
	if ik.resp {
		nw = r.c.Workers[ik.node][1]
	}
	var obs, diags []string
	var stats [][2]int
	prev := 0
	for i, o := range r.obs {
		obs = append(obs, fmt.Sprintf("mkobs %s %s", cw.List(r.perm[ik][prev:r.permAt[i][ik]]), pairList(o.seen[ik])))
		prev = r.permAt[i][ik]
		diags = append(diags, pairList(o.diag[ik]))
		stats = append(stats, o.stats[ik])
	}
	return fmt.Sprintf("mksq %s %d %s\n    %s\n    %s %s %s", cw.Bool(ik.resp), nw, cw.NList(idl),
		cw.List(obs), cw.List(diags), pairList(stats), cw.Bool(ended))
}

// ---------- generation ----------

func genCase(r *rng.R, thorough bool) qcase {
	var c qcase
	for n := 0; n < nNodes; n++ {
		c.Workers[n] = [2]int{r.Range(1, 2), r.Range(1, 2)}
		if r.P(1, 4) {
			c.PerPeer[n] = 1
		}
	}
	nreq := r.Range(2, 4)
	if thorough && r.P(1, 3) {
		nreq = 5
	}
	// most requests go from node 0 to node 1 so that queues fill; the rest involve the third peer
	for i := 0; i < nreq; i++ {
		q := reqSpec{From: 0, To: 1, Len: r.Range(2, 4), RespHook: "ok", RespGate: -1, ReqGate: -1, SentGate: -1}
		switch r.Intn(6) {
		case 0:
			q.From, q.To = 2, 1
		case 1:
			q.From, q.To = 0, 2
		case 2:
			if r.Bool() {
				q.From, q.To = 1, 0
			}
		}
		switch r.Intn(8) {
		case 0:
			q.RespHook = "pause"
		case 1:
			q.RespHook = "reject"
		}
		if r.P(3, 4) {
			q.RespGate = r.Range(0, 2)
		}
		if r.P(1, 3) {
			q.ReqGate = r.Range(0, 2)
		}
		if r.P(1, 3) {
			q.SentGate = r.Range(0, 1)
		}
		c.Reqs = append(c.Reqs, q)
	}
	started := make([]bool, nreq+1)
	budget := r.Range(7, 15)
	singles := []string{"reqCancelCtx", "reqCancelApi", "reqPause", "reqUnpause", "respPause", "respUnpause", "respCancel",
		"respAllow", "respAllow", "respAllow", "reqAllow", "reqAllow", "sentAllow", "respHookPause", "respHookErr", "reqHookPause", "reqHookErr",
		"respUnpause", "reqUnpause"}
	tok := func() int {
		if r.P(1, 3) {
			return -1
		}
		return r.Range(1, 3)
	}
	add := func(kind string, k, n int) { c.Ops = append(c.Ops, op{Kind: kind, K: k, N: n}) }
	for len(c.Ops) < budget {
		// start the not yet started requests early, in order
		var unstarted []int
		for k := 1; k <= nreq; k++ {
			if !started[k] {
				unstarted = append(unstarted, k)
			}
		}
		if len(unstarted) > 0 && (len(c.Ops) < 2 || r.P(1, 2)) {
			k := unstarted[0]
			started[k] = true
			add("start", k, 0)
			continue
		}
		k := r.Range(1, nreq)
		switch r.Intn(12) {
		case 0: // requestor pause cycle through its block hook
			add("reqHookPause", k, 0)
			add("respAllow", k, 1)
			add("reqAllow", k, 1)
			add("reqUnpause", k, 0)
		case 1: // requestor pause cycle through the API
			add("reqPause", k, 0)
			add("respAllow", k, 1)
			add("reqAllow", k, 1)
			add("reqUnpause", k, 0)
		case 2: // responder pause cycle through its block hook
			add("respHookPause", k, 0)
			add("respAllow", k, 1)
			add("respUnpause", k, 0)
		case 3: // responder pause cycle through the API
			add("respPause", k, 0)
			add("respAllow", k, 1)
			add("respUnpause", k, 0)
		case 4: // run to the end with the final notification held, then let it go
			add("respAllow", k, -1)
			add("reqAllow", k, -1)
			add("sentAllow", k, -1)
		case 5:
			if r.P(1, 4) {
				add("disconnect", k, 0)
				break
			}
			fallthrough
		default:
			kind := rng.Pick(r, singles)
			n := 0
			if kind == "respAllow" || kind == "reqAllow" || kind == "sentAllow" {
				n = tok()
			}
			add(kind, k, n)
		}
	}
	return c
}

// directedResume builds the family "pause -> (the responder retires the old incarnation) -> unpause
// -> hold the resumed run at a gate -> observe -> release -> finish": while the resumed request is
// held, both nodes must report it running with its topic active.
//
//	who: "reqApi" | "reqHook" (requestor Pause / incoming-block hook) | "respApi" | "respHook"
func directedResume(who string, workers int) qcase {
	var c qcase
	for n := 0; n < nNodes; n++ {
		c.Workers[n] = [2]int{workers, workers}
	}
	o := func(kind string, n int) { c.Ops = append(c.Ops, op{Kind: kind, K: 1, N: n}) }
	switch who {
	case "reqApi", "reqHook":
		c.Reqs = []reqSpec{{From: 0, To: 1, Len: 5, RespHook: "ok", RespGate: 2, ReqGate: 0, SentGate: -1}}
		o("start", 0)
		o("awaitRespState", 2)
		if who == "reqApi" {
			o("reqPause", 0)
		} else {
			o("reqHookPause", 0)
		}
		o("reqAllow", 1) // the hook of block 1 returns: the pause is noticed, the executor sends a cancel
		o("awaitReqState", 3)
		o("reqUnpause", 0) // waits for the responder to retire the cancelled incarnation
		o("awaitReqState", 2)
		o("respClose", 0) // resumed run: held at the requestor's hook of the (now local) first block
		o("reqAllow", 1)  // first block passes; the next one is missing: the request is sent again
		o("awaitRespState", 2)
		o("respAllow", 1) // responder now held at its second outgoing-block hook, requestor at its next hook
		o("respAllow", -1)
		o("reqAllow", -1)
	case "respApi", "respHook":
		c.Reqs = []reqSpec{{From: 0, To: 1, Len: 6, RespHook: "ok", RespGate: 1, ReqGate: -1, SentGate: -1}}
		o("start", 0)
		o("awaitRespState", 2)
		if who == "respApi" {
			o("respPause", 0)
			o("respAllow", 2) // hook of block 2 returns; block 3's transaction reads the pause signal and still runs its hook
		} else {
			o("respHookPause", 0)
			o("respAllow", 1) // hook of block 2 pauses
		}
		o("awaitRespState", 3)
		o("respClose", 0)
		o("respUnpause", 0) // queued again, popped, held at the next outgoing-block hook
		o("awaitRespState", 2)
		o("respAllow", 1)
		o("respAllow", -1)
	}
	if workers == 2 {
		// a second request of the same pair, held at its first block on the responder all along
		c.Reqs = append(c.Reqs, reqSpec{From: 0, To: 1, Len: 3, RespHook: "ok", RespGate: 0, ReqGate: -1, SentGate: -1})
		c.Ops = append([]op{{Kind: "start", K: 2}, {Kind: "awaitRespState", K: 2, N: 2}}, c.Ops...)
		c.Ops = append(c.Ops, op{Kind: "respAllow", K: 2, N: -1})
	}
	return c
}

// directedQueuedEnd builds the family "every incoming worker of node 1 is held at its outgoing-block
// gate, request B (from node 0) and request C (from node 2) are seen Queued/pending behind them, then B
// is ended while queued -> observe -> release -> finish".  B must leave the table (or stay Queued <=>
// pending) at every observation.
//
//	how: "respCancel" (responder's own Cancel) | "reqCancelCtx" | "reqCancelApi" (requestor cancels)
//	     | "unpauseThenCancel" (B paused by its request hook, unpaused -> Queued, cancelled before it is popped)
//	     | "pauseThenCancel"   (responder Pause on the queued B -- a signal only -- then Cancel)
func directedQueuedEnd(how string, workers int) qcase {
	var c qcase
	for n := 0; n < nNodes; n++ {
		c.Workers[n] = [2]int{4, 1}
	}
	c.Workers[1][1] = workers
	add := func(kind string, k, n int) { c.Ops = append(c.Ops, op{Kind: kind, K: k, N: n}) }
	// the held requests, one per worker
	for i := 0; i < workers; i++ {
		c.Reqs = append(c.Reqs, reqSpec{From: 0, To: 1, Len: 3, RespHook: "ok", RespGate: 0, ReqGate: -1, SentGate: -1})
		add("start", i+1, 0)
		add("awaitRespState", i+1, 2)
	}
	b, cc := workers+1, workers+2
	bq := reqSpec{From: 0, To: 1, Len: 3, RespHook: "ok", RespGate: -1, ReqGate: -1, SentGate: -1}
	if how == "unpauseThenCancel" {
		bq.RespHook = "pause"
	}
	c.Reqs = append(c.Reqs, bq, reqSpec{From: 2, To: 1, Len: 2, RespHook: "ok", RespGate: -1, ReqGate: -1, SentGate: -1})
	add("start", b, 0)
	if how == "unpauseThenCancel" {
		add("awaitRespState", b, 3)
		add("respUnpause", b, 0)
	}
	add("awaitRespState", b, 1)
	add("start", cc, 0)
	add("awaitRespState", cc, 1)
	switch how {
	case "respCancel", "unpauseThenCancel":
		add("respCancel", b, 0)
	case "pauseThenCancel":
		add("respPause", b, 0)
		add("respCancel", b, 0)
	case "reqCancelCtx":
		add("reqCancelCtx", b, 0)
	case "reqCancelApi":
		add("reqCancelApi", b, 0)
	}
	add("respCancel", cc, 0) // the other peer's queued response too
	for i := 0; i < workers; i++ {
		add("respAllow", i+1, -1)
	}
	return c
}

// directedPeerCap builds the family "per-peer limit 1 on node 1, more workers than that; request A of
// peer node 0 is paused (request hook / API / never: the control), resumed and held at its
// outgoing-block gate while running; request B of the same peer arrives (its gate closed, so that it
// would be seen held if it were popped): B must stay Queued/pending while A is active; release; finish".
func directedPeerCap(how string, workers int) qcase {
	var c qcase
	for n := 0; n < nNodes; n++ {
		c.Workers[n] = [2]int{4, 1}
	}
	c.Workers[1][1] = workers
	c.PerPeer[1] = 1
	add := func(kind string, k, n int) { c.Ops = append(c.Ops, op{Kind: kind, K: k, N: n}) }
	a := reqSpec{From: 0, To: 1, Len: 6, RespHook: "ok", RespGate: 0, ReqGate: -1, SentGate: -1}
	switch how {
	case "hook":
		a.RespHook = "pause"
		c.Reqs = []reqSpec{a}
		add("start", 1, 0)
		add("awaitRespState", 1, 3)
		add("respUnpause", 1, 0)
	case "api":
		a.RespGate = 1
		c.Reqs = []reqSpec{a}
		add("start", 1, 0)
		add("awaitRespState", 1, 2)
		add("respPause", 1, 0)
		add("respAllow", 1, 2)
		add("awaitRespState", 1, 3)
		add("respClose", 1, 0)
		add("respUnpause", 1, 0)
	default: // "never"
		c.Reqs = []reqSpec{a}
		add("start", 1, 0)
	}
	add("awaitRespState", 1, 2) // A running, held at its gate
	c.Reqs = append(c.Reqs, reqSpec{From: 0, To: 1, Len: 3, RespHook: "ok", RespGate: 0, ReqGate: -1, SentGate: -1},
		reqSpec{From: 2, To: 1, Len: 2, RespHook: "ok", RespGate: 0, ReqGate: -1, SentGate: -1})
	add("start", 2, 0)          // same peer: must wait behind A
	add("start", 3, 0)          // another peer: may run (an idle worker exists)
	add("awaitRespState", 3, 2) // ... and does
	add("respAllow", 3, -1)
	add("respAllow", 1, 1) // A one block further, B still behind it
	add("respAllow", 1, -1)
	add("respAllow", 2, -1)
	return c
}

func tagsOf(c qcase) []string {
	seen := map[string]bool{}
	var t []string
	add := func(s string) {
		if !seen[s] {
			seen[s] = true
			t = append(t, s)
		}
	}
	for _, o := range c.Ops {
		add("op:" + o.Kind)
	}
	for _, q := range c.Reqs {
		add("hook:" + q.RespHook)
	}
	return t
}

func run(c *drv.Ctx) error {
	w := cw.New(c.Out, header, "sqcase", []cw.Check{{Name: "MON23", Fn: "sq_monitor"}, {Name: "MISMATCH", Fn: "sq_case_ok"}})
	w.Stats.Rule = "three real GraphSync instances over the libp2p mocknet, 1-2 workers per queue, 2-5 requests over distinct chain DAGs, " +
		"random histories of pause/unpause/cancel (API, context, hooks) on both sides, rejections and hook errors, block hooks as gates; " +
		"one Coq case per node and direction: the quiescent observations after every operation (states, queue topics, Diagnostics, Stats) and the labels permitted so far; " +
		"non-trivial = some observation shows a queued+pending, paused or completing request; distinct = distinct terms"
	w.ShardSize = 40
	seenStates := map[string]int{}
	doCase := func(qc qcase, kind string) error {
		qc.Tags = nil
		var r *runner
		var ended bool
		var err error
		for attempt := 0; attempt < 2; attempt++ {
			r, ended, err = runCase(qc)
			if err != nil {
				return err
			}
			if !r.expire && !r.persist {
				break
			}
			// a wait expired (loaded machine, or a discrepancy that persists): run the case once more
		}
		tags := append(tagsOf(qc), "kind:"+kind)
		if r.expire {
			tags = append(tags, "settle-expired")
		}
		if r.persist {
			tags = append(tags, "persistent-discrepancy")
		}
		if !ended {
			tags = append(tags, "not-all-ended")
		}
		for _, ik := range r.insts {
			nontrivial := false
			for _, o := range r.obs {
				for _, e := range o.seen[ik] {
					if e[0] == 1 || e[0] == 3 || e[0] == 4 {
						nontrivial = true
					}
					seenStates[fmt.Sprintf("seen:state%d-queue%d", e[0], e[1])]++
				}
			}
			js := qc
			js.Tags = append([]string(nil), tags...)
			// finding C23-F1 is about the RESPONDER of a request whose requestor raced its unpause: only
			// that node's incoming direction may be attributed to it (derived from the input: the op
			// and which request it names); a failure anywhere else in the same case is reported
			for _, o := range qc.Ops {
				if o.Kind == "reqUnpauseRace" && o.K >= 1 && o.K <= len(qc.Reqs) && ik.resp && qc.Reqs[o.K-1].To == ik.node {
					js.Tags = append(js.Tags, "id-reuse-before-retired")
					break
				}
			}
			js.Inst = fmt.Sprintf("node%d-%s", ik.node, map[bool]string{false: "outgoing", true: "incoming"}[ik.resp])
			idx := w.Add(r.term(ik, ended), js, nontrivial, append([]string{"side:" + map[bool]string{false: "requestor", true: "responder"}[ik.resp]}, js.Tags...)...)
			for _, b := range r.bad {
				w.Violation(idx, b, "unknown-id")
			}
			// observation-level clause (the Coq model leaves pops free and has no per-peer limit): with
			// MaxInProgressIncomingRequestsPerPeer = c configured on this node, no peer ever has more than
			// c ACTIVE topics in the incoming queue (every task graphsync pushes has Work 1, and PopTasks
			// refuses a peer whose active work has reached the limit); holds in every state, quiescent or not
			if cap := qc.PerPeer[ik.node]; ik.resp && cap > 0 {
				if at, peerN, n := r.capExceeded(ik, cap); at >= 0 {
					w.Violation(idx, fmt.Sprintf("per-peer limit %d exceeded: node %d has %d active topics for peer node %d at observation %d", cap, ik.node, n, peerN, at), "per-peer-cap")
					w.Stats.Distribution["go:per-peer-cap"]++
				}
			}
		}
		return nil
	}
	if c.Replay != "" {
		var qc qcase
		if err := drv.ReplayCase(c.Replay, &qc); err != nil {
			return err
		}
		if err := doCase(qc, "replay"); err != nil {
			return err
		}
		return w.Flush()
	}
	for _, f := range c.CorpusFiles("quiesce") {
		var qc qcase
		if err := drv.ReadJSON(f, &qc); err != nil {
			return err
		}
		if err := doCase(qc, "corpus"); err != nil {
			return err
		}
	}
	// directed family (both tiers): resumed runs held at a gate, every way of pausing, 2 workers
	// (the 1-worker variants are corpus cases)
	for _, who := range []string{"reqApi", "reqHook", "respApi", "respHook"} {
		if err := doCase(directedResume(who, 2), "directed"); err != nil {
			return err
		}
	}
	// directed family (both tiers): a queued response ended behind held workers, 2 workers
	// (the 1-worker variants are corpus cases)
	for _, how := range []string{"respCancel", "unpauseThenCancel", "pauseThenCancel", "reqCancelCtx", "reqCancelApi"} {
		if err := doCase(directedQueuedEnd(how, 2), "directed"); err != nil {
			return err
		}
	}
	// directed family (both tiers): per-peer limit with a resumed response, 3 workers (2-worker variants
	// are corpus cases)
	for _, how := range []string{"hook", "api", "never"} {
		if err := doCase(directedPeerCap(how, 3), "directed"); err != nil {
			return err
		}
	}
	if os.Getenv("D_QUIESCE_DUMP") != "" {
		for _, how := range []string{"hook", "api", "never"} {
			b, _ := json.Marshal(directedPeerCap(how, 2))
			_ = os.WriteFile(os.Getenv("D_QUIESCE_DUMP")+"/peer_cap_"+how+".json", b, 0o644)
		}
		// write the 1-worker variants of the directed families as corpus files
		for _, how := range []string{"respCancel", "unpauseThenCancel", "pauseThenCancel", "reqCancelCtx", "reqCancelApi"} {
			b, _ := json.Marshal(directedQueuedEnd(how, 1))
			_ = os.WriteFile(os.Getenv("D_QUIESCE_DUMP")+"/queued_end_"+how+".json", b, 0o644)
		}
	}
	n := c.Count(48, 600)
	for i := 0; i < n; i++ {
		if err := doCase(genCase(c.R.Fork(), c.Thorough()), "generated"); err != nil {
			return err
		}
	}
	for k, v := range seenStates {
		w.Stats.Distribution[k] = v
	}
	return w.Flush()
}

func main() { drv.Main("quiesce", run) }
