// Command d_taskq is the driver of property C21: it drives the REAL taskqueue.WorkerTaskQueue over
// the real go-peertaskqueue, configured as impl/graphsync.go configures its two queues (incoming
// responses: MaxOutstandingWorkPerPeer when a per-peer limit is set; outgoing requests: no option),
// with an instrumented executor that blocks every task until the script releases it.
//
// Synchronisation is by condition, never by time: after every operation the driver waits until every
// worker goroutine is parked (in the select of taskqueue.worker, or inside the executor), which it
// reads off the goroutine stacks; the thaw ticker's channel is replaced through the verif hook
// VerifSetTickerChan, so a tick is an explicit operation handed to a waiting worker.
package main

import (
	"context"
	"fmt"
	"os"
	"runtime"
	"sort"
	"strings"
	"sync"
	"time"

	"github.com/ipfs/go-peertaskqueue"
	"github.com/ipfs/go-peertaskqueue/peertask"
	"github.com/ipfs/go-peertaskqueue/peertracker"
	"github.com/libp2p/go-libp2p/core/peer"

	"github.com/ipfs/go-graphsync/taskqueue"

	"verif/harness/internal/cw"
	"verif/harness/internal/drv"
	"verif/harness/internal/rng"
)

type op struct {
	K    string `json:"k"` // push | remove | release | tick
	P    uint64 `json:"p,omitempty"`
	T    uint64 `json:"t,omitempty"`
	Prio int64  `json:"prio,omitempty"`
}

// tqCase is the replayable input of one case: configuration and the operations, in order.
type tqCase struct {
	Kind     string   `json:"kind"` // random | lasso | control | corpus | replay
	W        int      `json:"w"`
	MaxPP    int      `json:"maxpp"`
	Peers    int      `json:"peers"`
	Flooders int      `json:"flooders,omitempty"` // directed cases: peers that keep submitting
	Keep     int      `json:"keep,omitempty"`     // directed cases: requests each flooder keeps queued
	Victim   int      `json:"victim,omitempty"`   // directed cases: requests the light peer submits (once)
	Rounds   int      `json:"rounds,omitempty"`
	After    bool     `json:"after,omitempty"` // directed cases: a flooder submits its next request only after one completed
	Ops      []op     `json:"ops"`
	Tags     []string `json:"tags,omitempty"`
}

type pt struct{ P, T uint64 }

type running struct {
	key pt
	ch  chan struct{}
}

// exec is the instrumented executor: records entries under its own lock, blocks until released,
// then calls TaskDone as graphsync's executors do through their managers, and returns.
type exec struct {
	mu      sync.Mutex
	tq      *taskqueue.WorkerTaskQueue
	starts  []pt
	running []running
}

func peerID(n uint64) peer.ID { return peer.ID(fmt.Sprintf("peer-%02d", n)) }
func peerNum(p peer.ID) uint64 {
	var n uint64
	fmt.Sscanf(string(p), "peer-%d", &n)
	return n
}

func (e *exec) ExecuteTask(ctx context.Context, pid peer.ID, task *peertask.Task) bool {
	k := pt{peerNum(pid), task.Topic.(uint64)}
	ch := make(chan struct{})
	e.mu.Lock()
	e.starts = append(e.starts, k)
	e.running = append(e.running, running{k, ch})
	e.mu.Unlock()
	<-ch
	e.tq.TaskDone(pid, task)
	return false
}

func (e *exec) release(k pt) bool {
	e.mu.Lock()
	defer e.mu.Unlock()
	for i, r := range e.running {
		if r.key == k {
			e.running = append(e.running[:i], e.running[i+1:]...)
			r.ch <- struct{}{}
			return true
		}
	}
	return false
}

func (e *exec) takeStarts() []pt {
	e.mu.Lock()
	defer e.mu.Unlock()
	s := e.starts
	e.starts = nil
	return s
}

func (e *exec) runningSet() []pt {
	e.mu.Lock()
	defer e.mu.Unlock()
	out := make([]pt, 0, len(e.running))
	for _, r := range e.running {
		out = append(out, r.key)
	}
	sort.Slice(out, func(i, j int) bool { return out[i].P < out[j].P || (out[i].P == out[j].P && out[i].T < out[j].T) })
	return out
}

type gState struct{ state, first, body string }

var stackBuf = make([]byte, 1<<18) // reused: cases run one at a time

func goroutineStates() []gState {
	buf := stackBuf
	n := runtime.Stack(buf, true)
	for n == len(buf) { // truncated: grow
		stackBuf = make([]byte, 2*len(buf))
		buf = stackBuf
		n = runtime.Stack(buf, true)
	}
	var out []gState
	for _, blk := range strings.Split(string(buf[:n]), "\n\n") {
		lines := strings.Split(blk, "\n")
		if len(lines) < 2 || !strings.HasPrefix(lines[0], "goroutine ") {
			continue
		}
		st := ""
		if i := strings.Index(lines[0], "["); i >= 0 {
			st = strings.TrimSuffix(strings.TrimSpace(lines[0][i+1:]), "]:")
			if j := strings.Index(st, ","); j >= 0 {
				st = st[:j]
			}
		}
		out = append(out, gState{state: st, first: lines[1], body: blk})
	}
	return out
}

const workerFn = "github.com/ipfs/go-graphsync/taskqueue.(*WorkerTaskQueue).worker"

// workerParking returns how many worker goroutines exist, how many are parked in the select of the
// loop, how many inside the executor, and whether any is doing something else.
func workerParking() (total, inSelect, inExec int, busy bool) {
	for _, g := range goroutineStates() {
		if !strings.Contains(g.body, workerFn) {
			continue
		}
		total++
		switch {
		case g.state == "select" && strings.HasPrefix(g.first, workerFn):
			inSelect++
		case g.state == "chan receive" && strings.HasPrefix(g.first, "main.(*exec).ExecuteTask"):
			inExec++
		default:
			busy = true
		}
	}
	return
}

type snapshot struct {
	exists  []bool
	pending [][]uint64
	active  [][]uint64
	running []pt
	stats   [3]uint64
}

type runner struct {
	c         *tqCase
	tq        *taskqueue.WorkerTaskQueue
	ex        *exec
	tick      chan time.Time
	cancel    func()
	hung      string
	snap      snapshot
	steps     []string
	contended int // starts that happened while two or more peers had requests queued
}

func sortedTopics(ts []peertask.Topic) []uint64 {
	out := make([]uint64, 0, len(ts))
	for _, t := range ts {
		out = append(out, t.(uint64))
	}
	sort.Slice(out, func(i, j int) bool { return out[i] < out[j] })
	return out
}

// settle waits until all W workers are parked and the executor's running set matches the number of
// workers parked inside it.
func (r *runner) settle() bool {
	deadline := time.Now().Add(10 * time.Second)
	for time.Now().Before(deadline) {
		total, inSel, inEx, busy := workerParking()
		if !busy && total == r.c.W && inSel+inEx == total && len(r.ex.runningSet()) == inEx {
			return true
		}
		runtime.Gosched()
	}
	return false
}

func (r *runner) takeSnapshot() snapshot {
	var s snapshot
	for p := 1; p <= r.c.Peers; p++ {
		var ex bool
		var pe, ac []uint64
		r.tq.WithPeerTopics(peerID(uint64(p)), func(t *peertracker.PeerTrackerTopics) {
			if t != nil {
				ex = true
				pe, ac = sortedTopics(t.Pending), sortedTopics(t.Active)
			}
		})
		s.exists = append(s.exists, ex)
		s.pending = append(s.pending, pe)
		s.active = append(s.active, ac)
	}
	s.running = r.ex.runningSet()
	st := r.tq.Stats()
	s.stats = [3]uint64{st.TotalPeers, st.Active, st.Pending}
	return s
}

// Terms are written as applications of fixed-arity helpers (X<n>, N<peers>) rather than list literals:
// Coq parses application arguments far faster than list elements.
func args(xs []uint64) string {
	var b strings.Builder
	for _, x := range xs {
		fmt.Fprintf(&b, " %d", x)
	}
	return b.String()
}

func ptFlat(xs []pt) string {
	if len(xs) > 3 {
		panic("more than three starts in one step")
	}
	f := make([]uint64, 0, 2*len(xs))
	for _, x := range xs {
		f = append(f, x.P, x.T)
	}
	if len(xs) == 0 {
		return "X0"
	}
	return fmt.Sprintf("(X%d%s)", len(xs), args(f))
}

func mask(ts []uint64) uint64 {
	var m uint64
	for _, t := range ts {
		if t > 62 {
			panic("topic too large for the bit-set encoding")
		}
		m |= 1 << t
	}
	return m
}

// term: per peer [2*pendingMask+exists; activeMask; executorRunningMask], then Stats()
func (s snapshot) term() string {
	var f []uint64
	for i := range s.exists {
		var e, rm uint64
		if s.exists[i] {
			e = 1
		}
		for _, k := range s.running {
			if k.P == uint64(i+1) {
				rm |= 1 << k.T
			}
		}
		f = append(f, 2*mask(s.pending[i])+e, mask(s.active[i]), rm)
	}
	f = append(f, s.stats[:]...)
	return fmt.Sprintf("(N%d%s)", len(s.exists), args(f))
}

func opTerm(o op) string {
	switch o.K {
	case "push":
		return fmt.Sprintf("(DPush %d %d %d)", o.P, o.T, o.Prio)
	case "remove":
		return fmt.Sprintf("(DRemove %d %d)", o.P, o.T)
	case "release":
		return fmt.Sprintf("(DRelease %d %d)", o.P, o.T)
	}
	return "DTick"
}

func newRunner(c *tqCase) *runner {
	ctx, cancel := context.WithCancel(context.Background())
	// as impl/graphsync.go New: the incoming-response queue gets MaxOutstandingWorkPerPeer only when a
	// per-peer limit is configured; the outgoing-request queue gets no option; neither sets IgnoreFreezing
	var opts []peertaskqueue.Option
	if c.MaxPP > 0 {
		opts = append(opts, peertaskqueue.MaxOutstandingWorkPerPeer(c.MaxPP))
	}
	tq := taskqueue.NewTaskQueue(ctx, opts...)
	r := &runner{c: c, tq: tq, tick: make(chan time.Time), cancel: cancel}
	tq.VerifSetTickerChan(r.tick)
	r.ex = &exec{tq: tq}
	tq.Startup(uint64(c.W), r.ex)
	if !r.settle() {
		r.hung = "workers did not come up"
	}
	r.snap = r.takeSnapshot()
	return r
}

// apply performs one operation on the real queue, waits for the workers to park, records the step
func (r *runner) apply(o op) {
	if r.hung != "" {
		return
	}
	switch o.K {
	case "push":
		r.tq.PushTask(peerID(o.P), peertask.Task{Topic: o.T, Priority: int(o.Prio), Work: 1})
	case "remove":
		r.tq.Remove(o.T, peerID(o.P))
	case "release":
		r.ex.release(pt{o.P, o.T}) // a release of something not running is recorded and rejected by the model
	case "tick":
		if r.c.W-len(r.snap.running) > 0 {
			select {
			case r.tick <- time.Now():
			case <-time.After(10 * time.Second):
				r.hung = "a waiting worker did not take the tick"
				return
			}
		}
	}
	if !r.settle() {
		r.hung = "workers did not park after " + o.K
		return
	}
	starts := r.ex.takeStarts()
	if len(starts) > 0 {
		q := 0
		for _, pe := range r.snap.pending {
			if len(pe) > 0 {
				q++
			}
		}
		if q >= 2 {
			r.contended++
		}
	}
	r.snap = r.takeSnapshot()
	r.c.Ops = append(r.c.Ops, o)
	r.steps = append(r.steps, fmt.Sprintf("S %s %s %s", opTerm(o), ptFlat(starts), r.snap.term()))
}

func (r *runner) waiting() int { return r.c.W - len(r.snap.running) }

// drain runs the history to completion: release everything, deliver ticks while something is
// pending and a worker waits.  Returns false when requests stay queued although nothing runs and
// repeated ticks change nothing (the queue is stuck).
func (r *runner) drain(rg *rng.R) bool {
	idleTicks := 0
	for i := 0; i < 2000 && r.hung == ""; i++ {
		if len(r.snap.running) > 0 {
			k := r.snap.running[rg.Intn(len(r.snap.running))]
			r.apply(op{K: "release", P: k.P, T: k.T})
			idleTicks = 0
			continue
		}
		if r.snap.stats[2] == 0 {
			return true
		}
		if idleTicks >= 12 {
			return false
		}
		before := r.snap.stats[2]
		r.apply(op{K: "tick"})
		if r.snap.stats[2] == before && len(r.snap.running) == 0 {
			idleTicks++
		}
	}
	return false
}

func (r *runner) close() {
	// release whatever still runs, stop the workers, wait until they are gone
	for _, k := range r.ex.runningSet() {
		r.ex.release(k)
	}
	r.cancel()
	for i := 0; i < 200000; i++ {
		if total, _, _, _ := workerParking(); total == 0 {
			return
		}
		// a worker that re-entered the executor after the cancellation must be let go too
		for _, k := range r.ex.runningSet() {
			r.ex.release(k)
		}
		time.Sleep(50 * time.Microsecond)
	}
}

// ---- generators -------------------------------------------------------------------------------

var prios = []int64{0, 0, 1, 2, 5, 2147483647}

func genRandom(rg *rng.R, r *runner, nops int) {
	c := r.c
	for i := 0; i < nops && r.hung == ""; i++ {
		x := rg.Intn(100)
		switch {
		case x < 45 || (len(r.snap.running) == 0 && x < 75):
			r.apply(op{K: "push", P: uint64(rg.Range(1, c.Peers)), T: uint64(rg.Range(1, 6)), Prio: rng.Pick(rg, prios)})
		case x < 75:
			k := r.snap.running[rg.Intn(len(r.snap.running))]
			r.apply(op{K: "release", P: k.P, T: k.T})
		case x < 88:
			// remove: mostly something pending, sometimes anything
			p := rg.Range(1, c.Peers)
			if pe := r.snap.pending[p-1]; len(pe) > 0 && rg.P(4, 5) {
				r.apply(op{K: "remove", P: uint64(p), T: pe[rg.Intn(len(pe))]})
			} else {
				r.apply(op{K: "remove", P: uint64(p), T: uint64(rg.Range(1, 6))})
			}
		default:
			if r.waiting() > 0 {
				r.apply(op{K: "tick"})
			} else {
				r.apply(op{K: "push", P: uint64(rg.Range(1, c.Peers)), T: uint64(rg.Range(1, 6)), Prio: rng.Pick(rg, prios)})
			}
		}
	}
}

// genFlood: [Flooders] peers occupy one worker each and keep [Keep] further requests queued, pushing a
// new one whenever one of theirs completes; the light peer (number Flooders+1) submits [Victim]
// requests once, when every worker is busy.  [Rounds] completions follow.
func genFlood(r *runner) {
	c := r.c
	next := make([]uint64, c.Flooders+1)
	for f := 1; f <= c.Flooders; f++ {
		r.apply(op{K: "push", P: uint64(f), T: 1})
		next[f] = 2
	}
	for f := 1; f <= c.Flooders; f++ {
		for k := 0; k < c.Keep; k++ {
			r.apply(op{K: "push", P: uint64(f), T: next[f]})
			next[f]++
		}
	}
	v := uint64(c.Flooders + 1)
	for k := 1; k <= c.Victim; k++ {
		r.apply(op{K: "push", P: v, T: uint64(k)})
	}
	for i := 0; i < c.Rounds && r.hung == ""; i++ {
		f := uint64(i%c.Flooders + 1)
		var cur *pt
		for _, k := range r.snap.running {
			if k.P == f {
				kk := k
				cur = &kk
				break
			}
		}
		if cur == nil {
			break // the flooder lost its worker: the light peer got served; nothing more to show
		}
		if c.After {
			r.apply(op{K: "release", P: cur.P, T: cur.T})
			r.apply(op{K: "push", P: f, T: next[f]})
			next[f]++
		} else {
			r.apply(op{K: "push", P: f, T: next[f]})
			next[f]++
			r.apply(op{K: "release", P: cur.P, T: cur.T})
		}
		// the light peer's own tasks take no time
		for _, k := range r.snap.running {
			if k.P == v {
				r.apply(op{K: "release", P: k.P, T: k.T})
			}
		}
	}
}

// floodTags classifies a directed case from its INPUT parameters only
func floodTags(c *tqCase) []string {
	var t []string
	if c.Flooders >= c.W {
		t = append(t, "submitting-peers>=workers")
	} else {
		t = append(t, "submitting-peers<workers")
	}
	if !c.After && c.Keep > c.Victim {
		t = append(t, "each-keeps-more-queued-than-the-light-peer")
	} else {
		t = append(t, "each-keeps-no-more-queued-than-the-light-peer")
	}
	return t
}

// ---- main ---------------------------------------------------------------------------------------

const header = `From Coq Require Import List NArith ZArith Bool.
From GS Require Import Base TaskQueue.
Import ListNotations.
Open Scope N_scope.
Definition S := Build_dstep.
Definition X0 : list N := [].
Definition X1 (a b : N) := [a; b].
Definition X2 (a b c d : N) := [a; b; c; d].
Definition X3 (a b c d e f : N) := [a; b; c; d; e; f].
Definition N1 (a1 b1 c1 s1 s2 s3 : N) := [a1; b1; c1; s1; s2; s3].
Definition N2 (a1 b1 c1 a2 b2 c2 s1 s2 s3 : N) := [a1; b1; c1; a2; b2; c2; s1; s2; s3].
Definition N3 (a1 b1 c1 a2 b2 c2 a3 b3 c3 s1 s2 s3 : N) := [a1; b1; c1; a2; b2; c2; a3; b3; c3; s1; s2; s3].
Definition N4 (a1 b1 c1 a2 b2 c2 a3 b3 c3 a4 b4 c4 s1 s2 s3 : N) := [a1; b1; c1; a2; b2; c2; a3; b3; c3; a4; b4; c4; s1; s2; s3].
Definition N5 (a1 b1 c1 a2 b2 c2 a3 b3 c3 a4 b4 c4 a5 b5 c5 s1 s2 s3 : N) :=
  [a1; b1; c1; a2; b2; c2; a3; b3; c3; a4; b4; c4; a5; b5; c5; s1; s2; s3].
`

type result struct {
	c         tqCase
	steps     []string
	drained   bool
	stuck     bool
	hung      string
	contended int
}

func runOne(c tqCase, rg *rng.R) result {
	replay := len(c.Ops) > 0
	ops := c.Ops
	c.Ops = nil
	r := newRunner(&c)
	drainedOK := true
	switch {
	case replay:
		for _, o := range ops {
			r.apply(o)
		}
	case c.Kind == "lasso" || c.Kind == "control":
		genFlood(r)
		drainedOK = r.drain(rg)
	default:
		genRandom(rg, r, rg.Range(6, 26))
		drainedOK = r.drain(rg)
	}
	r.close()
	res := result{c: c, steps: r.steps, hung: r.hung, contended: r.contended}
	if replay {
		// a replayed history is complete when it ends with nothing queued and nothing running
		res.drained = len(r.snap.running) == 0 && r.snap.stats[2] == 0
	} else {
		res.drained = true
		res.stuck = !drainedOK && r.hung == ""
	}
	return res
}

// configTripwire reads impl/graphsync.go and fails closed unless New still wires the two queues the
// way the cases assume: per-peer option on the incoming queue only when the limit is set, worker
// counts from the two max-in-progress settings.  (A source-level check: the driver cannot substitute
// its blocking executor inside a GraphSync instance.)
func configTripwire() string {
	repo := os.Getenv("VERIF_REPO") // set by bin/seedrun when the check runs against a scratch worktree
	if repo == "" {
		repo = "/repo"
	}
	b, err := os.ReadFile(repo + "/impl/graphsync.go")
	if err != nil {
		return "cannot read impl/graphsync.go: " + err.Error()
	}
	src := strings.Join(strings.Fields(string(b)), " ")
	for _, want := range []string{
		"requestQueue := taskqueue.NewTaskQueue(ctx)",
		"var ptqopts []peertaskqueue.Option if gsConfig.maxInProgressIncomingRequestsPerPeer > 0 { ptqopts = append(ptqopts, peertaskqueue.MaxOutstandingWorkPerPeer(int(gsConfig.maxInProgressIncomingRequestsPerPeer))) } responseQueue := taskqueue.NewTaskQueue(ctx, ptqopts...)",
		"requestQueue.Startup(gsConfig.maxInProgressOutgoingRequests, requestExecutor)",
		"responseQueue.Startup(gsConfig.maxInProgressIncomingRequests, queryExecutor)",
	} {
		if !strings.Contains(src, want) {
			return "impl/graphsync.go New no longer contains: " + want
		}
	}
	return ""
}

func run(c *drv.Ctx) error {
	w := cw.New(c.Out, header, "dcase", []cw.Check{
		{Name: "MISMATCH", Fn: "dcase_agrees"},
		{Name: "MON21", Fn: "dcase_mon"},
		{Name: "MON21F", Fn: "dcase_fair"},
	})
	w.ShardSize = 40
	w.Stats.Rule = "operation scripts (push with priority / remove / release a running task / deliver a thaw tick) over 2-5 peers, 6 topics per peer, " +
		"1-4 workers, per-peer limit 0(unset)..3, against the real taskqueue.WorkerTaskQueue + go-peertaskqueue with a blocking executor, every history run to completion; " +
		"plus directed flooding schedules (W submitting peers starving a light peer = the recorded finding; control schedules outside it); " +
		"non-trivial = at least two peers had requests queued at the same time and some request was started while another peer's was queued; distinct = distinct (script, observation) terms"
	emit := func(res result) {
		c := res.c
		tags := []string{"kind:" + c.Kind, fmt.Sprintf("workers:%d", c.W), fmt.Sprintf("per-peer-limit:%d", c.MaxPP)}
		if c.Kind == "lasso" || c.Kind == "control" {
			tags = append(tags, floodTags(&c)...)
		}
		hasRemove, hasTick := false, false
		for _, o := range c.Ops {
			hasRemove = hasRemove || o.K == "remove"
			hasTick = hasTick || o.K == "tick"
		}
		if hasRemove {
			tags = append(tags, "has-remove")
		}
		if hasTick {
			tags = append(tags, "has-tick")
		}
		if res.hung != "" {
			tags = append(tags, "harness-wait-expired")
		}
		c.Tags = tags
		term := fmt.Sprintf("Build_dcase %d %d false %s %s\n    [%s]", c.W, c.MaxPP, peersTerm(c.Peers), cw.Bool(res.drained), strings.Join(res.steps, "; "))
		idx := w.Add(term, c, nontrivial(res), tags...)
		if res.hung != "" {
			w.Violation(idx, "worker goroutines never parked / tick never taken: "+res.hung, "hang")
		}
		if res.stuck {
			w.Violation(idx, "requests stay queued although no task runs, workers wait and ticks are delivered", "stuck")
		}
	}
	runRetry := func(c tqCase, seed uint64) result {
		res := runOne(c, rng.New(seed))
		if res.hung != "" {
			// the 10 s wait expired (machine under load?): run the case once more; a second expiry is reported
			time.Sleep(200 * time.Millisecond)
			res = runOne(c, rng.New(seed))
		}
		return res
	}
	if tripwire := configTripwire(); tripwire != "" {
		w.Violation(0, "work-limit configuration changed: "+tripwire, "config")
	}
	if c.Replay != "" {
		var tc tqCase
		if err := drv.ReplayCase(c.Replay, &tc); err != nil {
			return err
		}
		emit(runRetry(tc, 1))
		return w.Flush()
	}
	for _, f := range c.CorpusFiles("taskq") {
		var tc tqCase
		if err := drv.ReplayCase(f, &tc); err != nil {
			return fmt.Errorf("%s: %w", f, err)
		}
		tc.Kind = "corpus"
		emit(runRetry(tc, 1))
	}
	// directed schedules: the starvation cycle for every worker count / limit, and controls outside it
	for W := 1; W <= 3; W++ {
		for _, m := range []int{0, 1, 2} {
			emit(runRetry(tqCase{Kind: "lasso", W: W, MaxPP: m, Peers: W + 1, Flooders: W, Keep: 2, Victim: 1, Rounds: 34}, 1))
			if W >= 2 {
				emit(runRetry(tqCase{Kind: "control", W: W, MaxPP: m, Peers: W, Flooders: W - 1, Keep: 2, Victim: 1, Rounds: 34}, 1))
			}
			emit(runRetry(tqCase{Kind: "control", W: W, MaxPP: m, Peers: W + 1, Flooders: W, Keep: 0, Victim: 1, Rounds: 34, After: true}, 1))
		}
	}
	n := c.Count(240, 6000)
	for i := 0; i < n; i++ {
		rg := c.R.Fork()
		tc := tqCase{Kind: "random", W: rg.Range(1, 4), MaxPP: rg.Range(0, 3), Peers: rg.Range(2, 5)}
		emit(runRetry(tc, rg.U64()))
	}
	return w.Flush()
}

func peersTerm(n int) string {
	xs := make([]uint64, n)
	for i := range xs {
		xs[i] = uint64(i + 1)
	}
	return cw.NList(xs)
}

func nontrivial(res result) bool { return res.contended > 0 }

func main() { drv.Main("taskq", run) }
