// d_responder drives the REAL responder stack for C03 (and the responder half of C24):
// real responsemanager.ResponseManager + real queryexecutor.QueryExecutor + real taskqueue.WorkerTaskQueue
// + real responseassembler.ResponseAssembler (peer link tracker) + real messagequeue.Builder / message.Builder,
// with fakes only at the edges: a capturing PeerMessageHandler (one wire message per transaction; message
// coalescing/splitting is the MessageQueue's business and is covered by C15's model) and the block store.
//
// One case = one peer, one generated DAG, a random responder store (blocks missing incl. roots, empty raw
// blocks present, read errors, undecodable blocks), 1-3 requests over overlapping sub-DAGs with random
// selectors and random do-not-send-cids / do-not-send-first-blocks / dedup-by-key extensions.  The
// interleaving of the requests is decided by the driver: the store's read opener is a gate, so that exactly
// one request advances by one link load at a time, and the schedule that was played is part of the case.
// The traversal plan of each (root, selector) is harvested from a real full-store traversal.
package main

import (
	"bytes"
	"context"
	"errors"
	"fmt"
	"io"
	"os"
	"sort"
	"strings"
	"sync"
	"time"

	"github.com/ipfs/go-cid"
	"github.com/ipld/go-ipld-prime"
	"github.com/ipld/go-ipld-prime/datamodel"
	cidlink "github.com/ipld/go-ipld-prime/linking/cid"
	"github.com/ipld/go-ipld-prime/node/basicnode"
	"github.com/ipld/go-ipld-prime/traversal/selector"
	"github.com/ipld/go-ipld-prime/traversal/selector/builder"
	"github.com/libp2p/go-libp2p/core/peer"
	mh "github.com/multiformats/go-multihash"

	"github.com/ipfs/go-graphsync"
	"github.com/ipfs/go-graphsync/cidset"
	"github.com/ipfs/go-graphsync/dedupkey"
	"github.com/ipfs/go-graphsync/donotsendfirstblocks"
	"github.com/ipfs/go-graphsync/ipldutil"
	"github.com/ipfs/go-graphsync/listeners"
	gsmsg "github.com/ipfs/go-graphsync/message"
	"github.com/ipfs/go-graphsync/messagequeue"
	"github.com/ipfs/go-graphsync/persistenceoptions"
	"github.com/ipfs/go-graphsync/responsemanager"
	"github.com/ipfs/go-graphsync/responsemanager/hooks"
	"github.com/ipfs/go-graphsync/responsemanager/queryexecutor"
	"github.com/ipfs/go-graphsync/responsemanager/responseassembler"
	"github.com/ipfs/go-graphsync/taskqueue"

	"verif/harness/internal/cw"
	"verif/harness/internal/dag"
	"verif/harness/internal/drv"
	"verif/harness/internal/rng"
)

// ---------------------------------------------------------------------------------------------
// case description (replayable): everything is derived from Seed, except the directed corpus kinds

type respCase struct {
	Seed uint64   `json:"seed"`
	Kind string   `json:"kind,omitempty"` // "" = random; directed: "empty-leaf", "root-missing", "skip-boundary", "dedup-two", "ignore-missing", "paused-ext"
	Desc string   `json:"desc,omitempty"`
	Tags []string `json:"tags,omitempty"`
}

// store answer for one block
const (
	stPresent = iota
	stMissing
	stReadErr // reader fails while the block is copied (hard error, nothing is sent for the link)
	stCorrupt // bytes are served but do not decode (hard error after the block went out)
)

type reqSpec struct {
	root     int
	sel      datamodel.Node
	selDesc  string
	dedup    int   // 0 = no extension, 1/2 = "key-1"/"key-2", 3 = the EMPTY string (a key like any other)
	ignore   []int // nil = no extension; block numbers (>= len(blocks): CIDs outside the DAG)
	hasIgn   bool
	skip     int64
	hasSkip  bool
	paused   bool // the responder's incoming-request hook pauses the request; the driver unpauses it later
	plan     *planNode
	planSize int
}

type world struct {
	d     *dag.DAG
	store []int // per block: st*
	reqs  []*reqSpec
	extra []cid.Cid // CIDs outside the DAG usable in ignore sets (numbered len(blocks)+i)
}

type planNode struct {
	path []uint64
	blk  int
	kids []*planNode
}

// ---------------------------------------------------------------------------------------------
// selectors over the shape internal/dag generates: {v: int, kids: [link | {tag, l: link}]}

var ssb = builder.NewSelectorSpecBuilder(basicnode.Prototype.Any)

func genSelector(r *rng.R) (datamodel.Node, string) {
	kidsVia := func(inner builder.SelectorSpec) builder.SelectorSpec {
		return ssb.ExploreFields(func(e builder.ExploreFieldsSpecBuilder) { e.Insert("kids", inner) })
	}
	// a kid is a link, or an inline map holding the link under "l"
	edgeOrInline := ssb.ExploreUnion(ssb.ExploreRecursiveEdge(),
		ssb.ExploreFields(func(e builder.ExploreFieldsSpecBuilder) { e.Insert("l", ssb.ExploreRecursiveEdge()) }))
	switch r.Intn(10) {
	case 0, 1:
		d := int64(r.Range(1, 6))
		return ssb.ExploreRecursive(selector.RecursionLimitDepth(d), ssb.ExploreAll(ssb.ExploreRecursiveEdge())).Node(), fmt.Sprintf("all-recursive(depth=%d)", d)
	case 2:
		return ssb.ExploreRecursive(selector.RecursionLimitNone(), kidsVia(ssb.ExploreAll(edgeOrInline))).Node(), "kids-recursive"
	case 3:
		lo := int64(r.Range(0, 1))
		hi := lo + int64(r.Range(1, 2))
		return ssb.ExploreRecursive(selector.RecursionLimitDepth(8), kidsVia(ssb.ExploreRange(lo, hi, edgeOrInline))).Node(), fmt.Sprintf("kids-range(%d,%d)", lo, hi)
	case 4:
		i := int64(r.Range(0, 2))
		return ssb.ExploreRecursive(selector.RecursionLimitDepth(8), kidsVia(ssb.ExploreIndex(i, edgeOrInline))).Node(), fmt.Sprintf("kids-index(%d)", i)
	case 5:
		i := int64(r.Range(1, 2))
		return ssb.ExploreRecursive(selector.RecursionLimitDepth(8), kidsVia(ssb.ExploreUnion(
			ssb.ExploreRange(0, 1, edgeOrInline), ssb.ExploreIndex(i, edgeOrInline)))).Node(), fmt.Sprintf("kids-union(range(0,1),index(%d))", i)
	case 6:
		return ssb.Matcher().Node(), "root-only"
	case 7:
		// the root and its direct children, no recursion
		return kidsVia(ssb.ExploreAll(ssb.ExploreUnion(ssb.Matcher(),
			ssb.ExploreFields(func(e builder.ExploreFieldsSpecBuilder) { e.Insert("l", ssb.Matcher()) })))).Node(), "direct-kids"
	default:
		return ssb.ExploreRecursive(selector.RecursionLimitNone(), ssb.ExploreAll(ssb.ExploreRecursiveEdge())).Node(), "all-recursive"
	}
}

// ---------------------------------------------------------------------------------------------
// plan harvesting: a real traversal over the full universe; loads nested by path prefix

type segTable struct{ m map[string]uint64 }

func (s *segTable) id(seg string) uint64 {
	if v, ok := s.m[seg]; ok {
		return v
	}
	v := uint64(len(s.m))
	s.m[seg] = v
	return v
}

func (s *segTable) path(p datamodel.Path) []uint64 {
	xs := []uint64{}
	for _, sg := range p.Segments() {
		xs = append(xs, s.id(sg.String()))
	}
	return xs
}

func properPrefix(a, b []uint64) bool {
	if len(a) >= len(b) {
		return false
	}
	for i := range a {
		if a[i] != b[i] {
			return false
		}
	}
	return true
}

// harvest steps the real ipldutil.Traverser (default chooser, as the responder uses) with every block present
func harvest(d *dag.DAG, root int, sel datamodel.Node, segs *segTable) (*planNode, int, error) {
	ctx, cancel := context.WithCancel(context.Background())
	defer cancel()
	t := ipldutil.TraversalBuilder{
		Root:     cidlink.Link{Cid: d.Blocks[root].Cid},
		Selector: sel,
	}.Start(ctx)
	defer t.Shutdown(ctx)
	var rootNode *planNode
	var stack []*planNode
	n := 0
	for {
		done, err := t.IsComplete()
		if done {
			if err != nil {
				return nil, 0, fmt.Errorf("full-store traversal failed: %w", err)
			}
			break
		}
		lnk, lctx := t.CurrentRequest()
		idx := d.Index(lnk.(cidlink.Link).Cid)
		if idx < 0 {
			return nil, 0, fmt.Errorf("traversal asked for an unknown block %s", lnk)
		}
		nd := &planNode{path: segs.path(lctx.LinkPath), blk: idx}
		n++
		if rootNode == nil {
			rootNode = nd
			stack = []*planNode{nd}
		} else {
			for len(stack) > 0 && !properPrefix(stack[len(stack)-1].path, nd.path) {
				stack = stack[:len(stack)-1]
			}
			if len(stack) == 0 {
				return nil, 0, fmt.Errorf("load at path %v is not below the root", nd.path)
			}
			p := stack[len(stack)-1]
			p.kids = append(p.kids, nd)
			stack = append(stack, nd)
		}
		if err := t.Advance(bytes.NewReader(d.Blocks[idx].Data)); err != nil {
			return nil, 0, err
		}
	}
	if rootNode == nil {
		return nil, 0, errors.New("traversal loaded nothing")
	}
	return rootNode, n, nil
}

func (p *planNode) term() string {
	var b strings.Builder
	fmt.Fprintf(&b, "LNode %s %d ", cw.NList(p.path), p.blk)
	if len(p.kids) == 0 {
		b.WriteString("INil")
	} else {
		b.WriteString("(")
		for _, k := range p.kids {
			fmt.Fprintf(&b, "IChild (%s) (", k.term())
		}
		b.WriteString("INil")
		b.WriteString(strings.Repeat(")", len(p.kids)))
		b.WriteString(")")
	}
	return b.String()
}

// ---------------------------------------------------------------------------------------------
// world generation

func outsideCid(i int) cid.Cid {
	h, _ := mh.Sum([]byte(fmt.Sprintf("outside-%d", i)), mh.SHA2_256, -1)
	return cid.NewCidV1(cid.Raw, h)
}

func (w *world) cidOf(n int) cid.Cid {
	if n < len(w.d.Blocks) {
		return w.d.Blocks[n].Cid
	}
	return w.extra[n-len(w.d.Blocks)]
}

func (w *world) numOf(c cid.Cid) int {
	if i := w.d.Index(c); i >= 0 {
		return i
	}
	for i, x := range w.extra {
		if x.Equals(c) {
			return len(w.d.Blocks) + i
		}
	}
	return -1
}

func genWorld(c respCase) (*world, error) {
	r := rng.New(c.Seed)
	w := &world{extra: []cid.Cid{outsideCid(0), outsideCid(1)}}
	segs := &segTable{m: map[string]uint64{}}
	switch c.Kind {
	case "":
		w.d = dag.Gen(r, dag.Opts{MaxBlocks: 2 + r.Intn(13), MaxFanout: 3, Shared: true, Inline: true, Identity: true, EmptyLeaves: true})
	default:
		// directed kinds use a small random DAG too, then force the feature below
		w.d = dag.Gen(r, dag.Opts{MaxBlocks: r.Range(3, 8), MaxFanout: 3, Shared: true, Inline: false, Identity: false, EmptyLeaves: true})
	}
	n := len(w.d.Blocks)
	w.store = make([]int, n)
	for i := range w.store {
		switch {
		case !r.P(5, 6):
			w.store[i] = stMissing
		case r.P(1, 40):
			w.store[i] = stReadErr
		case r.P(1, 40) && w.d.Blocks[i].Cid.Prefix().Codec == cid.DagCBOR:
			w.store[i] = stCorrupt
		}
	}
	nreq := 1
	if r.P(1, 2) {
		nreq = r.Range(2, 3)
	}
	for q := 0; q < nreq; q++ {
		rs := &reqSpec{}
		if q == 0 || r.P(1, 2) {
			rs.root = 0
		} else {
			rs.root = r.Intn(n)
		}
		rs.sel, rs.selDesc = genSelector(r)
		if r.P(1, 3) {
			rs.dedup = r.Range(1, 3)
		}
		if r.P(1, 3) {
			rs.hasIgn = true
			rs.ignore = []int{}
			for j := 0; j < n+2; j++ {
				if r.P(1, 4) {
					// two zero-length raw leaves are one CID: blocks are numbered by the first block with that CID
					k := j
					if j < n {
						k = w.d.Index(w.d.Blocks[j].Cid)
					}
					dup := false
					for _, x := range rs.ignore {
						dup = dup || x == k
					}
					if !dup {
						rs.ignore = append(rs.ignore, k)
					}
				}
			}
		}
		var err error
		rs.plan, rs.planSize, err = harvest(w.d, rs.root, rs.sel, segs)
		if err != nil {
			return nil, err
		}
		if r.P(2, 5) {
			rs.hasSkip = true
			switch r.Intn(5) {
			case 0:
				rs.skip = 0
			case 1:
				rs.skip = 1
			case 2:
				rs.skip = int64(rs.planSize / 2)
			case 3:
				rs.skip = int64(rs.planSize)
			default:
				rs.skip = int64(rs.planSize + r.Range(1, 3))
			}
		}
		w.reqs = append(w.reqs, rs)
	}
	if r.P(9, 10) {
		w.store[0] = stPresent
	}
	// which requests the incoming-request hook pauses: a separate stream, so that older seeds keep their worlds
	rp := rng.New(c.Seed ^ 0x70617573)
	for _, rs := range w.reqs {
		rs.paused = rp.P(1, 6)
	}
	// directed kinds
	switch c.Kind {
	case "empty-leaf":
		// every empty raw block is present, and so is the way to it; a single all-recursive request
		for i := range w.store {
			w.store[i] = stPresent
		}
		w.reqs = w.reqs[:1]
		rs := w.reqs[0]
		rs.root, rs.dedup, rs.hasIgn, rs.hasSkip, rs.ignore = 0, 0, false, false, nil
		rs.sel, rs.selDesc = dag.AllSelector(), "all-recursive"
		var err error
		if rs.plan, rs.planSize, err = harvest(w.d, 0, rs.sel, segs); err != nil {
			return nil, err
		}
	case "root-missing":
		w.reqs = w.reqs[:1]
		w.store[w.reqs[0].root] = stMissing
	case "paused-ext":
		// request 1 is paused by the incoming-request hook and carries exactly one of the three extensions;
		// request 2 (no extension, default scope) runs over the same DAG; everything is present
		for i := range w.store {
			w.store[i] = stPresent
		}
		for len(w.reqs) < 2 {
			cp := *w.reqs[0]
			w.reqs = append(w.reqs, &cp)
		}
		w.reqs = w.reqs[:2]
		for q, rs := range w.reqs {
			rs.root, rs.dedup, rs.hasIgn, rs.hasSkip, rs.ignore, rs.paused = 0, 0, false, false, nil, q == 0
			rs.sel, rs.selDesc = dag.AllSelector(), "all-recursive"
			var err error
			if rs.plan, rs.planSize, err = harvest(w.d, 0, rs.sel, segs); err != nil {
				return nil, err
			}
		}
		rs := w.reqs[0]
		switch c.Seed % 3 {
		case 0:
			rs.hasSkip, rs.skip = true, int64(r.Range(1, rs.planSize))
		case 1:
			rs.hasIgn = true
			rs.ignore = []int{0}
			for j := 1; j < len(w.d.Blocks); j++ {
				if k := w.d.Index(w.d.Blocks[j].Cid); k == j && r.P(1, 2) {
					rs.ignore = append(rs.ignore, j)
				}
			}
		default:
			rs.dedup = r.Range(1, 3)
		}
	case "ignore-missing":
		// the only missing link of the traversal is a visited non-root link that do-not-send-cids names:
		// it must still be reported Missing and the response must end complete-partial
		for i := range w.store {
			w.store[i] = stPresent
		}
		w.reqs = w.reqs[:1]
		rs := w.reqs[0]
		rs.root, rs.dedup, rs.hasSkip = 0, 0, false
		if c.Seed%3 == 0 {
			rs.dedup = 1
		}
		rs.sel, rs.selDesc = dag.AllSelector(), "all-recursive"
		var err error
		if rs.plan, rs.planSize, err = harvest(w.d, 0, rs.sel, segs); err != nil {
			return nil, err
		}
		var visited []int
		var walk func(p *planNode)
		walk = func(p *planNode) {
			if p.blk != 0 {
				visited = append(visited, p.blk)
			}
			for _, k := range p.kids {
				walk(k)
			}
		}
		walk(rs.plan)
		if len(visited) > 0 {
			m := visited[r.Intn(len(visited))]
			w.store[m] = stMissing
			rs.hasIgn = true
			rs.ignore = []int{m}
			if r.P(1, 2) {
				rs.ignore = append(rs.ignore, len(w.d.Blocks)) // plus a CID outside the DAG
			}
		}
	case "skip-boundary":
		for i := range w.store {
			if w.store[i] != stMissing {
				w.store[i] = stPresent
			}
		}
		w.store[0] = stPresent
		w.reqs = w.reqs[:1]
		rs := w.reqs[0]
		rs.root, rs.hasSkip = 0, true
		rs.sel, rs.selDesc = dag.AllSelector(), "all-recursive"
		var err error
		if rs.plan, rs.planSize, err = harvest(w.d, 0, rs.sel, segs); err != nil {
			return nil, err
		}
		rs.skip = int64(r.Range(1, rs.planSize))
	case "dedup-two":
		for i := range w.store {
			w.store[i] = stPresent
		}
		for len(w.reqs) < 2 {
			cp := *w.reqs[0]
			w.reqs = append(w.reqs, &cp)
		}
		w.reqs = w.reqs[:2]
		for q, rs := range w.reqs {
			rs.root, rs.hasIgn, rs.hasSkip, rs.ignore = 0, false, false, nil
			rs.dedup = 0
			switch c.Seed % 3 {
			case 1:
				rs.dedup = q + 1 // different keys: both get every block
			case 2:
				if q == 1 {
					rs.dedup = 3 // keyless request and a request keyed by the empty string: different scopes
				}
			}
			rs.sel, rs.selDesc = dag.AllSelector(), "all-recursive"
			var err error
			if rs.plan, rs.planSize, err = harvest(w.d, 0, rs.sel, segs); err != nil {
				return nil, err
			}
		}
	}
	return w, nil
}

// ---------------------------------------------------------------------------------------------
// the real responder stack with gates

type evKind int

const (
	evArrived evKind = iota
	evTerminal
	evPaused
)

type event struct {
	kind evKind
	req  int
}

type wireMsg struct {
	req     int
	md      []string // "(cid, present)"
	nmd     int
	blocks  []int
	status  uint64
	indexes []uint64 // BlockData indexes of this transaction
}

type ctxKey struct{}

type harness struct {
	w        *world
	ctx      context.Context
	events   chan event
	release  []chan struct{}
	mu       sync.Mutex
	msgs     []wireMsg
	ids      []graphsync.RequestID
	problems []string

	// a second, coalescing builder: every transaction is also built into it, and it is turned into a message
	// at random points (as the message queue does when the sender is slow); the coalesced message must be the
	// concatenation of the per-transaction messages since the last flush (AddLink order, AddBlock, response code)
	cum      *messagequeue.Builder
	cumFrom  int // index into msgs of the first transaction in cum
	cr       *rng.R
	nflushed int
}

// flush compares the coalesced message with the per-transaction messages msgs[cumFrom:]; caller holds mu
func (h *harness) flush() {
	if h.cum == nil {
		return
	}
	msg, err := h.cum.Build()
	window := h.msgs[h.cumFrom:]
	h.cum, h.cumFrom = nil, len(h.msgs)
	if err != nil {
		h.problems = append(h.problems, "coalesced build: "+err.Error())
		return
	}
	h.nflushed++
	wantMd := map[int][]string{}
	wantSt := map[int]uint64{}
	wantBlk := map[int]bool{}
	for _, m := range window {
		wantMd[m.req] = append(wantMd[m.req], m.md...)
		if _, ok := wantSt[m.req]; !ok || m.status != uint64(graphsync.PartialResponse) {
			wantSt[m.req] = m.status
		}
		for _, b := range m.blocks {
			wantBlk[b] = true
		}
	}
	resps := msg.Responses()
	if len(resps) != len(wantMd) {
		h.problems = append(h.problems, fmt.Sprintf("coalesced message has %d responses, transactions had %d requests", len(resps), len(wantMd)))
	}
	for _, rsp := range resps {
		q := h.reqOf(rsp.RequestID())
		var got []string
		rsp.Metadata().Iterate(func(c cid.Cid, a graphsync.LinkAction) {
			got = append(got, fmt.Sprintf("(%d, %s)", h.w.numOf(c), cw.Bool(a == graphsync.LinkActionPresent)))
		})
		if strings.Join(got, ";") != strings.Join(wantMd[q], ";") {
			h.problems = append(h.problems, fmt.Sprintf("coalesced metadata of request %d is %v, transactions gave %v", q+1, got, wantMd[q]))
		}
		if uint64(rsp.Status()) != wantSt[q] {
			h.problems = append(h.problems, fmt.Sprintf("coalesced status of request %d is %d, transactions gave %d", q+1, rsp.Status(), wantSt[q]))
		}
	}
	gotBlk := map[int]bool{}
	for _, blk := range msg.Blocks() {
		gotBlk[h.w.numOf(blk.Cid())] = true
	}
	if len(gotBlk) != len(wantBlk) {
		h.problems = append(h.problems, fmt.Sprintf("coalesced message carries %d blocks, transactions carried %d", len(gotBlk), len(wantBlk)))
	}
	for b := range wantBlk {
		if !gotBlk[b] {
			h.problems = append(h.problems, fmt.Sprintf("coalesced message lacks block %d", b))
		}
	}
}

func (h *harness) reqOf(id graphsync.RequestID) int {
	for i, x := range h.ids {
		if x == id {
			return i
		}
	}
	return -1
}

type failingReader struct{}

func (failingReader) Read([]byte) (int, error) { return 0, errors.New("storage read failure") }

// the responder's block store: a gate per request, then the store's answer
func (h *harness) open(lctx ipld.LinkContext, lnk ipld.Link) (io.Reader, error) {
	q, ok := lctx.Ctx.Value(ctxKey{}).(int)
	if !ok {
		return nil, errors.New("load outside a request")
	}
	select {
	case h.events <- event{evArrived, q}:
	case <-h.ctx.Done():
		return nil, h.ctx.Err()
	}
	select {
	case <-h.release[q]:
	case <-h.ctx.Done():
		return nil, h.ctx.Err()
	}
	idx := h.w.d.Index(lnk.(cidlink.Link).Cid)
	if idx < 0 {
		return nil, errors.New("not found")
	}
	switch h.w.store[idx] {
	case stPresent:
		return bytes.NewReader(h.w.d.Blocks[idx].Data), nil
	case stReadErr:
		return failingReader{}, nil
	case stCorrupt:
		return bytes.NewReader([]byte{0xff, 0xff, 0x00}), nil
	default:
		return nil, errors.New("not found")
	}
}

// AllocateAndBuildMessage: one real builder per transaction, built into a real GraphSyncMessage
func (h *harness) AllocateAndBuildMessage(p peer.ID, blkSize uint64, fn func(*messagequeue.Builder)) {
	b := messagequeue.NewBuilder(h.ctx, messagequeue.Topic(0))
	fn(b)
	if b.Empty() {
		return
	}
	msg, err := b.Build()
	h.mu.Lock()
	defer h.mu.Unlock()
	if err != nil {
		h.problems = append(h.problems, "build: "+err.Error())
		return
	}
	if h.cum == nil {
		h.cum = messagequeue.NewBuilder(h.ctx, messagequeue.Topic(1))
	}
	fn(h.cum)
	defer func() {
		if h.cr.P(1, 3) {
			h.flush()
		}
	}()
	var onWire uint64
	blks := []int{}
	for _, blk := range msg.Blocks() {
		onWire += uint64(len(blk.RawData()))
		n := h.w.numOf(blk.Cid())
		blks = append(blks, n)
		if n >= 0 && n < len(h.w.d.Blocks) && h.w.store[n] == stPresent && !bytes.Equal(blk.RawData(), h.w.d.Blocks[n].Data) {
			h.problems = append(h.problems, fmt.Sprintf("block %d carried with wrong bytes", n))
		}
	}
	sort.Ints(blks)
	if onWire != blkSize {
		h.problems = append(h.problems, fmt.Sprintf("transaction reserved %d bytes but carries %d", blkSize, onWire))
	}
	resps := msg.Responses()
	if len(resps) != 1 {
		h.problems = append(h.problems, fmt.Sprintf("transaction message with %d responses", len(resps)))
	}
	for _, rsp := range resps {
		q := h.reqOf(rsp.RequestID())
		wm := wireMsg{req: q, status: uint64(rsp.Status()), blocks: blks}
		rsp.Metadata().Iterate(func(c cid.Cid, a graphsync.LinkAction) {
			wm.md = append(wm.md, fmt.Sprintf("(%d, %s)", h.w.numOf(c), cw.Bool(a == graphsync.LinkActionPresent)))
			wm.nmd++
		})
		for _, bd := range b.BlockData()[rsp.RequestID()] {
			wm.indexes = append(wm.indexes, uint64(bd.Index()))
		}
		h.msgs = append(h.msgs, wm)
		if rsp.Status() == graphsync.RequestPaused {
			select {
			case h.events <- event{evPaused, q}:
			default:
				h.problems = append(h.problems, "event queue full")
			}
		}
		if rsp.Status().IsTerminal() {
			select {
			case h.events <- event{evTerminal, q}:
			default:
				h.problems = append(h.problems, "event queue full")
			}
		}
	}
}

type connMgr struct{}

func (connMgr) Protect(peer.ID, string)        {}
func (connMgr) Unprotect(peer.ID, string) bool { return false }

var errExpired = errors.New("wait expired")

type runResult struct {
	sched    []string    // "SStart q" | "SStep q"
	produced [][]wireMsg // messages captured while the action ran
	msgs     []wireMsg
	problems []string
}

// play runs one world; sr decides the schedule
func play(w *world, sr *rng.R, wait time.Duration) (*runResult, error) {
	ctx, cancel := context.WithCancel(context.Background())
	defer cancel()
	h := &harness{w: w, ctx: ctx, events: make(chan event, 64), cr: sr.Fork()}
	for q := range w.reqs {
		h.release = append(h.release, make(chan struct{}))
		id := graphsync.NewRequestID()
		h.ids = append(h.ids, id)
		_ = q
	}
	lsys := cidlink.DefaultLinkSystem()
	lsys.TrustedStorage = true
	lsys.StorageReadOpener = h.open

	ra := responseassembler.New(ctx, h)
	requestHooks := hooks.NewRequestHooks(persistenceoptions.New())
	requestHooks.Register(func(p peer.ID, rd graphsync.RequestData, ha graphsync.IncomingRequestHookActions) {
		q := h.reqOf(rd.ID())
		ha.ValidateRequest()
		if q >= 0 && w.reqs[q].paused {
			ha.PauseResponse()
		}
		ha.AugmentContext(func(c context.Context) context.Context { return context.WithValue(c, ctxKey{}, q) })
	})
	blockHooks := hooks.NewBlockHooks()
	updateHooks := hooks.NewUpdateHooks()
	tq := taskqueue.NewTaskQueue(ctx)
	rm := responsemanager.New(ctx, lsys, ra, listeners.NewRequestProcessingListeners(), requestHooks, updateHooks,
		listeners.NewCompletedResponseListeners(), listeners.NewRequestorCancelledListeners(), listeners.NewBlockSentListeners(),
		listeners.NewNetworkErrorListeners(), connMgr{}, 0, nil, tq)
	qe := queryexecutor.New(ctx, rm, blockHooks, updateHooks)
	tq.Startup(4, qe)
	rm.Startup()
	defer tq.Shutdown()
	defer rm.Shutdown()

	p := peer.ID("requesting-peer")
	res := &runResult{}
	state := make([]int, len(w.reqs)) // 0 = not started, 1 = at a gate, 2 = finished, 3 = paused by the request hook
	taken := 0
	awaitReq := func(q int) error {
		timer := time.NewTimer(wait)
		defer timer.Stop()
		for {
			select {
			case e := <-h.events:
				if e.req != q {
					return fmt.Errorf("event for request %d while waiting for %d", e.req, q)
				}
				switch e.kind {
				case evArrived:
					state[q] = 1
				case evPaused:
					state[q] = 3
				default:
					state[q] = 2
				}
				return nil
			case <-timer.C:
				return errExpired
			}
		}
	}
	for {
		var choices []string
		for q := range w.reqs {
			switch state[q] {
			case 0:
				// requests start in order; later ones may start while earlier ones are under way
				if q == 0 || state[q-1] != 0 {
					if w.reqs[q].paused {
						choices = append(choices, fmt.Sprintf("SStartPaused %d", q))
					} else {
						choices = append(choices, fmt.Sprintf("SStart %d", q))
					}
				}
			case 3:
				choices = append(choices, fmt.Sprintf("SUnpause %d", q))
			case 1:
				choices = append(choices, fmt.Sprintf("SStep %d", q), fmt.Sprintf("SStep %d", q))
			}
		}
		if len(choices) == 0 {
			break
		}
		act := choices[sr.Intn(len(choices))]
		var q int
		var actName string
		res.sched = append(res.sched, act)
		_, _ = fmt.Sscanf(act, "%s %d", &actName, &q)
		switch actName {
		case "SStart", "SStartPaused":
			rs := w.reqs[q]
			var exts []graphsync.ExtensionData
			// extension order in the message does not matter: prepareQuery looks each one up by name
			if rs.hasSkip {
				exts = append(exts, graphsync.ExtensionData{Name: graphsync.ExtensionsDoNotSendFirstBlocks, Data: donotsendfirstblocks.EncodeDoNotSendFirstBlocks(rs.skip)})
			}
			if rs.hasIgn {
				set := cid.NewSet()
				for _, n := range rs.ignore {
					set.Add(w.cidOf(n))
				}
				exts = append(exts, graphsync.ExtensionData{Name: graphsync.ExtensionDoNotSendCIDs, Data: cidset.EncodeCidSet(set)})
			}
			if rs.dedup != 0 {
				nd, err := dedupkey.EncodeDedupKey(dedupKeyString(rs.dedup))
				if err != nil {
					return nil, err
				}
				exts = append(exts, graphsync.ExtensionData{Name: graphsync.ExtensionDeDupByKey, Data: nd})
			}
			req := gsmsg.NewRequest(h.ids[q], w.d.Blocks[rs.root].Cid, rs.sel, graphsync.Priority(0), exts...)
			rm.ProcessRequests(ctx, p, []gsmsg.GraphSyncRequest{req})
		case "SUnpause":
			if err := rm.UnpauseResponse(ctx, h.ids[q]); err != nil {
				return nil, fmt.Errorf("unpause: %w", err)
			}
		default:
			select {
			case h.release[q] <- struct{}{}:
			case <-time.After(wait):
				return nil, errExpired
			}
		}
		if err := awaitReq(q); err != nil {
			return nil, err
		}
		h.mu.Lock()
		res.produced = append(res.produced, append([]wireMsg(nil), h.msgs[taken:]...))
		taken = len(h.msgs)
		h.mu.Unlock()
	}
	h.mu.Lock()
	h.flush()
	res.msgs = append([]wireMsg(nil), h.msgs...)
	res.problems = append([]string(nil), h.problems...)
	h.mu.Unlock()
	return res, nil
}

// ---------------------------------------------------------------------------------------------
// Coq terms

const header = `From Coq Require Import List NArith Bool.
From GS Require Import Base Ltree LinkTracker Responder.
Import ListNotations.
Open Scope N_scope.
`

func optN(has bool, v uint64) string {
	if !has {
		return "None"
	}
	return fmt.Sprintf("(Some %d)", v)
}

func (w *world) term(res *runResult) string {
	var b strings.Builder
	b.WriteString("mk_rcase\n    [")
	first := true
	for i, st := range w.store {
		name := []string{"RPresent", "RMissing", "RReadErr", "RCorrupt"}[st]
		if st == stPresent {
			if len(w.d.Blocks[i].Data) != 0 {
				continue
			}
			name = "RPresentEmpty"
		}
		if !first {
			b.WriteString("; ")
		}
		first = false
		fmt.Fprintf(&b, "(%d, %s)", i, name)
	}
	b.WriteString("]\n    [")
	for q, rs := range w.reqs {
		if q > 0 {
			b.WriteString(";\n     ")
		}
		ign := "None"
		if rs.hasIgn {
			xs := make([]uint64, len(rs.ignore))
			for i, v := range rs.ignore {
				xs[i] = uint64(v)
			}
			ign = "(Some " + cw.NList(xs) + ")"
		}
		fmt.Fprintf(&b, "mk_rreq %d (%s) %s %s %s", q+1, rs.plan.term(), optN(rs.dedup != 0, uint64(rs.dedup)), ign, optN(rs.hasSkip, uint64(rs.skip)))
	}
	b.WriteString("]\n    [")
	for i, a := range res.sched {
		var q int
		var actName string
		_, _ = fmt.Sscanf(a, "%s %d", &actName, &q)
		act := fmt.Sprintf("%s %d", actName, q+1)
		if i > 0 {
			b.WriteString(";\n     ")
		}
		var ms []string
		for _, m := range res.produced[i] {
			bl := make([]uint64, len(m.blocks))
			for j, v := range m.blocks {
				bl[j] = uint64(v)
			}
			ms = append(ms, fmt.Sprintf("mk_wmsg %d %s %s %s %d", m.req+1, cw.List(m.md), cw.NList(bl), cw.NList(m.indexes), m.status))
		}
		fmt.Fprintf(&b, "(%s, %s)", act, cw.List(ms))
	}
	b.WriteString("]")
	return b.String()
}

// ---------------------------------------------------------------------------------------------

func run(c *drv.Ctx) error {
	w := cw.New(c.Out, header, "rcase", []cw.Check{
		{Name: "MISMATCH", Fn: "rcase_agrees"},
		{Name: "MON03", Fn: "rcase_mon03"},
		{Name: "MON24R", Fn: "rcase_mon24"},
	})
	w.Stats.Rule = "one peer, a random DAG (1-12 blocks: nested maps/lists, shared children, links in inline nodes, raw and dag-cbor leaves, empty raw blocks, identity CIDs), " +
		"a random responder store (1/6 of blocks missing incl. roots; occasional read error / undecodable block), 1-3 requests rooted in the same DAG with random selectors " +
		"(all-recursive with depth, fields, range, index, union, matcher) and random do-not-send-cids / do-not-send-first-blocks (0,1,mid,total,>total) / dedup-by-key (3 keys, one of them the empty string) extensions, " +
		"served by the real ResponseManager+QueryExecutor+TaskQueue+ResponseAssembler under a driver-chosen interleaving (store gate); " +
		"non-trivial = some block was withheld (skip / ignore / dedup) AND some block was sent AND some link was missing or >= 2 requests ran; distinct = distinct terms"
	debug := os.Getenv("GSDRIVE_DEBUG") != ""
	add := func(rc respCase, tag string) error {
		wd, err := genWorld(rc)
		if err != nil {
			return fmt.Errorf("case seed %d kind %q: %w", rc.Seed, rc.Kind, err)
		}
		var res *runResult
		for attempt := 0; ; attempt++ {
			res, err = play(wd, rng.New(rc.Seed^0x5bd1e995), 20*time.Second)
			if err == nil {
				break
			}
			if errors.Is(err, errExpired) && attempt == 0 {
				continue // machine under load: rerun once
			}
			if errors.Is(err, errExpired) {
				idx := w.Add("mk_rcase [] [] []", rc, false, "kind:"+tag, "hang")
				w.Violation(idx, "responder stopped making progress (no load request and no terminal status within 20s)", "responder-hang")
				return nil
			}
			return err
		}
		tags := []string{"kind:" + tag, fmt.Sprintf("requests=%d", len(wd.reqs))}
		sent, withheld, missing := 0, 0, 0
		for _, m := range res.msgs {
			sent += len(m.blocks)
			for _, e := range m.md {
				if strings.HasSuffix(e, "true)") {
					withheld++
				} else {
					missing++
				}
			}
		}
		withheld -= sent
		// blocks withheld from a request only because ANOTHER in-progress request of its scope holds the link,
		// although the block itself was never transmitted in that scope (the other request skipped or ignored it)
		neverSent := 0
		{
			sentInScope := map[[2]int]bool{} // (dedup key, block)
			seenOwn := make([]map[int]bool, len(wd.reqs))
			for i := range seenOwn {
				seenOwn[i] = map[int]bool{}
			}
			for _, m := range res.msgs {
				if m.req < 0 || m.req >= len(wd.reqs) || m.nmd != 1 || len(m.indexes) != 1 {
					continue
				}
				rs := wd.reqs[m.req]
				var blk int
				var pres string
				if _, err := fmt.Sscanf(m.md[0], "(%d, %s", &blk, &pres); err != nil || !strings.HasPrefix(pres, "true") {
					continue
				}
				if len(m.blocks) > 0 {
					sentInScope[[2]int{rs.dedup, blk}] = true
				} else {
					ownExcluded := (rs.hasSkip && int64(m.indexes[0]) <= rs.skip) || seenOwn[m.req][blk]
					for _, ig := range rs.ignore {
						if ig == blk {
							ownExcluded = true
						}
					}
					if !ownExcluded && !sentInScope[[2]int{rs.dedup, blk}] {
						neverSent++
					}
				}
				seenOwn[m.req][blk] = true
			}
		}
		emptyPresent := false
		for q, rs := range wd.reqs {
			_ = q
			if rs.paused {
				tags = append(tags, "paused-by-request-hook")
				if rs.dedup != 0 || rs.hasIgn || rs.hasSkip {
					tags = append(tags, "paused-by-request-hook-with-extension")
				}
			}
			if rs.dedup == 3 {
				tags = append(tags, "ext:dedup-by-key-empty-string")
			}
			if rs.dedup != 0 {
				tags = append(tags, "ext:dedup-by-key")
			}
			if rs.hasIgn {
				tags = append(tags, "ext:do-not-send-cids")
			}
			if rs.hasSkip {
				tags = append(tags, "ext:do-not-send-first-blocks")
			}
			if wd.store[rs.root] == stMissing {
				tags = append(tags, "root-missing")
			}
			tags = append(tags, "sel:"+strings.SplitN(rs.selDesc, "(", 2)[0])
		}
		for i, bl := range wd.d.Blocks {
			if len(bl.Data) == 0 && wd.store[i] == stPresent {
				emptyPresent = true
			}
			if wd.store[i] == stReadErr || wd.store[i] == stCorrupt {
				tags = append(tags, "store-hard-error")
			}
		}
		for _, rs := range wd.reqs {
			if !rs.hasIgn || wd.store[rs.root] != stPresent {
				continue
			}
			inIgn := func(b int) bool {
				for _, x := range rs.ignore {
					if x == b {
						return true
					}
				}
				return false
			}
			nMiss, allIgnored, hard := 0, true, false
			var walk func(p *planNode)
			walk = func(p *planNode) {
				switch wd.store[p.blk] {
				case stMissing:
					nMiss++
					allIgnored = allIgnored && inIgn(p.blk)
					return
				case stReadErr, stCorrupt:
					hard = true
					return
				}
				for _, k := range p.kids {
					walk(k)
				}
			}
			walk(rs.plan)
			if nMiss > 0 && allIgnored && !hard {
				tags = append(tags, "only-missing-links-are-in-do-not-send-cids")
			}
		}
		if emptyPresent {
			tags = append(tags, "empty-block-present")
		}
		if withheld > 0 {
			tags = append(tags, "block-withheld")
		}
		if neverSent > 0 {
			tags = append(tags, "withheld-never-sent-in-scope")
		}
		if missing > 0 {
			tags = append(tags, "link-missing")
		}
		tags = dedupStrings(tags)
		rc.Tags = tags
		var ds []string
		for _, rs := range wd.reqs {
			ds = append(ds, fmt.Sprintf("root=%d sel=%s loads=%d", rs.root, rs.selDesc, rs.planSize))
		}
		rc.Desc = wd.d.Shape + " | " + strings.Join(ds, " | ")
		idx := w.Add(wd.term(res), rc, withheld > 0 && sent > 0 && (missing > 0 || len(wd.reqs) > 1), tags...)
		for _, pr := range res.problems {
			w.Violation(idx, pr, "responder-wire-problem")
		}
		if debug {
			fmt.Fprintf(os.Stderr, "case %d: %s\n  sched %v\n", idx, rc.Desc, res.sched)
			for _, m := range res.msgs {
				fmt.Fprintf(os.Stderr, "  msg req=%d md=%v blocks=%v idx=%v status=%d\n", m.req+1, m.md, m.blocks, m.indexes, m.status)
			}
		}
		return nil
	}
	if c.Replay != "" {
		var rc respCase
		if err := drv.ReplayCase(c.Replay, &rc); err != nil {
			return err
		}
		if err := add(rc, "replay"); err != nil {
			return err
		}
		return w.Flush()
	}
	for _, f := range c.CorpusFiles("responder") {
		var rc respCase
		if err := drv.ReplayCase(f, &rc); err != nil {
			return fmt.Errorf("%s: %w", f, err)
		}
		rc.Tags, rc.Desc = nil, ""
		if err := add(rc, "corpus"); err != nil {
			return err
		}
	}
	n := c.Count(1200, 12000)
	for i := 0; i < n; i++ {
		rc := respCase{Seed: c.R.U64()}
		tag := "random"
		if i%10 == 9 {
			rc.Kind = []string{"empty-leaf", "root-missing", "skip-boundary", "dedup-two", "ignore-missing", "paused-ext"}[(i/10)%6]
			tag = "directed"
		}
		if err := add(rc, tag); err != nil {
			return err
		}
	}
	return w.Flush()
}

// dedupKeyString: key 3 is the empty string, which is a dedup key like any other (its own scope)
func dedupKeyString(k int) string {
	if k == 3 {
		return ""
	}
	return fmt.Sprintf("key-%d", k)
}

func dedupStrings(xs []string) []string {
	seen := map[string]bool{}
	var out []string
	for _, x := range xs {
		if !seen[x] {
			seen[x] = true
			out = append(out, x)
		}
	}
	return out
}

func main() { drv.Main("responder", run) }
