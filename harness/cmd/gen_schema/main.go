// gen_schema regenerates coq/gen/GenSchema.v from /repo/message/ipldbind/schema.ipldsch: enum
// members with their representations, struct fields with renames / optional / nullable / type,
// keyed unions, and the remaining named types.  The Coq codec model (GS.MsgCodec) takes every wire
// name, enum representation and status code from this file, so a change of the schema changes the
// model and re-checks (or breaks) the C11/C12 theorems on the next run.
//
// It fails closed: any schema syntax it does not understand is an error (exit 1).  The file is
// rewritten only when its content changes.
package main

import (
	"flag"
	"fmt"
	"os"
	"path/filepath"
	"regexp"
	"strings"
)

func fail(format string, a ...any) {
	fmt.Fprintf(os.Stderr, "gen_schema: "+format+"\n", a...)
	os.Exit(1)
}

func writeIfChanged(path, content string) {
	old, err := os.ReadFile(path)
	if err == nil && string(old) == content {
		fmt.Println("unchanged", filepath.Base(path))
		return
	}
	if err := os.WriteFile(path, []byte(content), 0o644); err != nil {
		fail("%v", err)
	}
	fmt.Println("regenerated", filepath.Base(path))
}

func coqString(s string) string { return `"` + strings.ReplaceAll(s, `"`, `""`) + `"` }
func coqBool(b bool) string {
	if b {
		return "true"
	}
	return "false"
}

var (
	reEnumOpen   = regexp.MustCompile(`^type\s+(\w+)\s+enum\s*\{$`)
	reStructOpen = regexp.MustCompile(`^type\s+(\w+)\s+struct\s*\{$`)
	reUnionOpen  = regexp.MustCompile(`^type\s+(\w+)\s+union\s*\{$`)
	reClose      = regexp.MustCompile(`^\}\s*representation\s+(\w+)$`)
	reEnumMember = regexp.MustCompile(`^\|\s*(\w+)\s*\("([^"]*)"\)$`)
	reUnionMem   = regexp.MustCompile(`^\|\s*(\w+)\s+"([^"]*)"$`)
	reField      = regexp.MustCompile(`^(\w+)\s+(optional\s+)?(nullable\s+)?(\[?\w+\]?)\s*(?:\(rename\s+"([^"]*)"\))?$`)
	reSimple     = regexp.MustCompile(`^type\s+(\w+)\s+(bytes|int|string|bool|float|link)$`)
	reMapType    = regexp.MustCompile(`^type\s+(\w+)\s+\{\s*(\w+)\s*:\s*(nullable\s+)?(\w+)\s*\}$`)
	reListType   = regexp.MustCompile(`^type\s+(\w+)\s+\[(\w+)\]$`)
)

func main() {
	repo := flag.String("repo", "/repo", "repository root")
	out := flag.String("out", "", "output directory (coq/gen)")
	flag.Parse()
	if *out == "" {
		fail("-out required")
	}
	if err := os.MkdirAll(*out, 0o755); err != nil {
		fail("%v", err)
	}
	src, err := os.ReadFile(filepath.Join(*repo, "message", "ipldbind", "schema.ipldsch"))
	if err != nil {
		fail("%v", err)
	}
	var enums, structs, unions, types strings.Builder
	var typeList []string
	mode, name := "", ""
	var items []string
	for ln, raw := range strings.Split(string(src), "\n") {
		line := raw
		if i := strings.Index(line, "#"); i >= 0 {
			line = line[:i]
		}
		line = strings.TrimSpace(line)
		if line == "" {
			continue
		}
		where := fmt.Sprintf("schema.ipldsch:%d", ln+1)
		switch mode {
		case "":
			if m := reEnumOpen.FindStringSubmatch(line); m != nil {
				mode, name, items = "enum", m[1], nil
			} else if m := reStructOpen.FindStringSubmatch(line); m != nil {
				mode, name, items = "struct", m[1], nil
			} else if m := reUnionOpen.FindStringSubmatch(line); m != nil {
				mode, name, items = "union", m[1], nil
			} else if m := reSimple.FindStringSubmatch(line); m != nil {
				typeList = append(typeList, "("+coqString(m[1])+", "+coqString(m[2])+")")
			} else if m := reMapType.FindStringSubmatch(line); m != nil {
				def := "{" + m[2] + ":"
				if m[3] != "" {
					def += "nullable "
				}
				def += m[4] + "}"
				typeList = append(typeList, "("+coqString(m[1])+", "+coqString(def)+")")
			} else if m := reListType.FindStringSubmatch(line); m != nil {
				typeList = append(typeList, "("+coqString(m[1])+", "+coqString("["+m[2]+"]")+")")
			} else {
				fail("%s: unsupported declaration: %q", where, line)
			}
		case "enum", "struct", "union":
			if m := reClose.FindStringSubmatch(line); m != nil {
				repr := m[1]
				switch mode {
				case "enum":
					if repr != "string" && repr != "int" {
						fail("%s: unsupported enum representation %q", where, repr)
					}
					fmt.Fprintf(&enums, "Definition sch_enum_%s : list (string * string) :=\n  [%s].\nDefinition sch_enum_%s_repr : string := %s.\n",
						name, strings.Join(items, "; "), name, coqString(repr))
				case "struct":
					if repr != "map" && repr != "tuple" {
						fail("%s: unsupported struct representation %q", where, repr)
					}
					fmt.Fprintf(&structs, "Definition sch_struct_%s : list (string * string * bool * bool * string) :=\n  [%s].\nDefinition sch_struct_%s_repr : string := %s.\n",
						name, strings.Join(items, "; "), name, coqString(repr))
				case "union":
					if repr != "keyed" {
						fail("%s: unsupported union representation %q", where, repr)
					}
					fmt.Fprintf(&unions, "Definition sch_union_%s : list (string * string) :=\n  [%s].\nDefinition sch_union_%s_repr : string := %s.\n",
						name, strings.Join(items, "; "), name, coqString(repr))
				}
				mode = ""
				continue
			}
			switch mode {
			case "enum":
				m := reEnumMember.FindStringSubmatch(line)
				if m == nil {
					fail("%s: unsupported enum member: %q", where, line)
				}
				items = append(items, "("+coqString(m[1])+", "+coqString(m[2])+")")
			case "union":
				m := reUnionMem.FindStringSubmatch(line)
				if m == nil {
					fail("%s: unsupported union member: %q", where, line)
				}
				items = append(items, "("+coqString(m[1])+", "+coqString(m[2])+")")
			case "struct":
				m := reField.FindStringSubmatch(line)
				if m == nil {
					fail("%s: unsupported struct field: %q", where, line)
				}
				serial := m[5]
				if serial == "" {
					serial = m[1]
				}
				items = append(items, fmt.Sprintf("(%s, %s, %s, %s, %s)", coqString(m[1]), coqString(serial),
					coqBool(m[2] != ""), coqBool(m[3] != ""), coqString(m[4])))
			}
		}
	}
	if mode != "" {
		fail("unterminated %s %s", mode, name)
	}
	fmt.Fprintf(&types, "Definition sch_types : list (string * string) :=\n  [%s].\n", strings.Join(typeList, "; "))
	content := `(* GENERATED by /verif/harness/cmd/gen_schema from /repo/message/ipldbind/schema.ipldsch.
   Do not edit: rewritten on every run. *)
From Coq Require Import List String ZArith.
Import ListNotations.
Open Scope string_scope.

(* enum members: (member name, representation) *)
` + enums.String() + `
(* struct fields: (field name, serial key, optional, nullable, type) *)
` + structs.String() + `
(* keyed unions: (member type, discriminant key) *)
` + unions.String() + `
(* other named types: (name, definition) *)
` + types.String()
	writeIfChanged(filepath.Join(*out, "GenSchema.v"), content)
}
