package main

// Driver "hostile" (C12): arbitrary bytes handed to the real FromNet and, over a libp2p mocknet stream,
// to the real network.handleNewStream with a recording Receiver.

import (
	"bufio"
	"bytes"
	"context"
	"encoding/binary"
	"encoding/json"
	"errors"
	"fmt"
	"io"
	"os"
	"os/exec"
	"path/filepath"
	"runtime"
	"strings"
	"sync"
	"time"

	blocks "github.com/ipfs/go-block-format"
	"github.com/ipfs/go-cid"
	"github.com/libp2p/go-libp2p/core/network"
	"github.com/libp2p/go-libp2p/core/peer"
	"github.com/multiformats/go-varint"

	"github.com/ipfs/go-graphsync"
	"github.com/ipfs/go-graphsync/message"
	v2 "github.com/ipfs/go-graphsync/message/v2"
	gsnet "github.com/ipfs/go-graphsync/network"

	"verif/harness/internal/cw"
	"verif/harness/internal/drv"
	"verif/harness/internal/e2e"
)

type hostileCase struct {
	Hex  string    `json:"hex"`
	Bomb *bombDesc `json:"bomb,omitempty"` // resource bomb: the input is rebuilt from this description, run in a child process
	Tags []string  `json:"tags,omitempty"`
}

const waitDeadline = 10 * time.Second

// ---- recording Receiver: events are routed to the slot of the case that is running ----

type slot struct {
	marker    graphsync.RequestID
	msgs      []message.GraphSyncMessage
	errors    int
	gotMarker int
}

type recorder struct {
	mu     sync.Mutex
	cur    *slot
	notify chan struct{}
	stray  int // events that arrived while no case was running
}

func newRecorder() *recorder { return &recorder{notify: make(chan struct{}, 1)} }

func (rc *recorder) poke() {
	select {
	case rc.notify <- struct{}{}:
	default:
	}
}

func isMarker(m message.GraphSyncMessage, id graphsync.RequestID) bool {
	rs := m.Requests()
	return len(rs) == 1 && len(m.Responses()) == 0 && len(m.Blocks()) == 0 &&
		rs[0].ID() == id && rs[0].Type() == graphsync.RequestTypeCancel
}

func (rc *recorder) ReceiveMessage(_ context.Context, _ peer.ID, incoming message.GraphSyncMessage) {
	rc.mu.Lock()
	if rc.cur == nil {
		rc.stray++
	} else if isMarker(incoming, rc.cur.marker) {
		rc.cur.gotMarker++
	} else {
		rc.cur.msgs = append(rc.cur.msgs, incoming)
	}
	rc.mu.Unlock()
	rc.poke()
}

func (rc *recorder) ReceiveError(_ peer.ID, _ error) {
	rc.mu.Lock()
	if rc.cur == nil {
		rc.stray++
	} else {
		rc.cur.errors++
	}
	rc.mu.Unlock()
	rc.poke()
}

func (rc *recorder) Connected(peer.ID)    {}
func (rc *recorder) Disconnected(peer.ID) {}

func (rc *recorder) install(s *slot) {
	rc.mu.Lock()
	rc.cur = s
	rc.mu.Unlock()
}

// waitFor blocks until cond holds for the current slot, or the deadline passes
func (rc *recorder) waitFor(cond func(*slot) bool) bool {
	deadline := time.NewTimer(waitDeadline)
	defer deadline.Stop()
	for {
		rc.mu.Lock()
		ok := rc.cur != nil && cond(rc.cur)
		rc.mu.Unlock()
		if ok {
			return true
		}
		select {
		case <-rc.notify:
		case <-deadline.C:
			return false
		}
	}
}

// ---- the two-host world ----

type harness struct {
	w    *e2e.World
	rc   *recorder
	mh   *v2.MessageHandler
	odd  map[string]int // unexpected stream errors, by text
	runs int
}

func newHarness() (*harness, error) {
	w, err := e2e.NewWorld(2)
	if err != nil {
		return nil, err
	}
	h := &harness{w: w, rc: newRecorder(), mh: v2.NewMessageHandler(), odd: map[string]int{}}
	w.Nodes[1].Net.SetDelegate(h.rc)
	return h, nil
}

type streamEnd int

const (
	endEOF streamEnd = iota
	endReset
	endOther
	endHang
)

func isReset(err error) bool {
	return errors.Is(err, network.ErrReset) || strings.Contains(err.Error(), "reset")
}

// send writes the bytes on a fresh stream, half-closes it and reads until the remote side ends it
func (h *harness) send(input []byte) (streamEnd, error) {
	ctx, cancel := context.WithTimeout(h.w.Ctx, 30*time.Second)
	defer cancel()
	s, err := h.w.Nodes[0].Host.NewStream(ctx, h.w.Nodes[1].Host.ID(), gsnet.ProtocolGraphsync_2_0_0)
	if err != nil {
		return endOther, fmt.Errorf("NewStream: %w", err)
	}
	if len(input) > 0 {
		_, _ = s.Write(input) // fails when the handler has already reset the stream: seen by the read below
	}
	_ = s.CloseWrite()
	done := make(chan error, 1)
	go func() {
		buf := make([]byte, 4096)
		for {
			if _, err := s.Read(buf); err != nil {
				done <- err
				return
			}
		}
	}()
	timer := time.NewTimer(waitDeadline)
	defer timer.Stop()
	select {
	case err := <-done:
		_ = s.Close()
		switch {
		case err == io.EOF:
			return endEOF, nil
		case isReset(err):
			return endReset, nil
		}
		h.odd[err.Error()]++
		return endOther, nil
	case <-timer.C:
		_ = s.Reset()
		<-done
		return endHang, nil
	}
}

type hobs struct {
	msgs    []message.GraphSyncMessage
	errors  int
	reset   bool
	serving bool
	hang    string // non-empty: a wait expired
}

func markerID(idx, attempt int) graphsync.RequestID {
	b := []byte("verif-marker....")
	b[12], b[13], b[14], b[15] = byte(attempt), byte(idx>>16), byte(idx>>8), byte(idx)
	id, err := graphsync.ParseRequestID(b)
	if err != nil {
		panic(err)
	}
	return id
}

func (h *harness) observe(idx, attempt int, input []byte) (hobs, error) {
	var o hobs
	sl := &slot{marker: markerID(idx, attempt)}
	h.rc.install(sl)
	defer h.rc.install(nil)
	h.runs++
	end, err := h.send(input)
	if err != nil {
		return o, err
	}
	switch end {
	case endReset:
		o.reset = true
		// s.Reset() precedes `go receiver.ReceiveError`: wait until that call has arrived
		if !h.rc.waitFor(func(s *slot) bool { return s.errors >= 1 }) {
			o.hang = "stream reset but no ReceiveError within the deadline"
		}
	case endHang:
		o.hang = "handler neither closed nor reset the stream within the deadline"
	case endOther:
		o.hang = "stream ended with an unexpected error"
	}
	// a second stream with one well-formed message: the node still serves, and everything the first
	// stream's handler did has happened before this message is received
	var buf bytes.Buffer
	if err := h.mh.ToNet(thePeer, message.NewMessage(map[graphsync.RequestID]message.GraphSyncRequest{sl.marker: message.NewCancelRequest(sl.marker)}, nil, nil), &buf); err != nil {
		return o, fmt.Errorf("marker message: %w", err)
	}
	end2, err := h.send(buf.Bytes())
	if err != nil {
		return o, err
	}
	if end2 == endEOF {
		o.serving = h.rc.waitFor(func(s *slot) bool { return s.gotMarker >= 1 })
	}
	if !o.serving && o.hang == "" {
		o.hang = "the marker message on a second stream was not received"
	}
	h.rc.mu.Lock()
	o.msgs = append([]message.GraphSyncMessage(nil), sl.msgs...)
	o.errors = sl.errors
	h.rc.mu.Unlock()
	return o, nil
}

// ---- hash oracle over everything a decoder could meet in the input ----

func scanOracle(orc *oracle, input []byte) {
	rest := input
	for len(rest) > 0 {
		n, k, err := varint.FromUvarint(rest)
		if err != nil {
			return
		}
		rest = rest[k:]
		if n == 0 {
			continue
		}
		if n > uint64(network.MessageSizeMax) || n > uint64(len(rest)) {
			return
		}
		frame := rest[:n]
		rest = rest[n:]
		if t := decodeTree(frame); t != nil {
			walkPairs(orc, t)
		}
	}
}

func walkPairs(orc *oracle, n *nd) {
	if n.K == "list" && len(n.L) == 2 && n.L[0].K == "bytes" && n.L[1].K == "bytes" {
		if pref, err := cid.PrefixFromBytes(unhex(n.L[0].S)); err == nil {
			orc.addPrefix(pref, unhex(n.L[1].S))
		}
	}
	for _, k := range n.L {
		walkPairs(orc, k)
	}
	for _, e := range n.M {
		walkPairs(orc, e.V)
	}
}

func checkDelivered(m message.GraphSyncMessage) (bad [][2]string) {
	for _, b := range m.Blocks() {
		c2, err := b.Cid().Prefix().Sum(b.RawData())
		if err != nil || !c2.Equals(b.Cid()) {
			bad = append(bad, [2]string{"delivered block not keyed by the hash of its own bytes", "unverified-block"})
		}
	}
	for _, r := range m.Requests() {
		if len(r.ID().Bytes()) != 16 {
			bad = append(bad, [2]string{"delivered request id is not 16 bytes", "bad-id"})
		}
	}
	for _, r := range m.Responses() {
		if len(r.RequestID().Bytes()) != 16 {
			bad = append(bad, [2]string{"delivered response id is not 16 bytes", "bad-id"})
		}
	}
	return
}

// what one input made the implementation do, as Coq terms (JSON: a child process hands it to its parent)
type hparts struct {
	First     string   `json:"first"`
	FirstKind string   `json:"first_kind"`
	Seq       []string `json:"seq"`
	Msgs      []string `json:"msgs"`
	Errors    int      `json:"errors"`
	Reset     bool     `json:"reset"`
	Serving   bool     `json:"serving"`
	Panic     bool     `json:"panic"`
	Oracle    string   `json:"oracle"`
	Reruns    int      `json:"reruns"`
	Alloc     uint64   `json:"alloc"` // bytes the process allocated while observing (child process only)
	Viol      [][2]string `json:"viol"`
}

// observeCase: the real FromNet (once, and repeatedly on one reader) and the real handleNewStream on `input`
func observeCase(hn *harness, idx int, input []byte) (hparts, error) {
	var hp hparts
	mh := hn.mh
	rd := &renderer{}
	orc := newOracle()
	scanOracle(orc, input)

	first := fromNet(mh, input)
	if first.kind == "panic" {
		hp.Viol = append(hp.Viol, [2]string{"panic in FromNet: " + first.what, "panic-fromnet"})
	}
	if first.kind == "msg" {
		orc.addMsg(first.msg)
		hp.Viol = append(hp.Viol, checkDelivered(first.msg)...)
	}

	// the whole input read by successive FromNet calls on one reader (two kinds of reader must agree)
	for k, sr := range []io.Reader{bytes.NewBuffer(append([]byte(nil), input...)), &dribble{b: input}} {
		var ts []string
		for _, g := range fromNetSeq(mh, sr, len(input)+2) {
			if g.kind == "msg" {
				orc.addMsg(g.msg)
				hp.Viol = append(hp.Viol, checkDelivered(g.msg)...)
			}
			if g.kind == "panic" {
				hp.Viol = append(hp.Viol, [2]string{"panic in FromNet: " + g.what, "panic-fromnet"})
			}
			ts = append(ts, g.term(rd))
		}
		if k == 0 {
			hp.Seq = ts
		} else if strings.Join(ts, ";") != strings.Join(hp.Seq, ";") {
			hp.Viol = append(hp.Viol, [2]string{"successive FromNet calls give different results for different chunking of the same bytes", "fromnet-chunking"})
		}
	}

	o, err := hn.observe(idx, 0, input)
	if err != nil {
		return hp, err
	}
	if o.hang != "" {
		// a wait expired: rerun the case once before concluding
		hp.Reruns++
		firstHang := o.hang
		if o, err = hn.observe(idx, 1, input); err != nil {
			return hp, err
		}
		if o.hang != "" {
			hp.Viol = append(hp.Viol, [2]string{"hang: " + firstHang + "; on rerun: " + o.hang, "hang"})
		}
	}
	for _, m := range o.msgs {
		orc.addMsg(m)
		hp.Msgs = append(hp.Msgs, rd.msg(m))
		hp.Viol = append(hp.Viol, checkDelivered(m)...)
	}
	hp.First = first.term(rd)
	hp.FirstKind = first.kind
	if len(rd.odd) > 0 {
		hp.Viol = append(hp.Viol, [2]string{"delivered message with " + oddKey(rd.odd), "odd-value"})
	}
	hp.Errors, hp.Reset, hp.Serving, hp.Panic = o.errors, o.reset, o.serving, first.kind == "panic"
	hp.Oracle = orc.term()
	return hp, nil
}

// ---- resource bombs: run in a child process, because a Go stack overflow or an out-of-memory kill
// is not a panic and would take the driver down with it ----

type bombDesc struct {
	Kind string `json:"kind"` // nest-sel nest-ext nest-meta alloc big-frame
	N    int    `json:"n"`    // nesting depth / variant / frame body size
}

var bombID = []byte{0xb0, 0x0b, 1, 2, 3, 4, 5, 6, 7, 8, 9, 10, 11, 12, 13, 14}

func frameOf(body []byte) []byte { return append(varint.ToUvarint(uint64(len(body))), body...) }

func nested(n int, leaf []byte) []byte {
	b := bytes.Repeat([]byte{0x81}, n)
	return append(b, leaf...)
}

func (d bombDesc) input(mh *v2.MessageHandler) ([]byte, error) {
	cat := func(parts ...[]byte) []byte { return bytes.Join(parts, nil) }
	h := func(s string) []byte { return unhex(s) }
	reqHead := cat(h("a163677332a16372657181a362696450"), bombID) // {"gs2":{"req":[{"id":<16>,
	typeNew := h("6474797065616e")                                    // "type":"n"
	switch d.Kind {
	case "nest-sel": // selector nested d.N lists deep
		return frameOf(cat(reqHead, h("6373656c"), nested(d.N, []byte{0}), typeNew)), nil
	case "nest-ext": // extension value nested d.N lists deep
		return frameOf(cat(reqHead, h("63657874a16178"), nested(d.N, []byte{0}), typeNew)), nil
	case "nest-meta": // lists nested in metadata position
		return frameOf(cat(h("a163677332a16372737081a3647374617414646d657461"), nested(d.N, []byte{0}), h("65726571696450"), bombID)), nil
	case "alloc": // declared huge sizes with little behind them, as an extension value
		heads := []string{"5b7fffffffffffffff", "5b0000000001000000", "7b0000000040000000", "9b00000000009fffff", "9b0000000000a00001",
			"bb00000000009fffff", "bb7fffffffffffffff", "9a00a00000", "5a02000001", "9b0000000000100000"}
		hd := h(heads[d.N%len(heads)])
		return frameOf(cat(reqHead, h("63657874a16178"), hd, []byte{0, 0, 0}, typeNew)), nil
	case "len": // a length prefix far beyond the cap, with a little legitimate-looking data behind it
		lens := []uint64{1 << 62, 1<<63 - 1, 1 << 40, 1 << 31, 64<<20 + 1, 1 << 34}
		return cat(varint.ToUvarint(lens[d.N%len(lens)]), h("a163677332a0")), nil
	case "big-frame": // a legitimate message whose frame body has exactly d.N bytes: one padded block
		mk := func(l int) ([]byte, error) {
			data := bytes.Repeat([]byte{7}, l)
			c, err := cid.Prefix{Version: 1, Codec: cid.Raw, MhType: 0x12, MhLength: 32}.Sum(data)
			if err != nil {
				return nil, err
			}
			blk, err := blocks.NewBlockWithCid(data, c)
			if err != nil {
				return nil, err
			}
			var buf bytes.Buffer
			err = mh.ToNet(thePeer, message.NewMessage(nil, nil, map[cid.Cid]blocks.Block{c: blk}), &buf)
			return buf.Bytes(), err
		}
		probe, err := mk(100000)
		if err != nil {
			return nil, err
		}
		_, body, ok := splitPrefix(probe)
		if !ok {
			return nil, fmt.Errorf("big-frame: cannot split probe")
		}
		out, err := mk(d.N - (len(body) - 100000))
		if err != nil {
			return nil, err
		}
		if _, body, ok = splitPrefix(out); !ok || len(body) != d.N {
			return nil, fmt.Errorf("big-frame: body has %d bytes, wanted %d", len(body), d.N)
		}
		return out, nil
	}
	return nil, fmt.Errorf("unknown bomb kind %q", d.Kind)
}

const bombDeadline = 40 * time.Second

// runBombChild: `d_codec bombchild` reads inputs from stdin (8-byte big-endian length, then the bytes, repeated),
// observes each like any hostile case and prints one JSON line per input as soon as it is done
func runBombChild() {
	hn, err := newHarness()
	if err != nil {
		fmt.Fprintln(os.Stderr, "bombchild:", err)
		os.Exit(3)
	}
	in := bufio.NewReaderSize(os.Stdin, 1<<16)
	out := bufio.NewWriter(os.Stdout)
	for idx := 0; ; idx++ {
		var lb [8]byte
		if _, err := io.ReadFull(in, lb[:]); err != nil {
			if err == io.EOF {
				break
			}
			fmt.Fprintln(os.Stderr, "bombchild:", err)
			os.Exit(3)
		}
		input := make([]byte, binary.BigEndian.Uint64(lb[:]))
		if _, err := io.ReadFull(in, input); err != nil {
			fmt.Fprintln(os.Stderr, "bombchild:", err)
			os.Exit(3)
		}
		var m0, m1 runtime.MemStats
		runtime.ReadMemStats(&m0)
		hp, err := observeCase(hn, idx, input)
		if err != nil {
			fmt.Fprintln(os.Stderr, "bombchild:", err)
			os.Exit(3)
		}
		runtime.ReadMemStats(&m1)
		hp.Alloc = m1.TotalAlloc - m0.TotalAlloc
		line, _ := json.Marshal(hp)
		out.Write(line)
		out.WriteByte('\n')
		out.Flush()
	}
	os.Exit(0)
}

// observeBatch observes the inputs one after another in child processes: a child that dies (or does not answer)
// while working on input k yields died[k] != "" and the remaining inputs go to a fresh child
func observeBatch(inputs [][]byte) ([]hparts, []string, error) {
	res := make([]hparts, len(inputs))
	died := make([]string, len(inputs))
	exe, err := os.Executable()
	if err != nil {
		return nil, nil, err
	}
	for start := 0; start < len(inputs); {
		rest := inputs[start:]
		var stdin bytes.Buffer
		for _, in := range rest {
			var lb [8]byte
			binary.BigEndian.PutUint64(lb[:], uint64(len(in)))
			stdin.Write(lb[:])
			stdin.Write(in)
		}
		deadline := bombDeadline + time.Duration(len(rest))*2*time.Second
		ctx, cancel := context.WithTimeout(context.Background(), deadline)
		cmd := exec.CommandContext(ctx, exe, "bombchild")
		cmd.Stdin = &stdin
		var stdout, stderr bytes.Buffer
		cmd.Stdout, cmd.Stderr = &stdout, &stderr
		runErr := cmd.Run()
		timedOut := ctx.Err() != nil
		cancel()
		if ee, ok := runErr.(*exec.ExitError); ok && ee.ExitCode() == 3 {
			return nil, nil, fmt.Errorf("bombchild setup failed: %s", firstLine(stderr.String()))
		}
		k := 0
		for _, line := range bytes.Split(stdout.Bytes(), []byte{'\n'}) {
			if len(line) == 0 || k >= len(rest) {
				continue
			}
			var hp hparts
			if err := json.Unmarshal(line, &hp); err != nil {
				break // a line cut short by the child's death
			}
			res[start+k] = hp
			k++
		}
		if k == len(rest) && runErr == nil {
			break
		}
		if k < len(rest) {
			how := firstLine(stderr.String())
			if timedOut {
				how = fmt.Sprintf("no answer within %s (killed)", deadline)
			}
			died[start+k] = fmt.Sprintf("%s [%v]", how, runErr)
		}
		start += k + 1
	}
	return res, died, nil
}

// declaresHuge: some frame of the input announces a body larger than any the reader may allocate by far;
// such inputs are observed in a child process (a reader that trusts the prefix dies of memory exhaustion,
// which no recover() catches)
const hugeDeclared = 16 << 20

func declaresHuge(input []byte) bool {
	rest := input
	for len(rest) > 0 {
		n, k, err := varint.FromUvarint(rest)
		if err != nil {
			return false
		}
		if n > hugeDeclared {
			return true
		}
		rest = rest[k:]
		if n > uint64(len(rest)) {
			return false
		}
		rest = rest[n:]
	}
	return false
}

// what a reader may allocate for an input when it honours the 4 MiB frame cap (frames are copied and rendered a
// few times by the driver itself)
func allocBound(input []byte) uint64 { return 96<<20 + 64*uint64(len(input)) }

func firstLine(s string) string {
	lines := strings.Split(s, "\n")
	for _, l := range lines {
		if strings.Contains(l, "fatal error") || strings.Contains(l, "panic:") || strings.Contains(l, "signal") {
			return strings.TrimSpace(l)
		}
	}
	for _, l := range lines {
		if strings.TrimSpace(l) != "" {
			return strings.TrimSpace(l)
		}
	}
	return "(no output)"
}

func bombCases(thorough bool) []hostileCase {
	mk := func(kind string, n int) hostileCase {
		return hostileCase{Bomb: &bombDesc{Kind: kind, N: n}, Tags: []string{"bomb", "bomb:" + kind}}
	}
	cs := []hostileCase{mk("nest-sel", 2000), mk("nest-ext", 100000), mk("nest-sel", 3000000), mk("alloc", 0), mk("alloc", 4),
		mk("big-frame", 1<<18), mk("big-frame", network.MessageSizeMax+1), mk("len", 0), mk("len", 1), mk("len", 2), mk("len", 3)}
	if thorough {
		cs = append(cs, mk("nest-ext", 3000000), mk("nest-meta", 100000), mk("nest-sel", 1019), mk("nest-sel", 1021), mk("big-frame", network.MessageSizeMax-1), mk("big-frame", network.MessageSizeMax), mk("len", 4), mk("len", 5))
		for i := 1; i < 10; i++ {
			if i != 4 {
				cs = append(cs, mk("alloc", i))
			}
		}
	}
	return cs
}

func runHostile(c *drv.Ctx) error {
	w := cw.New(c.Out, casesHeader, "hcase", []cw.Check{
		{Name: "MISMATCH", Fn: "hcase_agrees"},
		{Name: "MON12", Fn: "hcase_mon"},
	})
	w.Stats.Rule = "byte strings: 1-3 valid encoded messages (codec generator, real ToNet) with 1-3 mutation operators (structural edits of the decoded tree re-encoded by dagcbor.Encode: " +
		"wrong kinds, unknown enums, member names, undefined statuses, id lengths, unknown keys, schema field names, missing fields, null selector, priority range, tuple arity, bad CID prefixes, duplicates; " +
		"hand-assembled CBOR: non-minimal heads, indefinite lengths, duplicate / non-string / tagged keys, tags, half/single floats, NaN/Inf, simple values, integer range, huge counts, deep nesting, corrupt links; " +
		"length-prefix edits; trailing bytes; byte-level edits; truncation), 10% unmutated, 5% valid-then-malformed, 8% random bytes; each given to the real FromNet and, over a mocknet stream, " +
		"to the real handleNewStream with a recording Receiver, followed by a well-formed message on a second stream; plus a few resource bombs (nesting 2k/100k/3M deep, declared huge sizes, a frame of MessageSizeMax-1 bytes) each observed the same way in a child process (a dead child is a violation); " +
		"non-trivial = non-empty input and (a message was delivered or the error came after the length prefix was read); distinct = distinct terms"
	hn, err := newHarness()
	if err != nil {
		return err
	}
	defer hn.w.Close()
	mh := hn.mh
	reruns := 0

	crashes := 0
	inflight := filepath.Join(c.Out, "inflight.json")
	_ = os.MkdirAll(c.Out, 0o755)
	record := func(hc hostileCase, kind string, input []byte, hp hparts, died string) {
		if died != "" {
			// nothing was observed: what a crashed node leaves behind
			crashes++
			hp = hparts{First: "GPanic", FirstKind: "died", Seq: []string{"GPanic"}, Oracle: "[]"}
			hp.Viol = [][2]string{{"process died: " + died, "hostile-crash"}}
		}
		reruns += hp.Reruns
		_, _, perr := varint.FromUvarint(input)
		nontrivial := len(input) > 0 && (len(hp.Msgs) > 0 || (hp.FirstKind == "err" && perr == nil))
		tags := append([]string{"kind:" + kind}, hc.Tags...)
		tags = append(tags, "go-first:"+hp.FirstKind, fmt.Sprintf("go-delivered:%d", len(hp.Msgs)))
		if hp.Reset {
			tags = append(tags, "go-reset")
		}
		term := fmt.Sprintf("(mk_hcase %s %s\n    %s\n    %s %d %s %s %s %s\n    %s)", hx(input), hp.First, cw.List(hp.Seq), cw.List(hp.Msgs), hp.Errors,
			cw.Bool(hp.Reset), cw.Bool(hp.Serving), cw.Bool(hp.Panic), cw.Bool(died == ""), hp.Oracle)
		got := w.Add(term, hc, nontrivial, tags...)
		seen := map[string]bool{}
		for _, v := range hp.Viol {
			if !seen[v[0]] {
				seen[v[0]] = true
				w.Violation(got, v[0], v[1])
			}
		}
	}
	// inputs observed in a child process (resource bombs, declared lengths far beyond the frame cap): collected and
	// run at the end
	type pend struct {
		hc    hostileCase
		kind  string
		input []byte
	}
	var pending []pend
	run := func(hc hostileCase, kind string) error {
		var input []byte
		if hc.Bomb != nil {
			var err error
			if input, err = hc.Bomb.input(mh); err != nil {
				return err
			}
		} else {
			input = unhex(hc.Hex)
		}
		if hc.Bomb != nil || declaresHuge(input) {
			if hc.Bomb == nil {
				hc.Tags = append(hc.Tags, "in-child")
			}
			pending = append(pending, pend{hc, kind, input})
			return nil
		}
		// should this process die or hang while running the input, bin/check reports the input recorded here
		if ij, err := json.Marshal(hc); err == nil {
			_ = os.WriteFile(inflight, ij, 0o644)
		}
		hp, err := observeCase(hn, w.Stats.Evaluations, input)
		if err != nil {
			return err
		}
		record(hc, kind, input, hp, "")
		return nil
	}
	runPending := func() error {
		inputs := make([][]byte, len(pending))
		for i, p := range pending {
			inputs[i] = p.input
		}
		res, died, err := observeBatch(inputs)
		if err != nil {
			return err
		}
		for i, p := range pending {
			hp := res[i]
			if died[i] == "" && hp.Alloc > allocBound(p.input) {
				hp.Viol = append(hp.Viol, [2]string{fmt.Sprintf("%d MiB allocated while reading an input of %d bytes", hp.Alloc>>20, len(p.input)), "hostile-alloc"})
			}
			record(p.hc, p.kind, p.input, hp, died[i])
		}
		pending = nil
		return nil
	}

	finish := func() error {
		if err := runPending(); err != nil {
			return err
		}
		_ = os.Remove(inflight)
		hn.rc.mu.Lock()
		stray := hn.rc.stray
		hn.rc.mu.Unlock()
		w.Stats.Extra = map[string]any{"child_observed_inputs_that_killed_the_child": crashes, "reruns_after_expired_wait": reruns, "receiver_events_outside_a_case": stray, "unexpected_stream_errors": hn.odd}
		return w.Flush()
	}
	if c.Replay != "" {
		var hc hostileCase
		if err := drv.ReplayCase(c.Replay, &hc); err != nil {
			return err
		}
		if err := run(hc, "replay"); err != nil {
			return err
		}
		return finish()
	}
	for _, f := range c.CorpusFiles("hostile") {
		var hc hostileCase
		if err := drv.ReplayCase(f, &hc); err != nil {
			return fmt.Errorf("%s: %w", f, err)
		}
		if err := run(hc, "corpus"); err != nil {
			return fmt.Errorf("%s: %w", f, err)
		}
	}
	n := c.Count(1500, 40000)
	root := c.R.Fork() // see runCodec: neighbouring seeds must not share per-case streams
	for i := 0; i < n; i++ {
		input, tags := genHostile(mh, root.Fork())
		if err := run(hostileCase{Hex: hexs(input), Tags: tags}, "generated"); err != nil {
			return err
		}
	}
	// resource bombs last (their own child process each; the big ones land in the last shard)
	for _, hc := range bombCases(c.Thorough()) {
		if err := run(hc, "bomb"); err != nil {
			return err
		}
	}
	return finish()
}
