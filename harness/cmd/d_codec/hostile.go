package main

// Driver "hostile" (C12): arbitrary bytes handed to the real FromNet and, over a libp2p mocknet stream,
// to the real network.handleNewStream with a recording Receiver.

import (
	"bytes"
	"context"
	"errors"
	"fmt"
	"io"
	"strings"
	"sync"
	"time"

	"github.com/ipfs/go-cid"
	"github.com/libp2p/go-libp2p/core/network"
	"github.com/libp2p/go-libp2p/core/peer"
	"github.com/multiformats/go-varint"

	"github.com/ipfs/go-graphsync"
	"github.com/ipfs/go-graphsync/message"
	v2 "github.com/ipfs/go-graphsync/message/v2"
	gsnet "github.com/ipfs/go-graphsync/network"

	"verif/harness/internal/cw"
	"verif/harness/internal/drv"
	"verif/harness/internal/e2e"
)

type hostileCase struct {
	Hex  string   `json:"hex"`
	Tags []string `json:"tags,omitempty"`
}

const waitDeadline = 10 * time.Second

// ---- recording Receiver: events are routed to the slot of the case that is running ----

type slot struct {
	marker    graphsync.RequestID
	msgs      []message.GraphSyncMessage
	errors    int
	gotMarker int
}

type recorder struct {
	mu     sync.Mutex
	cur    *slot
	notify chan struct{}
	stray  int // events that arrived while no case was running
}

func newRecorder() *recorder { return &recorder{notify: make(chan struct{}, 1)} }

func (rc *recorder) poke() {
	select {
	case rc.notify <- struct{}{}:
	default:
	}
}

func isMarker(m message.GraphSyncMessage, id graphsync.RequestID) bool {
	rs := m.Requests()
	return len(rs) == 1 && len(m.Responses()) == 0 && len(m.Blocks()) == 0 &&
		rs[0].ID() == id && rs[0].Type() == graphsync.RequestTypeCancel
}

func (rc *recorder) ReceiveMessage(_ context.Context, _ peer.ID, incoming message.GraphSyncMessage) {
	rc.mu.Lock()
	if rc.cur == nil {
		rc.stray++
	} else if isMarker(incoming, rc.cur.marker) {
		rc.cur.gotMarker++
	} else {
		rc.cur.msgs = append(rc.cur.msgs, incoming)
	}
	rc.mu.Unlock()
	rc.poke()
}

func (rc *recorder) ReceiveError(_ peer.ID, _ error) {
	rc.mu.Lock()
	if rc.cur == nil {
		rc.stray++
	} else {
		rc.cur.errors++
	}
	rc.mu.Unlock()
	rc.poke()
}

func (rc *recorder) Connected(peer.ID)    {}
func (rc *recorder) Disconnected(peer.ID) {}

func (rc *recorder) install(s *slot) {
	rc.mu.Lock()
	rc.cur = s
	rc.mu.Unlock()
}

// waitFor blocks until cond holds for the current slot, or the deadline passes
func (rc *recorder) waitFor(cond func(*slot) bool) bool {
	deadline := time.NewTimer(waitDeadline)
	defer deadline.Stop()
	for {
		rc.mu.Lock()
		ok := rc.cur != nil && cond(rc.cur)
		rc.mu.Unlock()
		if ok {
			return true
		}
		select {
		case <-rc.notify:
		case <-deadline.C:
			return false
		}
	}
}

// ---- the two-host world ----

type harness struct {
	w    *e2e.World
	rc   *recorder
	mh   *v2.MessageHandler
	odd  map[string]int // unexpected stream errors, by text
	runs int
}

func newHarness() (*harness, error) {
	w, err := e2e.NewWorld(2)
	if err != nil {
		return nil, err
	}
	h := &harness{w: w, rc: newRecorder(), mh: v2.NewMessageHandler(), odd: map[string]int{}}
	w.Nodes[1].Net.SetDelegate(h.rc)
	return h, nil
}

type streamEnd int

const (
	endEOF streamEnd = iota
	endReset
	endOther
	endHang
)

func isReset(err error) bool {
	return errors.Is(err, network.ErrReset) || strings.Contains(err.Error(), "reset")
}

// send writes the bytes on a fresh stream, half-closes it and reads until the remote side ends it
func (h *harness) send(input []byte) (streamEnd, error) {
	ctx, cancel := context.WithTimeout(h.w.Ctx, 30*time.Second)
	defer cancel()
	s, err := h.w.Nodes[0].Host.NewStream(ctx, h.w.Nodes[1].Host.ID(), gsnet.ProtocolGraphsync_2_0_0)
	if err != nil {
		return endOther, fmt.Errorf("NewStream: %w", err)
	}
	if len(input) > 0 {
		_, _ = s.Write(input) // fails when the handler has already reset the stream: seen by the read below
	}
	_ = s.CloseWrite()
	done := make(chan error, 1)
	go func() {
		buf := make([]byte, 4096)
		for {
			if _, err := s.Read(buf); err != nil {
				done <- err
				return
			}
		}
	}()
	timer := time.NewTimer(waitDeadline)
	defer timer.Stop()
	select {
	case err := <-done:
		_ = s.Close()
		switch {
		case err == io.EOF:
			return endEOF, nil
		case isReset(err):
			return endReset, nil
		}
		h.odd[err.Error()]++
		return endOther, nil
	case <-timer.C:
		_ = s.Reset()
		<-done
		return endHang, nil
	}
}

type hobs struct {
	msgs    []message.GraphSyncMessage
	errors  int
	reset   bool
	serving bool
	hang    string // non-empty: a wait expired
}

func markerID(idx, attempt int) graphsync.RequestID {
	b := []byte("verif-marker....")
	b[12], b[13], b[14], b[15] = byte(attempt), byte(idx>>16), byte(idx>>8), byte(idx)
	id, err := graphsync.ParseRequestID(b)
	if err != nil {
		panic(err)
	}
	return id
}

func (h *harness) observe(idx, attempt int, input []byte) (hobs, error) {
	var o hobs
	sl := &slot{marker: markerID(idx, attempt)}
	h.rc.install(sl)
	defer h.rc.install(nil)
	h.runs++
	end, err := h.send(input)
	if err != nil {
		return o, err
	}
	switch end {
	case endReset:
		o.reset = true
		// s.Reset() precedes `go receiver.ReceiveError`: wait until that call has arrived
		if !h.rc.waitFor(func(s *slot) bool { return s.errors >= 1 }) {
			o.hang = "stream reset but no ReceiveError within the deadline"
		}
	case endHang:
		o.hang = "handler neither closed nor reset the stream within the deadline"
	case endOther:
		o.hang = "stream ended with an unexpected error"
	}
	// a second stream with one well-formed message: the node still serves, and everything the first
	// stream's handler did has happened before this message is received
	var buf bytes.Buffer
	if err := h.mh.ToNet(thePeer, message.NewMessage(map[graphsync.RequestID]message.GraphSyncRequest{sl.marker: message.NewCancelRequest(sl.marker)}, nil, nil), &buf); err != nil {
		return o, fmt.Errorf("marker message: %w", err)
	}
	end2, err := h.send(buf.Bytes())
	if err != nil {
		return o, err
	}
	if end2 == endEOF {
		o.serving = h.rc.waitFor(func(s *slot) bool { return s.gotMarker >= 1 })
	}
	if !o.serving && o.hang == "" {
		o.hang = "the marker message on a second stream was not received"
	}
	h.rc.mu.Lock()
	o.msgs = append([]message.GraphSyncMessage(nil), sl.msgs...)
	o.errors = sl.errors
	h.rc.mu.Unlock()
	return o, nil
}

// ---- hash oracle over everything a decoder could meet in the input ----

func scanOracle(orc *oracle, input []byte) {
	rest := input
	for len(rest) > 0 {
		n, k, err := varint.FromUvarint(rest)
		if err != nil {
			return
		}
		rest = rest[k:]
		if n == 0 {
			continue
		}
		if n > uint64(network.MessageSizeMax) || n > uint64(len(rest)) {
			return
		}
		frame := rest[:n]
		rest = rest[n:]
		if t := decodeTree(frame); t != nil {
			walkPairs(orc, t)
		}
	}
}

func walkPairs(orc *oracle, n *nd) {
	if n.K == "list" && len(n.L) == 2 && n.L[0].K == "bytes" && n.L[1].K == "bytes" {
		if pref, err := cid.PrefixFromBytes(unhex(n.L[0].S)); err == nil {
			orc.addPrefix(pref, unhex(n.L[1].S))
		}
	}
	for _, k := range n.L {
		walkPairs(orc, k)
	}
	for _, e := range n.M {
		walkPairs(orc, e.V)
	}
}

func checkDelivered(m message.GraphSyncMessage) (bad [][2]string) {
	for _, b := range m.Blocks() {
		c2, err := b.Cid().Prefix().Sum(b.RawData())
		if err != nil || !c2.Equals(b.Cid()) {
			bad = append(bad, [2]string{"delivered block not keyed by the hash of its own bytes", "unverified-block"})
		}
	}
	for _, r := range m.Requests() {
		if len(r.ID().Bytes()) != 16 {
			bad = append(bad, [2]string{"delivered request id is not 16 bytes", "bad-id"})
		}
	}
	for _, r := range m.Responses() {
		if len(r.RequestID().Bytes()) != 16 {
			bad = append(bad, [2]string{"delivered response id is not 16 bytes", "bad-id"})
		}
	}
	return
}

func runHostile(c *drv.Ctx) error {
	w := cw.New(c.Out, casesHeader, "hcase", []cw.Check{
		{Name: "MISMATCH", Fn: "hcase_agrees"},
		{Name: "MON12", Fn: "hcase_mon"},
	})
	w.Stats.Rule = "byte strings: 1-3 valid encoded messages (codec generator, real ToNet) with 1-3 mutation operators (structural edits of the decoded tree re-encoded by dagcbor.Encode: " +
		"wrong kinds, unknown enums, member names, undefined statuses, id lengths, unknown keys, schema field names, missing fields, null selector, priority range, tuple arity, bad CID prefixes, duplicates; " +
		"hand-assembled CBOR: non-minimal heads, indefinite lengths, duplicate / non-string / tagged keys, tags, half/single floats, NaN/Inf, simple values, integer range, huge counts, deep nesting, corrupt links; " +
		"length-prefix edits; trailing bytes; byte-level edits; truncation), 10% unmutated, 5% valid-then-malformed, 8% random bytes; each given to the real FromNet and, over a mocknet stream, " +
		"to the real handleNewStream with a recording Receiver, followed by a well-formed message on a second stream; " +
		"non-trivial = non-empty input and (a message was delivered or the error came after the length prefix was read); distinct = distinct terms"
	hn, err := newHarness()
	if err != nil {
		return err
	}
	defer hn.w.Close()
	mh := hn.mh
	reruns := 0

	run := func(hc hostileCase, kind string) error {
		input := unhex(hc.Hex)
		rd := &renderer{}
		orc := newOracle()
		scanOracle(orc, input)
		var violations [][2]string

		first := fromNet(mh, input)
		if first.kind == "panic" {
			violations = append(violations, [2]string{"panic in FromNet: " + first.what, "panic-fromnet"})
		}
		if first.kind == "msg" {
			orc.addMsg(first.msg)
			violations = append(violations, checkDelivered(first.msg)...)
		}

		// the whole input read by successive FromNet calls on one reader (two kinds of reader must agree)
		var seqTerms []string
		for k, sr := range []io.Reader{bytes.NewBuffer(append([]byte(nil), input...)), &dribble{b: input}} {
			var ts []string
			for _, g := range fromNetSeq(mh, sr, len(input)+2) {
				if g.kind == "msg" {
					orc.addMsg(g.msg)
					violations = append(violations, checkDelivered(g.msg)...)
				}
				if g.kind == "panic" {
					violations = append(violations, [2]string{"panic in FromNet: " + g.what, "panic-fromnet"})
				}
				ts = append(ts, g.term(rd))
			}
			if k == 0 {
				seqTerms = ts
			} else if strings.Join(ts, ";") != strings.Join(seqTerms, ";") {
				violations = append(violations, [2]string{"successive FromNet calls give different results for different chunking of the same bytes", "fromnet-chunking"})
			}
		}

		idx := w.Stats.Evaluations
		o, err := hn.observe(idx, 0, input)
		if err != nil {
			return err
		}
		if o.hang != "" {
			// a wait expired: rerun the case once before concluding
			reruns++
			first := o.hang
			if o, err = hn.observe(idx, 1, input); err != nil {
				return err
			}
			if o.hang != "" {
				violations = append(violations, [2]string{"hang: " + first + "; on rerun: " + o.hang, "hang"})
			}
		}
		var msgTerms []string
		for _, m := range o.msgs {
			orc.addMsg(m)
			msgTerms = append(msgTerms, rd.msg(m))
			violations = append(violations, checkDelivered(m)...)
		}
		firstTerm := first.term(rd)
		if len(rd.odd) > 0 {
			violations = append(violations, [2]string{"delivered message with " + oddKey(rd.odd), "odd-value"})
		}
		_, _, perr := varint.FromUvarint(input)
		nontrivial := len(input) > 0 && (len(o.msgs) > 0 || (first.kind == "err" && perr == nil))
		tags := append([]string{"kind:" + kind}, hc.Tags...)
		tags = append(tags, "go-first:"+first.kind, fmt.Sprintf("go-delivered:%d", len(o.msgs)))
		if o.reset {
			tags = append(tags, "go-reset")
		}
		term := fmt.Sprintf("(mk_hcase %s %s\n    %s\n    %s %d %s %s %s\n    %s)", hx(input), firstTerm, cw.List(seqTerms), cw.List(msgTerms), o.errors,
			cw.Bool(o.reset), cw.Bool(o.serving), cw.Bool(first.kind == "panic"), orc.term())
		got := w.Add(term, hc, nontrivial, tags...)
		seen := map[string]bool{}
		for _, v := range violations {
			if !seen[v[0]] {
				seen[v[0]] = true
				w.Violation(got, v[0], v[1])
			}
		}
		return nil
	}

	finish := func() error {
		hn.rc.mu.Lock()
		stray := hn.rc.stray
		hn.rc.mu.Unlock()
		w.Stats.Extra = map[string]any{"reruns_after_expired_wait": reruns, "receiver_events_outside_a_case": stray, "unexpected_stream_errors": hn.odd}
		return w.Flush()
	}
	if c.Replay != "" {
		var hc hostileCase
		if err := drv.ReplayCase(c.Replay, &hc); err != nil {
			return err
		}
		if err := run(hc, "replay"); err != nil {
			return err
		}
		return finish()
	}
	for _, f := range c.CorpusFiles("hostile") {
		var hc hostileCase
		if err := drv.ReplayCase(f, &hc); err != nil {
			return fmt.Errorf("%s: %w", f, err)
		}
		if err := run(hc, "corpus"); err != nil {
			return fmt.Errorf("%s: %w", f, err)
		}
	}
	n := c.Count(1500, 40000)
	root := c.R.Fork() // see runCodec: neighbouring seeds must not share per-case streams
	for i := 0; i < n; i++ {
		input, tags := genHostile(mh, root.Fork())
		if err := run(hostileCase{Hex: hexs(input), Tags: tags}, "generated"); err != nil {
			return err
		}
	}
	return finish()
}
