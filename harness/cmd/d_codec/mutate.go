package main

// Hostile input generation: valid encoded messages (from the codec generator, encoded with the real
// ToNet) put through mutation operators: structural edits on the decoded DAG-CBOR tree (re-encoded with
// the real dagcbor.Encode), hand-assembled CBOR the encoder cannot produce, length-prefix edits,
// trailing garbage, byte-level edits and truncation; plus a separate fully random stream.

import (
	"bytes"
	"encoding/binary"
	"fmt"
	"strings"

	v2 "github.com/ipfs/go-graphsync/message/v2"

	"verif/harness/internal/rng"
)

type hframe struct {
	prefix []byte // nil = the canonical uvarint of len(body)
	body   []byte
}

func uvar(n uint64) []byte {
	b := make([]byte, binary.MaxVarintLen64)
	return b[:binary.PutUvarint(b, n)]
}

func assemble(fs []hframe) []byte {
	var out []byte
	for _, f := range fs {
		if f.prefix != nil {
			out = append(out, f.prefix...)
		} else {
			out = append(out, uvar(uint64(len(f.body)))...)
		}
		out = append(out, f.body...)
	}
	return out
}

// validFrame: one generated message through the real ToNet, as a frame body
func validFrame(mh *v2.MessageHandler, r *rng.R, tg tagset, o msgOpts) hframe {
	for {
		d := genMsg(r, tagset{}, o) // tags of the base messages are not reported for hostile cases
		m, err := d.build()
		if err != nil {
			panic(fmt.Sprintf("hostile base message does not build: %v", err))
		}
		b, err := toNet(mh, m, &d)
		if err != nil {
			panic(fmt.Sprintf("hostile base message does not encode: %v", err))
		}
		_, body, ok := splitPrefix(b)
		if !ok {
			panic("ToNet output without a well-formed length prefix")
		}
		if len(body) > 700 && !o.rich {
			continue
		}
		return hframe{body: append([]byte(nil), body...)}
	}
}

// ---------- tree operators ----------

type treeCtx struct {
	r                *rng.R
	root, gs2        *nd
	reqs, rsps, blks []*nd
}

func newTreeCtx(r *rng.R, root *nd) *treeCtx {
	t := &treeCtx{r: r, root: root, gs2: root.get("gs2")}
	lst := func(k string) []*nd {
		if l := t.gs2.get(k); l != nil && l.K == "list" {
			return l.L
		}
		return nil
	}
	if t.gs2 != nil {
		t.reqs, t.rsps, t.blks = lst("req"), lst("rsp"), lst("blk")
	}
	return t
}

func pickNd(r *rng.R, l []*nd) *nd {
	if len(l) == 0 {
		return nil
	}
	return l[r.Intn(len(l))]
}

func bts(h string) *nd       { return &nd{K: "bytes", S: h} }
func txt(s string) *nd       { return &nd{K: "str", S: hk(s)} }
func num(i int64) *nd        { return &nd{K: "int", I: i} }
func unum(s string) *nd      { return &nd{K: "uint", U: s} }
func rawNd(h string) *nd     { return &nd{K: "raw", S: strings.ReplaceAll(h, " ", "")} }
func lst(xs ...*nd) *nd      { return &nd{K: "list", L: xs} }
func mp(es ...me) *nd        { return &nd{K: "map", M: es} }
func ent(k string, v *nd) me { return me{K: hk(k), V: v} }

const someCidV1 = "01551220e3b0c44298fc1c149afbf4c8996fb92427ae41e4649b934ca495991b7852b855"

func otherKind(r *rng.R, cur *nd) *nd {
	cands := []*nd{num(5), num(-1), bts("00"), bts(strings.Repeat("00", 16)), txt("x"), txt("n"), {K: "null"}, {K: "bool", B: true},
		lst(), mp(), lst(num(1)), {K: "float", U: "4609434218613702656"}, {K: "link", S: someCidV1}, unum("18446744073709551615"), mp(ent("a", num(1)))}
	for {
		c := rng.Pick(r, cands)
		if cur == nil || c.K != cur.K {
			return c.clone()
		}
	}
}

// every place where a schema type expects a particular kind
func (t *treeCtx) typedSlots() []*nd {
	var s []*nd
	add := func(n *nd) {
		if n != nil {
			s = append(s, n)
		}
	}
	add(t.root)
	add(t.gs2)
	if t.gs2 != nil {
		add(t.gs2.get("req"))
		add(t.gs2.get("rsp"))
		add(t.gs2.get("blk"))
	}
	for _, q := range t.reqs {
		add(q)
		for _, k := range []string{"id", "type", "pri", "root", "ext"} {
			add(q.get(k))
		}
	}
	for _, q := range t.rsps {
		add(q)
		for _, k := range []string{"reqid", "stat", "meta", "ext"} {
			add(q.get(k))
		}
		if m := q.get("meta"); m != nil {
			for _, tu := range m.L {
				add(tu)
				for _, x := range tu.L {
					add(x)
				}
			}
		}
	}
	for _, b := range t.blks {
		add(b)
		for _, x := range b.L {
			add(x)
		}
	}
	return s
}

var schemaNames = map[string]string{"type": "requestType", "pri": "priority", "sel": "selector", "ext": "extensions", "stat": "status",
	"meta": "metadata", "req": "requests", "rsp": "responses", "blk": "blocks", "gs2": "GraphSyncMessage", "reqid": "id", "root": "root", "id": "id"}

func (t *treeCtx) structMaps() []*nd {
	var s []*nd
	if t.root != nil && t.root.K == "map" {
		s = append(s, t.root)
	}
	if t.gs2 != nil && t.gs2.K == "map" {
		s = append(s, t.gs2)
	}
	for _, q := range append(append([]*nd{}, t.reqs...), t.rsps...) {
		if q.K == "map" {
			s = append(s, q)
		}
	}
	return s
}

func (t *treeCtx) links() []*nd {
	var out []*nd
	var walk func(n *nd)
	walk = func(n *nd) {
		if n == nil {
			return
		}
		if n.K == "link" {
			out = append(out, n)
		}
		for _, k := range n.L {
			walk(k)
		}
		for _, e := range n.M {
			walk(e.V)
		}
	}
	walk(t.root)
	return out
}

var badPrefixes = []string{
	"0155990120",                         // unknown hash code 0x99
	"01551120",                           // sha1 with length 32 (too long)
	"01551114",                           // sha1, 20
	"0155d50110",                         // md5
	"01551620",                           // sha3-256
	"0155a0e40220",                       // blake2b-256
	"00701340",                           // version 0 with sha2-512
	"00551220",                           // version 0 with the raw codec
	"00711220",                           // version 0 with dag-cbor
	"00700020",                           // version 0 with identity
	"02551220",                           // version 2
	"03701220",                           // version 3
	"00701214",                           // version 0, length 20
	"015512",                             // truncated
	"01",                                 // truncated
	"0155",                               // truncated (ends on a varint boundary)
	"",                                   // empty
	"0155920020",                         // over-long varint for the hash code
	"810055" + "1220",                    // over-long varint for the version
	"01551214",                           // sha2-256 truncated to 20 (valid)
	"01551221",                           // sha2-256 with length 33 (too long)
	"01551200",                           // sha2-256 with length 0
	"01711340",                           // sha2-512 (valid)
	"01711320",                           // sha2-512 truncated to 32 (valid)
	"01551220ffff",                       // trailing bytes after the prefix
	"01550005",                           // identity, stated length ignored
	"01550000",                           // identity
	"01" + "ffffffffffffffff7f" + "1220", // huge codec
	"015512ffffffffffffffff7f",           // length 2^63-1
	"0155128080808008",                   // length 2^31
	"0155ffffffffffffffff7f20",           // hash code 2^63-1
	"01551280",                           // unfinished varint
	"0155128080808080808080808001",       // varint too long
	"00701220",                           // the CIDv0 prefix itself (valid)
	"01701220",
}

var badStatuses = []*nd{num(0), num(16), num(22), num(99), num(-1), num(9), num(36), num(1 << 31), num(-(1 << 31)), num(1<<31 - 1),
	unum("9223372036854775808"), unum("18446744073709551615"), num(-1 << 63), num(1<<63 - 1), num(10 + 1<<32), num(20), num(35)}

var badPriorities = []*nd{num(1<<32 + 5), num(-(1 << 40)), unum("9223372036854775808"), num(1 << 31), num(-(1 << 31) - 1), num(1<<31 - 1),
	num(-(1 << 31)), unum("18446744073709551615"), num(-1 << 63), num(0), num(1 << 32)}

// rawValues: single CBOR items (or non-items) the real encoder never emits
var rawValues = []string{
	// non-minimal heads
	"1805", "1817", "1818", "190010", "1900ff", "190100", "1a00000100", "1a0000ffff", "1a00010000", "1b0000000000000001", "1b00000000ffffffff", "1b0000000100000000",
	"3805", "390010", "3a00000100", "3b0000000000000001",
	"5801aa", "590001aa", "780161", "790001 61", "980100", "99000100", "b801616100", "b9000161 6100",
	// indefinite lengths and break
	"5f4100ff", "7f6161ff", "9f01ff", "bf616101ff", "ff", "5fff", "7fff", "9fff", "bfff", "9f", "bf",
	// maps: duplicate keys, non-string keys
	"a2616101616102", "a2616101616101", "a10102", "a1410001", "a1f601", "a18001", "a1a000", "a1f501", "a1fb3ff800000000000001",
	"a26161016162", "a0", "a1616101", "a2616201616101", "a3626161016162026161 03",
	// tags
	"c14101", "d82a4101", "d82a4100", "d82a450001020304", "d82a40", "c16161", "c105", "c1a0", "c180", "c1f6", "c1f5", "c1fb3ff8000000000000",
	"d82ad82a4100", "c1c105", "c1c14101", "d82a6161", "d82a05", "dbffffffffffffffff05", "db7fffffffffffffff05", "db800000000000000005",
	"d81805", "d80505", "d9002a4100", "d82a58250001551220e3b0c44298fc1c149afbf4c8996fb92427ae41e4649b934ca495991b7852b855",
	"c1d82a58250001551220e3b0c44298fc1c149afbf4c8996fb92427ae41e4649b934ca495991b7852b855", "d82a", "c1", "d8", "c0f6", "d82af6", "d82a80", "d82aa0",
	// floats
	"f93c00", "f97c00", "f97e00", "f90001", "f98000", "f9fc00", "f97bff", "f90000", "f903ff", "f90400", "f9fbff", "f97e01",
	"fa3fc00000", "fa7f800000", "fa7fc00000", "fa00000001", "fa80000000", "faff800000", "fa7f7fffff", "fa00800000", "fa007fffff", "fa00000000",
	"fb7ff0000000000000", "fb7ff8000000000000", "fbfff0000000000000", "fb3ff8000000000000", "fb7ff0000000000001", "fb8000000000000000", "fb0000000000000001",
	"f9", "fa0000", "fb00",
	// simple values, reserved heads
	"f7", "e0", "e1", "f3", "f0", "f800", "f818", "f820", "f8ff", "f8f6", "f4", "f5", "f6", "fc", "fd", "fe", "1c", "1f", "3f", "5c", "7e", "9c", "bd", "dc", "df",
	// integer range
	"3bffffffffffffffff", "1bffffffffffffffff", "3b8000000000000000", "3b7fffffffffffffff", "1b8000000000000000", "3b7ffffffffffffffe", "1b7fffffffffffffff", "3bfffffffffffffffe",
	// huge counts / lengths
	"9b0000000100000000", "bb7fffffffffffffff", "9a00a00000", "5b0000000002000001", "7a02000001", "5a02000000", "9affffffff", "9bffffffffffffffff", "bbffffffffffffffff",
	"5bffffffffffffffff", "7b8000000000000000", "9a00100000", "ba00100000", "9a00a00001", "ba00a00000", "7b7fffffffffffffff", "5a00a00001", "9b8000000000000000",
	"5a02000001", "7a02000000",
}

func deepNest(r *rng.R) string {
	d := rng.Pick(r, []int{1010, 1015, 1016, 1017, 1018, 1019, 1020, 1021, 1022, 1023, 1024, 1025, 1030, 1100, 1016, 1017, 1018, 1019, 1020, 2000})
	if r.P(1, 8) {
		return strings.Repeat("a16161", d) + "00"
	}
	return strings.Repeat("81", d) + "00"
}

func badLinkRaw(r *rng.R, cidHex string) string {
	c := unhex(cidHex)
	wrap := func(payload []byte) string { return "d82a" + hexs(cborHead(2, uint64(len(payload)))) + hexs(payload) }
	with0 := func(b []byte) []byte { return append([]byte{0}, b...) }
	switch r.Intn(14) {
	case 0:
		d := append([]byte(nil), c...)
		d[0] ^= 0x03
		return wrap(with0(d))
	case 1:
		return wrap(with0(c[:len(c)-1]))
	case 2:
		return wrap(with0(append(append([]byte(nil), c...), 0x00)))
	case 3:
		return wrap(c) // no multibase prefix
	case 4:
		return "d82a4100"
	case 5:
		return wrap(append([]byte{1}, c...))
	case 6:
		return wrap(with0(append(unhex("02551220"), make([]byte, 32)...)))
	case 7:
		return wrap(with0(append(unhex("1220"), make([]byte, 31)...)))
	case 8:
		return wrap(with0(append(unhex("01d5001220"), make([]byte, 32)...)))
	case 9:
		return wrap(with0(unhex("01550002aabb"))) // valid identity CID
	case 10:
		return "d82a" + hexs(cborHead(3, uint64(len(c)+1))) + "00" + cidHex // tag 42 on a text string
	case 11:
		return wrap(with0(append(unhex("01551221"), make([]byte, 32)...)))
	case 12:
		return wrap(with0(append(unhex("1220"), make([]byte, 33)...)))
	default:
		d := append([]byte(nil), c...)
		d[r.Intn(len(d))] ^= byte(1 << uint(r.Intn(8)))
		return wrap(with0(d))
	}
}

type treeOp struct {
	name string
	raw  bool
	fn   func(t *treeCtx) bool
}

func (t *treeCtx) extMap(part *nd) *nd {
	e := part.get("ext")
	if e == nil || e.K != "map" {
		e = mp()
		part.set("ext", e)
	}
	return e
}

func rawKeyOf(r *rng.R, key []byte) string {
	enc := hexs(cborHead(3, uint64(len(key)))) + hexs(key)
	switch r.Intn(9) {
	case 0:
		return "c1" + enc
	case 1:
		if len(key) < 24 {
			return "78" + fmt.Sprintf("%02x", len(key)) + hexs(key)
		}
		return "c1" + enc
	case 2:
		return "7f" + enc + "ff"
	case 3:
		return hexs(cborHead(2, uint64(len(key)))) + hexs(key)
	case 4:
		return "01"
	case 5:
		return "d82a" + enc
	case 6:
		return "f6"
	case 7:
		return "c1c1" + enc
	default:
		return "d9002a" + enc
	}
}

var treeOps = []treeOp{
	{"wrong-kind", false, func(t *treeCtx) bool {
		s := t.typedSlots()
		if len(s) == 0 {
			return false
		}
		slot := pickNd(t.r, s)
		*slot = *otherKind(t.r, slot)
		return true
	}},
	{"enum-unknown", false, func(t *treeCtx) bool {
		v := txt(rng.Pick(t.r, []string{"x", "", "N", "nn", "new", "P", "pp", "r", "q", "n ", "\x00"}))
		return t.setEnum(v)
	}},
	{"enum-member-name", false, func(t *treeCtx) bool {
		if t.r.Bool() && len(t.reqs) > 0 {
			pickNd(t.r, t.reqs).set("type", txt(rng.Pick(t.r, []string{"New", "Cancel", "Update"})))
			return true
		}
		return t.setAction(txt(rng.Pick(t.r, []string{"Present", "DuplicateNotSent", "Missing", "DuplicateDAGSkipped"})))
	}},
	{"enum-other-member", false, func(t *treeCtx) bool {
		if t.r.Bool() && len(t.reqs) > 0 {
			pickNd(t.r, t.reqs).set("type", txt(rng.Pick(t.r, []string{"n", "c", "u"})))
			return true
		}
		return t.setAction(txt(rng.Pick(t.r, []string{"p", "d", "m", "s"})))
	}},
	{"status", false, func(t *treeCtx) bool {
		if len(t.rsps) == 0 {
			return false
		}
		pickNd(t.r, t.rsps).set("stat", rng.Pick(t.r, badStatuses).clone())
		return true
	}},
	{"id-length", false, func(t *treeCtx) bool {
		n := rng.Pick(t.r, []int{0, 15, 17, 32, 1})
		v := bts(hexs(t.r.Bytes(n)))
		if t.r.Bool() && len(t.reqs) > 0 {
			pickNd(t.r, t.reqs).set("id", v)
			return true
		}
		if len(t.rsps) > 0 {
			pickNd(t.r, t.rsps).set("reqid", v)
			return true
		}
		return false
	}},
	{"extra-key", false, func(t *treeCtx) bool {
		ms := t.structMaps()
		if len(ms) == 0 {
			return false
		}
		m := pickNd(t.r, ms)
		k := rng.Pick(t.r, []string{"zz", "", "idd", "gs3", "Id", "ID", "gs1", "extra"})
		if m.get(k) != nil {
			return false
		}
		m.set(k, rng.Pick(t.r, []*nd{num(7), mp(), {K: "null"}, lst(), txt("v")}).clone())
		return true
	}},
	{"field-name-for-rename", false, func(t *treeCtx) bool {
		ms := t.structMaps()
		for try := 0; try < 8 && len(ms) > 0; try++ {
			m := pickNd(t.r, ms)
			if len(m.M) == 0 {
				continue
			}
			i := t.r.Intn(len(m.M))
			nn, ok := schemaNames[string(unhex(m.M[i].K))]
			if !ok || hk(nn) == m.M[i].K || m.get(nn) != nil {
				continue
			}
			m.M[i].K = hk(nn)
			return true
		}
		return false
	}},
	{"both-names", false, func(t *treeCtx) bool {
		ms := t.structMaps()
		for try := 0; try < 8 && len(ms) > 0; try++ {
			m := pickNd(t.r, ms)
			if len(m.M) == 0 {
				continue
			}
			i := t.r.Intn(len(m.M))
			nn, ok := schemaNames[string(unhex(m.M[i].K))]
			if !ok || hk(nn) == m.M[i].K || m.get(nn) != nil {
				continue
			}
			v := m.M[i].V.clone()
			if t.r.Bool() {
				v = otherKind(t.r, nil)
			}
			m.set(nn, v)
			return true
		}
		return false
	}},
	{"missing-field", false, func(t *treeCtx) bool {
		ms := t.structMaps()
		if len(ms) == 0 {
			return false
		}
		m := pickNd(t.r, ms)
		if len(m.M) == 0 {
			return false
		}
		i := t.r.Intn(len(m.M))
		m.M = append(m.M[:i:i], m.M[i+1:]...)
		return true
	}},
	{"sel-null", false, func(t *treeCtx) bool {
		if len(t.reqs) == 0 {
			return false
		}
		pickNd(t.r, t.reqs).set("sel", &nd{K: "null"})
		return true
	}},
	{"ext-null-value", false, func(t *treeCtx) bool {
		parts := append(append([]*nd{}, t.reqs...), t.rsps...)
		if len(parts) == 0 {
			return false
		}
		p := pickNd(t.r, parts)
		switch t.r.Intn(4) {
		case 0:
			p.set("ext", mp(ent("x", &nd{K: "null"})))
		case 1:
			p.set("ext", &nd{K: "null"})
		case 2:
			p.set("ext", mp())
		default:
			t.extMap(p).set("x", &nd{K: "null"})
		}
		return true
	}},
	{"priority-range", false, func(t *treeCtx) bool {
		if len(t.reqs) == 0 {
			return false
		}
		pickNd(t.r, t.reqs).set("pri", rng.Pick(t.r, badPriorities).clone())
		return true
	}},
	{"tuple-arity", false, func(t *treeCtx) bool {
		var tuples []*nd
		for _, s := range t.rsps {
			if m := s.get("meta"); m != nil {
				tuples = append(tuples, m.L...)
			}
		}
		tuples = append(tuples, t.blks...)
		if len(tuples) == 0 {
			return false
		}
		tu := pickNd(t.r, tuples)
		if tu.K != "list" || len(tu.L) == 0 {
			return false
		}
		switch t.r.Intn(4) {
		case 0:
			tu.L = tu.L[:1]
		case 1:
			tu.L = append(tu.L, tu.L[len(tu.L)-1].clone())
		case 2:
			tu.L = nil
		default:
			// a struct with representation tuple given as a map
			*tu = *mp(ent("prefix", tu.L[0]), ent("data", tu.L[len(tu.L)-1]))
		}
		return true
	}},
	{"bad-prefix", false, func(t *treeCtx) bool {
		b := pickNd(t.r, t.blks)
		if b == nil || b.K != "list" || len(b.L) != 2 {
			return false
		}
		b.L[0] = bts(rng.Pick(t.r, badPrefixes))
		if t.r.P(1, 4) {
			b.L[1] = bts(hexs(t.r.Bytes(t.r.Range(0, 5))))
		}
		return true
	}},
	{"duplicate-entry", false, func(t *treeCtx) bool {
		var lists []*nd
		for _, k := range []string{"req", "rsp", "blk"} {
			if l := t.gs2.get(k); l != nil && l.K == "list" && len(l.L) > 0 {
				lists = append(lists, l)
			}
		}
		if len(lists) == 0 {
			return false
		}
		l := pickNd(t.r, lists)
		d := l.L[t.r.Intn(len(l.L))].clone()
		if d.K == "map" && t.r.Bool() {
			// same id, different content
			if d.get("stat") != nil {
				d.set("stat", num(int64(rng.Pick(t.r, definedStatuses))))
			}
			if d.get("type") != nil {
				d.set("type", txt(rng.Pick(t.r, []string{"n", "c", "u"})))
			}
		}
		l.L = append(l.L, d)
		return true
	}},
	{"empty-list", false, func(t *treeCtx) bool {
		if t.gs2 == nil || t.gs2.K != "map" {
			return false
		}
		t.gs2.set(rng.Pick(t.r, []string{"req", "rsp", "blk"}), lst())
		return true
	}},
	// ---- raw: bytes the real encoder cannot produce ----
	{"raw-value", true, func(t *treeCtx) bool {
		v := rawNd(rng.Pick(t.r, rawValues))
		return t.putRaw(v)
	}},
	{"deep-nesting", true, func(t *treeCtx) bool {
		return t.putRawExt(rawNd(deepNest(t.r)))
	}},
	{"raw-key", true, func(t *treeCtx) bool {
		ms := t.structMaps()
		for _, p := range append(append([]*nd{}, t.reqs...), t.rsps...) {
			if e := p.get("ext"); e != nil && e.K == "map" {
				ms = append(ms, e)
			}
		}
		for try := 0; try < 8 && len(ms) > 0; try++ {
			m := pickNd(t.r, ms)
			if len(m.M) == 0 {
				continue
			}
			i := t.r.Intn(len(m.M))
			m.M[i].RawK = rawKeyOf(t.r, unhex(m.M[i].K))
			return true
		}
		return false
	}},
	{"duplicate-key", true, func(t *treeCtx) bool {
		ms := t.structMaps()
		for _, p := range append(append([]*nd{}, t.reqs...), t.rsps...) {
			if e := p.get("ext"); e != nil && e.K == "map" {
				ms = append(ms, e)
			}
		}
		for try := 0; try < 8 && len(ms) > 0; try++ {
			m := pickNd(t.r, ms)
			if len(m.M) == 0 {
				continue
			}
			e := m.M[t.r.Intn(len(m.M))]
			d := me{K: e.K, V: e.V.clone()}
			if t.r.Bool() {
				d.V = otherKind(t.r, nil)
			}
			m.M = append(m.M, d)
			if t.r.Bool() {
				sortEntries(m) // the two entries adjacent, the rest in key order
			}
			m.NoSort = true
			return true
		}
		return false
	}},
	{"unsorted-keys", true, func(t *treeCtx) bool {
		ms := t.structMaps()
		for try := 0; try < 8 && len(ms) > 0; try++ {
			m := pickNd(t.r, ms)
			if len(m.M) < 2 {
				continue
			}
			sortEntries(m)
			// reverse, or rotate
			if t.r.Bool() {
				for i, j := 0, len(m.M)-1; i < j; i, j = i+1, j-1 {
					m.M[i], m.M[j] = m.M[j], m.M[i]
				}
			} else {
				m.M = append(m.M[1:len(m.M):len(m.M)], m.M[0])
			}
			m.NoSort = true
			return true
		}
		return false
	}},
	{"bad-link", true, func(t *treeCtx) bool {
		ls := t.links()
		if len(ls) == 0 {
			return false
		}
		l := pickNd(t.r, ls)
		*l = *rawNd(badLinkRaw(t.r, l.S))
		return true
	}},
}

var treeOpWeight = map[string]int{"raw-value": 10, "deep-nesting": 1, "raw-key": 3, "duplicate-key": 2, "unsorted-keys": 2, "bad-link": 3,
	"wrong-kind": 3, "bad-prefix": 4, "status": 3}

func pickTreeOp(r *rng.R, raw bool) treeOp {
	total := 0
	for _, op := range treeOps {
		if op.raw == raw {
			w := treeOpWeight[op.name]
			if w == 0 {
				w = 2
			}
			total += w
		}
	}
	x := r.Intn(total)
	for _, op := range treeOps {
		if op.raw == raw {
			w := treeOpWeight[op.name]
			if w == 0 {
				w = 2
			}
			if x < w {
				return op
			}
			x -= w
		}
	}
	panic("unreachable")
}

func sortEntries(m *nd) {
	for i := 1; i < len(m.M); i++ {
		for j := i; j > 0; j-- {
			a, b := unhex(m.M[j].K), unhex(m.M[j-1].K)
			if len(a) < len(b) || (len(a) == len(b) && bytes.Compare(a, b) < 0) {
				m.M[j], m.M[j-1] = m.M[j-1], m.M[j]
			} else {
				break
			}
		}
	}
}

func (t *treeCtx) setAction(v *nd) bool {
	var tuples []*nd
	for _, s := range t.rsps {
		if m := s.get("meta"); m != nil {
			tuples = append(tuples, m.L...)
		}
	}
	tu := pickNd(t.r, tuples)
	if tu == nil || tu.K != "list" || len(tu.L) != 2 {
		return false
	}
	tu.L[1] = v
	return true
}

func (t *treeCtx) setEnum(v *nd) bool {
	if t.r.Bool() && len(t.reqs) > 0 {
		pickNd(t.r, t.reqs).set("type", v)
		return true
	}
	return t.setAction(v)
}

func (t *treeCtx) putRawExt(v *nd) bool {
	parts := append(append([]*nd{}, t.reqs...), t.rsps...)
	if len(parts) == 0 {
		return false
	}
	p := pickNd(t.r, parts)
	if p.K != "map" {
		return false
	}
	t.extMap(p).set("x", v)
	return true
}

func (t *treeCtx) putRaw(v *nd) bool {
	x := t.r.Intn(100)
	switch {
	case x < 55:
		return t.putRawExt(v)
	case x < 70:
		if q := pickNd(t.r, t.reqs); q != nil && q.K == "map" {
			q.set("sel", v)
			return true
		}
		return t.putRawExt(v)
	case x < 90:
		s := t.typedSlots()
		if len(s) == 0 {
			return false
		}
		*pickNd(t.r, s) = *v
		return true
	default:
		*t.root = *v
		return true
	}
}

// rawBodies: whole frame bodies
var rawBodies = []string{
	"f6", "a0", "80", "00", "ff", "a163677332f6", "a163677332a0", "a16367733280", "a2636773 32a0636773 32a0", "a17047726170685379 6e634d657373616765a0",
	"a163677332a0f6", "a163677332a0a163677332a0", "", "a163677333a0", "a163677332a163726571 80", "a163677332a163626c6b80", "a163677332a1637273 7080",
	"a163677332a163626c6b81824401551220 40", "a163677332a163626c6b818244015500004100", "a163677332a163626c6b8182440155000040",
	"a163677332a163626c6b81824400701220 4161", "a263677332a0 6367733 3a0", "a0a0", "bf63677332a0ff", "a1 7f 63677332 ff a0", "c1a163677332a0", "d82aa163677332a0",
	"a163677332bf ff", "a163677332a1 63726571 9f ff",
}

// ---------- byte-level operators ----------

var interestingBytes = []byte{0x00, 0xff, 0x7f, 0x80, 0xf6, 0xf7, 0xa0, 0x9f, 0xbf, 0x5f, 0xc1, 0xd8, 0xfb, 0xf9, 0x1b, 0x3b, 0x18, 0x58, 0x78, 0x40, 0x60, 0x81, 0xa1}

func byteOp(r *rng.R, b []byte) ([]byte, string) {
	if len(b) == 0 {
		return append(b, byte(r.U64())), "insert"
	}
	p := r.Intn(len(b))
	out := append([]byte(nil), b...)
	switch r.Intn(6) {
	case 0:
		out[p] ^= byte(1 << uint(r.Intn(8)))
		return out, "bit-flip"
	case 1:
		v := byte(r.U64())
		if r.Bool() {
			v = rng.Pick(r, interestingBytes)
		}
		out[p] = v
		return out, "byte-set"
	case 2:
		k := r.Range(1, 8)
		if p+k > len(out) {
			k = len(out) - p
		}
		return append(out[:p], out[p+k:]...), "delete-range"
	case 3:
		ins := r.Bytes(r.Range(1, 8))
		if r.P(1, 3) {
			ins = []byte{rng.Pick(r, interestingBytes)}
		}
		return append(out[:p:p], append(ins, out[p:]...)...), "insert-range"
	case 4:
		k := r.Range(1, 12)
		if p+k > len(out) {
			k = len(out) - p
		}
		seg := append([]byte(nil), out[p:p+k]...)
		return append(out[:p+k:p+k], append(seg, out[p+k:]...)...), "duplicate-range"
	default:
		// swap two adjacent bytes
		if p+1 < len(out) {
			out[p], out[p+1] = out[p+1], out[p]
		}
		return out, "swap"
	}
}

func lenPrefixOp(r *rng.R, n uint64) ([]byte, string) {
	switch r.Intn(13) {
	case 0:
		p := uvar(n)
		p[len(p)-1] |= 0x80
		return append(p, 0x00), "len:non-minimal"
	case 1:
		p := uvar(n)
		p[len(p)-1] |= 0x80
		return append(p, 0x80, 0x00), "len:non-minimal"
	case 2:
		return unhex("80808080808080808001"), "len:10-byte"
	case 3:
		return unhex("ffffffffffffffff80" + "00"), "len:9-byte-continued"
	case 4:
		return unhex("ffffffffffffffff7f"), "len:2^63-1"
	case 5:
		return []byte{0}, "len:0"
	case 6:
		return uvar(n + 1), "len:+1"
	case 7:
		if n == 0 {
			return uvar(1), "len:+1"
		}
		return uvar(n - 1), "len:-1"
	case 8:
		return uvar(4194304), "len:4194304"
	case 9:
		return uvar(4194305), "len:4194305"
	case 10:
		return uvar(1 << 31), "len:2^31"
	case 11:
		return uvar(1 << 62), "len:2^62"
	default:
		return unhex("8080808080808080" + "01"), "len:2^56"
	}
}

var trailers = []string{"00", "f6", "a0", "ff", "0000", "a163677332a0", "05", "01f6", "80", "8000", "ffffffffffffffffff01"}

// ---------- the generator ----------

func genHostile(mh *v2.MessageHandler, r *rng.R) ([]byte, []string) {
	tg := tagset{}
	x := r.Intn(100)
	switch {
	case x < 8:
		tg.add("class:random")
		switch r.Intn(5) {
		case 0:
			return r.Bytes(r.Range(0, 40)), tg.list()
		case 1:
			body := r.Bytes(r.Range(0, 40))
			return append(uvar(uint64(len(body))), body...), tg.list()
		case 2:
			// a random CBOR-looking item inside a proper root
			inner := r.Bytes(r.Range(1, 12))
			body := append(unhex("a163677332"), inner...)
			return append(uvar(uint64(len(body))), body...), tg.list()
		case 3:
			return bytes.Repeat([]byte{byte(r.U64())}, r.Range(1, 30)), tg.list()
		default:
			n := r.Range(1, 4)
			var out []byte
			for i := 0; i < n; i++ {
				body := r.Bytes(r.Range(0, 10))
				out = append(out, append(uvar(uint64(len(body))), body...)...)
			}
			return out, tg.list()
		}
	case x < 18:
		tg.add("class:valid")
		n := r.Range(1, 3)
		var fs []hframe
		for i := 0; i < n; i++ {
			fs = append(fs, validFrame(mh, r, tg, msgOpts{short: true, small: n > 1}))
		}
		tg.add(fmt.Sprintf("valid-msgs:%d", n))
		return assemble(fs), tg.list()
	}
	validThenBad := x < 23
	// classes of the 1..3 operators
	nops := r.Range(1, 3)
	var classes []string
	for i := 0; i < nops; i++ {
		y := r.Intn(100)
		switch {
		case y < 30:
			classes = append(classes, "tree")
		case y < 52:
			classes = append(classes, "raw")
		case y < 56:
			classes = append(classes, "raw-body")
		case y < 65:
			classes = append(classes, "len")
		case y < 71:
			classes = append(classes, "trail")
		case y < 81:
			classes = append(classes, "body-bytes")
		case y < 87:
			classes = append(classes, "body-truncate")
		case y < 94:
			classes = append(classes, "stream-bytes")
		default:
			classes = append(classes, "truncate")
		}
	}
	has := func(c string) bool {
		for _, k := range classes {
			if k == c {
				return true
			}
		}
		return false
	}
	n := r.Range(1, 3)
	target := r.Intn(n)
	if validThenBad {
		if n == 1 {
			n = 2
		}
		target = n - 1
		tg.add("class:valid-then-malformed")
	} else {
		tg.add("class:mutated")
	}
	var fs []hframe
	for i := 0; i < n; i++ {
		fs = append(fs, validFrame(mh, r, tg, msgOpts{short: true, small: n > 1 && i != target, rich: i == target && (has("tree") || has("raw"))}))
	}
	f := &fs[target]
	// phase 1: tree operators on the target frame
	if has("tree") || has("raw") {
		if t := decodeTree(f.body); t != nil {
			for _, c := range classes {
				if c != "tree" && c != "raw" {
					continue
				}
				for try := 0; try < 20; try++ {
					op := pickTreeOp(r, c == "raw")
					if op.fn(newTreeCtx(r, t)) {
						tg.add("op:" + op.name)
						break
					}
				}
			}
			body, viaReal := t.encode()
			f.body = body
			if viaReal {
				tg.add("reencoded:dagcbor.Encode")
			} else {
				tg.add("reencoded:harness-encoder")
			}
		}
	}
	// phase 2: frame-level operators
	for _, c := range classes {
		switch c {
		case "raw-body":
			f.body = unhex(strings.ReplaceAll(rng.Pick(r, rawBodies), " ", ""))
			f.prefix = nil
			tg.add("op:raw-body")
		case "body-bytes":
			var name string
			f.body, name = byteOp(r, f.body)
			tg.add("op:body-" + name)
		case "body-truncate":
			// a complete frame (length prefix recomputed) whose CBOR content stops early
			cut := 0
			if len(f.body) > 0 {
				switch r.Intn(4) {
				case 0:
					cut = len(f.body) - 1
				case 1:
					cut = r.Range(1, 6)
					if cut > len(f.body) {
						cut = len(f.body)
					}
				default:
					cut = r.Intn(len(f.body))
				}
			}
			f.body = f.body[:cut]
			tg.add("op:body-truncate-reprefixed")
		case "trail":
			g := unhex(rng.Pick(r, trailers))
			if r.P(1, 3) {
				g = r.Bytes(r.Range(1, 4))
			}
			if r.Bool() {
				f.body = append(f.body, g...)
				tg.add("op:trailing-inside-frame")
			} else {
				fs = append(fs, hframe{prefix: []byte{}, body: g})
				f = &fs[target]
				tg.add("op:trailing-outside-frame")
			}
		}
	}
	for _, c := range classes {
		if c == "len" {
			var name string
			f.prefix, name = lenPrefixOp(r, uint64(len(f.body)))
			tg.add("op:" + name)
		}
	}
	out := assemble(fs)
	// phase 3: stream-level operators
	start := 0
	if validThenBad {
		start = len(assemble(fs[:target]))
	}
	for _, c := range classes {
		switch c {
		case "stream-bytes":
			tail, name := byteOp(r, out[start:])
			out = append(out[:start:start], tail...)
			tg.add("op:stream-" + name)
		case "truncate":
			tailLen := len(out) - start
			cut := 0
			switch r.Intn(5) {
			case 0: // right after the length prefix of the target frame
				cut = len(uvar(uint64(len(f.body))))
				if f.prefix != nil {
					cut = len(f.prefix)
				}
				if !validThenBad {
					cut += len(assemble(fs[:target]))
				}
				tg.add("op:truncate-after-prefix")
			case 1: // inside the prefix
				cut = 0
				if f.prefix != nil && len(f.prefix) > 1 {
					cut = r.Range(1, len(f.prefix)-1)
				} else if len(uvar(uint64(len(f.body)))) > 1 {
					cut = 1
				}
				if !validThenBad {
					cut += len(assemble(fs[:target]))
				}
				tg.add("op:truncate-inside-prefix")
			case 2:
				cut = tailLen - 1
				tg.add("op:truncate-by-one")
			default:
				cut = r.Intn(tailLen + 1)
				tg.add("op:truncate-random")
			}
			if cut < 0 {
				cut = 0
			}
			if cut > tailLen {
				cut = tailLen
			}
			out = out[:start+cut]
		}
	}
	return out, tg.list()
}
