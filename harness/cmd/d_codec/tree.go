package main

// A small tagged tree: the JSON-serialisable description of an IPLD node (codec cases) and the mutable
// generic form of a decoded DAG-CBOR frame (hostile cases), with its own CBOR encoder that can also
// emit hand-assembled raw bytes the real encoder cannot produce.

import (
	"bytes"
	"encoding/binary"
	"encoding/hex"
	"fmt"
	"math"
	"sort"
	"strconv"

	"github.com/ipfs/go-cid"
	"github.com/ipld/go-ipld-prime/codec/dagcbor"
	"github.com/ipld/go-ipld-prime/datamodel"
	"github.com/ipld/go-ipld-prime/fluent/qp"
	cidlink "github.com/ipld/go-ipld-prime/linking/cid"
	"github.com/ipld/go-ipld-prime/node/basicnode"
	selectorparse "github.com/ipld/go-ipld-prime/traversal/selector/parse"

	"github.com/ipfs/go-graphsync/cidset"
	"github.com/ipfs/go-graphsync/dedupkey"
	"github.com/ipfs/go-graphsync/donotsendfirstblocks"
)

// nd kinds: null bool int uint float str bytes link list map
//
//	cidset (L = link nodes) firstblocks (I) dedupkey (S) : built with the real extension encoders
//	sel (I = index into commonSelectors)
//	raw (S = bytes emitted verbatim; hostile trees only)
type nd struct {
	K      string `json:"k"`
	B      bool   `json:"b,omitempty"`
	I      int64  `json:"i,omitempty"`
	U      string `json:"u,omitempty"` // uint value / float64 bit pattern, decimal
	S      string `json:"s,omitempty"` // hex
	L      []*nd  `json:"l,omitempty"`
	M      []me   `json:"m,omitempty"`
	NoSort bool   `json:"-"` // emit map entries in the given order (hostile trees only)
}

type me struct {
	K    string `json:"k"` // hex of the key
	V    *nd    `json:"v"`
	RawK string `json:"-"` // hex: raw encoding of the key, replaces the text-string encoding
}

var commonSelectors = []datamodel.Node{
	selectorparse.CommonSelector_ExploreAllRecursively,
	selectorparse.CommonSelector_MatchAllRecursively,
	selectorparse.CommonSelector_MatchPoint,
	selectorparse.CommonSelector_MatchChildren,
}

func unhex(s string) []byte {
	b, err := hex.DecodeString(s)
	if err != nil {
		panic("bad hex in case description: " + s)
	}
	return b
}

func hk(s string) string { return hex.EncodeToString([]byte(s)) }

func (n *nd) u64() uint64 {
	v, err := strconv.ParseUint(n.U, 10, 64)
	if err != nil {
		panic("bad number in case description: " + n.U)
	}
	return v
}

func castCid(h string) (cid.Cid, error) { return cid.Cast(unhex(h)) }

// build turns a description into a real node (basicnode / the real extension encoders)
func (n *nd) build() (datamodel.Node, error) {
	switch n.K {
	case "null":
		return datamodel.Null, nil
	case "bool":
		return basicnode.NewBool(n.B), nil
	case "int":
		return basicnode.NewInt(n.I), nil
	case "uint":
		return basicnode.NewUint(n.u64()), nil
	case "float":
		return basicnode.NewFloat(math.Float64frombits(n.u64())), nil
	case "str":
		return basicnode.NewString(string(unhex(n.S))), nil
	case "bytes":
		return basicnode.NewBytes(unhex(n.S)), nil
	case "link":
		c, err := castCid(n.S)
		if err != nil {
			return nil, err
		}
		return basicnode.NewLink(cidlink.Link{Cid: c}), nil
	case "list":
		kids := make([]datamodel.Node, len(n.L))
		for i, k := range n.L {
			v, err := k.build()
			if err != nil {
				return nil, err
			}
			kids[i] = v
		}
		return qp.BuildList(basicnode.Prototype.Any, int64(len(kids)), func(la datamodel.ListAssembler) {
			for _, v := range kids {
				qp.ListEntry(la, qp.Node(v))
			}
		})
	case "map":
		kids := make([]datamodel.Node, len(n.M))
		for i, e := range n.M {
			v, err := e.V.build()
			if err != nil {
				return nil, err
			}
			kids[i] = v
		}
		return qp.BuildMap(basicnode.Prototype.Any, int64(len(kids)), func(ma datamodel.MapAssembler) {
			for i, e := range n.M {
				qp.MapEntry(ma, string(unhex(e.K)), qp.Node(kids[i]))
			}
		})
	case "cidset":
		set := cid.NewSet()
		for _, k := range n.L {
			c, err := castCid(k.S)
			if err != nil {
				return nil, err
			}
			set.Add(c)
		}
		// EncodeCidSet lists the set in Go map iteration order (for a small map: insertion order started at a
		// random entry, most often the first): take, for reproducible runs, an encoding that starts with the
		// first CID of the description (every result is a genuine output)
		min := ""
		if len(n.L) > 0 {
			c, _ := castCid(n.L[0].S)
			min = c.KeyString()
		}
		node := cidset.EncodeCidSet(set)
		for try := 0; try < 300 && node.Length() > 1; try++ {
			first, err := node.LookupByIndex(0)
			if err != nil {
				break
			}
			l, err := first.AsLink()
			if err != nil {
				break
			}
			if cl, ok := l.(cidlink.Link); !ok || cl.Cid.KeyString() == min {
				break
			}
			node = cidset.EncodeCidSet(set)
		}
		return node, nil
	case "firstblocks":
		return donotsendfirstblocks.EncodeDoNotSendFirstBlocks(n.I), nil
	case "dedupkey":
		return dedupkey.EncodeDedupKey(string(unhex(n.S)))
	case "sel":
		if n.I < 0 || int(n.I) >= len(commonSelectors) {
			return nil, fmt.Errorf("no such common selector %d", n.I)
		}
		return commonSelectors[n.I], nil
	}
	return nil, fmt.Errorf("cannot build node kind %q", n.K)
}

// fromNode is the generic tree of a decoded node
func fromNode(n datamodel.Node) *nd {
	switch n.Kind() {
	case datamodel.Kind_Null:
		return &nd{K: "null"}
	case datamodel.Kind_Bool:
		b, _ := n.AsBool()
		return &nd{K: "bool", B: b}
	case datamodel.Kind_Int:
		if un, ok := n.(datamodel.UintNode); ok {
			u, _ := un.AsUint()
			return &nd{K: "uint", U: strconv.FormatUint(u, 10)}
		}
		i, _ := n.AsInt()
		return &nd{K: "int", I: i}
	case datamodel.Kind_Float:
		f, _ := n.AsFloat()
		return &nd{K: "float", U: strconv.FormatUint(math.Float64bits(f), 10)}
	case datamodel.Kind_String:
		s, _ := n.AsString()
		return &nd{K: "str", S: hex.EncodeToString([]byte(s))}
	case datamodel.Kind_Bytes:
		b, _ := n.AsBytes()
		return &nd{K: "bytes", S: hex.EncodeToString(b)}
	case datamodel.Kind_Link:
		l, _ := n.AsLink()
		if cl, ok := l.(cidlink.Link); ok {
			return &nd{K: "link", S: hex.EncodeToString(cl.Cid.Bytes())}
		}
		return &nd{K: "null"}
	case datamodel.Kind_List:
		r := &nd{K: "list"}
		it := n.ListIterator()
		for !it.Done() {
			_, v, err := it.Next()
			if err != nil {
				break
			}
			r.L = append(r.L, fromNode(v))
		}
		return r
	case datamodel.Kind_Map:
		r := &nd{K: "map"}
		it := n.MapIterator()
		for !it.Done() {
			k, v, err := it.Next()
			if err != nil {
				break
			}
			ks, _ := k.AsString()
			r.M = append(r.M, me{K: hex.EncodeToString([]byte(ks)), V: fromNode(v)})
		}
		return r
	}
	return &nd{K: "null"}
}

func (n *nd) clone() *nd {
	if n == nil {
		return nil
	}
	c := *n
	c.L = make([]*nd, len(n.L))
	for i, k := range n.L {
		c.L[i] = k.clone()
	}
	c.M = make([]me, len(n.M))
	for i, e := range n.M {
		c.M[i] = me{K: e.K, V: e.V.clone(), RawK: e.RawK}
	}
	if len(c.L) == 0 {
		c.L = nil
	}
	if len(c.M) == 0 {
		c.M = nil
	}
	return &c
}

func (n *nd) hasRaw() bool {
	if n.K == "raw" || n.NoSort {
		return true
	}
	for _, k := range n.L {
		if k.hasRaw() {
			return true
		}
	}
	for _, e := range n.M {
		if e.RawK != "" || e.V.hasRaw() {
			return true
		}
	}
	return false
}

// ---- map helpers (keys given as plain strings) ----

func (n *nd) get(key string) *nd {
	if n == nil || n.K != "map" {
		return nil
	}
	h := hk(key)
	for _, e := range n.M {
		if e.K == h {
			return e.V
		}
	}
	return nil
}

func (n *nd) set(key string, v *nd) {
	h := hk(key)
	for i, e := range n.M {
		if e.K == h {
			n.M[i].V = v
			return
		}
	}
	n.M = append(n.M, me{K: h, V: v})
}

func (n *nd) del(key string) bool {
	h := hk(key)
	for i, e := range n.M {
		if e.K == h {
			n.M = append(n.M[:i:i], n.M[i+1:]...)
			return true
		}
	}
	return false
}

// ---- CBOR ----

func cborHead(major byte, arg uint64) []byte {
	m := major << 5
	switch {
	case arg < 24:
		return []byte{m | byte(arg)}
	case arg < 1<<8:
		return []byte{m | 24, byte(arg)}
	case arg < 1<<16:
		b := []byte{m | 25, 0, 0}
		binary.BigEndian.PutUint16(b[1:], uint16(arg))
		return b
	case arg < 1<<32:
		b := []byte{m | 26, 0, 0, 0, 0}
		binary.BigEndian.PutUint32(b[1:], uint32(arg))
		return b
	}
	b := []byte{m | 27, 0, 0, 0, 0, 0, 0, 0, 0}
	binary.BigEndian.PutUint64(b[1:], arg)
	return b
}

// encRaw is the harness's own DAG-CBOR encoder over the tree: canonical for ordinary nodes (so that an
// unmutated tree gives back the bytes the real encoder produced), verbatim for raw nodes / raw keys.
func (n *nd) encRaw(w *bytes.Buffer) {
	switch n.K {
	case "null":
		w.WriteByte(0xf6)
	case "bool":
		if n.B {
			w.WriteByte(0xf5)
		} else {
			w.WriteByte(0xf4)
		}
	case "int":
		if n.I >= 0 {
			w.Write(cborHead(0, uint64(n.I)))
		} else {
			w.Write(cborHead(1, uint64(-1-n.I)))
		}
	case "uint":
		w.Write(cborHead(0, n.u64()))
	case "float":
		var b [9]byte
		b[0] = 0xfb
		binary.BigEndian.PutUint64(b[1:], n.u64())
		w.Write(b[:])
	case "str":
		s := unhex(n.S)
		w.Write(cborHead(3, uint64(len(s))))
		w.Write(s)
	case "bytes":
		s := unhex(n.S)
		w.Write(cborHead(2, uint64(len(s))))
		w.Write(s)
	case "link":
		s := unhex(n.S)
		w.Write([]byte{0xd8, 0x2a})
		w.Write(cborHead(2, uint64(len(s)+1)))
		w.WriteByte(0)
		w.Write(s)
	case "list":
		w.Write(cborHead(4, uint64(len(n.L))))
		for _, k := range n.L {
			k.encRaw(w)
		}
	case "map":
		es := append([]me(nil), n.M...)
		if !n.NoSort {
			sort.SliceStable(es, func(i, j int) bool {
				a, b := unhex(es[i].K), unhex(es[j].K)
				if len(a) != len(b) {
					return len(a) < len(b)
				}
				return bytes.Compare(a, b) < 0
			})
		}
		w.Write(cborHead(5, uint64(len(es))))
		for _, e := range es {
			if e.RawK != "" {
				w.Write(unhex(e.RawK))
			} else {
				k := unhex(e.K)
				w.Write(cborHead(3, uint64(len(k))))
				w.Write(k)
			}
			e.V.encRaw(w)
		}
	case "raw":
		w.Write(unhex(n.S))
	default:
		panic("encRaw: kind " + n.K)
	}
}

// encode: through the real dagcbor.Encode whenever the tree can be built as a basicnode, else through
// the harness encoder.  viaReal tells which.
func (n *nd) encode() (out []byte, viaReal bool) {
	if !n.hasRaw() {
		if node, err := n.build(); err == nil && node != nil {
			var buf bytes.Buffer
			if err := dagcbor.Encode(node, &buf); err == nil {
				return buf.Bytes(), true
			}
		}
	}
	var buf bytes.Buffer
	n.encRaw(&buf)
	return buf.Bytes(), false
}

// decodeTree: a frame body as a generic tree (nil when the real decoder refuses it)
func decodeTree(body []byte) (t *nd) {
	defer func() {
		if recover() != nil {
			t = nil
		}
	}()
	nb := basicnode.Prototype.Any.NewBuilder()
	if err := dagcbor.Decode(nb, bytes.NewReader(body)); err != nil {
		return nil
	}
	return fromNode(nb.Build())
}
