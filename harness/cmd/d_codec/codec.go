package main

// Driver "codec" (C11): messages built with the real constructors, encoded with the real v2 ToNet,
// decoded with the real FromMsgReader / FromNet; the Coq side checks the model against both directions
// and the round-trip monitor.

import (
	"bytes"
	"fmt"
	"io"
	"sort"

	"github.com/ipfs/go-cid"
	"github.com/ipld/go-ipld-prime/codec/dagcbor"
	"github.com/ipld/go-ipld-prime/datamodel"
	"github.com/libp2p/go-libp2p/core/network"
	"github.com/libp2p/go-libp2p/core/peer"
	"github.com/libp2p/go-msgio"
	"github.com/multiformats/go-varint"

	"github.com/ipfs/go-graphsync"
	"github.com/ipfs/go-graphsync/cidset"
	"github.com/ipfs/go-graphsync/dedupkey"
	"github.com/ipfs/go-graphsync/donotsendfirstblocks"
	"github.com/ipfs/go-graphsync/message"
	v2 "github.com/ipfs/go-graphsync/message/v2"

	"verif/harness/internal/cw"
	"verif/harness/internal/drv"
	"verif/harness/internal/rng"
)

type codecCase struct {
	Msgs []msgDesc `json:"msgs"`
	Tags []string  `json:"tags,omitempty"`
}

var thePeer = peer.ID("verif-peer")

var toNetGaveUp int

// orderFrameLists: the frame body with the requests / responses / blocks lists put into the order in which the
// description lists them (nil when the body does not have the expected shape)
func orderFrameLists(body []byte, d *msgDesc) []byte {
	t := decodeTree(body)
	if t == nil {
		return nil
	}
	g := t.get("gs2")
	if g == nil {
		return nil
	}
	order := func(l *nd, key func(*nd) string, want []string) {
		if l == nil || l.K != "list" || len(l.L) < 2 {
			return
		}
		pos := map[string]int{}
		for i, k := range want {
			if _, ok := pos[k]; !ok {
				pos[k] = i
			}
		}
		sort.SliceStable(l.L, func(i, j int) bool {
			pi, oki := pos[key(l.L[i])]
			pj, okj := pos[key(l.L[j])]
			if !oki {
				pi = len(want)
			}
			if !okj {
				pj = len(want)
			}
			return pi < pj
		})
	}
	idOf := func(k string) func(*nd) string {
		return func(n *nd) string {
			if v := n.get(k); v != nil {
				return v.S
			}
			return ""
		}
	}
	var qs, ss, bs []string
	for _, q := range d.Reqs {
		qs = append(qs, q.ID)
	}
	for _, r := range d.Rsps {
		ss = append(ss, r.ID)
	}
	for _, k := range d.Blks {
		if blk, err := k.build(); err == nil {
			bs = append(bs, hexs(blk.Cid().Prefix().Bytes())+"/"+k.Data)
		}
	}
	order(g.get("req"), idOf("id"), qs)
	order(g.get("rsp"), idOf("reqid"), ss)
	order(g.get("blk"), func(n *nd) string {
		if len(n.L) != 2 {
			return ""
		}
		return n.L[0].S + "/" + n.L[1].S
	}, bs)
	node, err := t.build()
	if err != nil {
		return nil
	}
	var buf bytes.Buffer
	if err := dagcbor.Encode(node, &buf); err != nil {
		return nil
	}
	return buf.Bytes()
}

func splitPrefix(framed []byte) (prefixLen int, body []byte, ok bool) {
	n, k, err := varint.FromUvarint(framed)
	if err != nil || uint64(len(framed)-k) != n {
		return 0, nil, false
	}
	return k, framed[k:], true
}

// toNet runs the real ToNet.  The wire order of the three lists follows Go map iteration (for a small map:
// insertion order, started at a random entry, most often the first); to keep runs reproducible the call is
// repeated (each result is a genuine ToNet output) until the lists come out in the order of the
// description, within a bound.
func toNet(mh *v2.MessageHandler, m message.GraphSyncMessage, d *msgDesc) ([]byte, error) {
	var buf bytes.Buffer
	if err := mh.ToNet(thePeer, m, &buf); err != nil {
		return nil, err
	}
	out := append([]byte(nil), buf.Bytes()...)
	if len(m.Requests()) < 2 && len(m.Responses()) < 2 && len(m.Blocks()) < 2 {
		return out, nil
	}
	k, body, ok := splitPrefix(out)
	if !ok {
		return out, nil
	}
	want := orderFrameLists(body, d)
	if want == nil || len(want) != len(body) {
		return out, nil
	}
	for try := 0; try < 300 && !bytes.Equal(out[k:], want); try++ {
		if try == 299 {
			toNetGaveUp++
		}
		buf.Reset()
		if err := mh.ToNet(thePeer, m, &buf); err != nil {
			return nil, err
		}
		out = append(out[:0], buf.Bytes()...)
	}
	return out, nil
}

type goRes struct {
	kind string // msg err eof panic
	msg  message.GraphSyncMessage
	what string
}

func (g goRes) term(rd *renderer) string {
	switch g.kind {
	case "msg":
		return "(GMsg " + rd.msg(g.msg) + ")"
	case "err":
		return "GErr"
	case "eof":
		return "GEof"
	}
	return "GPanic"
}

func fromNet(mh *v2.MessageHandler, input []byte) (g goRes) {
	return fromNetR(mh, bytes.NewReader(input))
}

// dribble yields 1, 2, 3, 1, 2, 3 ... bytes per Read
type dribble struct {
	b    []byte
	i, k int
}

func (d *dribble) Read(p []byte) (int, error) {
	if d.i >= len(d.b) {
		return 0, io.EOF
	}
	n := d.k%3 + 1
	d.k++
	if n > len(p) {
		n = len(p)
	}
	if n > len(d.b)-d.i {
		n = len(d.b) - d.i
	}
	copy(p, d.b[d.i:d.i+n])
	d.i += n
	return n, nil
}

// allAtOnce hands out as much as the caller's buffer takes
type allAtOnce struct {
	b []byte
	i int
}

func (a *allAtOnce) Read(p []byte) (int, error) {
	if a.i >= len(a.b) {
		return 0, io.EOF
	}
	n := copy(p, a.b[a.i:])
	a.i += n
	return n, nil
}

// streamReaders: the kinds of io.Reader a stream of messages is read from by successive FromNet calls
func streamReaders(all []byte) []io.Reader {
	return []io.Reader{bytes.NewBuffer(append([]byte(nil), all...)), &dribble{b: all}, &allAtOnce{b: all}}
}

// fromNetSeq calls FromNet on the SAME reader until a call does not return a message (that result is
// included), at most max times
func fromNetSeq(mh *v2.MessageHandler, r io.Reader, max int) []goRes {
	var out []goRes
	for i := 0; i < max; i++ {
		g := fromNetR(mh, r)
		out = append(out, g)
		if g.kind != "msg" {
			break
		}
	}
	return out
}

func fromNetR(mh *v2.MessageHandler, r io.Reader) (g goRes) {
	defer func() {
		if p := recover(); p != nil {
			g = goRes{kind: "panic", what: fmt.Sprint(p)}
		}
	}()
	m, err := mh.FromNet(thePeer, r)
	if err == io.EOF {
		return goRes{kind: "eof"}
	}
	if err != nil {
		return goRes{kind: "err", what: err.Error()}
	}
	return goRes{kind: "msg", msg: m}
}

func fromReader(mh *v2.MessageHandler, r msgio.Reader) (g goRes) {
	defer func() {
		if p := recover(); p != nil {
			g = goRes{kind: "panic", what: fmt.Sprint(p)}
		}
	}()
	m, err := mh.FromMsgReader(thePeer, r)
	if err == io.EOF {
		return goRes{kind: "eof"}
	}
	if err != nil {
		return goRes{kind: "err", what: err.Error()}
	}
	return goRes{kind: "msg", msg: m}
}

// ---- extension payload codecs: decode with the real decoders what the real encoders produced ----

func extOfPart(p message.MessagePartWithExtensions, name string) (datamodel.Node, bool) {
	d, ok := p.Extension(graphsync.ExtensionName(name))
	return d, ok && d != nil
}

func checkTypedExts(es []extDesc, part message.MessagePartWithExtensions) (checked int, bad []string) {
	for _, e := range es {
		if e.Data == nil {
			continue
		}
		name := string(unhex(e.Name))
		switch e.Data.K {
		case "cidset", "firstblocks", "dedupkey":
		default:
			continue
		}
		checked++
		d, ok := extOfPart(part, name)
		if !ok {
			bad = append(bad, name+": payload lost")
			continue
		}
		switch e.Data.K {
		case "cidset":
			want := map[string]bool{}
			for _, k := range e.Data.L {
				want[k.S] = true
			}
			set, err := cidset.DecodeCidSet(d)
			if err != nil {
				bad = append(bad, name+": "+err.Error())
				continue
			}
			got := map[string]bool{}
			_ = set.ForEach(func(c cid.Cid) error { got[hexs(c.Bytes())] = true; return nil })
			same := len(got) == len(want)
			for k := range want {
				same = same && got[k]
			}
			if !same {
				bad = append(bad, name+": different cid set")
			}
		case "firstblocks":
			v, err := donotsendfirstblocks.DecodeDoNotSendFirstBlocks(d)
			if err != nil || v != e.Data.I {
				bad = append(bad, fmt.Sprintf("%s: %d became %d (%v)", name, e.Data.I, v, err))
			}
		case "dedupkey":
			v, err := dedupkey.DecodeDedupKey(d)
			if err != nil || v != string(unhex(e.Data.S)) {
				bad = append(bad, fmt.Sprintf("%s: %q became %q (%v)", name, string(unhex(e.Data.S)), v, err))
			}
		}
	}
	return
}

func checkMsgExts(d msgDesc, got message.GraphSyncMessage) (checked int, bad []string) {
	for _, q := range d.Reqs {
		if q.Kind == "cancel" {
			continue
		}
		for _, r := range got.Requests() {
			if hexs(r.ID().Bytes()) == q.ID {
				c, b := checkTypedExts(q.Exts, r)
				checked += c
				bad = append(bad, b...)
			}
		}
	}
	for _, s := range d.Rsps {
		for _, r := range got.Responses() {
			if hexs(r.RequestID().Bytes()) == s.ID {
				c, b := checkTypedExts(s.Exts, r)
				checked += c
				bad = append(bad, b...)
			}
		}
	}
	return
}

// ---- the driver ----

func genCodecCase(r *rng.R) codecCase {
	tg := tagset{}
	n := 1
	if r.P(1, 4) {
		n = r.Range(2, 4)
		tg.add("multi-msg")
	}
	undefined := r.P(3, 100)
	bad := -1
	if undefined {
		bad = r.Intn(n)
	}
	var cc codecCase
	for i := 0; i < n; i++ {
		cc.Msgs = append(cc.Msgs, genMsg(r, tg, msgOpts{undefinedStatus: i == bad, small: n > 1}))
	}
	cc.Tags = tg.list()
	return cc
}

func runCodec(c *drv.Ctx) error {
	w := cw.New(c.Out, casesHeader, "ccase", []cw.Check{
		{Name: "MISMATCH", Fn: "ccase_agrees"},
		{Name: "MON11", Fn: "ccase_mon"},
	})
	w.Stats.Rule = "1-4 messages per case (requests new/cancel/update, all priorities boundaries, root present/absent, selector nil/common/random, " +
		"0-3 extensions per part with nil/Null/random nested data and the three typed extensions through their real encoders, every defined status code, " +
		"0-5 metadata entries with all four actions, 0-3 blocks over CIDv0/v1, sha2-256/512/identity/truncated, empty message; a third through message.Builder; " +
		"3% with an undefined status that ToNet must refuse) built with the real constructors, real v2 ToNet, real FromMsgReader on the concatenation, successive FromNet calls on one bytes.Buffer / few-bytes-per-Read / all-at-once reader over the concatenation, and FromNet on the first frame; " +
		"non-trivial = some request/response has an extension or metadata, or there is a block; distinct = distinct terms"
	mh := v2.NewMessageHandler()
	extChecked, extBad := 0, 0

	run := func(cc codecCase, kind string) error {
		rd := &renderer{}
		built := make([]message.GraphSyncMessage, len(cc.Msgs))
		for i, d := range cc.Msgs {
			m, err := d.build()
			if err != nil {
				return fmt.Errorf("cannot build message %d of a %s case: %w", i, kind, err)
			}
			built[i] = m
		}
		orc := newOracle()
		var builtTerms []string
		for _, m := range built {
			builtTerms = append(builtTerms, rd.msg(m))
			orc.addMsg(m)
		}
		encOK := true
		var all, first []byte
		for i, m := range built {
			b, err := toNet(mh, m, &cc.Msgs[i])
			if err != nil {
				encOK = false
				break
			}
			if i == 0 {
				first = b
			}
			all = append(all, b...)
		}
		tags := append([]string{"kind:" + kind}, cc.Tags...)
		var goTerms, seqTerms []string
		var violations [][2]string
		if !encOK {
			all = nil
			tags = append(tags, "go-encode-refused")
		} else {
			rdr := msgio.NewVarintReaderSize(bytes.NewReader(all), network.MessageSizeMax)
			var results []goRes
			for {
				g := fromReader(mh, rdr)
				if g.kind == "eof" {
					break
				}
				results = append(results, g)
				if g.kind == "msg" {
					orc.addMsg(g.msg)
					continue
				}
				if g.kind == "panic" {
					violations = append(violations, [2]string{"panic in FromMsgReader: " + g.what, "panic"})
				}
				break
			}
			for _, g := range results {
				goTerms = append(goTerms, g.term(rd))
			}
			// the same stream read by successive FromNet calls on one reader, for three kinds of reader
			for _, sr := range streamReaders(all) {
				var ts []string
				for _, g := range fromNetSeq(mh, sr, len(built)+1) {
					if g.kind == "msg" {
						orc.addMsg(g.msg)
					}
					if g.kind == "panic" {
						violations = append(violations, [2]string{"panic in FromNet: " + g.what, "panic"})
					}
					ts = append(ts, g.term(rd))
				}
				seqTerms = append(seqTerms, cw.List(ts))
			}
			// FromNet on the first frame alone must agree with the first FromMsgReader result
			f := fromNet(mh, first)
			if f.kind == "panic" {
				violations = append(violations, [2]string{"panic in FromNet: " + f.what, "panic"})
			}
			if f.kind == "msg" {
				orc.addMsg(f.msg)
			}
			if len(results) == 0 || f.term(rd) != results[0].term(rd) {
				violations = append(violations, [2]string{"FromNet vs FromMsgReader", "fromnet-differs"})
			}
			// typed extension payloads through their own decoders
			for i, d := range cc.Msgs {
				if i < len(results) && results[i].kind == "msg" {
					n, bad := checkMsgExts(d, results[i].msg)
					extChecked += n
					for _, b := range bad {
						extBad++
						violations = append(violations, [2]string{"extension payload codec round trip: " + b, "ext-codec"})
					}
				}
			}
			if len(results) == len(built) {
				tags = append(tags, "go-decoded-all")
			} else {
				tags = append(tags, "go-decode-stopped-early")
			}
		}
		if len(rd.odd) > 0 {
			violations = append(violations, [2]string{"decoded message with " + oddKey(rd.odd), "odd-value"})
		}
		nontrivial := false
		for _, d := range cc.Msgs {
			nontrivial = nontrivial || d.nontrivial()
		}
		term := fmt.Sprintf("(mk_ccase %s %s %s\n    %s\n    %s\n    %s)", cw.List(builtTerms), cw.Bool(encOK), hx(all), cw.List(goTerms), cw.List(seqTerms), orc.term())
		idx := w.Add(term, cc, nontrivial, tags...)
		for _, v := range violations {
			what := v[0]
			if v[1] == "ext-codec" {
				what = "extension payload codec round trip"
			}
			w.Violation(idx, what, v[1])
		}
		return nil
	}

	finish := func() error {
		w.Stats.Extra = map[string]any{"typed_extension_payloads_checked": extChecked, "typed_extension_payloads_bad": extBad, "tonet_description_order_not_reached": toNetGaveUp}
		return w.Flush()
	}
	if c.Replay != "" {
		var cc codecCase
		if err := drv.ReplayCase(c.Replay, &cc); err != nil {
			return err
		}
		if err := run(cc, "replay"); err != nil {
			return err
		}
		return finish()
	}
	for _, f := range c.CorpusFiles("codec") {
		var cc codecCase
		if err := drv.ReplayCase(f, &cc); err != nil {
			return fmt.Errorf("%s: %w", f, err)
		}
		if err := run(cc, "corpus"); err != nil {
			return fmt.Errorf("%s: %w", f, err)
		}
	}
	n := c.Count(600, 12000)
	// rng.New(seed+1) is rng.New(seed) advanced by one step, so forking c.R once per case would make
	// neighbouring seeds generate the same cases shifted by one: fork the per-case streams from a stream
	// that is itself forked from c.R
	root := c.R.Fork()
	for i := 0; i < n; i++ {
		if err := run(genCodecCase(root.Fork()), "generated"); err != nil {
			return err
		}
	}
	return finish()
}
