package main

// JSON-serialisable descriptions of GraphSync messages and their construction through the real
// constructors (message.NewRequest / NewCancelRequest / NewUpdateRequest / NewResponse /
// blocks.NewBlockWithCid / message.NewMessage, or the real message.Builder).

import (
	"bytes"
	"encoding/hex"
	"fmt"

	blocks "github.com/ipfs/go-block-format"
	"github.com/ipfs/go-cid"
	"github.com/ipld/go-ipld-prime/datamodel"
	cidlink "github.com/ipld/go-ipld-prime/linking/cid"

	"github.com/ipfs/go-graphsync"
	"github.com/ipfs/go-graphsync/message"
)

type extDesc struct {
	Name string `json:"name"`           // hex
	Data *nd    `json:"data,omitempty"` // absent = Go nil Data
}

type reqDesc struct {
	ID   string    `json:"id"`             // hex, 16 bytes
	Kind string    `json:"kind"`           // new | cancel | update
	Pri  int32     `json:"pri,omitempty"`  // new only
	Root string    `json:"root,omitempty"` // hex cid; "" = cid.Undef
	Sel  *nd       `json:"sel,omitempty"`  // absent = nil selector
	Exts []extDesc `json:"exts,omitempty"`
}

type mdDesc struct {
	Link   string `json:"link"`   // hex cid
	Action string `json:"action"` // p d m s
}

type rspDesc struct {
	ID     string    `json:"id"`
	Status int32     `json:"status"`
	MD     []mdDesc  `json:"md,omitempty"`
	Exts   []extDesc `json:"exts,omitempty"`
}

type blkDesc struct {
	Version uint64 `json:"v"`
	Codec   uint64 `json:"codec"`
	MhType  uint64 `json:"mh"`
	MhLen   int    `json:"mhlen"` // -1 = default
	Data    string `json:"data"`  // hex
}

type msgDesc struct {
	Reqs    []reqDesc `json:"reqs,omitempty"`
	Rsps    []rspDesc `json:"rsps,omitempty"`
	Blks    []blkDesc `json:"blks,omitempty"`
	Builder bool      `json:"builder,omitempty"` // assembled through message.Builder
}

var actionOfLetter = map[string]graphsync.LinkAction{
	"p": graphsync.LinkActionPresent,
	"d": graphsync.LinkActionDuplicateNotSent,
	"m": graphsync.LinkActionMissing,
	"s": graphsync.LinkActionDuplicateDAGSkipped,
}

func buildExts(es []extDesc) ([]graphsync.ExtensionData, error) {
	var out []graphsync.ExtensionData
	for _, e := range es {
		var data datamodel.Node
		if e.Data != nil {
			n, err := e.Data.build()
			if err != nil {
				return nil, err
			}
			data = n
		}
		out = append(out, graphsync.ExtensionData{Name: graphsync.ExtensionName(string(unhex(e.Name))), Data: data})
	}
	return out, nil
}

func parseID(h string) (graphsync.RequestID, error) { return graphsync.ParseRequestID(unhex(h)) }

func (q reqDesc) build() (message.GraphSyncRequest, error) {
	id, err := parseID(q.ID)
	if err != nil {
		return message.GraphSyncRequest{}, err
	}
	exts, err := buildExts(q.Exts)
	if err != nil {
		return message.GraphSyncRequest{}, err
	}
	switch q.Kind {
	case "cancel":
		return message.NewCancelRequest(id), nil
	case "update":
		return message.NewUpdateRequest(id, exts...), nil
	case "new":
		root := cid.Undef
		if q.Root != "" {
			if root, err = castCid(q.Root); err != nil {
				return message.GraphSyncRequest{}, err
			}
		}
		var sel datamodel.Node
		if q.Sel != nil {
			if sel, err = q.Sel.build(); err != nil {
				return message.GraphSyncRequest{}, err
			}
		}
		return message.NewRequest(id, root, sel, graphsync.Priority(q.Pri), exts...), nil
	}
	return message.GraphSyncRequest{}, fmt.Errorf("bad request kind %q", q.Kind)
}

func (s rspDesc) metadata() ([]message.GraphSyncLinkMetadatum, error) {
	var md []message.GraphSyncLinkMetadatum
	for _, m := range s.MD {
		c, err := castCid(m.Link)
		if err != nil {
			return nil, err
		}
		a, ok := actionOfLetter[m.Action]
		if !ok {
			return nil, fmt.Errorf("bad action %q", m.Action)
		}
		md = append(md, message.GraphSyncLinkMetadatum{Link: c, Action: a})
	}
	return md, nil
}

func (b blkDesc) build() (blocks.Block, error) {
	data := unhex(b.Data)
	c, err := cid.Prefix{Version: b.Version, Codec: b.Codec, MhType: b.MhType, MhLength: b.MhLen}.Sum(data)
	if err != nil {
		return nil, err
	}
	return blocks.NewBlockWithCid(data, c)
}

func (m msgDesc) build() (message.GraphSyncMessage, error) {
	if m.Builder {
		b := message.NewBuilder()
		for _, q := range m.Reqs {
			r, err := q.build()
			if err != nil {
				return message.GraphSyncMessage{}, err
			}
			b.AddRequest(r)
		}
		for _, s := range m.Rsps {
			id, err := parseID(s.ID)
			if err != nil {
				return message.GraphSyncMessage{}, err
			}
			md, err := s.metadata()
			if err != nil {
				return message.GraphSyncMessage{}, err
			}
			exts, err := buildExts(s.Exts)
			if err != nil {
				return message.GraphSyncMessage{}, err
			}
			for _, x := range md {
				b.AddLink(id, cidlink.Link{Cid: x.Link}, x.Action)
			}
			for _, e := range exts {
				b.AddExtensionData(id, e)
			}
			// a response without a completion code goes out as PartialResponse: use that path when it applies
			if !(graphsync.ResponseStatusCode(s.Status) == graphsync.PartialResponse && (len(md) > 0 || len(exts) > 0)) {
				b.AddResponseCode(id, graphsync.ResponseStatusCode(s.Status))
			}
		}
		for _, k := range m.Blks {
			blk, err := k.build()
			if err != nil {
				return message.GraphSyncMessage{}, err
			}
			b.AddBlock(blk)
		}
		return b.Build()
	}
	var reqs map[graphsync.RequestID]message.GraphSyncRequest
	var rsps map[graphsync.RequestID]message.GraphSyncResponse
	var blks map[cid.Cid]blocks.Block
	if len(m.Reqs) > 0 {
		reqs = map[graphsync.RequestID]message.GraphSyncRequest{}
	}
	for _, q := range m.Reqs {
		r, err := q.build()
		if err != nil {
			return message.GraphSyncMessage{}, err
		}
		reqs[r.ID()] = r
	}
	if len(m.Rsps) > 0 {
		rsps = map[graphsync.RequestID]message.GraphSyncResponse{}
	}
	for _, s := range m.Rsps {
		id, err := parseID(s.ID)
		if err != nil {
			return message.GraphSyncMessage{}, err
		}
		md, err := s.metadata()
		if err != nil {
			return message.GraphSyncMessage{}, err
		}
		exts, err := buildExts(s.Exts)
		if err != nil {
			return message.GraphSyncMessage{}, err
		}
		rsps[id] = message.NewResponse(id, graphsync.ResponseStatusCode(s.Status), md, exts...)
	}
	if len(m.Blks) > 0 {
		blks = map[cid.Cid]blocks.Block{}
	}
	for _, k := range m.Blks {
		blk, err := k.build()
		if err != nil {
			return message.GraphSyncMessage{}, err
		}
		blks[blk.Cid()] = blk
	}
	return message.NewMessage(reqs, rsps, blks), nil
}

// ---- sorted views of a message (Go map iteration is random) ----

func sortedReqs(m message.GraphSyncMessage) []message.GraphSyncRequest {
	rs := m.Requests()
	sortBy(rs, func(r message.GraphSyncRequest) []byte { return r.ID().Bytes() })
	return rs
}

func sortedRsps(m message.GraphSyncMessage) []message.GraphSyncResponse {
	rs := m.Responses()
	sortBy(rs, func(r message.GraphSyncResponse) []byte { return r.RequestID().Bytes() })
	return rs
}

func sortedBlks(m message.GraphSyncMessage) []blocks.Block {
	bs := m.Blocks()
	sortBy(bs, func(b blocks.Block) []byte { return b.Cid().Bytes() })
	return bs
}

func sortBy[T any](xs []T, key func(T) []byte) {
	// insertion sort: the lists are tiny and this keeps equal keys in place
	for i := 1; i < len(xs); i++ {
		for j := i; j > 0 && bytes.Compare(key(xs[j]), key(xs[j-1])) < 0; j-- {
			xs[j], xs[j-1] = xs[j-1], xs[j]
		}
	}
}

func hexs(b []byte) string { return hex.EncodeToString(b) }
