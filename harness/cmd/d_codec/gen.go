package main

// Generators of message descriptions (shared by both drivers).

import (
	"math"
	"strconv"

	"github.com/ipfs/go-cid"
	"github.com/multiformats/go-multihash"

	"github.com/ipfs/go-graphsync"

	"verif/harness/internal/rng"
)

type tagset map[string]bool

func (t tagset) add(s ...string) {
	for _, x := range s {
		t[x] = true
	}
}

func (t tagset) list() []string {
	var out []string
	for k := range t {
		out = append(out, k)
	}
	sortStrings(out)
	return out
}

func sortStrings(xs []string) {
	for i := 1; i < len(xs); i++ {
		for j := i; j > 0 && xs[j] < xs[j-1]; j-- {
			xs[j], xs[j-1] = xs[j-1], xs[j]
		}
	}
}

var definedStatuses = []int32{10, 11, 12, 13, 14, 15, 20, 21, 30, 31, 32, 33, 34, 35}
var undefinedStatuses = []int32{0, 16, 22, 99, -1, 9, 19, 36, 1, math.MaxInt32, math.MinInt32}

var intBoundaries = []int64{0, -1, 1, 23, 24, -24, -25, 255, 256, -256, -257, 65535, 65536, -65536, -65537,
	1<<32 - 1, 1 << 32, -(1 << 32), -(1 << 32) - 1, math.MaxInt64, math.MinInt64, math.MaxInt32, math.MinInt32}
var uintBoundaries = []uint64{math.MaxInt64 + 1, math.MaxUint64, math.MaxUint64 - 1, math.MaxInt64 + 2, 1 << 63, 5, 0}
var floatBoundaries = []float64{0.0, math.Copysign(0, -1), 1.5, -1.5, math.MaxFloat64, -math.MaxFloat64,
	math.SmallestNonzeroFloat64, 1.0, 0.1, 3.4028234663852886e38, 65504, 1e300, 5.960464477539063e-08}

var priorities = []int32{0, 1, -1, math.MaxInt32, math.MinInt32, 2, 100}

var strSamples = [][]byte{{}, []byte("a"), []byte("hello"), {0xff, 0xfe}, {0xc3, 0x28}, []byte("\x00"), []byte("π/✓"),
	[]byte("abcdefghijklmnopqrstuvwx"), []byte("abcdefghijklmnopqrstuvw")}

var keySamples = []string{"a", "b", "aa", "ab", "z", "", "key", "Key", "k1", "k2", "longer-key", "/", "~", "\xff", "0", "00", "R", "l", ":>"}

var extNames = []string{"x", "y", "graphsync/foo", "AA", "a/b", "ext", "Z", "\xc3\xa9", "graphsync/response-metadata", "n", ""}

// genCid: a syntactically valid CID of a random kind (short identity CIDs are frequent: every byte of a case
// costs Coq parsing time several times over)
func genCid(r *rng.R, tg tagset) string {
	data := r.Bytes(r.Range(0, 12))
	var p cid.Prefix
	switch x := r.Intn(20); {
	case x < 5:
		p = cid.Prefix{Version: 0, Codec: cid.DagProtobuf, MhType: multihash.SHA2_256, MhLength: 32}
		tg.add("cidv0")
	case x < 8:
		p = cid.Prefix{Version: 1, Codec: cid.Raw, MhType: multihash.SHA2_256, MhLength: -1}
	case x < 9:
		p = cid.Prefix{Version: 1, Codec: cid.DagCBOR, MhType: multihash.SHA2_512, MhLength: -1}
	case x < 17:
		p = cid.Prefix{Version: 1, Codec: rng.Pick(r, []uint64{cid.Raw, cid.DagCBOR, cid.DagProtobuf}), MhType: multihash.IDENTITY, MhLength: -1}
		data = data[:len(data)/3]
		tg.add("identity-hash")
	case x < 18:
		p = cid.Prefix{Version: 1, Codec: cid.Raw, MhType: multihash.SHA2_256, MhLength: 20}
	default:
		p = cid.Prefix{Version: 1, Codec: cid.DagProtobuf, MhType: multihash.SHA2_256, MhLength: -1}
	}
	c, err := p.Sum(data)
	if err != nil {
		panic(err)
	}
	return hexs(c.Bytes())
}

func genScalar(r *rng.R, tg tagset) *nd {
	switch r.Intn(11) {
	case 0:
		return &nd{K: "null"}
	case 1:
		return &nd{K: "bool", B: r.Bool()}
	case 2, 3:
		if r.P(2, 3) {
			return &nd{K: "int", I: rng.Pick(r, intBoundaries)}
		}
		return &nd{K: "int", I: int64(r.U64()) >> uint(r.Intn(64))}
	case 4:
		tg.add("uint-node")
		if r.P(2, 3) {
			return &nd{K: "uint", U: strconv.FormatUint(rng.Pick(r, uintBoundaries), 10)}
		}
		return &nd{K: "uint", U: strconv.FormatUint(r.U64()|1<<63, 10)}
	case 5:
		tg.add("float")
		f := rng.Pick(r, floatBoundaries)
		if r.P(1, 3) {
			f = math.Float64frombits(r.U64())
			if math.IsNaN(f) || math.IsInf(f, 0) {
				f = 2.5
			}
		}
		return &nd{K: "float", U: strconv.FormatUint(math.Float64bits(f), 10)}
	case 6, 7:
		if r.P(2, 3) {
			return &nd{K: "str", S: hexs(rng.Pick(r, strSamples))}
		}
		return &nd{K: "str", S: hexs(r.Bytes(r.Range(0, 12)))}
	case 8:
		n := r.Range(0, 12)
		if r.P(1, 25) {
			n = r.Range(250, 270) // two-byte length head
		}
		return &nd{K: "bytes", S: hexs(r.Bytes(n))}
	default:
		tg.add("link-node")
		return &nd{K: "link", S: genCid(r, tg)}
	}
}

func genNode(r *rng.R, depth int, tg tagset) *nd {
	if depth <= 0 || r.P(1, 2) {
		return genScalar(r, tg)
	}
	if r.Bool() {
		n := &nd{K: "list"}
		for i := r.Range(0, 3); i > 0; i-- {
			n.L = append(n.L, genNode(r, depth-1, tg))
		}
		return n
	}
	n := &nd{K: "map"}
	used := map[string]bool{}
	for i := r.Range(0, 4); i > 0; i-- {
		k := rng.Pick(r, keySamples)
		if r.P(1, 5) {
			k = string(r.Bytes(r.Range(1, 5)))
		}
		if used[k] {
			continue
		}
		used[k] = true
		n.M = append(n.M, me{K: hk(k), V: genNode(r, depth-1, tg)})
	}
	for i := 1; i < len(n.M); i++ {
		a, b := unhex(n.M[i-1].K), unhex(n.M[i].K)
		if len(a) > len(b) || (len(a) == len(b) && string(a) > string(b)) {
			tg.add("unsorted-map")
		}
	}
	return n
}

func genExts(r *rng.R, tg tagset) []extDesc {
	n := 0
	switch x := r.Intn(100); {
	case x < 40:
		n = 0
	case x < 75:
		n = 1
	case x < 90:
		n = 2
	default:
		n = 3
	}
	var out []extDesc
	used := map[string]bool{}
	for i := 0; i < n; i++ {
		var e extDesc
		if r.P(3, 10) {
			switch r.Intn(3) {
			case 0:
				e.Name = hk(string(graphsync.ExtensionDoNotSendCIDs))
				d := &nd{K: "cidset"}
				for j := rng.Pick(r, []int{0, 1, 1, 2, 2, 3, 4}); j > 0; j-- {
					d.L = append(d.L, &nd{K: "link", S: genCid(r, tg)})
				}
				e.Data = d
				tg.add("ext:do-not-send-cids")
			case 1:
				e.Name = hk(string(graphsync.ExtensionsDoNotSendFirstBlocks))
				v := rng.Pick(r, intBoundaries)
				if r.Bool() {
					v = int64(r.Range(0, 1000))
				}
				e.Data = &nd{K: "firstblocks", I: v}
				tg.add("ext:do-not-send-first-blocks")
			default:
				e.Name = hk(string(graphsync.ExtensionDeDupByKey))
				e.Data = &nd{K: "dedupkey", S: hexs(rng.Pick(r, strSamples))}
				tg.add("ext:dedup-by-key")
			}
		} else {
			e.Name = hk(rng.Pick(r, extNames))
			switch x := r.Intn(100); {
			case x < 15:
				tg.add("nil-ext")
			case x < 27:
				e.Data = &nd{K: "null"}
				tg.add("null-ext")
			default:
				e.Data = genNode(r, rng.Pick(r, []int{0, 1, 1, 2, 2, 3}), tg)
			}
		}
		if used[e.Name] {
			continue
		}
		used[e.Name] = true
		out = append(out, e)
	}
	if len(out) > 0 {
		tg.add("has-ext")
	}
	return out
}

func genReq(r *rng.R, tg tagset) reqDesc {
	q := reqDesc{ID: hexs(r.Bytes(16))}
	switch x := r.Intn(10); {
	case x < 6:
		q.Kind = "new"
		q.Pri = rng.Pick(r, priorities)
		if r.P(1, 4) {
			q.Pri = int32(r.U64())
		}
		if r.P(4, 5) {
			q.Root = genCid(r, tg)
		} else {
			tg.add("root-undef")
		}
		switch y := r.Intn(100); {
		case y < 15:
			tg.add("sel-nil")
		case y < 65:
			q.Sel = &nd{K: "sel", I: int64(r.Intn(len(commonSelectors)))}
			tg.add("sel-common")
		default:
			for {
				q.Sel = genNode(r, rng.Pick(r, []int{0, 1, 2, 2, 3}), tg)
				if q.Sel.K != "null" { // a Null selector cannot be sent (see the model); never generated
					break
				}
			}
			tg.add("sel-random")
		}
		q.Exts = genExts(r, tg)
	case x < 8:
		q.Kind = "cancel"
	default:
		q.Kind = "update"
		q.Exts = genExts(r, tg)
	}
	tg.add("req:" + q.Kind)
	return q
}

func genRsp(r *rng.R, tg tagset, undefined bool, maxMD int) rspDesc {
	s := rspDesc{ID: hexs(r.Bytes(16)), Status: rng.Pick(r, definedStatuses)}
	if undefined {
		s.Status = rng.Pick(r, undefinedStatuses)
		tg.add("undefined-status")
	} else {
		tg.add("status:" + strconv.Itoa(int(s.Status)))
	}
	n := 0
	if r.P(3, 5) {
		n = rng.Pick(r, []int{1, 1, 1, 1, 2, 2, 2, 3, 3, 4, 5})
		if n > maxMD {
			n = maxMD
		}
	}
	for i := 0; i < n; i++ {
		s.MD = append(s.MD, mdDesc{Link: genCid(r, tg), Action: rng.Pick(r, []string{"p", "d", "m", "s"})})
	}
	if n > 0 {
		tg.add("has-metadata")
	}
	s.Exts = genExts(r, tg)
	tg.add("rsp")
	return s
}

func genBlk(r *rng.R, tg tagset, big bool) blkDesc {
	n := r.Range(0, 10)
	switch x := r.Intn(20); {
	case x < 3:
		n = 0
		tg.add("empty-block")
	case x < 4:
		if big {
			n = r.Range(100, 300)
			tg.add("big-block")
		}
	case x < 8:
		n = r.Range(11, 40)
	}
	b := blkDesc{Data: hexs(r.Bytes(n))}
	switch r.Intn(8) {
	case 0, 1:
		b.Version, b.Codec, b.MhType, b.MhLen = 0, cid.DagProtobuf, multihash.SHA2_256, 32
		if r.Bool() {
			b.MhLen = -1
		}
		tg.add("blk:cidv0")
	case 2:
		b.Version, b.Codec, b.MhType, b.MhLen = 1, cid.Raw, multihash.SHA2_256, -1
		tg.add("blk:raw-sha256")
	case 3:
		b.Version, b.Codec, b.MhType, b.MhLen = 1, cid.DagCBOR, multihash.SHA2_256, -1
		tg.add("blk:dagcbor-sha256")
	case 4:
		b.Version, b.Codec, b.MhType, b.MhLen = 1, cid.DagProtobuf, multihash.SHA2_512, -1
		tg.add("blk:dagpb-sha512")
	case 5:
		b.Version, b.Codec, b.MhType, b.MhLen = 1, cid.Raw, multihash.IDENTITY, -1
		tg.add("blk:identity-hash")
	case 6:
		b.Version, b.Codec, b.MhType, b.MhLen = 1, cid.DagCBOR, multihash.IDENTITY, -1
		tg.add("blk:identity-hash")
	default:
		b.Version, b.Codec, b.MhType, b.MhLen = 1, cid.Raw, multihash.SHA2_256, 20
		tg.add("blk:truncated-sha256")
	}
	tg.add("blk")
	if _, err := b.build(); err != nil { // the hash refuses this length: use the default one
		b.MhLen = -1
	}
	return b
}

type msgOpts struct {
	undefinedStatus bool // one response carries a status that is not a member of the enum
	rich            bool // at least one new request with root/selector/extension, a response with metadata and an extension, a block
	small           bool // few parts
	short           bool // short metadata lists and block data (hostile inputs)
}

func genMsg(r *rng.R, tg tagset, o msgOpts) msgDesc {
	var m msgDesc
	if !o.rich && !o.undefinedStatus && r.P(1, 20) {
		tg.add("empty-msg")
		return m
	}
	pick := func() int {
		switch x := r.Intn(100); {
		case x < 42:
			return 0
		case x < 82:
			return 1
		case x < 94:
			return 2
		default:
			return 3
		}
	}
	nq, ns, nb := pick(), pick(), pick()
	if o.small {
		nq, ns, nb = r.Intn(2), r.Intn(2), r.Intn(2)
	}
	if o.undefinedStatus && ns == 0 {
		ns = 1
	}
	if o.rich {
		if nq == 0 || o.short {
			nq = 1
		}
		if ns == 0 || o.short {
			ns = 1
		}
		if nb == 0 || o.short {
			nb = 1
		}
	}
	for i := 0; i < nq; i++ {
		m.Reqs = append(m.Reqs, genReq(r, tg))
	}
	bad := -1
	if o.undefinedStatus {
		bad = r.Intn(ns)
	}
	for i := 0; i < ns; i++ {
		maxMD := 5
		if o.short {
			maxMD = 2
		}
		m.Rsps = append(m.Rsps, genRsp(r, tg, i == bad, maxMD))
	}
	for i := 0; i < nb; i++ {
		m.Blks = append(m.Blks, genBlk(r, tg, !o.short))
	}
	if o.rich {
		q := &m.Reqs[0]
		if q.Kind != "new" {
			q.Kind = "new"
		}
		if q.Root == "" {
			q.Root = genCid(r, tg)
		}
		if q.Sel == nil {
			q.Sel = &nd{K: "sel", I: 0}
		}
		if q.Pri == 0 {
			q.Pri = 7
		}
		if len(q.Exts) == 0 {
			q.Exts = []extDesc{{Name: hk("x"), Data: &nd{K: "int", I: 5}}}
		}
		s := &m.Rsps[0]
		if len(s.MD) == 0 {
			s.MD = []mdDesc{{Link: genCid(r, tg), Action: "p"}}
		}
		if len(s.Exts) == 0 {
			s.Exts = []extDesc{{Name: hk("y"), Data: &nd{K: "str", S: hk("v")}}}
		}
	}
	if nq+ns > 1 || nb > 1 {
		tg.add("multi-part")
	}
	if r.P(1, 3) {
		m.Builder = true
		tg.add("via-builder")
	}
	return m
}

func (m msgDesc) nontrivial() bool {
	if len(m.Blks) > 0 {
		return true
	}
	for _, q := range m.Reqs {
		if len(q.Exts) > 0 {
			return true
		}
	}
	for _, s := range m.Rsps {
		if len(s.Exts) > 0 || len(s.MD) > 0 {
			return true
		}
	}
	return false
}
