package main

// Coq terms (types of coq MsgCodec.v / Cbor.v) for nodes, messages, results and the hash oracle.

import (
	"fmt"
	"math"
	"sort"
	"strings"

	blocks "github.com/ipfs/go-block-format"
	"github.com/ipfs/go-cid"
	"github.com/ipld/go-ipld-prime/datamodel"
	cidlink "github.com/ipld/go-ipld-prime/linking/cid"
	"github.com/multiformats/go-multihash"

	"github.com/ipfs/go-graphsync"
	"github.com/ipfs/go-graphsync/message"

	"verif/harness/internal/cw"
)

const casesHeader = `From Coq Require Import List NArith ZArith Bool String Uint63.
From GS Require Import Base Varint HexLit Cbor MsgCodec.
Import ListNotations.
Open Scope string_scope.
Open Scope list_scope.
Open Scope N_scope.
`

// hx: a byte string literal.  Coq parses string literals very slowly, so the cases files use HexLit.hb:
// (hb n [w1; w2; ...]) = n bytes packed big-endian, seven per primitive-integer literal
func hx(b []byte) string {
	const chunk = 4900 // keeps the nat numeral small
	const minRun = 2000
	if len(b) > chunk {
		// long runs of one byte (nesting bombs, padded block data) are written as (rep n byte)
		var parts []string
		flush := func(seg []byte) {
			for i := 0; i < len(seg); i += chunk {
				j := i + chunk
				if j > len(seg) {
					j = len(seg)
				}
				parts = append(parts, hx(seg[i:j]))
			}
		}
		start := 0
		for i := 0; i < len(b); {
			j := i
			for j < len(b) && b[j] == b[i] {
				j++
			}
			if j-i >= minRun {
				flush(b[start:i])
				parts = append(parts, fmt.Sprintf("(rep %d %d)", j-i, b[i]))
				start = j
			}
			i = j
		}
		flush(b[start:])
		if len(parts) == 1 {
			return parts[0]
		}
		return "(" + strings.Join(parts, " ++ ") + ")"
	}
	var sb strings.Builder
	fmt.Fprintf(&sb, "(hb %d%%nat [", len(b))
	for i := 0; i < len(b); i += 7 {
		j := i + 7
		if j > len(b) {
			j = len(b)
		}
		if i > 0 {
			sb.WriteString("; ")
		}
		sb.WriteString("0x")
		sb.WriteString(hexs(b[i:j]))
		sb.WriteString("%uint63")
	}
	sb.WriteString("])")
	return sb.String()
}

func coqZ(z int64) string { return fmt.Sprintf("(%d)%%Z", z) }

// renderer collects oddities met while rendering what Go handed back (never expected)
type renderer struct {
	odd   []string
	depth int
}

func (rd *renderer) node(n datamodel.Node) string {
	// the strict decoder never hands back more than 1024 levels; a deeper node is reported, not rendered
	// (a term nested that deep would also overflow Coq's parser)
	rd.depth++
	defer func() { rd.depth-- }()
	if rd.depth > 1100 {
		if rd.depth == 1101 {
			rd.odd = append(rd.odd, "node nested deeper than the decoder's depth limit")
		}
		return "NNull"
	}
	switch n.Kind() {
	case datamodel.Kind_Null:
		return "NNull"
	case datamodel.Kind_Bool:
		b, _ := n.AsBool()
		return "(NBool " + cw.Bool(b) + ")"
	case datamodel.Kind_Int:
		if un, ok := n.(datamodel.UintNode); ok {
			u, err := un.AsUint()
			if err == nil {
				return fmt.Sprintf("(NInt (%d)%%Z)", u)
			}
		}
		i, err := n.AsInt()
		if err != nil {
			rd.odd = append(rd.odd, "int node without a value: "+err.Error())
		}
		return "(NInt " + coqZ(i) + ")"
	case datamodel.Kind_Float:
		f, _ := n.AsFloat()
		return fmt.Sprintf("(NFloat %d)", math.Float64bits(f))
	case datamodel.Kind_String:
		s, _ := n.AsString()
		return "(NStr " + hx([]byte(s)) + ")"
	case datamodel.Kind_Bytes:
		b, _ := n.AsBytes()
		return "(NBytes " + hx(b) + ")"
	case datamodel.Kind_Link:
		l, _ := n.AsLink()
		cl, ok := l.(cidlink.Link)
		if !ok {
			rd.odd = append(rd.odd, "link that is not a cidlink")
			return "(NLink " + hx(nil) + ")"
		}
		return "(NLink " + hx(cl.Cid.Bytes()) + ")"
	case datamodel.Kind_List:
		var es []string
		it := n.ListIterator()
		for !it.Done() {
			_, v, err := it.Next()
			if err != nil {
				rd.odd = append(rd.odd, "list iterator: "+err.Error())
				break
			}
			es = append(es, rd.node(v))
		}
		return "(NList " + cw.List(es) + ")"
	case datamodel.Kind_Map:
		var es []string
		it := n.MapIterator()
		for !it.Done() {
			k, v, err := it.Next()
			if err != nil {
				rd.odd = append(rd.odd, "map iterator: "+err.Error())
				break
			}
			ks, _ := k.AsString()
			es = append(es, "("+hx([]byte(ks))+", "+rd.node(v)+")")
		}
		return "(NMap " + cw.List(es) + ")"
	}
	rd.odd = append(rd.odd, "node of kind "+n.Kind().String())
	return "NNull"
}

func (rd *renderer) exts(p message.MessagePartWithExtensions) string {
	names := p.ExtensionNames()
	sort.Slice(names, func(i, j int) bool { return names[i] < names[j] })
	var es []string
	for _, nm := range names {
		d, _ := p.Extension(nm)
		if d == nil {
			es = append(es, "("+hx([]byte(nm))+", None)")
		} else {
			es = append(es, "("+hx([]byte(nm))+", Some "+rd.node(d)+")")
		}
	}
	return cw.List(es)
}

func (rd *renderer) req(r message.GraphSyncRequest) string {
	kind := ""
	switch r.Type() {
	case graphsync.RequestTypeNew:
		kind = "RNew"
	case graphsync.RequestTypeCancel:
		kind = "RCancel"
	case graphsync.RequestTypeUpdate:
		kind = "RUpdate"
	default:
		rd.odd = append(rd.odd, fmt.Sprintf("request type %q", string(r.Type())))
		kind = "RNew"
	}
	root := "None"
	if r.Root() != cid.Undef {
		root = "(Some " + hx(r.Root().Bytes()) + ")"
	}
	sel := "None"
	if r.Selector() != nil {
		sel = "(Some " + rd.node(r.Selector()) + ")"
	}
	return fmt.Sprintf("(mk_req %s %s %s %s %s %s)", hx(r.ID().Bytes()), kind, coqZ(int64(r.Priority())), root, sel, rd.exts(r))
}

func (rd *renderer) rsp(r message.GraphSyncResponse) string {
	var md []string
	r.Metadata().Iterate(func(c cid.Cid, a graphsync.LinkAction) {
		act := ""
		switch a {
		case graphsync.LinkActionPresent:
			act = "APresent"
		case graphsync.LinkActionDuplicateNotSent:
			act = "ADuplicateNotSent"
		case graphsync.LinkActionMissing:
			act = "AMissing"
		case graphsync.LinkActionDuplicateDAGSkipped:
			act = "ADuplicateDAGSkipped"
		default:
			rd.odd = append(rd.odd, fmt.Sprintf("link action %q", string(a)))
			act = "APresent"
		}
		md = append(md, "("+hx(c.Bytes())+", "+act+")")
	})
	return fmt.Sprintf("(mk_rsp %s %s %s %s)", hx(r.RequestID().Bytes()), coqZ(int64(r.Status())), cw.List(md), rd.exts(r))
}

func (rd *renderer) msg(m message.GraphSyncMessage) string {
	var qs, ss, bs []string
	for _, r := range sortedReqs(m) {
		qs = append(qs, rd.req(r))
	}
	for _, r := range sortedRsps(m) {
		ss = append(ss, rd.rsp(r))
	}
	for _, b := range sortedBlks(m) {
		bs = append(bs, "("+hx(b.Cid().Bytes())+", "+hx(b.RawData())+")")
	}
	return "(mk_msg " + cw.List(qs) + " " + cw.List(ss) + " " + cw.List(bs) + ")"
}

// ---- hash oracle ----

type oracle struct {
	seen map[string]bool
	ents []string
}

func newOracle() *oracle { return &oracle{seen: map[string]bool{}} }

func safeSum(data []byte, code uint64, length int) (mh []byte, ok bool) {
	defer func() {
		if recover() != nil {
			mh, ok = nil, false
		}
	}()
	h, err := multihash.Sum(data, code, length)
	if err != nil {
		return nil, false
	}
	return []byte(h), true
}

func (o *oracle) addPrefix(p cid.Prefix, data []byte) {
	length := p.MhLength
	if p.MhType == multihash.IDENTITY {
		length = -1
	}
	key := fmt.Sprintf("%d/%d/%s", p.MhType, length, hexs(data))
	if o.seen[key] {
		return
	}
	o.seen[key] = true
	res := "None"
	if mh, ok := safeSum(data, p.MhType, length); ok {
		res = "Some " + hx(mh)
	}
	o.ents = append(o.ents, fmt.Sprintf("(%d, %s, %s, %s)", p.MhType, coqZ(int64(length)), hx(data), res))
}

func (o *oracle) addBlock(b blocks.Block) { o.addPrefix(b.Cid().Prefix(), b.RawData()) }

func (o *oracle) addMsg(m message.GraphSyncMessage) {
	for _, b := range sortedBlks(m) {
		o.addBlock(b)
	}
}

func (o *oracle) term() string { return cw.List(o.ents) }

func oddKey(odd []string) string {
	seen := map[string]bool{}
	var out []string
	for _, o := range odd {
		if !seen[o] {
			seen[o] = true
			out = append(out, o)
		}
	}
	return strings.Join(out, "; ")
}
