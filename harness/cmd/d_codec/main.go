// Command d_codec holds the two drivers of the wire-format properties:
//
//	d_codec codec   ...   C11: wire encoding round-trips (cases of type ccase)
//	d_codec hostile ...   C12: hostile bytes never crash a node or yield unverified blocks (hcase)
//
// Both evaluate against coq MsgCodec.v (with Varint.v, Cbor.v).
package main

import (
	"fmt"
	"os"

	"verif/harness/internal/drv"
)

func main() {
	if len(os.Args) < 2 {
		fmt.Fprintln(os.Stderr, "usage: d_codec codec|hostile -seed N -tier quick|thorough -out DIR [-corpus DIR] [-replay FILE] [-n N]")
		os.Exit(2)
	}
	switch os.Args[1] {
	case "codec":
		drv.Main("codec", runCodec)
	case "hostile":
		drv.Main("hostile", runHostile)
	case "bombchild": // internal: one hostile input from stdin, observed in this (expendable) process
		runBombChild()
	default:
		fmt.Fprintln(os.Stderr, "unknown driver:", os.Args[1])
		os.Exit(2)
	}
}
