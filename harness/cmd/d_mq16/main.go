// Command d_mq16 is the driver of C16 (every queued message is reported sent or failed exactly once).
//
// It runs the real messagequeue.MessageQueue + real allocator.Allocator + real
// responseassembler transactions (one recording subscriber object per request stream, so a message
// carrying several requests has several subscribers) against a scripted network: every ConnectTo /
// SendMsg blocks until the script releases it with an outcome.  Labels are applied while the queue
// goroutine is parked (idle at its select, inside one network call, exited); parking is detected by
// inspecting goroutine stacks, never by timing.  Besides the labels of the C15 driver there is
// "buildshut": Shutdown() is called from inside the build callback, i.e. while data is being queued
// under buildersLk, and the callback only returns once the queue goroutine has reacted (blocked on the
// builders lock in its drain, or still inside its network call).
//
// Observed and compared with the model (coq/theories/MsgQueue16.v): after every label the accounted
// memory, every queued builder's size, the phase, the messages on the wire, which attachment
// (request, message) the build made — read back from Builder.Subscribers() and the identity of the
// builder handed to the callback —, and every subscriber's event list (Queued/Sent/Error per topic,
// OnClose).  The C16 monitor is evaluated on these observations of the implementation.
package main

import (
	"context"
	"crypto/sha256"
	"encoding/json"
	"errors"
	"fmt"
	"os"
	"os/exec"
	"path/filepath"
	"runtime"
	"sort"
	"strings"
	"sync"
	"time"

	"github.com/ipfs/go-cid"
	"github.com/ipld/go-ipld-prime"
	"github.com/ipld/go-ipld-prime/codec/dagcbor"
	cidlink "github.com/ipld/go-ipld-prime/linking/cid"
	"github.com/ipld/go-ipld-prime/node/basicnode"
	"github.com/libp2p/go-libp2p/core/peer"
	mh "github.com/multiformats/go-multihash"

	"github.com/ipfs/go-graphsync"
	"github.com/ipfs/go-graphsync/allocator"
	gsmsg "github.com/ipfs/go-graphsync/message"
	"github.com/ipfs/go-graphsync/messagequeue"
	gsnet "github.com/ipfs/go-graphsync/network"
	"github.com/ipfs/go-graphsync/notifications"
	"github.com/ipfs/go-graphsync/responsemanager/responseassembler"

	"verif/harness/internal/cw"
	"verif/harness/internal/drv"
	"verif/harness/internal/rng"
)

func main() { drv.Main("mq16", run) }

type mqBlock struct {
	L    uint64 `json:"l"`
	Size uint64 `json:"size"`
	Has  bool   `json:"has"`
}

type mqLabel struct {
	K      string    `json:"k"` // build | buildshut | net | shutdown | deliver
	R      uint64    `json:"r,omitempty"`
	Blocks []mqBlock `json:"blocks,omitempty"`
	Ext    int       `json:"ext,omitempty"`    // payload bytes of an extension item (0 = none, -1 = extension with nil data)
	Status string    `json:"status,omitempty"` // "" | finish | error | pause
	OK     bool      `json:"ok,omitempty"`
	Before bool      `json:"before,omitempty"` // buildshut: Shutdown() before (true) or after the callback's own work
}

type mqCase struct {
	Univ   []uint64  `json:"univ"`
	Labels []mqLabel `json:"labels"`
	Dedup  bool      `json:"dedup,omitempty"` // every request in its own dedup bucket (DedupKey): a link shared by two requests is sent for each
	Limit  uint64    `json:"limit,omitempty"` // allocator per-peer limit (0 = 1 TiB: no reservation ever waits)
	Tags   []string  `json:"tags,omitempty"`
}

func mkLink(n uint64) ipld.Link {
	h := sha256.Sum256([]byte(fmt.Sprintf("link-%d", n)))
	m, _ := mh.Encode(h[:], mh.SHA2_256)
	return cidlink.Link{Cid: cid.NewCidV1(cid.Raw, m)}
}

var (
	reqMu       sync.Mutex
	fixedReqIDs = map[uint64]graphsync.RequestID{}
)

func reqID(n uint64) graphsync.RequestID {
	reqMu.Lock()
	defer reqMu.Unlock()
	if id, ok := fixedReqIDs[n]; ok {
		return id
	}
	b := make([]byte, 16)
	b[0] = 0xAB
	for i := 0; i < 8; i++ {
		b[15-i] = byte(n >> (8 * i))
	}
	id, err := graphsync.ParseRequestID(b)
	if err != nil {
		panic(err)
	}
	fixedReqIDs[n] = id
	return id
}

func reqNum(id graphsync.RequestID) uint64 {
	reqMu.Lock()
	defer reqMu.Unlock()
	for k, v := range fixedReqIDs {
		if v == id {
			return k
		}
	}
	return 0
}

type mqWorld struct {
	mu      sync.Mutex
	arrive  chan string // "connect" | "send"
	release chan bool   // outcome for the blocked call
	inCall  string      // which call the goroutine is blocked in ("" = none)
	pendMsg gsmsg.GraphSyncMessage
	wire    []string // messages whose SendMsg returned ok, since last observation
	events  map[uint64][]string
	nEvents int
	exited  bool
	linkIdx map[string]uint64

	// build in progress (set by the label loop, read by the handler inside the callback)
	q          *messagequeue.MessageQueue
	curReq     uint64
	shutMode   int // 0 none, 1 Shutdown() before the callback's work, 2 after
	builderIdx map[*messagequeue.Builder]uint64
	lastAtt    *uint64 // index of the builder the request's subscriber was found on after the callback
	shutDone   bool    // the callback ran and called Shutdown()
	real       *allocator.Allocator
	parked     []*parkedCall // reservations the real allocator deferred, oldest first
	callEv     chan string   // "parked" (from the allocator wrapper) / "done" (the transaction returned)
	deferred   bool          // the call in progress was deferred by the allocator
	hung       bool

	// statistics over the whole run
	subsPerTopic map[uint64]map[uint64]bool
	kinds        map[string]int
}

type mqNet struct{ w *mqWorld }
type mqSender struct{ w *mqWorld }

func (n mqNet) ConnectTo(ctx context.Context, p peer.ID) error {
	n.w.arrive <- "connect"
	if ok := <-n.w.release; !ok {
		return errors.New("cannot connect")
	}
	return nil
}
func (n mqNet) NewMessageSender(ctx context.Context, p peer.ID, o gsnet.MessageSenderOpts) (gsnet.MessageSender, error) {
	return mqSender{n.w}, nil
}
func (s mqSender) SendMsg(ctx context.Context, m gsmsg.GraphSyncMessage) error {
	s.w.mu.Lock()
	s.w.pendMsg = m
	s.w.mu.Unlock()
	s.w.arrive <- "send"
	if ok := <-s.w.release; !ok {
		return errors.New("send failed")
	}
	return nil
}
func (s mqSender) Close() error { return nil }
func (s mqSender) Reset() error { return nil }

// one subscriber object per request stream
type mqSub struct {
	w *mqWorld
	r uint64
}

func (s *mqSub) OnNext(t notifications.Topic, e notifications.Event) {
	ev := e.(messagequeue.Event)
	tp := uint64(t.(messagequeue.Topic))
	s.w.mu.Lock()
	s.w.events[s.r] = append(s.w.events[s.r], fmt.Sprintf("ev_ %d %d", uint64(ev.Name), tp))
	s.w.nEvents++
	if s.w.subsPerTopic[tp] == nil {
		s.w.subsPerTopic[tp] = map[uint64]bool{}
	}
	s.w.subsPerTopic[tp][s.r] = true
	s.w.kinds[[]string{"queued", "sent", "error"}[ev.Name%3]]++
	s.w.mu.Unlock()
}
func (s *mqSub) OnClose(t notifications.Topic) {
	s.w.mu.Lock()
	s.w.events[s.r] = append(s.w.events[s.r], fmt.Sprintf("ev_ 3 %d", uint64(t.(messagequeue.Topic))))
	s.w.nEvents++
	s.w.kinds["closed"]++
	s.w.mu.Unlock()
}

// queueState classifies the queue goroutine from the goroutine dump
func queueState(st []gState) (qstate string, pubBusy bool) {
	qstate = "gone"
	for _, g := range st {
		if strings.Contains(g.body, "notifications.(*publisher).start") && g.state != "sync.Cond.Wait" {
			pubBusy = true
		}
		if !strings.Contains(g.body, "messagequeue.(*MessageQueue).runQueue") {
			continue
		}
		switch {
		case strings.HasPrefix(g.first, "github.com/ipfs/go-graphsync/messagequeue.(*MessageQueue).runQueue") && g.state == "select":
			qstate = "idle"
		case strings.Contains(g.body, "main.mqNet.ConnectTo") && g.state == "chan receive":
			qstate = "connect"
		case strings.Contains(g.body, "main.mqSender.SendMsg") && g.state == "chan receive":
			qstate = "send"
		case strings.Contains(g.body, "extractOutgoingMessage") &&
			(strings.HasPrefix(g.state, "sync.Mutex.Lock") || strings.HasPrefix(g.state, "sync.RWMutex.Lock") || g.state == "semacquire"):
			qstate = "lock"
		default:
			qstate = "busy"
		}
	}
	return
}

// a reservation the real allocator did not grant at once
type parkedCall struct {
	req       uint64
	size      uint64
	real      <-chan error
	proxy     chan error
	answered  bool
	val       error
	delivered bool
	ev        chan string
	ops       []string // the transaction's operations as Coq terms
}

// parkAlloc is the Allocator handed to the queue: the REAL allocator decides everything; an answer that is not
// available at once (the reservation is pending in the allocator) reaches the parked caller only when the
// script says so ("deliver"), so that what happens between the allocator's answer and the caller's next step
// is chosen by the script and not by the Go scheduler
type parkAlloc struct{ w *mqWorld }

func (a parkAlloc) AllocateBlockMemory(p peer.ID, amount uint64) <-chan error {
	ch := a.w.real.AllocateBlockMemory(p, amount)
	if len(ch) == 1 {
		return ch // granted at once
	}
	pc := &parkedCall{req: a.w.curReq, size: amount, real: ch, proxy: make(chan error, 1), ev: a.w.callEv}
	a.w.parked = append(a.w.parked, pc)
	a.w.deferred = true
	a.w.shutMode = 0 // a shutdown meant for inside this call's callback is dropped: the callback runs at delivery
	a.w.callEv <- "parked"
	return pc.proxy
}
func (a parkAlloc) ReleasePeerMemory(p peer.ID) error { return a.w.real.ReleasePeerMemory(p) }
func (a parkAlloc) ReleaseBlockMemory(p peer.ID, amount uint64) error {
	return a.w.real.ReleaseBlockMemory(p, amount)
}

// collect the answers the real allocator has given meanwhile
func (w *mqWorld) pollAnswers() (waiting, ready int, granted uint64) {
	for _, pc := range w.parked {
		if !pc.answered {
			select {
			case v := <-pc.real:
				pc.answered, pc.val = true, v
			default:
			}
		}
		switch {
		case !pc.answered:
			waiting++
		case !pc.delivered:
			ready++
			if pc.val == nil {
				granted += pc.size
			}
		}
	}
	return
}

// the PeerMessageHandler the response assembler talks to: the real queue, with the callback wrapped so
// that the builder handed to it is identified, the attachment is read back, and Shutdown() can land
// while the callback runs
type mqHandler struct{ w *mqWorld }

func (h mqHandler) AllocateAndBuildMessage(p peer.ID, size uint64, fn func(*messagequeue.Builder)) {
	w := h.w
	w.q.AllocateAndBuildMessage(size, func(b *messagequeue.Builder) {
		idx, ok := w.builderIdx[b]
		if !ok {
			idx = uint64(len(w.builderIdx))
			w.builderIdx[b] = idx
		}
		if w.shutMode == 1 {
			w.shutdownInCallback()
		}
		fn(b)
		if _, has := b.Subscribers()[reqID(w.curReq)]; has {
			w.lastAtt = &idx
		}
		if w.shutMode == 2 {
			w.shutdownInCallback()
		}
	})
}

// Shutdown() while the build callback holds buildersLk; returns when the queue goroutine has reacted as far
// as it can: blocked on the lock inside extractOutgoingMessage (it was idle), still inside its network call,
// or gone
func (w *mqWorld) shutdownInCallback() {
	w.q.Shutdown()
	w.shutDone = true
	deadline := time.Now().Add(5 * time.Second)
	for time.Now().Before(deadline) {
		qs, _ := queueState(goroutineStates())
		if qs == "lock" || qs == "connect" || qs == "send" || qs == "gone" {
			return
		}
		time.Sleep(100 * time.Microsecond)
	}
	w.hung = true
}

func (w *mqWorld) wireTerm(m gsmsg.GraphSyncMessage) string {
	type rr struct {
		id   uint64
		term string
	}
	var rs []rr
	for _, resp := range m.Responses() {
		rid := reqNum(resp.RequestID())
		var md []string
		resp.Metadata().Iterate(func(c cid.Cid, a graphsync.LinkAction) {
			md = append(md, fmt.Sprintf("(%d, %s)", w.linkIdx[cidlink.Link{Cid: c}.String()], cw.Bool(a == graphsync.LinkActionPresent)))
		})
		rs = append(rs, rr{rid, fmt.Sprintf("(%d, (%d, %s))", rid, resp.Status(), cw.List(md))})
	}
	sort.Slice(rs, func(i, j int) bool { return rs[i].id < rs[j].id })
	var rts []string
	for _, r := range rs {
		rts = append(rts, r.term)
	}
	var bl []uint64
	for _, b := range m.Blocks() {
		bl = append(bl, w.linkIdx[cidlink.Link{Cid: b.Cid()}.String()])
	}
	sort.Slice(bl, func(i, j int) bool { return bl[i] < bl[j] })
	return fmt.Sprintf("(%s, %s)", cw.List(rts), cw.NList(bl))
}

type runResult struct {
	Labels   []string       `json:"labels"`
	Obs      []string       `json:"obs"`
	Atts     []string       `json:"atts"`
	SawError bool           `json:"saw_error"`
	Hung     bool           `json:"hung"`
	MaxSubs  int            `json:"max_subs"`
	Kinds    map[string]int `json:"kinds"`
	NAtt     int            `json:"n_att"`
	PhaseEnd int            `json:"phase_end"`
	NParked  int            `json:"n_parked"`
	NDeliver int            `json:"n_deliver"`
	Rerun    bool           `json:"rerun"`
}

// runCase executes the labels; returns the Coq terms of labels (with hints), observations and attachments
func runCase(c mqCase) (res runResult) {
	ctx, cancel := context.WithCancel(context.Background())
	defer cancel()
	w := &mqWorld{arrive: make(chan string, 4), release: make(chan bool), events: map[uint64][]string{}, linkIdx: map[string]uint64{},
		builderIdx: map[*messagequeue.Builder]uint64{}, subsPerTopic: map[uint64]map[uint64]bool{}, kinds: map[string]int{}}
	p := peer.ID("peer-1")
	limit := c.Limit
	if limit == 0 {
		limit = 1 << 40
	}
	alloc := allocator.NewAllocator(1<<40, limit)
	w.real = alloc
	q := messagequeue.New(ctx, p, mqNet{w}, parkAlloc{w}, 3, 10*time.Second, func(peer.ID) {
		w.mu.Lock()
		w.exited = true
		w.mu.Unlock()
	})
	w.q = q
	q.Startup()
	ra := responseassembler.New(ctx, mqHandler{w})
	streams := map[uint64]responseassembler.ResponseStream{}
	stream := func(r uint64) responseassembler.ResponseStream {
		s, ok := streams[r]
		if !ok {
			s = ra.NewStream(ctx, p, reqID(r), &mqSub{w, r})
			streams[r] = s
		}
		return s
	}
	// wait until the queue goroutine is parked (idle at its select, blocked in a scripted network call, or
	// gone) and every event publisher goroutine is idle, by inspecting goroutine stacks: no timing guesses
	settle := func() {
		deadline := time.Now().Add(5 * time.Second)
		for time.Now().Before(deadline) {
			qstate, pubBusy := queueState(goroutineStates())
			if qstate != "busy" && qstate != "lock" && !pubBusy {
				for {
					select {
					case <-w.arrive:
						continue
					default:
					}
					break
				}
				switch qstate {
				case "connect", "send":
					w.inCall = qstate
				default:
					w.inCall = ""
				}
				w.mu.Lock()
				w.exited = w.exited || qstate == "gone"
				w.mu.Unlock()
				return
			}
			time.Sleep(100 * time.Microsecond)
		}
		res.Hung = true
	}
	// wait for the queue goroutine to come up and park at its select
	for i := 0; i < 50000; i++ {
		if qs, _ := queueState(goroutineStates()); qs == "idle" {
			break
		}
		time.Sleep(50 * time.Microsecond)
	}
	lastObs := ""
	for _, l := range c.Labels {
		term := ""
		built := "no_bt"
		att := "no_at"
		switch l.K {
		case "build", "buildshut":
			var ops []string
			s := stream(l.R)
			w.curReq = l.R
			w.lastAtt = nil
			w.shutMode = 0
			w.shutDone = false
			if l.K == "buildshut" {
				w.shutMode = 2
				if l.Before {
					w.shutMode = 1
				}
			}
			if c.Dedup {
				// (re)assign the request's own dedup bucket: a finished request loses its key
				s.DedupKey(fmt.Sprintf("bucket-%d", l.R))
			}
			w.deferred = false
			evCh := make(chan string, 2)
			w.callEv = evCh
			go func() {
				_ = s.Transaction(func(rb responseassembler.ResponseBuilder) error {
					for _, b := range l.Blocks {
						lk := mkLink(b.L)
						w.mu.Lock()
						w.linkIdx[lk.String()] = b.L
						w.mu.Unlock()
						var data []byte
						if b.Has {
							data = make([]byte, b.Size)
						}
						rb.SendResponse(lk, data)
						ops = append(ops, fmt.Sprintf("TBlock %d %d %s", b.L, b.Size, cw.Bool(b.Has)))
					}
					if l.Ext != 0 {
						ed := graphsync.ExtensionData{Name: "verif/ext"}
						size := int64(0)
						if l.Ext > 0 {
							ed.Data = basicnode.NewBytes(make([]byte, l.Ext))
							size, _ = dagcbor.EncodedLength(ed.Data)
						}
						rb.SendExtensionData(ed)
						ops = append(ops, fmt.Sprintf("TExt %d", size))
					}
					switch l.Status {
					case "finish":
						st := rb.FinishRequest()
						ops = append(ops, fmt.Sprintf("TStatus %d", st))
					case "error":
						rb.FinishWithError(graphsync.RequestFailedUnknown)
						ops = append(ops, fmt.Sprintf("TStatus %d", graphsync.RequestFailedUnknown))
					case "pause":
						rb.PauseRequest()
						ops = append(ops, fmt.Sprintf("TStatus %d", graphsync.RequestPaused))
					}
					return nil
				})
				evCh <- "done"
			}()
			// the transaction returns, or parks in the allocator
			select {
			case <-evCh:
			case <-time.After(5 * time.Second):
				res.Hung = true
			}
			if l.K == "buildshut" && !w.shutDone && !w.deferred {
				// the stream was closed (or the queue already shut down): the callback never ran; the
				// shutdown still happens, with nothing being built
				q.Shutdown()
			}
			w.shutMode = 0
			if w.hung {
				res.Hung = true
			}
			if w.lastAtt != nil {
				att = fmt.Sprintf("at_ %d %d %s", l.R, *w.lastAtt, cw.Bool(len(ops) > 0))
				res.NAtt++
			}
			if l.K == "build" {
				term = fmt.Sprintf("PL (L16 (LBuild %d %s))", l.R, cw.List(ops))
			} else {
				term = fmt.Sprintf("PL (LBuildShut %d %s)", l.R, cw.List(ops))
			}
			if w.deferred {
				res.NParked++
				w.parked[len(w.parked)-1].ops = ops
			}
			if w.lastAtt != nil {
				built = fmt.Sprintf("bt_ %d %s", l.R, cw.List(ops))
			}
		case "net":
			if w.inCall == "" {
				continue // nothing to release: skip the label entirely
			}
			kind := w.inCall
			if kind == "send" && l.OK {
				w.mu.Lock()
				w.wire = append(w.wire, w.wireTerm(w.pendMsg))
				w.mu.Unlock()
			}
			w.inCall = ""
			w.release <- l.OK
			if !l.OK {
				res.SawError = true
			}
			term = fmt.Sprintf("PL (L16 (LNet %s))", cw.Bool(l.OK))
		case "shutdown":
			q.Shutdown()
			term = "PL (L16 LShutdown)"
		case "deliver":
			// the oldest answered reservation reaches its caller, which runs to the end of AllocateAndBuildMessage
			w.pollAnswers()
			var pc *parkedCall
			for _, x := range w.parked {
				if x.answered && !x.delivered {
					pc = x
					break
				}
			}
			if pc == nil {
				continue // nothing answered: skip the label
			}
			w.curReq = pc.req
			w.lastAtt = nil
			w.shutMode = 0
			pc.delivered = true
			pc.proxy <- pc.val
			select {
			case <-pc.ev:
			case <-time.After(5 * time.Second):
				res.Hung = true
			}
			if w.lastAtt != nil {
				att = fmt.Sprintf("at_ %d %d true", pc.req, *w.lastAtt)
				built = fmt.Sprintf("bt_ %d %s", pc.req, cw.List(pc.ops))
				res.NAtt++
			}
			res.NDeliver++
			term = "PDeliver"
		default:
			continue
		}
		settle()
		w.mu.Lock()
		phase := 0
		switch {
		case w.inCall == "connect":
			phase = 1
		case w.inCall == "send":
			phase = 2
		case w.exited:
			phase = 4
		}
		evs := make([]string, len(c.Univ))
		for i, r := range c.Univ {
			evs[i] = cw.List(w.events[r])
			w.events[r] = nil
		}
		wire := w.wire
		w.wire = nil
		w.mu.Unlock()
		res.PhaseEnd = phase
		hint := phase != 4
		nWait, nReady, granted := w.pollAnswers()
		if phase == 4 {
			granted = 0 // ReleasePeerMemory at exit forgets whatever had been granted and not used
		}
		res.Labels = append(res.Labels, fmt.Sprintf("pl_ (%s) %s", term, cw.Bool(hint)))
		res.Atts = append(res.Atts, att)
		res.Obs = append(res.Obs, fmt.Sprintf("po_ %d %s %d %d %s %s (%s) %d %d %d (%s)", alloc.AllocatedForPeer(p),
			cw.NList(q.VerifQueuedBlockSizes()), q.VerifQueuedNonEmpty(), phase, cw.List(evs), cw.List(wire), att, nWait, nReady, granted, built))
		lastObs = fmt.Sprintf("po_ %d %s %d %d @EVENTS@ [] (no_at) %d %d %d no_bt", alloc.AllocatedForPeer(p),
			cw.NList(q.VerifQueuedBlockSizes()), q.VerifQueuedNonEmpty(), phase, nWait, nReady, granted)
	}
	// late subscriber events: wait until the event count has been stable for 10ms, then attribute them to a
	// final no-op label (an LNet with nothing blocked)
	{
		last, stable := -1, 0
		for i := 0; i < 2000 && stable < 10; i++ {
			w.mu.Lock()
			n := w.nEvents
			w.mu.Unlock()
			if n == last {
				stable++
			} else {
				stable = 0
				last = n
			}
			time.Sleep(time.Millisecond)
		}
		w.mu.Lock()
		if len(res.Obs) > 0 && w.inCall == "" {
			extra := make([]string, len(c.Univ))
			any := false
			for i, r := range c.Univ {
				extra[i] = cw.List(w.events[r])
				if len(w.events[r]) > 0 {
					any = true
				}
			}
			if any {
				res.Labels = append(res.Labels, "pl_ (PL (L16 (LNet true))) true") // a no-op label when nothing is blocked
				res.Atts = append(res.Atts, "no_at")
				res.Obs = append(res.Obs, strings.Replace(lastObs, "@EVENTS@", cw.List(extra), 1))
			}
		}
		for _, m := range w.subsPerTopic {
			if len(m) > res.MaxSubs {
				res.MaxSubs = len(m)
			}
		}
		res.Kinds = w.kinds
		w.mu.Unlock()
	}
	// unblock the goroutine so that it can exit, and wait until it and its publisher are gone
	cancel()
	if w.inCall != "" {
		select {
		case w.release <- false:
		case <-time.After(100 * time.Millisecond):
		}
	}
	for i := 0; i < 20000; i++ {
		alive := false
		for _, g := range goroutineStates() {
			if strings.Contains(g.body, "messagequeue.(*MessageQueue).runQueue") || strings.Contains(g.body, "notifications.(*publisher).start") {
				alive = true
			}
		}
		if !alive {
			break
		}
		time.Sleep(100 * time.Microsecond)
	}
	return
}

// dedupGen draws blocks from a small common pool (links 1001, 1002; one fixed size each), at most once per request
type dedupGen struct {
	on   bool
	size map[uint64]uint64
	used map[uint64]map[uint64]bool
}

var dg dedupGen

func (d *dedupGen) reset(on bool) {
	d.on, d.size, d.used = on, map[uint64]uint64{}, map[uint64]map[uint64]bool{}
}

func (d *dedupGen) pick(r *rng.R, req uint64, size uint64) (uint64, uint64, bool) {
	if !d.on || !r.P(2, 3) {
		return 0, 0, false
	}
	cand := uint64(1001 + r.Intn(2))
	if d.used[req] == nil {
		d.used[req] = map[uint64]bool{}
	}
	if d.used[req][cand] {
		return 0, 0, false
	}
	d.used[req][cand] = true
	if d.size[cand] == 0 {
		d.size[cand] = size
	}
	return cand, d.size[cand], true
}

func genBuild(r *rng.R, nreq int, link *uint64, big bool) mqLabel {
	l := mqLabel{K: "build", R: uint64(r.Range(1, nreq))}
	if r.P(1, 12) {
		return l // a transaction without operations: attaches its subscriber, queues nothing
	}
	nb := r.Range(0, 3)
	for j := 0; j < nb; j++ {
		*link++
		size := uint64(r.Range(1, 2000))
		if big && r.P(1, 2) {
			size = uint64(r.Range(150000, 400000))
			if r.P(1, 4) {
				size = uint64(r.Range(524289, 600000)) // larger than a whole message: always starts a new builder
			}
		}
		if pl, psz, ok := dg.pick(r, l.R, size); ok {
			l.Blocks = append(l.Blocks, mqBlock{L: pl, Size: psz, Has: true})
		} else {
			l.Blocks = append(l.Blocks, mqBlock{L: *link, Size: size, Has: r.P(5, 6)})
		}
	}
	if r.P(1, 4) {
		l.Ext = r.Range(1, 300)
	} else if r.P(1, 20) {
		l.Ext = -1
	}
	switch r.Intn(8) {
	case 0:
		l.Status = "finish"
	case 1:
		l.Status = "error"
	case 2:
		l.Status = "pause"
	}
	return l
}

// random scripts: builds over 1-4 requests (several requests per message while a network call is
// blocked), network outcomes, Shutdown() between labels and inside a build callback
func genCase(r *rng.R) mqCase {
	nreq := r.Range(1, 4)
	var c mqCase
	for i := 1; i <= nreq; i++ {
		c.Univ = append(c.Univ, uint64(i))
	}
	n := r.Range(2, 14)
	link := uint64(0)
	big := r.P(1, 4)
	// a third of the scripts with several requests: own dedup bucket per request, common blocks
	c.Dedup = nreq >= 2 && r.P(1, 3)
	dg.reset(c.Dedup)
	// a third of the scripts: a small per-peer limit in the real allocator, so that reservations wait there while
	// the queue sends, fails, shuts down and exits; their answers are delivered at scripted points
	small := r.P(1, 3)
	if small {
		if big {
			c.Limit = uint64(r.Range(200000, 700000))
		} else {
			c.Limit = uint64(r.Range(500, 5000))
		}
	}
	failHeavy := r.P(1, 4)               // more failing network calls: reconnect failures, initial connect failures
	alternate := !failHeavy && r.P(1, 5) // sends fail and reconnects succeed: retries run out
	sendTurn := false
	for i := 0; i < n; i++ {
		x := r.Intn(100)
		switch {
		case x < 48:
			c.Labels = append(c.Labels, genBuild(r, nreq, &link, big))
		case x < 88:
			ok := r.P(3, 4)
			if failHeavy {
				ok = r.P(1, 3)
			}
			if alternate {
				// connect ok, then send fail / reconnect ok / send fail ... (a build in between keeps the
				// alternation: it releases nothing)
				ok = !sendTurn || r.P(1, 8)
				sendTurn = !sendTurn
			}
			c.Labels = append(c.Labels, mqLabel{K: "net", OK: ok})
		case x < 94:
			c.Labels = append(c.Labels, mqLabel{K: "shutdown"})
			if small && r.P(1, 2) {
				c.Labels = append(c.Labels, mqLabel{K: "deliver"})
			}
		case small && x < 97:
			c.Labels = append(c.Labels, mqLabel{K: "deliver"})
		default:
			l := genBuild(r, nreq, &link, big)
			l.K = "buildshut"
			l.Before = r.Bool()
			c.Labels = append(c.Labels, l)
		}
	}
	// resolve whatever is still in flight so that the history ends parked idle or exited
	for i := 0; i < 8; i++ {
		ok := !failHeavy || r.P(2, 3)
		if alternate {
			ok = !sendTurn
			sendTurn = !sendTurn
		}
		c.Labels = append(c.Labels, mqLabel{K: "net", OK: ok})
	}
	for i := 0; i < 8; i++ {
		c.Labels = append(c.Labels, mqLabel{K: "net", OK: true})
		if small {
			c.Labels = append(c.Labels, mqLabel{K: "deliver"})
		}
	}
	return c
}

// a backlog of at least two pending messages behind a held send, with block sizes mixed around the 512 KiB
// message threshold (300K / 300K / 100K ...): a later small block must not be packed into an earlier message
func genBacklog(r *rng.R) mqCase {
	dg.reset(false)
	var c mqCase
	nreq := r.Range(1, 3)
	for i := 1; i <= nreq; i++ {
		c.Univ = append(c.Univ, uint64(i))
	}
	link := uint64(1)
	c.Labels = append(c.Labels, mqLabel{K: "build", R: 1, Blocks: []mqBlock{{L: link, Size: uint64(r.Range(1, 2000)), Has: true}}})
	if r.P(1, 2) {
		c.Labels = append(c.Labels, mqLabel{K: "net", OK: true}) // connected: the goroutine is now held in SendMsg
	}
	n := r.Range(3, 7)
	for i := 0; i < n; i++ {
		link++
		size := uint64(r.Range(250000, 330000))
		if i >= 2 && r.P(1, 2) {
			size = uint64(r.Range(50000, 150000))
		}
		if r.P(1, 10) {
			size = uint64(r.Range(1, 3000))
		}
		l := mqLabel{K: "build", R: uint64(r.Range(1, nreq)), Blocks: []mqBlock{{L: link, Size: size, Has: true}}}
		if r.P(1, 6) {
			l.Status = "pause"
		}
		c.Labels = append(c.Labels, l)
	}
	for i := 0; i < 2*n+4; i++ {
		c.Labels = append(c.Labels, mqLabel{K: "net", OK: r.P(9, 10)})
	}
	for i := 0; i < 6; i++ {
		c.Labels = append(c.Labels, mqLabel{K: "net", OK: true})
	}
	return c
}

// a held send fails for good while at least three messages are pending behind it: the failing request's data
// sits only in the first one or two pending builders (they empty when the request is scrubbed) with several
// messages of other requests queued after them — whatever is left must still leave in the order it was queued
func genBacklogFail(r *rng.R) mqCase {
	dg.reset(false)
	var c mqCase
	nreq := r.Range(2, 3)
	for i := 1; i <= nreq; i++ {
		c.Univ = append(c.Univ, uint64(i))
	}
	link := uint64(1)
	c.Labels = append(c.Labels, mqLabel{K: "build", R: 1, Blocks: []mqBlock{{L: link, Size: uint64(r.Range(1, 2000)), Has: true}}})
	c.Labels = append(c.Labels, mqLabel{K: "net", OK: true}) // connected: held in SendMsg
	nfail := r.Range(1, 2)
	nother := r.Range(4, 6)
	if r.P(1, 3) {
		// a message of another request ahead of the failing request's pending data
		link++
		c.Labels = append(c.Labels, mqLabel{K: "build", R: 2, Blocks: []mqBlock{{L: link, Size: uint64(r.Range(250000, 330000)), Has: true}}})
	}
	for i := 0; i < nfail; i++ {
		link++
		c.Labels = append(c.Labels, mqLabel{K: "build", R: 1, Blocks: []mqBlock{{L: link, Size: uint64(r.Range(250000, 330000)), Has: true}}})
	}
	for i := 0; i < nother; i++ {
		link++
		c.Labels = append(c.Labels, mqLabel{K: "build", R: uint64(r.Range(2, nreq)), Blocks: []mqBlock{{L: link, Size: uint64(r.Range(250000, 330000)), Has: true}}})
	}
	if r.P(1, 2) {
		// the send fails and so does the reconnect
		c.Labels = append(c.Labels, mqLabel{K: "net", OK: false}, mqLabel{K: "net", OK: false})
	} else {
		// retries run out: three failed sends, each followed by a successful reconnect
		for i := 0; i < 3; i++ {
			c.Labels = append(c.Labels, mqLabel{K: "net", OK: false}, mqLabel{K: "net", OK: true})
		}
	}
	for i := 0; i < 2*(nfail+nother)+6; i++ {
		c.Labels = append(c.Labels, mqLabel{K: "net", OK: true})
	}
	return c
}

// the shape "a build whose callback finds its stream closed starts an EMPTY builder in the middle of a backlog":
// request 1's first message is in flight and its second transaction waits in the allocator; the message fails
// for good (stream closed, memory released, the waiting reservation granted); another message is then held in
// SendMsg with a non-empty builder queued behind it; the granted answer is delivered — the build does not fit
// into the queued builder and adds nothing — and a block larger than a whole message is queued behind the empty
// builder; no later build: the queue must still work through everything
func genClosedMidBacklog(r *rng.R) mqCase {
	dg.reset(false)
	var c mqCase
	c.Univ = []uint64{1, 2, 3}
	c.Limit = uint64(r.Range(1250000, 1400000))
	first := c.Limit - uint64(r.Range(50000, 200000))
	t := uint64(r.Range(280000, 330000))
	b0 := uint64(r.Range(250000, 330000))
	big := uint64(r.Range(524289, 600000))
	c.Labels = []mqLabel{
		{K: "build", R: 1, Blocks: []mqBlock{{L: 1, Size: first, Has: true}}},
		{K: "build", R: 1, Blocks: []mqBlock{{L: 2, Size: t, Has: true}}}, // waits in the allocator
		{K: "net", OK: true}, {K: "net", OK: false}, {K: "net", OK: false}, // the first message fails for good
		{K: "build", R: 2, Blocks: []mqBlock{{L: 3, Size: uint64(r.Range(1, 2000)), Has: true}}},
		{K: "net", OK: true}, // connected again: held in SendMsg
		{K: "build", R: 3, Blocks: []mqBlock{{L: 4, Size: b0, Has: true}}},
		{K: "deliver"},
		{K: "build", R: uint64(r.Range(2, 3)), Blocks: []mqBlock{{L: 5, Size: big, Has: true}}},
	}
	if r.P(1, 3) {
		c.Labels = append(c.Labels, mqLabel{K: "build", R: 2}) // a transaction without operations changes nothing
	}
	for i := 0; i < 8; i++ {
		c.Labels = append(c.Labels, mqLabel{K: "net", OK: true})
	}
	return c
}

// mixed builders: a queued builder whose blocks all belong to request 1 and which also carries block-less content
// of request 2 (a final status, an extension, a link whose block is missing) with its own subscriber, queued
// behind a message of request 1 that then fails (send and reconnect fail, retries run out, or the shutdown drain):
// request 1 is scrubbed out of the builder, request 2's content must still be sent and reported
func genMixedScrub(r *rng.R) mqCase {
	dg.reset(false)
	var c mqCase
	c.Univ = []uint64{1, 2, 3}
	link := uint64(1)
	c.Labels = append(c.Labels, mqLabel{K: "build", R: 1, Blocks: []mqBlock{{L: link, Size: uint64(r.Range(1, 2000)), Has: true}}})
	c.Labels = append(c.Labels, mqLabel{K: "net", OK: true}) // connected: held in SendMsg
	viaDrain := r.P(1, 4)
	if viaDrain {
		// a second message of request 1 ahead of the mixed builder: the drain fails it first
		link++
		c.Labels = append(c.Labels, mqLabel{K: "build", R: 1, Blocks: []mqBlock{{L: link, Size: uint64(r.Range(300000, 400000)), Has: true}}})
		link++
		c.Labels = append(c.Labels, mqLabel{K: "build", R: 1, Blocks: []mqBlock{{L: link, Size: uint64(r.Range(300000, 400000)), Has: true}}})
	} else {
		for i := r.Range(1, 2); i > 0; i-- {
			link++
			c.Labels = append(c.Labels, mqLabel{K: "build", R: 1, Blocks: []mqBlock{{L: link, Size: uint64(r.Range(1, 3000)), Has: true}}})
		}
	}
	// block-less content of other requests into the same builder
	for i := r.Range(1, 2); i > 0; i-- {
		l := mqLabel{K: "build", R: uint64(r.Range(2, 3))}
		switch r.Intn(4) {
		case 0:
			l.Status = "finish"
		case 1:
			l.Status = "pause"
		case 2:
			l.Ext = r.Range(1, 200)
		default:
			link++
			l.Blocks = []mqBlock{{L: link, Size: 100, Has: false}}
		}
		c.Labels = append(c.Labels, l)
	}
	if r.P(1, 3) {
		link++
		c.Labels = append(c.Labels, mqLabel{K: "build", R: 1, Blocks: []mqBlock{{L: link, Size: uint64(r.Range(1, 3000)), Has: true}}})
	}
	switch {
	case viaDrain:
		c.Labels = append(c.Labels, mqLabel{K: "shutdown"}, mqLabel{K: "net", OK: r.P(1, 2)})
	case r.P(1, 2):
		c.Labels = append(c.Labels, mqLabel{K: "net", OK: false}, mqLabel{K: "net", OK: false})
	default:
		for i := 0; i < 3; i++ {
			c.Labels = append(c.Labels, mqLabel{K: "net", OK: false}, mqLabel{K: "net", OK: true})
		}
	}
	for i := 0; i < 6; i++ {
		c.Labels = append(c.Labels, mqLabel{K: "net", OK: true})
	}
	return c
}

// a reservation parked in the allocator behind this peer's own queued data, then every order of: the network
// calls returning, Shutdown(), the answer reaching the parked caller
func genParkSweep(r *rng.R) []mqCase {
	dg.reset(false)
	var base mqCase
	base.Univ = []uint64{1, 2, 3}
	a := uint64(r.Range(400, 900))
	base.Limit = 1000
	link := uint64(1)
	base.Labels = append(base.Labels, mqLabel{K: "build", R: 1, Blocks: []mqBlock{{L: link, Size: a, Has: true}}})
	// parks: does not fit beside the first message; fits once that is released, or (every other sweep) never
	b := uint64(r.Range(int(1000-a)+1, 1000))
	if r.P(1, 3) {
		b = uint64(r.Range(1001, 1500))
	}
	link++
	base.Labels = append(base.Labels, mqLabel{K: "build", R: 2, Blocks: []mqBlock{{L: link, Size: b, Has: true}}})
	if r.P(1, 2) {
		link++
		base.Labels = append(base.Labels, mqLabel{K: "build", R: 3, Blocks: []mqBlock{{L: link, Size: uint64(r.Range(1, 50)), Has: true}}, Status: "finish"})
	}
	firstOK := r.P(1, 2)
	moves := []mqLabel{{K: "net", OK: firstOK}, {K: "net", OK: r.P(1, 2)}, {K: "net", OK: true}, {K: "shutdown"}, {K: "deliver"}, {K: "deliver"}}
	var out []mqCase
	// all interleavings that keep the three network outcomes in their order: choose positions for shutdown and delivers
	for sp := 0; sp <= 3; sp++ {
		for d1 := 0; d1 <= 3; d1++ {
			for d2 := d1; d2 <= 3; d2++ {
				var c mqCase
				c.Univ, c.Limit = base.Univ, base.Limit
				c.Labels = append(c.Labels, base.Labels...)
				for pos := 0; pos <= 3; pos++ {
					if sp == pos {
						c.Labels = append(c.Labels, moves[3])
					}
					if d1 == pos {
						c.Labels = append(c.Labels, moves[4])
					}
					if d2 == pos {
						c.Labels = append(c.Labels, moves[5])
					}
					if pos < 3 {
						c.Labels = append(c.Labels, moves[pos])
					}
				}
				for i := 0; i < 4; i++ {
					c.Labels = append(c.Labels, mqLabel{K: "net", OK: true}, mqLabel{K: "deliver"})
				}
				out = append(out, c)
			}
		}
	}
	return out
}

// a base script without shutdown, and the shutdown placed at every point of it: between any two labels, and
// inside every build callback (before / after the callback's own work)
func genSweep(r *rng.R) []mqCase {
	dg.reset(false)
	nreq := r.Range(2, 3)
	var base mqCase
	for i := 1; i <= nreq; i++ {
		base.Univ = append(base.Univ, uint64(i))
	}
	n := r.Range(3, 7)
	link := uint64(0)
	big := r.P(1, 3)
	if r.P(1, 3) {
		// an empty builder at the head of an idle queue, then a block larger than a whole message behind it
		base.Labels = append(base.Labels, mqLabel{K: "build", R: 1})
		link++
		base.Labels = append(base.Labels, mqLabel{K: "build", R: 2, Blocks: []mqBlock{{L: link, Size: uint64(r.Range(524289, 600000)), Has: true}}})
	}
	for i := 0; i < n; i++ {
		if r.P(3, 5) || i == 0 {
			base.Labels = append(base.Labels, genBuild(r, nreq, &link, big))
		} else {
			base.Labels = append(base.Labels, mqLabel{K: "net", OK: r.P(2, 3)})
		}
	}
	tail := []mqLabel{}
	for i := 0; i < 10; i++ {
		tail = append(tail, mqLabel{K: "net", OK: true})
	}
	var out []mqCase
	for pos := 0; pos <= len(base.Labels); pos++ {
		var c mqCase
		c.Univ = base.Univ
		c.Labels = append(c.Labels, base.Labels[:pos]...)
		c.Labels = append(c.Labels, mqLabel{K: "shutdown"})
		c.Labels = append(c.Labels, base.Labels[pos:]...)
		c.Labels = append(c.Labels, tail...)
		out = append(out, c)
	}
	for pos := 0; pos < len(base.Labels); pos++ {
		if base.Labels[pos].K != "build" {
			continue
		}
		for _, before := range []bool{true, false} {
			var c mqCase
			c.Univ = base.Univ
			for i, l := range base.Labels {
				if i == pos {
					l.K = "buildshut"
					l.Before = before
				}
				c.Labels = append(c.Labels, l)
			}
			c.Labels = append(c.Labels, tail...)
			out = append(out, c)
		}
	}
	return out
}

const mqHeader = `From Coq Require Import List NArith Bool.
From GS Require Import Base MsgQueue MsgQueue16 MsgQueuePark.
Import ListNotations.
Open Scope N_scope.
`

// runLocal runs the cases one after another in this process
func runLocal(mcs []mqCase) []runResult {
	out := make([]runResult, len(mcs))
	for i := range mcs {
		out[i] = runCase(mcs[i])
		if out[i].Hung {
			// the 5s wait for the goroutines to park expired (machine under load): the observations of
			// such a run are not taken at parked states, so run the case again; a second expiry is kept
			// and reported (a queue goroutine that never parks is a real defect)
			time.Sleep(200 * time.Millisecond)
			out[i] = runCase(mcs[i])
			out[i].Rerun = true
		}
	}
	return out
}

// runAll splits the cases over worker processes (this binary with MQ16_WORKER set to a work file)
func runAll(c *drv.Ctx, mcs []mqCase) ([]runResult, error) {
	k := 6
	if c.Thorough() {
		k = 8
	}
	if len(mcs) < 8 {
		return runLocal(mcs), nil
	}
	if err := os.MkdirAll(c.Out, 0o755); err != nil {
		return nil, err
	}
	type job struct {
		idx  []int
		file string
		cmd  *exec.Cmd
	}
	jobs := make([]*job, k)
	for j := range jobs {
		jobs[j] = &job{file: filepath.Join(c.Out, fmt.Sprintf("work_%d.json", j))}
	}
	for i := range mcs {
		jobs[i%k].idx = append(jobs[i%k].idx, i)
	}
	for _, jb := range jobs {
		part := make([]mqCase, len(jb.idx))
		for n, i := range jb.idx {
			part[n] = mcs[i]
		}
		b, _ := json.Marshal(part)
		if err := os.WriteFile(jb.file, b, 0o644); err != nil {
			return nil, err
		}
		jb.cmd = exec.Command(os.Args[0], "mq16", "-out", c.Out)
		jb.cmd.Env = append(os.Environ(), "MQ16_WORKER="+jb.file)
		jb.cmd.Stderr = os.Stderr
		if err := jb.cmd.Start(); err != nil {
			return nil, err
		}
	}
	out := make([]runResult, len(mcs))
	for _, jb := range jobs {
		if err := jb.cmd.Wait(); err != nil {
			return nil, fmt.Errorf("worker %s: %w", jb.file, err)
		}
		var rs []runResult
		if err := drv.ReadJSON(jb.file+".out", &rs); err != nil {
			return nil, err
		}
		if len(rs) != len(jb.idx) {
			return nil, fmt.Errorf("worker %s returned %d results for %d cases", jb.file, len(rs), len(jb.idx))
		}
		for n, i := range jb.idx {
			out[i] = rs[n]
		}
		os.Remove(jb.file)
		os.Remove(jb.file + ".out")
	}
	return out, nil
}

func run(c *drv.Ctx) error {
	if wf := os.Getenv("MQ16_WORKER"); wf != "" {
		var mcs []mqCase
		if err := drv.ReadJSON(wf, &mcs); err != nil {
			return err
		}
		b, _ := json.Marshal(runLocal(mcs))
		return os.WriteFile(wf+".out", b, 0o644)
	}
	w := cw.New(c.Out, mqHeader, "pcase", []cw.Check{
		{Name: "MISMATCH", Fn: "pcase_agrees"},
		{Name: "MON16", Fn: "pcase_mon16"},
		{Name: "MON15P", Fn: "pcase_mon15"},
		{Name: "MON17F", Fn: "pcase_mon17"},
	})
	w.ShardSize = 50
	w.Stats.Rule = "scripts of response-assembler transactions (blocks of 1B-400KiB with distinct links, extension payloads, statuses, also empty transactions) over 1-4 requests " +
		"each with its own recording subscriber, network outcomes (connect / send ok or fail, released one call at a time; a quarter of the scripts fail two calls in three), " +
		"Shutdown() between labels and from inside a build callback (while data is being queued under the builders lock), against the real MessageQueue + Allocator + " +
		"ResponseAssembler with a scripted network; plus sweeps: a base script with the shutdown placed at every position and inside every build; every script ends by " +
		"resolving all in-flight calls; non-trivial = some network call failed or the queue was shut down; distinct = distinct terms"
	type item struct {
		mc  mqCase
		tag string
		res runResult
	}
	var cases []item
	if c.Replay != "" {
		var mc mqCase
		if err := drv.ReplayCase(c.Replay, &mc); err != nil {
			return err
		}
		cases = append(cases, item{mc: mc, tag: "replay"})
	} else {
		for _, f := range c.CorpusFiles("mq16") {
			var mc mqCase
			if err := drv.ReplayCase(f, &mc); err != nil {
				return fmt.Errorf("%s: %w", f, err)
			}
			cases = append(cases, item{mc: mc, tag: "corpus"})
		}
		n := c.Count(280, 3000)
		nsweep := c.Count(7, 70)
		if c.N > 0 {
			nsweep = c.N / 40
		}
		for i := 0; i < nsweep; i++ {
			for _, mc := range genSweep(c.R.Fork()) {
				cases = append(cases, item{mc: mc, tag: "sweep"})
			}
		}
		for i := 0; i < c.Count(40, 400); i++ {
			cases = append(cases, item{mc: genBacklog(c.R.Fork()), tag: "backlog"})
		}
		for i := 0; i < c.Count(25, 250); i++ {
			cases = append(cases, item{mc: genBacklogFail(c.R.Fork()), tag: "backlog-fail"})
		}
		for i := 0; i < c.Count(10, 100); i++ {
			cases = append(cases, item{mc: genClosedMidBacklog(c.R.Fork()), tag: "closed-mid-backlog"})
		}
		for i := 0; i < c.Count(30, 300); i++ {
			cases = append(cases, item{mc: genMixedScrub(c.R.Fork()), tag: "mixed-scrub"})
		}
		for i := 0; i < (nsweep+3)/4; i++ {
			for _, mc := range genParkSweep(c.R.Fork()) {
				cases = append(cases, item{mc: mc, tag: "parksweep"})
			}
		}
		for i := 0; i < n; i++ {
			cases = append(cases, item{mc: genCase(c.R.Fork()), tag: "random"})
		}
	}
	// within one process the cases run one after another (parking is detected from the goroutine stacks of
	// the whole process); the list is split over a few worker processes of this same command
	mcs := make([]mqCase, len(cases))
	for i := range cases {
		mcs[i] = cases[i].mc
	}
	results, err := runAll(c, mcs)
	if err != nil {
		return err
	}
	retried := 0
	for i := range cases {
		cases[i].res = results[i]
		if results[i].Rerun {
			retried++
		}
	}
	if retried > 0 {
		w.Stats.Extra = map[string]interface{}{"cases_rerun_after_wait_expired": retried}
	}
	tot := map[string]int{}
	for _, it := range cases {
		r := it.res
		tags := []string{"kind:" + it.tag}
		if r.SawError {
			tags = append(tags, "has-network-failure")
		}
		if r.Hung {
			tags = append(tags, "harness-wait-expired")
		}
		shut, bshut := false, false
		for _, l := range it.mc.Labels {
			if l.K == "shutdown" {
				shut = true
			}
			if l.K == "buildshut" {
				bshut = true
			}
		}
		if shut {
			tags = append(tags, "has-shutdown")
		}
		if bshut {
			tags = append(tags, "has-shutdown-inside-build")
		}
		switch {
		case r.MaxSubs >= 3:
			tags = append(tags, "message-with-3+-subscribers")
		case r.MaxSubs == 2:
			tags = append(tags, "message-with-2-subscribers")
		}
		if r.Kinds["error"] > 0 {
			tags = append(tags, "some-message-reported-failed")
		}
		if r.Kinds["sent"] > 0 {
			tags = append(tags, "some-message-reported-sent")
		}
		if r.PhaseEnd == 4 {
			tags = append(tags, "ends-exited")
		} else if r.PhaseEnd == 0 {
			tags = append(tags, "ends-idle")
		} else {
			tags = append(tags, "ends-in-network-call")
		}
		for k, v := range r.Kinds {
			tot["events-"+k] += v
		}
		tot["attachments"] += r.NAtt
		lim := it.mc.Limit
		if lim == 0 {
			lim = 1 << 40
		}
		if it.mc.Limit != 0 {
			tags = append(tags, "small-allocator-limit")
		}
		if r.NParked > 0 {
			tags = append(tags, "some-reservation-parked")
		}
		if r.NDeliver > 0 {
			tags = append(tags, "some-parked-answer-delivered")
		}
		if it.mc.Dedup {
			tags = append(tags, "dedup-buckets-common-blocks")
		}
		tot["parked-reservations"] += r.NParked
		tot["delivered-answers"] += r.NDeliver
		term := fmt.Sprintf("Build_pcase %s %d\n    %s\n    %s", cw.NList(it.mc.Univ), lim, cw.List(r.Labels), cw.List(r.Obs))
		it.mc.Tags = tags
		idx := w.Add(term, it.mc, r.SawError || shut || bshut, tags...)
		if r.Hung {
			w.Violation(idx, "queue goroutine did not park within 5s (twice)", "mq16-hang")
		}
	}
	for k, v := range tot {
		w.Stats.Distribution["total:"+k] = v
	}
	return w.Flush()
}

type gState struct {
	state string // e.g. "select", "chan receive", "runnable"
	first string // first frame's function line
	body  string
}

func goroutineStates() []gState {
	buf := make([]byte, 1<<20)
	n := runtime.Stack(buf, true)
	var out []gState
	for _, blk := range strings.Split(string(buf[:n]), "\n\n") {
		lines := strings.Split(blk, "\n")
		if len(lines) < 2 || !strings.HasPrefix(lines[0], "goroutine ") {
			continue
		}
		st := ""
		if i := strings.Index(lines[0], "["); i >= 0 {
			st = strings.TrimSuffix(strings.TrimSpace(lines[0][i+1:]), "]:")
			if j := strings.Index(st, ","); j >= 0 {
				st = st[:j] // strip ", N minutes"
			}
		}
		out = append(out, gState{state: st, first: lines[1], body: blk})
	}
	return out
}
