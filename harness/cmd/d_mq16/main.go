// Command d_mq16 is the driver of C16 (every queued message is reported sent or failed exactly once).
//
// It runs the real messagequeue.MessageQueue + real allocator.Allocator + real
// responseassembler transactions (one recording subscriber object per request stream, so a message
// carrying several requests has several subscribers) against a scripted network: every ConnectTo /
// SendMsg blocks until the script releases it with an outcome.  Labels are applied while the queue
// goroutine is parked (idle at its select, inside one network call, exited); parking is detected by
// inspecting goroutine stacks, never by timing.  Besides the labels of the C15 driver there is
// "buildshut": Shutdown() is called from inside the build callback, i.e. while data is being queued
// under buildersLk, and the callback only returns once the queue goroutine has reacted (blocked on the
// builders lock in its drain, or still inside its network call).
//
// Observed and compared with the model (coq/theories/MsgQueue16.v): after every label the accounted
// memory, every queued builder's size, the phase, the messages on the wire, which attachment
// (request, message) the build made — read back from Builder.Subscribers() and the identity of the
// builder handed to the callback —, and every subscriber's event list (Queued/Sent/Error per topic,
// OnClose).  The C16 monitor is evaluated on these observations of the implementation.
package main

import (
	"context"
	"crypto/sha256"
	"encoding/json"
	"errors"
	"fmt"
	"os"
	"os/exec"
	"path/filepath"
	"runtime"
	"sort"
	"strings"
	"sync"
	"time"

	"github.com/ipfs/go-cid"
	"github.com/ipld/go-ipld-prime"
	"github.com/ipld/go-ipld-prime/codec/dagcbor"
	cidlink "github.com/ipld/go-ipld-prime/linking/cid"
	"github.com/ipld/go-ipld-prime/node/basicnode"
	"github.com/libp2p/go-libp2p/core/peer"
	mh "github.com/multiformats/go-multihash"

	"github.com/ipfs/go-graphsync"
	"github.com/ipfs/go-graphsync/allocator"
	gsmsg "github.com/ipfs/go-graphsync/message"
	"github.com/ipfs/go-graphsync/messagequeue"
	gsnet "github.com/ipfs/go-graphsync/network"
	"github.com/ipfs/go-graphsync/notifications"
	"github.com/ipfs/go-graphsync/responsemanager/responseassembler"

	"verif/harness/internal/cw"
	"verif/harness/internal/drv"
	"verif/harness/internal/rng"
)

func main() { drv.Main("mq16", run) }

type mqBlock struct {
	L    uint64 `json:"l"`
	Size uint64 `json:"size"`
	Has  bool   `json:"has"`
}

type mqLabel struct {
	K      string    `json:"k"` // build | buildshut | net | shutdown
	R      uint64    `json:"r,omitempty"`
	Blocks []mqBlock `json:"blocks,omitempty"`
	Ext    int       `json:"ext,omitempty"`    // payload bytes of an extension item (0 = none, -1 = extension with nil data)
	Status string    `json:"status,omitempty"` // "" | finish | error | pause
	OK     bool      `json:"ok,omitempty"`
	Before bool      `json:"before,omitempty"` // buildshut: Shutdown() before (true) or after the callback's own work
}

type mqCase struct {
	Univ   []uint64  `json:"univ"`
	Labels []mqLabel `json:"labels"`
	Tags   []string  `json:"tags,omitempty"`
}

func mkLink(n uint64) ipld.Link {
	h := sha256.Sum256([]byte(fmt.Sprintf("link-%d", n)))
	m, _ := mh.Encode(h[:], mh.SHA2_256)
	return cidlink.Link{Cid: cid.NewCidV1(cid.Raw, m)}
}

var (
	reqMu       sync.Mutex
	fixedReqIDs = map[uint64]graphsync.RequestID{}
)

func reqID(n uint64) graphsync.RequestID {
	reqMu.Lock()
	defer reqMu.Unlock()
	if id, ok := fixedReqIDs[n]; ok {
		return id
	}
	b := make([]byte, 16)
	b[0] = 0xAB
	for i := 0; i < 8; i++ {
		b[15-i] = byte(n >> (8 * i))
	}
	id, err := graphsync.ParseRequestID(b)
	if err != nil {
		panic(err)
	}
	fixedReqIDs[n] = id
	return id
}

func reqNum(id graphsync.RequestID) uint64 {
	reqMu.Lock()
	defer reqMu.Unlock()
	for k, v := range fixedReqIDs {
		if v == id {
			return k
		}
	}
	return 0
}

type mqWorld struct {
	mu      sync.Mutex
	arrive  chan string // "connect" | "send"
	release chan bool   // outcome for the blocked call
	inCall  string      // which call the goroutine is blocked in ("" = none)
	pendMsg gsmsg.GraphSyncMessage
	wire    []string // messages whose SendMsg returned ok, since last observation
	events  map[uint64][]string
	nEvents int
	exited  bool
	linkIdx map[string]uint64

	// build in progress (set by the label loop, read by the handler inside the callback)
	q          *messagequeue.MessageQueue
	curReq     uint64
	shutMode   int // 0 none, 1 Shutdown() before the callback's work, 2 after
	builderIdx map[*messagequeue.Builder]uint64
	lastAtt    *uint64 // index of the builder the request's subscriber was found on after the callback
	shutDone   bool    // the callback ran and called Shutdown()
	hung       bool

	// statistics over the whole run
	subsPerTopic map[uint64]map[uint64]bool
	kinds        map[string]int
}

type mqNet struct{ w *mqWorld }
type mqSender struct{ w *mqWorld }

func (n mqNet) ConnectTo(ctx context.Context, p peer.ID) error {
	n.w.arrive <- "connect"
	if ok := <-n.w.release; !ok {
		return errors.New("cannot connect")
	}
	return nil
}
func (n mqNet) NewMessageSender(ctx context.Context, p peer.ID, o gsnet.MessageSenderOpts) (gsnet.MessageSender, error) {
	return mqSender{n.w}, nil
}
func (s mqSender) SendMsg(ctx context.Context, m gsmsg.GraphSyncMessage) error {
	s.w.mu.Lock()
	s.w.pendMsg = m
	s.w.mu.Unlock()
	s.w.arrive <- "send"
	if ok := <-s.w.release; !ok {
		return errors.New("send failed")
	}
	return nil
}
func (s mqSender) Close() error { return nil }
func (s mqSender) Reset() error { return nil }

// one subscriber object per request stream
type mqSub struct {
	w *mqWorld
	r uint64
}

func (s *mqSub) OnNext(t notifications.Topic, e notifications.Event) {
	ev := e.(messagequeue.Event)
	tp := uint64(t.(messagequeue.Topic))
	s.w.mu.Lock()
	s.w.events[s.r] = append(s.w.events[s.r], fmt.Sprintf("ev_ %d %d", uint64(ev.Name), tp))
	s.w.nEvents++
	if s.w.subsPerTopic[tp] == nil {
		s.w.subsPerTopic[tp] = map[uint64]bool{}
	}
	s.w.subsPerTopic[tp][s.r] = true
	s.w.kinds[[]string{"queued", "sent", "error"}[ev.Name%3]]++
	s.w.mu.Unlock()
}
func (s *mqSub) OnClose(t notifications.Topic) {
	s.w.mu.Lock()
	s.w.events[s.r] = append(s.w.events[s.r], fmt.Sprintf("ev_ 3 %d", uint64(t.(messagequeue.Topic))))
	s.w.nEvents++
	s.w.kinds["closed"]++
	s.w.mu.Unlock()
}

// queueState classifies the queue goroutine from the goroutine dump
func queueState(st []gState) (qstate string, pubBusy bool) {
	qstate = "gone"
	for _, g := range st {
		if strings.Contains(g.body, "notifications.(*publisher).start") && g.state != "sync.Cond.Wait" {
			pubBusy = true
		}
		if !strings.Contains(g.body, "messagequeue.(*MessageQueue).runQueue") {
			continue
		}
		switch {
		case strings.HasPrefix(g.first, "github.com/ipfs/go-graphsync/messagequeue.(*MessageQueue).runQueue") && g.state == "select":
			qstate = "idle"
		case strings.Contains(g.body, "main.mqNet.ConnectTo") && g.state == "chan receive":
			qstate = "connect"
		case strings.Contains(g.body, "main.mqSender.SendMsg") && g.state == "chan receive":
			qstate = "send"
		case strings.Contains(g.body, "extractOutgoingMessage") &&
			(strings.HasPrefix(g.state, "sync.Mutex.Lock") || strings.HasPrefix(g.state, "sync.RWMutex.Lock") || g.state == "semacquire"):
			qstate = "lock"
		default:
			qstate = "busy"
		}
	}
	return
}

// the PeerMessageHandler the response assembler talks to: the real queue, with the callback wrapped so
// that the builder handed to it is identified, the attachment is read back, and Shutdown() can land
// while the callback runs
type mqHandler struct{ w *mqWorld }

func (h mqHandler) AllocateAndBuildMessage(p peer.ID, size uint64, fn func(*messagequeue.Builder)) {
	w := h.w
	w.q.AllocateAndBuildMessage(size, func(b *messagequeue.Builder) {
		idx, ok := w.builderIdx[b]
		if !ok {
			idx = uint64(len(w.builderIdx))
			w.builderIdx[b] = idx
		}
		if w.shutMode == 1 {
			w.shutdownInCallback()
		}
		fn(b)
		if _, has := b.Subscribers()[reqID(w.curReq)]; has {
			w.lastAtt = &idx
		}
		if w.shutMode == 2 {
			w.shutdownInCallback()
		}
	})
}

// Shutdown() while the build callback holds buildersLk; returns when the queue goroutine has reacted as far
// as it can: blocked on the lock inside extractOutgoingMessage (it was idle), still inside its network call,
// or gone
func (w *mqWorld) shutdownInCallback() {
	w.q.Shutdown()
	w.shutDone = true
	deadline := time.Now().Add(5 * time.Second)
	for time.Now().Before(deadline) {
		qs, _ := queueState(goroutineStates())
		if qs == "lock" || qs == "connect" || qs == "send" || qs == "gone" {
			return
		}
		time.Sleep(100 * time.Microsecond)
	}
	w.hung = true
}

func (w *mqWorld) wireTerm(m gsmsg.GraphSyncMessage) string {
	type rr struct {
		id   uint64
		term string
	}
	var rs []rr
	for _, resp := range m.Responses() {
		rid := reqNum(resp.RequestID())
		var md []string
		resp.Metadata().Iterate(func(c cid.Cid, a graphsync.LinkAction) {
			md = append(md, fmt.Sprintf("(%d, %s)", w.linkIdx[cidlink.Link{Cid: c}.String()], cw.Bool(a == graphsync.LinkActionPresent)))
		})
		rs = append(rs, rr{rid, fmt.Sprintf("(%d, (%d, %s))", rid, resp.Status(), cw.List(md))})
	}
	sort.Slice(rs, func(i, j int) bool { return rs[i].id < rs[j].id })
	var rts []string
	for _, r := range rs {
		rts = append(rts, r.term)
	}
	var bl []uint64
	for _, b := range m.Blocks() {
		bl = append(bl, w.linkIdx[cidlink.Link{Cid: b.Cid()}.String()])
	}
	sort.Slice(bl, func(i, j int) bool { return bl[i] < bl[j] })
	return fmt.Sprintf("(%s, %s)", cw.List(rts), cw.NList(bl))
}

type runResult struct {
	Labels   []string       `json:"labels"`
	Obs      []string       `json:"obs"`
	Atts     []string       `json:"atts"`
	SawError bool           `json:"saw_error"`
	Hung     bool           `json:"hung"`
	MaxSubs  int            `json:"max_subs"`
	Kinds    map[string]int `json:"kinds"`
	NAtt     int            `json:"n_att"`
	PhaseEnd int            `json:"phase_end"`
	Rerun    bool           `json:"rerun"`
}

// runCase executes the labels; returns the Coq terms of labels (with hints), observations and attachments
func runCase(c mqCase) (res runResult) {
	ctx, cancel := context.WithCancel(context.Background())
	defer cancel()
	w := &mqWorld{arrive: make(chan string, 4), release: make(chan bool), events: map[uint64][]string{}, linkIdx: map[string]uint64{},
		builderIdx: map[*messagequeue.Builder]uint64{}, subsPerTopic: map[uint64]map[uint64]bool{}, kinds: map[string]int{}}
	p := peer.ID("peer-1")
	alloc := allocator.NewAllocator(1<<40, 1<<40)
	q := messagequeue.New(ctx, p, mqNet{w}, alloc, 3, 10*time.Second, func(peer.ID) {
		w.mu.Lock()
		w.exited = true
		w.mu.Unlock()
	})
	w.q = q
	q.Startup()
	ra := responseassembler.New(ctx, mqHandler{w})
	streams := map[uint64]responseassembler.ResponseStream{}
	stream := func(r uint64) responseassembler.ResponseStream {
		s, ok := streams[r]
		if !ok {
			s = ra.NewStream(ctx, p, reqID(r), &mqSub{w, r})
			streams[r] = s
		}
		return s
	}
	// wait until the queue goroutine is parked (idle at its select, blocked in a scripted network call, or
	// gone) and every event publisher goroutine is idle, by inspecting goroutine stacks: no timing guesses
	settle := func() {
		deadline := time.Now().Add(5 * time.Second)
		for time.Now().Before(deadline) {
			qstate, pubBusy := queueState(goroutineStates())
			if qstate != "busy" && qstate != "lock" && !pubBusy {
				for {
					select {
					case <-w.arrive:
						continue
					default:
					}
					break
				}
				switch qstate {
				case "connect", "send":
					w.inCall = qstate
				default:
					w.inCall = ""
				}
				w.mu.Lock()
				w.exited = w.exited || qstate == "gone"
				w.mu.Unlock()
				return
			}
			time.Sleep(100 * time.Microsecond)
		}
		res.Hung = true
	}
	// wait for the queue goroutine to come up and park at its select
	for i := 0; i < 50000; i++ {
		if qs, _ := queueState(goroutineStates()); qs == "idle" {
			break
		}
		time.Sleep(50 * time.Microsecond)
	}
	lastObs := ""
	for _, l := range c.Labels {
		term := ""
		att := "no_at"
		switch l.K {
		case "build", "buildshut":
			var ops []string
			s := stream(l.R)
			w.curReq = l.R
			w.lastAtt = nil
			w.shutMode = 0
			w.shutDone = false
			if l.K == "buildshut" {
				w.shutMode = 2
				if l.Before {
					w.shutMode = 1
				}
			}
			_ = s.Transaction(func(rb responseassembler.ResponseBuilder) error {
				for _, b := range l.Blocks {
					lk := mkLink(b.L)
					w.mu.Lock()
					w.linkIdx[lk.String()] = b.L
					w.mu.Unlock()
					var data []byte
					if b.Has {
						data = make([]byte, b.Size)
					}
					rb.SendResponse(lk, data)
					ops = append(ops, fmt.Sprintf("TBlock %d %d %s", b.L, b.Size, cw.Bool(b.Has)))
				}
				if l.Ext != 0 {
					ed := graphsync.ExtensionData{Name: "verif/ext"}
					size := int64(0)
					if l.Ext > 0 {
						ed.Data = basicnode.NewBytes(make([]byte, l.Ext))
						size, _ = dagcbor.EncodedLength(ed.Data)
					}
					rb.SendExtensionData(ed)
					ops = append(ops, fmt.Sprintf("TExt %d", size))
				}
				switch l.Status {
				case "finish":
					st := rb.FinishRequest()
					ops = append(ops, fmt.Sprintf("TStatus %d", st))
				case "error":
					rb.FinishWithError(graphsync.RequestFailedUnknown)
					ops = append(ops, fmt.Sprintf("TStatus %d", graphsync.RequestFailedUnknown))
				case "pause":
					rb.PauseRequest()
					ops = append(ops, fmt.Sprintf("TStatus %d", graphsync.RequestPaused))
				}
				return nil
			})
			if l.K == "buildshut" && !w.shutDone {
				// the stream was closed (or the queue already shut down): the callback never ran; the
				// shutdown still happens, with nothing being built
				q.Shutdown()
			}
			w.shutMode = 0
			if w.hung {
				res.Hung = true
			}
			if w.lastAtt != nil {
				att = fmt.Sprintf("at_ %d %d %s", l.R, *w.lastAtt, cw.Bool(len(ops) > 0))
				res.NAtt++
			}
			if l.K == "build" {
				term = fmt.Sprintf("L16 (LBuild %d %s)", l.R, cw.List(ops))
			} else {
				term = fmt.Sprintf("LBuildShut %d %s", l.R, cw.List(ops))
			}
		case "net":
			if w.inCall == "" {
				continue // nothing to release: skip the label entirely
			}
			kind := w.inCall
			if kind == "send" && l.OK {
				w.mu.Lock()
				w.wire = append(w.wire, w.wireTerm(w.pendMsg))
				w.mu.Unlock()
			}
			w.inCall = ""
			w.release <- l.OK
			if !l.OK {
				res.SawError = true
			}
			term = fmt.Sprintf("L16 (LNet %s)", cw.Bool(l.OK))
		case "shutdown":
			q.Shutdown()
			term = "L16 LShutdown"
		default:
			continue
		}
		settle()
		w.mu.Lock()
		phase := 0
		switch {
		case w.inCall == "connect":
			phase = 1
		case w.inCall == "send":
			phase = 2
		case w.exited:
			phase = 4
		}
		evs := make([]string, len(c.Univ))
		for i, r := range c.Univ {
			evs[i] = cw.List(w.events[r])
			w.events[r] = nil
		}
		wire := w.wire
		w.wire = nil
		w.mu.Unlock()
		res.PhaseEnd = phase
		hint := phase != 4
		res.Labels = append(res.Labels, fmt.Sprintf("lh_ (%s) %s", term, cw.Bool(hint)))
		res.Atts = append(res.Atts, att)
		res.Obs = append(res.Obs, fmt.Sprintf("Build_qobs %d %s %d %d %s %s", alloc.AllocatedForPeer(p),
			cw.NList(q.VerifQueuedBlockSizes()), q.VerifQueuedNonEmpty(), phase, cw.List(evs), cw.List(wire)))
		lastObs = fmt.Sprintf("Build_qobs %d %s %d %d @EVENTS@ []", alloc.AllocatedForPeer(p),
			cw.NList(q.VerifQueuedBlockSizes()), q.VerifQueuedNonEmpty(), phase)
	}
	// late subscriber events: wait until the event count has been stable for 10ms, then attribute them to a
	// final no-op label (an LNet with nothing blocked)
	{
		last, stable := -1, 0
		for i := 0; i < 2000 && stable < 10; i++ {
			w.mu.Lock()
			n := w.nEvents
			w.mu.Unlock()
			if n == last {
				stable++
			} else {
				stable = 0
				last = n
			}
			time.Sleep(time.Millisecond)
		}
		w.mu.Lock()
		if len(res.Obs) > 0 && w.inCall == "" {
			extra := make([]string, len(c.Univ))
			any := false
			for i, r := range c.Univ {
				extra[i] = cw.List(w.events[r])
				if len(w.events[r]) > 0 {
					any = true
				}
			}
			if any {
				res.Labels = append(res.Labels, "lh_ (L16 (LNet true)) true") // a no-op label when nothing is blocked
				res.Atts = append(res.Atts, "no_at")
				res.Obs = append(res.Obs, strings.Replace(lastObs, "@EVENTS@", cw.List(extra), 1))
			}
		}
		for _, m := range w.subsPerTopic {
			if len(m) > res.MaxSubs {
				res.MaxSubs = len(m)
			}
		}
		res.Kinds = w.kinds
		w.mu.Unlock()
	}
	// unblock the goroutine so that it can exit, and wait until it and its publisher are gone
	cancel()
	if w.inCall != "" {
		select {
		case w.release <- false:
		case <-time.After(100 * time.Millisecond):
		}
	}
	for i := 0; i < 20000; i++ {
		alive := false
		for _, g := range goroutineStates() {
			if strings.Contains(g.body, "messagequeue.(*MessageQueue).runQueue") || strings.Contains(g.body, "notifications.(*publisher).start") {
				alive = true
			}
		}
		if !alive {
			break
		}
		time.Sleep(100 * time.Microsecond)
	}
	return
}

func genBuild(r *rng.R, nreq int, link *uint64, big bool) mqLabel {
	l := mqLabel{K: "build", R: uint64(r.Range(1, nreq))}
	if r.P(1, 12) {
		return l // a transaction without operations: attaches its subscriber, queues nothing
	}
	nb := r.Range(0, 3)
	for j := 0; j < nb; j++ {
		*link++
		size := uint64(r.Range(1, 2000))
		if big && r.P(1, 2) {
			size = uint64(r.Range(150000, 400000))
			if r.P(1, 4) {
				size = uint64(r.Range(524289, 600000)) // larger than a whole message: always starts a new builder
			}
		}
		l.Blocks = append(l.Blocks, mqBlock{L: *link, Size: size, Has: r.P(5, 6)})
	}
	if r.P(1, 4) {
		l.Ext = r.Range(1, 300)
	} else if r.P(1, 20) {
		l.Ext = -1
	}
	switch r.Intn(8) {
	case 0:
		l.Status = "finish"
	case 1:
		l.Status = "error"
	case 2:
		l.Status = "pause"
	}
	return l
}

// random scripts: builds over 1-4 requests (several requests per message while a network call is
// blocked), network outcomes, Shutdown() between labels and inside a build callback
func genCase(r *rng.R) mqCase {
	nreq := r.Range(1, 4)
	var c mqCase
	for i := 1; i <= nreq; i++ {
		c.Univ = append(c.Univ, uint64(i))
	}
	n := r.Range(2, 14)
	link := uint64(0)
	big := r.P(1, 4)
	failHeavy := r.P(1, 4) // more failing network calls: reconnect failures, initial connect failures
	alternate := !failHeavy && r.P(1, 5) // sends fail and reconnects succeed: retries run out
	sendTurn := false
	for i := 0; i < n; i++ {
		x := r.Intn(100)
		switch {
		case x < 48:
			c.Labels = append(c.Labels, genBuild(r, nreq, &link, big))
		case x < 88:
			ok := r.P(3, 4)
			if failHeavy {
				ok = r.P(1, 3)
			}
			if alternate {
				// connect ok, then send fail / reconnect ok / send fail ... (a build in between keeps the
				// alternation: it releases nothing)
				ok = !sendTurn || r.P(1, 8)
				sendTurn = !sendTurn
			}
			c.Labels = append(c.Labels, mqLabel{K: "net", OK: ok})
		case x < 94:
			c.Labels = append(c.Labels, mqLabel{K: "shutdown"})
		default:
			l := genBuild(r, nreq, &link, big)
			l.K = "buildshut"
			l.Before = r.Bool()
			c.Labels = append(c.Labels, l)
		}
	}
	// resolve whatever is still in flight so that the history ends parked idle or exited
	for i := 0; i < 8; i++ {
		ok := !failHeavy || r.P(2, 3)
		if alternate {
			ok = !sendTurn
			sendTurn = !sendTurn
		}
		c.Labels = append(c.Labels, mqLabel{K: "net", OK: ok})
	}
	for i := 0; i < 8; i++ {
		c.Labels = append(c.Labels, mqLabel{K: "net", OK: true})
	}
	return c
}

// a base script without shutdown, and the shutdown placed at every point of it: between any two labels, and
// inside every build callback (before / after the callback's own work)
func genSweep(r *rng.R) []mqCase {
	nreq := r.Range(2, 3)
	var base mqCase
	for i := 1; i <= nreq; i++ {
		base.Univ = append(base.Univ, uint64(i))
	}
	n := r.Range(3, 7)
	link := uint64(0)
	big := r.P(1, 3)
	if r.P(1, 3) {
		// an empty builder at the head of an idle queue, then a block larger than a whole message behind it
		base.Labels = append(base.Labels, mqLabel{K: "build", R: 1})
		link++
		base.Labels = append(base.Labels, mqLabel{K: "build", R: 2, Blocks: []mqBlock{{L: link, Size: uint64(r.Range(524289, 600000)), Has: true}}})
	}
	for i := 0; i < n; i++ {
		if r.P(3, 5) || i == 0 {
			base.Labels = append(base.Labels, genBuild(r, nreq, &link, big))
		} else {
			base.Labels = append(base.Labels, mqLabel{K: "net", OK: r.P(2, 3)})
		}
	}
	tail := []mqLabel{}
	for i := 0; i < 10; i++ {
		tail = append(tail, mqLabel{K: "net", OK: true})
	}
	var out []mqCase
	for pos := 0; pos <= len(base.Labels); pos++ {
		var c mqCase
		c.Univ = base.Univ
		c.Labels = append(c.Labels, base.Labels[:pos]...)
		c.Labels = append(c.Labels, mqLabel{K: "shutdown"})
		c.Labels = append(c.Labels, base.Labels[pos:]...)
		c.Labels = append(c.Labels, tail...)
		out = append(out, c)
	}
	for pos := 0; pos < len(base.Labels); pos++ {
		if base.Labels[pos].K != "build" {
			continue
		}
		for _, before := range []bool{true, false} {
			var c mqCase
			c.Univ = base.Univ
			for i, l := range base.Labels {
				if i == pos {
					l.K = "buildshut"
					l.Before = before
				}
				c.Labels = append(c.Labels, l)
			}
			c.Labels = append(c.Labels, tail...)
			out = append(out, c)
		}
	}
	return out
}

const mqHeader = `From Coq Require Import List NArith Bool.
From GS Require Import Base MsgQueue MsgQueue16.
Import ListNotations.
Open Scope N_scope.
`

// runLocal runs the cases one after another in this process
func runLocal(mcs []mqCase) []runResult {
	out := make([]runResult, len(mcs))
	for i := range mcs {
		out[i] = runCase(mcs[i])
		if out[i].Hung {
			// the 5s wait for the goroutines to park expired (machine under load): the observations of
			// such a run are not taken at parked states, so run the case again; a second expiry is kept
			// and reported (a queue goroutine that never parks is a real defect)
			time.Sleep(200 * time.Millisecond)
			out[i] = runCase(mcs[i])
			out[i].Rerun = true
		}
	}
	return out
}

// runAll splits the cases over worker processes (this binary with MQ16_WORKER set to a work file)
func runAll(c *drv.Ctx, mcs []mqCase) ([]runResult, error) {
	k := 6
	if c.Thorough() {
		k = 8
	}
	if len(mcs) < 8 {
		return runLocal(mcs), nil
	}
	if err := os.MkdirAll(c.Out, 0o755); err != nil {
		return nil, err
	}
	type job struct {
		idx  []int
		file string
		cmd  *exec.Cmd
	}
	jobs := make([]*job, k)
	for j := range jobs {
		jobs[j] = &job{file: filepath.Join(c.Out, fmt.Sprintf("work_%d.json", j))}
	}
	for i := range mcs {
		jobs[i%k].idx = append(jobs[i%k].idx, i)
	}
	for _, jb := range jobs {
		part := make([]mqCase, len(jb.idx))
		for n, i := range jb.idx {
			part[n] = mcs[i]
		}
		b, _ := json.Marshal(part)
		if err := os.WriteFile(jb.file, b, 0o644); err != nil {
			return nil, err
		}
		jb.cmd = exec.Command(os.Args[0], "mq16", "-out", c.Out)
		jb.cmd.Env = append(os.Environ(), "MQ16_WORKER="+jb.file)
		jb.cmd.Stderr = os.Stderr
		if err := jb.cmd.Start(); err != nil {
			return nil, err
		}
	}
	out := make([]runResult, len(mcs))
	for _, jb := range jobs {
		if err := jb.cmd.Wait(); err != nil {
			return nil, fmt.Errorf("worker %s: %w", jb.file, err)
		}
		var rs []runResult
		if err := drv.ReadJSON(jb.file+".out", &rs); err != nil {
			return nil, err
		}
		if len(rs) != len(jb.idx) {
			return nil, fmt.Errorf("worker %s returned %d results for %d cases", jb.file, len(rs), len(jb.idx))
		}
		for n, i := range jb.idx {
			out[i] = rs[n]
		}
		os.Remove(jb.file)
		os.Remove(jb.file + ".out")
	}
	return out, nil
}

func run(c *drv.Ctx) error {
	if wf := os.Getenv("MQ16_WORKER"); wf != "" {
		var mcs []mqCase
		if err := drv.ReadJSON(wf, &mcs); err != nil {
			return err
		}
		b, _ := json.Marshal(runLocal(mcs))
		return os.WriteFile(wf+".out", b, 0o644)
	}
	w := cw.New(c.Out, mqHeader, "qcase16", []cw.Check{
		{Name: "MISMATCH", Fn: "qcase16_agrees"},
		{Name: "MON16", Fn: "qcase16_mon"},
	})
	w.ShardSize = 50
	w.Stats.Rule = "scripts of response-assembler transactions (blocks of 1B-400KiB with distinct links, extension payloads, statuses, also empty transactions) over 1-4 requests " +
		"each with its own recording subscriber, network outcomes (connect / send ok or fail, released one call at a time; a quarter of the scripts fail two calls in three), " +
		"Shutdown() between labels and from inside a build callback (while data is being queued under the builders lock), against the real MessageQueue + Allocator + " +
		"ResponseAssembler with a scripted network; plus sweeps: a base script with the shutdown placed at every position and inside every build; every script ends by " +
		"resolving all in-flight calls; non-trivial = some network call failed or the queue was shut down; distinct = distinct terms"
	type item struct {
		mc  mqCase
		tag string
		res runResult
	}
	var cases []item
	if c.Replay != "" {
		var mc mqCase
		if err := drv.ReplayCase(c.Replay, &mc); err != nil {
			return err
		}
		cases = append(cases, item{mc: mc, tag: "replay"})
	} else {
		for _, f := range c.CorpusFiles("mq16") {
			var mc mqCase
			if err := drv.ReplayCase(f, &mc); err != nil {
				return fmt.Errorf("%s: %w", f, err)
			}
			cases = append(cases, item{mc: mc, tag: "corpus"})
		}
		n := c.Count(280, 3000)
		nsweep := c.Count(7, 70)
		if c.N > 0 {
			nsweep = c.N / 40
		}
		for i := 0; i < nsweep; i++ {
			for _, mc := range genSweep(c.R.Fork()) {
				cases = append(cases, item{mc: mc, tag: "sweep"})
			}
		}
		for i := 0; i < n; i++ {
			cases = append(cases, item{mc: genCase(c.R.Fork()), tag: "random"})
		}
	}
	// within one process the cases run one after another (parking is detected from the goroutine stacks of
	// the whole process); the list is split over a few worker processes of this same command
	mcs := make([]mqCase, len(cases))
	for i := range cases {
		mcs[i] = cases[i].mc
	}
	results, err := runAll(c, mcs)
	if err != nil {
		return err
	}
	retried := 0
	for i := range cases {
		cases[i].res = results[i]
		if results[i].Rerun {
			retried++
		}
	}
	if retried > 0 {
		w.Stats.Extra = map[string]interface{}{"cases_rerun_after_wait_expired": retried}
	}
	tot := map[string]int{}
	for _, it := range cases {
		r := it.res
		tags := []string{"kind:" + it.tag}
		if r.SawError {
			tags = append(tags, "has-network-failure")
		}
		if r.Hung {
			tags = append(tags, "harness-wait-expired")
		}
		shut, bshut := false, false
		for _, l := range it.mc.Labels {
			if l.K == "shutdown" {
				shut = true
			}
			if l.K == "buildshut" {
				bshut = true
			}
		}
		if shut {
			tags = append(tags, "has-shutdown")
		}
		if bshut {
			tags = append(tags, "has-shutdown-inside-build")
		}
		switch {
		case r.MaxSubs >= 3:
			tags = append(tags, "message-with-3+-subscribers")
		case r.MaxSubs == 2:
			tags = append(tags, "message-with-2-subscribers")
		}
		if r.Kinds["error"] > 0 {
			tags = append(tags, "some-message-reported-failed")
		}
		if r.Kinds["sent"] > 0 {
			tags = append(tags, "some-message-reported-sent")
		}
		if r.PhaseEnd == 4 {
			tags = append(tags, "ends-exited")
		} else if r.PhaseEnd == 0 {
			tags = append(tags, "ends-idle")
		} else {
			tags = append(tags, "ends-in-network-call")
		}
		for k, v := range r.Kinds {
			tot["events-"+k] += v
		}
		tot["attachments"] += r.NAtt
		term := fmt.Sprintf("Build_qcase16 %s\n    %s\n    %s\n    %s", cw.NList(it.mc.Univ), cw.List(r.Labels), cw.List(r.Obs), cw.List(r.Atts))
		it.mc.Tags = tags
		idx := w.Add(term, it.mc, r.SawError || shut || bshut, tags...)
		if r.Hung {
			w.Violation(idx, "queue goroutine did not park within 5s (twice)", "mq16-hang")
		}
	}
	for k, v := range tot {
		w.Stats.Distribution["total:"+k] = v
	}
	return w.Flush()
}

type gState struct {
	state string // e.g. "select", "chan receive", "runnable"
	first string // first frame's function line
	body  string
}

func goroutineStates() []gState {
	buf := make([]byte, 1<<20)
	n := runtime.Stack(buf, true)
	var out []gState
	for _, blk := range strings.Split(string(buf[:n]), "\n\n") {
		lines := strings.Split(blk, "\n")
		if len(lines) < 2 || !strings.HasPrefix(lines[0], "goroutine ") {
			continue
		}
		st := ""
		if i := strings.Index(lines[0], "["); i >= 0 {
			st = strings.TrimSuffix(strings.TrimSpace(lines[0][i+1:]), "]:")
			if j := strings.Index(st, ","); j >= 0 {
				st = st[:j] // strip ", N minutes"
			}
		}
		out = append(out, gState{state: st, first: lines[1], body: blk})
	}
	return out
}
