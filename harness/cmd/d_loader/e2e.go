package main

// C02, whole stack: two real GraphSync instances over the libp2p mocknet (real ResponseManager,
// QueryExecutor, ResponseAssembler, MessageQueue on one side; real RequestManager, executor,
// ReconciledLoader, Traverser on the other); generated DAG, selector and split of the blocks.

import (
	"context"
	"fmt"
	"os"
	"sort"
	"strings"
	"time"

	"github.com/ipld/go-ipld-prime/datamodel"
	cidlink "github.com/ipld/go-ipld-prime/linking/cid"

	"github.com/libp2p/go-libp2p/core/peer"

	"github.com/ipfs/go-graphsync"

	"verif/harness/internal/cw"
	"verif/harness/internal/dag"
	"verif/harness/internal/e2e"
	"verif/harness/internal/rng"
)

type e2eCase struct {
	Kind  string   `json:"kind"` // "e2e"
	Seed  uint64   `json:"seed"`
	Shape string   `json:"shape,omitempty"` // "" random | "witness" (path tracker) | "skipcount"
	L     []int    `json:"l,omitempty"`     // explicit stores (corpus); nil = drawn from the seed
	R     []int    `json:"r,omitempty"`
	Desc  string   `json:"desc,omitempty"`
	Tags  []string `json:"tags,omitempty"`
}

type observed struct {
	visits   []uint64
	missing  []string // Coq terms (path, cid)
	other    int
	otherTxt []string
	store    []uint64
	complete bool
	hang     bool
}

func dagLink(b dag.Block) cidlink.Link { return cidlink.Link{Cid: b.Cid} }

func classifyErr(d *dag.DAG, tb *tables, e error) (kind int, term string) {
	switch v := e.(type) {
	case graphsync.RemoteMissingBlockErr:
		px, _ := tb.path(v.Path)
		return 0, fmt.Sprintf("(%s, %d)", cw.NList(px), d.Index(v.Link.(cidlink.Link).Cid))
	case *graphsync.RemoteMissingBlockErr:
		px, _ := tb.path(v.Path)
		return 0, fmt.Sprintf("(%s, %d)", cw.NList(px), d.Index(v.Link.(cidlink.Link).Cid))
	case graphsync.RemoteIncorrectResponseError:
		return 1, ""
	case *graphsync.RemoteIncorrectResponseError:
		return 1, ""
	}
	return 2, ""
}

// collect drains the two channels of a request
func collect(ctx context.Context, d *dag.DAG, tb *tables, progress <-chan graphsync.ResponseProgress, errs <-chan error) (o observed, classes []uint64) {
	for progress != nil || errs != nil {
		select {
		case p, ok := <-progress:
			if !ok {
				progress = nil
				continue
			}
			o.visits = append(o.visits, tb.visitID(nodeKey(p.Path, p.Node), false))
		case e, ok := <-errs:
			if !ok {
				errs = nil
				continue
			}
			if e == nil {
				continue
			}
			k, term := classifyErr(d, tb, e)
			classes = append(classes, uint64(k))
			if k == 0 {
				o.missing = append(o.missing, term)
			} else {
				o.other++
				o.otherTxt = append(o.otherTxt, fmt.Sprintf("%T:%v", e, e))
			}
		case <-ctx.Done():
			o.hang = true
			return
		}
	}
	o.complete = true
	return
}

func storeKeys(d *dag.DAG, st *e2e.Store) []uint64 {
	var ks []uint64
	for i, b := range d.Blocks {
		if st.Has(dagLink(b)) {
			ks = append(ks, uint64(i))
		}
	}
	extra := len(st.Keys()) - len(ks)
	for i := 0; i < extra; i++ {
		ks = append(ks, uint64(2000000+i)) // a stored block that is not a block of the DAG
	}
	sort.Slice(ks, func(i, j int) bool { return ks[i] < ks[j] })
	// distinct blocks of the DAG may share a CID (same content): keep distinct indices only
	return ks
}

func runHonest(d *dag.DAG, sel datamodel.Node, tb *tables, inL, inR func(int) bool) (observed, error) {
	w, err := e2e.NewWorld(2)
	if err != nil {
		return observed{}, err
	}
	defer w.Close()
	for i, b := range d.Blocks {
		if inL(i) {
			w.Nodes[0].Store.Put(dagLink(b), b.Data)
		}
		if inR(i) {
			w.Nodes[1].Store.Put(dagLink(b), b.Data)
		}
	}
	req := w.Start(0)
	resp := w.Start(1)
	resp.RegisterIncomingRequestHook(func(p peer.ID, r graphsync.RequestData, ha graphsync.IncomingRequestHookActions) {
		ha.ValidateRequest()
	})
	ctx, cancel := context.WithTimeout(w.Ctx, 20*time.Second)
	defer cancel()
	progress, errs := req.Request(ctx, w.Nodes[1].ID(), d.Root(), sel)
	o, _ := collect(ctx, d, tb, progress, errs)
	o.store = storeKeys(d, w.Nodes[0].Store)
	return o, nil
}

// genWorld draws a DAG whose blocks have pairwise distinct CIDs (so that a block index names a CID)
func genWorld(r *rng.R, shape string) (*dag.DAG, datamodel.Node, string) {
	for {
		var d *dag.DAG
		switch shape {
		case "prefix":
			d = dag.GenPrefix(r)
		case "empty":
			d = dag.GenEmptyLeaf(r)
		case "witness", "skipcount":
			d = dag.Gen(r, dag.Opts{MaxBlocks: r.Range(4, 9), MaxFanout: 3, Shared: false, Inline: true})
		default:
			d = dag.Gen(r, dag.Opts{MaxBlocks: r.Range(1, 11), MaxFanout: 3, Shared: true, Inline: true, Identity: true})
		}
		seen := map[string]bool{}
		dup := false
		for _, b := range d.Blocks {
			if seen[b.Cid.String()] {
				dup = true
			}
			seen[b.Cid.String()] = true
		}
		if dup {
			continue
		}
		sel, sdesc := dag.Selector(r)
		if shape != "" {
			sel, sdesc = dag.AllSelector(), "all-recursive"
		}
		return d, sel, d.Shape + " sel=" + sdesc
	}
}

func outcomeTerm(o observed) string {
	return fmt.Sprintf("(Build_outcome %s %s %d %s %s)", cw.NList(o.visits), cw.List(o.missing), o.other, cw.NList(o.store), cw.Bool(o.complete))
}

func idxList(xs []int) string {
	u := make([]uint64, len(xs))
	for i, x := range xs {
		u[i] = uint64(x)
	}
	return cw.NList(u)
}

func runE2ECase(w *cw.Writer, ec e2eCase, kind string) error {
	r := rng.New(ec.Seed)
	d, sel, desc := genWorld(r, ec.Shape)
	tb := newTables()
	pl, err := harvest(d, sel, tb)
	if err != nil {
		return fmt.Errorf("harvest: %w", err)
	}
	n := len(d.Blocks)
	var L, R []int
	if ec.L != nil || ec.R != nil {
		L, R = ec.L, ec.R
	} else {
		// every kind of split: both / only L / only R / neither, with varying weights
		wBoth, wL, wR, wNone := r.Range(0, 4), r.Range(0, 4), r.Range(1, 5), r.Range(0, 2)
		if r.P(1, 6) {
			wL, wBoth = 0, 0 // requestor starts empty
		}
		tot := wBoth + wL + wR + wNone
		for i := 0; i < n; i++ {
			x := r.Intn(tot)
			switch {
			case x < wBoth:
				L, R = append(L, i), append(R, i)
			case x < wBoth+wL:
				L = append(L, i)
			case x < wBoth+wL+wR:
				R = append(R, i)
			}
		}
		if ec.Shape == "skipcount" {
			// the requestor holds a subtree the responder lacks, and misses something later
			L, R = nil, nil
			for i := 0; i < n; i++ {
				if r.P(2, 3) {
					L = append(L, i)
				}
				if r.P(2, 3) || i == 0 {
					R = append(R, i)
				}
			}
		}
	}
	in := func(xs []int) func(int) bool {
		m := map[int]bool{}
		for _, x := range xs {
			m[x] = true
		}
		return func(i int) bool { return m[i] }
	}
	inL, inR := in(L), in(R)
	o, err := runHonest(d, sel, tb, inL, inR)
	if err != nil {
		return err
	}
	if o.hang {
		// rerun once: a loaded machine may exceed the deadline
		o, err = runHonest(d, sel, tb, inL, inR)
		if err != nil {
			return err
		}
	}
	if os.Getenv("DLOADER_DEBUG") != "" {
		fmt.Fprintf(os.Stderr, "e2e obs: %+v\n", o)
	}
	ri := analyse(pl, inL, inR)
	tags := []string{"kind:" + kind, "e2e"}
	if ri.wentOnline {
		tags = append(tags, "went_online")
	} else {
		tags = append(tags, "all_local")
	}
	if ri.rootMissingR {
		tags = append(tags, "root_missing_remote")
	}
	if !inL(0) {
		tags = append(tags, "root_missing_local")
	}
	if ri.misaligned {
		tags = append(tags, "skip_misaligned")
	}
	if ri.remoteMissing > 0 {
		tags = append(tags, "remote_missing_links")
	}
	if ri.localFallback > 0 {
		tags = append(tags, "local_fallback_online")
	}
	if ri.deepAfterMiss {
		tags = append(tags, "deeper_link_after_remote_miss")
	}
	if ri.offlineLoads > 0 && ri.wentOnline {
		tags = append(tags, "verifier_replay")
	}
	if ec.Shape == "prefix" {
		tags = append(tags, "string_prefix_siblings")
	}
	if ec.Shape == "empty" {
		tags = append(tags, "empty_raw_block")
	}
	ec.Kind = "e2e"
	ec.Desc = desc + fmt.Sprintf(" plan-links=%d L=%v R=%v", pl.nodes(), L, R)
	ec.Tags = tags
	ec.L, ec.R = L, R
	if ec.L == nil {
		ec.L = []int{}
	}
	if ec.R == nil {
		ec.R = []int{}
	}
	term := fmt.Sprintf("DE (Build_e2ecase %s %s %s %s)", pl.coq(), idxList(L), idxList(R), outcomeTerm(o))
	idx := w.Add(term, ec, ri.wentOnline && (ri.remoteMissing > 0 || ri.localFallback > 0 || ri.offlineLoads > 0), tags...)
	if o.hang {
		w.Violation(idx, "request did not finish within 20s (twice): "+strings.Join(o.otherTxt, ";"), "hang")
	}
	return nil
}
