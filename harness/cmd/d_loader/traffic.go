package main

// C24, requestor half: two real GraphSync instances over the mocknet; the responder's request hook records
// every new request as it arrives from the wire (with its do-not-send extensions), its cancel listener
// every cancel.  A marker request for a block the requestor cannot have is sent after the request under test
// completed: messages to one peer leave through one FIFO queue, so whatever the first request put on the
// wire has arrived when the marker arrives.

import (
	"context"
	"fmt"
	"sync"
	"time"

	"github.com/ipfs/go-cid"
	"github.com/libp2p/go-libp2p/core/peer"

	"github.com/ipfs/go-graphsync"
	"github.com/ipfs/go-graphsync/cidset"
	"github.com/ipfs/go-graphsync/donotsendfirstblocks"

	"verif/harness/internal/cw"
	"verif/harness/internal/dag"
	"verif/harness/internal/e2e"
	"verif/harness/internal/rng"
)

type trafficCase struct {
	Kind     string   `json:"kind"` // "traffic"
	Seed     uint64   `json:"seed"`
	AllLocal bool     `json:"all_local,omitempty"`
	Desc     string   `json:"desc,omitempty"`
	Tags     []string `json:"tags,omitempty"`
}

const trafficHeader = `From Coq Require Import List NArith Bool.
From GS Require Import Base Ltree RecLoader ReqExec Traffic.
Import ListNotations.
Open Scope N_scope.
`

type seenReq struct {
	root    cid.Cid
	skip    uint64
	hasSkip bool
	cids    *cid.Set
	cancel  bool
}

func runTrafficCase(w *cw.Writer, tc trafficCase, kind string) error {
	r := rng.New(tc.Seed)
	shape := ""
	if r.P(1, 4) {
		shape = "empty" // a root with a zero-length raw leaf among its children
	}
	d, sel, desc := genWorld(r, shape)
	tb := newTables()
	pl, err := harvest(d, sel, tb)
	if err != nil {
		return fmt.Errorf("harvest: %w", err)
	}
	n := len(d.Blocks)
	var L []int
	allLocal := tc.AllLocal || r.P(1, 4)
	for i := 0; i < n; i++ {
		if allLocal || r.P(4, 5) {
			L = append(L, i)
		}
	}
	user := uint64(0)
	if r.P(1, 3) {
		user = uint64(rng.Pick(r, []int{1, 2, 3, 7}))
	}
	var userCids *cid.Set
	if r.P(1, 3) {
		userCids = cid.NewSet()
		for i := 0; i < n; i++ {
			if r.P(1, 3) {
				userCids.Add(d.Blocks[i].Cid)
			}
		}
	}
	world, err := e2e.NewWorld(2)
	if err != nil {
		return err
	}
	defer world.Close()
	inL := map[int]bool{}
	for _, i := range L {
		inL[i] = true
		world.Nodes[0].Store.Put(dagLink(d.Blocks[i]), d.Blocks[i].Data)
	}
	for _, b := range d.Blocks {
		world.Nodes[1].Store.Put(dagLink(b), b.Data)
	}
	marker := dag.Chain(1)
	// make the marker block distinct from every block of the DAG
	for d.Index(marker.Blocks[0].Cid) >= 0 {
		marker = dag.Chain(2)
		break
	}
	for _, b := range marker.Blocks {
		world.Nodes[1].Store.Put(dagLink(b), b.Data)
	}
	req := world.Start(0)
	resp := world.Start(1)
	var mu sync.Mutex
	var seen []seenReq
	resp.RegisterIncomingRequestHook(func(p peer.ID, rd graphsync.RequestData, ha graphsync.IncomingRequestHookActions) {
		ha.ValidateRequest()
		s := seenReq{root: rd.Root()}
		if data, ok := rd.Extension(graphsync.ExtensionsDoNotSendFirstBlocks); ok {
			v, err := donotsendfirstblocks.DecodeDoNotSendFirstBlocks(data)
			if err == nil {
				s.skip, s.hasSkip = uint64(v), true
			}
		}
		if data, ok := rd.Extension(graphsync.ExtensionDoNotSendCIDs); ok {
			if set, err := cidset.DecodeCidSet(data); err == nil {
				s.cids = set
			}
		}
		mu.Lock()
		seen = append(seen, s)
		mu.Unlock()
	})
	resp.RegisterRequestorCancelledListener(func(p peer.ID, rd graphsync.RequestData) {
		mu.Lock()
		seen = append(seen, seenReq{root: rd.Root(), cancel: true})
		mu.Unlock()
	})
	ctx, cancel := context.WithTimeout(world.Ctx, 20*time.Second)
	defer cancel()
	var exts []graphsync.ExtensionData
	if user > 0 {
		exts = append(exts, graphsync.ExtensionData{Name: graphsync.ExtensionsDoNotSendFirstBlocks, Data: donotsendfirstblocks.EncodeDoNotSendFirstBlocks(int64(user))})
	}
	if userCids != nil {
		exts = append(exts, graphsync.ExtensionData{Name: graphsync.ExtensionDoNotSendCIDs, Data: cidset.EncodeCidSet(userCids)})
	}
	progress, errs := req.Request(ctx, world.Nodes[1].ID(), d.Root(), sel, exts...)
	o, _ := collect(ctx, d, tb, progress, errs)
	// the marker
	p2, e2 := req.Request(ctx, world.Nodes[1].ID(), marker.Root(), dag.AllSelector())
	o2, _ := collect(ctx, marker, newTables(), p2, e2)
	hang := o.hang || o2.hang

	mu.Lock()
	var sent, kept = false, true
	var skip uint64
	nseen := 0
	markerSeen := false
	for _, s := range seen {
		if s.root.Equals(marker.Blocks[0].Cid) {
			markerSeen = true
			break
		}
		nseen++
		sent = true
		if s.cancel {
			continue
		}
		if s.hasSkip {
			skip = s.skip
		}
		if userCids != nil {
			if s.cids == nil || s.cids.Len() != userCids.Len() {
				kept = false
			} else {
				_ = userCids.ForEach(func(c cid.Cid) error {
					if !s.cids.Has(c) {
						kept = false
					}
					return nil
				})
			}
		} else if s.cids != nil {
			kept = false
		}
	}
	mu.Unlock()

	tags := []string{"kind:" + kind, "traffic"}
	ri := analyse(pl, func(i int) bool { return inL[i] }, func(int) bool { return true })
	if ri.wentOnline {
		tags = append(tags, "partially_local", fmt.Sprintf("local_prefix=%d", min(ri.offlineLoads, 6)))
	} else {
		tags = append(tags, "all_local")
	}
	if user > 0 {
		tags = append(tags, "user_do_not_send_first_blocks")
	}
	if shape == "empty" {
		tags = append(tags, "zero_length_block")
		if inL[1] {
			tags = append(tags, "zero_length_block_held_locally")
		}
	}
	if userCids != nil {
		tags = append(tags, "user_do_not_send_cids")
	}
	tc.Kind = "traffic"
	tc.AllLocal = allLocal
	tc.Desc = desc + fmt.Sprintf(" plan-links=%d L=%v user=%d", pl.nodes(), L, user)
	tc.Tags = tags
	term := fmt.Sprintf("Build_tcase %s %s %d %s %d %s", pl.coq(), idxList(L), user, cw.Bool(sent), skip, cw.Bool(kept))
	idx := w.Add(term, tc, ri.wentOnline && ri.offlineLoads > 0, tags...)
	if hang || !markerSeen {
		w.Violation(idx, fmt.Sprintf("request or marker request did not complete (hang=%v markerSeen=%v)", hang, markerSeen), "hang")
	}
	return nil
}
