package main

// C20, further families (driver "concfam"): one request, the victim, shares nothing with the other requests that
// could excuse a difference, and must end exactly as alone.
//   ignore : an EARLIER request with a dedup key and a do-not-send-cids list naming blocks of the victim's DAG has
//            finished; the victim (default scope) then fetches its DAG.
//   bucket : two requests share a dedup key; the first finishes on the responder while the second (the victim) has
//            registered the key but loaded nothing yet; a default-scope request over an overlapping DAG has run ahead
//            (and stored nothing yet); then the victim runs.
//   cancel : another request over a disjoint DAG is cancelled by the caller while block-carrying response items are
//            still queued in its loader; then the victim (whose responder lacks some block) runs.
//   rcancel: an earlier request over the victim's OWN DAG is paused by the responder (outgoing-block hook) after its
//            first block, cancelled by the requestor while it is paused there (not running), and the caller discards
//            what it had stored; then the victim runs: nothing of the cancelled response may still count as "sent".

import (
	"context"
	"fmt"
	"io"
	"sync"
	"time"

	"github.com/ipfs/go-cid"
	"github.com/ipld/go-ipld-prime"
	"github.com/ipld/go-ipld-prime/linking"
	cidlink "github.com/ipld/go-ipld-prime/linking/cid"
	"github.com/libp2p/go-libp2p/core/peer"

	"github.com/ipfs/go-graphsync"
	"github.com/ipfs/go-graphsync/cidset"
	"github.com/ipfs/go-graphsync/dedupkey"
	gsimpl "github.com/ipfs/go-graphsync/impl"

	"verif/harness/internal/cw"
	"verif/harness/internal/dag"
	"verif/harness/internal/e2e"
	"verif/harness/internal/rng"
)

type famCase struct {
	Kind   string   `json:"kind"` // "concfam"
	Seed   uint64   `json:"seed"`
	Family string   `json:"family,omitempty"`
	Desc   string   `json:"desc,omitempty"`
	Tags   []string `json:"tags,omitempty"`
}

const famHeader = `From Coq Require Import List NArith Bool.
From GS Require Import Base Ltree RecLoader ReqExec Concurrent ConcFamilies.
Import ListNotations.
Open Scope N_scope.
`

// two disjoint DAGs in one universe: d1 = blocks [0,n1), d2 = blocks [n1,n)
func twoDAGs(r *rng.R, min1, min2 int) (*dag.DAG, int, string) {
	for {
		d1, _, s1 := genWorld(r, "")
		d2, _, s2 := genWorld(r, "")
		if len(d1.Blocks) < min1 || len(d2.Blocks) < min2 {
			continue
		}
		clash := false
		for _, b := range d2.Blocks {
			if d1.Index(b.Cid) >= 0 {
				clash = true
			}
		}
		if clash {
			continue
		}
		d := &dag.DAG{Blocks: append(append([]dag.Block{}, d1.Blocks...), d2.Blocks...), Shape: d1.Shape + "+" + d2.Shape}
		return d, len(d1.Blocks), s1 + " | " + s2
	}
}

func runFamCase(w *cw.Writer, fc famCase, kind string) error {
	if fc.Family == "batch" {
		return runBatchCase(w, fc, kind)
	}
	r := rng.New(fc.Seed)
	fam := fc.Family
	if fam == "" {
		fam = []string{"ignore", "bucket", "cancel", "rcancel"}[r.Intn(4)]
	}
	min1, min2 := 1, 1
	if fam == "bucket" {
		min2 = 2
	}
	if fam == "cancel" {
		min1 = 3
	}
	if fam == "rcancel" {
		min2 = 2
	}
	d, n1, desc := twoDAGs(r, min1, min2)
	n := len(d.Blocks)
	sel := dag.AllSelector()
	// the victim's root
	vroot := n1
	if fam == "bucket" {
		vroot = r.Range(n1+1, n-1) // a sub-DAG of d2, so that it overlaps the default-scope request over d2 but not its root
	}
	tbv := newTables()
	plv, err := harvestFrom(d, vroot, sel, tbv)
	if err != nil {
		return fmt.Errorf("harvest: %w", err)
	}
	// stores: the requestor starts empty; the responder holds the roots and most of the rest
	inRm := map[int]bool{0: true, n1: true, vroot: true}
	var R []int
	pR := r.Range(4, 6)
	for i := 0; i < n; i++ {
		if inRm[i] || r.Intn(6) < pR {
			inRm[i] = true
		}
	}
	if fam == "cancel" {
		// the victim's responder lacks a block of its plan (other than the root), if there is one: a Missing entry
		var cand []int
		var walk func(p *plan)
		walk = func(p *plan) {
			if p.cid != vroot {
				cand = append(cand, p.cid)
			}
			for _, it := range p.body {
				if it.child != nil {
					walk(it.child)
				}
			}
		}
		walk(plv)
		if len(cand) > 0 {
			delete(inRm, rng.Pick(r, cand))
		}
		for i := 0; i < n1; i++ { // the cancelled request's responder holds its whole DAG: many block-carrying items
			inRm[i] = true
		}
	}
	for i := 0; i < n; i++ {
		if inRm[i] {
			R = append(R, i)
		}
	}

	world, err := e2e.NewWorld(2)
	if err != nil {
		return err
	}
	defer world.Close()
	for _, i := range R {
		world.Nodes[1].Store.Put(dagLink(d.Blocks[i]), d.Blocks[i].Data)
	}
	// gates
	var gmu sync.Mutex
	respHold := map[int]int{}  // tag -> number of loads after which the request is held (-1 none)
	respLoads := map[int]int{} // tag -> loads so far
	respAt := map[int]chan struct{}{1: make(chan struct{}, 1), 2: make(chan struct{}, 1), 3: make(chan struct{}, 1)}
	respRel := map[int]chan struct{}{1: make(chan struct{}), 2: make(chan struct{}), 3: make(chan struct{})}
	var relOnce [4]sync.Once
	release := func(tag int) { relOnce[tag].Do(func() { close(respRel[tag]) }) }
	defer func() { release(1); release(2); release(3) }()
	respLsys := world.Nodes[1].Store.LinkSystem()
	baseRead := respLsys.StorageReadOpener
	respLsys.StorageReadOpener = func(lctx linking.LinkContext, l ipld.Link) (io.Reader, error) {
		if lctx.Ctx != nil {
			if tag, _ := lctx.Ctx.Value(tagKey{}).(int); tag > 0 {
				gmu.Lock()
				k := respLoads[tag]
				respLoads[tag]++
				hold, ok := respHold[tag]
				gmu.Unlock()
				if ok && k == hold {
					select {
					case respAt[tag] <- struct{}{}:
					default:
					}
					<-respRel[tag]
				}
			}
		}
		return baseRead(lctx, l)
	}
	reqLsys := world.Nodes[0].Store.LinkSystem()
	baseWrite := reqLsys.StorageWriteOpener
	commitHoldLink := ""
	commitAt := make(chan struct{}, 1)
	commitRel := make(chan struct{})
	var commitOnce sync.Once
	releaseCommit := func() { commitOnce.Do(func() { close(commitRel) }) }
	defer releaseCommit()
	reqLsys.StorageWriteOpener = func(lctx linking.LinkContext) (io.Writer, linking.BlockWriteCommitter, error) {
		wr, commit, err := baseWrite(lctx)
		if err != nil {
			return wr, commit, err
		}
		return wr, func(l ipld.Link) error {
			gmu.Lock()
			hold := commitHoldLink
			gmu.Unlock()
			if hold != "" && l.String() == hold {
				select {
				case commitAt <- struct{}{}:
				default:
				}
				<-commitRel
			}
			return commit(l)
		}, nil
	}
	req := gsimpl.New(world.Ctx, world.Nodes[0].Net, reqLsys)
	resp := gsimpl.New(world.Ctx, world.Nodes[1].Net, respLsys)
	rootTag := map[string]int{}
	resp.RegisterIncomingRequestHook(func(p peer.ID, rd graphsync.RequestData, ha graphsync.IncomingRequestHookActions) {
		ha.ValidateRequest()
		gmu.Lock()
		tag := rootTag[rd.Root().String()]
		gmu.Unlock()
		ha.AugmentContext(func(c context.Context) context.Context { return context.WithValue(c, tagKey{}, tag) })
	})
	finished := map[int]chan struct{}{1: make(chan struct{}, 1), 2: make(chan struct{}, 1), 3: make(chan struct{}, 1)}
	note := func(rd graphsync.RequestData) {
		gmu.Lock()
		tag := rootTag[rd.Root().String()]
		gmu.Unlock()
		if ch, ok := finished[tag]; ok {
			select {
			case ch <- struct{}{}:
			default:
			}
		}
	}
	resp.RegisterCompletedResponseListener(func(p peer.ID, rd graphsync.RequestData, status graphsync.ResponseStatusCode) { note(rd) })
	resp.RegisterRequestorCancelledListener(func(p peer.ID, rd graphsync.RequestData) { note(rd) })
	finalSeen := make(chan struct{}, 1)
	var watchRoot cid.Cid
	ids := map[graphsync.RequestID]cid.Cid{}
	req.RegisterOutgoingRequestHook(func(p peer.ID, rd graphsync.RequestData, ha graphsync.OutgoingRequestHookActions) {
		gmu.Lock()
		ids[rd.ID()] = rd.Root()
		gmu.Unlock()
	})
	req.RegisterIncomingResponseHook(func(p peer.ID, rd graphsync.ResponseData, ha graphsync.IncomingResponseHookActions) {
		gmu.Lock()
		root := ids[rd.RequestID()]
		gmu.Unlock()
		if rd.Status().IsTerminal() && watchRoot.Defined() && root.Equals(watchRoot) {
			select {
			case finalSeen <- struct{}{}:
			default:
			}
		}
	})
	pauseRoot := cid.Undef
	pausedFired := false
	req.RegisterIncomingBlockHook(func(p peer.ID, rd graphsync.ResponseData, b graphsync.BlockData, ha graphsync.IncomingBlockHookActions) {
		gmu.Lock()
		defer gmu.Unlock()
		if pauseRoot.Defined() && !pausedFired && ids[rd.RequestID()].Equals(pauseRoot) && b.Index() == 1 {
			pausedFired = true
			ha.PauseRequest()
		}
	})
	respPauseArmed := false // rcancel: the responder pauses the response it is serving after its first block
	resp.RegisterOutgoingBlockHook(func(p peer.ID, rd graphsync.RequestData, b graphsync.BlockData, ha graphsync.OutgoingBlockHookActions) {
		gmu.Lock()
		defer gmu.Unlock()
		if respPauseArmed && b.Index() == 1 {
			respPauseArmed = false
			ha.PauseResponse()
		}
	})
	ctx, cancel := context.WithTimeout(world.Ctx, 25*time.Second)
	defer cancel()
	type res struct{ o observed }
	start := func(c context.Context, rootIdx int, tb *tables, exts ...graphsync.ExtensionData) chan res {
		out := make(chan res, 1)
		progress, errs := req.Request(c, world.Nodes[1].ID(), cidlink.Link{Cid: d.Blocks[rootIdx].Cid}, sel, exts...)
		go func() {
			o, _ := collect(ctx, d, tb, progress, errs)
			out <- res{o}
		}()
		return out
	}
	wait := func(ch <-chan struct{}) {
		select {
		case <-ch:
		case <-ctx.Done():
		}
	}
	keyExt := func(k string) graphsync.ExtensionData {
		nd, _ := dedupkey.EncodeDedupKey(k)
		return graphsync.ExtensionData{Name: graphsync.ExtensionDeDupByKey, Data: nd}
	}
	setTag := func(rootIdx, tag int) {
		gmu.Lock()
		rootTag[d.Blocks[rootIdx].Cid.String()] = tag
		gmu.Unlock()
	}
	var victim observed
	tags := []string{"kind:" + kind, "concfam", "family:" + fam}
	switch fam {
	case "ignore":
		// request 1: dedup key + do-not-send-cids naming blocks of the victim's DAG; it runs to its end first
		set := cid.NewSet()
		for i := n1; i < n; i++ {
			if i == vroot || r.P(1, 2) {
				set.Add(d.Blocks[i].Cid)
			}
		}
		setTag(0, 1)
		setTag(vroot, 2)
		c1 := start(ctx, 0, newTables(), keyExt("scope-a"), graphsync.ExtensionData{Name: graphsync.ExtensionDoNotSendCIDs, Data: cidset.EncodeCidSet(set)})
		<-c1
		wait(finished[1])
		victim = (<-start(ctx, vroot, tbv)).o
	case "bucket":
		setTag(0, 1)     // first request with the key, over d1
		setTag(vroot, 2) // the victim, same key, a sub-DAG of d2
		setTag(n1, 3)    // default scope, all of d2
		gmu.Lock()
		respHold[2] = 0 // the victim registers its key and is held before its first load
		st3 := honestStream(mustHarvest(d, n1, sel), func(i int) bool { return inRm[i] }, 0)
		if len(st3) >= 2 {
			respHold[3] = len(st3) - 1 // the default-scope request is held before its last load
		}
		gmu.Unlock()
		gmu.Lock()
		commitHoldLink = dagLink(d.Blocks[n1]).String() // and stores nothing meanwhile
		gmu.Unlock()
		cv := start(ctx, vroot, tbv, keyExt("scope-b"))
		wait(respAt[2])
		c1 := start(ctx, 0, newTables(), keyExt("scope-b"))
		<-c1
		wait(finished[1])
		c3 := start(ctx, n1, newTables())
		if _, ok := respHold[3]; ok {
			wait(respAt[3])
		} else {
			wait(finished[3])
		}
		release(2)
		victim = (<-cv).o
		release(3)
		releaseCommit()
		<-c3
	case "cancel":
		setTag(0, 1)
		setTag(vroot, 2)
		gmu.Lock()
		commitHoldLink = dagLink(d.Blocks[0]).String()
		watchRoot = d.Blocks[0].Cid
		pauseRoot = d.Blocks[0].Cid
		gmu.Unlock()
		actx, acancel := context.WithCancel(ctx)
		ca := start(actx, 0, newTables())
		wait(commitAt)  // request A holds its root; the rest of its response is queued in its loader ...
		wait(finalSeen) // ... completely: its final status has been processed
		releaseCommit() // A takes its root, its block hook pauses it: the rest stays queued
		var aid graphsync.RequestID
		deadline := time.Now().Add(10 * time.Second)
		for {
			gmu.Lock()
			for id, root := range ids {
				if root.Equals(d.Blocks[0].Cid) {
					aid = id
				}
			}
			gmu.Unlock()
			st := req.(*gsimpl.GraphSync).PeerState(world.Nodes[1].ID()).OutgoingState.RequestStates[aid]
			if st == graphsync.Paused || time.Now().After(deadline) {
				break
			}
			select {
			case <-time.After(200 * time.Microsecond):
			case <-ctx.Done():
			}
		}
		acancel() // cancelled while parked: its loader is cleaned up with the queued items
		<-ca
		victim = (<-start(ctx, vroot, tbv)).o
	case "rcancel":
		setTag(vroot, 2)
		gmu.Lock()
		respPauseArmed = true
		gmu.Unlock()
		actx, acancel := context.WithCancel(ctx)
		ca := start(actx, vroot, newTables())
		var aid graphsync.RequestID
		deadline := time.Now().Add(10 * time.Second)
		for {
			gmu.Lock()
			for id, root := range ids {
				if root.Equals(d.Blocks[vroot].Cid) {
					aid = id
				}
			}
			gmu.Unlock()
			st, ok := resp.(*gsimpl.GraphSync).PeerState(world.Nodes[0].ID()).IncomingState.RequestStates[aid]
			if (ok && st == graphsync.Paused) || time.Now().After(deadline) {
				break
			}
			select {
			case <-time.After(200 * time.Microsecond):
			case <-ctx.Done():
			}
		}
		select { // drop a stale signal
		case <-finished[2]:
		default:
		}
		acancel() // cancelled by the requestor while the response is paused on the responder
		<-ca
		wait(finished[2]) // the responder has seen the cancel
		gmu.Lock()
		respPauseArmed = false
		gmu.Unlock()
		world.Nodes[0].Store.Clear() // the caller discards the partial data
		victim = (<-start(ctx, vroot, tbv)).o
	}
	// the store
	bad := false
	for _, k := range world.Nodes[0].Store.Keys() {
		c, err := cid.Decode(k)
		if err != nil {
			bad = true
			continue
		}
		data, _ := world.Nodes[0].Store.Get(cidlink.Link{Cid: c})
		if sum, err := c.Prefix().Sum(data); err != nil || !sum.Equals(c) {
			bad = true
		}
	}
	store := storeKeys(d, world.Nodes[0].Store)
	// indices relative to the universe; the victim's plan uses them too
	fc.Kind = "concfam"
	fc.Family = fam
	fc.Desc = desc + fmt.Sprintf(" n1=%d victim-root=%d links=%d R=%v", n1, vroot, plv.nodes(), R)
	fc.Tags = tags
	famN := map[string]int{"ignore": 1, "bucket": 2, "cancel": 3, "rcancel": 4}[fam]
	victim.store = nil
	term := fmt.Sprintf("Build_fcase %d %s [] %s\n    %s %s %s", famN, plv.coq(), idxList(R), outcomeTerm(victim), cw.NList(store), cw.Bool(bad))
	idx := w.Add(term, fc, true, tags...)
	if victim.hang {
		w.Violation(idx, "the victim request did not finish within 25s", "concurrent-hang")
	}
	return nil
}

func mustHarvest(d *dag.DAG, root int, sel ipld.Node) *plan {
	p, err := harvestFrom(d, root, sel, newTables())
	if err != nil {
		panic(err)
	}
	return p
}
