// Command d_loader: drivers "loader" (C02: real ReconciledLoader scripts + two real GraphSync endpoints)
// and "adversary" (C01: the real requestor against a scripted hostile peer).
package main

import (
	"fmt"
	"os"

	"verif/harness/internal/cw"
	"verif/harness/internal/drv"
)

const header = `From Coq Require Import List NArith Bool.
From GS Require Import Base Ltree RecLoader ReqExec.
Import ListNotations.
Open Scope N_scope.
`

type anyCase struct {
	Kind string `json:"kind"`
}

func newWriter(c *drv.Ctx) *cw.Writer {
	w := cw.New(c.Out, header, "dcase", []cw.Check{
		{Name: "MISMATCH", Fn: "d_mismatch"},
		{Name: "MON02", Fn: "d_mon02"},
		{Name: "MON01", Fn: "d_mon01"},
	})
	w.ShardSize = 120 // the plans make the terms large: elaboration, not evaluation, is what costs
	return w
}

func replayOne(c *drv.Ctx, w *cw.Writer, path, kind string) error {
	var k anyCase
	if err := drv.ReplayCase(path, &k); err != nil {
		return err
	}
	switch k.Kind {
	case "script":
		var sc scriptCase
		if err := drv.ReplayCase(path, &sc); err != nil {
			return err
		}
		return runScriptCase(w, sc, kind)
	case "e2e":
		var ec e2eCase
		if err := drv.ReplayCase(path, &ec); err != nil {
			return err
		}
		return runE2ECase(w, ec, kind)
	case "adversary":
		var ac advCase
		if err := drv.ReplayCase(path, &ac); err != nil {
			return err
		}
		return runAdvCase(w, ac, kind)
	}
	return fmt.Errorf("%s: unknown case kind %q", path, k.Kind)
}

func runLoader(c *drv.Ctx) error {
	w := newWriter(c)
	w.Stats.Rule = "[script] one real ReconciledLoader per case: calls of SetRemoteOnline/IngestResponse/BlockReadOpener/RetryLastLoad following executor.traverse over a plan harvested from a real traversal of a generated DAG (1-11 blocks, shared children, links in inline nodes, identity CIDs) with the honest responder's stream (or a mutated one, or fully random calls) cut into random chunks delivered before, between and during loads; every completed load (result, error fields, store keys) compared with the model. " +
		"[e2e] two real GraphSync instances over the mocknet, generated DAG, selector and split of blocks between requestor and responder (both/only L/only R/neither; root missing on either side); delivered (path,node) sequence, missing-block errors, other errors, final store compared with the reference ref(plan,L,R) (monitor) and with the model (correspondence). " +
		"non-trivial = a request was sent and a remote-missing link, a local fallback while online or a verifier replay occurred (e2e); at least 3 completed loads (script); distinct = distinct terms"
	if c.Replay != "" {
		if err := replayOne(c, w, c.Replay, "replay"); err != nil {
			return err
		}
		return w.Flush()
	}
	for _, f := range c.CorpusFiles("loader") {
		if err := replayOne(c, w, f, "corpus"); err != nil {
			return fmt.Errorf("%s: %w", f, err)
		}
	}
	ns := c.Count(1000, 12000)
	ne := c.Count(140, 1200)
	if c.N > 0 {
		ne = c.N / 8
	}
	for i := 0; i < ns; i++ {
		if err := runScriptCase(w, scriptCase{Seed: c.R.U64()}, "random"); err != nil {
			return err
		}
	}
	for i := 0; i < ne; i++ {
		shape := ""
		switch {
		case i%8 == 6:
			shape = "witness"
		case i%8 == 7:
			shape = "skipcount"
		}
		if err := runE2ECase(w, e2eCase{Seed: c.R.U64(), Shape: shape}, "random"); err != nil {
			return err
		}
	}
	return w.Flush()
}

func runAdversary(c *drv.Ctx) error {
	w := newWriter(c)
	w.Stats.Rule = "a real GraphSync requestor over the mocknet against a scripted peer: the captured request is answered over the wire with the honest response stream mutated by weighted operators (drop/duplicate/swap/extra metadata entries, flipped action, block attached to the wrong link, forged block bytes, withheld block, wrong link; wrong request id, wrong sender peer, third-peer forgery, early/repeated terminal status, failure status, reordered messages), a terminal status always last; " +
		"observed: delivered (path,node) sequence, error classes, store commits in order with the CID of the committed bytes, final store; monitor: commits are genuine blocks of the requested DAG under their own CID, delivered nodes are a subsequence of the full-universe traversal; correspondence: the model run on the same message sequence. non-trivial = more than one message; distinct = distinct terms"
	if c.Replay != "" {
		if err := replayOne(c, w, c.Replay, "replay"); err != nil {
			return err
		}
		return w.Flush()
	}
	for _, f := range c.CorpusFiles("adversary") {
		if err := replayOne(c, w, f, "corpus"); err != nil {
			return fmt.Errorf("%s: %w", f, err)
		}
	}
	n := c.Count(160, 2000)
	for i := 0; i < n; i++ {
		if err := runAdvCase(w, advCase{Seed: c.R.U64()}, "random"); err != nil {
			return err
		}
	}
	return w.Flush()
}

func main() {
	name := "loader"
	if len(os.Args) > 1 {
		name = os.Args[1]
	}
	switch name {
	case "adversary":
		drv.Main("adversary", runAdversary)
	default:
		drv.Main("loader", runLoader)
	}
}
