// Command d_loader: drivers "loader" (C02: real ReconciledLoader scripts + two real GraphSync endpoints)
// and "adversary" (C01: the real requestor against a scripted hostile peer).
package main

import (
	"fmt"
	"os"

	"verif/harness/internal/cw"
	"verif/harness/internal/drv"
)

const header = `From Coq Require Import List NArith Bool.
From GS Require Import Base Ltree RecLoader ReqExec C02Prefix C02Contig.
Import ListNotations.
Open Scope N_scope.
`

type anyCase struct {
	Kind string `json:"kind"`
}

func newWriter(c *drv.Ctx) *cw.Writer {
	w := cw.New(c.Out, header, "dcase", []cw.Check{
		{Name: "MISMATCH", Fn: "d_mismatch"},
		{Name: "MON02", Fn: "d_mon02"},
		{Name: "MON01", Fn: "d_mon01"},
		{Name: "TRIEORD", Fn: "d_trie_ordered"}, // the plan guard of C02_holds_guarded holds of every harvested plan
		{Name: "CONTIG", Fn: "d_contiguous"},    // children of an inline node are visited contiguously (implies trie_ordered: C02_contiguous_trie_ordered)
		{Name: "MON02G", Fn: "d_mon02_guarded"}, // inside the theorem's guards the implementation's outcome must equal the reference
	})
	w.ShardSize = 120 // the plans make the terms large: elaboration, not evaluation, is what costs
	return w
}

func replayOne(c *drv.Ctx, w *cw.Writer, path, kind string) error {
	var k anyCase
	if err := drv.ReplayCase(path, &k); err != nil {
		return err
	}
	switch k.Kind {
	case "script":
		var sc scriptCase
		if err := drv.ReplayCase(path, &sc); err != nil {
			return err
		}
		return runScriptCase(w, sc, kind)
	case "e2e":
		var ec e2eCase
		if err := drv.ReplayCase(path, &ec); err != nil {
			return err
		}
		return runE2ECase(w, ec, kind)
	case "execsync":
		var ec execCase
		if err := drv.ReplayCase(path, &ec); err != nil {
			return err
		}
		return runExecCase(w, ec, kind)
	case "adversary":
		var ac advCase
		if err := drv.ReplayCase(path, &ac); err != nil {
			return err
		}
		return runAdvCase(w, ac, kind)
	}
	return fmt.Errorf("%s: unknown case kind %q", path, k.Kind)
}

func runLoader(c *drv.Ctx) error {
	w := newWriter(c)
	w.Stats.Rule = "[script] one real ReconciledLoader per case: calls of SetRemoteOnline/IngestResponse/BlockReadOpener/RetryLastLoad following executor.traverse over a plan harvested from a real traversal of a generated DAG (1-11 blocks, shared children, links in inline nodes, identity CIDs) with the honest responder's stream (or a mutated one, or fully random calls) cut into random chunks delivered before, between and during loads; every completed load (result, error fields, store keys) compared with the model. " +
		"[e2e] two real GraphSync instances over the mocknet, generated DAG, selector and split of blocks between requestor and responder (both/only L/only R/neither; root missing on either side); delivered (path,node) sequence, missing-block errors, other errors, final store compared with the reference ref(plan,L,R) (monitor) and with the model (correspondence). " +
		"non-trivial = a request was sent and a remote-missing link, a local fallback while online or a verifier replay occurred (e2e); at least 3 completed loads (script); distinct = distinct terms"
	if c.Replay != "" {
		if err := replayOne(c, w, c.Replay, "replay"); err != nil {
			return err
		}
		return w.Flush()
	}
	for _, f := range c.CorpusFiles("loader") {
		if err := replayOne(c, w, f, "corpus"); err != nil {
			return fmt.Errorf("%s: %w", f, err)
		}
	}
	ns := c.Count(1000, 12000)
	ne := c.Count(140, 1200)
	if c.N > 0 {
		ne = c.N / 8
	}
	for i := 0; i < ns; i++ {
		if err := runScriptCase(w, scriptCase{Seed: c.R.U64()}, "random"); err != nil {
			return err
		}
	}
	for i := 0; i < ne; i++ {
		shape := ""
		switch {
		case i%8 == 5 || i%8 == 4:
			shape = "prefix"
		case i%8 == 3:
			shape = "empty"
		case i%8 == 6:
			shape = "witness"
		case i%8 == 7:
			shape = "skipcount"
		}
		if err := runE2ECase(w, e2eCase{Seed: c.R.U64(), Shape: shape}, "random"); err != nil {
			return err
		}
	}
	nx := c.Count(120, 3000)
	for i := 0; i < nx && execHangs < 3; i++ {
		if err := runExecCase(w, execCase{Seed: c.R.U64(), Whole: i%2 == 0}, "random"); err != nil {
			return err
		}
	}
	return w.Flush()
}

func runAdversary(c *drv.Ctx) error {
	w := newWriter(c)
	w.Stats.Rule = "a real GraphSync requestor over the mocknet against a scripted peer: the captured request is answered over the wire with the honest response stream mutated by weighted operators (drop/duplicate/swap/extra metadata entries, flipped action, block attached to the wrong link, forged block bytes, withheld block, wrong link; wrong request id, wrong sender peer, third-peer forgery, early/repeated terminal status, failure status, reordered messages), a terminal status always last; " +
		"observed: delivered (path,node) sequence, error classes, store commits in order with the CID of the committed bytes, final store; monitor: commits are genuine blocks of the requested DAG under their own CID, delivered nodes are a subsequence of the full-universe traversal; correspondence: the model run on the same message sequence. non-trivial = more than one message; distinct = distinct terms"
	if c.Replay != "" {
		if err := replayOne(c, w, c.Replay, "replay"); err != nil {
			return err
		}
		return w.Flush()
	}
	for _, f := range c.CorpusFiles("adversary") {
		if err := replayOne(c, w, f, "corpus"); err != nil {
			return fmt.Errorf("%s: %w", f, err)
		}
	}
	n := c.Count(160, 2000)
	for i := 0; i < n; i++ {
		if err := runAdvCase(w, advCase{Seed: c.R.U64()}, "random"); err != nil {
			return err
		}
	}
	return w.Flush()
}

func runPause(c *drv.Ctx) error {
	w := cw.New(c.Out, pauseHeader, "pcase", []cw.Check{{Name: "MISMATCH", Fn: "pcase_ok"}, {Name: "MON06", Fn: "pcase_mon"}, {Name: "MON06G", Fn: "pcase_mon_guarded"}})
	w.ShardSize = 120
	w.Stats.Rule = "two real GraphSync instances over the mocknet; generated DAG/selector; the responder holds the root and a random part of the DAG, the requestor a random part of that (outside C02-F1/F2); the requestor pauses its request from the incoming-block hook at a block index drawn from 1..blocks-it-will-load (1/8: no pause) and is resumed after a marker request drained the cancelled response's in-flight messages (3/4) or at once (1/4); " +
		"monitor: delivered (path,node) sequence, missing-block errors, other errors and final store equal the reference ref(plan,L,R), i.e. the unpaused outcome; correspondence: the model with the pause, under three delivery schedules (how much of the response was queued when the pause took effect is not observable). non-trivial = paused after going online; distinct = distinct terms"
	run := func(path, kind string) error {
		var pc pauseCase
		if err := drv.ReplayCase(path, &pc); err != nil {
			return err
		}
		return runPauseCase(w, pc, kind)
	}
	if c.Replay != "" {
		if err := run(c.Replay, "replay"); err != nil {
			return err
		}
		return w.Flush()
	}
	for _, f := range c.CorpusFiles("pause") {
		if err := run(f, "corpus"); err != nil {
			return fmt.Errorf("%s: %w", f, err)
		}
	}
	n := c.Count(260, 4000)
	for i := 0; i < n; i++ {
		if err := runPauseCase(w, pauseCase{Seed: c.R.U64(), Block: -1}, "random"); err != nil {
			return err
		}
	}
	return w.Flush()
}

func runRPause(c *drv.Ctx) error {
	w := cw.New(c.Out, pauseHeader, "rpcase", []cw.Check{{Name: "MISMATCH", Fn: "rpcase_ok"}, {Name: "MON06R", Fn: "rpcase_mon"}, {Name: "MON06RM", Fn: "rpcase_model_ok"}})
	w.ShardSize = 120
	w.Stats.Rule = "a real GraphSync responder (root present, random part of the DAG) answering a request sent by a raw network endpoint that records every message; the responder pauses the response from its outgoing-block hook at the k-th transmitted block (k in 1..blocks, 1/8 no pause) and is unpaused as soon as the endpoint saw the RequestPaused status; " +
		"monitor: metadata and blocks over all messages equal the honest responder stream of the plan (= the unpaused output), no message between the paused status and the Unpause call carries a block, final status full/partial as expected. non-trivial = the paused status was seen; distinct = distinct terms"
	run := func(path, kind string) error {
		var rc rpauseCase
		if err := drv.ReplayCase(path, &rc); err != nil {
			return err
		}
		return runRPauseCase(w, rc, kind)
	}
	if c.Replay != "" {
		if err := run(c.Replay, "replay"); err != nil {
			return err
		}
		return w.Flush()
	}
	n := c.Count(200, 3000)
	for i := 0; i < n; i++ {
		if err := runRPauseCase(w, rpauseCase{Seed: c.R.U64(), Block: -1}, "random"); err != nil {
			return err
		}
	}
	return w.Flush()
}

func runConcurrent(c *drv.Ctx) error {
	w := cw.New(c.Out, concHeader, "ccase", []cw.Check{{Name: "MISMATCH", Fn: "ccase_ok"}, {Name: "MON20", Fn: "ccase_mon"}, {Name: "MON20D", Fn: "ccase_mon_disjoint"}})
	w.ShardSize = 100
	w.Stats.Rule = "one real requestor and one real responder over the mocknet, two requests in flight at once: request 1 = a generated DAG from its root, request 2 = the sub-DAG under one of its blocks (3/4, overlapping) or a second disjoint DAG (1/4); 2/3 of the cases force the losing order with a responder store gate (request 1 served up to g links, then request 2 entirely) and a requestor store gate (request 1's root commit held until request 2 completed), the rest run free; " +
		"monitor: each request's delivered (path,node) sequence and errors equal those of the same request alone (reference); correspondence (gated cases): the composition of the C19 link-tracker model with two requestor models sharing one store. non-trivial = overlapping and gated; distinct = distinct terms"
	run := func(path, kind string) error {
		var cc concCase
		if err := drv.ReplayCase(path, &cc); err != nil {
			return err
		}
		return runConcCase(w, cc, kind)
	}
	if c.Replay != "" {
		if err := run(c.Replay, "replay"); err != nil {
			return err
		}
		return w.Flush()
	}
	for _, f := range c.CorpusFiles("concurrent") {
		if err := run(f, "corpus"); err != nil {
			return fmt.Errorf("%s: %w", f, err)
		}
	}
	n := c.Count(240, 4000)
	for i := 0; i < n; i++ {
		if err := runConcCase(w, concCase{Seed: c.R.U64()}, "random"); err != nil {
			return err
		}
	}
	return w.Flush()
}

func runAdvPause(c *drv.Ctx) error {
	w := cw.New(c.Out, pauseHeader, "apcase", []cw.Check{{Name: "MISMATCH", Fn: "ap_ok"}, {Name: "MON01", Fn: "ap_mon"}})
	w.ShardSize = 100
	w.Stats.Rule = "a real GraphSync requestor (lacking the root) against a scripted peer: first answer = the root alone; the requestor pauses after that block (incoming-block hook 2/3, API Pause issued before the answer 1/3) and the driver waits until the request's state is Paused; then 1-3 responses for the request carry Present links with valid blocks the traversal did not ask for (blocks outside the DAG, DAG blocks the selector does not reach, blocks not reached yet); a barrier response tells when they were processed and the store's commits are read; then Unpause (3/4; the second request is answered with the honest stream, mutated in half of the cases, terminal status last) or cancel (1/4); " +
		"monitor: every commit is a block of the requested DAG under its own CID, at most the root is committed when the paused phase is over, delivered nodes are a subsequence of the full traversal; correspondence: the model with the pause (messages arriving while offline are dropped). distinct = distinct terms"
	run := func(path, kind string) error {
		var ac advPauseCase
		if err := drv.ReplayCase(path, &ac); err != nil {
			return err
		}
		return runAdvPauseCase(w, ac, kind)
	}
	if c.Replay != "" {
		if err := run(c.Replay, "replay"); err != nil {
			return err
		}
		return w.Flush()
	}
	n := c.Count(120, 2500)
	for i := 0; i < n; i++ {
		if err := runAdvPauseCase(w, advPauseCase{Seed: c.R.U64()}, "random"); err != nil {
			return err
		}
	}
	return w.Flush()
}

func runConcFam(c *drv.Ctx) error {
	w := cw.New(c.Out, famHeader, "fcase", []cw.Check{{Name: "MISMATCH", Fn: "fcase_ok"}, {Name: "MON20F", Fn: "fcase_mon"}})
	w.ShardSize = 100
	w.Stats.Rule = "one real requestor (empty store) and one real responder over the mocknet, two disjoint generated DAGs; three families, each with a victim request that shares nothing excusable with the others: (ignore) an earlier request with a dedup key and a do-not-send-cids list naming blocks of the victim's DAG has finished, then the victim runs in the default scope; (bucket) two requests share a dedup key, the first finishes on the responder while the victim has registered the key but is held before its first load, a default-scope request over an overlapping DAG is served up to its last link and has stored nothing, then the victim runs; (cancel) another request over the other DAG is cancelled by the caller while the block-carrying rest of its response is queued in its loader, then the victim, whose responder lacks a block, runs; (batch) two requests over the two DAGs answered by a scripted peer (real network layer and wire codec) every block-carrying chunk of one response travelling in one message with a metadata-less partial response of the other, final statuses apart: both are victims. " +
		"monitor: the victim's delivered nodes and errors equal those of the same request alone, every block of its reference store is in the store, every stored block hashes to its key; correspondence: the model of the victim alone. distinct = distinct terms"
	run := func(path, kind string) error {
		var fc famCase
		if err := drv.ReplayCase(path, &fc); err != nil {
			return err
		}
		return runFamCase(w, fc, kind)
	}
	if c.Replay != "" {
		if err := run(c.Replay, "replay"); err != nil {
			return err
		}
		return w.Flush()
	}
	n := c.Count(150, 3000)
	for i := 0; i < n; i++ {
		if err := runFamCase(w, famCase{Seed: c.R.U64(), Family: []string{"ignore", "bucket", "cancel", "batch", "rcancel"}[i%5]}, "random"); err != nil {
			return err
		}
	}
	return w.Flush()
}

func runTraffic(c *drv.Ctx) error {
	w := cw.New(c.Out, trafficHeader, "tcase", []cw.Check{{Name: "MISMATCH", Fn: "tcase_ok"}, {Name: "MON24", Fn: "tcase_mon"}})
	w.ShardSize = 120
	w.Stats.Rule = "two real GraphSync instances over the mocknet; generated DAG and selector; the requestor's store holds everything (2/5 of the cases) or 3/4 of the blocks; caller-supplied do-not-send-first-blocks (1/3) and do-not-send-cids (1/3); the responder's request hook and cancel listener record what arrives from the wire before a marker request sent after completion (one FIFO queue per peer); " +
		"monitor: nothing arrives when the local traversal resolves every link, else one request whose do-not-send-first-blocks is max(caller value, blocks loaded locally before the first miss) (absent when 0) and whose do-not-send-cids is the caller's; correspondence: the model's XSend log. non-trivial = a request was sent after at least one local load; distinct = distinct terms"
	run := func(path, kind string) error {
		var tc trafficCase
		if err := drv.ReplayCase(path, &tc); err != nil {
			return err
		}
		return runTrafficCase(w, tc, kind)
	}
	if c.Replay != "" {
		if err := run(c.Replay, "replay"); err != nil {
			return err
		}
		return w.Flush()
	}
	for _, f := range c.CorpusFiles("traffic") {
		if err := run(f, "corpus"); err != nil {
			return fmt.Errorf("%s: %w", f, err)
		}
	}
	n := c.Count(220, 4000)
	for i := 0; i < n; i++ {
		if err := runTrafficCase(w, trafficCase{Seed: c.R.U64()}, "random"); err != nil {
			return err
		}
	}
	return w.Flush()
}

func main() {
	name := "loader"
	if len(os.Args) > 1 {
		name = os.Args[1]
	}
	switch name {
	case "adversary":
		drv.Main("adversary", runAdversary)
	case "traffic":
		drv.Main("traffic", runTraffic)
	case "pause":
		drv.Main("pause", runPause)
	case "rpause":
		drv.Main("rpause", runRPause)
	case "concurrent":
		drv.Main("concurrent", runConcurrent)
	case "advpause":
		drv.Main("advpause", runAdvPause)
	case "concfam":
		drv.Main("concfam", runConcFam)
	default:
		drv.Main("loader", runLoader)
	}
}
