package main

// C02/C01, loader level: one real ReconciledLoader driven by a script of calls (SetRemoteOnline,
// IngestResponse, BlockReadOpener, RetryLastLoad), as reconciledloader_test.go does, with the metadata
// and blocks of an honest or mutated responder cut into arbitrary chunks and delivered before, between
// and during loads.  Every completed load (result, store contents afterwards) is compared with the model.

import (
	"fmt"
	"sort"
	"strings"
	"time"

	"github.com/ipfs/go-cid"
	"github.com/ipld/go-ipld-prime/datamodel"
	"github.com/ipld/go-ipld-prime/linking"
	cidlink "github.com/ipld/go-ipld-prime/linking/cid"
	mh "github.com/multiformats/go-multihash"
	"go.opentelemetry.io/otel/trace"

	"github.com/ipfs/go-graphsync"
	"github.com/ipfs/go-graphsync/message"
	"github.com/ipfs/go-graphsync/requestmanager/reconciledloader"
	"github.com/ipfs/go-graphsync/requestmanager/types"

	"verif/harness/internal/cw"
	"verif/harness/internal/dag"
	"verif/harness/internal/e2e"
	"verif/harness/internal/rng"
)

type opJ struct {
	Op   string   `json:"op"` // online | ingest | load | retry
	B    bool     `json:"b,omitempty"`
	MD   [][2]int `json:"md,omitempty"`   // (cid index, action 0 present 1 dup-not-sent 2 missing 3 dup-dag-skipped)
	Blks []int    `json:"blks,omitempty"` // keys of the block map (a block is named by the CID of its bytes)
	Path []string `json:"path,omitempty"`
	Cid  int      `json:"cid,omitempty"`
}

type scriptCase struct {
	Kind  string   `json:"kind"` // "script"
	Seed  uint64   `json:"seed"`
	Mode  string   `json:"mode,omitempty"` // walk | mutated | random | (explicit ops)
	Shape string   `json:"shape,omitempty"`
	Local []int    `json:"local"`
	Ops   []opJ    `json:"ops,omitempty"`
	Desc  string   `json:"desc,omitempty"`
	Tags  []string `json:"tags,omitempty"`
}

// universe of blocks of a script: the DAG's blocks (index i) and forged blocks (index 1000+j)
type universe struct {
	d      *dag.DAG
	forged map[int][]byte
	byCid  map[string]int
}

func newUniverse(d *dag.DAG) *universe {
	u := &universe{d: d, forged: map[int][]byte{}, byCid: map[string]int{}}
	for i, b := range d.Blocks {
		u.byCid[b.Cid.String()] = i
	}
	return u
}

func (u *universe) block(i int) (cid.Cid, []byte) {
	if i >= 3000 && i < 4000 && i-3000 < len(u.d.Blocks) {
		// a block whose BYTES are the multihash digest of DAG block i-3000, sent under an identity multihash: its own
		// digest then equals that link's digest although the hash functions differ
		dec, err := mh.Decode(u.d.Blocks[i-3000].Cid.Hash())
		if err == nil && dec.Code == mh.IDENTITY {
			// the DAG block is itself under an identity multihash: its digest IS the block, the construction below would
			// rebuild the genuine block; send an unrelated forged block instead
			data := []byte(fmt.Sprintf("not the digest of block %d", i-3000))
			h, _ := mh.Sum(data, mh.SHA2_256, -1)
			c := cid.NewCidV1(cid.Raw, h)
			u.byCid[c.String()] = i
			return c, data
		}
		if err == nil {
			data := append([]byte(nil), dec.Digest...)
			h, _ := mh.Sum(data, mh.IDENTITY, -1)
			c := cid.NewCidV1(cid.Raw, h)
			u.byCid[c.String()] = i
			return c, data
		}
	}
	if i < 1000 {
		if i < len(u.d.Blocks) {
			return u.d.Blocks[i].Cid, u.d.Blocks[i].Data
		}
		// an index outside the DAG: a synthetic block
	}
	data, ok := u.forged[i]
	if !ok {
		data = []byte(fmt.Sprintf("forged-block-%d", i))
		u.forged[i] = data
	}
	h, _ := mh.Sum(data, mh.SHA2_256, -1)
	c := cid.NewCidV1(cid.Raw, h)
	u.byCid[c.String()] = i
	return c, data
}

func (u *universe) index(c cid.Cid) int {
	if i, ok := u.byCid[c.String()]; ok {
		return i
	}
	return 999999
}

var actions = []graphsync.LinkAction{graphsync.LinkActionPresent, graphsync.LinkActionDuplicateNotSent, graphsync.LinkActionMissing, graphsync.LinkActionDuplicateDAGSkipped}
var actionCoq = []string{"Present", "DupNotSent", "Missing", "DupDagSkipped"}

type loadRes struct {
	res types.AsyncLoadResult
}

// scriptRunner applies ops to a real loader; loads run in their own goroutine (they may block)
type scriptRunner struct {
	u    *universe
	tb   *tables
	st   *e2e.Store
	rl   *reconciledloader.ReconciledLoader
	pend chan types.AsyncLoadResult
	obs  []string
	ops  []opJ
	last types.AsyncLoadResult
	hung bool
	// a panic in the code under test (recovered here so that the case is reported and the driver goes on)
	panicked string
}

func newRunner(u *universe, tb *tables, local []int) *scriptRunner {
	st := e2e.NewStore()
	for _, i := range local {
		c, data := u.block(i)
		st.Put(cidlink.Link{Cid: c}, data)
	}
	lsys := st.LinkSystem()
	return &scriptRunner{u: u, tb: tb, st: st, rl: reconciledloader.NewReconciledLoader(graphsync.NewRequestID(), &lsys)}
}

func (s *scriptRunner) keys() []uint64 {
	var ks []uint64
	seen := map[uint64]bool{}
	for _, k := range s.st.Keys() {
		c, err := cid.Decode(k)
		i := 999998
		if err == nil {
			i = s.u.index(c)
		}
		if !seen[uint64(i)] {
			seen[uint64(i)] = true
			ks = append(ks, uint64(i))
		}
	}
	sort.Slice(ks, func(i, j int) bool { return ks[i] < ks[j] })
	return ks
}

func (s *scriptRunner) resultTerm(r types.AsyncLoadResult) string {
	if r.Err == nil {
		h, _ := mh.Sum(r.Data, mh.SHA2_256, -1)
		i := -1
		for _, codec := range []uint64{cid.Raw, cid.DagCBOR} {
			if j, ok := s.u.byCid[cid.NewCidV1(codec, h).String()]; ok {
				i = j
			}
		}
		if i < 0 {
			// identity-hash blocks
			hi, _ := mh.Sum(r.Data, mh.IDENTITY, -1)
			for _, codec := range []uint64{cid.Raw, cid.DagCBOR} {
				if j, ok := s.u.byCid[cid.NewCidV1(codec, hi).String()]; ok {
					i = j
				}
			}
		}
		if i < 0 {
			i = 999997
		}
		return fmt.Sprintf("RData %d %s", i, cw.Bool(r.Local))
	}
	var e string
	switch v := r.Err.(type) {
	case graphsync.RemoteMissingBlockErr:
		px, _ := s.tb.path(v.Path)
		e = fmt.Sprintf("(EMissing %s %d)", cw.NList(px), s.u.index(v.Link.(cidlink.Link).Cid))
	case graphsync.RemoteIncorrectResponseError:
		px, _ := s.tb.path(v.Path)
		e = fmt.Sprintf("(EIncorrect %d %d %s)", s.u.index(v.LocalLink.(cidlink.Link).Cid), s.u.index(v.RemoteLink.(cidlink.Link).Cid), cw.NList(px))
	default:
		switch {
		case strings.Contains(r.Err.Error(), "nothing left to verify"):
			e = "(EVerify 1)"
		case strings.Contains(r.Err.Error(), "additional data"):
			e = "(EVerify 2)"
		case strings.Contains(r.Err.Error(), "cannot retry"):
			e = "(EVerify 3)"
		default:
			e = "(EVerify 77)"
		}
	}
	return fmt.Sprintf("RErr %s %s", e, cw.Bool(r.Local))
}

// await the pending load; maxWait 0 = until it completes (20 s deadline = hang)
func (s *scriptRunner) await(maxWait time.Duration) bool {
	if s.pend == nil {
		return true
	}
	d := maxWait
	if d == 0 {
		d = 20 * time.Second
	}
	select {
	case r := <-s.pend:
		s.pend = nil
		if pe, ok := r.Err.(panicErr); ok {
			s.panicked = pe.msg
			s.hung = true // stop the script: nothing more is issued
			return true
		}
		s.last = r
		s.obs = append(s.obs, fmt.Sprintf("(%s, %s)", s.resultTerm(r), cw.NList(s.keys())))
		return true
	case <-time.After(d):
		if maxWait == 0 {
			s.hung = true
		}
		return false
	}
}

type panicErr struct{ msg string }

func (e panicErr) Error() string { return e.msg }

func (s *scriptRunner) recoverLoad(ch chan types.AsyncLoadResult, where string) {
	if r := recover(); r != nil {
		ch <- types.AsyncLoadResult{Err: panicErr{fmt.Sprintf("panic in %s: %v", where, r)}}
	}
}

func (s *scriptRunner) apply(op opJ) {
	if s.panicked != "" {
		return
	}
	defer func() {
		if r := recover(); r != nil {
			s.panicked = fmt.Sprintf("panic in ReconciledLoader (%s): %v", op.Op, r)
			s.ops = append(s.ops, op)
		}
	}()
	switch op.Op {
	case "online":
		if op.B {
			s.await(0)
		}
		s.rl.SetRemoteOnline(op.B)
	case "ingest":
		var md []message.GraphSyncLinkMetadatum
		for _, e := range op.MD {
			c, _ := s.u.block(e[0])
			md = append(md, message.GraphSyncLinkMetadatum{Link: c, Action: actions[e[1]]})
		}
		blks := map[cid.Cid][]byte{}
		for _, b := range op.Blks {
			c, data := s.u.block(b)
			blks[c] = data
		}
		s.rl.IngestResponse(message.NewLinkMetadata(md), trace.Link{}, blks)
	case "load":
		s.await(0)
		if s.hung {
			return
		}
		c, _ := s.u.block(op.Cid)
		lctx := linking.LinkContext{LinkPath: datamodel.ParsePath(strings.Join(op.Path, "/"))}
		ch := make(chan types.AsyncLoadResult, 1)
		s.pend = ch
		go func() {
			defer s.recoverLoad(ch, "ReconciledLoader.BlockReadOpener")
			ch <- s.rl.BlockReadOpener(lctx, cidlink.Link{Cid: c})
		}()
	case "retry":
		s.await(0)
		if s.hung {
			return
		}
		ch := make(chan types.AsyncLoadResult, 1)
		s.pend = ch
		go func() {
			defer s.recoverLoad(ch, "ReconciledLoader.RetryLastLoad")
			ch <- s.rl.RetryLastLoad()
		}()
	}
	s.ops = append(s.ops, op)
}

func (s *scriptRunner) finish() {
	if s.pend != nil && !s.await(2*time.Millisecond) {
		// still blocked at the end of the script: release it (the model does the same)
		s.rl.SetRemoteOnline(false)
		s.await(0)
	}
}

func (s *scriptRunner) opTerm(op opJ) string {
	switch op.Op {
	case "online":
		return "LOnline " + cw.Bool(op.B)
	case "ingest":
		var md []string
		for _, e := range op.MD {
			md = append(md, fmt.Sprintf("(%d, %s)", e[0], actionCoq[e[1]]))
		}
		return fmt.Sprintf("LIngest %s %s", cw.List(md), idxList(op.Blks))
	case "load":
		var px []uint64
		for _, sg := range op.Path {
			px = append(px, s.tb.seg(sg))
		}
		return fmt.Sprintf("LLoad %s %d", cw.NList(px), op.Cid)
	}
	return "LRetry"
}

// ---- the responder's stream for a plan, computed on the Go side only to feed the loader ----

type sitem struct {
	cid, act int
	blk      int // -1 none
}

func honestStream(pl *plan, inR func(int) bool, skip int) []sitem {
	var out []sitem
	seen := map[int]bool{}
	var walk func(p *plan)
	walk = func(p *plan) {
		n := len(out) + 1
		if !inR(p.cid) {
			out = append(out, sitem{p.cid, 2, -1})
			return
		}
		b := -1
		if n > skip && !seen[p.cid] {
			b = p.cid
		}
		seen[p.cid] = true
		out = append(out, sitem{p.cid, 0, b})
		for _, it := range p.body {
			if it.child != nil {
				walk(it.child)
			}
		}
	}
	walk(pl)
	return out
}

func mutateStream(r *rng.R, s []sitem, n int) ([]sitem, []string) {
	var tags []string
	k := r.Range(1, 3)
	for ; k > 0; k-- {
		if len(s) == 0 {
			break
		}
		i := r.Intn(len(s))
		if r.P(1, 7) && s[i].act == 0 && s[i].cid < 1000 {
			// identity-multihash blocks whose payload is the link's digest (see case 5)
			s[i].blk = 3000 + s[i].cid
			if r.P(1, 2) {
				s[i].cid = s[i].blk
				tags = append(tags, "mut:identity-digest-link")
			} else {
				tags = append(tags, "mut:identity-digest-block")
			}
			continue
		}
		switch r.Intn(9) {
		case 0: // drop
			s = append(append([]sitem{}, s[:i]...), s[i+1:]...)
			tags = append(tags, "mut:drop")
		case 1: // duplicate
			s = append(append(append([]sitem{}, s[:i+1]...), s[i]), s[i+1:]...)
			tags = append(tags, "mut:dup")
		case 2: // swap
			j := r.Intn(len(s))
			s[i], s[j] = s[j], s[i]
			tags = append(tags, "mut:swap")
		case 3: // flip action
			s[i].act = r.Intn(4)
			if s[i].act != 0 {
				s[i].blk = -1
			}
			tags = append(tags, "mut:action")
		case 4: // block of another link under this entry's name is impossible (keys are hashes): attach a block for a different link
			s[i].blk = r.Intn(n)
			tags = append(tags, "mut:wrongblock")
		case 5: // forged bytes: keyed by their own hash
			if r.P(1, 2) && s[i].act == 0 && s[i].cid < 1000 {
				// the genuine block is withheld; instead a block under an identity multihash whose payload is the link's digest
				s[i].blk = 3000 + s[i].cid
				if r.P(1, 2) {
					// ... and the metadata entry names that identity CID too: a well-formed message about another link
					s[i].cid = s[i].blk
					tags = append(tags, "mut:identity-digest-link")
				} else {
					tags = append(tags, "mut:identity-digest-block")
				}
			} else {
				s[i].blk = 1000 + r.Intn(3)
				tags = append(tags, "mut:forged")
			}
		case 6: // wrong link
			s[i].cid = r.Intn(n)
			tags = append(tags, "mut:wronglink")
		case 7: // extra entry
			e := sitem{r.Intn(n), r.Intn(4), -1}
			if e.act == 0 && r.Bool() {
				e.blk = e.cid
			}
			s = append(append(append([]sitem{}, s[:i]...), e), s[i:]...)
			tags = append(tags, "mut:extra")
		default: // withhold a block
			s[i].blk = -1
			tags = append(tags, "mut:noblock")
		}
	}
	return s, tags
}

func chunkOp(items []sitem) opJ {
	op := opJ{Op: "ingest"}
	seen := map[int]bool{}
	for _, it := range items {
		op.MD = append(op.MD, [2]int{it.cid, it.act})
		if it.blk >= 0 && !seen[it.blk] {
			seen[it.blk] = true
			op.Blks = append(op.Blks, it.blk)
		}
	}
	return op
}

// walkScript drives the loader the way executor.traverse does, over a plan
func walkScript(r *rng.R, s *scriptRunner, pl *plan, inR func(int) bool, mutated bool) []string {
	var tags []string
	sent := false
	nblocks := 0
	var chunks [][]sitem
	terminalSent := false
	deliver := func() bool {
		if len(chunks) > 0 {
			s.apply(chunkOp(chunks[0]))
			chunks = chunks[1:]
			return true
		}
		if sent && !terminalSent {
			terminalSent = true
			s.apply(opJ{Op: "online", B: false})
			return true
		}
		return false
	}
	// result of the pending load, delivering more when it seems blocked
	result := func() (types.AsyncLoadResult, bool) {
		for !s.await(1500 * time.Microsecond) {
			if !deliver() {
				s.await(0)
				break
			}
		}
		return s.last, !s.hung
	}
	abort := false
	var walk func(p *plan)
	walk = func(p *plan) {
		if abort {
			return
		}
		for k := r.Intn(3); k > 0 && sent && r.P(1, 2); k-- {
			deliver()
		}
		s.apply(opJ{Op: "load", Path: p.segs, Cid: p.cid})
		res, ok := result()
		if !ok {
			abort = true
			return
		}
		if _, miss := res.Err.(graphsync.RemoteMissingBlockErr); miss && !sent {
			sent = true
			s.apply(opJ{Op: "online", B: true})
			st := honestStream(pl, inR, nblocks)
			if mutated {
				var mt []string
				st, mt = mutateStream(r, st, len(s.u.d.Blocks))
				tags = append(tags, mt...)
			}
			for len(st) > 0 {
				k := r.Range(1, 4)
				if r.P(1, 5) {
					k = len(st)
				}
				if k > len(st) {
					k = len(st)
				}
				chunks = append(chunks, st[:k])
				st = st[k:]
			}
			if r.P(1, 3) {
				for len(chunks) > 0 {
					deliver()
				}
				if r.P(1, 2) {
					deliver()
				}
			}
			s.apply(opJ{Op: "retry"})
			res, ok = result()
			if !ok {
				abort = true
				return
			}
		}
		if res.Err != nil {
			if _, miss := res.Err.(graphsync.RemoteMissingBlockErr); !miss && r.P(2, 3) {
				abort = true
			}
			return
		}
		nblocks++
		for _, it := range p.body {
			if it.child != nil {
				walk(it.child)
			}
		}
	}
	walk(pl)
	s.finish()
	return tags
}

func randomScript(r *rng.R, s *scriptRunner, n int) {
	segs := []string{"a", "b", "c"}
	steps := r.Range(3, 14)
	for i := 0; i < steps; i++ {
		switch x := r.Intn(10); {
		case x < 1:
			s.apply(opJ{Op: "online", B: true})
		case x < 2:
			s.apply(opJ{Op: "online", B: false})
			s.await(0)
		case x < 5:
			k := r.Range(1, 3)
			var its []sitem
			for ; k > 0; k-- {
				it := sitem{r.Intn(n), r.Intn(4), -1}
				if r.P(2, 3) {
					it.act = 0
				}
				if it.act == 0 && r.P(3, 4) {
					it.blk = it.cid
				}
				its = append(its, it)
			}
			s.apply(chunkOp(its))
		case x < 9:
			var p []string
			for k := r.Intn(3); k > 0; k-- {
				p = append(p, rng.Pick(r, segs))
			}
			s.apply(opJ{Op: "load", Path: p, Cid: r.Intn(n)})
			if !s.await(1500 * time.Microsecond) {
				if r.P(1, 2) {
					it := sitem{r.Intn(n), 0, -1}
					it.blk = it.cid
					s.apply(chunkOp([]sitem{it}))
				} else {
					s.apply(opJ{Op: "online", B: false})
				}
				if !s.await(1500 * time.Microsecond) {
					s.apply(opJ{Op: "online", B: false})
					s.await(0)
				}
			}
		default:
			s.apply(opJ{Op: "retry"})
			if !s.await(1500 * time.Microsecond) {
				s.apply(opJ{Op: "online", B: false})
				s.await(0)
			}
		}
		if s.hung {
			return
		}
	}
	s.finish()
}

func runScriptCase(w *cw.Writer, sc scriptCase, kind string) error {
	r := rng.New(sc.Seed)
	shape := sc.Shape
	if shape == "" && len(sc.Ops) == 0 && r.P(1, 5) {
		shape = "prefix" // sibling segments that are string prefixes of each other
	}
	d, sel, desc := genWorld(r, shape)
	sc.Shape = shape
	tb := newTables()
	u := newUniverse(d)
	n := len(d.Blocks)
	tags := []string{"kind:" + kind, "script"}
	var s *scriptRunner
	if len(sc.Ops) > 0 {
		// explicit script (corpus / replay): the recorded calls are applied as they are
		s = newRunner(u, tb, sc.Local)
		for _, op := range sc.Ops {
			s.apply(op)
			if s.hung {
				break
			}
		}
		s.finish()
		tags = append(tags, "mode:explicit")
	} else {
		mode := sc.Mode
		if mode == "" {
			mode = []string{"walk", "walk", "mutated", "mutated", "random"}[r.Intn(5)]
		}
		var L []int
		inRm := map[int]bool{}
		pL, pR := r.Range(0, 5), r.Range(2, 6)
		for i := 0; i < n; i++ {
			if r.Intn(6) < pL {
				L = append(L, i)
			}
			if r.Intn(6) < pR {
				inRm[i] = true
			}
		}
		sc.Local = L
		s = newRunner(u, tb, L)
		switch mode {
		case "random":
			randomScript(r, s, n)
		default:
			pl, err := harvest(d, sel, tb)
			if err != nil {
				return fmt.Errorf("harvest: %w", err)
			}
			tags = append(tags, walkScript(r, s, pl, func(i int) bool { return inRm[i] }, mode == "mutated")...)
		}
		tags = append(tags, "mode:"+mode)
		sc.Mode = mode
		sc.Desc = desc
	}
	if sc.Local == nil {
		sc.Local = []int{}
	}
	var ops []string
	for _, op := range s.ops {
		ops = append(ops, s.opTerm(op))
	}
	sc.Kind = "script"
	sc.Ops = s.ops
	sc.Tags = tags
	term := fmt.Sprintf("DL (Build_lcase %s\n    %s\n    %s)", idxList(sc.Local), cw.List(ops), cw.List(s.obs))
	idx := w.Add(term, sc, len(s.obs) >= 3, tags...)
	if s.panicked != "" {
		w.Violation(idx, s.panicked, "loader-panic")
	} else if s.hung {
		w.Violation(idx, "a load did not return within 20s although the loader was set offline", "loader-hang")
	}
	return nil
}
