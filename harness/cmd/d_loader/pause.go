package main

// C06, requestor side: the real pair over the mocknet; the requestor pauses its own request from the
// incoming-block hook at block index k (executor.processResult -> ErrPaused: cancel sent, loader offline,
// request parked) and is resumed with Unpause either after the in-flight messages of the cancelled response
// have been drained (a marker request's response travels behind them through the same FIFO queue) or at once.

import (
	"context"
	"fmt"
	"os"
	"runtime"
	"sync"
	"time"

	"github.com/ipld/go-ipld-prime/datamodel"
	"github.com/libp2p/go-libp2p/core/peer"

	"github.com/ipfs/go-graphsync"
	gsimpl "github.com/ipfs/go-graphsync/impl"

	"verif/harness/internal/cw"
	"verif/harness/internal/dag"
	"verif/harness/internal/e2e"
	"verif/harness/internal/rng"
)

type pauseCase struct {
	Kind  string   `json:"kind"` // "pause"
	Seed  uint64   `json:"seed"`
	Block int      `json:"block"` // -1 = drawn from the seed; 0 = no pause
	Safe  *bool    `json:"safe,omitempty"`
	L     []int    `json:"l,omitempty"`
	R     []int    `json:"r,omitempty"`
	Desc  string   `json:"desc,omitempty"`
	Tags  []string `json:"tags,omitempty"`
}

const pauseHeader = `From Coq Require Import List NArith Bool.
From GS Require Import Base Ltree RecLoader ReqExec PauseExec C06Guard ResponderPauseCheck.
Import ListNotations.
Open Scope N_scope.
`

// okLoads: number of links the reference resolves (blocks the traversal will load)
func okLoads(root *plan, inL, inR func(int) bool) int {
	n := 0
	store := map[int]bool{}
	var walk func(p *plan, here bool)
	walk = func(p *plan, here bool) {
		rem := here && inR(p.cid)
		if !(store[p.cid] || inL(p.cid)) && !rem {
			return
		}
		if rem {
			store[p.cid] = true
		}
		n++
		for _, it := range p.body {
			if it.child != nil {
				walk(it.child, rem)
			}
		}
	}
	walk(root, true)
	return n
}

func runPausedPair(d *dag.DAG, sel datamodel.Node, tb *tables, inL, inR func(int) bool, block int, safe bool) (observed, bool, error) {
	world, err := e2e.NewWorld(2)
	if err != nil {
		return observed{}, false, err
	}
	defer world.Close()
	for i, b := range d.Blocks {
		if inL(i) {
			world.Nodes[0].Store.Put(dagLink(b), b.Data)
		}
		if inR(i) {
			world.Nodes[1].Store.Put(dagLink(b), b.Data)
		}
	}
	marker := dag.Chain(1)
	if d.Index(marker.Blocks[0].Cid) >= 0 {
		marker = dag.Chain(2)
	}
	for _, b := range marker.Blocks {
		world.Nodes[1].Store.Put(dagLink(b), b.Data)
	}
	req := world.Start(0)
	resp := world.Start(1)
	resp.RegisterIncomingRequestHook(func(p peer.ID, r graphsync.RequestData, ha graphsync.IncomingRequestHookActions) {
		ha.ValidateRequest()
	})
	var mu sync.Mutex
	paused := make(chan graphsync.RequestID, 1)
	fired := false
	rootCid := d.Blocks[0].Cid
	var mainID graphsync.RequestID
	haveID := false
	req.RegisterOutgoingRequestHook(func(p peer.ID, r graphsync.RequestData, ha graphsync.OutgoingRequestHookActions) {
		mu.Lock()
		if r.Root().Equals(rootCid) && !haveID {
			mainID, haveID = r.ID(), true
		}
		mu.Unlock()
	})
	req.RegisterIncomingBlockHook(func(p peer.ID, r graphsync.ResponseData, b graphsync.BlockData, ha graphsync.IncomingBlockHookActions) {
		mu.Lock()
		defer mu.Unlock()
		if block > 0 && !fired && haveID && r.RequestID() == mainID && b.Index() == int64(block) {
			fired = true
			ha.PauseRequest()
			paused <- r.RequestID()
		}
	})
	ctx, cancel := context.WithTimeout(world.Ctx, 30*time.Second)
	defer cancel()
	progress, errs := req.Request(ctx, world.Nodes[1].ID(), d.Root(), sel)
	type colres struct{ o observed }
	donec := make(chan colres, 1)
	go func() {
		o, _ := collect(ctx, d, tb, progress, errs)
		donec <- colres{o}
	}()
	didPause := false
	var res colres
	select {
	case res = <-donec:
	case id := <-paused:
		didPause = true
		if safe {
			// the responder must first have retired the cancelled response: its executor has returned, so every message of
			// that response is already in the peer's queue (otherwise a block transaction that was still running when the
			// cancel arrived could be queued BEHIND the marker's response — seen once in 7000 cases on a loaded machine)
			rgs := resp.(*gsimpl.GraphSync)
			for dl := time.Now().Add(10 * time.Second); time.Now().Before(dl); {
				if _, ok := rgs.PeerState(world.Nodes[0].ID()).IncomingState.RequestStates[id]; !ok {
					break
				}
				time.Sleep(200 * time.Microsecond)
			}
			// barrier: the marker's response is queued behind whatever the cancelled response still had in flight
			p2, e2 := req.Request(ctx, world.Nodes[1].ID(), marker.Root(), dag.AllSelector())
			collect(ctx, marker, newTables(), p2, e2)
		}
		// the request is parked a moment after the hook returned: wait for that condition
		deadline := time.Now().Add(15 * time.Second)
		tries := 0
		for {
			err := req.Unpause(ctx, id)
			tries++
			if err == nil || time.Now().After(deadline) {
				if os.Getenv("DLOADER_DEBUG") != "" {
					fmt.Fprintf(os.Stderr, "unpause: tries=%d err=%v safe=%v block=%d\n", tries, err, safe, block)
				}
				break
			}
			select {
			case <-time.After(200 * time.Microsecond):
			case <-ctx.Done():
			}
		}
		if os.Getenv("DLOADER_DEBUG") != "" {
			select {
			case res = <-donec:
			case <-time.After(8 * time.Second):
				buf := make([]byte, 1<<21)
				n := runtime.Stack(buf, true)
				ps := req.(*gsimpl.GraphSync).PeerState(world.Nodes[1].ID())
				fmt.Fprintf(os.Stderr, "HANG after pause (8s) safe=%v block=%d outgoing=%v pending=%v active=%v\n%s\nENDHANG\n", safe, block, ps.OutgoingState.RequestStates, ps.OutgoingState.Pending, ps.OutgoingState.Active, buf[:n])
				res = <-donec
			}
		} else {
			res = <-donec
		}
	}
	o := res.o
	o.store = storeKeys(d, world.Nodes[0].Store)
	// the marker's own blocks are not part of the request under test
	for _, b := range marker.Blocks {
		if world.Nodes[0].Store.Has(dagLink(b)) && len(o.store) > 0 && o.store[len(o.store)-1] >= 2000000 {
			o.store = o.store[:len(o.store)-1]
		}
	}
	return o, didPause, nil
}

func runPauseCase(w *cw.Writer, pc pauseCase, kind string) error {
	r := rng.New(pc.Seed)
	d, sel, desc := genWorld(r, "")
	tb := newTables()
	pl, err := harvest(d, sel, tb)
	if err != nil {
		return fmt.Errorf("harvest: %w", err)
	}
	n := len(d.Blocks)
	L, R := pc.L, pc.R
	if L == nil && R == nil {
		// the responder holds the root; the requestor's blocks are among the responder's (outside C02-F1/F2)
		pR, pL := r.Range(3, 6), r.Range(0, 4)
		leafLocal := r.P(2, 3) // also: leaves the requestor holds and the responder lacks (no subtree below them: outside C02-F1)
		for i := 0; i < n; i++ {
			if i == 0 || r.Intn(6) < pR {
				R = append(R, i)
				if r.Intn(6) < pL {
					L = append(L, i)
				}
			} else if leafLocal && len(d.Blocks[i].Kids) == 0 && r.P(3, 4) {
				L = append(L, i)
			}
		}
	}
	in := func(xs []int) func(int) bool {
		m := map[int]bool{}
		for _, x := range xs {
			m[x] = true
		}
		return func(i int) bool { return m[i] }
	}
	inL, inR := in(L), in(R)
	loads := okLoads(pl, inL, inR)
	block := pc.Block
	if block < 0 {
		block = 0
		if loads > 0 && !r.P(1, 8) {
			block = r.Range(1, loads)
		}
	}
	safe := r.P(3, 4)
	if pc.Safe != nil {
		safe = *pc.Safe
	}
	o, didPause, err := runPausedPair(d, sel, tb, inL, inR, block, safe)
	if err != nil {
		return err
	}
	if o.hang {
		o, didPause, err = runPausedPair(d, sel, tb, inL, inR, block, safe)
		if err != nil {
			return err
		}
	}
	ri := analyse(pl, inL, inR)
	tags := []string{"kind:" + kind, "pause"}
	switch {
	case block == 0 || !didPause:
		tags = append(tags, "no_pause")
		block = 0
	case !ri.wentOnline || block <= ri.offlineLoads:
		tags = append(tags, "paused_before_send")
	default:
		tags = append(tags, "paused_after_send")
	}
	if block > 0 {
		if safe {
			tags = append(tags, "resume_after_drain")
		} else {
			tags = append(tags, "resume_immediate")
		}
	}
	if ri.remoteMissing > 0 {
		tags = append(tags, "remote_missing_links")
	}
	for _, i := range L {
		if !inR(i) {
			tags = append(tags, "leaf_held_only_by_requestor")
			break
		}
	}
	pc.Kind = "pause"
	pc.Block = block
	pc.Safe = &safe
	pc.L, pc.R = L, R
	if pc.L == nil {
		pc.L = []int{}
	}
	if pc.R == nil {
		pc.R = []int{}
	}
	pc.Desc = desc + fmt.Sprintf(" plan-links=%d loads=%d L=%v R=%v block=%d safe=%v", pl.nodes(), loads, L, R, block, safe)
	pc.Tags = tags
	term := fmt.Sprintf("Build_pcase %s %s %s %d %s %s", pl.coq(), idxList(L), idxList(R), block, cw.Bool(safe), outcomeTerm(o))
	idx := w.Add(term, pc, block > 0 && ri.wentOnline, tags...)
	if o.hang {
		w.Violation(idx, "paused and resumed request did not finish within 30s (twice)", "hang")
	}
	return nil
}
