package main

// Traversal plans harvested from the real go-ipld-prime engine (through ipldutil.Traverser): the loads of a
// traversal over the full universe nested by path prefix, with the node visits in between.

import (
	"bytes"
	"context"
	"crypto/sha256"
	"encoding/hex"
	"fmt"
	"strings"
	"sync"

	"github.com/ipld/go-ipld-prime"
	"github.com/ipld/go-ipld-prime/codec/dagcbor"
	"github.com/ipld/go-ipld-prime/datamodel"
	"github.com/ipld/go-ipld-prime/linking"
	cidlink "github.com/ipld/go-ipld-prime/linking/cid"
	"github.com/ipld/go-ipld-prime/node/basicnode"
	"github.com/ipld/go-ipld-prime/traversal"

	"github.com/ipfs/go-graphsync/ipldutil"

	"verif/harness/internal/cw"
	"verif/harness/internal/dag"
)

type pitem struct {
	visit uint64
	child *plan // nil = visit
}

type plan struct {
	path  []uint64
	segs  []string
	cid   int
	body  []pitem
	paren *plan
}

// tables shared by the harvest and the observation of one case
type tables struct {
	segs   map[string]uint64
	visits map[string]uint64
}

func newTables() *tables {
	return &tables{segs: map[string]uint64{}, visits: map[string]uint64{}}
}

func (t *tables) seg(s string) uint64 {
	if v, ok := t.segs[s]; ok {
		return v
	}
	v := uint64(len(t.segs))
	t.segs[s] = v
	return v
}

func (t *tables) path(p datamodel.Path) ([]uint64, []string) {
	var xs []uint64
	var ss []string
	for _, sg := range p.Segments() {
		xs = append(xs, t.seg(sg.String()))
		ss = append(ss, sg.String())
	}
	return xs, ss
}

func nodeKey(p datamodel.Path, n ipld.Node) string {
	var buf bytes.Buffer
	if err := dagcbor.Encode(n, &buf); err != nil {
		return p.String() + "|!" + err.Error()
	}
	h := sha256.Sum256(buf.Bytes())
	return p.String() + "|" + hex.EncodeToString(h[:8])
}

// visitID: known (path,node) pairs get small ids in order of first appearance in the harvest; a pair
// never seen in the full-universe traversal gets an id >= 1000000
func (t *tables) visitID(key string, create bool) uint64 {
	if v, ok := t.visits[key]; ok {
		return v
	}
	if !create {
		return 1000000 + uint64(len(key)%1000)
	}
	v := uint64(len(t.visits))
	t.visits[key] = v
	return v
}

func isProperPrefixU(a, b []uint64) bool {
	if len(b) <= len(a) {
		return false
	}
	for i := range a {
		if a[i] != b[i] {
			return false
		}
	}
	return true
}

func isPrefixU(a, b []uint64) bool {
	if len(b) < len(a) {
		return false
	}
	for i := range a {
		if a[i] != b[i] {
			return false
		}
	}
	return true
}

type tevent struct {
	load  bool
	path  datamodel.Path
	cid   int
	vkey  string
	found bool
}

// traverse steps the real traverser over the blocks marked present; returns the event log
func traverse(d *dag.DAG, sel datamodel.Node, present func(int) bool) ([]tevent, error) {
	return traverseFrom(d, 0, sel, present)
}

// traverseFrom: the same from the block with index root
func traverseFrom(d *dag.DAG, root int, sel datamodel.Node, present func(int) bool) ([]tevent, error) {
	ctx, cancel := context.WithCancel(context.Background())
	defer cancel()
	var mu sync.Mutex
	var evs []tevent
	t := ipldutil.TraversalBuilder{
		Root:     cidlink.Link{Cid: d.Blocks[root].Cid},
		Selector: sel,
		Chooser: func(l datamodel.Link, lc linking.LinkContext) (datamodel.NodePrototype, error) {
			return basicnode.Prototype.Any, nil
		},
		Visitor: func(p traversal.Progress, n ipld.Node, r traversal.VisitReason) error {
			mu.Lock()
			evs = append(evs, tevent{path: p.Path, vkey: nodeKey(p.Path, n)})
			mu.Unlock()
			return nil
		},
	}.Start(ctx)
	var rerr error
	for {
		done, err := t.IsComplete()
		if done {
			rerr = err
			break
		}
		lnk, lctx := t.CurrentRequest()
		idx := d.Index(lnk.(cidlink.Link).Cid)
		mu.Lock()
		ok := idx >= 0 && present(idx)
		evs = append(evs, tevent{load: true, path: lctx.LinkPath, cid: idx, found: ok})
		mu.Unlock()
		if ok {
			if err := t.Advance(bytes.NewReader(d.Blocks[idx].Data)); err != nil {
				rerr = err
			}
		} else {
			t.Error(traversal.SkipMe{})
		}
	}
	t.Shutdown(ctx)
	return evs, rerr
}

// harvest builds the plan of (d, sel) over the full universe
func harvest(d *dag.DAG, sel datamodel.Node, tb *tables) (*plan, error) {
	return harvestFrom(d, 0, sel, tb)
}

func harvestFrom(d *dag.DAG, rootIdx int, sel datamodel.Node, tb *tables) (*plan, error) {
	evs, err := traverseFrom(d, rootIdx, sel, func(int) bool { return true })
	if err != nil {
		return nil, err
	}
	var root, cur *plan
	for _, e := range evs {
		px, ps := tb.path(e.path)
		if e.load {
			n := &plan{path: px, segs: ps, cid: e.cid}
			if root == nil {
				root, cur = n, n
				continue
			}
			for cur.paren != nil && !isProperPrefixU(cur.path, px) {
				cur = cur.paren
			}
			n.paren = cur
			cur.body = append(cur.body, pitem{child: n})
			cur = n
		} else {
			if root == nil {
				return nil, fmt.Errorf("visit before the root load")
			}
			for cur.paren != nil && !isPrefixU(cur.path, px) {
				cur = cur.paren
			}
			cur.body = append(cur.body, pitem{visit: tb.visitID(e.vkey, true)})
		}
	}
	if root == nil {
		return nil, fmt.Errorf("empty traversal")
	}
	return root, nil
}

func (p *plan) coq() string {
	var b strings.Builder
	p.write(&b)
	return b.String()
}

func (p *plan) write(b *strings.Builder) {
	fmt.Fprintf(b, "(LNode %s %d ", cw.NList(p.path), p.cid)
	closers := 0
	for _, it := range p.body {
		if it.child == nil {
			fmt.Fprintf(b, "(IVisit %d ", it.visit)
		} else {
			b.WriteString("(IChild ")
			it.child.write(b)
			b.WriteString(" ")
		}
		closers++
	}
	b.WriteString("INil")
	b.WriteString(strings.Repeat(")", closers))
	b.WriteString(")")
}

func (p *plan) nodes() int {
	n := 1
	for _, it := range p.body {
		if it.child != nil {
			n += it.child.nodes()
		}
	}
	return n
}

// ---- Go-side reference run (used only to derive tags of a case from its input) ----

type refInfo struct {
	wentOnline    bool
	offlineLoads  int  // loads that succeeded before the first local miss (the skip count sent)
	regionEntries int  // metadata entries the responder produces for that part of the plan
	misaligned    bool // the responder's count of "first blocks" differs from the requestor's
	rootMissingR  bool
	remoteMissing int  // links the responder reports missing
	localFallback int  // links resolved locally while online
	deepAfterMiss bool // a link more than one segment deep follows a remote-missing link that is not its ancestor
}

func analyse(root *plan, inL, inR func(int) bool) refInfo {
	var ri refInfo
	ri.rootMissingR = !inR(root.cid)
	store := map[int]bool{}
	has := func(c int) bool { return store[c] || inL(c) }
	var lastMissing []uint64
	var walk func(p *plan, here bool)
	walk = func(p *plan, here bool) {
		rem := here && inR(p.cid)
		if here && !inR(p.cid) && ri.wentOnline {
			ri.remoteMissing++
			lastMissing = p.path
		}
		if lastMissing != nil && len(p.path) > len(lastMissing) && !isProperPrefixU(lastMissing, p.path) && ri.wentOnline {
			ri.deepAfterMiss = true
		}
		if !ri.wentOnline {
			if has(p.cid) {
				ri.offlineLoads++
				if here {
					ri.regionEntries++
				}
			} else {
				ri.wentOnline = true
				if here && !inR(p.cid) {
					ri.remoteMissing++
					lastMissing = p.path
				}
			}
		}
		if !has(p.cid) && !rem {
			return
		}
		if rem {
			store[p.cid] = true
		} else if ri.wentOnline {
			ri.localFallback++
		}
		for _, it := range p.body {
			if it.child != nil {
				walk(it.child, rem)
			}
		}
	}
	walk(root, true)
	if ri.wentOnline && ri.regionEntries != ri.offlineLoads {
		ri.misaligned = true
	}
	return ri
}
