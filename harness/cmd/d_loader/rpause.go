package main

// C06, responder side: a real GraphSync responder pauses a response from its outgoing-block hook at block k;
// the "requestor" is a raw network endpoint that records every message as it arrives and calls Unpause as soon
// as it has seen the RequestPaused status.  Messages that arrive after that status and before Unpause was
// called must carry no block; the whole output must be the output of the unpaused response.

import (
	"context"
	"fmt"
	"io"
	"sync"
	"time"

	"github.com/ipld/go-ipld-prime"
	"github.com/ipld/go-ipld-prime/linking"

	"github.com/ipfs/go-cid"
	"github.com/libp2p/go-libp2p/core/peer"

	"github.com/ipfs/go-graphsync"
	gsimpl "github.com/ipfs/go-graphsync/impl"
	gsmsg "github.com/ipfs/go-graphsync/message"

	"verif/harness/internal/cw"
	"verif/harness/internal/e2e"
	"verif/harness/internal/rng"
)

type rpauseCase struct {
	Kind  string   `json:"kind"` // "rpause"
	Seed  uint64   `json:"seed"`
	Block int      `json:"block"`          // -1 = drawn from the seed
	Mode  string   `json:"mode,omitempty"` // "hook" (pause from the outgoing-block hook) | "api" (PauseResponse while the executor is held before a load)
	Gate  int      `json:"gate,omitempty"` // api mode: number of links loaded before the executor is held
	Shape string   `json:"shape,omitempty"`
	Desc  string   `json:"desc,omitempty"`
	Tags  []string `json:"tags,omitempty"`
}

type wireRec struct {
	mu            sync.Mutex
	u             *universe
	id            graphsync.RequestID
	md            []string
	blocks        []uint64
	seenBlock     map[uint64]bool
	pausedSeen    bool
	unpauseCalled bool
	blockInPause  bool
	lastStatus    graphsync.ResponseStatusCode
	paused        chan struct{}
	done          chan struct{}
	closed        bool
}

func (w *wireRec) ReceiveMessage(ctx context.Context, sender peer.ID, m gsmsg.GraphSyncMessage) {
	w.mu.Lock()
	defer w.mu.Unlock()
	if w.pausedSeen && !w.unpauseCalled && len(m.Blocks()) > 0 {
		w.blockInPause = true
	}
	for _, b := range m.Blocks() {
		i := uint64(w.u.index(b.Cid()))
		if !w.seenBlock[i] {
			w.seenBlock[i] = true
			w.blocks = append(w.blocks, i)
		}
	}
	for _, r := range m.Responses() {
		if r.RequestID() != w.id {
			continue
		}
		r.Metadata().Iterate(func(c cid.Cid, a graphsync.LinkAction) {
			act := "Present"
			switch a {
			case graphsync.LinkActionMissing:
				act = "Missing"
			case graphsync.LinkActionDuplicateNotSent:
				act = "DupNotSent"
			case graphsync.LinkActionDuplicateDAGSkipped:
				act = "DupDagSkipped"
			}
			w.md = append(w.md, fmt.Sprintf("(%d, %s)", w.u.index(c), act))
		})
		w.lastStatus = r.Status()
		if r.Status() == graphsync.RequestPaused && !w.pausedSeen {
			w.pausedSeen = true
			select {
			case w.paused <- struct{}{}:
			default:
			}
		}
		if r.Status().IsTerminal() && !w.closed {
			w.closed = true
			close(w.done)
		}
	}
}
func (w *wireRec) ReceiveError(p peer.ID, err error) {}
func (w *wireRec) Connected(p peer.ID)               {}
func (w *wireRec) Disconnected(p peer.ID)            {}

func runRPauseCase(w *cw.Writer, rc rpauseCase, kind string) error {
	r := rng.New(rc.Seed)
	shape := rc.Shape
	if shape == "" && r.P(1, 6) {
		shape = "empty"
	}
	d, sel, desc := genWorld(r, shape)
	rc.Shape = shape
	tb := newTables()
	u := newUniverse(d)
	pl, err := harvest(d, sel, tb)
	if err != nil {
		return fmt.Errorf("harvest: %w", err)
	}
	n := len(d.Blocks)
	var R []int
	inRm := map[int]bool{}
	pR := r.Range(3, 6)
	for i := 0; i < n; i++ {
		if i == 0 || r.Intn(6) < pR {
			R = append(R, i)
			inRm[i] = true
		}
	}
	st := honestStream(pl, func(i int) bool { return inRm[i] }, 0)
	nblk := 0
	anyMissing := false
	for _, it := range st {
		if it.blk >= 0 && len(d.Blocks[it.blk].Data) > 0 {
			nblk++ // the outgoing-block hook runs for blocks with data only
		}
		if it.act == 2 {
			anyMissing = true
		}
	}
	mode := rc.Mode
	if mode == "" {
		mode = "hook"
		if r.P(1, 2) {
			mode = "api"
		}
	}
	block := rc.Block
	if block < 0 {
		block = 0
		if nblk > 0 && !r.P(1, 8) {
			block = r.Range(1, nblk)
		}
	}
	gate := rc.Gate
	nextKind := ""
	if mode == "api" {
		block = 0
		if rc.Gate == 0 {
			// hold the executor before the load of stream entry `gate` (0-based), preferring a link the responder lacks
			var missingIdx []int
			for i, it := range st {
				if it.act == 2 && i > 0 {
					missingIdx = append(missingIdx, i)
				}
			}
			switch {
			case len(missingIdx) > 0 && r.P(2, 3):
				gate = rng.Pick(r, missingIdx)
			case len(st) > 1:
				gate = r.Range(1, len(st)-1)
			default:
				mode = "hook"
			}
		}
		if mode == "api" && gate < len(st) {
			switch {
			case st[gate].act == 2:
				nextKind = "next_link_missing"
			case len(d.Blocks[st[gate].cid].Data) == 0:
				nextKind = "next_block_empty"
			default:
				nextKind = "next_link_present"
			}
		}
	}
	world, err := e2e.NewWorld(2)
	if err != nil {
		return err
	}
	defer world.Close()
	for _, i := range R {
		world.Nodes[1].Store.Put(dagLink(d.Blocks[i]), d.Blocks[i].Data)
	}
	respLsys := world.Nodes[1].Store.LinkSystem()
	baseRead := respLsys.StorageReadOpener
	atGate := make(chan struct{}, 1)
	release := make(chan struct{})
	var relOnce sync.Once
	doRelease := func() { relOnce.Do(func() { close(release) }) }
	defer doRelease()
	var gmu sync.Mutex
	nloads := 0
	respLsys.StorageReadOpener = func(lctx linking.LinkContext, l ipld.Link) (io.Reader, error) {
		if mode == "api" {
			gmu.Lock()
			k := nloads
			nloads++
			gmu.Unlock()
			if k == gate {
				select {
				case atGate <- struct{}{}:
				default:
				}
				<-release
			}
		}
		return baseRead(lctx, l)
	}
	resp := gsimpl.New(world.Ctx, world.Nodes[1].Net, respLsys)
	resp.RegisterIncomingRequestHook(func(p peer.ID, rd graphsync.RequestData, ha graphsync.IncomingRequestHookActions) {
		ha.ValidateRequest()
	})
	var hmu sync.Mutex
	sentBlocks := 0
	fired := false
	resp.RegisterOutgoingBlockHook(func(p peer.ID, rd graphsync.RequestData, b graphsync.BlockData, ha graphsync.OutgoingBlockHookActions) {
		hmu.Lock()
		defer hmu.Unlock()
		if b.BlockSizeOnWire() > 0 {
			sentBlocks++
			if block > 0 && !fired && sentBlocks == block {
				fired = true
				ha.PauseResponse()
			}
		}
	})
	id := graphsync.NewRequestID()
	rec := &wireRec{u: u, id: id, seenBlock: map[uint64]bool{}, paused: make(chan struct{}, 1), done: make(chan struct{})}
	world.Nodes[0].Net.SetDelegate(rec)
	ctx, cancel := context.WithTimeout(world.Ctx, 20*time.Second)
	defer cancel()
	reqMsg := gsmsg.NewMessage(map[graphsync.RequestID]gsmsg.GraphSyncRequest{id: gsmsg.NewRequest(id, d.Blocks[0].Cid, sel, graphsync.Priority(1))}, nil, nil)
	if err := world.Nodes[0].Net.SendMessage(ctx, world.Nodes[1].ID(), reqMsg); err != nil {
		return fmt.Errorf("send request: %w", err)
	}
	hang := false
	apiPaused := false
	if mode == "api" {
		select {
		case <-atGate:
			// the executor is held before its next load: pause through the API, then let it go on
			if err := resp.Pause(ctx, id); err == nil {
				apiPaused = true
			}
			doRelease()
		case <-rec.done:
		case <-ctx.Done():
			hang = true
		}
	}
	unpauseOK := true
	select {
	case <-rec.done:
	case <-rec.paused:
		rec.mu.Lock()
		rec.unpauseCalled = true
		rec.mu.Unlock()
		deadline := time.Now().Add(3 * time.Second)
		for {
			// the response is parked a moment after the status left: wait for that condition
			err := resp.Unpause(ctx, id)
			if err == nil {
				break
			}
			if time.Now().After(deadline) {
				unpauseOK = false
				break
			}
			select {
			case <-time.After(200 * time.Microsecond):
			case <-ctx.Done():
			}
		}
		select {
		case <-rec.done:
		case <-ctx.Done():
			hang = true
		}
	case <-ctx.Done():
		hang = true
	}
	rec.mu.Lock()
	defer rec.mu.Unlock()
	want := graphsync.RequestCompletedFull
	if anyMissing {
		want = graphsync.RequestCompletedPartial
	}
	tags := []string{"kind:" + kind, "rpause", "mode:" + mode}
	if nextKind != "" {
		tags = append(tags, nextKind)
	}
	if mode == "api" && apiPaused {
		block = gate + 1000 // recorded as a pause (index irrelevant to the monitor's last clause below)
	}
	if block == 0 {
		tags = append(tags, "no_pause")
	} else if rec.pausedSeen {
		tags = append(tags, "paused")
	} else {
		tags = append(tags, "pause_not_reached")
	}
	rc.Kind = "rpause"
	rc.Mode = mode
	rc.Gate = gate
	rc.Block = block
	rc.Desc = desc + fmt.Sprintf(" plan-links=%d R=%v block=%d", pl.nodes(), R, block)
	rc.Tags = tags
	blockForMonitor := block
	if mode == "api" {
		// an API pause may find the response already finished: then there is nothing to see
		blockForMonitor = 0
		if apiPaused && !rec.pausedSeen {
			blockForMonitor = 1
		}
	}
	term := fmt.Sprintf("Build_rpcase %s %s %d %s %s %s %s %s %s", pl.coq(), idxList(R), blockForMonitor, cw.List(rec.md), cw.NList(rec.blocks),
		cw.Bool(rec.pausedSeen), cw.Bool(rec.blockInPause), cw.Bool(unpauseOK), cw.Bool(rec.lastStatus == want))
	idx := w.Add(term, rc, rec.pausedSeen, tags...)
	if hang {
		w.Violation(idx, "paused and unpaused response did not finish within 20s", "responder-hang")
	}
	return nil
}
