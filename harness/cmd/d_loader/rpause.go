package main

// C06, responder side: a real GraphSync responder pauses a response from its outgoing-block hook at block k;
// the "requestor" is a raw network endpoint that records every message as it arrives and calls Unpause as soon
// as it has seen the RequestPaused status.  Messages that arrive after that status and before Unpause was
// called must carry no block; the whole output must be the output of the unpaused response.

import (
	"context"
	"fmt"
	"sync"
	"time"

	"github.com/ipfs/go-cid"
	"github.com/libp2p/go-libp2p/core/peer"

	"github.com/ipfs/go-graphsync"
	gsmsg "github.com/ipfs/go-graphsync/message"

	"verif/harness/internal/cw"
	"verif/harness/internal/e2e"
	"verif/harness/internal/rng"
)

type rpauseCase struct {
	Kind  string   `json:"kind"` // "rpause"
	Seed  uint64   `json:"seed"`
	Block int      `json:"block"` // -1 = drawn from the seed
	Desc  string   `json:"desc,omitempty"`
	Tags  []string `json:"tags,omitempty"`
}

type wireRec struct {
	mu            sync.Mutex
	u             *universe
	id            graphsync.RequestID
	md            []string
	blocks        []uint64
	seenBlock     map[uint64]bool
	pausedSeen    bool
	unpauseCalled bool
	blockInPause  bool
	lastStatus    graphsync.ResponseStatusCode
	paused        chan struct{}
	done          chan struct{}
	closed        bool
}

func (w *wireRec) ReceiveMessage(ctx context.Context, sender peer.ID, m gsmsg.GraphSyncMessage) {
	w.mu.Lock()
	defer w.mu.Unlock()
	if w.pausedSeen && !w.unpauseCalled && len(m.Blocks()) > 0 {
		w.blockInPause = true
	}
	for _, b := range m.Blocks() {
		i := uint64(w.u.index(b.Cid()))
		if !w.seenBlock[i] {
			w.seenBlock[i] = true
			w.blocks = append(w.blocks, i)
		}
	}
	for _, r := range m.Responses() {
		if r.RequestID() != w.id {
			continue
		}
		r.Metadata().Iterate(func(c cid.Cid, a graphsync.LinkAction) {
			act := "Present"
			switch a {
			case graphsync.LinkActionMissing:
				act = "Missing"
			case graphsync.LinkActionDuplicateNotSent:
				act = "DupNotSent"
			case graphsync.LinkActionDuplicateDAGSkipped:
				act = "DupDagSkipped"
			}
			w.md = append(w.md, fmt.Sprintf("(%d, %s)", w.u.index(c), act))
		})
		w.lastStatus = r.Status()
		if r.Status() == graphsync.RequestPaused && !w.pausedSeen {
			w.pausedSeen = true
			select {
			case w.paused <- struct{}{}:
			default:
			}
		}
		if r.Status().IsTerminal() && !w.closed {
			w.closed = true
			close(w.done)
		}
	}
}
func (w *wireRec) ReceiveError(p peer.ID, err error) {}
func (w *wireRec) Connected(p peer.ID)               {}
func (w *wireRec) Disconnected(p peer.ID)            {}

func runRPauseCase(w *cw.Writer, rc rpauseCase, kind string) error {
	r := rng.New(rc.Seed)
	d, sel, desc := genWorld(r, "")
	tb := newTables()
	u := newUniverse(d)
	pl, err := harvest(d, sel, tb)
	if err != nil {
		return fmt.Errorf("harvest: %w", err)
	}
	n := len(d.Blocks)
	var R []int
	inRm := map[int]bool{}
	pR := r.Range(3, 6)
	for i := 0; i < n; i++ {
		if i == 0 || r.Intn(6) < pR {
			R = append(R, i)
			inRm[i] = true
		}
	}
	st := honestStream(pl, func(i int) bool { return inRm[i] }, 0)
	nblk := 0
	anyMissing := false
	for _, it := range st {
		if it.blk >= 0 {
			nblk++
		}
		if it.act == 2 {
			anyMissing = true
		}
	}
	block := rc.Block
	if block < 0 {
		block = 0
		if nblk > 0 && !r.P(1, 8) {
			block = r.Range(1, nblk)
		}
	}
	world, err := e2e.NewWorld(2)
	if err != nil {
		return err
	}
	defer world.Close()
	for _, i := range R {
		world.Nodes[1].Store.Put(dagLink(d.Blocks[i]), d.Blocks[i].Data)
	}
	resp := world.Start(1)
	resp.RegisterIncomingRequestHook(func(p peer.ID, rd graphsync.RequestData, ha graphsync.IncomingRequestHookActions) {
		ha.ValidateRequest()
	})
	var hmu sync.Mutex
	sentBlocks := 0
	fired := false
	resp.RegisterOutgoingBlockHook(func(p peer.ID, rd graphsync.RequestData, b graphsync.BlockData, ha graphsync.OutgoingBlockHookActions) {
		hmu.Lock()
		defer hmu.Unlock()
		if b.BlockSizeOnWire() > 0 {
			sentBlocks++
			if block > 0 && !fired && sentBlocks == block {
				fired = true
				ha.PauseResponse()
			}
		}
	})
	id := graphsync.NewRequestID()
	rec := &wireRec{u: u, id: id, seenBlock: map[uint64]bool{}, paused: make(chan struct{}, 1), done: make(chan struct{})}
	world.Nodes[0].Net.SetDelegate(rec)
	ctx, cancel := context.WithTimeout(world.Ctx, 20*time.Second)
	defer cancel()
	reqMsg := gsmsg.NewMessage(map[graphsync.RequestID]gsmsg.GraphSyncRequest{id: gsmsg.NewRequest(id, d.Blocks[0].Cid, sel, graphsync.Priority(1))}, nil, nil)
	if err := world.Nodes[0].Net.SendMessage(ctx, world.Nodes[1].ID(), reqMsg); err != nil {
		return fmt.Errorf("send request: %w", err)
	}
	hang := false
	select {
	case <-rec.done:
	case <-rec.paused:
		rec.mu.Lock()
		rec.unpauseCalled = true
		rec.mu.Unlock()
		deadline := time.Now().Add(10 * time.Second)
		for {
			// the response is parked a moment after the status left: wait for that condition
			if err := resp.Unpause(ctx, id); err == nil || time.Now().After(deadline) {
				break
			}
			select {
			case <-time.After(200 * time.Microsecond):
			case <-ctx.Done():
			}
		}
		select {
		case <-rec.done:
		case <-ctx.Done():
			hang = true
		}
	case <-ctx.Done():
		hang = true
	}
	rec.mu.Lock()
	defer rec.mu.Unlock()
	want := graphsync.RequestCompletedFull
	if anyMissing {
		want = graphsync.RequestCompletedPartial
	}
	tags := []string{"kind:" + kind, "rpause"}
	if block == 0 {
		tags = append(tags, "no_pause")
	} else if rec.pausedSeen {
		tags = append(tags, "paused")
	} else {
		tags = append(tags, "pause_not_reached")
	}
	rc.Kind = "rpause"
	rc.Block = block
	rc.Desc = desc + fmt.Sprintf(" plan-links=%d R=%v block=%d", pl.nodes(), R, block)
	rc.Tags = tags
	term := fmt.Sprintf("Build_rpcase %s %s %d %s %s %s %s %s", pl.coq(), idxList(R), block, cw.List(rec.md), cw.NList(rec.blocks),
		cw.Bool(rec.pausedSeen), cw.Bool(rec.blockInPause), cw.Bool(rec.lastStatus == want))
	idx := w.Add(term, rc, rec.pausedSeen, tags...)
	if hang {
		w.Violation(idx, "paused and unpaused response did not finish within 20s", "responder-hang")
	}
	return nil
}
