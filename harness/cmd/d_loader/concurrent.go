package main

// C20: two requests in flight at once between one real requestor and one real responder (mocknet), over
// overlapping (or disjoint) DAGs.  In the gated cases the losing order is forced: the responder's store holds
// request 1 before its (g+1)-th block load until request 2 was served (a request is recognised by a context value
// set in the request hook), and the requestor's store holds the commit of request 1's root until request 2
// completed, so request 2's traversal runs before request 1 stored anything.

import (
	"bytes"
	"context"
	"fmt"
	"io"
	"sync"
	"time"

	"github.com/ipld/go-ipld-prime"
	"github.com/ipld/go-ipld-prime/linking"
	cidlink "github.com/ipld/go-ipld-prime/linking/cid"
	"github.com/libp2p/go-libp2p/core/peer"

	"github.com/ipfs/go-graphsync"
	gsimpl "github.com/ipfs/go-graphsync/impl"

	"verif/harness/internal/cw"
	"verif/harness/internal/dag"
	"verif/harness/internal/e2e"
	"verif/harness/internal/rng"
)

type concCase struct {
	Kind string   `json:"kind"` // "concurrent"
	Seed uint64   `json:"seed"`
	Desc string   `json:"desc,omitempty"`
	Tags []string `json:"tags,omitempty"`
}

const concHeader = `From Coq Require Import List NArith Bool.
From GS Require Import Base Ltree RecLoader ReqExec Concurrent ConcurrentGen.
Import ListNotations.
Open Scope N_scope.
`

type tagKey struct{}

func runConcCase(w *cw.Writer, cc concCase, kind string) error {
	r := rng.New(cc.Seed)
	d, _, desc := genWorld(r, "")
	for len(d.Blocks) < 3 {
		d, _, desc = genWorld(r, "")
	}
	sel := dag.AllSelector()
	overlap := r.P(3, 4)
	root2 := 0
	if overlap {
		root2 = r.Range(1, len(d.Blocks)-1)
	} else {
		// a second, disjoint DAG appended to the universe
		var d2 *dag.DAG
		for {
			d2, _, _ = genWorld(r, "")
			clash := false
			for _, b := range d2.Blocks {
				if d.Index(b.Cid) >= 0 {
					clash = true
				}
			}
			if !clash {
				break
			}
		}
		root2 = len(d.Blocks)
		d = &dag.DAG{Blocks: append(append([]dag.Block{}, d.Blocks...), d2.Blocks...), Shape: d.Shape + "+" + d2.Shape}
	}
	n := len(d.Blocks)
	tb1, tb2 := newTables(), newTables()
	tb2.segs = tb1.segs
	pl1, err := harvestFrom(d, 0, sel, tb1)
	if err != nil {
		return fmt.Errorf("harvest 1: %w", err)
	}
	pl2, err := harvestFrom(d, root2, sel, tb2)
	if err != nil {
		return fmt.Errorf("harvest 2: %w", err)
	}
	gated := r.P(2, 3) && pl1.nodes() >= 2
	var L, R []int
	inRm, inLm := map[int]bool{}, map[int]bool{}
	pR := r.Range(4, 6)
	for i := 0; i < n; i++ {
		if i == 0 || i == root2 || r.Intn(6) < pR {
			R = append(R, i)
			inRm[i] = true
			if !gated && r.P(1, 4) {
				L = append(L, i)
				inLm[i] = true
			}
		}
	}
	// responder's own traversal of request 1: how many links it loads
	st1 := honestStream(pl1, func(i int) bool { return inRm[i] }, 0)
	gate := 0
	if gated {
		if len(st1) < 2 {
			gated = false
		} else {
			gate = r.Range(1, len(st1)-1)
		}
	}

	world, err := e2e.NewWorld(2)
	if err != nil {
		return err
	}
	defer world.Close()
	for _, i := range L {
		world.Nodes[0].Store.Put(dagLink(d.Blocks[i]), d.Blocks[i].Data)
	}
	for _, i := range R {
		world.Nodes[1].Store.Put(dagLink(d.Blocks[i]), d.Blocks[i].Data)
	}
	release := make(chan struct{})
	var relOnce sync.Once
	doRelease := func() { relOnce.Do(func() { close(release) }) }
	defer doRelease()
	atGate := make(chan struct{}, 1)
	// responder: gate in the store's read opener
	respLsys := world.Nodes[1].Store.LinkSystem()
	baseRead := respLsys.StorageReadOpener
	var gmu sync.Mutex
	loads1 := 0
	respLsys.StorageReadOpener = func(lctx linking.LinkContext, l ipld.Link) (io.Reader, error) {
		if gated && lctx.Ctx != nil {
			if tag, _ := lctx.Ctx.Value(tagKey{}).(int); tag == 1 {
				gmu.Lock()
				k := loads1
				loads1++
				gmu.Unlock()
				if k == gate {
					select {
					case atGate <- struct{}{}:
					default:
					}
					<-release
				}
			}
		}
		return baseRead(lctx, l)
	}
	// requestor: hold the commit of request 1's root
	reqLsys := world.Nodes[0].Store.LinkSystem()
	baseWrite := reqLsys.StorageWriteOpener
	root1Link := dagLink(d.Blocks[0])
	reqLsys.StorageWriteOpener = func(lctx linking.LinkContext) (io.Writer, linking.BlockWriteCommitter, error) {
		wr, commit, err := baseWrite(lctx)
		if err != nil {
			return wr, commit, err
		}
		return wr, func(l ipld.Link) error {
			if gated && l.String() == root1Link.String() {
				<-release
			}
			return commit(l)
		}, nil
	}
	req := gsimpl.New(world.Ctx, world.Nodes[0].Net, reqLsys)
	resp := gsimpl.New(world.Ctx, world.Nodes[1].Net, respLsys)
	root1Cid := d.Blocks[0].Cid
	resp.RegisterIncomingRequestHook(func(p peer.ID, rd graphsync.RequestData, ha graphsync.IncomingRequestHookActions) {
		ha.ValidateRequest()
		tag := 2
		if rd.Root().Equals(root1Cid) {
			tag = 1
		}
		ha.AugmentContext(func(c context.Context) context.Context { return context.WithValue(c, tagKey{}, tag) })
	})
	// request 2 has been served completely by the responder (its link tracking is finished before its last
	// status is queued; the listener fires when that status was sent)
	served2 := make(chan struct{}, 1)
	resp.RegisterCompletedResponseListener(func(p peer.ID, rd graphsync.RequestData, status graphsync.ResponseStatusCode) {
		if !rd.Root().Equals(root1Cid) {
			select {
			case served2 <- struct{}{}:
			default:
			}
		}
	})
	resp.RegisterRequestorCancelledListener(func(p peer.ID, rd graphsync.RequestData) {
		if !rd.Root().Equals(root1Cid) {
			select {
			case served2 <- struct{}{}:
			default:
			}
		}
	})
	ctx, cancel := context.WithTimeout(world.Ctx, 25*time.Second)
	defer cancel()
	type res struct{ o observed }
	c1, c2 := make(chan res, 1), make(chan res, 1)
	start := func(rootIdx int, tb *tables, out chan res) {
		progress, errs := req.Request(ctx, world.Nodes[1].ID(), cidlink.Link{Cid: d.Blocks[rootIdx].Cid}, sel)
		go func() {
			o, _ := collect(ctx, d, tb, progress, errs)
			out <- res{o}
		}()
	}
	start(0, tb1, c1)
	if gated {
		select {
		case <-atGate:
		case <-ctx.Done():
		}
	}
	start(root2, tb2, c2)
	var o1, o2 observed
	if gated {
		r2 := <-c2
		o2 = r2.o
		select {
		case <-served2:
		case <-ctx.Done():
		}
		doRelease()
		o1 = (<-c1).o
	} else {
		o1, o2 = (<-c1).o, (<-c2).o
	}
	store := storeKeys(d, world.Nodes[0].Store)
	_ = bytes.MinRead

	tags := []string{"kind:" + kind, "concurrent"}
	if overlap {
		tags = append(tags, "overlap")
	} else {
		tags = append(tags, "disjoint")
	}
	if gated {
		tags = append(tags, "gated_losing_order")
	} else {
		tags = append(tags, "free_running")
	}
	cc.Kind = "concurrent"
	cc.Desc = desc + fmt.Sprintf(" root2=%d links1=%d links2=%d L=%v R=%v gate=%d", root2, pl1.nodes(), pl2.nodes(), L, R, gate)
	cc.Tags = tags
	o1.store, o2.store = nil, nil
	term := fmt.Sprintf("Build_ccase %s\n    %s %s %s %s %d\n    %s %s %s", pl1.coq(), pl2.coq(), idxList(L), idxList(R), cw.Bool(gated), gate,
		outcomeTerm(o1), outcomeTerm(o2), cw.NList(store))
	idx := w.Add(term, cc, overlap && gated, tags...)
	if o1.hang || o2.hang {
		w.Violation(idx, "a concurrent request did not finish within 25s", "concurrent-hang")
	}
	_ = inLm
	return nil
}
