package main

// C20, family "batch" of the concfam driver: two requests of the real requestor (empty store, disjoint DAGs,
// default scope) are answered by a scripted peer (real network layer and wire codec) whose messages carry, next to
// each block-carrying chunk of one request's response, a response WITHOUT link metadata for the other request
// (a status-only partial response), and the final statuses apart from the last blocks.  The order in which the
// responses of one message are handled is not fixed (they travel as a map), so every chunk is sent in such a
// message: each request must still end exactly as alone.

import (
	"context"
	"fmt"
	"time"

	blocks "github.com/ipfs/go-block-format"
	"github.com/ipfs/go-cid"
	cidlink "github.com/ipld/go-ipld-prime/linking/cid"

	"github.com/ipfs/go-graphsync"
	gsmsg "github.com/ipfs/go-graphsync/message"
	gsnet "github.com/ipfs/go-graphsync/network"

	"verif/harness/internal/cw"
	"verif/harness/internal/dag"
	"verif/harness/internal/e2e"
	"verif/harness/internal/rng"
)

func runBatchCase(w *cw.Writer, fc famCase, kind string) error {
	r := rng.New(fc.Seed)
	d, n1, desc := twoDAGs(r, 2, 2)
	n := len(d.Blocks)
	sel := dag.AllSelector()
	u := newUniverse(d)
	roots := []int{0, n1}
	tbs := []*tables{newTables(), newTables()}
	var pls [2]*plan
	for k := 0; k < 2; k++ {
		p, err := harvestFrom(d, roots[k], sel, tbs[k])
		if err != nil {
			return fmt.Errorf("harvest: %w", err)
		}
		pls[k] = p
	}
	inRm := map[int]bool{0: true, n1: true}
	var R []int
	pR := r.Range(4, 6)
	for i := 0; i < n; i++ {
		if inRm[i] || r.Intn(6) < pR {
			inRm[i] = true
			R = append(R, i)
		}
	}
	world, err := e2e.NewWorld(2)
	if err != nil {
		return err
	}
	defer world.Close()
	req := world.Start(0)
	cap1 := &capture{reqs: make(chan gsmsg.GraphSyncRequest, 8)}
	world.Nodes[1].Net.SetDelegate(cap1)
	ctx, cancel := context.WithTimeout(world.Ctx, 25*time.Second)
	defer cancel()
	type res struct{ o observed }
	outs := [2]chan res{make(chan res, 1), make(chan res, 1)}
	for k := 0; k < 2; k++ {
		progress, errs := req.Request(ctx, world.Nodes[1].ID(), cidlink.Link{Cid: d.Blocks[roots[k]].Cid}, sel)
		go func(k int) {
			o, _ := collect(ctx, d, tbs[k], progress, errs)
			outs[k] <- res{o}
		}(k)
	}
	// both requests must be live before anything is answered
	ids := map[int]graphsync.RequestID{}
	for len(ids) < 2 {
		select {
		case rq := <-cap1.reqs:
			for k := 0; k < 2; k++ {
				if rq.Root().Equals(d.Blocks[roots[k]].Cid) {
					ids[k] = rq.ID()
				}
			}
		case <-ctx.Done():
			return fmt.Errorf("requests not captured")
		}
	}
	sender, err := world.Nodes[1].Net.NewMessageSender(ctx, world.Nodes[0].ID(), gsnet.MessageSenderOpts{SendTimeout: 10 * time.Second})
	if err != nil {
		return err
	}
	defer sender.Close()
	streams := [2][]sitem{
		honestStream(pls[0], func(i int) bool { return inRm[i] }, 0),
		honestStream(pls[1], func(i int) bool { return inRm[i] }, 0),
	}
	// one message: a chunk of request k's response + a metadata-less partial response of the other request
	sendChunk := func(k int, items []sitem, withOther bool) error {
		var md []gsmsg.GraphSyncLinkMetadatum
		blks := map[cid.Cid]blocks.Block{}
		for _, it := range items {
			c, _ := u.block(it.cid)
			md = append(md, gsmsg.GraphSyncLinkMetadatum{Link: c, Action: actions[it.act]})
			if it.blk >= 0 {
				bc, data := u.block(it.blk)
				b, _ := blocks.NewBlockWithCid(data, bc)
				blks[bc] = b
			}
		}
		resps := map[graphsync.RequestID]gsmsg.GraphSyncResponse{ids[k]: gsmsg.NewResponse(ids[k], graphsync.PartialResponse, md)}
		if withOther {
			resps[ids[1-k]] = gsmsg.NewResponse(ids[1-k], graphsync.PartialResponse, nil)
		}
		return sender.SendMsg(ctx, gsmsg.NewMessage(nil, resps, blks))
	}
	pos := [2]int{}
	for pos[0] < len(streams[0]) || pos[1] < len(streams[1]) {
		k := r.Intn(2)
		if pos[k] >= len(streams[k]) {
			k = 1 - k
		}
		sz := r.Range(1, 2)
		if pos[k]+sz > len(streams[k]) {
			sz = len(streams[k]) - pos[k]
		}
		if err := sendChunk(k, streams[k][pos[k]:pos[k]+sz], true); err != nil {
			return err
		}
		pos[k] += sz
	}
	// the final statuses travel apart from the last blocks, each next to nothing else
	for k := 0; k < 2; k++ {
		st := graphsync.RequestCompletedFull
		for _, it := range streams[k] {
			if it.act == 2 {
				st = graphsync.RequestCompletedPartial
			}
		}
		m := gsmsg.NewMessage(nil, map[graphsync.RequestID]gsmsg.GraphSyncResponse{ids[k]: gsmsg.NewResponse(ids[k], st, nil)}, nil)
		if err := sender.SendMsg(ctx, m); err != nil {
			return err
		}
	}
	var obs [2]observed
	for k := 0; k < 2; k++ {
		obs[k] = (<-outs[k]).o
	}
	bad := false
	for _, key := range world.Nodes[0].Store.Keys() {
		c, err := cid.Decode(key)
		if err != nil {
			bad = true
			continue
		}
		data, _ := world.Nodes[0].Store.Get(cidlink.Link{Cid: c})
		if sum, err := c.Prefix().Sum(data); err != nil || !sum.Equals(c) {
			bad = true
		}
	}
	store := storeKeys(d, world.Nodes[0].Store)
	fc.Kind = "concfam"
	fc.Family = "batch"
	fc.Tags = []string{"kind:" + kind, "concfam", "family:batch"}
	for k := 0; k < 2; k++ {
		fc.Desc = desc + fmt.Sprintf(" n1=%d request=%d links=%d R=%v", n1, k+1, pls[k].nodes(), R)
		o := obs[k]
		o.store = nil
		term := fmt.Sprintf("Build_fcase 4 %s [] %s\n    %s %s %s", pls[k].coq(), idxList(R), outcomeTerm(o), cw.NList(store), cw.Bool(bad))
		idx := w.Add(term, fc, true, fc.Tags...)
		if obs[k].hang {
			w.Violation(idx, "a request answered in batched messages did not finish within 25s", "concurrent-hang")
		}
	}
	return nil
}
