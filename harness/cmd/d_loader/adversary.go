package main

// C01: the real requestor (a whole GraphSync instance: RequestManager, executor, ReconciledLoader,
// Traverser, message decoding from the wire) against a scripted peer that answers the captured request
// with the honest response mutated by weighted operators, plus a third peer injecting responses.

import (
	"context"
	"fmt"
	"strings"
	"sync"
	"time"

	blocks "github.com/ipfs/go-block-format"
	"github.com/ipfs/go-cid"
	"github.com/ipld/go-ipld-prime/datamodel"
	cidlink "github.com/ipld/go-ipld-prime/linking/cid"
	"github.com/libp2p/go-libp2p/core/peer"
	mh "github.com/multiformats/go-multihash"

	"github.com/ipfs/go-graphsync"
	"github.com/ipfs/go-graphsync/donotsendfirstblocks"
	gsmsg "github.com/ipfs/go-graphsync/message"
	gsnet "github.com/ipfs/go-graphsync/network"

	"verif/harness/internal/cw"
	"verif/harness/internal/dag"
	"verif/harness/internal/e2e"
	"verif/harness/internal/rng"
)

type advCase struct {
	Kind string   `json:"kind"` // "adversary"
	Seed uint64   `json:"seed"`
	Desc string   `json:"desc,omitempty"`
	Tags []string `json:"tags,omitempty"`
}

type amsg struct {
	sender int // 0 the request's peer, 1 a third peer
	reqOK  bool
	items  []sitem
	status int // 0 informational (partial response), 1 completed, 2 failed
}

type capture struct {
	mu   sync.Mutex
	reqs chan gsmsg.GraphSyncRequest
}

func (c *capture) ReceiveMessage(ctx context.Context, sender peer.ID, incoming gsmsg.GraphSyncMessage) {
	for _, r := range incoming.Requests() {
		if r.Type() == graphsync.RequestTypeNew {
			select {
			case c.reqs <- r:
			default:
			}
		}
	}
}
func (c *capture) ReceiveError(p peer.ID, err error) {}
func (c *capture) Connected(p peer.ID)               {}
func (c *capture) Disconnected(p peer.ID)            {}

var statusCodes = []graphsync.ResponseStatusCode{graphsync.PartialResponse, graphsync.RequestCompletedFull, graphsync.RequestFailedUnknown}
var statusCoq = []string{"StInfo", "StOk", "StFail"}

// forgedKey: index of the block the decoder will compute for forged bytes standing in for block i
func buildMessage(u *universe, id graphsync.RequestID, m amsg) gsmsg.GraphSyncMessage {
	var md []gsmsg.GraphSyncLinkMetadatum
	blks := map[cid.Cid]blocks.Block{}
	for _, it := range m.items {
		c, _ := u.block(it.cid)
		md = append(md, gsmsg.GraphSyncLinkMetadatum{Link: c, Action: actions[it.act]})
		if it.blk >= 0 {
			bc, data := u.block(it.blk)
			b, _ := blocks.NewBlockWithCid(data, bc)
			blks[bc] = b
		}
	}
	rid := id
	if !m.reqOK {
		rid = graphsync.NewRequestID()
	}
	return gsmsg.NewMessage(nil, map[graphsync.RequestID]gsmsg.GraphSyncResponse{rid: gsmsg.NewResponse(rid, statusCodes[m.status], md)}, blks)
}

func msgTerm(m amsg) string {
	var md, blks []string
	seen := map[int]bool{}
	for _, it := range m.items {
		md = append(md, fmt.Sprintf("(%d, %s)", it.cid, actionCoq[it.act]))
		if it.blk >= 0 && !seen[it.blk] {
			seen[it.blk] = true
			blks = append(blks, fmt.Sprintf("(%d, %d)", it.blk, it.blk))
		}
	}
	rq := 0
	if !m.reqOK {
		rq = 1
	}
	return fmt.Sprintf("(Build_msg %d [Build_resp %d %s %s] %s)", m.sender, rq, cw.List(md), statusCoq[m.status], cw.List(blks))
}

func runAdvCase(w *cw.Writer, ac advCase, kind string) error {
	r := rng.New(ac.Seed)
	d, sel, desc := genWorld(r, "")
	tb := newTables()
	u := newUniverse(d)
	pl, err := harvest(d, sel, tb)
	if err != nil {
		return fmt.Errorf("harvest: %w", err)
	}
	n := len(d.Blocks)
	var L []int
	inRm := map[int]bool{}
	pL, pR := r.Range(0, 4), r.Range(3, 6)
	for i := 0; i < n; i++ {
		if r.Intn(6) < pL {
			L = append(L, i)
		}
		if r.Intn(6) < pR {
			inRm[i] = true
		}
	}
	if r.P(1, 2) {
		// make sure a request is sent: something reachable is missing locally
		if len(L) == n {
			L = L[:n-1]
		}
	}
	world, err := e2e.NewWorld(3)
	if err != nil {
		return err
	}
	defer world.Close()
	for _, i := range L {
		world.Nodes[0].Store.Put(dagLink(d.Blocks[i]), d.Blocks[i].Data)
	}
	req := world.Start(0)
	cap1 := &capture{reqs: make(chan gsmsg.GraphSyncRequest, 4)}
	world.Nodes[1].Net.SetDelegate(cap1)
	world.Nodes[2].Net.SetDelegate(&capture{reqs: make(chan gsmsg.GraphSyncRequest, 4)})
	ctx, cancel := context.WithTimeout(world.Ctx, 20*time.Second)
	defer cancel()
	progress, errs := req.Request(ctx, world.Nodes[1].ID(), d.Root(), sel)

	type colres struct {
		o       observed
		classes []uint64
	}
	done := make(chan colres, 1)
	go func() {
		o, cl := collect(ctx, d, tb, progress, errs)
		done <- colres{o, cl}
	}()

	var feed []amsg
	var tags []string
	var res colres
	select {
	case res = <-done:
		tags = append(tags, "no_request_sent")
	case rq := <-cap1.reqs:
		skip := 0
		if data, ok := rq.Extension(graphsync.ExtensionsDoNotSendFirstBlocks); ok {
			v, _ := donotsendfirstblocks.DecodeDoNotSendFirstBlocks(data)
			skip = int(v)
		}
		st := honestStream(pl, func(i int) bool { return inRm[i] }, skip)
		if r.P(5, 6) {
			var mt []string
			st, mt = mutateStream(r, st, n)
			tags = append(tags, mt...)
		} else {
			tags = append(tags, "honest")
		}
		for len(st) > 0 {
			k := r.Range(1, 4)
			if k > len(st) {
				k = len(st)
			}
			feed = append(feed, amsg{sender: 0, reqOK: true, items: st[:k], status: 0})
			st = st[k:]
		}
		// message-level operators
		for k := r.Intn(3); k > 0 && len(feed) > 0; k-- {
			i := r.Intn(len(feed))
			switch r.Intn(6) {
			case 0:
				feed[i].reqOK = false
				tags = append(tags, "mut:wrong-request-id")
			case 1:
				feed[i].sender = 1
				tags = append(tags, "mut:wrong-sender")
			case 2:
				feed[i].status = 1
				tags = append(tags, "mut:early-terminal")
			case 3:
				j := r.Intn(len(feed))
				feed[i], feed[j] = feed[j], feed[i]
				tags = append(tags, "mut:reorder-messages")
			case 4:
				if r.P(1, 3) {
					feed[i].status = 2
					tags = append(tags, "mut:failure-status")
				}
			default:
				// a third peer sends a plausible continuation with forged content
				x := amsg{sender: 1, reqOK: true, status: 0}
				for _, it := range feed[i].items {
					it.blk = 1000 + r.Intn(3)
					x.items = append(x.items, it)
				}
				feed = append(append(append([]amsg{}, feed[:i]...), x), feed[i:]...)
				tags = append(tags, "mut:third-peer-forgery")
			}
		}
		feed = append(feed, amsg{sender: 0, reqOK: true, status: 1})
		if r.P(1, 4) {
			feed = append(feed, amsg{sender: 0, reqOK: true, status: 1})
			tags = append(tags, "mut:repeated-terminal")
		}
		senders := []gsnet.MessageSender{nil, nil}
		for si, ni := range []int{1, 2} {
			ms, err := world.Nodes[ni].Net.NewMessageSender(ctx, world.Nodes[0].ID(), gsnet.MessageSenderOpts{SendTimeout: 10 * time.Second})
			if err != nil {
				return err
			}
			senders[si] = ms
		}
		for _, m := range feed {
			if err := senders[m.sender].SendMsg(ctx, buildMessage(u, rq.ID(), m)); err != nil {
				return fmt.Errorf("send: %w", err)
			}
		}
		res = <-done
		for _, s := range senders {
			_ = s.Close()
		}
	case <-ctx.Done():
		res = <-done
	}

	// observations
	var writes []string
	goBad := ""
	for _, k := range world.Nodes[0].Store.Writes {
		c, err := cid.Decode(k)
		if err != nil {
			goBad = "store key is not a CID: " + k
			continue
		}
		data, _ := world.Nodes[0].Store.Get(cidlink.Link{Cid: c})
		// independent check on the Go side: the stored bytes hash to their key
		sum, _ := c.Prefix().Sum(data)
		if !sum.Equals(c) {
			goBad = "stored block does not hash to its key " + k
		}
		bi := 999996
		h, _ := mh.Sum(data, c.Prefix().MhType, -1)
		if j, ok := u.byCid[cid.NewCidV1(c.Prefix().Codec, h).String()]; ok {
			bi = j
		}
		writes = append(writes, fmt.Sprintf("(%d, %d)", u.index(c), bi))
	}
	var feedT []string
	for _, m := range feed {
		feedT = append(feedT, msgTerm(m))
	}
	ac.Kind = "adversary"
	ac.Desc = desc + fmt.Sprintf(" L=%v msgs=%d", L, len(feed))
	tags = append([]string{"kind:" + kind, "adversary"}, tags...)
	ac.Tags = tags
	o := res.o
	term := fmt.Sprintf("DA (Build_advcase %s %s\n    %s\n    %s %s %s %s)", pl.coq(), idxList(L), cw.List(feedT),
		cw.NList(o.visits), cw.NList(res.classes), cw.List(writes), cw.NList(storeKeys(d, world.Nodes[0].Store)))
	idx := w.Add(term, ac, len(feed) > 1, tags...)
	if goBad != "" {
		w.Violation(idx, goBad, "bad-stored-block")
	}
	if o.hang {
		w.Violation(idx, "request did not finish within 20s after a terminal status: "+strings.Join(o.otherTxt, ";"), "hang")
	}
	_ = datamodel.Null
	_ = dag.AllSelector
	return nil
}
