package main

// C01 with a requestor-side pause: the real requestor (whole GraphSync instance) is paused after its first block
// (from its incoming-block hook, or by the API before the first answer arrives); while it is parked the scripted
// peer sends responses for the request carrying Present links with valid blocks that the traversal never asked
// for; a barrier message tells when they have been processed and the store is inspected; then the request is
// resumed (the second request is answered with the honest or a mutated stream) or cancelled.

import (
	"context"
	"fmt"
	"sync"
	"time"

	"github.com/ipfs/go-cid"
	cidlink "github.com/ipld/go-ipld-prime/linking/cid"
	"github.com/libp2p/go-libp2p/core/peer"
	mh "github.com/multiformats/go-multihash"

	"github.com/ipfs/go-graphsync"
	"github.com/ipfs/go-graphsync/donotsendfirstblocks"
	gsimpl "github.com/ipfs/go-graphsync/impl"
	gsmsg "github.com/ipfs/go-graphsync/message"
	gsnet "github.com/ipfs/go-graphsync/network"

	"verif/harness/internal/cw"
	"verif/harness/internal/e2e"
	"verif/harness/internal/rng"
)

type advPauseCase struct {
	Kind string   `json:"kind"` // "advpause"
	Seed uint64   `json:"seed"`
	Desc string   `json:"desc,omitempty"`
	Tags []string `json:"tags,omitempty"`
}

func writesOf(u *universe, st *e2e.Store, from int) ([]string, string) {
	var out []string
	bad := ""
	ws := st.Writes
	for _, k := range ws[from:] {
		c, err := cid.Decode(k)
		if err != nil {
			bad = "store key is not a CID: " + k
			continue
		}
		data, _ := st.Get(cidlink.Link{Cid: c})
		sum, _ := c.Prefix().Sum(data)
		if !sum.Equals(c) {
			bad = "stored block does not hash to its key " + k
		}
		bi := 999996
		h, _ := mh.Sum(data, c.Prefix().MhType, -1)
		if j, ok := u.byCid[cid.NewCidV1(c.Prefix().Codec, h).String()]; ok {
			bi = j
		}
		out = append(out, fmt.Sprintf("(%d, %d)", u.index(c), bi))
	}
	return out, bad
}

func runAdvPauseCase(w *cw.Writer, ac advPauseCase, kind string) error {
	r := rng.New(ac.Seed)
	d, sel, desc := genWorld(r, "")
	for len(d.Blocks) < 2 {
		d, sel, desc = genWorld(r, "")
	}
	tb := newTables()
	u := newUniverse(d)
	pl, err := harvest(d, sel, tb)
	if err != nil {
		return fmt.Errorf("harvest: %w", err)
	}
	n := len(d.Blocks)
	var L []int
	inRm := map[int]bool{0: true}
	pL, pR := r.Range(0, 3), r.Range(3, 6)
	for i := 1; i < n; i++ { // the requestor lacks the root: it goes online at once
		if r.Intn(6) < pL {
			L = append(L, i)
		}
		if r.Intn(6) < pR {
			inRm[i] = true
		}
	}
	inPlan := map[int]bool{}
	var mark func(p *plan)
	mark = func(p *plan) {
		inPlan[p.cid] = true
		for _, it := range p.body {
			if it.child != nil {
				mark(it.child)
			}
		}
	}
	mark(pl)

	world, err := e2e.NewWorld(2)
	if err != nil {
		return err
	}
	defer world.Close()
	for _, i := range L {
		world.Nodes[0].Store.Put(dagLink(d.Blocks[i]), d.Blocks[i].Data)
	}
	req := world.Start(0)
	cap1 := &capture{reqs: make(chan gsmsg.GraphSyncRequest, 8)}
	world.Nodes[1].Net.SetDelegate(cap1)
	apiPause := r.P(1, 3)
	var mu sync.Mutex
	fired := false
	barrier := make(chan struct{}, 4)
	nresp := 0
	wantResp := -1
	req.RegisterIncomingBlockHook(func(p peer.ID, rd graphsync.ResponseData, b graphsync.BlockData, ha graphsync.IncomingBlockHookActions) {
		mu.Lock()
		defer mu.Unlock()
		if !apiPause && !fired && b.Index() == 1 {
			fired = true
			ha.PauseRequest()
		}
	})
	req.RegisterIncomingResponseHook(func(p peer.ID, rd graphsync.ResponseData, ha graphsync.IncomingResponseHookActions) {
		mu.Lock()
		nresp++
		if nresp == wantResp {
			select {
			case barrier <- struct{}{}:
			default:
			}
		}
		mu.Unlock()
	})
	ctx, cancel := context.WithTimeout(world.Ctx, 25*time.Second)
	defer cancel()
	rctx, rcancel := context.WithCancel(ctx)
	defer rcancel()
	progress, errs := req.Request(rctx, world.Nodes[1].ID(), d.Root(), sel)
	type colres struct {
		o       observed
		classes []uint64
	}
	done := make(chan colres, 1)
	go func() {
		o, cl := collect(ctx, d, tb, progress, errs)
		done <- colres{o, cl}
	}()
	var rq gsmsg.GraphSyncRequest
	select {
	case rq = <-cap1.reqs:
	case <-ctx.Done():
		return fmt.Errorf("no request captured")
	}
	id := rq.ID()
	if apiPause {
		if err := req.Pause(ctx, id); err != nil {
			return fmt.Errorf("pause: %w", err)
		}
	}
	sender, err := world.Nodes[1].Net.NewMessageSender(ctx, world.Nodes[0].ID(), gsnet.MessageSenderOpts{SendTimeout: 10 * time.Second})
	if err != nil {
		return err
	}
	defer sender.Close()
	send := func(m amsg) error { return sender.SendMsg(ctx, buildMessage(u, id, m)) }
	// first answer: the root alone
	first := amsg{sender: 0, reqOK: true, items: []sitem{{0, 0, 0}}, status: 0}
	if err := send(first); err != nil {
		return err
	}
	// wait until the request is parked
	gs := req.(*gsimpl.GraphSync)
	deadline := time.Now().Add(15 * time.Second)
	for {
		st := gs.PeerState(world.Nodes[1].ID()).OutgoingState.RequestStates[id]
		if st == graphsync.Paused || time.Now().After(deadline) {
			break
		}
		select {
		case <-time.After(200 * time.Microsecond):
		case <-ctx.Done():
		}
	}
	// the paused phase: Present links with valid blocks the traversal did not ask for
	var paused []amsg
	var tags []string
	for k := r.Range(1, 3); k > 0; k-- {
		m := amsg{sender: 0, reqOK: true, status: 0}
		for j := r.Range(1, 3); j > 0; j-- {
			var it sitem
			switch r.Intn(3) {
			case 0: // a valid block that is not part of the DAG at all
				x := 1000 + r.Intn(4)
				it = sitem{x, 0, x}
				tags = append(tags, "paused:block_outside_dag")
			case 1: // a block of the DAG the selector does not reach (if there is one), else any later block
				x := r.Range(1, n-1)
				for tries := 0; tries < 8 && inPlan[x]; tries++ {
					x = r.Range(1, n-1)
				}
				it = sitem{x, 0, x}
				if inPlan[x] {
					tags = append(tags, "paused:block_not_yet_reached")
				} else {
					tags = append(tags, "paused:block_not_selected")
				}
			default: // a block of the plan that has not been reached
				x := r.Range(1, n-1)
				it = sitem{x, 0, x}
				tags = append(tags, "paused:block_not_yet_reached")
			}
			m.items = append(m.items, it)
		}
		paused = append(paused, m)
	}
	mu.Lock()
	wantResp = nresp + len(paused) + 1
	mu.Unlock()
	for _, m := range paused {
		if err := send(m); err != nil {
			return err
		}
	}
	if err := send(amsg{sender: 0, reqOK: true, status: 0}); err != nil { // barrier: processed after all of the above
		return err
	}
	select {
	case <-barrier:
	case <-ctx.Done():
	}
	writesPaused, bad1 := writesOf(u, world.Nodes[0].Store, 0)
	// resume or cancel
	resumed := r.P(3, 4)
	var second []amsg
	if resumed {
		deadline := time.Now().Add(10 * time.Second)
		for {
			if err := req.Unpause(ctx, id); err == nil || time.Now().After(deadline) {
				break
			}
			select {
			case <-time.After(200 * time.Microsecond):
			case <-ctx.Done():
			}
		}
		select {
		case rq2 := <-cap1.reqs:
			skip := 0
			if data, ok := rq2.Extension(graphsync.ExtensionsDoNotSendFirstBlocks); ok {
				v, _ := donotsendfirstblocks.DecodeDoNotSendFirstBlocks(data)
				skip = int(v)
			}
			st := honestStream(pl, func(i int) bool { return inRm[i] }, skip)
			if r.P(1, 2) {
				var mt []string
				st, mt = mutateStream(r, st, n)
				tags = append(tags, mt...)
			}
			for len(st) > 0 {
				k := r.Range(1, 4)
				if k > len(st) {
					k = len(st)
				}
				second = append(second, amsg{sender: 0, reqOK: true, items: st[:k], status: 0})
				st = st[k:]
			}
			second = append(second, amsg{sender: 0, reqOK: true, status: 1})
			for _, m := range second {
				if err := send(m); err != nil {
					return err
				}
			}
		case res := <-done:
			// finished without asking again (everything else was local)
			done <- res
		case <-ctx.Done():
		}
	} else {
		rcancel()
	}
	res := <-done
	writes, bad2 := writesOf(u, world.Nodes[0].Store, 0)
	term := func(ms []amsg) string {
		var xs []string
		for _, m := range ms {
			xs = append(xs, msgTerm(m))
		}
		return cw.List(xs)
	}
	tags = append([]string{"kind:" + kind, "advpause"}, tags...)
	if apiPause {
		tags = append(tags, "pause:api")
	} else {
		tags = append(tags, "pause:hook")
	}
	if resumed {
		tags = append(tags, "resumed")
	} else {
		tags = append(tags, "cancelled")
	}
	ac.Kind = "advpause"
	ac.Desc = desc + fmt.Sprintf(" L=%v paused-msgs=%d second-msgs=%d", L, len(paused), len(second))
	ac.Tags = tags
	o := res.o
	t := fmt.Sprintf("Build_apcase %s %s\n    %s\n    %s %s\n    %s\n    %s %s %s %s %s", pl.coq(), idxList(L), term([]amsg{first}), term(paused), cw.Bool(resumed), term(second),
		cw.NList(o.visits), cw.NList(res.classes), cw.List(writesPaused), cw.List(writes), cw.NList(storeKeys(d, world.Nodes[0].Store)))
	idx := w.Add(t, ac, true, tags...)
	if bad1 != "" || bad2 != "" {
		w.Violation(idx, bad1+bad2, "bad-stored-block")
	}
	if o.hang {
		w.Violation(idx, "paused request did not finish within 25s", "hang")
	}
	return nil
}
