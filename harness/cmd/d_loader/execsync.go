package main

// C02, family "execsync" of the loader driver: the real executor (executor.ExecuteTask), the real ReconciledLoader
// and the real traverser with a manager stub whose SendRequest delivers the responder's answer SYNCHRONOUSLY,
// before it returns (the whole response with its terminal status, or only its first chunk, the rest following at
// once): the response may be processed before the executor does anything else after sending the request.

import (
	"context"
	"fmt"
	"sync"
	"sync/atomic"
	"time"

	"github.com/ipfs/go-cid"
	"github.com/ipfs/go-peertaskqueue/peertask"
	"github.com/ipld/go-ipld-prime"
	"github.com/ipld/go-ipld-prime/datamodel"
	"github.com/ipld/go-ipld-prime/linking"
	"github.com/ipld/go-ipld-prime/node/basicnode"
	"github.com/ipld/go-ipld-prime/traversal"
	"github.com/libp2p/go-libp2p/core/peer"
	"go.opentelemetry.io/otel/trace"

	"github.com/ipfs/go-graphsync"
	"github.com/ipfs/go-graphsync/donotsendfirstblocks"
	"github.com/ipfs/go-graphsync/ipldutil"
	gsmsg "github.com/ipfs/go-graphsync/message"
	"github.com/ipfs/go-graphsync/requestmanager/executor"
	"github.com/ipfs/go-graphsync/requestmanager/hooks"
	"github.com/ipfs/go-graphsync/requestmanager/reconciledloader"

	"verif/harness/internal/cw"
	"verif/harness/internal/e2e"
	"verif/harness/internal/rng"
)

type execCase struct {
	Kind  string   `json:"kind"` // "execsync"
	Seed  uint64   `json:"seed"`
	Whole bool     `json:"whole"`
	Desc  string   `json:"desc,omitempty"`
	Tags  []string `json:"tags,omitempty"`
}

// execHangs counts the cases of this run that ran into the deadline; the family stops after three (fail fast).
var execHangs int

type syncManager struct {
	ctx      context.Context
	task     executor.RequestTask
	loader   *reconciledloader.ReconciledLoader
	u        *universe
	pl       *plan
	inR      func(int) bool
	whole    bool
	released chan struct{}
	once     sync.Once
	sent     int32
}

func (m *syncManager) GetRequestTask(_ peer.ID, _ *peertask.Task, out chan executor.RequestTask) {
	go func() {
		select {
		case <-m.ctx.Done():
		case out <- m.task:
		}
	}()
}

func (m *syncManager) ReleaseRequestTask(_ peer.ID, _ *peertask.Task, err error) {
	m.once.Do(func() { close(m.released) })
}

func (m *syncManager) ingest(items []sitem) {
	var md []gsmsg.GraphSyncLinkMetadatum
	blks := map[cid.Cid][]byte{}
	for _, it := range items {
		c, _ := m.u.block(it.cid)
		md = append(md, gsmsg.GraphSyncLinkMetadatum{Link: c, Action: actions[it.act]})
		if it.blk >= 0 {
			bc, data := m.u.block(it.blk)
			blks[bc] = data
		}
	}
	m.loader.IngestResponse(gsmsg.NewLinkMetadata(md), trace.Link{}, blks)
}

func (m *syncManager) SendRequest(_ peer.ID, request gsmsg.GraphSyncRequest) {
	if request.Type() != graphsync.RequestTypeNew {
		return
	}
	atomic.AddInt32(&m.sent, 1)
	skip := 0
	if data, has := request.Extension(graphsync.ExtensionsDoNotSendFirstBlocks); has {
		v, _ := donotsendfirstblocks.DecodeDoNotSendFirstBlocks(data)
		skip = int(v)
	}
	st := honestStream(m.pl, m.inR, skip)
	if m.whole || len(st) <= 1 {
		m.ingest(st)
		m.loader.SetRemoteOnline(false) // terminal status
		return
	}
	m.ingest(st[:1])
	rest := st[1:]
	go func() {
		m.ingest(rest)
		m.loader.SetRemoteOnline(false)
	}()
}

func (m *syncManager) ProcessBlockHooks(peer.ID, graphsync.ResponseData, graphsync.BlockData) hooks.UpdateResult {
	return hooks.UpdateResult{}
}

func runExecCase(w *cw.Writer, ec execCase, kind string) error {
	r := rng.New(ec.Seed)
	d, sel, desc := genWorld(r, "")
	tb := newTables()
	u := newUniverse(d)
	pl, err := harvest(d, sel, tb)
	if err != nil {
		return fmt.Errorf("harvest: %w", err)
	}
	n := len(d.Blocks)
	// inside the C02 guards: the responder holds the root, the requestor's blocks are among the responder's
	var L, R []int
	inRm, inLm := map[int]bool{}, map[int]bool{}
	pR, pL := r.Range(3, 6), r.Range(0, 4)
	for i := 0; i < n; i++ {
		if i == 0 || r.Intn(6) < pR {
			R = append(R, i)
			inRm[i] = true
			if r.Intn(6) < pL {
				L = append(L, i)
				inLm[i] = true
			}
		}
	}
	st := e2e.NewStore()
	for _, i := range L {
		st.Put(dagLink(d.Blocks[i]), d.Blocks[i].Data)
	}
	lsys := st.LinkSystem()
	ctx, cancel := context.WithTimeout(context.Background(), 10*time.Second)
	defer cancel()
	var mu sync.Mutex
	var o observed
	request := gsmsg.NewRequest(graphsync.NewRequestID(), d.Blocks[0].Cid, sel, graphsync.Priority(0))
	loader := reconciledloader.NewReconciledLoader(request.ID(), &lsys)
	var lastResponse atomic.Value
	lastResponse.Store(gsmsg.NewResponse(request.ID(), graphsync.RequestAcknowledged, nil))
	inProgressErr := make(chan error)
	m := &syncManager{ctx: ctx, loader: loader, u: u, pl: pl, inR: func(i int) bool { return inRm[i] }, whole: ec.Whole, released: make(chan struct{})}
	m.task = executor.RequestTask{
		Ctx:           ctx,
		Request:       request,
		LastResponse:  &lastResponse,
		PauseMessages: make(chan struct{}, 1),
		Traverser: ipldutil.TraversalBuilder{
			Root:     d.Root(),
			Selector: sel,
			Chooser: func(l datamodel.Link, lc linking.LinkContext) (datamodel.NodePrototype, error) {
				return basicnode.Prototype.Any, nil
			},
			LinkSystem: lsys,
			Visitor: func(p traversal.Progress, nd ipld.Node, _ traversal.VisitReason) error {
				mu.Lock()
				o.visits = append(o.visits, tb.visitID(nodeKey(p.Path, nd), false))
				mu.Unlock()
				return nil
			},
		}.Start(ctx),
		P:                peer.ID("execsync-responder"),
		InProgressErr:    inProgressErr,
		ReconciledLoader: loader,
	}
	done := make(chan struct{})
	go func() {
		defer close(done)
		for {
			select {
			case e := <-inProgressErr:
				k, term := classifyErr(d, tb, e)
				mu.Lock()
				if k == 0 {
					o.missing = append(o.missing, term)
				} else {
					o.other++
					o.otherTxt = append(o.otherTxt, fmt.Sprintf("%T:%v", e, e))
				}
				mu.Unlock()
			case <-m.released:
				return
			case <-ctx.Done():
				return
			}
		}
	}()
	ex := executor.NewExecutor(m, m)
	go ex.ExecuteTask(ctx, m.task.P, &peertask.Task{Topic: request.ID()})
	select {
	case <-m.released:
		o.complete = true
	case <-ctx.Done():
		o.hang = true
	}
	<-done
	cancel()
	mu.Lock()
	o.store = storeKeys(d, st)
	obs := o
	mu.Unlock()
	tags := []string{"kind:" + kind, "execsync"}
	if ec.Whole {
		tags = append(tags, "response_whole_inside_SendRequest")
	} else {
		tags = append(tags, "first_chunk_inside_SendRequest")
	}
	if atomic.LoadInt32(&m.sent) > 0 {
		tags = append(tags, "went_online")
	} else {
		tags = append(tags, "all_local")
	}
	ec.Kind = "execsync"
	ec.Desc = desc + fmt.Sprintf(" plan-links=%d L=%v R=%v", pl.nodes(), L, R)
	ec.Tags = tags
	obs.complete = true
	term := fmt.Sprintf("DE (Build_e2ecase %s %s %s %s)", pl.coq(), idxList(L), idxList(R), outcomeTerm(obs))
	idx := w.Add(term, ec, atomic.LoadInt32(&m.sent) > 0, tags...)
	if o.hang {
		execHangs++
		w.Violation(idx, "the executor did not finish within 10s although the whole response had been delivered: "+fmt.Sprint(o.otherTxt), "executor-hang")
	}
	return nil
}
