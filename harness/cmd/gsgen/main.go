// gsgen regenerates the data-like parts of the Coq development from /repo's current source:
//
//	GenMaxDepthSel.v  the selector-walking selector built in selectorvalidator.go init(), and the
//	                  default maxRecursionDepth of impl/graphsync.go
//
// It fails closed: any syntax it does not understand is an error (reported by bin/check as a
// broken translation).  Files are rewritten only when their content changes.
package main

import (
	"flag"
	"fmt"
	"go/ast"
	"go/parser"
	"go/token"
	"os"
	"path/filepath"
	"strconv"
	"strings"

	"github.com/ipld/go-ipld-prime/traversal/selector"
)

var selectorKeys = map[string]string{
	"SelectorKey_Matcher":              selector.SelectorKey_Matcher,
	"SelectorKey_ExploreAll":           selector.SelectorKey_ExploreAll,
	"SelectorKey_ExploreFields":        selector.SelectorKey_ExploreFields,
	"SelectorKey_ExploreIndex":         selector.SelectorKey_ExploreIndex,
	"SelectorKey_ExploreRange":         selector.SelectorKey_ExploreRange,
	"SelectorKey_ExploreRecursive":     selector.SelectorKey_ExploreRecursive,
	"SelectorKey_ExploreUnion":         selector.SelectorKey_ExploreUnion,
	"SelectorKey_ExploreConditional":   selector.SelectorKey_ExploreConditional,
	"SelectorKey_ExploreRecursiveEdge": selector.SelectorKey_ExploreRecursiveEdge,
	"SelectorKey_ExploreInterpretAs":   selector.SelectorKey_ExploreInterpretAs,
	"SelectorKey_Next":                 selector.SelectorKey_Next,
	"SelectorKey_Fields":               selector.SelectorKey_Fields,
	"SelectorKey_Index":                selector.SelectorKey_Index,
	"SelectorKey_Start":                selector.SelectorKey_Start,
	"SelectorKey_End":                  selector.SelectorKey_End,
	"SelectorKey_Sequence":             selector.SelectorKey_Sequence,
	"SelectorKey_Limit":                selector.SelectorKey_Limit,
	"SelectorKey_LimitDepth":           selector.SelectorKey_LimitDepth,
	"SelectorKey_LimitNone":            selector.SelectorKey_LimitNone,
	"SelectorKey_StopAt":               selector.SelectorKey_StopAt,
	"SelectorKey_Condition":            selector.SelectorKey_Condition,
	"SelectorKey_As":                   selector.SelectorKey_As,
}

func fail(format string, a ...any) {
	fmt.Fprintf(os.Stderr, "gsgen: "+format+"\n", a...)
	os.Exit(1)
}

func writeIfChanged(path, content string) {
	old, err := os.ReadFile(path)
	if err == nil && string(old) == content {
		fmt.Println("unchanged", filepath.Base(path))
		return
	}
	if err := os.WriteFile(path, []byte(content), 0o644); err != nil {
		fail("%v", err)
	}
	fmt.Println("regenerated", filepath.Base(path))
}

func coqString(s string) string { return `"` + strings.ReplaceAll(s, `"`, `""`) + `"` }

// ---- selector builder expression -> wspec term ----

func methodCall(e ast.Expr) (recv string, name string, args []ast.Expr, ok bool) {
	c, ok1 := e.(*ast.CallExpr)
	if !ok1 {
		return
	}
	s, ok2 := c.Fun.(*ast.SelectorExpr)
	if !ok2 {
		return
	}
	id, ok3 := s.X.(*ast.Ident)
	if !ok3 {
		return
	}
	return id.Name, s.Sel.Name, c.Args, true
}

func keyOf(e ast.Expr) string {
	switch k := e.(type) {
	case *ast.BasicLit:
		v, err := strconv.Unquote(k.Value)
		if err != nil {
			fail("bad key literal %s", k.Value)
		}
		return v
	case *ast.SelectorExpr:
		if id, ok := k.X.(*ast.Ident); ok && id.Name == "selector" {
			if v, ok := selectorKeys[k.Sel.Name]; ok {
				return v
			}
		}
	}
	fail("unsupported field key expression %T", e)
	return ""
}

func specOf(fset *token.FileSet, e ast.Expr) string {
	recv, name, args, ok := methodCall(e)
	if !ok || recv != "ssb" {
		fail("%s: unsupported selector builder expression", fset.Position(e.Pos()))
	}
	switch name {
	case "Matcher":
		return "WMatcher"
	case "ExploreRecursiveEdge":
		return "WEdge"
	case "ExploreAll":
		return "(WAll " + specOf(fset, args[0]) + ")"
	case "ExploreRecursive":
		lr, ln, largs, ok := methodCall(args[0])
		if !ok || lr != "selector" {
			fail("%s: unsupported recursion limit", fset.Position(args[0].Pos()))
		}
		lim := ""
		switch ln {
		case "RecursionLimitNone":
			lim = "None"
		case "RecursionLimitDepth":
			lit, ok := largs[0].(*ast.BasicLit)
			if !ok {
				fail("non-literal recursion depth")
			}
			lim = "(Some " + lit.Value + "%Z)"
		default:
			fail("unsupported recursion limit %s", ln)
		}
		return "(WRec " + lim + " " + specOf(fset, args[1]) + ")"
	case "ExploreFields":
		fl, ok := args[0].(*ast.FuncLit)
		if !ok {
			fail("ExploreFields argument is not a function literal")
		}
		var fs []string
		for _, st := range fl.Body.List {
			es, ok := st.(*ast.ExprStmt)
			if !ok {
				fail("%s: unsupported statement in ExploreFields body", fset.Position(st.Pos()))
			}
			r, n, a, ok := methodCall(es.X)
			if !ok || r != "efsb" || n != "Insert" || len(a) != 2 {
				fail("%s: unsupported call in ExploreFields body", fset.Position(st.Pos()))
			}
			k := keyOf(a[0])
			if _, err := strconv.Atoi(k); err == nil {
				fail("numeric field key %q: the model assumes field keys never address list indices", k)
			}
			fs = append(fs, "("+coqString(k)+", "+specOf(fset, a[1])+")")
		}
		return "(WFields [" + strings.Join(fs, ";\n    ") + "])"
	}
	fail("%s: unsupported selector builder method %s", fset.Position(e.Pos()), name)
	return ""
}

func genMaxDepthSel(repo, out string) {
	fset := token.NewFileSet()
	f, err := parser.ParseFile(fset, filepath.Join(repo, "selectorvalidator", "selectorvalidator.go"), nil, 0)
	if err != nil {
		fail("%v", err)
	}
	spec := ""
	ast.Inspect(f, func(n ast.Node) bool {
		as, ok := n.(*ast.AssignStmt)
		if !ok || len(as.Lhs) < 1 || len(as.Rhs) != 1 {
			return true
		}
		id, ok := as.Lhs[0].(*ast.Ident)
		if !ok || id.Name != "maxDepthSelector" {
			return true
		}
		c, ok := as.Rhs[0].(*ast.CallExpr)
		if !ok {
			fail("maxDepthSelector is not assigned from a call")
		}
		s, ok := c.Fun.(*ast.SelectorExpr)
		if !ok || s.Sel.Name != "Selector" {
			fail("maxDepthSelector is not assigned from <spec>.Selector()")
		}
		spec = specOf(fset, s.X)
		return false
	})
	if spec == "" {
		fail("assignment to maxDepthSelector not found")
	}
	// default accepted depth
	g, err := parser.ParseFile(fset, filepath.Join(repo, "impl", "graphsync.go"), nil, 0)
	if err != nil {
		fail("%v", err)
	}
	depth := ""
	ast.Inspect(g, func(n ast.Node) bool {
		vs, ok := n.(*ast.ValueSpec)
		if !ok {
			return true
		}
		for i, nm := range vs.Names {
			if nm.Name == "maxRecursionDepth" && i < len(vs.Values) {
				if lit, ok := vs.Values[i].(*ast.BasicLit); ok {
					depth = lit.Value
				}
			}
		}
		return true
	})
	if depth == "" {
		fail("const maxRecursionDepth not found in impl/graphsync.go")
	}
	content := `(* GENERATED by /verif/harness/cmd/gsgen from /repo/selectorvalidator/selectorvalidator.go init()
   and /repo/impl/graphsync.go (maxRecursionDepth).  Do not edit: rewritten on every run. *)
From Coq Require Import List String ZArith.
From GS Require Import SelWalk.
Import ListNotations.
Open Scope string_scope.

Definition max_depth_spec : wspec :=
  ` + spec + `.

Definition default_max_depth : Z := ` + depth + `%Z.
`
	writeIfChanged(filepath.Join(out, "GenMaxDepthSel.v"), content)
}

func main() {
	repo := flag.String("repo", "/repo", "repository root")
	out := flag.String("out", "", "output directory (coq/gen)")
	flag.Parse()
	if *out == "" {
		fail("-out required")
	}
	if err := os.MkdirAll(*out, 0o755); err != nil {
		fail("%v", err)
	}
	genMaxDepthSel(*repo, *out)
	for _, g := range generators {
		g(*repo, *out)
	}
}

// generators: further translators register themselves here from their own file's init()
var generators []func(repo, out string)
