// Command d_allocconc is the concurrent-callers driver of properties C13 and C14: scripts against the
// REAL allocator.Allocator in which some steps are GROUPS of 2-3 calls (AllocateBlockMemory /
// ReleaseBlockMemory / ReleasePeerMemory, mostly on one peer) issued by different goroutines and forced
// to overlap: the driver takes the allocator's lock through the verif hook VerifLock, starts one
// goroutine per call, waits until every one of them is parked on the lock (read off the goroutine
// stacks: a frame of allocator.(*Allocator) in state sync.RWMutex.Lock / sync.RWMutex.RLock /
// sync.Mutex.Lock), releases the lock and waits for all calls to return.  After every step it observes
// exactly as the sequential driver (gsdrive alloc) does: every outstanding result channel is polled,
// Stats, AllocatedForPeer of every peer.
//
// The order in which the parked calls then take the lock is the runtime's choice; Coq accepts a group's
// observation iff SOME order of its calls explains it (AllocConc.acc), and evaluates the C13 clauses
// that do not depend on the order (AllocConc.gmonitor13).  Readers parked in RLock are all admitted
// before any writer proceeds, and a writer waits for every admitted reader: a method that looks
// something up under the read lock and acts on it later under the write lock is thereby driven into
// the interleaving lookup / other writer / act.
package main

import (
	"fmt"
	"math"
	"runtime"
	"sort"
	"strings"
	"sync"
	"time"

	"github.com/ipfs/go-graphsync/allocator"
	"github.com/libp2p/go-libp2p/core/peer"

	"verif/harness/internal/cw"
	"verif/harness/internal/drv"
	"verif/harness/internal/rng"
)

type cOp struct {
	K string `json:"k"` // "alloc" | "release" | "releasepeer"
	P uint64 `json:"p"`
	A uint64 `json:"a"`
}

// cStep is one call (len(G) == 1) or a group of concurrent calls
type cStep struct {
	G    []cOp  `json:"g"`
	O    []int  `json:"o,omitempty"` // group: order in which the calls' goroutines are started and parked (default 0,1,2)
	Kind string `json:"kind,omitempty"`
}

type cCase struct {
	MT    uint64   `json:"mt"`
	MP    uint64   `json:"mp"`
	Univ  []uint64 `json:"univ"`
	Steps []cStep  `json:"steps"`
}

type cObs struct {
	outsCoq  []string
	Failed   bool
	Errs     []bool
	Total    uint64
	Pending  uint64
	NPending uint64
	Allocs   []uint64
}

type gState struct {
	state string
	body  string
}

var stackBuf = make([]byte, 1<<18)

func goroutineStates() []gState {
	buf := stackBuf
	n := runtime.Stack(buf, true)
	for n == len(buf) { // truncated: grow and retry
		stackBuf = make([]byte, 2*len(buf))
		buf = stackBuf
		n = runtime.Stack(buf, true)
	}
	var out []gState
	for _, blk := range strings.Split(string(buf[:n]), "\n\n") {
		lines := strings.Split(blk, "\n")
		if len(lines) < 2 || !strings.HasPrefix(lines[0], "goroutine ") {
			continue
		}
		st := ""
		if i := strings.Index(lines[0], "["); i >= 0 {
			st = strings.TrimSuffix(strings.TrimSpace(lines[0][i+1:]), "]:")
			if j := strings.Index(st, ","); j >= 0 {
				st = st[:j]
			}
		}
		out = append(out, gState{state: st, body: blk})
	}
	return out
}

// parkedOnAllocLock counts goroutines blocked on the allocator's lock inside an allocator method
func parkedOnAllocLock() int {
	n := 0
	for _, g := range goroutineStates() {
		if !strings.Contains(g.body, "go-graphsync/allocator.(*Allocator).") {
			continue
		}
		switch g.state {
		case "sync.RWMutex.RLock", "sync.RWMutex.Lock", "sync.Mutex.Lock", "semacquire":
			n++
		}
	}
	return n
}

type runResult struct {
	obs      []cObs
	panicked string // non-empty: a call panicked at step len(obs)
	hang     string // non-empty: calls did not return
	groups   int
}

var errNoPark = fmt.Errorf("group goroutines did not park on the allocator's lock")

func pid(p uint64) peer.ID { return peer.ID(fmt.Sprintf("peer-%d", p)) }

func runCase(c cCase) (runResult, error) {
	a := allocator.NewAllocator(c.MT, c.MP)
	type tk struct {
		id uint64
		ch <-chan error
	}
	var outstanding []tk
	next := uint64(0)
	var rr runResult
	// one call; returns its result channel (alloc) / error flag and a panic message
	call := func(o cOp) (ch <-chan error, isErr bool, pan string) {
		defer func() {
			if r := recover(); r != nil {
				pan = fmt.Sprint(r)
			}
		}()
		switch o.K {
		case "alloc":
			ch = a.AllocateBlockMemory(pid(o.P), o.A)
		case "release":
			isErr = a.ReleaseBlockMemory(pid(o.P), o.A) != nil
		case "releasepeer":
			isErr = a.ReleasePeerMemory(pid(o.P)) != nil
		}
		return
	}
	for _, st := range c.Steps {
		var ob cObs
		n := len(st.G)
		chs := make([]<-chan error, n)
		errs := make([]bool, n)
		pans := make([]string, n)
		if n == 1 {
			chs[0], errs[0], pans[0] = call(st.G[0])
		} else {
			rr.groups++
			before := parkedOnAllocLock()
			a.VerifLock()
			var wg sync.WaitGroup
			// start the calls one by one, each parked on the lock before the next is started: writers
			// then queue on the lock in this order
			order := st.O
			if !validOrder(order, n) {
				order = make([]int, n)
				for i := range order {
					order[i] = i
				}
			}
			deadline := time.Now().Add(20 * time.Second)
			for k, i := range order {
				wg.Add(1)
				go func(i int) {
					defer wg.Done()
					chs[i], errs[i], pans[i] = call(st.G[i])
				}(i)
				for parkedOnAllocLock()-before < k+1 {
					if time.Now().After(deadline) {
						a.VerifUnlock()
						wg.Wait()
						return rr, errNoPark
					}
					runtime.Gosched()
				}
			}
			// the waiter is parked in wg.Wait before the lock is released, so that nothing but the
			// group's calls becomes runnable when it is
			done := make(chan struct{})
			waiting := make(chan struct{})
			go func() { close(waiting); wg.Wait(); close(done) }()
			<-waiting
			runtime.Gosched()
			timer := time.NewTimer(30 * time.Second)
			a.VerifUnlock()
			select {
			case <-done:
				timer.Stop()
			case <-timer.C:
				rr.hang = fmt.Sprintf("calls of group %v did not return within 30s after the lock was released", st.G)
				return rr, nil
			}
		}
		for i := range st.G {
			if pans[i] != "" {
				rr.panicked = fmt.Sprintf("%s(%d,%d): %s", st.G[i].K, st.G[i].P, st.G[i].A, pans[i])
			}
		}
		if rr.panicked != "" {
			return rr, nil
		}
		for i, o := range st.G {
			if o.K == "alloc" {
				outstanding = append(outstanding, tk{next, chs[i]})
				next++
			}
		}
		ob.Errs = errs
		var keep []tk
		sort.Slice(outstanding, func(i, j int) bool { return outstanding[i].id < outstanding[j].id })
		for _, t := range outstanding {
			select {
			case err := <-t.ch:
				if err == nil {
					ob.outsCoq = append(ob.outsCoq, fmt.Sprintf("Granted %d", t.id))
				} else {
					ob.Failed = true
					ob.outsCoq = append(ob.outsCoq, fmt.Sprintf("Failed %d", t.id))
				}
			default:
				keep = append(keep, t)
			}
		}
		outstanding = keep
		s := a.Stats()
		ob.Total = s.TotalAllocatedAllPeers
		ob.Pending = s.TotalPendingAllocations
		ob.NPending = s.NumPeersWithPendingAllocations
		for _, p := range c.Univ {
			ob.Allocs = append(ob.Allocs, a.AllocatedForPeer(pid(p)))
		}
		rr.obs = append(rr.obs, ob)
	}
	return rr, nil
}

func validOrder(o []int, n int) bool {
	if len(o) != n {
		return false
	}
	seen := make([]bool, n)
	for _, i := range o {
		if i < 0 || i >= n || seen[i] {
			return false
		}
		seen[i] = true
	}
	return true
}

func opTerm(o cOp) string {
	switch o.K {
	case "alloc":
		return fmt.Sprintf("OAlloc %d %d", o.P, o.A)
	case "release":
		return fmt.Sprintf("ORelease %d %d", o.P, o.A)
	default:
		return fmt.Sprintf("OReleasePeer %d", o.P)
	}
}

func caseTerm(c cCase, obs []cObs) string {
	steps := make([]string, 0, len(obs))
	os := make([]string, 0, len(obs))
	for i, ob := range obs {
		st := c.Steps[i]
		if len(st.G) == 1 {
			steps = append(steps, "GOne ("+opTerm(st.G[0])+")")
		} else {
			ops := make([]string, len(st.G))
			for j, o := range st.G {
				ops[j] = opTerm(o)
			}
			steps = append(steps, "GGroup "+cw.List(ops))
		}
		es := make([]string, len(ob.Errs))
		for j, e := range ob.Errs {
			es[j] = cw.Bool(e)
		}
		os = append(os, fmt.Sprintf("mk_gobs (mk_obs %s false %d %d %d %s) %s", cw.List(ob.outsCoq), ob.Total, ob.Pending, ob.NPending, cw.NList(ob.Allocs), cw.List(es)))
	}
	return fmt.Sprintf("mk_ccase %d %d %s\n    %s\n    %s", c.MT, c.MP, cw.NList(c.Univ), cw.List(steps), cw.List(os))
}

// ---- generators ----

func genCase(r *rng.R, maxSteps int) (cCase, string) {
	np := r.Range(1, 4)
	c := cCase{}
	for i := 0; i < np; i++ {
		c.Univ = append(c.Univ, uint64(i+1))
	}
	kind := "small-limits"
	switch r.Intn(12) {
	case 0:
		kind = "huge-limits"
		c.MT = math.MaxUint64 - uint64(r.Intn(3))
		c.MP = math.MaxUint64 - uint64(r.Intn(5))
	case 1:
		kind = "peer-limit-above-total"
		c.MT = uint64(r.Range(1, 8))
		c.MP = c.MT + uint64(r.Range(0, 4))
	default:
		c.MT = uint64(r.Range(2, 16))
		c.MP = uint64(r.Range(1, int(c.MT)))
	}
	amount := func() uint64 {
		switch r.Intn(16) {
		case 0:
			return 0
		case 1:
			return c.MP
		case 2:
			return c.MP + 1
		case 3:
			return c.MT
		case 4:
			return c.MT + 1
		case 5:
			if r.P(1, 3) {
				return math.MaxUint64 - uint64(r.Intn(12))
			}
			return c.MP - 1
		default:
			m := c.MP
			if m > 6 {
				m = 6
			}
			if m == 0 {
				return 0
			}
			return uint64(r.Range(1, int(m)))
		}
	}
	held := map[uint64][]uint64{}
	relAmount := func(p uint64) uint64 {
		if len(held[p]) > 0 && r.P(8, 10) {
			k := r.Intn(len(held[p]))
			a := held[p][k]
			held[p] = append(held[p][:k], held[p][k+1:]...)
			return a
		}
		return amount()
	}
	mkAlloc := func(p uint64) cOp {
		a := amount()
		held[p] = append(held[p], a)
		return cOp{"alloc", p, a}
	}
	mkRel := func(p uint64) cOp { return cOp{"release", p, relAmount(p)} }
	mkRelPeer := func(p uint64) cOp { held[p] = nil; return cOp{"releasepeer", p, 0} }
	single := func(p uint64) cOp {
		x := r.Intn(100)
		switch {
		case x < 55:
			return mkAlloc(p)
		case x < 90:
			return mkRel(p)
		default:
			return mkRelPeer(p)
		}
	}
	n := r.Range(1, maxSteps)
	groups := 0
	for i := 0; i < n; i++ {
		p := rng.Pick(r, c.Univ)
		if !r.P(3, 10) || groups >= 10 {
			c.Steps = append(c.Steps, cStep{G: []cOp{single(p)}})
			continue
		}
		groups++
		q := rng.Pick(r, c.Univ)
		var g []cOp
		gk := ""
		switch r.Intn(9) {
		case 0, 1:
			gk = "release+releasepeer(same peer)"
			g = []cOp{mkRel(p), mkRelPeer(p)}
		case 2:
			gk = "alloc+releasepeer(same peer)"
			g = []cOp{mkAlloc(p), mkRelPeer(p)}
		case 3:
			gk = "release+release"
			g = []cOp{mkRel(p), mkRel(q)}
		case 4:
			gk = "alloc+alloc"
			g = []cOp{mkAlloc(p), mkAlloc(q)}
		case 5:
			gk = "alloc+release"
			g = []cOp{mkAlloc(p), mkRel(q)}
		case 6:
			gk = "release+releasepeer+alloc"
			g = []cOp{mkRel(p), mkRelPeer(p), mkAlloc(q)}
		case 7:
			gk = "release+release+releasepeer(same peer)"
			g = []cOp{mkRel(p), mkRel(p), mkRelPeer(p)}
		default:
			gk = "random"
			k := r.Range(2, 3)
			for j := 0; j < k; j++ {
				g = append(g, single(rng.Pick(r, c.Univ)))
			}
		}
		if r.Bool() { // script order of the calls carries no meaning; vary it
			g[0], g[len(g)-1] = g[len(g)-1], g[0]
		}
		// order in which the calls are parked on the lock
		ord := make([]int, len(g))
		for j := range ord {
			ord[j] = j
		}
		for j := len(ord) - 1; j > 0; j-- {
			k := r.Intn(j + 1)
			ord[j], ord[k] = ord[k], ord[j]
		}
		c.Steps = append(c.Steps, cStep{G: g, O: ord, Kind: gk})
	}
	return c, kind
}

const header = `From Coq Require Import List NArith Bool.
From GS Require Import Base Alloc AllocConc.
Import ListNotations.
Open Scope N_scope.
Definition mk_obs := Build_obs.
Definition mk_gobs := Build_gobs.
Definition mk_ccase := Build_ccase.
`

func run(c *drv.Ctx) error {
	w := cw.New(c.Out, header, "ccase", []cw.Check{
		{Name: "MISMATCH", Fn: "ccase_agrees"},
		{Name: "MON13C", Fn: "ccase_mon13"},
		{Name: "MON14C", Fn: "ccase_mon14"},
	})
	w.Stats.Rule = "scripts of allocate/release/release-peer over 1-4 peers on the real allocator.Allocator in which ~30% of the steps " +
		"(at most 10 per script) are groups of 2-3 calls issued by different goroutines, all parked on the allocator's lock " +
		"(verif hook VerifLock, parked state read off the goroutine stacks) before any of them runs; groups mostly touch one peer " +
		"(release+release-peer, allocate+release-peer, release+release, allocate+allocate, ...); releases mirror earlier " +
		"allocations 80% of the time; ~8% with limits near 2^64 and hostile amounts; non-trivial = at least one group; " +
		"distinct = distinct (config, script, observation) terms"
	overl := 0
	add := func(cc cCase, tag string) error {
		rr, err := runCase(cc)
		if err == errNoPark { // deadline expired (overloaded machine): run the case once more
			rr, err = runCase(cc)
		}
		if err != nil {
			return err
		}
		overl += rr.groups
		tags := []string{"kind:" + tag, fmt.Sprintf("steps:%02d-%02d", len(cc.Steps)/10*10, len(cc.Steps)/10*10+9)}
		waited, failed := false, false
		for _, ob := range rr.obs {
			if ob.Pending > 0 || ob.NPending > 0 {
				waited = true
			}
			failed = failed || ob.Failed
		}
		if waited {
			tags = append(tags, "has-waiting")
		}
		if failed {
			tags = append(tags, "has-failed-ticket")
		}
		for _, st := range cc.Steps {
			if len(st.G) > 1 {
				k := st.Kind
				if k == "" {
					k = "unlabelled"
				}
				tags = append(tags, "group:"+k)
			}
		}
		idx := w.Add(caseTerm(cc, rr.obs), cc, rr.groups > 0, tags...)
		if rr.panicked != "" {
			w.Violation(idx, "panic in the allocator with concurrent callers at step "+fmt.Sprint(len(rr.obs))+": "+rr.panicked, "allocconc-panic")
		}
		if rr.hang != "" {
			w.Violation(idx, rr.hang, "allocconc-hang")
		}
		return nil
	}
	if c.Replay != "" {
		var cc cCase
		if err := drv.ReplayCase(c.Replay, &cc); err != nil {
			return err
		}
		if err := add(cc, "replay"); err != nil {
			return err
		}
		return w.Flush()
	}
	for _, f := range c.CorpusFiles("allocconc") {
		var cc cCase
		if err := drv.ReplayCase(f, &cc); err != nil {
			return fmt.Errorf("%s: %w", f, err)
		}
		if err := add(cc, "corpus"); err != nil {
			return err
		}
	}
	n := c.Count(1200, 10000)
	for i := 0; i < n; i++ {
		cc, kind := genCase(c.R.Fork(), 30)
		if err := add(cc, kind); err != nil {
			return err
		}
	}
	w.Stats.Extra = map[string]any{"groups_run_with_all_calls_parked_on_the_lock": overl}
	return w.Flush()
}

func main() {
	// one P: the goroutines of a group run only when the driver yields, the lock's wait queues are served
	// in the order the calls were parked, and a history is a function of the case (replayable)
	runtime.GOMAXPROCS(1)
	drv.Main("allocconc", run)
}
