package main

// The "pool" family: a fixed pool of W outgoing workers (1 or 2).  Requests A_1..A_W occupy every worker
// (running, online, waiting for the responder); B_1..B_W are queued behind them and cancelled while still
// Queued (they leave the table at once, their tasks stay in the task queue); C is queued.  Then the A's are
// cancelled: the freed workers pop the stale tasks of the B's (answered with an Empty task) and must go on to
// run C, which is then answered completely and must close its channels.
// Requests whose task sits behind busy workers are observed with OSettle (no refusal: the one-request model
// would pop the task at once); the others with OQuiet as usual.  One trace per request.

import (
	"bytes"
	"context"
	"errors"
	"fmt"
	"io"
	"sync"
	"time"

	blocks "github.com/ipfs/go-block-format"
	"github.com/ipfs/go-graphsync"
	"github.com/ipfs/go-graphsync/listeners"
	gsmsg "github.com/ipfs/go-graphsync/message"
	"github.com/ipfs/go-graphsync/persistenceoptions"
	"github.com/ipfs/go-graphsync/requestmanager"
	"github.com/ipfs/go-graphsync/requestmanager/executor"
	"github.com/ipfs/go-graphsync/requestmanager/hooks"
	"github.com/ipfs/go-graphsync/taskqueue"
	"github.com/ipld/go-ipld-prime/datamodel"
	"github.com/ipld/go-ipld-prime/linking"
	cidlink "github.com/ipld/go-ipld-prime/linking/cid"
	"github.com/libp2p/go-libp2p/core/peer"

	"verif/harness/internal/dag"
	"verif/harness/internal/rng"
)

type poolSpec struct {
	W int `json:"w"` // workers = number of A's = number of B's
}

func genPool(r *rng.R) rcase { return rcase{Kind: "pool", Pool: &poolSpec{W: r.Range(1, 2)}} }

type poolResult struct {
	reqs   []*preq
	hung   bool
	goViol string
}

func runPool(ps poolSpec) (res poolResult) {
	sel := dag.AllSelector()
	ctx, cancelAll := context.WithCancel(context.Background())
	defer cancelAll()
	var mu sync.Mutex
	W := ps.W
	var As, Bs []*preq
	n := 2
	mk := func(name string) *preq {
		q := &preq{name: name, d: dag.Chain(n), g: &gate{ch: make(chan bool)}, live: true}
		n++
		q.order, q.plan = computePlan(q.d, sel)
		q.id = graphsync.NewRequestID()
		res.reqs = append(res.reqs, q)
		return q
	}
	for i := 0; i < W; i++ {
		As = append(As, mk(fmt.Sprintf("A%d", i+1)))
	}
	for i := 0; i < W; i++ {
		Bs = append(Bs, mk(fmt.Sprintf("B%d", i+1)))
	}
	C := mk("C")
	settleMode := map[*preq]bool{}
	owner := map[string]*preq{}
	byID := map[graphsync.RequestID]*preq{}
	for _, q := range res.reqs {
		byID[q.id] = q
		for _, b := range q.d.Blocks {
			owner[b.Cid.KeyString()] = q
		}
	}
	store := map[string][]byte{}
	var storeMu sync.Mutex
	lsys := cidlink.DefaultLinkSystem()
	lsys.TrustedStorage = true
	lsys.StorageReadOpener = func(_ linking.LinkContext, l datamodel.Link) (io.Reader, error) {
		k := l.(cidlink.Link).Cid.KeyString()
		storeMu.Lock()
		data, ok := store[k]
		storeMu.Unlock()
		if q := owner[k]; q != nil {
			mu.Lock()
			if ok {
				q.log = append(q.log, "OLoaded CLocOk")
			} else {
				q.log = append(q.log, "OLoaded CLocMiss")
			}
			mu.Unlock()
		}
		if !ok {
			return nil, errors.New("not found")
		}
		return bytes.NewReader(data), nil
	}
	lsys.StorageWriteOpener = func(linking.LinkContext) (io.Writer, linking.BlockWriteCommitter, error) {
		var buf bytes.Buffer
		return &buf, func(l datamodel.Link) error {
			k := l.(cidlink.Link).Cid.KeyString()
			storeMu.Lock()
			store[k] = append([]byte(nil), buf.Bytes()...)
			storeMu.Unlock()
			if q := owner[k]; q != nil {
				mu.Lock()
				q.log = append(q.log, "OLoaded CRemOk")
				mu.Unlock()
			}
			return nil
		}, nil
	}
	tq := taskqueue.NewTaskQueue(ctx)
	rm := requestmanager.New(ctx, persistenceoptions.New(), lsys, hooks.NewRequestHooks(), hooks.NewResponseHooks(),
		listeners.NewNetworkErrorListeners(), listeners.NewRequestProcessingListeners(), tq, connMgr{}, 0, nil)
	ex := executor.NewExecutor(rm, hooks.NewBlockHooks())
	rm.SetDelegate(pairHandler{&mu, byID})
	rm.Startup()
	tq.Startup(uint64(W), &pairExec{inner: ex, byID: byID})
	defer func() {
		cancelAll()
		settle()
	}()
	p := peer.ID("responder-peer")

	var lastStates map[graphsync.RequestID]graphsync.RequestState
	quiet := func() bool {
		if !settle() {
			res.hung = true
			return false
		}
		psCh := make(chan map[graphsync.RequestID]graphsync.RequestState, 1)
		go func() { psCh <- rm.PeerState(p).RequestStates }()
		select {
		case lastStates = <-psCh:
		case <-time.After(8 * time.Second):
			res.goViol = "PeerState did not return: the actor loop is blocked at a parked point"
			return false
		}
		if !settle() {
			res.hung = true
			return false
		}
		mu.Lock()
		for _, q := range res.reqs {
			if q.cancel == nil {
				continue
			}
			if settleMode[q] {
				q.log = append(q.log, "OSettle")
				continue
			}
			tbl := "None"
			s, ok := lastStates[q.id]
			q.live = ok
			switch {
			case !ok:
			case s == graphsync.Queued:
				tbl = "(Some Queued)"
			case s == graphsync.Running:
				tbl = "(Some Running)"
			case s == graphsync.Paused:
				tbl = "(Some Paused)"
			}
			if q.news != q.seenNews {
				q.seenNews = q.news
				q.next = 0
			}
			q.log = append(q.log, "OQuiet None "+tbl)
		}
		mu.Unlock()
		return true
	}
	start := func(q *preq) bool {
		cctx, cancel := context.WithCancel(context.WithValue(ctx, graphsync.RequestIDContextKey{}, q.id))
		q.cancel = cancel
		q.prog, q.errc = rm.NewRequest(cctx, p, q.d.Root(), sel)
		return quiet()
	}
	recv := func(q *preq) bool {
		progress := false
		mu.Lock()
		if !q.closedP {
			select {
			case _, ok := <-q.prog:
				progress = true
				if !ok {
					q.closedP = true
					q.log = append(q.log, "ORecvP RClosed")
				} else {
					q.log = append(q.log, "ORecvP RGot")
				}
			default:
				q.log = append(q.log, "ORecvP RNothing")
			}
		}
		mu.Unlock()
		if !quiet() {
			return false
		}
		mu.Lock()
		if !q.closedE {
			select {
			case e, ok := <-q.errc:
				progress = true
				if !ok {
					q.closedE = true
					q.log = append(q.log, "ORecvE RClosed ErrCC")
				} else {
					q.log = append(q.log, "ORecvE RGot "+classify(e))
				}
			default:
				q.log = append(q.log, "ORecvE RNothing ErrCC")
			}
		}
		mu.Unlock()
		if !quiet() {
			return false
		}
		return progress
	}
	failed := func() bool { return res.hung || res.goViol != "" }
	drain := func(q *preq) bool {
		for i := 0; i < 400; i++ {
			pr := recv(q)
			if failed() {
				return false
			}
			if !pr {
				return true
			}
		}
		return true
	}
	cancelReq := func(q *preq) bool {
		mu.Lock()
		q.log = append(q.log, "OEnv LEnvCtxCancel")
		mu.Unlock()
		q.cancel()
		return quiet() && drain(q)
	}

	// --- script
	for _, a := range As {
		if !start(a) {
			return
		}
	}
	for _, b := range Bs {
		settleMode[b] = true
		if !start(b) {
			return
		}
	}
	settleMode[C] = true
	if !start(C) {
		return
	}
	for _, q := range append(append([]*preq{}, Bs...), C) {
		if lastStates[q.id] != graphsync.Queued {
			res.goViol = "driver: request " + q.name + " is not Queued behind the busy workers"
			return
		}
	}
	for _, b := range Bs { // cancelled while Queued: gone from the table at once, stale task stays in the queue
		if !cancelReq(b) {
			return
		}
		if !(b.closedP && b.closedE) {
			res.goViol = "request " + b.name + " cancelled while queued: channels not closed"
			return
		}
	}
	settleMode[C] = false // from the moment a worker is free C's task is popped at once
	for _, a := range As {
		if !cancelReq(a) {
			return
		}
	}
	if lastStates[C.id] != graphsync.Running {
		res.goViol = fmt.Sprintf("every other request is gone and %d worker(s) were freed, but the queued request C never started (state %v): a worker that popped the stale task of a request cancelled while queued did not come back", W, lastStates[C.id])
		return
	}
	// C is answered completely
	var md []gsmsg.GraphSyncLinkMetadatum
	var blks []blocks.Block
	for _, i := range C.order {
		b := C.d.Blocks[i]
		md = append(md, gsmsg.GraphSyncLinkMetadatum{Link: b.Cid, Action: graphsync.LinkActionPresent})
		blk, _ := blocks.NewBlockWithCid(b.Data, b.Cid)
		blks = append(blks, blk)
	}
	mu.Lock()
	C.log = append(C.log, fmt.Sprintf("OEnv (LEnvResp (Build_resp SSucc %d false))", len(md)))
	mu.Unlock()
	rm.ProcessResponses(p, []gsmsg.GraphSyncResponse{gsmsg.NewResponse(C.id, graphsync.RequestCompletedFull, md)}, blks)
	if !quiet() || !drain(C) {
		return
	}
	if !(C.closedP && C.closedE) {
		res.goViol = "request C was answered completely and the caller kept reading, but its channels are not closed"
	}
	return
}

