// Command d_reqlife drives the REAL requestmanager.RequestManager (real executor, real
// ReconciledLoader, real ipldutil.Traverser, real WorkerTaskQueue with one worker, real hooks) for C04:
// one request over a small real DAG, the driver playing responder, caller, hooks and local store.
//
// The driver performs one action at a time (deliver a response chunk, cancel the context, call
// CancelRequest / PauseRequest / UnpauseRequest, report a send failure, release the gate the executor
// is parked at, try a non-blocking receive on a returned channel) and then waits until every goroutine
// of the process is parked (goroutine states from runtime.Stack: no timing guesses).  What it saw —
// its own actions, the messages handed to the peer handler in order, the receive results, and at every
// parked point whether the executor sits at a gate and what PeerState reports — is written as a
// Coq `list obs`; Coq checks that the model LTS accepts it (ReqMgr.accepts_from) and evaluates the
// C04 monitor on it.
package main

import (
	"bytes"
	"context"
	"encoding/json"
	"errors"
	"fmt"
	"io"
	"os"
	"path/filepath"
	"runtime"
	"strconv"
	"strings"
	"sync"
	"time"

	blocks "github.com/ipfs/go-block-format"
	"github.com/ipfs/go-cid"
	"github.com/ipfs/go-graphsync"
	"github.com/ipfs/go-graphsync/ipldutil"
	"github.com/ipfs/go-graphsync/listeners"
	gsmsg "github.com/ipfs/go-graphsync/message"
	"github.com/ipfs/go-graphsync/messagequeue"
	"github.com/ipfs/go-graphsync/notifications"
	"github.com/ipfs/go-graphsync/persistenceoptions"
	"github.com/ipfs/go-graphsync/requestmanager"
	"github.com/ipfs/go-graphsync/requestmanager/executor"
	"github.com/ipfs/go-graphsync/requestmanager/hooks"
	"github.com/ipfs/go-graphsync/taskqueue"
	"github.com/ipfs/go-peertaskqueue/peertask"
	"github.com/ipld/go-ipld-prime"
	"github.com/ipld/go-ipld-prime/datamodel"
	"github.com/ipld/go-ipld-prime/linking"
	cidlink "github.com/ipld/go-ipld-prime/linking/cid"
	"github.com/ipld/go-ipld-prime/node/basicnode"
	"github.com/ipld/go-ipld-prime/traversal"
	"github.com/libp2p/go-libp2p/core/peer"
	mh "github.com/multiformats/go-multihash"

	"verif/harness/internal/cw"
	"verif/harness/internal/dag"
	"verif/harness/internal/drv"
	"verif/harness/internal/rng"
)

func main() { drv.Main("reqlife", run) }

// ---------------------------------------------------------------- cases

type rop struct {
	K       string `json:"k"`                 // resp ctxcancel apicancel pause unpause sendfail go recvp recve
	N       int    `json:"n,omitempty"`       // resp: number of metadata items
	St      string `json:"st,omitempty"`      // resp: partial | succ | fail
	Code    int    `json:"code,omitempty"`    // resp fail: status code
	HookErr bool   `json:"hookerr,omitempty"` // resp: response hook fails; go: block hook fails
	Bad     bool   `json:"bad,omitempty"`     // resp: first item names a wrong link
}

type rcase struct {
	Kind    string       `json:"kind"` // chain | tree
	N       int          `json:"n"`
	DagSeed uint64       `json:"dagseed"`
	Local   uint64       `json:"local"` // bit i: block i is in the local store
	GP      bool         `json:"gp"`    // gate before ExecuteTask
	GH      bool         `json:"gh"`    // gate inside the block hook and the local store read
	Ops     []rop        `json:"ops"`
	Pair    *pairSpec    `json:"pair,omitempty"`    // two-request family (pair.go); the fields above are unused then
	Pool    *poolSpec    `json:"pool,omitempty"`    // worker-pool family (pool.go)
	Backlog *backlogSpec `json:"backlog,omitempty"` // full-mailbox family (backlog.go)
	Tags    []string     `json:"tags,omitempty"`
}

func (c *rcase) dag() *dag.DAG {
	if c.Kind == "tree" {
		return dag.Gen(rng.New(c.DagSeed), dag.Opts{MaxBlocks: c.N, MaxFanout: 2})
	}
	return dag.Chain(c.N)
}

func genCase(r *rng.R) rcase {
	c := rcase{Kind: "chain", N: r.Range(1, 5), DagSeed: r.U64()}
	if r.P(3, 10) {
		c.Kind = "tree"
		c.N = r.Range(2, 5)
	}
	switch r.Intn(5) {
	case 0: // nothing local
	case 1:
		c.Local = (1 << uint(r.Range(0, c.N))) - 1 // a prefix
	case 2:
		c.Local = (1 << uint(c.N+1)) - 1 // everything
	default:
		c.Local = r.U64() & 0xff
	}
	c.GP = r.P(3, 10)
	c.GH = r.P(5, 10)
	n := r.Range(3, 14)
	for i := 0; i < n; i++ {
		x := r.Intn(100)
		switch {
		case x < 36:
			o := rop{K: "resp", N: r.Range(0, 3), St: "partial"}
			y := r.Intn(10)
			if y >= 6 && y < 8 {
				o.St = "succ"
			} else if y >= 8 {
				o.St = "fail"
				o.Code = r.Range(30, 35)
			}
			o.HookErr = r.P(1, 16)
			o.Bad = o.N > 0 && r.P(1, 16)
			c.Ops = append(c.Ops, o)
		case x < 62:
			c.Ops = append(c.Ops, rop{K: "go", HookErr: r.P(1, 10)})
		case x < 70:
			c.Ops = append(c.Ops, rop{K: "recvp"})
		case x < 78:
			c.Ops = append(c.Ops, rop{K: "recve"})
		case x < 84:
			c.Ops = append(c.Ops, rop{K: "ctxcancel"})
		case x < 89:
			c.Ops = append(c.Ops, rop{K: "apicancel"})
		case x < 94:
			c.Ops = append(c.Ops, rop{K: "pause"})
		case x < 98:
			c.Ops = append(c.Ops, rop{K: "unpause"})
		default:
			c.Ops = append(c.Ops, rop{K: "sendfail"})
		}
	}
	return c
}

// ---------------------------------------------------------------- traversal plan of a DAG

type pentry struct{ vok, vskip, sz int }

// traverseOnce steps the real ipldutil.Traverser over the full DAG, answering load number `skip` with
// SkipMe; returns the block indices loaded and the visitor calls after each load.
func traverseOnce(d *dag.DAG, sel ipld.Node, skip int) (order []int, visitsAfter []int) {
	ctx, cancel := context.WithCancel(context.Background())
	defer cancel()
	visits := 0
	tr := ipldutil.TraversalBuilder{
		Root: d.Root(), Selector: sel,
		Visitor:    func(traversal.Progress, ipld.Node, traversal.VisitReason) error { visits++; return nil },
		LinkSystem: cidlink.DefaultLinkSystem(),
	}.Start(ctx)
	j := 0
	for {
		done, _ := tr.IsComplete()
		if j > 0 {
			visitsAfter = append(visitsAfter, visits)
		}
		visits = 0
		if done {
			break
		}
		lnk, _ := tr.CurrentRequest()
		idx := d.Index(lnk.(cidlink.Link).Cid)
		order = append(order, idx)
		if j == skip {
			tr.Error(traversal.SkipMe{})
		} else {
			_ = tr.Advance(bytes.NewReader(d.Blocks[idx].Data))
		}
		j++
	}
	tr.Shutdown(ctx)
	return
}

func computePlan(d *dag.DAG, sel ipld.Node) ([]int, []pentry) {
	order, vok := traverseOnce(d, sel, -1)
	plan := make([]pentry, len(order))
	for j := range order {
		o2, v2 := traverseOnce(d, sel, j)
		plan[j] = pentry{vok: vok[j], vskip: v2[j], sz: len(order) - len(o2)}
	}
	return order, plan
}

// ---------------------------------------------------------------- fakes at the edges

type gate struct {
	mu      sync.Mutex
	waiting string // "" | pop | hook | store
	found   bool   // store gate: the block is present
	ch      chan bool
}

func (g *gate) wait(kind string, found bool) bool {
	g.mu.Lock()
	g.waiting, g.found = kind, found
	g.mu.Unlock()
	return <-g.ch
}
func (g *gate) held() (string, bool) {
	g.mu.Lock()
	defer g.mu.Unlock()
	return g.waiting, g.found
}
func (g *gate) release(v bool) {
	g.mu.Lock()
	g.waiting = ""
	g.mu.Unlock()
	g.ch <- v
}

type gatedExec struct {
	inner *executor.Executor
	g     *gate
	on    bool
}

func (e *gatedExec) ExecuteTask(ctx context.Context, pid peer.ID, task *peertask.Task) bool {
	if e.on {
		e.g.wait("pop", false)
	}
	return e.inner.ExecuteTask(ctx, pid, task)
}

type connMgr struct{}

func (connMgr) Protect(peer.ID, string)        {}
func (connMgr) Unprotect(peer.ID, string) bool { return false }

type world struct {
	mu   sync.Mutex
	log  []string
	subs []notifications.Subscriber
	news int // new-request messages seen
}

func (w *world) add(s string) { w.log = append(w.log, s) }

type peerHandler struct{ w *world }

func (ph peerHandler) AllocateAndBuildMessage(p peer.ID, blkSize uint64, fn func(*messagequeue.Builder)) {
	b := messagequeue.NewBuilder(context.Background(), messagequeue.Topic(0))
	fn(b)
	m, err := b.Build()
	if err != nil {
		panic(err)
	}
	ph.w.mu.Lock()
	defer ph.w.mu.Unlock()
	for _, rq := range m.Requests() {
		switch rq.Type() {
		case graphsync.RequestTypeNew:
			ph.w.add("OSent ONew")
			ph.w.news++
		case graphsync.RequestTypeCancel:
			ph.w.add("OSent OCancel")
		default:
			ph.w.add("OSent OUpdate") // not in the model: rejected
		}
	}
	for _, s := range b.Subscribers() {
		ph.w.subs = append(ph.w.subs, s)
	}
}

var errHook = errors.New("verif: hook says no")

const hookErrExt = graphsync.ExtensionName("verif/hookerr")

func classify(err error) string {
	var miss graphsync.RemoteMissingBlockErr
	switch {
	case errors.As(err, &graphsync.RequestClientCancelledErr{}):
		return "ErrCC"
	case errors.Is(err, errHook):
		return "ErrHook"
	case errors.As(err, &miss):
		return "ErrMissing"
	case errors.As(err, &graphsync.RequestFailedBusyErr{}):
		return "(ErrStatus 31%N)"
	case errors.As(err, &graphsync.RequestFailedUnknownErr{}):
		return "(ErrStatus 32%N)"
	case errors.As(err, &graphsync.RequestFailedLegalErr{}):
		return "(ErrStatus 33%N)"
	case errors.As(err, &graphsync.RequestFailedContentNotFoundErr{}):
		return "(ErrStatus 34%N)"
	case errors.As(err, &graphsync.RequestCancelledErr{}):
		return "(ErrStatus 35%N)"
	}
	const pre = "unknown response status code: "
	if s := err.Error(); strings.HasPrefix(s, pre) {
		if n, e := strconv.Atoi(s[len(pre):]); e == nil {
			return fmt.Sprintf("(ErrStatus %d%%N)", n)
		}
	}
	return "ErrHard"
}

// ---------------------------------------------------------------- parking detection

type gState struct{ state, body string }

var stackBuf = make([]byte, 1<<20)

func goroutineStates() []gState {
	buf := stackBuf
	n := runtime.Stack(buf, true)
	var out []gState
	for _, blk := range strings.Split(string(buf[:n]), "\n\n") {
		lines := strings.SplitN(blk, "\n", 2)
		if len(lines) < 2 || !strings.HasPrefix(lines[0], "goroutine ") {
			continue
		}
		st := ""
		if i := strings.Index(lines[0], "["); i >= 0 {
			st = strings.TrimSuffix(strings.TrimSpace(lines[0][i+1:]), "]:")
			if j := strings.Index(st, ","); j >= 0 {
				st = st[:j]
			}
		}
		out = append(out, gState{state: st, body: blk})
	}
	return out
}

func allParked() bool {
	for _, g := range goroutineStates() {
		if strings.Contains(g.body, "main.goroutineStates") {
			continue // this goroutine
		}
		switch g.state {
		case "running", "runnable", "syscall", "sleep", "":
			if strings.Contains(g.body, "os/signal.") {
				continue
			}
			return false
		}
	}
	return true
}

// settle waits until every other goroutine is parked (twice in a row); false = the wait expired
func settle() bool {
	deadline := time.Now().Add(10 * time.Second)
	ok := 0
	for time.Now().Before(deadline) {
		if allParked() {
			ok++
			if ok >= 2 {
				return true
			}
			runtime.Gosched()
			continue
		}
		ok = 0
		time.Sleep(30 * time.Microsecond)
	}
	return false
}

// ---------------------------------------------------------------- one case

type result struct {
	plan    []pentry
	trace   []string
	hung    bool   // a settle wait expired
	goViol  string // violation established here (hang of an API call, unexpected message kind)
	closedP bool
	closedE bool
}

func runCase(c rcase) (res result) {
	d := c.dag()
	sel := dag.AllSelector()
	order, plan := computePlan(d, sel)
	res.plan = plan

	ctx, cancelAll := context.WithCancel(context.Background())
	defer cancelAll()
	w := &world{}
	g := &gate{ch: make(chan bool)}
	// local store with a gated read
	store := map[string][]byte{}
	for i, b := range d.Blocks {
		if c.Local&(1<<uint(i)) != 0 {
			store[b.Cid.KeyString()] = b.Data
		}
	}
	var storeMu sync.Mutex
	lsys := cidlink.DefaultLinkSystem()
	lsys.TrustedStorage = true
	lsys.StorageReadOpener = func(_ linking.LinkContext, l datamodel.Link) (io.Reader, error) {
		k := l.(cidlink.Link).Cid.KeyString()
		storeMu.Lock()
		data, ok := store[k]
		storeMu.Unlock()
		if c.GH {
			g.wait("store", ok)
		} else {
			w.mu.Lock()
			if ok {
				w.add("OLoaded CLocOk")
			} else {
				w.add("OLoaded CLocMiss")
			}
			w.mu.Unlock()
		}
		if !ok {
			return nil, errors.New("not found")
		}
		return bytes.NewReader(data), nil
	}
	lsys.StorageWriteOpener = func(linking.LinkContext) (io.Writer, linking.BlockWriteCommitter, error) {
		var buf bytes.Buffer
		return &buf, func(l datamodel.Link) error {
			storeMu.Lock()
			store[l.(cidlink.Link).Cid.KeyString()] = append([]byte(nil), buf.Bytes()...)
			storeMu.Unlock()
			w.mu.Lock()
			w.add("OLoaded CRemOk")
			w.mu.Unlock()
			return nil
		}, nil
	}
	reqHooks := hooks.NewRequestHooks()
	respHooks := hooks.NewResponseHooks()
	blockHooks := hooks.NewBlockHooks()
	respHooks.Register(func(p peer.ID, rd graphsync.ResponseData, ha graphsync.IncomingResponseHookActions) {
		if _, ok := rd.Extension(hookErrExt); ok {
			ha.TerminateWithError(errHook)
		}
	})
	blockHooks.Register(func(p peer.ID, rd graphsync.ResponseData, bd graphsync.BlockData, ha graphsync.IncomingBlockHookActions) {
		if c.GH {
			if g.wait("hook", false) {
				ha.TerminateWithError(errHook)
			}
		}
	})
	tq := taskqueue.NewTaskQueue(ctx)
	rm := requestmanager.New(ctx, persistenceoptions.New(), lsys, reqHooks, respHooks,
		listeners.NewNetworkErrorListeners(), listeners.NewRequestProcessingListeners(), tq, connMgr{}, 0, nil)
	ex := executor.NewExecutor(rm, blockHooks)
	rm.SetDelegate(peerHandler{w})
	rm.Startup()
	tq.Startup(1, &gatedExec{inner: ex, g: g, on: c.GP})
	defer func() {
		// let everything exit: gates first
		cancelAll()
		for i := 0; i < 4; i++ {
			if k, _ := g.held(); k != "" {
				g.release(false)
			}
			settle()
		}
	}()

	p := peer.ID("responder-peer")
	id := graphsync.NewRequestID()
	callerCtx, callerCancel := context.WithCancel(context.WithValue(ctx, graphsync.RequestIDContextKey{}, id))
	defer callerCancel()
	progCh, errCh := rm.NewRequest(callerCtx, p, d.Root(), sel)

	apiDone := make(chan error, 64)
	apiPending := 0
	next := 0 // next entry of `order` the responder sends
	seenNews := 0

	quiet := func() bool {
		if !settle() {
			res.hung = true
			return false
		}
		// PeerState goes through the actor loop: ask from a helper so that a stuck loop is an observation
		psCh := make(chan string, 1)
		go func() {
			ps := rm.PeerState(p)
			s, ok := ps.RequestStates[id]
			switch {
			case !ok:
				psCh <- "None"
			case s == graphsync.Queued:
				psCh <- "(Some Queued)"
			case s == graphsync.Running:
				psCh <- "(Some Running)"
			case s == graphsync.Paused:
				psCh <- "(Some Paused)"
			default:
				psCh <- "(Some Queued) (* unexpected state *)"
			}
		}()
		var tbl string
		select {
		case tbl = <-psCh:
		case <-time.After(10 * time.Second):
			res.goViol = "PeerState did not return: the actor loop is blocked at a parked point"
			return false
		}
		if !settle() {
			res.hung = true
			return false
		}
		k, _ := g.held()
		w.mu.Lock()
		// the responder restarts its stream when it sees a new request message
		if w.news != seenNews {
			seenNews = w.news
			next = 0
		}
		w.add(fmt.Sprintf("OQuiet %s %s", gkind(k, true), tbl))
		w.mu.Unlock()
		return true
	}
	act := func(obs string, f func()) bool {
		w.mu.Lock()
		w.add(obs)
		w.mu.Unlock()
		f()
		return quiet()
	}
	recvP := func() (string, bool) {
		w.mu.Lock()
		defer w.mu.Unlock()
		select {
		case _, ok := <-progCh:
			if !ok {
				res.closedP = true
				w.add("ORecvP RClosed")
				return "closed", true
			}
			w.add("ORecvP RGot")
			return "got", true
		default:
			w.add("ORecvP RNothing")
			return "nothing", true
		}
	}
	recvE := func() (string, bool) {
		w.mu.Lock()
		defer w.mu.Unlock()
		select {
		case e, ok := <-errCh:
			if !ok {
				res.closedE = true
				w.add("ORecvE RClosed ErrCC")
				return "closed", true
			}
			w.add("ORecvE RGot " + classify(e))
			return "got", true
		default:
			w.add("ORecvE RNothing ErrCC")
			return "nothing", true
		}
	}
	doOp := func(o rop) bool {
		switch o.K {
		case "resp":
			var md []gsmsg.GraphSyncLinkMetadatum
			var blks []blocks.Block
			for i := 0; i < o.N && next < len(order); i++ {
				b := d.Blocks[order[next]]
				next++
				lnk := b.Cid
				if o.Bad && i == 0 {
					h, _ := mh.Sum([]byte("bogus"), mh.SHA2_256, -1)
					lnk = cid.NewCidV1(cid.Raw, h)
				}
				md = append(md, gsmsg.GraphSyncLinkMetadatum{Link: lnk, Action: graphsync.LinkActionPresent})
				blk, _ := blocks.NewBlockWithCid(b.Data, b.Cid)
				blks = append(blks, blk)
			}
			status, cls := graphsync.PartialResponse, "SPartial"
			switch o.St {
			case "succ":
				status, cls = graphsync.RequestCompletedFull, "SSucc"
			case "fail":
				status, cls = graphsync.ResponseStatusCode(o.Code), fmt.Sprintf("(SFail %d%%N)", o.Code)
			}
			var exts []graphsync.ExtensionData
			if o.HookErr {
				exts = append(exts, graphsync.ExtensionData{Name: hookErrExt, Data: basicnode.NewBool(true)})
			}
			rsp := gsmsg.NewResponse(id, status, md, exts...)
			return act(fmt.Sprintf("OEnv (LEnvResp (Build_resp %s %d %s))", cls, len(md), cw.Bool(o.HookErr)), func() {
				rm.ProcessResponses(p, []gsmsg.GraphSyncResponse{rsp}, blks)
			})
		case "ctxcancel":
			return act("OEnv LEnvCtxCancel", callerCancel)
		case "apicancel":
			apiPending++
			return act("OEnv LEnvApiCancel", func() { go func() { apiDone <- rm.CancelRequest(ctx, id) }() })
		case "pause":
			return act("OEnv LEnvPause", func() { go func() { _ = rm.PauseRequest(ctx, id) }() })
		case "unpause":
			return act("OEnv LEnvUnpause", func() { go func() { _ = rm.UnpauseRequest(ctx, id) }() })
		case "sendfail":
			w.mu.Lock()
			var s notifications.Subscriber
			if len(w.subs) > 0 {
				s = w.subs[len(w.subs)-1]
			}
			w.mu.Unlock()
			if s == nil {
				return true
			}
			return act("OEnv LEnvSendFail", func() {
				s.OnNext(messagequeue.Topic(0), messagequeue.Event{Name: messagequeue.Error, Err: errors.New("send failed")})
			})
		case "go":
			k, found := g.held()
			if k == "" {
				return true
			}
			choice, v := "CLocOk", false
			switch k {
			case "hook":
				if o.HookErr {
					choice, v = "CHookErr", true
				}
			case "store":
				if !found {
					choice = "CLocMiss"
				}
			}
			return act("OExecGo "+gkind(k, false)+" "+choice, func() { g.release(v) })
		case "recvp":
			if res.closedP {
				return true
			}
			recvP()
			return quiet()
		case "recve":
			if res.closedE {
				return true
			}
			recvE()
			return quiet()
		}
		return true
	}

	if !quiet() {
		return finish(&res, w)
	}
	for _, o := range c.Ops {
		if !doOp(o) {
			return finish(&res, w)
		}
	}
	// end phase: let everything that can happen without the responder happen; then cancel; then again
	drain := func() bool {
		for i := 0; i < 400; i++ {
			progress := false
			if k, _ := g.held(); k != "" {
				if !doOp(rop{K: "go"}) {
					return false
				}
				progress = true
			}
			if !res.closedP {
				r, _ := recvP()
				if !quiet() {
					return false
				}
				progress = progress || r != "nothing"
			}
			if !res.closedE {
				r, _ := recvE()
				if !quiet() {
					return false
				}
				progress = progress || r != "nothing"
			}
			if !progress {
				return true
			}
		}
		return true
	}
	if !drain() {
		return finish(&res, w)
	}
	if !(res.closedP && res.closedE) {
		if !doOp(rop{K: "ctxcancel"}) || !drain() {
			return finish(&res, w)
		}
	}
	// every CancelRequest call must have returned by now if the request is gone
	if res.closedP && res.closedE {
		for i := 0; i < apiPending; i++ {
			select {
			case <-apiDone:
			case <-time.After(10 * time.Second):
				res.goViol = "CancelRequest did not return although both channels are closed"
			}
		}
	}
	return finish(&res, w)
}

func gkind(k string, opt bool) string {
	t := map[string]string{"pop": "GPop", "hook": "GHook", "store": "GStore"}[k]
	if !opt {
		return t
	}
	if t == "" {
		return "None"
	}
	return "(Some " + t + ")"
}

func finish(res *result, w *world) result {
	w.mu.Lock()
	res.trace = append([]string(nil), w.log...)
	w.mu.Unlock()
	return *res
}

// ---------------------------------------------------------------- driver

const header = `From Coq Require Import List NArith Bool.
From GS Require Import Base ReqMgr.
Import ListNotations.
`

func run(c *drv.Ctx) error {
	w := cw.New(c.Out, header, "rcase", []cw.Check{
		{Name: "MISMATCH", Fn: "rcase_accepts"},
		{Name: "MON04", Fn: "rcase_monitor"},
	})
	w.ShardSize = 24
	w.Stats.Rule = "one request over a real DAG (chain or small tree, any subset of blocks local) against the real RequestManager + executor + " +
		"ReconciledLoader + traverser + task queue; scripts of response chunks (partial / success / failure status, hook error, wrong link), " +
		"context cancel, CancelRequest, pause, unpause, send failure, gate releases (before ExecuteTask, in the block hook, in the local store read) " +
		"and channel reads, each applied at a parked point; every script ends by draining, then cancelling the context, then draining; " +
		"every 8th generated case is a two-request case (A paused or re-queued, B running online, one message with a status for each, either order), two traces; " +
		"non-trivial = the script contains a cancel, a terminal status, a pause or a hook error; distinct = distinct terms"
	var cases []rcase
	var kinds []string
	if c.Replay != "" {
		var rc rcase
		if err := drv.ReplayCase(c.Replay, &rc); err != nil {
			return err
		}
		cases, kinds = append(cases, rc), append(kinds, "replay")
	} else {
		for _, f := range c.CorpusFiles("reqlife") {
			var rc rcase
			if err := drv.ReplayCase(f, &rc); err != nil {
				return fmt.Errorf("%s: %w", f, err)
			}
			cases, kinds = append(cases, rc), append(kinds, "corpus")
		}
		n := c.Count(128, 3000)
		// streams of adjacent seeds of internal/rng are shifts of one another: decorrelate through one Fork
		r := c.R.Fork()
		for i := 0; i < n; i++ {
			if i%8 == 7 {
				cases, kinds = append(cases, genPair(r.Fork())), append(kinds, "random")
				continue
			}
			if i%16 == 11 {
				cases, kinds = append(cases, genPool(r.Fork())), append(kinds, "random")
				continue
			}
			if i%16 == 3 {
				cases, kinds = append(cases, genBacklog(r.Fork())), append(kinds, "random")
				continue
			}
			cases, kinds = append(cases, genCase(r.Fork())), append(kinds, "random")
		}
	}
	retried := 0
	for i, rc := range cases {
		// a driver that dies or hangs inside a case leaves the case behind for bin/check
		if b, err := json.Marshal(rc); err == nil {
			_ = os.WriteFile(filepath.Join(c.Out, "inflight.json"), b, 0o644)
		}
		if rc.Pool != nil {
			pr := runPool(*rc.Pool)
			if pr.hung {
				time.Sleep(200 * time.Millisecond)
				pr = runPool(*rc.Pool)
				retried++
			}
			tags := []string{"kind:" + kinds[i], "pool", fmt.Sprintf("pool-workers-%d", rc.Pool.W)}
			rc.Tags = tags
			for j, q := range pr.reqs {
				idx := w.Add(q.term(), rc, true, tags...)
				if pr.hung {
					w.Violation(idx, "the goroutines of the request manager never parked (10 s, twice): livelock", "reqlife-never-parked")
				}
				if pr.goViol != "" && j == len(pr.reqs)-1 {
					w.Violation(idx, pr.goViol, "reqlife-pool-starved")
				}
			}
			continue
		}
		if rc.Backlog != nil {
			br := runBacklog(*rc.Backlog)
			if br.hung {
				time.Sleep(200 * time.Millisecond)
				br = runBacklog(*rc.Backlog)
				retried++
			}
			tags := []string{"kind:" + kinds[i], "backlog", "backlog-" + rc.Backlog.Cause}
			if rc.Backlog.Fillers >= mailboxSlots {
				tags = append(tags, "backlog-mailbox-full")
			}
			rc.Tags = tags
			idx := w.Add(br.q.term(), rc, true, tags...)
			if br.hung {
				w.Violation(idx, "the goroutines of the request manager never parked (10 s, twice): livelock", "reqlife-never-parked")
			}
			if br.goViol != "" {
				w.Violation(idx, br.goViol, map[bool]string{true: "reqlife-resume-lost", false: "reqlife-backlog-hang"}[rc.Backlog.Cause == "resume"])
			}
			continue
		}
		if rc.Pair != nil {
			pr := runPair(*rc.Pair)
			if pr.hung {
				time.Sleep(200 * time.Millisecond)
				pr = runPair(*rc.Pair)
				retried++
			}
			tags := []string{"kind:" + kinds[i], "pair", "pair-a-" + rc.Pair.AMode, "pair-sta-" + rc.Pair.StA, "pair-stb-" + rc.Pair.StB}
			if rc.Pair.AFirst {
				tags = append(tags, "pair-a-first")
			}
			rc.Tags = tags
			for _, q := range pr.reqs {
				idx := w.Add(q.term(), rc, true, tags...)
				if pr.hung {
					w.Violation(idx, "the goroutines of the request manager never parked (10 s, twice): livelock", "reqlife-never-parked")
				}
				if pr.goViol != "" && q == pr.reqs[1] {
					w.Violation(idx, pr.goViol, "reqlife-not-closed")
				}
			}
			continue
		}
		res := runCase(rc)
		if res.hung {
			time.Sleep(200 * time.Millisecond)
			res = runCase(rc)
			retried++
		}
		tags := []string{"kind:" + kinds[i], "dag:" + rc.Kind}
		nontrivial := false
		for _, o := range rc.Ops {
			switch {
			case o.K == "ctxcancel" || o.K == "apicancel":
				tags, nontrivial = append(tags, "has-"+o.K), true
			case o.K == "pause" || o.K == "unpause":
				tags, nontrivial = append(tags, "has-"+o.K), true
			case o.K == "resp" && o.St != "partial":
				tags, nontrivial = append(tags, "has-terminal-"+o.St), true
			case o.HookErr:
				tags, nontrivial = append(tags, "has-hookerr"), true
			}
		}
		if rc.GP {
			tags = append(tags, "gate-pop")
		}
		if rc.GH {
			tags = append(tags, "gate-hook-store")
		}
		tags = dedup(tags)
		var pl []string
		for j, e := range res.plan {
			pl = append(pl, fmt.Sprintf("Build_pentry %d %d %d %s", e.vok, e.vskip, e.sz, cw.Bool(j == 0)))
		}
		term := fmt.Sprintf("Build_rcase %s %s %s\n    %s", cw.List(pl), cw.Bool(rc.GP), cw.Bool(rc.GH), cw.List(res.trace))
		rc.Tags = tags
		idx := w.Add(term, rc, nontrivial, tags...)
		if res.hung {
			w.Violation(idx, "the goroutines of the request manager never parked (10 s, twice): livelock", "reqlife-never-parked")
		}
		if res.goViol != "" {
			w.Violation(idx, res.goViol, "reqlife-api-hang")
		}
	}
	if retried > 0 {
		w.Stats.Extra = map[string]any{"cases_rerun_after_wait_expired": retried}
	}
	_ = os.Remove(filepath.Join(c.Out, "inflight.json"))
	return w.Flush()
}

func dedup(xs []string) []string {
	seen := map[string]bool{}
	var out []string
	for _, x := range xs {
		if !seen[x] {
			seen[x] = true
			out = append(out, x)
		}
	}
	return out
}
