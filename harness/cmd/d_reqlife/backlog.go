package main

// The "backlog" family: a request that is NOT running (paused through its block hook) meets its terminal
// cause (failure status, response-hook error, CancelRequest) while the actor loop is held inside a slow
// incoming-response hook, the 16-slot mailbox rm.messages is full behind it, and the caller has cancelled the
// request context.  When the hook returns the loop terminates the request and hands the terminal error over
// on inProgressErr; the only goroutine left to receive it is the response collector inside
// cancelRequestAndClose, which at that moment cannot enqueue its own cancel message (mailbox full) and must
// therefore keep draining while it waits to send.  Both channels must close and the manager must go on
// answering (PeerState).
//
// Precondition particular to this family: the mailbox bound (16).  The model's mailbox is unbounded, so a
// collector that first sends and only then drains is not a deadlock of the model; the family checks it on the
// real code (Go-side: PeerState answers, both channels close; fail-fast).  While the loop is held no refusal
// is claimed (observation OSettle instead of OQuiet).

import (
	"bytes"
	"context"
	"errors"
	"fmt"
	"io"
	"sync"
	"time"

	blocks "github.com/ipfs/go-block-format"
	"github.com/ipfs/go-graphsync"
	"github.com/ipfs/go-graphsync/listeners"
	gsmsg "github.com/ipfs/go-graphsync/message"
	"github.com/ipfs/go-graphsync/persistenceoptions"
	"github.com/ipfs/go-graphsync/requestmanager"
	"github.com/ipfs/go-graphsync/requestmanager/executor"
	"github.com/ipfs/go-graphsync/requestmanager/hooks"
	"github.com/ipfs/go-graphsync/taskqueue"
	"github.com/ipfs/go-peertaskqueue/peertask"
	"github.com/ipld/go-ipld-prime/datamodel"
	"github.com/ipld/go-ipld-prime/linking"
	cidlink "github.com/ipld/go-ipld-prime/linking/cid"
	"github.com/ipld/go-ipld-prime/node/basicnode"
	"github.com/libp2p/go-libp2p/core/peer"

	"verif/harness/internal/dag"
	"verif/harness/internal/rng"
)

const mailboxSlots = 16 // cap(rm.messages), requestmanager.New

type backlogSpec struct {
	N       int    `json:"n"`     // chain length (>= 3)
	Cause   string `json:"cause"` // fail | hookerr | apicancel | resume (unpause issued before the paused task is marked done)
	Code    int    `json:"code,omitempty"`
	Fillers int    `json:"fillers"` // unrelated response messages queued behind the held one (16 fills the mailbox)
}

func genBacklog(r *rng.R) rcase {
	b := &backlogSpec{N: r.Range(3, 5), Cause: "fail", Code: r.Range(30, 35), Fillers: mailboxSlots}
	switch r.Intn(3) {
	case 0:
		b.Cause = "hookerr"
	case 1:
		b.Cause = "apicancel"
	}
	if r.P(1, 4) {
		b.Fillers = r.Range(0, mailboxSlots-2) // mailbox not full: the easy variant
	}
	if r.P(1, 3) {
		b.Cause, b.Fillers = "resume", 0 // pause by block hook, unpause before TaskDone has happened
	}
	return rcase{Kind: "backlog", Backlog: b}
}

// gateQueue is the real worker task queue whose TaskDone can be held by the driver (one shot): in /repo TaskDone
// runs inside the actor loop (releaseRequestTask), so nothing can overtake it; a TaskDone moved to the worker
// goroutine leaves a window in which an unpause finds the request Paused while its topic is still active.
type gateQueue struct {
	*taskqueue.WorkerTaskQueue
	g     *gate
	mu    *sync.Mutex
	armed *bool
}

func (q *gateQueue) TaskDone(p peer.ID, task *peertask.Task) {
	q.mu.Lock()
	a := *q.armed
	*q.armed = false
	q.mu.Unlock()
	if a {
		q.g.wait("taskdone", false)
	}
	q.WorkerTaskQueue.TaskDone(p, task)
}

type backlogResult struct {
	q      *preq
	hung   bool
	goViol string
}

func runBacklog(bs backlogSpec) (res backlogResult) {
	sel := dag.AllSelector()
	ctx, cancelAll := context.WithCancel(context.Background())
	defer cancelAll()
	var mu sync.Mutex
	q := &preq{name: "R", d: dag.Chain(bs.N), g: &gate{ch: make(chan bool)}, gh: true, live: true}
	res.q = q
	q.order, q.plan = computePlan(q.d, sel)
	q.id = graphsync.NewRequestID()
	rg := &gate{ch: make(chan bool)} // the slow response hook
	armed := false                   // guarded by mu

	store := map[string][]byte{}
	var storeMu sync.Mutex
	lsys := cidlink.DefaultLinkSystem()
	lsys.TrustedStorage = true
	lsys.StorageReadOpener = func(_ linking.LinkContext, l datamodel.Link) (io.Reader, error) {
		k := l.(cidlink.Link).Cid.KeyString()
		storeMu.Lock()
		data, ok := store[k]
		storeMu.Unlock()
		q.g.wait("store", ok)
		if !ok {
			return nil, errors.New("not found")
		}
		return bytes.NewReader(data), nil
	}
	lsys.StorageWriteOpener = func(linking.LinkContext) (io.Writer, linking.BlockWriteCommitter, error) {
		var buf bytes.Buffer
		return &buf, func(l datamodel.Link) error {
			storeMu.Lock()
			store[l.(cidlink.Link).Cid.KeyString()] = append([]byte(nil), buf.Bytes()...)
			storeMu.Unlock()
			mu.Lock()
			q.log = append(q.log, "OLoaded CRemOk")
			mu.Unlock()
			return nil
		}, nil
	}
	blockHooks := hooks.NewBlockHooks()
	blockHooks.Register(func(p peer.ID, rd graphsync.ResponseData, bd graphsync.BlockData, ha graphsync.IncomingBlockHookActions) {
		if rd.RequestID() == q.id {
			if q.g.wait("hook", false) {
				ha.TerminateWithError(errHook)
			}
		}
	})
	respHooks := hooks.NewResponseHooks()
	respHooks.Register(func(p peer.ID, rd graphsync.ResponseData, ha graphsync.IncomingResponseHookActions) {
		if rd.RequestID() != q.id {
			return
		}
		mu.Lock()
		a := armed
		armed = false
		mu.Unlock()
		if a {
			if rg.wait("resp", false) {
				ha.TerminateWithError(errHook)
			}
		}
	})
	tq := taskqueue.NewTaskQueue(ctx)
	tg := &gate{ch: make(chan bool)} // TaskDone
	tdArmed := false                 // guarded by mu
	rm := requestmanager.New(ctx, persistenceoptions.New(), lsys, hooks.NewRequestHooks(), respHooks,
		listeners.NewNetworkErrorListeners(), listeners.NewRequestProcessingListeners(),
		&gateQueue{WorkerTaskQueue: tq, g: tg, mu: &mu, armed: &tdArmed}, connMgr{}, 0, nil)
	ex := executor.NewExecutor(rm, blockHooks)
	byID := map[graphsync.RequestID]*preq{q.id: q}
	rm.SetDelegate(pairHandler{&mu, byID})
	rm.Startup()
	tq.Startup(1, &pairExec{inner: ex, byID: byID})
	defer func() {
		cancelAll()
		for i := 0; i < 4; i++ {
			if k, _ := q.g.held(); k != "" {
				q.g.release(false)
			}
			if k, _ := rg.held(); k != "" {
				rg.release(false)
			}
			if k, _ := tg.held(); k != "" {
				tg.release(false)
			}
			settle()
		}
	}()
	p := peer.ID("responder-peer")

	settleOnly := func() bool { // parked, loop possibly held: no PeerState, no refusal
		if !settle() {
			res.hung = true
			return false
		}
		mu.Lock()
		q.log = append(q.log, "OSettle")
		mu.Unlock()
		return true
	}
	quiet := func() bool {
		if !settle() {
			res.hung = true
			return false
		}
		psCh := make(chan map[graphsync.RequestID]graphsync.RequestState, 1)
		go func() { psCh <- rm.PeerState(p).RequestStates }()
		var states map[graphsync.RequestID]graphsync.RequestState
		select {
		case states = <-psCh:
		case <-time.After(8 * time.Second):
			res.goViol = "PeerState did not return: the actor loop is blocked (terminal error hand-over with nobody receiving) and the whole request manager has stopped"
			return false
		}
		if !settle() {
			res.hung = true
			return false
		}
		mu.Lock()
		tbl := "None"
		s, ok := states[q.id]
		q.live = ok
		switch {
		case !ok:
		case s == graphsync.Queued:
			tbl = "(Some Queued)"
		case s == graphsync.Running:
			tbl = "(Some Running)"
		case s == graphsync.Paused:
			tbl = "(Some Paused)"
		}
		if q.news != q.seenNews {
			q.seenNews = q.news
			q.next = 0
		}
		k, _ := q.g.held()
		q.log = append(q.log, fmt.Sprintf("OQuiet %s %s", gkind(k, true), tbl))
		mu.Unlock()
		return true
	}
	logObs := func(o string) {
		mu.Lock()
		q.log = append(q.log, o)
		mu.Unlock()
	}
	goGate := func() bool {
		k, found := q.g.held()
		if k == "" {
			return true
		}
		choice := "CLocOk"
		if k == "store" && !found {
			choice = "CLocMiss"
		}
		logObs("OExecGo " + gkind(k, false) + " " + choice)
		q.g.release(false)
		return quiet()
	}
	mkResp := func(n int, status graphsync.ResponseStatusCode, cls string, hookerr bool) (gsmsg.GraphSyncResponse, []blocks.Block, string) {
		var md []gsmsg.GraphSyncLinkMetadatum
		var blks []blocks.Block
		for i := 0; i < n && q.next < len(q.order); i++ {
			b := q.d.Blocks[q.order[q.next]]
			q.next++
			md = append(md, gsmsg.GraphSyncLinkMetadatum{Link: b.Cid, Action: graphsync.LinkActionPresent})
			blk, _ := blocks.NewBlockWithCid(b.Data, b.Cid)
			blks = append(blks, blk)
		}
		var exts []graphsync.ExtensionData
		if hookerr {
			exts = append(exts, graphsync.ExtensionData{Name: hookErrExt, Data: basicnode.NewBool(true)})
		}
		return gsmsg.NewResponse(q.id, status, md, exts...), blks,
			fmt.Sprintf("OEnv (LEnvResp (Build_resp %s %d %s))", cls, len(md), map[bool]string{true: "true", false: "false"}[hookerr])
	}
	recvE := func() string {
		mu.Lock()
		defer mu.Unlock()
		if q.closedE {
			return "closed"
		}
		select {
		case e, ok := <-q.errc:
			if !ok {
				q.closedE = true
				q.log = append(q.log, "ORecvE RClosed ErrCC")
				return "closed"
			}
			q.log = append(q.log, "ORecvE RGot "+classify(e))
			return "got"
		default:
			q.log = append(q.log, "ORecvE RNothing ErrCC")
			return "nothing"
		}
	}
	recvP := func() string {
		mu.Lock()
		defer mu.Unlock()
		if q.closedP {
			return "closed"
		}
		select {
		case _, ok := <-q.prog:
			if !ok {
				q.closedP = true
				q.log = append(q.log, "ORecvP RClosed")
				return "closed"
			}
			q.log = append(q.log, "ORecvP RGot")
			return "got"
		default:
			q.log = append(q.log, "ORecvP RNothing")
			return "nothing"
		}
	}

	// --- bring the request to Paused
	cctx, cancelReq := context.WithCancel(context.WithValue(ctx, graphsync.RequestIDContextKey{}, q.id))
	q.cancel = cancelReq
	q.prog, q.errc = rm.NewRequest(cctx, p, q.d.Root(), sel)
	if !quiet() || !goGate() { // local read of the missing root: request sent
		return
	}
	rsp, blks, obs := mkResp(2, graphsync.PartialResponse, "SPartial", false)
	logObs(obs)
	rm.ProcessResponses(p, []gsmsg.GraphSyncResponse{rsp}, blks)
	if !quiet() {
		return
	}
	logObs("OEnv LEnvPause")
	go func() { _ = rm.PauseRequest(ctx, q.id) }()
	if !quiet() {
		return
	}
	if bs.Cause == "resume" {
		// the block hook returns with TaskDone held: the executor stops on the pause and releases its task;
		// an unpause is issued at once, before TaskDone has happened; then TaskDone is let go
		mu.Lock()
		tdArmed = true
		mu.Unlock()
		logObs("OExecGo GHook CLocOk")
		q.g.release(false)
		if !settleOnly() {
			return
		}
		if k, _ := tg.held(); k != "taskdone" {
			res.goViol = "driver: TaskDone was not reached after the pause"
			return
		}
		logObs("OEnv LEnvUnpause")
		go func() { _ = rm.UnpauseRequest(ctx, q.id) }()
		if !settleOnly() {
			return
		}
		tg.release(false)
		if !quiet() {
			return
		}
		if k, _ := q.g.held(); k == "" && q.live {
			// nothing held by the driver, request still in the table: it must not sit in the queue with idle workers
			if st := rm.PeerState(p).RequestStates[q.id]; st == graphsync.Queued {
				res.goViol = "UnpauseRequest returned and the request is Queued, but its task was never queued (topic still active when it was pushed): workers idle, the request never runs again and its channels never close"
				return
			}
		}
		for i := 0; i < 200; i++ {
			progress := false
			if k, _ := q.g.held(); k != "" {
				if !goGate() {
					return
				}
				progress = true
			}
			if r := recvP(); r == "got" {
				progress = true
			}
			if !quiet() {
				return
			}
			if r := recvE(); r == "got" {
				progress = true
			}
			if !quiet() {
				return
			}
			if !progress {
				break
			}
		}
		if !(q.closedP && q.closedE) {
			logObs("OEnv LEnvCtxCancel")
			cancelReq()
			if !quiet() {
				return
			}
			for i := 0; i < 200; i++ {
				progress := false
				if k, _ := q.g.held(); k != "" {
					if !goGate() {
						return
					}
					progress = true
				}
				if r := recvP(); r == "got" {
					progress = true
				}
				if !quiet() {
					return
				}
				if r := recvE(); r == "got" {
					progress = true
				}
				if !quiet() {
					return
				}
				if !progress {
					break
				}
			}
		}
		recvP()
		recvE()
		if !quiet() {
			return
		}
		if !(q.closedP && q.closedE) {
			res.goViol = "resumed request: caller kept reading and cancelled in the end, but the returned channels are not closed"
		}
		return
	}
	if !goGate() { // the block hook returns: pause token consumed, request Paused
		return
	}
	// --- hold the loop inside the response hook of message M0
	mu.Lock()
	armed = true
	mu.Unlock()
	var m0 gsmsg.GraphSyncResponse
	var m0obs string
	switch bs.Cause {
	case "fail":
		m0, _, m0obs = mkResp(0, graphsync.ResponseStatusCode(bs.Code), fmt.Sprintf("(SFail %d%%N)", bs.Code), false)
	case "hookerr":
		m0, _, m0obs = mkResp(0, graphsync.PartialResponse, "SPartial", false)
		m0obs = "OEnv (LEnvResp (Build_resp SPartial 0 true))" // the held hook itself will fail
	default:
		m0, _, m0obs = mkResp(0, graphsync.PartialResponse, "SPartial", false)
	}
	logObs(m0obs)
	rm.ProcessResponses(p, []gsmsg.GraphSyncResponse{m0}, nil)
	if !settleOnly() {
		return
	}
	if k, _ := rg.held(); k != "resp" {
		res.goViol = "driver: the response hook was not entered"
		return
	}
	queued := 0
	if bs.Cause == "apicancel" {
		logObs("OEnv LEnvApiCancel")
		go func() { _ = rm.CancelRequest(ctx, q.id) }()
		queued = 1
		if !settleOnly() {
			return
		}
	}
	// --- unrelated messages from the network pile up behind it
	fillDone := make(chan struct{})
	go func() {
		defer close(fillDone)
		for i := 0; i < bs.Fillers-queued; i++ {
			rm.ProcessResponses(p, []gsmsg.GraphSyncResponse{gsmsg.NewResponse(graphsync.NewRequestID(), graphsync.PartialResponse, nil)}, nil)
		}
	}()
	select {
	case <-fillDone:
	case <-time.After(8 * time.Second):
		res.goViol = "driver: could not queue the backlog (mailbox smaller than assumed)"
		return
	}
	// --- the caller gives up and keeps reading
	logObs("OEnv LEnvCtxCancel")
	cancelReq()
	if !settleOnly() {
		return
	}
	for i := 0; i < 6; i++ {
		r1 := recvE()
		if !settleOnly() {
			return
		}
		r2 := recvP()
		if !settleOnly() {
			return
		}
		if r1 != "got" && r2 != "got" {
			break
		}
	}
	// --- the slow hook returns
	rg.release(bs.Cause == "hookerr")
	if !quiet() {
		return
	}
	for i := 0; i < 200; i++ {
		progress := false
		if k, _ := q.g.held(); k != "" {
			if !goGate() {
				return
			}
			progress = true
		}
		if r := recvP(); r == "got" {
			progress = true
		}
		if !quiet() {
			return
		}
		if r := recvE(); r == "got" {
			progress = true
		}
		if !quiet() {
			return
		}
		if !progress {
			break
		}
	}
	// observe the closes
	recvP()
	recvE()
	if !quiet() {
		return
	}
	if !(q.closedP && q.closedE) {
		res.goViol = "terminal cause handled for a paused request after the caller cancelled its context, caller kept reading, but the returned channels are not closed"
	}
	return
}
