package main

// Two requests A and B to the same peer on ONE RequestManager (two workers, one gate per request).
// A is brought to Paused (pause token consumed inside its block hook) or, after an unpause, held Queued at
// the gate before ExecuteTask; B runs and waits online for the responder.  Then ONE message carries a status
// for each of them, in either slice order.  Each request's observations form its own trace, which the
// one-request model must accept (labels of the other request id do not touch this request's components);
// the C04 monitor is evaluated on each.

import (
	"bytes"
	"context"
	"errors"
	"fmt"
	"io"
	"sync"
	"time"

	blocks "github.com/ipfs/go-block-format"
	"github.com/ipfs/go-graphsync"
	"github.com/ipfs/go-graphsync/listeners"
	gsmsg "github.com/ipfs/go-graphsync/message"
	"github.com/ipfs/go-graphsync/messagequeue"
	"github.com/ipfs/go-graphsync/persistenceoptions"
	"github.com/ipfs/go-graphsync/requestmanager"
	"github.com/ipfs/go-graphsync/requestmanager/executor"
	"github.com/ipfs/go-graphsync/requestmanager/hooks"
	"github.com/ipfs/go-graphsync/taskqueue"
	"github.com/ipfs/go-peertaskqueue/peertask"
	"github.com/ipld/go-ipld-prime/datamodel"
	"github.com/ipld/go-ipld-prime/linking"
	cidlink "github.com/ipld/go-ipld-prime/linking/cid"
	"github.com/libp2p/go-libp2p/core/peer"

	"verif/harness/internal/cw"
	"verif/harness/internal/dag"
	"verif/harness/internal/rng"
)

type pairSpec struct {
	NA     int    `json:"na"`     // chain length of A
	NB     int    `json:"nb"`     // chain length of B (different from NA)
	AMode  string `json:"amode"`  // paused | queued | newbusy (B's NewRequest handed over while the loop is held in A's outgoing-request hook, B's context cancelled before the loop replies)
	AFirst bool   `json:"afirst"` // A's response precedes B's in the message
	StA    string `json:"sta"`    // partial | succ | fail
	CodeA  int    `json:"codea,omitempty"`
	StB    string `json:"stb"`
	CodeB  int    `json:"codeb,omitempty"`
	Reads  int    `json:"reads"` // channel reads on B before the joint message
}

func genPair(r *rng.R) rcase {
	p := &pairSpec{NA: r.Range(2, 4), AMode: "paused", AFirst: r.Bool(), StA: "fail", CodeA: r.Range(30, 35), StB: "succ", Reads: r.Intn(3)}
	p.NB = p.NA + 1
	if r.P(1, 2) {
		p.AMode = "queued"
	}
	if r.P(1, 4) {
		p.AMode = "newbusy"
	}
	switch r.Intn(6) {
	case 0:
		p.StA = "succ"
	case 1:
		p.StA = "partial"
	}
	switch r.Intn(3) {
	case 0:
		p.StB, p.CodeB = "fail", r.Range(30, 35)
	}
	return rcase{Kind: "pair", Pair: p}
}

type preq struct {
	name     string
	id       graphsync.RequestID
	d        *dag.DAG
	order    []int
	plan     []pentry
	next     int
	prog     <-chan graphsync.ResponseProgress
	errc     <-chan error
	cancel   func()
	closedP  bool
	closedE  bool
	log      []string
	g        *gate
	gp, gh   bool
	news     int
	seenNews int
	termLive bool // a failure status / cancel was applied while the request was in the table
	live     bool // last PeerState showed it in the table
}

type pairExec struct {
	inner *executor.Executor
	byID  map[graphsync.RequestID]*preq
}

func (e *pairExec) ExecuteTask(ctx context.Context, pid peer.ID, task *peertask.Task) bool {
	if rq, ok := e.byID[task.Topic.(graphsync.RequestID)]; ok && rq.gp {
		rq.g.wait("pop", false)
	}
	return e.inner.ExecuteTask(ctx, pid, task)
}

type pairHandler struct {
	mu   *sync.Mutex
	byID map[graphsync.RequestID]*preq
}

func (ph pairHandler) AllocateAndBuildMessage(p peer.ID, blkSize uint64, fn func(*messagequeue.Builder)) {
	b := messagequeue.NewBuilder(context.Background(), messagequeue.Topic(0))
	fn(b)
	m, err := b.Build()
	if err != nil {
		panic(err)
	}
	ph.mu.Lock()
	defer ph.mu.Unlock()
	for _, rq := range m.Requests() {
		q, ok := ph.byID[rq.ID()]
		if !ok {
			continue
		}
		switch rq.Type() {
		case graphsync.RequestTypeNew:
			q.log = append(q.log, "OSent ONew")
			q.news++
		case graphsync.RequestTypeCancel:
			q.log = append(q.log, "OSent OCancel")
		default:
			q.log = append(q.log, "OSent OUpdate")
		}
	}
}

type pairResult struct {
	reqs   [2]*preq
	hung   bool
	goViol string
}

func runPair(ps pairSpec) (res pairResult) {
	sel := dag.AllSelector()
	ctx, cancelAll := context.WithCancel(context.Background())
	defer cancelAll()
	var mu sync.Mutex
	A := &preq{name: "A", d: dag.Chain(ps.NA), g: &gate{ch: make(chan bool)}, gp: ps.AMode == "queued", gh: true, live: true}
	// newbusy: B's executor is held at the pop gate, so that the cancel (issued before the request exists) is handled at a
	// point the driver controls; a free-running executor racing the collector's cancel can put the cancel message on the
	// wire before the request message, an order of two concurrent sends that the one-request model does not contain
	B := &preq{name: "B", d: dag.Chain(ps.NB), g: &gate{ch: make(chan bool)}, gp: ps.AMode == "newbusy", live: true}
	res.reqs = [2]*preq{A, B}
	owner := map[string]*preq{}
	for _, q := range res.reqs {
		q.order, q.plan = computePlan(q.d, sel)
		q.id = graphsync.NewRequestID()
		for _, b := range q.d.Blocks {
			owner[b.Cid.KeyString()] = q
		}
	}
	byID := map[graphsync.RequestID]*preq{A.id: A, B.id: B}

	store := map[string][]byte{}
	var storeMu sync.Mutex
	lsys := cidlink.DefaultLinkSystem()
	lsys.TrustedStorage = true
	lsys.StorageReadOpener = func(_ linking.LinkContext, l datamodel.Link) (io.Reader, error) {
		k := l.(cidlink.Link).Cid.KeyString()
		storeMu.Lock()
		data, ok := store[k]
		storeMu.Unlock()
		q := owner[k]
		if q != nil && q.gh {
			q.g.wait("store", ok)
		} else if q != nil {
			mu.Lock()
			if ok {
				q.log = append(q.log, "OLoaded CLocOk")
			} else {
				q.log = append(q.log, "OLoaded CLocMiss")
			}
			mu.Unlock()
		}
		if !ok {
			return nil, errors.New("not found")
		}
		return bytes.NewReader(data), nil
	}
	lsys.StorageWriteOpener = func(linking.LinkContext) (io.Writer, linking.BlockWriteCommitter, error) {
		var buf bytes.Buffer
		return &buf, func(l datamodel.Link) error {
			k := l.(cidlink.Link).Cid.KeyString()
			storeMu.Lock()
			store[k] = append([]byte(nil), buf.Bytes()...)
			storeMu.Unlock()
			if q := owner[k]; q != nil {
				mu.Lock()
				q.log = append(q.log, "OLoaded CRemOk")
				mu.Unlock()
			}
			return nil
		}, nil
	}
	blockHooks := hooks.NewBlockHooks()
	blockHooks.Register(func(p peer.ID, rd graphsync.ResponseData, bd graphsync.BlockData, ha graphsync.IncomingBlockHookActions) {
		if q, ok := byID[rd.RequestID()]; ok && q.gh {
			if q.g.wait("hook", false) {
				ha.TerminateWithError(errHook)
			}
		}
	})
	// newbusy: the actor loop is held inside the outgoing-request hook of A
	ng := &gate{ch: make(chan bool)}
	requestHooks := hooks.NewRequestHooks()
	requestHooks.Register(func(_ peer.ID, rq graphsync.RequestData, _ graphsync.OutgoingRequestHookActions) {
		if ps.AMode == "newbusy" && rq.ID() == A.id {
			ng.wait("reqhook", false)
		}
	})
	tq := taskqueue.NewTaskQueue(ctx)
	rm := requestmanager.New(ctx, persistenceoptions.New(), lsys, requestHooks, hooks.NewResponseHooks(),
		listeners.NewNetworkErrorListeners(), listeners.NewRequestProcessingListeners(), tq, connMgr{}, 0, nil)
	ex := executor.NewExecutor(rm, blockHooks)
	rm.SetDelegate(pairHandler{&mu, byID})
	rm.Startup()
	tq.Startup(2, &pairExec{inner: ex, byID: byID})
	defer func() {
		cancelAll()
		for i := 0; i < 4; i++ {
			for _, q := range res.reqs {
				if k, _ := q.g.held(); k != "" {
					q.g.release(false)
				}
			}
			settle()
		}
	}()
	p := peer.ID("responder-peer")

	quiet := func() bool {
		if !settle() {
			res.hung = true
			return false
		}
		psCh := make(chan map[graphsync.RequestID]graphsync.RequestState, 1)
		go func() { psCh <- rm.PeerState(p).RequestStates }()
		var states map[graphsync.RequestID]graphsync.RequestState
		select {
		case states = <-psCh:
		case <-time.After(10 * time.Second):
			res.goViol = "PeerState did not return: the actor loop is blocked at a parked point"
			return false
		}
		if !settle() {
			res.hung = true
			return false
		}
		mu.Lock()
		for _, q := range res.reqs {
			if q.cancel == nil {
				continue // not started yet
			}
			tbl := "None"
			s, ok := states[q.id]
			q.live = ok
			switch {
			case !ok:
			case s == graphsync.Queued:
				tbl = "(Some Queued)"
			case s == graphsync.Running:
				tbl = "(Some Running)"
			case s == graphsync.Paused:
				tbl = "(Some Paused)"
			}
			if q.news != q.seenNews {
				q.seenNews = q.news
				q.next = 0
			}
			k, _ := q.g.held()
			q.log = append(q.log, fmt.Sprintf("OQuiet %s %s", gkind(k, true), tbl))
		}
		mu.Unlock()
		return true
	}
	start := func(q *preq) {
		cctx, cancel := context.WithCancel(context.WithValue(ctx, graphsync.RequestIDContextKey{}, q.id))
		q.cancel = cancel
		q.prog, q.errc = rm.NewRequest(cctx, p, q.d.Root(), sel)
	}
	act := func(q *preq, obs string, f func()) bool {
		mu.Lock()
		q.log = append(q.log, obs)
		mu.Unlock()
		f()
		return quiet()
	}
	goGate := func(q *preq) bool {
		k, found := q.g.held()
		if k == "" {
			return true
		}
		choice := "CLocOk"
		if k == "store" && !found {
			choice = "CLocMiss"
		}
		return act(q, "OExecGo "+gkind(k, false)+" "+choice, func() { q.g.release(false) })
	}
	mkResp := func(q *preq, n int, st string, code int) (gsmsg.GraphSyncResponse, []blocks.Block, string) {
		var md []gsmsg.GraphSyncLinkMetadatum
		var blks []blocks.Block
		for i := 0; i < n && q.next < len(q.order); i++ {
			b := q.d.Blocks[q.order[q.next]]
			q.next++
			md = append(md, gsmsg.GraphSyncLinkMetadatum{Link: b.Cid, Action: graphsync.LinkActionPresent})
			blk, _ := blocks.NewBlockWithCid(b.Data, b.Cid)
			blks = append(blks, blk)
		}
		status, cls := graphsync.PartialResponse, "SPartial"
		switch st {
		case "succ":
			status, cls = graphsync.RequestCompletedFull, "SSucc"
		case "fail":
			status, cls = graphsync.ResponseStatusCode(code), fmt.Sprintf("(SFail %d%%N)", code)
		}
		return gsmsg.NewResponse(q.id, status, md), blks,
			fmt.Sprintf("OEnv (LEnvResp (Build_resp %s %d false))", cls, len(md))
	}
	recv := func(q *preq) bool { // one non-blocking read of each open channel; reports progress
		progress := false
		mu.Lock()
		if !q.closedP {
			select {
			case _, ok := <-q.prog:
				progress = true
				if !ok {
					q.closedP = true
					q.log = append(q.log, "ORecvP RClosed")
				} else {
					q.log = append(q.log, "ORecvP RGot")
				}
			default:
				q.log = append(q.log, "ORecvP RNothing")
			}
		}
		mu.Unlock()
		if !quiet() {
			return false
		}
		mu.Lock()
		if !q.closedE {
			select {
			case e, ok := <-q.errc:
				progress = true
				if !ok {
					q.closedE = true
					q.log = append(q.log, "ORecvE RClosed ErrCC")
				} else {
					q.log = append(q.log, "ORecvE RGot "+classify(e))
				}
			default:
				q.log = append(q.log, "ORecvE RNothing ErrCC")
			}
		}
		mu.Unlock()
		if !quiet() {
			return false
		}
		return progress
	}
	failed := func() bool { return res.hung || res.goViol != "" }

	// --- script
	if ps.AMode == "newbusy" {
		// B's new-request message is handed to the actor loop while the loop is busy (held inside A's outgoing-request
		// hook); B's caller cancels its context before the loop gets to reply.  NewRequest must still hand back live
		// channels (B then ends with the client-cancelled error and two closes), the loop must not be left waiting for
		// a caller that went away, and A must still get its terminal status.
		begin := func(q *preq) chan struct{} {
			cctx, cancel := context.WithCancel(context.WithValue(ctx, graphsync.RequestIDContextKey{}, q.id))
			q.cancel = cancel
			done := make(chan struct{})
			go func() {
				pr, er := rm.NewRequest(cctx, p, q.d.Root(), sel)
				mu.Lock()
				q.prog, q.errc = pr, er
				mu.Unlock()
				close(done)
			}()
			return done
		}
		doneA := begin(A)
		if !settle() {
			res.hung = true
			return
		}
		if k, _ := ng.held(); k != "reqhook" {
			res.goViol = "driver: the outgoing-request hook was not entered"
			return
		}
		doneB := begin(B)
		if !settle() {
			res.hung = true
			return
		}
		mu.Lock()
		B.log = append(B.log, "OEnv LEnvCtxCancel")
		mu.Unlock()
		B.cancel()
		if !settle() {
			res.hung = true
			return
		}
		ng.release(false)
		for _, d := range []chan struct{}{doneA, doneB} {
			select {
			case <-d:
			case <-time.After(10 * time.Second):
				res.goViol = "NewRequest did not return after the loop was released"
				return
			}
		}
		if !quiet() {
			return
		}
		for i := 0; i < 3; i++ {
			if k, _ := A.g.held(); k == "pop" || k == "store" {
				if !goGate(A) {
					return
				}
			}
		}
		ra, ba, oa := mkResp(A, 0, "fail", ps.CodeA)
		mu.Lock()
		A.log = append(A.log, oa)
		if A.live {
			A.termLive = true
		}
		B.termLive = true // cancelled by its caller: must close without further help
		mu.Unlock()
		rm.ProcessResponses(p, []gsmsg.GraphSyncResponse{ra}, ba)
		if !quiet() {
			return
		}
		for _, q := range res.reqs {
			for i := 0; i < 400; i++ {
				progress := false
				if k, _ := q.g.held(); k != "" {
					if !goGate(q) {
						return
					}
					progress = true
				}
				if recv(q) {
					progress = true
				}
				if failed() {
					return
				}
				if !progress {
					break
				}
			}
			if !(q.closedP && q.closedE) {
				res.goViol = "request " + q.name + ": new request handed over while the loop was busy and B's caller cancelled before the reply; every gate was released and the caller kept reading, but the channels of " + q.name + " are not closed"
				return
			}
		}
		return
	}
	start(A)
	if !quiet() {
		return
	}
	start(B)
	if !quiet() {
		return
	}
	// A: through the pop gate (queued mode) and the local store read of its missing root: request sent
	for i := 0; i < 3; i++ {
		if k, _ := A.g.held(); k == "pop" || k == "store" {
			if !goGate(A) {
				return
			}
		}
	}
	// A: one block arrives; A parks in its block hook; pause; the hook returns: A is Paused
	rsp, blks, obs := mkResp(A, 1, "partial", 0)
	if !act(A, obs, func() { rm.ProcessResponses(p, []gsmsg.GraphSyncResponse{rsp}, blks) }) {
		return
	}
	if !act(A, "OEnv LEnvPause", func() { go func() { _ = rm.PauseRequest(ctx, A.id) }() }) {
		return
	}
	if k, _ := A.g.held(); k == "hook" {
		if !goGate(A) {
			return
		}
	}
	if ps.AMode == "queued" {
		if !act(A, "OEnv LEnvUnpause", func() { go func() { _ = rm.UnpauseRequest(ctx, A.id) }() }) {
			return
		}
	}
	for i := 0; i < ps.Reads; i++ {
		recv(B)
		if failed() {
			return
		}
	}
	// the joint message
	nB := 0
	switch ps.StB {
	case "succ":
		nB = len(B.order)
	case "partial":
		nB = 1
	}
	ra, ba, oa := mkResp(A, 0, ps.StA, ps.CodeA)
	rb, bb, ob := mkResp(B, nB, ps.StB, ps.CodeB)
	mu.Lock()
	A.log = append(A.log, oa)
	B.log = append(B.log, ob)
	if ps.StA == "fail" && A.live {
		A.termLive = true
	}
	if ps.StB == "fail" && B.live {
		B.termLive = true
	}
	mu.Unlock()
	rs := []gsmsg.GraphSyncResponse{ra, rb}
	if !ps.AFirst {
		rs = []gsmsg.GraphSyncResponse{rb, ra}
	}
	rm.ProcessResponses(p, rs, append(ba, bb...))
	if !quiet() {
		return
	}
	// end phase, per request: release gates and read until nothing moves; a request for which a failure
	// status was applied while it was in the table must be closed by then; otherwise cancel and drain again
	drain := func(q *preq) bool {
		for i := 0; i < 400; i++ {
			progress := false
			if k, _ := q.g.held(); k != "" {
				if !goGate(q) {
					return false
				}
				progress = true
			}
			if recv(q) {
				progress = true
			}
			if failed() {
				return false
			}
			if !progress {
				return true
			}
		}
		return true
	}
	for _, q := range res.reqs {
		if !drain(q) {
			return
		}
		if q.closedP && q.closedE {
			continue
		}
		if q.termLive {
			res.goViol = "request " + q.name + ": a failure status was applied while the request was in the table, every gate was released and the caller kept reading, but its channels are not closed"
			return
		}
		if !act(q, "OEnv LEnvCtxCancel", q.cancel) || !drain(q) {
			return
		}
	}
	return
}

func (q *preq) term() string {
	var pl []string
	for j, e := range q.plan {
		pl = append(pl, fmt.Sprintf("Build_pentry %d %d %d %s", e.vok, e.vskip, e.sz, cw.Bool(j == 0)))
	}
	return fmt.Sprintf("Build_rcase %s %s %s\n    %s", cw.List(pl), cw.Bool(q.gp), cw.Bool(q.gh), cw.List(q.log))
}
