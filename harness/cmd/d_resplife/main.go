// d_resplife: driver for C05 (every incoming request is eventually fully retired by the responder).
//
// Drives the REAL responsemanager.ResponseManager + queryexecutor.QueryExecutor + ResponseAssembler +
// PeerMessageManager/MessageQueue + WorkerTaskQueue (one worker) + the real hook and listener registries,
// with fakes only at the edges: a scripted network (every SendMsg parks until the script decides its
// outcome; a failure is a disconnect of the peer), a recording ConnManager, a block hook that parks the
// executor at every block until the script releases it (continue / pause / error), and a dummy task
// that can occupy the only worker.  One request per case.  A label is applied when every goroutine of
// the stack is parked (detected from goroutine stacks: no sleeps as synchronisation) and the stack then
// runs until everything is parked again; after every label the driver records PeerState, the
// Protect/Unprotect balance, listener notifications, where the executor is and what is in flight.
package main

import (
	"bytes"
	"context"
	"encoding/json"
	"errors"
	"fmt"
	"io"
	"math/big"
	"os"
	"os/exec"
	"path/filepath"
	"runtime"
	"strconv"
	"strings"
	"sync"
	"syscall"
	"time"

	"github.com/ipfs/go-peertaskqueue/peertask"
	"github.com/ipld/go-ipld-prime"
	"github.com/ipld/go-ipld-prime/datamodel"
	"github.com/ipld/go-ipld-prime/linking"
	cidlink "github.com/ipld/go-ipld-prime/linking/cid"
	"github.com/ipld/go-ipld-prime/node/basicnode"
	"github.com/libp2p/go-libp2p/core/peer"

	"github.com/ipfs/go-graphsync"
	"github.com/ipfs/go-graphsync/allocator"
	"github.com/ipfs/go-graphsync/donotsendfirstblocks"
	"github.com/ipfs/go-graphsync/listeners"
	gsmsg "github.com/ipfs/go-graphsync/message"
	"github.com/ipfs/go-graphsync/messagequeue"
	gsnet "github.com/ipfs/go-graphsync/network"
	"github.com/ipfs/go-graphsync/peermanager"
	"github.com/ipfs/go-graphsync/peerstate"
	"github.com/ipfs/go-graphsync/persistenceoptions"
	"github.com/ipfs/go-graphsync/responsemanager"
	"github.com/ipfs/go-graphsync/responsemanager/hooks"
	"github.com/ipfs/go-graphsync/responsemanager/queryexecutor"
	"github.com/ipfs/go-graphsync/responsemanager/responseassembler"
	"github.com/ipfs/go-graphsync/taskqueue"

	"verif/harness/internal/cw"
	"verif/harness/internal/dag"
	"verif/harness/internal/drv"
	"verif/harness/internal/rng"
)

// ---- case format ----

type rlLabel struct {
	K string `json:"k"`           // new rcancel rupdate apause aunpause acancel aupdate gate send hold release
	A string `json:"a,omitempty"` // new: accept|reject|pause|hookerr; rupdate: ok|ext|err|unpause; gate: cont|pause|err; send: ok|fail
	// new only: an extension of the request that prepareQuery acts on: skip:<n> = do-not-send-first-blocks n
	// (negative, 0, small, more than the DAG has), bad:dedup | bad:cids | bad:skip = undecodable data for
	// dedup-by-key / do-not-send-cids / do-not-send-first-blocks
	X string `json:"x,omitempty"`
}

// reqExtensions builds the request extension a "new" label asks for
func reqExtensions(x string) []graphsync.ExtensionData {
	switch {
	case strings.HasPrefix(x, "skip:"):
		n, _ := strconv.ParseInt(x[5:], 10, 64)
		return []graphsync.ExtensionData{{Name: graphsync.ExtensionsDoNotSendFirstBlocks, Data: donotsendfirstblocks.EncodeDoNotSendFirstBlocks(n)}}
	case x == "bad:dedup":
		return []graphsync.ExtensionData{{Name: graphsync.ExtensionDeDupByKey, Data: basicnode.NewInt(7)}}
	case x == "bad:cids":
		return []graphsync.ExtensionData{{Name: graphsync.ExtensionDoNotSendCIDs, Data: basicnode.NewString("junk")}}
	case x == "bad:skip":
		return []graphsync.ExtensionData{{Name: graphsync.ExtensionsDoNotSendFirstBlocks, Data: basicnode.NewString("junk")}}
	}
	return nil
}

// newTerm is the model label of a new request: undecodable extension data makes prepareQuery queue
// RequestFailedUnknown and fail exactly like a request-hook error, unless the hooks already ended the request
// (not validated / hook error: prepareQuery returns before it looks at the extensions); a well-formed
// do-not-send-first-blocks value only changes which blocks go on the wire, not the life cycle
func newTerm(l rlLabel) string {
	if strings.HasPrefix(l.X, "bad:") && l.A == "accept" {
		return "LNew HErr"
	}
	return labelTerm["new/"+l.A]
}

type childRes struct {
	Steps []string `json:"steps"`
	Entry bool     `json:"entry"`
	Hung  bool     `json:"hung"`
	Again bool     `json:"again"`
	Why   string   `json:"why,omitempty"`
	Ran   bool     `json:"ran"`
}

type rlCase struct {
	N      int       `json:"n"` // blocks of the chain DAG (1..3)
	Labels []rlLabel `json:"labels"`
	Tags   []string  `json:"tags,omitempty"`
}

// ---- the world of one case ----

type msgInfo struct {
	status uint64
	nblk   uint64
}

type world struct {
	mu       sync.Mutex
	ctx      context.Context
	cancel   context.CancelFunc
	p, p2    peer.ID
	rid      graphsync.RequestID
	chain    *dag.DAG
	rm       *responsemanager.ResponseManager
	tq       *taskqueue.WorkerTaskQueue
	pmm      *peermanager.PeerMessageManager
	newKind  string
	nProt    uint64
	nUnprot  uint64
	ev       map[string]uint64 // notification counts since the last observation
	compl    []uint64          // statuses given to completed listeners since the last observation
	atGate   int               // block index the executor is parked at (-1: not at the gate)
	gateCh   chan string
	infl     *msgInfo
	release  chan bool
	netDown  map[*rlNet]bool
	holdCh   chan struct{}
	armFin   bool // the next FinishTask call of the executor is to be held
	inFin    bool // the worker is parked before its FinishTask call
	finCh    chan struct{}
	armStart bool // the next StartTask call of the worker is to be held
	inStart  bool // the worker popped the task and is parked before its StartTask call
	startCh  chan struct{}
	hung     bool
	hungAt   string
	alloc    *allocator.Allocator
	stalled  bool   // the loop is parked in a memory reservation (peer allowance filled by the harness)
	ballast  uint64 // what the harness holds of the peer's allowance
}

type rlConn struct{ w *world }

func (c rlConn) Protect(p peer.ID, tag string) {
	c.w.mu.Lock()
	c.w.nProt++
	c.w.mu.Unlock()
}
func (c rlConn) Unprotect(p peer.ID, tag string) bool {
	c.w.mu.Lock()
	c.w.nUnprot++
	c.w.mu.Unlock()
	return false
}

type rlNet struct{ w *world }
type rlSender struct {
	w *world
	n *rlNet
}

func (n *rlNet) ConnectTo(ctx context.Context, p peer.ID) error {
	n.w.mu.Lock()
	down := n.w.netDown[n]
	n.w.mu.Unlock()
	if down {
		return errors.New("peer gone")
	}
	return nil
}
func (n *rlNet) NewMessageSender(ctx context.Context, p peer.ID, o gsnet.MessageSenderOpts) (gsnet.MessageSender, error) {
	return rlSender{n.w, n}, nil
}
func (s rlSender) SendMsg(ctx context.Context, m gsmsg.GraphSyncMessage) error {
	info := &msgInfo{}
	for _, resp := range m.Responses() {
		if resp.RequestID() == s.w.rid {
			info.status = uint64(resp.Status())
			info.nblk = uint64(resp.Metadata().Length())
		}
	}
	s.w.mu.Lock()
	s.w.infl = info
	s.w.mu.Unlock()
	select {
	case ok := <-s.w.release:
		if !ok {
			return errors.New("send failed")
		}
		return nil
	case <-s.w.ctx.Done():
		return s.w.ctx.Err()
	}
}
func (s rlSender) Close() error { return nil }
func (s rlSender) Reset() error { return nil }

// rlHandler is the PeerMessageHandler given to the ResponseAssembler: the real PeerMessageManager, plus a
// wait until the message-queue goroutine has parked again (idle or inside the scripted SendMsg), so that
// what two consecutive transactions coalesce into does not depend on goroutine scheduling.
type rlHandler struct{ w *world }

func (h rlHandler) AllocateAndBuildMessage(p peer.ID, size uint64, fn func(*messagequeue.Builder)) {
	h.w.pmm.AllocateAndBuildMessage(p, size, fn)
	h.w.waitMQ()
}

// rlExec wraps the real query executor: a task of the dummy peer parks the worker until released.
type rlExec struct {
	w  *world
	qe *queryexecutor.QueryExecutor
}

func (e rlExec) ExecuteTask(ctx context.Context, pid peer.ID, task *peertask.Task) bool {
	if pid == e.w.p2 {
		select {
		case <-e.w.holdCh:
		case <-e.w.ctx.Done():
		}
		e.w.tq.TaskDone(pid, task)
		return false
	}
	return e.qe.ExecuteTask(ctx, pid, task)
}

// rlMgr is the Manager given to the query executor: the real ResponseManager, except that the worker's
// FinishTask round trip can be held back by the script, so that the message queue's notifications for the
// final message (TerminateRequest / CloseWithNetworkError) are handled by the loop BEFORE finishTask.
type rlMgr struct {
	w  *world
	rm *responsemanager.ResponseManager
}

func (m rlMgr) StartTask(task *peertask.Task, p peer.ID, ch chan<- queryexecutor.ResponseTask) {
	m.w.mu.Lock()
	hold := m.w.armStart
	m.w.armStart = false
	m.w.inStart = hold
	m.w.mu.Unlock()
	if hold {
		// the task is popped (active in the queue) but the loop has not seen StartTask yet
		select {
		case <-m.w.startCh:
		case <-m.w.ctx.Done():
		}
		m.w.mu.Lock()
		m.w.inStart = false
		m.w.mu.Unlock()
	}
	m.rm.StartTask(task, p, ch)
}
func (m rlMgr) GetUpdates(id graphsync.RequestID, ch chan<- []gsmsg.GraphSyncRequest) {
	m.rm.GetUpdates(id, ch)
}
func (m rlMgr) FinishTask(task *peertask.Task, p peer.ID, err error) {
	m.w.mu.Lock()
	hold := m.w.armFin
	m.w.armFin = false
	m.w.inFin = hold
	m.w.mu.Unlock()
	if hold {
		select {
		case <-m.w.finCh:
		case <-m.w.ctx.Done():
		}
		m.w.mu.Lock()
		m.w.inFin = false
		m.w.mu.Unlock()
	}
	m.rm.FinishTask(task, p, err)
}

func (w *world) blockHook(p peer.ID, req graphsync.RequestData, bd graphsync.BlockData, ha graphsync.OutgoingBlockHookActions) {
	idx := w.chain.Index(bd.Link().(cidlink.Link).Cid)
	w.mu.Lock()
	w.atGate = idx
	w.mu.Unlock()
	select {
	case g := <-w.gateCh:
		switch g {
		case "pause":
			ha.PauseResponse()
		case "err":
			ha.TerminateWithError(errors.New("block hook error"))
		}
	case <-w.ctx.Done():
	}
	w.mu.Lock()
	w.atGate = -1
	w.mu.Unlock()
}

// bounded runs f on its own goroutine and waits for it at most waitLimit: a call into the responder that
// does not return (the loop is blocked) becomes a recorded hang instead of blocking the driver
func (w *world) bounded(what string, f func()) bool {
	done := make(chan struct{})
	go func() {
		defer close(done)
		f()
	}()
	select {
	case <-done:
		return true
	case <-time.After(waitLimit):
		w.mu.Lock()
		w.hung = true
		w.hungAt = what + " did not return"
		w.mu.Unlock()
		return false
	}
}

// give hands v to a parked goroutine of the stack, bounded like every other wait
func give[T any](w *world, what string, ch chan T, v T) bool {
	select {
	case ch <- v:
		return true
	case <-time.After(waitLimit):
		w.mu.Lock()
		w.hung = true
		w.hungAt = what + " was not taken"
		w.mu.Unlock()
		return false
	}
}

func (w *world) isStalled() bool {
	w.mu.Lock()
	defer w.mu.Unlock()
	return w.stalled
}

func (w *world) note(k string) {
	w.mu.Lock()
	w.ev[k]++
	w.mu.Unlock()
}

// ---- goroutine inspection ----

type gState struct {
	state string
	first string
	body  string
}

func goroutineStates() []gState {
	buf := make([]byte, 1<<20)
	n := runtime.Stack(buf, true)
	var out []gState
	for _, blk := range strings.Split(string(buf[:n]), "\n\n") {
		lines := strings.Split(blk, "\n")
		if len(lines) < 2 || !strings.HasPrefix(lines[0], "goroutine ") {
			continue
		}
		st := ""
		if i := strings.Index(lines[0], "["); i >= 0 {
			st = strings.TrimSuffix(strings.TrimSpace(lines[0][i+1:]), "]:")
			if j := strings.Index(st, ","); j >= 0 {
				st = st[:j]
			}
		}
		out = append(out, gState{state: st, first: lines[1], body: blk})
	}
	return out
}

const (
	fnRun     = "github.com/ipfs/go-graphsync/responsemanager.(*ResponseManager).run"
	fnWorker  = "github.com/ipfs/go-graphsync/taskqueue.(*WorkerTaskQueue).worker"
	fnQueue   = "github.com/ipfs/go-graphsync/messagequeue.(*MessageQueue).runQueue"
	fnPub     = "github.com/ipfs/go-graphsync/notifications.(*publisher).start"
	fnSend    = "main.rlSender.SendMsg"
	fnGate    = "main.(*world).blockHook"
	fnHold    = "main.rlExec.ExecuteTask"
	fnFin     = "main.rlMgr.FinishTask"
	fnStart   = "main.rlMgr.StartTask"
	fnAlloc   = "github.com/ipfs/go-graphsync/messagequeue.(*MessageQueue).AllocateAndBuildMessage"
	peerLimit = uint64(1 << 20) // per-peer memory allowance of the real allocator
	waitLimit = 8 * time.Second
)

func isSelf(g gState) bool { return strings.Contains(g.body, "main.goroutineStates") }

// a goroutine that was created but has not run yet shows only its go-statement wrapper
// (e.g. messagequeue.(*MessageQueue).Startup.gowrap1), so every goroutine with a frame of the package
// counts, and it must be parked at one of the known places
func mqParked(st []gState) bool {
	for _, g := range st {
		if isSelf(g) || !strings.Contains(g.body, "go-graphsync/messagequeue.") {
			continue
		}
		if g.state == "select" && (strings.HasPrefix(g.first, fnQueue) || strings.HasPrefix(g.first, fnSend)) {
			continue
		}
		return false
	}
	return true
}

// waitMQ waits until every message-queue goroutine is parked (or gone)
func (w *world) waitMQ() {
	deadline := time.Now().Add(waitLimit)
	for time.Now().Before(deadline) {
		if mqParked(goroutineStates()) {
			return
		}
		time.Sleep(50 * time.Microsecond)
	}
	w.mu.Lock()
	w.hung = true
	if w.hungAt == "" {
		w.hungAt = "the responder stack did not come to rest"
	}
	w.mu.Unlock()
}

// settle waits until the response-manager loop, the worker/executor, every message queue, every event
// publisher and every traverser goroutine are parked and nothing is pending for the worker
func (w *world) settle() {
	deadline := time.Now().Add(waitLimit)
	for time.Now().Before(deadline) {
		st := goroutineStates()
		ok := true
		sawLoop, sawWorker := false, false
		for _, g := range st {
			if isSelf(g) || !strings.Contains(g.body, "github.com/ipfs/go-graphsync/") {
				continue
			}
			switch {
			case g.state == "select" && strings.HasPrefix(g.first, fnRun):
				sawLoop = true
			case g.state == "select" && strings.HasPrefix(g.first, fnAlloc) && strings.Contains(g.body, fnRun) && w.isStalled():
				sawLoop = true // the loop is parked in the reservation the script made it wait for
			case g.state == "select" && strings.HasPrefix(g.first, fnWorker):
				sawWorker = true
				if w.tq.Stats().Pending > 0 {
					ok = false // a frozen peer thaws on the worker's own ticker
				}
			case g.state == "select" && (strings.HasPrefix(g.first, fnGate) || strings.HasPrefix(g.first, fnHold) || strings.HasPrefix(g.first, fnFin) || strings.HasPrefix(g.first, fnStart)):
				sawWorker = true
			case g.state == "select" && (strings.HasPrefix(g.first, fnQueue) || strings.HasPrefix(g.first, fnSend)):
			case g.state == "sync.Cond.Wait" && strings.Contains(g.body, fnPub):
			case (g.state == "select" || g.state == "chan receive" || g.state == "chan send") && strings.Contains(g.body, "go-graphsync/ipldutil.") &&
				!strings.Contains(g.body, "go-graphsync/responsemanager") && !strings.Contains(g.body, "go-graphsync/taskqueue"):
				// the traverser's own goroutine waiting for the executor
			default:
				ok = false
			}
		}
		if ok && sawLoop && sawWorker {
			return
		}
		time.Sleep(50 * time.Microsecond)
	}
	w.mu.Lock()
	w.hung = true
	if w.hungAt == "" {
		w.hungAt = "the responder stack did not come to rest"
	}
	w.mu.Unlock()
}

func goneAll() bool {
	for _, g := range goroutineStates() {
		if !isSelf(g) && strings.Contains(g.body, "github.com/ipfs/go-graphsync/") {
			return false
		}
	}
	return true
}

// ---- running one case ----

func errKind(err error) uint64 {
	if err == nil {
		return 0
	}
	if _, ok := err.(graphsync.RequestNotFoundErr); ok {
		return 1
	}
	return 2
}

func ext(name string) graphsync.ExtensionData {
	return graphsync.ExtensionData{Name: graphsync.ExtensionName(name), Data: basicnode.NewString("x")}
}

var labelTerm = map[string]string{
	"new/accept": "LNew HAccept", "new/reject": "LNew HReject", "new/pause": "LNew HPause", "new/hookerr": "LNew HErr",
	"rcancel/": "LReqCancel", "rupdate/ok": "LReqUpdate UOk", "rupdate/ext": "LReqUpdate UExt", "rupdate/err": "LReqUpdate UErr",
	"rupdate/unpause": "LReqUpdate UUnpause", "rupdate/exterr": "LReqUpdate UExtErr",
	"updstall/ext": "LUpdStall UExt", "updstall/exterr": "LUpdStall UExtErr", "memfree/": "LMemFree", "apause/": "LApiPause", "aunpause/": "LApiUnpause", "acancel/": "LApiCancel",
	"aupdate/": "LApiUpdate", "gate/cont": "LGate GCont", "gate/pause": "LGate GPause", "gate/err": "LGate GErr",
	"gateh/cont": "LGateHold GCont", "gateh/pause": "LGateHold GPause", "gateh/err": "LGateHold GErr", "finish/": "LFinish", "armstart/": "LArmStart", "start/": "LStart",
	"send/ok": "LSend true", "send/fail": "LSend false", "hold/": "LHold", "release/": "LRelease",
}

// runCase executes the labels; returns the Coq terms "(label, obs)" of the labels that applied
func runCase(c rlCase) (steps []string, finalEntry bool, hung bool, why string) {
	ctx, cancel := context.WithCancel(context.Background())
	w := &world{ctx: ctx, cancel: cancel, p: peer.ID("peer-1"), p2: peer.ID("peer-dummy"), rid: graphsync.NewRequestID(),
		chain: dag.Chain(c.N), ev: map[string]uint64{}, atGate: -1, gateCh: make(chan string), release: make(chan bool),
		netDown: map[*rlNet]bool{}, holdCh: make(chan struct{}), finCh: make(chan struct{}), startCh: make(chan struct{})}
	blocks := map[string][]byte{}
	for _, b := range w.chain.Blocks {
		blocks[b.Cid.KeyString()] = b.Data
	}
	lsys := cidlink.DefaultLinkSystem()
	lsys.TrustedStorage = true
	lsys.StorageReadOpener = func(_ linking.LinkContext, l datamodel.Link) (io.Reader, error) {
		d, ok := blocks[l.(cidlink.Link).Cid.KeyString()]
		if !ok {
			return nil, errors.New("not found")
		}
		return bytes.NewBuffer(append([]byte(nil), d...)), nil
	}
	alloc := allocator.NewAllocator(1<<40, peerLimit)
	w.alloc = alloc
	var nets []*rlNet
	w.pmm = peermanager.NewMessageManager(ctx, func(ctx context.Context, p peer.ID, onShutdown func(peer.ID)) peermanager.PeerQueue {
		n := &rlNet{w}
		w.mu.Lock()
		nets = append(nets, n)
		w.mu.Unlock()
		return messagequeue.New(ctx, p, n, alloc, 1, 10*time.Second, onShutdown)
	})
	ra := responseassembler.New(ctx, rlHandler{w})
	reqHooks := hooks.NewRequestHooks(persistenceoptions.New())
	blockHooks := hooks.NewBlockHooks()
	updHooks := hooks.NewUpdateHooks()
	complL := listeners.NewCompletedResponseListeners()
	cancL := listeners.NewRequestorCancelledListeners()
	sentL := listeners.NewBlockSentListeners()
	netL := listeners.NewNetworkErrorListeners()
	procL := listeners.NewRequestProcessingListeners()
	reqHooks.Register(func(p peer.ID, r graphsync.RequestData, ha graphsync.IncomingRequestHookActions) {
		switch w.newKind {
		case "accept":
			ha.ValidateRequest()
		case "pause":
			ha.ValidateRequest()
			ha.PauseResponse()
		case "hookerr":
			ha.TerminateWithError(errors.New("request hook error"))
		}
	})
	blockHooks.Register(w.blockHook)
	updHooks.Register(func(p peer.ID, r graphsync.RequestData, u graphsync.RequestData, ha graphsync.RequestUpdatedHookActions) {
		if _, ok := u.Extension("verif/ext"); ok {
			ha.SendExtensionData(ext("verif/reply"))
		}
		if _, ok := u.Extension("verif/err"); ok {
			ha.TerminateWithError(errors.New("update hook error"))
		}
		if _, ok := u.Extension("verif/exterr"); ok {
			ha.SendExtensionData(ext("verif/reply"))
			ha.TerminateWithError(errors.New("update not acceptable"))
		}
		if _, ok := u.Extension("verif/unpause"); ok {
			ha.UnpauseResponse()
		}
	})
	complL.Register(func(p peer.ID, r graphsync.RequestData, s graphsync.ResponseStatusCode) {
		w.mu.Lock()
		w.compl = append(w.compl, uint64(s))
		w.mu.Unlock()
	})
	cancL.Register(func(p peer.ID, r graphsync.RequestData) { w.note("X") })
	sentL.Register(func(p peer.ID, r graphsync.RequestData, b graphsync.BlockData) { w.note("B") })
	netL.Register(func(p peer.ID, r graphsync.RequestData, err error) { w.note("E") })
	procL.Register(func(p peer.ID, r graphsync.RequestData, n int) { w.note("P") })
	w.tq = taskqueue.NewTaskQueue(ctx)
	w.rm = responsemanager.New(ctx, lsys, ra, procL, reqHooks, updHooks, complL, cancL, sentL, netL, rlConn{w}, 0, nil, w.tq)
	qe := queryexecutor.New(ctx, rlMgr{w, w.rm}, blockHooks, updHooks)
	w.rm.Startup()
	w.tq.Startup(1, rlExec{w, qe})
	w.settle()

	seen, held := false, false
	lastTq, lastSt := uint64(0), uint64(0)
	for _, l := range c.Labels {
		ret := uint64(0)
		if w.isStalled() && !(l.K == "memfree" || (l.K == "send" && l.A == "fail")) {
			continue // the loop is parked: nothing else is issued until the reservation is resolved
		}
		w.mu.Lock()
		atGate, infl, inFin, inStart := w.atGate, w.infl, w.inFin, w.inStart
		w.mu.Unlock()
		switch l.K {
		case "new":
			if seen {
				continue
			}
			seen = true
			w.newKind = l.A
			w.bounded("ProcessRequests", func() {
				w.rm.ProcessRequests(ctx, w.p, []gsmsg.GraphSyncRequest{gsmsg.NewRequest(w.rid, w.chain.Blocks[0].Cid, dag.AllSelector(), graphsync.Priority(1), reqExtensions(l.X)...)})
			})
		case "rcancel":
			w.bounded("ProcessRequests", func() {
				w.rm.ProcessRequests(ctx, w.p, []gsmsg.GraphSyncRequest{gsmsg.NewCancelRequest(w.rid)})
			})
		case "rupdate":
			w.bounded("ProcessRequests", func() {
				w.rm.ProcessRequests(ctx, w.p, []gsmsg.GraphSyncRequest{gsmsg.NewUpdateRequest(w.rid, ext("verif/"+l.A))})
			})
		case "apause":
			w.bounded("PauseResponse", func() { ret = errKind(w.rm.PauseResponse(ctx, w.rid)) })
		case "aunpause":
			w.bounded("UnpauseResponse", func() { ret = errKind(w.rm.UnpauseResponse(ctx, w.rid)) })
		case "acancel":
			w.bounded("CancelResponse", func() { ret = errKind(w.rm.CancelResponse(ctx, w.rid)) })
		case "aupdate":
			w.bounded("UpdateResponse", func() { ret = errKind(w.rm.UpdateResponse(ctx, w.rid, ext("verif/api"))) })
		case "gate", "gateh":
			if atGate < 0 {
				continue
			}
			if l.K == "gateh" {
				w.mu.Lock()
				w.armFin = true
				w.mu.Unlock()
			}
			give(w, "the block hook gate", w.gateCh, l.A)
		case "finish":
			if !inFin {
				continue
			}
			give(w, "the FinishTask gate", w.finCh, struct{}{})
		case "armstart":
			if inStart || lastTq == 2 {
				continue
			}
			w.mu.Lock()
			w.armStart = true
			w.mu.Unlock()
		case "start":
			if !inStart {
				continue
			}
			give(w, "the StartTask gate", w.startCh, struct{}{})
		case "updstall":
			// the peer's allowance is filled by the harness, then an update whose hook result needs memory
			// arrives for the paused response: the loop parks in that transaction's reservation
			used := w.alloc.AllocatedForPeer(w.p)
			if lastSt != 3 || infl == nil || used == 0 || used >= peerLimit {
				continue
			}
			w.mu.Lock()
			w.ballast = peerLimit - used
			w.stalled = true
			w.mu.Unlock()
			<-w.alloc.AllocateBlockMemory(w.p, w.ballast)
			w.bounded("ProcessRequests", func() {
				w.rm.ProcessRequests(ctx, w.p, []gsmsg.GraphSyncRequest{gsmsg.NewUpdateRequest(w.rid, ext("verif/"+l.A))})
			})
		case "memfree":
			if !w.isStalled() {
				continue
			}
			w.mu.Lock()
			w.stalled = false
			b := w.ballast
			w.ballast = 0
			w.mu.Unlock()
			_ = w.alloc.ReleaseBlockMemory(w.p, b)
		case "send":
			if infl == nil {
				continue
			}
			if w.isStalled() {
				// the write fails but the peer stays connected (retries expended): the queue lives on, the
				// scrub returns memory and the parked reservation is granted
				w.mu.Lock()
				w.infl = nil
				w.stalled = false
				w.mu.Unlock()
				give(w, "the SendMsg outcome", w.release, false)
				break
			}
			w.mu.Lock()
			w.infl = nil
			if l.A != "ok" {
				for _, n := range nets {
					w.netDown[n] = true
				}
			}
			w.mu.Unlock()
			if l.A != "ok" {
				w.pmm.Disconnected(w.p) // the peer is gone: its queue is shut down, the pending write fails
			}
			give(w, "the SendMsg outcome", w.release, l.A == "ok")
		case "hold":
			st := w.tq.Stats()
			if held || atGate >= 0 || inFin || inStart || st.Active > 0 || st.Pending > 0 {
				continue
			}
			held = true
			w.tq.PushTask(w.p2, peertask.Task{Topic: "dummy", Priority: 1, Work: 1})
		case "release":
			if !held {
				continue
			}
			held = false
			give(w, "the worker hold", w.holdCh, struct{}{})
		default:
			continue
		}
		w.mu.Lock()
		already := w.hung
		w.mu.Unlock()
		if !already {
			w.settle()
		}
		w.mu.Lock()
		w.armFin = false // only the run the label started can be held
		stuck := w.hung
		w.mu.Unlock()
		if stuck {
			// the stack did not come to rest after this label (or a call did not return): nothing can be
			// observed reliably any more
			break
		}
		w.mu.Lock()
		if !w.stalled && w.ballast > 0 {
			b := w.ballast
			w.ballast = 0
			w.mu.Unlock()
			_ = w.alloc.ReleaseBlockMemory(w.p, b) // the stall was resolved by the failed send: give the allowance back
			w.settle()
		} else {
			w.mu.Unlock()
		}
		stalledNow := w.isStalled()
		var ps peerstate.PeerState
		if stalledNow {
			// the loop cannot answer PeerState while it is parked; it has changed nothing since the last
			// observation (processUpdate mutates nothing before its transaction)
			if w.alloc.Stats().TotalPendingAllocations == 0 {
				w.mu.Lock()
				w.hung, w.hungAt = true, "the reservation the script made the loop wait for is not pending"
				w.mu.Unlock()
				break
			}
		} else if !w.bounded("PeerState", func() { ps = w.rm.PeerState(w.p) }) {
			break
		}
		st, tqs := uint64(0), uint64(0)
		if s, ok := ps.RequestStates[w.rid]; ok {
			st = uint64(s) + 1
		}
		if stalledNow {
			st, tqs = lastSt, lastTq
		}
		for _, t := range ps.TaskQueueState.Pending {
			if t == w.rid {
				tqs = 1
			}
		}
		for _, t := range ps.TaskQueueState.Active {
			if t == w.rid {
				tqs = 2
			}
		}
		w.mu.Lock()
		ex := uint64(0)
		if w.atGate >= 0 {
			ex = uint64(w.atGate) + 1
		} else if w.inFin {
			ex = 50
		} else if w.inStart {
			ex = 51
		} else if w.stalled {
			ex = 52
		}
		lastTq, lastSt = tqs, st
		inflN := uint64(0)
		if w.infl != nil {
			inflN = w.infl.status
		}
		complN := uint64(0)
		if len(w.compl) == 1 {
			complN = w.compl[0]
		} else if len(w.compl) > 1 {
			complN = 1
		}
		// the 11 observed fields, packed in base 64 (every field is far below 64; a larger one is capped and
		// then disagrees with the model)
		packed := new(big.Int)
		fields := []uint64{st, tqs, w.nProt, w.nUnprot, ex, inflN, complN, w.ev["X"], w.ev["E"], w.ev["P"], ret}
		for i := len(fields) - 1; i >= 0; i-- {
			f := fields[i]
			if f > 63 {
				f = 63
			}
			packed.Mul(packed, big.NewInt(64))
			packed.Add(packed, big.NewInt(int64(f)))
		}
		obs := packed.String()
		w.compl = nil
		w.ev = map[string]uint64{}
		hungNow := w.hung
		w.mu.Unlock()
		finalEntry = st != 0
		term := labelTerm[l.K+"/"+l.A]
		if l.K == "new" {
			term = newTerm(l)
		}
		steps = append(steps, fmt.Sprintf("St (%s) %s", term, obs))
		if hungNow {
			break
		}
	}
	w.mu.Lock()
	hung = w.hung
	why = w.hungAt
	w.mu.Unlock()
	cancel()
	gone := false
	for end := time.Now().Add(waitLimit); time.Now().Before(end); {
		if gone = goneAll(); gone {
			break
		}
		time.Sleep(50 * time.Microsecond)
	}
	if !gone {
		// goroutines of this case survive its context: parking can no longer be read from the stacks of this
		// process, so it must not run another case
		hung = true
		if why == "" {
			why = "goroutines of the responder stack outlived the case's context"
		}
		processDirty = true
	}
	return
}

var processDirty bool

// ---- generation ----

var (
	newKinds = []string{"accept", "accept", "accept", "accept", "pause", "reject", "hookerr"}
	updKinds = []string{"ok", "ext", "err", "unpause", "exterr"}
)

func genCase(r *rng.R) rlCase {
	c := rlCase{N: r.Range(1, 3)}
	if r.P(1, 5) {
		c.Labels = append(c.Labels, rlLabel{K: "hold"})
	}
	if r.P(1, 4) {
		// the worker pops the task, its StartTask is held: whatever comes next reaches the loop first
		c.Labels = append(c.Labels, rlLabel{K: "armstart"})
	}
	stallFamily := r.P(1, 6)
	nl := rlLabel{K: "new", A: rng.Pick(r, newKinds)}
	if !stallFamily && r.P(1, 4) {
		nl.X = rng.Pick(r, []string{"skip:-1", "skip:-5", "skip:0", "skip:1", "skip:100", "bad:dedup", "bad:cids", "bad:skip"})
	}
	if nl.A == "pause" && strings.HasPrefix(nl.X, "bad:") {
		// a paused request with undecodable extension data sends the pause and then the failure as two
		// transactions of newRequest: not a label of the model; the variant is generated for the other hook results
		nl.X = ""
	}
	c.Labels = append(c.Labels, nl)
	if stallFamily {
		// a response paused while its blocks are unsent; the peer's memory allowance runs out; an update whose
		// hook answers with extension data (and maybe a rejection) waits for memory in the loop; the message
		// in flight fails (or memory is released otherwise)
		for i := r.Range(0, c.N-1); i > 0; i-- {
			c.Labels = append(c.Labels, rlLabel{K: "gate", A: "cont"})
		}
		if r.P(1, 3) {
			c.Labels = append(c.Labels, rlLabel{K: "apause"}, rlLabel{K: "gate", A: "cont"})
		} else {
			c.Labels = append(c.Labels, rlLabel{K: "gate", A: "pause"})
		}
		if r.P(1, 4) {
			c.Labels = append(c.Labels, rlLabel{K: "send", A: "ok"})
		}
		c.Labels = append(c.Labels, rlLabel{K: "updstall", A: rng.Pick(r, []string{"exterr", "exterr", "ext"})})
		if r.P(3, 4) {
			c.Labels = append(c.Labels, rlLabel{K: "send", A: "fail"})
		} else {
			c.Labels = append(c.Labels, rlLabel{K: "memfree"})
		}
	}
	n := r.Range(2, 12)
	if stallFamily {
		n = r.Range(0, 4)
	}
	for i := 0; i < n; i++ {
		x := r.Intn(100)
		switch {
		case x < 28:
			g := "cont"
			if r.P(1, 5) {
				g = "pause"
			} else if r.P(1, 8) {
				g = "err"
			}
			k := "gate"
			if r.P(1, 4) {
				k = "gateh"
			}
			c.Labels = append(c.Labels, rlLabel{K: k, A: g})
		case x < 50:
			a := "ok"
			if r.P(1, 3) {
				a = "fail"
			}
			c.Labels = append(c.Labels, rlLabel{K: "send", A: a})
		case x < 57:
			c.Labels = append(c.Labels, rlLabel{K: "rcancel"})
		case x < 65:
			c.Labels = append(c.Labels, rlLabel{K: "rupdate", A: rng.Pick(r, updKinds)})
		case x < 72:
			c.Labels = append(c.Labels, rlLabel{K: "apause"})
		case x < 80:
			c.Labels = append(c.Labels, rlLabel{K: "aunpause"})
		case x < 86:
			c.Labels = append(c.Labels, rlLabel{K: "acancel"})
		case x < 91:
			c.Labels = append(c.Labels, rlLabel{K: "aupdate"})
		case x < 93:
			c.Labels = append(c.Labels, rlLabel{K: "armstart"})
		case x < 94:
			c.Labels = append(c.Labels, rlLabel{K: "start"})
		case x < 95:
			c.Labels = append(c.Labels, rlLabel{K: "finish"})
		case x < 96:
			c.Labels = append(c.Labels, rlLabel{K: "updstall", A: rng.Pick(r, []string{"exterr", "ext"})})
		case x < 98:
			c.Labels = append(c.Labels, rlLabel{K: "hold"})
		default:
			c.Labels = append(c.Labels, rlLabel{K: "release"})
		}
	}
	// drive to quiescence: free the worker, let the executor run to the end, resolve every message;
	// a response still paused is unpaused (the property's assumption) and the tail is repeated
	tail := func(sendOK func() string) {
		c.Labels = append(c.Labels, rlLabel{K: "memfree"})
		c.Labels = append(c.Labels, rlLabel{K: "release"})
		c.Labels = append(c.Labels, rlLabel{K: "start"})
		// the last block's release may hold the executor's FinishTask, so that the outcome of the final
		// message is delivered and fully handled first; then FinishTask goes through
		holdLast := r.P(1, 2)
		for i := 0; i < 4; i++ {
			k := "gate"
			if holdLast {
				k = "gateh"
			}
			c.Labels = append(c.Labels, rlLabel{K: k, A: "cont"})
		}
		if r.P(1, 3) {
			c.Labels = append(c.Labels, rlLabel{K: "finish"})
		}
		for i := 0; i < 6; i++ {
			c.Labels = append(c.Labels, rlLabel{K: "send", A: sendOK()})
		}
		c.Labels = append(c.Labels, rlLabel{K: "finish"})
		for i := 0; i < 2; i++ {
			c.Labels = append(c.Labels, rlLabel{K: "send", A: sendOK()})
		}
	}
	okf := func() string {
		if r.P(1, 6) {
			return "fail"
		}
		return "ok"
	}
	tail(okf)
	if r.P(1, 4) {
		c.Labels = append(c.Labels, rlLabel{K: "rcancel"})
	} else {
		c.Labels = append(c.Labels, rlLabel{K: "aunpause"})
	}
	tail(okf)
	c.Labels = append(c.Labels, rlLabel{K: "aunpause"})
	tail(func() string { return "ok" })
	return c
}

func tagsOf(c rlCase) []string {
	has := map[string]bool{}
	for _, l := range c.Labels {
		has[l.K+"/"+l.A] = true
		has[l.K] = true
		if l.K == "new" && l.X != "" {
			has["newext:"+l.X] = true
			if strings.HasPrefix(l.X, "skip:-") {
				has["newext:skip-negative"] = true
			}
		}
	}
	var tags []string
	for _, k := range []string{"new/accept", "new/reject", "new/pause", "new/hookerr", "send/fail", "rcancel", "rupdate", "apause", "acancel", "aupdate", "gate/pause", "gate/err", "gateh", "finish", "armstart", "updstall", "memfree", "hold", "newext:skip-negative", "newext:skip:0", "newext:skip:1", "newext:skip:100", "newext:bad:dedup", "newext:bad:cids", "newext:bad:skip"} {
		if has[k] {
			tags = append(tags, "has:"+k)
		}
	}
	return tags
}

const header = `From Coq Require Import List NArith Bool.
From GS Require Import Base RespMgr.
Import ListNotations.
Open Scope N_scope.
`

func run(c *drv.Ctx) error {
	w := cw.New(c.Out, header, "rcase", []cw.Check{
		{Name: "MISMATCH", Fn: "rcase_agrees"},
		{Name: "MON05", Fn: "rcase_mon"},
	})
	w.ShardSize = 60
	w.Stats.Rule = "one request over a 1-3 block chain against the real ResponseManager + QueryExecutor + ResponseAssembler + MessageQueue + WorkerTaskQueue: " +
		"request hook accept/reject/pause/error, requestor cancel/update, API pause/unpause/cancel/update, block hook continue/pause/error at every block " +
		"(executor parked at each block), every message's send outcome ok/fail (fail = peer disconnect), the only worker optionally occupied; every script " +
		"ends by unpausing and resolving everything; non-trivial = a send failed or a cancel/pause/update/hook error occurred; distinct = distinct terms"
	type res struct {
		c     rlCase
		steps []string
		entry bool
		hung  bool
		why   string
		ran   bool
		kind  string
	}
	var cases []res
	if c.Replay != "" {
		var rc rlCase
		if err := drv.ReplayCase(c.Replay, &rc); err != nil {
			return err
		}
		cases = append(cases, res{c: rc, kind: "replay"})
	} else {
		for _, f := range c.CorpusFiles("resplife") {
			var rc rlCase
			if err := drv.ReplayCase(f, &rc); err != nil {
				return fmt.Errorf("%s: %w", f, err)
			}
			cases = append(cases, res{c: rc, kind: "corpus"})
		}
		n := c.Count(240, 2400)
		for i := 0; i < n; i++ {
			cases = append(cases, res{c: genCase(c.R.Fork()), kind: "random"})
		}
	}
	retried := 0
	const maxHangs = 3 // after this many cases that end in a hang no further case is scheduled
	runOne := func(rc rlCase) (r childRes) {
		// the case about to run, for bin/check to turn a death of this process into a replay
		if b, err := json.Marshal(map[string]any{"driver": "resplife", "case": rc}); err == nil {
			_ = os.WriteFile(filepath.Join(c.Out, "inflight.json"), b, 0o644)
		}
		r.Steps, r.Entry, r.Hung, r.Why = runCase(rc)
		if r.Hung && !processDirty {
			// a wait expired (machine under load?): run the case again; a second expiry is kept and reported
			// (a responder that never comes to rest is a defect)
			time.Sleep(200 * time.Millisecond)
			r.Steps, r.Entry, r.Hung, r.Why = runCase(rc)
			r.Again = true
		}
		r.Ran = true
		return
	}
	// runSlice runs cases one after the other until maxHangs of them hung (or this process can no longer
	// read parking from its stacks); the rest is left un-run
	runSlice := func(in []rlCase, each func(i int, r childRes)) {
		hangs := 0
		for i, rc := range in {
			if hangs >= maxHangs || processDirty {
				break
			}
			r := runOne(rc)
			if r.Hung {
				hangs++
			}
			each(i, r)
		}
	}
	limit := 4 * time.Minute // hard limit of one driver process; far above a normal run
	if c.Thorough() {
		limit = 12 * time.Minute
	}
	if child := os.Getenv("RESPLIFE_CHILD"); child != "" {
		// child process: run the cases of one slice (parking is detected from the goroutine stacks of the whole
		// process, so cases run one at a time per process; the parent runs several processes).  Results are
		// written after every case, so the parent has them even if this process is stopped; it stops itself at
		// the limit and dies with its parent.
		time.AfterFunc(limit, func() { os.Exit(4) })
		var in []rlCase
		if err := drv.ReadJSON(child, &in); err != nil {
			return err
		}
		outv := make([]childRes, len(in))
		runSlice(in, func(i int, r childRes) {
			outv[i] = r
			b, _ := json.Marshal(outv)
			_ = os.WriteFile(child+".tmp", b, 0o644)
			_ = os.Rename(child+".tmp", child+".out")
		})
		b, _ := json.Marshal(outv)
		return os.WriteFile(child+".out", b, 0o644)
	}
	procs := 4
	if c.Thorough() {
		procs = 6
	}
	take := func(i int, r childRes) {
		cases[i].steps, cases[i].entry, cases[i].hung, cases[i].why, cases[i].ran = r.Steps, r.Entry, r.Hung, r.Why, r.Ran
		if r.Again {
			retried++
		}
	}
	stopped := 0
	if len(cases) < 40 {
		var in []rlCase
		for i := range cases {
			in = append(in, cases[i].c)
		}
		runSlice(in, take)
	} else {
		if err := os.MkdirAll(c.Out, 0o755); err != nil {
			return err
		}
		var wg sync.WaitGroup
		var mu sync.Mutex
		for k := 0; k < procs; k++ {
			var in []rlCase
			for i := k; i < len(cases); i += procs {
				in = append(in, cases[i].c)
			}
			f := filepath.Join(c.Out, fmt.Sprintf("slice%d.json", k))
			b, _ := json.Marshal(in)
			if err := os.WriteFile(f, b, 0o644); err != nil {
				return err
			}
			wg.Add(1)
			go func(k int, f string) {
				defer wg.Done()
				cctx, ccancel := context.WithTimeout(context.Background(), limit+20*time.Second)
				defer ccancel()
				cmd := exec.CommandContext(cctx, os.Args[0], "resplife", "-out", c.Out, "-tier", c.Tier)
				cmd.Env = append(os.Environ(), "RESPLIFE_CHILD="+f)
				cmd.Stderr = os.Stderr
				cmd.SysProcAttr = &syscall.SysProcAttr{Pdeathsig: syscall.SIGKILL}
				runErr := cmd.Run()
				var outv []childRes
				_ = drv.ReadJSON(f+".out", &outv) // whatever the child got to
				mu.Lock()
				for j, r := range outv {
					if r.Ran {
						take(k+j*procs, r)
					}
				}
				if runErr != nil {
					stopped++
				}
				mu.Unlock()
				os.Remove(f)
				os.Remove(f + ".out")
				os.Remove(f + ".tmp")
			}(k, f)
		}
		wg.Wait()
	}
	os.Remove(filepath.Join(c.Out, "inflight.json"))
	notRun := 0
	for _, r := range cases {
		if !r.ran {
			notRun++
		}
	}
	w.Stats.Extra = map[string]any{}
	if notRun > 0 {
		w.Stats.Extra["cases_not_run_after_hangs"] = notRun
	}
	if stopped > 0 {
		w.Stats.Extra["child_processes_stopped_at_limit"] = stopped
	}
	if retried > 0 {
		w.Stats.Extra["cases_rerun_after_wait_expired"] = retried
	}
	if len(w.Stats.Extra) == 0 {
		w.Stats.Extra = nil
	}
	for _, r := range cases {
		if !r.ran {
			continue
		}
		tags := append([]string{"kind:" + r.kind}, tagsOf(r.c)...)
		nontrivial := false
		for _, t := range tags {
			if strings.HasPrefix(t, "has:") && t != "has:new/accept" {
				nontrivial = true
			}
		}
		r.c.Tags = tags
		term := fmt.Sprintf("Build_rcase %d\n    %s", r.c.N, cw.List(r.steps))
		idx := w.Add(term, r.c, nontrivial, tags...)
		if r.hung {
			w.Violation(idx, "hang (twice): "+r.why, "resplife-hang")
		}
	}
	return w.Flush()
}

func main() { drv.Main("resplife", run) }

var _ ipld.Link = cidlink.Link{}
