package main

// Panic injection into the user-supplied functions of one GraphSync instance, keyed by the block of
// request r1 at which the chosen function panics; every wrapped function also records, for r1's
// blocks, the chain of go-graphsync functions (goroutine root first) it was called under.

import (
	"bytes"
	"encoding/json"
	"fmt"
	"io"
	"os"
	"runtime"
	"sort"
	"strings"
	"sync"
	"sync/atomic"

	"github.com/ipld/go-ipld-prime"
	"github.com/ipld/go-ipld-prime/codec"
	"github.com/ipld/go-ipld-prime/datamodel"
	"github.com/ipld/go-ipld-prime/linking"
	cidlink "github.com/ipld/go-ipld-prime/linking/cid"
	"github.com/ipld/go-ipld-prime/node/basicnode"
	"github.com/ipld/go-ipld-prime/traversal"
)

const gsPrefix = "github.com/ipfs/go-graphsync/"

// pkg.(*T).m is written pkg.T.m (the Coq side keeps "(*" out of its sources)
var plainName = strings.NewReplacer("(*", "", "(", "", ")", "")

// gsChain returns the go-graphsync functions on the current goroutine's stack, outermost first
func gsChain() []string { return gsChainFrom(3) }

func gsChainFrom(skip int) []string {
	pcs := make([]uintptr, 128)
	n := runtime.Callers(skip, pcs)
	fr := runtime.CallersFrames(pcs[:n])
	var rev []string
	for {
		f, more := fr.Next()
		if strings.HasPrefix(f.Function, gsPrefix) && !strings.Contains(f.Function, ".gowrap") {
			rev = append(rev, plainName.Replace(strings.TrimPrefix(f.Function, gsPrefix)))
		}
		if !more {
			break
		}
	}
	out := make([]string, len(rev))
	for i, s := range rev {
		out[len(rev)-1-i] = s
	}
	return out
}

type injector struct {
	kind  string // callback kind that panics ("none": nothing panics)
	k     int    // block index of r1 at which it panics
	value string // the panic value
	d1    *pdag

	siteFile string // where the chain of the panic site is written just before panicking

	r1Active atomic.Bool // set while r1 is the only request that can open its root for writing

	mu     sync.Mutex
	chains map[string]map[string]bool // kind -> set of chains (joined with " > ")
	fired  int
}

func newInjector(kind string, k int, value string, d1 *pdag) *injector {
	return &injector{kind: kind, k: k, value: value, d1: d1, chains: map[string]map[string]bool{}}
}

// at is called by every wrapped function with the index of r1's block it works on (-1: not r1's)
func (in *injector) at(kind string, idx int) {
	if idx < 0 {
		return
	}
	ch := strings.Join(gsChain(), " > ")
	in.mu.Lock()
	if in.chains[kind] == nil {
		in.chains[kind] = map[string]bool{}
	}
	in.chains[kind][ch] = true
	fire := kind == in.kind && idx == in.k
	if fire {
		in.fired++
	}
	in.mu.Unlock()
	if fire {
		if in.siteFile != "" {
			b, _ := json.Marshal(map[string]any{"kind": kind, "chain": gsChainFrom(3)})
			_ = os.WriteFile(in.siteFile, b, 0o644)
		}
		panic(in.value)
	}
}

func (in *injector) observedChains() map[string][]string {
	in.mu.Lock()
	defer in.mu.Unlock()
	out := map[string][]string{}
	for k, s := range in.chains {
		for c := range s {
			out[k] = append(out[k], c)
		}
		sort.Strings(out[k])
	}
	return out
}

func (in *injector) linkIdx(l ipld.Link) int {
	cl, ok := l.(cidlink.Link)
	if !ok {
		return -1
	}
	return in.d1.index(cl.Cid)
}

// a reader that is neither *bytes.Buffer nor a byteReader, so that go-graphsync has to read it
type plainReader struct {
	in  *injector
	idx int
	r   io.Reader
}

func (p *plainReader) Read(b []byte) (int, error) {
	p.in.at("sread_stream", p.idx)
	return p.r.Read(b)
}

type injWriter struct {
	in  *injector
	idx func([]byte) int
	buf *bytes.Buffer
	w   io.Writer
}

func (p *injWriter) Write(b []byte) (int, error) {
	p.in.at("swrite_stream", p.idx(b))
	p.buf.Write(b)
	return p.w.Write(b)
}

// wrapNode is what the reifier returns for r1's blocks: selector evaluation asks for Kind() first
// (traversal.walkAdv), the graphsync visitor asks for AsLargeBytes() on matched nodes.
type wrapNode struct {
	datamodel.Node
	in  *injector
	idx int
}

func (w *wrapNode) Kind() datamodel.Kind {
	w.in.at("selector", w.idx)
	return w.Node.Kind()
}

func (w *wrapNode) AsLargeBytes() (io.ReadSeeker, error) {
	w.in.at("visitor", w.idx)
	return bytes.NewReader(nil), nil
}

// wrap instruments a LinkSystem
func (in *injector) wrap(ls ipld.LinkSystem) ipld.LinkSystem {
	innerRead, innerWrite := ls.StorageReadOpener, ls.StorageWriteOpener
	innerDec := ls.DecoderChooser
	ls.StorageReadOpener = func(lc linking.LinkContext, l ipld.Link) (io.Reader, error) {
		idx := in.linkIdx(l)
		in.at("sread", idx)
		r, err := innerRead(lc, l)
		if err != nil || idx < 0 {
			return r, err
		}
		return &plainReader{in: in, idx: idx, r: r}, nil
	}
	ls.StorageWriteOpener = func(lc linking.LinkContext) (io.Writer, linking.BlockWriteCommitter, error) {
		idx := -1
		if lc.LinkNode != nil {
			if l, err := lc.LinkNode.AsLink(); err == nil {
				idx = in.linkIdx(l)
			}
		} else if in.r1Active.Load() {
			idx = 0 // the only root opened for writing while r1Active is r1's
		}
		in.at("swrite", idx)
		w, commit, err := innerWrite(lc)
		if err != nil {
			return w, commit, err
		}
		iw := &injWriter{in: in, buf: new(bytes.Buffer), w: w, idx: func(b []byte) int { return in.d1.indexOfData(b) }}
		return iw, func(l ipld.Link) error {
			in.at("swrite_commit", in.linkIdx(l))
			return commit(l)
		}, nil
	}
	ls.DecoderChooser = func(l ipld.Link) (codec.Decoder, error) {
		dec, err := innerDec(l)
		if err != nil {
			return nil, err
		}
		idx := in.linkIdx(l)
		return func(na datamodel.NodeAssembler, r io.Reader) error {
			in.at("codec", idx)
			return dec(na, r)
		}, nil
	}
	ls.NodeReifier = func(lc linking.LinkContext, n datamodel.Node, _ *linking.LinkSystem) (datamodel.Node, error) {
		idx := in.d1.indexOfNode(n)
		in.at("reifier", idx)
		if idx < 0 {
			return n, nil
		}
		return &wrapNode{Node: n, in: in, idx: idx}, nil
	}
	return ls
}

func (in *injector) chooser() traversal.LinkTargetNodePrototypeChooser {
	return func(l ipld.Link, lc ipld.LinkContext) (ipld.NodePrototype, error) {
		in.at("chooser", in.linkIdx(l))
		return basicnode.Prototype.Any, nil
	}
}

func panicValue(n uint64) string { return fmt.Sprintf("verif-panic-%d", n) }

// parsePanicValue maps a recovered object back to its number (0: something else)
func parsePanicValue(v any) uint64 {
	s, ok := v.(string)
	if !ok {
		return 0
	}
	var n uint64
	if _, err := fmt.Sscanf(s, "verif-panic-%d", &n); err != nil {
		return 0
	}
	return n
}
