// d_panics — driver for C22 (a panic in per-request code fails only that request).
//
// Every case is run in a child process (this binary re-executed as `d_panics child case.json result.json`):
// two real GraphSync instances over the libp2p mocknet, a panic injected into one user-supplied function
// (prototype chooser, codec, node reifier, node method called by selector evaluation, node method called
// by the visitor, storage read opener / its reader, storage write opener / its writer / its committer) at
// block K of request r1 on the requestor or on the responder, while request r2 is in progress and before
// request r3.  Observed: did the process survive, what r1's caller saw, the panic callback invocations on
// both instances, r1's terminal status on the responder, whether r2 and r3 delivered exactly what they
// deliver alone, and the chain of go-graphsync functions under which the panicking function was called.
package main

import (
	"bytes"
	"context"
	"encoding/json"
	"fmt"
	"os"
	"os/exec"
	"path/filepath"
	"reflect"
	"strings"
	"sync"
	"time"

	"verif/harness/internal/cw"
	"verif/harness/internal/drv"
	"verif/harness/internal/rng"
)

func main() {
	if len(os.Args) >= 4 && os.Args[1] == "child" {
		// d_panics child <cases.json> <dir>: run the listed cases one after the other, result_<idx>.json each
		var cs []batchCase
		if err := drv.ReadJSON(os.Args[2], &cs); err != nil {
			fmt.Fprintln(os.Stderr, "child:", err)
			os.Exit(3)
		}
		// a child never outlives its work: at most one case with expired waits (then it stops), the others take seconds
		time.AfterFunc(childLimit(len(cs)), func() { os.Exit(4) })
		for _, bc := range cs {
			rf := resultFile(os.Args[3], bc.Idx)
			if err := runChild(bc.Case, rf); err != nil {
				fmt.Fprintln(os.Stderr, "child:", err)
				os.Exit(3)
			}
			// after a case in which a wait expired this process may hold stuck goroutines: the rest of the
			// batch is handed back to the parent
			var res childResult
			if drv.ReadJSON(rf, &res) == nil && anyHung(&res) {
				break
			}
		}
		os.Exit(0)
	}
	drv.Main("panics", run)
}

type batchCase struct {
	Idx  int   `json:"idx"`
	Case pCase `json:"case"`
}

func childLimit(n int) time.Duration { return time.Duration(100+6*n) * time.Second }

func resultFile(dir string, idx int) string {
	return filepath.Join(dir, fmt.Sprintf("result_%04d.json", idx))
}

var coqKind = map[string]string{
	"chooser": "KChooser", "codec": "KCodec", "reifier": "KReifier", "selector": "KSelector", "visitor": "KVisitor",
	"sread": "KSRead", "sread_stream": "KSReadStream", "swrite": "KSWrite", "swrite_stream": "KSWriteStream", "swrite_commit": "KSCommit",
}

var kindsOf = map[string][]string{
	"requestor": {"chooser", "codec", "reifier", "selector", "visitor", "sread", "sread_stream", "swrite", "swrite_stream", "swrite_commit"},
	"responder": {"chooser", "codec", "reifier", "selector", "visitor", "sread", "sread_stream"},
}

// what the parent observed of one child
type observation struct {
	Exit     int          `json:"exit"`
	TimedOut bool         `json:"timed_out"`
	Stderr   string       `json:"stderr"` // head of the child's stderr (a Go crash prints "panic: <value>")
	Res      *childResult `json:"res"`
	Site     *siteRecord  `json:"site"`
	Reruns   int          `json:"reruns"`
}

type siteRecord struct {
	Kind  string   `json:"kind"`
	Chain []string `json:"chain"`
}

var batchSeq struct {
	sync.Mutex
	n int
}

// runBatch runs the cases (indices into cases) in ONE child process, in order.  When the child dies, the case it
// was running gets the death as its observation; that case and the ones before it are returned as done, the
// ones it did not reach (also when it stopped by itself after a case with an expired wait) as rest.
func runBatch(dir string, cases []pCase, idxs []int, obs []observation) (done, rest []int) {
	{
		batchSeq.Lock()
		batchSeq.n++
		cf := filepath.Join(dir, fmt.Sprintf("batch_%04d.json", batchSeq.n))
		batchSeq.Unlock()
		var bcs []batchCase
		for _, i := range idxs {
			bcs = append(bcs, batchCase{i, cases[i]})
			_ = os.Remove(resultFile(dir, i))
			_ = os.Remove(resultFile(dir, i) + ".site")
		}
		b, _ := json.Marshal(bcs)
		_ = os.WriteFile(cf, b, 0o644)
		ctx, cancel := context.WithTimeout(context.Background(), childLimit(len(idxs))+10*time.Second)
		cmd := exec.CommandContext(ctx, os.Args[0], "child", cf, dir)
		var stderr bytes.Buffer
		cmd.Stderr = &stderr
		cmd.Env = append(os.Environ(), "GOTRACEBACK=single", "GOMAXPROCS=4")
		err := cmd.Run()
		timedOut := ctx.Err() != nil
		cancel()
		exit := 0
		if err != nil {
			exit = -1
			if ee, ok := err.(*exec.ExitError); ok {
				exit = ee.ExitCode()
			}
		}
		if exit == 4 {
			timedOut = true // the child's own limit
		}
		es := stderr.String()
		if len(es) > 400 {
			es = es[:400]
		}
		_ = os.Remove(cf)
		next := []int{}
		died := false
		for _, i := range idxs {
			if died {
				next = append(next, i)
				continue
			}
			o := observation{}
			var res childResult
			if drv.ReadJSON(resultFile(dir, i), &res) == nil {
				o.Res = &res
			}
			var site siteRecord
			if drv.ReadJSON(resultFile(dir, i)+".site", &site) == nil {
				o.Site = &site
			}
			_ = os.Remove(resultFile(dir, i))
			_ = os.Remove(resultFile(dir, i) + ".site")
			if o.Res == nil || o.Res.Phase != "done" {
				if exit == 0 && !timedOut {
					// the child handed the rest of its batch back (it stops after a case in which a wait expired)
					died = true
					next = append(next, i)
					continue
				}
				// the child ended while this case was running (or before it started, if it could not start at all)
				o.Exit, o.TimedOut, o.Stderr = exit, timedOut, es
				died = true
			}
			obs[i] = o
			done = append(done, i)
		}
		return done, next
	}
}

func anyHung(res *childResult) bool {
	for _, r := range []*reqResult{res.Solo2, res.Solo3, res.R1, res.R2, res.R3} {
		if r != nil && r.Hung {
			return true
		}
	}
	return false
}

func hung(o observation) bool {
	return o.TimedOut || (o.Res != nil && anyHung(o.Res))
}

func sameResult(a, b *reqResult) bool {
	if a == nil || b == nil {
		return false
	}
	return a.Nodes == b.Nodes && reflect.DeepEqual(a.Errs, b.Errs) && a.Hung == b.Hung && !a.Hung && reflect.DeepEqual(a.Stored, b.Stored)
}

func coqStr(s string) string { return `"` + strings.ReplaceAll(s, `"`, `""`) + `"` }

func coqStrList(xs []string) string {
	ys := make([]string, len(xs))
	for i, x := range xs {
		ys[i] = coqStr(x)
	}
	return cw.List(ys)
}

// r1 as its caller saw it
func r1Obs(o observation) string {
	if o.Res == nil || o.Res.R1 == nil {
		return "RNotRun"
	}
	r := o.Res.R1
	switch {
	case r.Hung:
		return "RHung"
	case len(r.Errs) == 0:
		return "RCompleted"
	case r.Panic != 0:
		return fmt.Sprintf("(RPanicErr %d)", r.Panic)
	}
	// the responder ended the request with RequestFailedUnknown (blocks it did not send may in addition be reported missing)
	failed := false
	for _, e := range r.Errs {
		switch e {
		case "failed-unknown":
			failed = true
		case "missing":
		default:
			return "ROther"
		}
	}
	if failed {
		return "RRemoteFailed"
	}
	return "ROther"
}

// summary is the projection of an observation that the Coq side gets (and that goMonitor judges)
type summary struct {
	survived       bool
	crashMsg       uint64
	r1             string
	status         int
	cbReq, cbResp  []uint64
	r2same, r3same bool
}

func summarize(o observation) summary {
	sm := summary{survived: o.Exit == 0 && !o.TimedOut && o.Res != nil && o.Res.Phase == "done", r1: r1Obs(o)}
	if o.Res != nil {
		sm.cbReq, sm.cbResp = o.Res.CbReq, o.Res.CbResp
		sm.status = o.Res.RespStatus["r1"]
		sm.r2same = sameResult(o.Res.Solo2, o.Res.R2) && len(o.Res.R2.Errs) == 0
		sm.r3same = sameResult(o.Res.Solo3, o.Res.R3) && len(o.Res.R3.Errs) == 0
	}
	if !sm.survived {
		// a Go crash prints `panic: "verif-panic-N"` (possibly after a [recovered] prefix) on stderr
		if i := strings.Index(o.Stderr, "verif-panic-"); i >= 0 {
			_, _ = fmt.Sscanf(o.Stderr[i:], "verif-panic-%d", &sm.crashMsg)
		}
	}
	return sm
}

func sameU64(a, b []uint64) bool {
	if len(a) != len(b) {
		return false
	}
	for i := range a {
		if a[i] != b[i] {
			return false
		}
	}
	return true
}

// goMonitor is pcase_mon (Panics.v) on the Go side; it only decides when the driver stops scheduling
// further cases — the verdict itself is Coq's
func goMonitor(c pCase, o observation) bool {
	sm := summarize(o)
	if !sm.survived || !sm.r2same || !sm.r3same {
		return false
	}
	if c.Kind == "none" {
		return sm.r1 == "RCompleted" && len(sm.cbReq) == 0 && len(sm.cbResp) == 0
	}
	v := uint64(7000 + c.K)
	var want []uint64
	if c.Cb {
		want = []uint64{v}
	}
	if c.Side == "requestor" {
		return sm.r1 == fmt.Sprintf("(RPanicErr %d)", v) && sameU64(sm.cbReq, want) && len(sm.cbResp) == 0
	}
	postSend := c.Kind == "codec" || c.Kind == "reifier" || c.Kind == "selector" || c.Kind == "visitor"
	seen := sm.r1 == "RRemoteFailed" || (sm.r1 == "RCompleted" && c.K+1 == c.N1 && postSend)
	return seen && sm.status == 32 && sameU64(sm.cbResp, want) && len(sm.cbReq) == 0
}

// hangs describes the waits that expired in a case (after its rerun): concrete Go-side violations
func hangs(o observation) []string {
	var out []string
	if o.TimedOut {
		out = append(out, "the child process did not finish")
	}
	if o.Res == nil {
		return out
	}
	if r := o.Res.R1; r != nil && r.Hung {
		out = append(out, fmt.Sprintf("r1's progress and error channels were not closed within %v of the request (errors seen: %v)", reqDeadline, r.Errs))
	}
	if r := o.Res.R2; r != nil && r.Hung {
		out = append(out, fmt.Sprintf("r2, in progress while r1 panicked, did not finish within %v after r1 had ended", reqDeadline))
	}
	if r := o.Res.R3; r != nil && r.Hung {
		out = append(out, fmt.Sprintf("r3, issued after r1 had ended, did not complete within %v", reqDeadline))
	}
	return out
}

func term(c pCase, o observation) string {
	side := "Requestor"
	if c.Side == "responder" {
		side = "Responder"
	}
	kind := "None"
	if c.Kind != "none" {
		kind = "(Some " + coqKind[c.Kind] + ")"
	}
	sm := summarize(o)
	var chains []string
	if o.Res != nil {
		for _, k := range cw.SortedKeys(o.Res.Chains) {
			for _, ch := range o.Res.Chains[k] {
				chains = append(chains, fmt.Sprintf("(%s, %s)", coqKind[k], coqStrList(strings.Split(ch, " > "))))
			}
		}
	}
	site := "[]"
	if o.Site != nil {
		site = coqStrList(o.Site.Chain)
	}
	return fmt.Sprintf("mk_pcase %s %s %d %d %s %s %d %s %d %s %s %s %s %s %s",
		side, kind, c.K, c.N1, cw.Bool(c.Cb),
		cw.Bool(sm.survived), sm.crashMsg, sm.r1, sm.status, cw.NList(sm.cbReq), cw.NList(sm.cbResp), cw.Bool(sm.r2same), cw.Bool(sm.r3same),
		site, cw.List(chains))
}

const header = `From Coq Require Import List NArith Bool String.
From GS Require Import Base Panics.
From GSgen Require Import GenRecover.
Import ListNotations.
Open Scope N_scope.
Open Scope string_scope.
`

type caseRec struct {
	pCase
	Obs observation `json:"obs"`
}

func genCases(c *drv.Ctx) []pCase {
	var cs []pCase
	r := c.R
	add := func(pc pCase) {
		pc.Seed = r.U64()
		pc.Tags = []string{"side:" + pc.Side, "kind:" + pc.Kind, "site:" + pc.Side + "/" + pc.Kind, "shape:" + pc.Shape}
		cs = append(cs, pc)
	}
	mk := func(side, kind string, n1, k int, shape string, rr *rng.R) pCase {
		pc := pCase{Side: side, Kind: kind, K: k, N1: n1, N2: rr.Range(3, 7), Shape: shape, Cb: !rr.P(1, 6)}
		pc.Gate = rr.Range(1, pc.N2-1)
		switch {
		case side == "responder":
			pc.Local = 0
			if rr.P(1, 4) {
				pc.Local = rr.Range(0, k) // the requestor asks the responder to skip nothing it needs; blocks it has are loaded locally first
			}
		case kind == "sread_stream":
			pc.Local = k + 1
		case kind == "sread":
			pc.Local = k + 1
			if k == 0 && rr.Bool() {
				pc.Local = 0 // the first load is tried locally even when the block is absent
			}
		case strings.HasPrefix(kind, "swrite"):
			pc.Local = rr.Range(0, k)
		default:
			pc.Local = rr.Range(0, n1)
		}
		if side == "responder" && pc.Local > k {
			pc.Local = k
		}
		return pc
	}
	// no panic at all, both sides instrumented
	for _, side := range []string{"requestor", "responder"} {
		add(mk(side, "none", 5, 0, "tree", r))
	}
	rounds := c.Count(1, 12)
	for round := 0; round < rounds; round++ {
		for _, side := range []string{"requestor", "responder"} {
			for _, kind := range kindsOf[side] {
				n1 := r.Range(3, 8)
				ks := []int{0, r.Range(1, n1-2), n1 - 1}
				if round > 0 {
					ks = []int{r.Range(0, n1-1), r.Range(0, n1-1)}
				}
				for _, k := range ks {
					shape := "tree"
					if r.P(1, 3) {
						shape = "chain"
					}
					add(mk(side, kind, n1, k, shape, r))
				}
			}
		}
	}
	return cs
}

func run(c *drv.Ctx) error {
	w := cw.New(c.Out, header, "pcase", []cw.Check{{Name: "MON22", Fn: "pcase_mon"}, {Name: "MISMATCH", Fn: "pcase_ok gen_cfg"}})
	w.Stats.Rule = "each case = one child process with two real GraphSync instances over the libp2p mocknet; a panic injected at block k of request r1 in one user-supplied function " +
		"(chooser, codec, reifier, node method under selector evaluation, node method under the visitor, storage read opener / reader, storage write opener / writer / committer) " +
		"on the requestor or the responder, with request r2 held mid-way and request r3 afterwards; non-trivial = a panic was injected and raised; distinct = distinct terms"
	var cases []pCase
	if c.Replay != "" {
		var rc caseRec
		if err := drv.ReplayCase(c.Replay, &rc); err != nil {
			return err
		}
		cases = []pCase{rc.pCase}
	} else {
		for _, f := range c.CorpusFiles("panics") {
			var pc pCase
			if err := drv.ReadJSON(f, &pc); err != nil {
				return fmt.Errorf("%s: %v", f, err)
			}
			if len(pc.Tags) == 0 {
				pc.Tags = []string{"side:" + pc.Side, "kind:" + pc.Kind, "site:" + pc.Side + "/" + pc.Kind, "shape:" + pc.Shape}
			}
			pc.Tags = append(pc.Tags, "corpus")
			cases = append(cases, pc)
		}
		cases = append(cases, genCases(c)...)
	}
	tmp := filepath.Join(c.Out, "children")
	if err := os.MkdirAll(tmp, 0o755); err != nil {
		return err
	}
	obs := make([]observation, len(cases))
	ran := make([]bool, len(cases))
	const workers = 8
	const stopAfter = 3 // cases failing the property (after their rerun) after which no further case is started
	chunk := (len(cases) + workers - 1) / workers
	if chunk > 10 {
		chunk = 10
	}
	if chunk < 1 {
		chunk = 1
	}
	var qmu sync.Mutex
	queue := make([]int, len(cases))
	for i := range queue {
		queue[i] = i
	}
	bad := 0
	take := func() []int {
		qmu.Lock()
		defer qmu.Unlock()
		if bad >= stopAfter || len(queue) == 0 {
			return nil
		}
		n := chunk
		if n > len(queue) {
			n = len(queue)
		}
		idxs := append([]int{}, queue[:n]...)
		queue = queue[n:]
		return idxs
	}
	var wg sync.WaitGroup
	for wk := 0; wk < workers; wk++ {
		wg.Add(1)
		go func() {
			defer wg.Done()
			for idxs := take(); idxs != nil; idxs = take() {
				done, rest := runBatch(tmp, cases, idxs, obs)
				qmu.Lock()
				queue = append(append([]int{}, rest...), queue...) // cases the child did not reach go back to the front
				qmu.Unlock()
				for _, i := range done {
					if hung(obs[i]) || obs[i].Exit == 3 {
						// a wait that expired (or a mocknet that could not be set up) may be a loaded machine: once more, alone
						runBatch(tmp, cases, []int{i}, obs)
						obs[i].Reruns = 1
					}
					qmu.Lock()
					ran[i] = true
					if !goMonitor(cases[i], obs[i]) {
						bad++
					}
					qmu.Unlock()
				}
			}
		}()
	}
	wg.Wait()
	_ = os.RemoveAll(tmp)
	reruns, crashes, gate := 0, 0, 0
	notRun := 0
	for i, pc := range cases {
		if !ran[i] {
			notRun++
			continue
		}
		o := obs[i]
		fired := o.Site != nil
		tags := append([]string{}, pc.Tags...)
		if o.Exit != 0 {
			crashes++
			tags = append(tags, "outcome:process-crash")
		} else {
			tags = append(tags, "outcome:survived")
		}
		if o.Res != nil && o.Res.GateHit {
			gate++
		}
		reruns += o.Reruns
		pc.Tags = pc.Tags[:len(pc.Tags):len(pc.Tags)]
		idx := w.Add(term(pc, o), caseRec{pc, o}, fired, tags...)
		for _, h := range hangs(o) {
			w.Violation(idx, h+fmt.Sprintf(" [%s %s at block %d, also after a rerun]", pc.Side, pc.Kind, pc.K), "hang:"+pc.Side+"/"+pc.Kind)
		}
	}
	w.Stats.Extra = map[string]any{"children_rerun_after_expired_wait": reruns, "children_that_crashed": crashes, "r2_waiting_at_gate_while_r1_ran": gate,
		"cases_not_started_after_3_failing_cases": notRun}
	return w.Flush()
}
