package main

// One case, run in a process of its own (a crash of the library must be an observation of the parent).
// Two real GraphSync instances over the libp2p mocknet.  Request r2 (DAG D2) is started first and held
// in the requestor's incoming-block hook at block `Gate`; request r1 (DAG D1) is then run with the
// chosen callback panicking at r1's block K on the chosen side; when r1 has ended r2 is released; then
// a third request r3 (DAG D3) runs on the same instances.  Results are appended to a file line by line.

import (
	"context"
	"encoding/json"
	"errors"
	"fmt"
	"os"
	"sort"
	"sync"
	"time"

	"github.com/ipfs/go-cid"
	"github.com/ipld/go-ipld-prime"
	cidlink "github.com/ipld/go-ipld-prime/linking/cid"
	"github.com/libp2p/go-libp2p/core/peer"

	"github.com/ipfs/go-graphsync"
	gsimpl "github.com/ipfs/go-graphsync/impl"
	"github.com/ipfs/go-graphsync/panics"

	"verif/harness/internal/e2e"
	"verif/harness/internal/rng"
)

type pCase struct {
	Side  string   `json:"side"`  // requestor | responder
	Kind  string   `json:"kind"`  // none chooser codec reifier selector visitor sread sread_stream swrite swrite_stream swrite_commit
	K     int      `json:"k"`     // r1's block at which the callback panics
	N1    int      `json:"n1"`    // blocks of D1
	N2    int      `json:"n2"`    // blocks of D2 and D3
	Shape string   `json:"shape"` // chain | tree
	Local int      `json:"local"` // leading blocks of D1 the requestor already has
	Gate  int      `json:"gate"`  // r2's block at which it waits for r1 to end
	Cb    bool     `json:"cb"`    // panic callback configured
	Seed  uint64   `json:"seed"`
	Tags  []string `json:"tags,omitempty"`
}

// reqResult is what the caller of Request saw
type reqResult struct {
	Nodes  int      `json:"nodes"`  // progress items
	Errs   []string `json:"errs"`   // error classes, sorted, distinct
	Panic  uint64   `json:"panic"`  // value carried by a RecoveredPanicErr (0: none)
	Hung   bool     `json:"hung"`   // channels not closed before the deadline
	Stored []int    `json:"stored"` // indices of the DAG's blocks in the requestor's store afterwards
}

type childResult struct {
	Phase      string              `json:"phase"` // last phase reached
	Solo2      *reqResult          `json:"solo2,omitempty"`
	Solo3      *reqResult          `json:"solo3,omitempty"`
	R1         *reqResult          `json:"r1,omitempty"`
	R2         *reqResult          `json:"r2,omitempty"`
	R3         *reqResult          `json:"r3,omitempty"`
	GateHit    bool                `json:"gate_hit"`              // r2 was waiting in its hook while r1 ran
	CbReq      []uint64            `json:"cb_req"`                // values passed to the requestor's panic callback
	CbResp     []uint64            `json:"cb_resp"`               // ... the responder's
	RespStatus map[string]int      `json:"resp_status,omitempty"` // request name -> terminal status on the responder
	Fired      int                 `json:"fired"`                 // times the injected panic was raised
	Chains     map[string][]string `json:"chains,omitempty"`      // callback kind -> call chains observed for r1's blocks
}

func classify(err error) (string, uint64) {
	var rp panics.RecoveredPanicErr
	if errors.As(err, &rp) {
		return "panic", parsePanicValue(rp.PanicObj)
	}
	switch err.(type) {
	case graphsync.RemoteMissingBlockErr:
		return "missing", 0
	case graphsync.RequestFailedUnknownErr:
		return "failed-unknown", 0
	case graphsync.RequestFailedContentNotFoundErr:
		return "failed-notfound", 0
	case graphsync.RequestCancelledErr:
		return "cancelled", 0
	case graphsync.RequestClientCancelledErr:
		return "client-cancelled", 0
	}
	return "other:" + fmt.Sprintf("%T", err), 0
}

func collect(ctx context.Context, progress <-chan graphsync.ResponseProgress, errs <-chan error, d time.Duration) *reqResult {
	res := &reqResult{}
	set := map[string]bool{}
	deadline := time.After(d)
	for progress != nil || errs != nil {
		select {
		case _, ok := <-progress:
			if !ok {
				progress = nil
			} else {
				res.Nodes++
			}
		case e, ok := <-errs:
			if !ok {
				errs = nil
			} else if e != nil {
				c, v := classify(e)
				set[c] = true
				if v != 0 {
					res.Panic = v
				}
			}
		case <-deadline:
			res.Hung = true
			progress, errs = nil, nil
		}
	}
	for c := range set {
		res.Errs = append(res.Errs, c)
	}
	sort.Strings(res.Errs)
	return res
}

// request issues a request and collects what its caller sees, all within d.  Request() itself can block (it
// hands the request to the request manager's loop): that, too, is bounded, and reported as hung.
func request(ctx context.Context, gs graphsync.GraphExchange, p peer.ID, root ipld.Link, sel ipld.Node, d time.Duration) *reqResult {
	type chans struct {
		p <-chan graphsync.ResponseProgress
		e <-chan error
	}
	start := time.Now()
	issued := make(chan chans, 1)
	rctx, cancel := context.WithCancel(ctx)
	go func() {
		pc, ec := gs.Request(rctx, p, root, sel)
		issued <- chans{pc, ec}
	}()
	select {
	case c := <-issued:
		rest := d - time.Since(start)
		if rest < time.Second {
			rest = time.Second
		}
		res := collect(ctx, c.p, c.e, rest)
		cancel() // the request is over, or given up
		return res
	case <-time.After(d):
		cancel()
		return &reqResult{Hung: true, Errs: []string{"Request() did not return"}}
	}
}

func stored(s *e2e.Store, d *pdag) []int {
	out := []int{}
	for i, b := range d.Blocks {
		if s.Has(cidlink.Link{Cid: b.Cid}) {
			out = append(out, i)
		}
	}
	return out
}

// every wait on a request is bounded by this (a request of these sizes takes well under 2 s on a loaded machine);
// a wait that expires is an observation ("hung") and the case is run once more before it is believed
const reqDeadline = 8 * time.Second

func runChild(c pCase, resultPath string) error {
	out := &childResult{Phase: "start", CbReq: []uint64{}, CbResp: []uint64{}, RespStatus: map[string]int{}}
	var cbMu, stMu sync.Mutex
	flush := func(phase string) {
		stMu.Lock()
		cbMu.Lock()
		defer stMu.Unlock()
		defer cbMu.Unlock()
		out.Phase = phase
		b, _ := json.Marshal(out)
		_ = os.WriteFile(resultPath+".tmp", b, 0o644)
		_ = os.Rename(resultPath+".tmp", resultPath)
	}
	flush("start")
	r := rng.New(c.Seed)
	d1 := genDag(r, 1, c.N1, c.Shape)
	d2 := genDag(r, 2, c.N2, c.Shape)
	d3 := genDag(r, 3, c.N2, "tree")
	sel := matchAll()

	// ---- phase A: r2 and r3 alone, nothing injected ----
	{
		w, err := e2e.NewWorld(2)
		if err != nil {
			return err
		}
		for _, d := range []*pdag{d2, d3} {
			for _, b := range d.Blocks {
				w.Nodes[1].Store.Put(cidlink.Link{Cid: b.Cid}, b.Data)
			}
		}
		req := w.Start(0)
		resp := w.Start(1)
		resp.RegisterIncomingRequestHook(func(p peer.ID, rd graphsync.RequestData, ha graphsync.IncomingRequestHookActions) {
			ha.ValidateRequest()
		})
		out.Solo2 = request(w.Ctx, req, w.Nodes[1].ID(), d2.root(), sel, reqDeadline)
		out.Solo2.Stored = stored(w.Nodes[0].Store, d2)
		out.Solo3 = request(w.Ctx, req, w.Nodes[1].ID(), d3.root(), sel, reqDeadline)
		out.Solo3.Stored = stored(w.Nodes[0].Store, d3)
		w.Close()
	}
	flush("solo")

	// ---- phase B: r2 held, r1 with the injected panic, r2 released, r3 ----
	w, err := e2e.NewWorld(2)
	if err != nil {
		return err
	}
	defer func() {
		if !anyHung(out) {
			w.Close() // with stuck goroutines around, closing may itself wait: the process is about to exit anyway
		}
	}()
	for _, d := range []*pdag{d1, d2, d3} {
		for _, b := range d.Blocks {
			w.Nodes[1].Store.Put(cidlink.Link{Cid: b.Cid}, b.Data)
		}
	}
	for i := 0; i < c.Local && i < len(d1.Blocks); i++ {
		w.Nodes[0].Store.Put(cidlink.Link{Cid: d1.Blocks[i].Cid}, d1.Blocks[i].Data)
	}
	value := uint64(7000 + c.K)
	in := newInjector(c.Kind, c.K, panicValue(value), d1)
	in.siteFile = resultPath + ".site"
	cb := func(dst *[]uint64) panics.CallBackFn {
		return func(obj any, stack string) {
			cbMu.Lock()
			*dst = append(*dst, parsePanicValue(obj))
			cbMu.Unlock()
		}
	}
	var reqOpts, respOpts []gsimpl.Option
	if c.Cb {
		reqOpts = append(reqOpts, gsimpl.PanicCallback(cb(&out.CbReq)))
		respOpts = append(respOpts, gsimpl.PanicCallback(cb(&out.CbResp)))
	}
	lsReq, lsResp := w.Nodes[0].Store.LinkSystem(), w.Nodes[1].Store.LinkSystem()
	if c.Side == "requestor" {
		lsReq = in.wrap(lsReq)
	} else {
		lsResp = in.wrap(lsResp)
	}
	w.Nodes[0].GS = gsimpl.New(w.Ctx, w.Nodes[0].Net, lsReq, reqOpts...)
	w.Nodes[1].GS = gsimpl.New(w.Ctx, w.Nodes[1].Net, lsResp, respOpts...)
	req, resp := w.Nodes[0].GS, w.Nodes[1].GS

	names := map[string]string{d1.Blocks[0].Cid.String(): "r1", d2.Blocks[0].Cid.String(): "r2", d3.Blocks[0].Cid.String(): "r3"}
	resp.RegisterIncomingRequestHook(func(p peer.ID, rd graphsync.RequestData, ha graphsync.IncomingRequestHookActions) {
		ha.ValidateRequest()
		if c.Side == "responder" && names[rd.Root().String()] == "r1" {
			ha.UseLinkTargetNodePrototypeChooser(in.chooser())
		}
	})
	req.RegisterOutgoingRequestHook(func(p peer.ID, rd graphsync.RequestData, ha graphsync.OutgoingRequestHookActions) {
		if c.Side == "requestor" && names[rd.Root().String()] == "r1" {
			ha.UseLinkTargetNodePrototypeChooser(in.chooser())
		}
	})
	resp.RegisterCompletedResponseListener(func(p peer.ID, rd graphsync.RequestData, st graphsync.ResponseStatusCode) {
		stMu.Lock()
		out.RespStatus[names[rd.Root().String()]] = int(st)
		stMu.Unlock()
	})
	atGate := make(chan struct{})
	release := make(chan struct{})
	var gateOnce sync.Once
	d2idx := func(cc cid.Cid) int { return d2.index(cc) }
	req.RegisterIncomingBlockHook(func(p peer.ID, rd graphsync.ResponseData, bd graphsync.BlockData, ha graphsync.IncomingBlockHookActions) {
		if cl, ok := bd.Link().(cidlink.Link); ok && d2idx(cl.Cid) == c.Gate {
			gateOnce.Do(func() { close(atGate) })
			select {
			case <-release:
			case <-time.After(4 * reqDeadline):
			}
		}
	})

	var r2res *reqResult
	r2done := make(chan struct{})
	go func() {
		r2res = request(w.Ctx, req, w.Nodes[1].ID(), d2.root(), sel, 6*reqDeadline) // bounded below by the wait after the release
		close(r2done)
	}()
	select {
	case <-atGate:
		out.GateHit = true
	case <-r2done:
	case <-time.After(reqDeadline):
	}
	flush("r2-held")

	in.r1Active.Store(true)
	out.R1 = request(w.Ctx, req, w.Nodes[1].ID(), d1.root(), sel, reqDeadline)
	in.r1Active.Store(false)
	out.R1.Stored = stored(w.Nodes[0].Store, d1)
	out.Fired = in.fired
	flush("r1-ended")

	close(release)
	select {
	case <-r2done:
	case <-time.After(reqDeadline):
		r2res = &reqResult{Hung: true} // r2 did not finish after r1 had ended and the gate was opened
	}
	out.R2 = r2res
	out.R2.Stored = stored(w.Nodes[0].Store, d2)
	flush("r2-ended")

	out.R3 = request(w.Ctx, req, w.Nodes[1].ID(), d3.root(), sel, reqDeadline)
	out.R3.Stored = stored(w.Nodes[0].Store, d3)

	// the responder reports r1's terminal status asynchronously (after the message was sent)
	if c.Side == "responder" && c.Kind != "none" && !out.R1.Hung && !out.R2.Hung && !out.R3.Hung {
		deadline := time.Now().Add(reqDeadline)
		for time.Now().Before(deadline) {
			stMu.Lock()
			_, ok := out.RespStatus["r1"]
			stMu.Unlock()
			if ok {
				break
			}
			time.Sleep(2 * time.Millisecond)
		}
	}
	out.Chains = in.observedChains()
	out.Fired = in.fired
	flush("done")
	return nil
}

var _ = ipld.Link(nil)
