package main

// DAGs whose blocks are numbered in the order an explore-all traversal loads them (depth-first
// pre-order, no shared blocks), so that "block k of the request" is well defined.  Interior blocks are
// dag-cbor maps {v: tag*100000+i, kids: [links]}, some leaves are raw blocks "T<tag>-<i>".

import (
	"bytes"
	"fmt"

	"github.com/ipfs/go-cid"
	"github.com/ipld/go-ipld-prime"
	"github.com/ipld/go-ipld-prime/codec/dagcbor"
	_ "github.com/ipld/go-ipld-prime/codec/raw"
	"github.com/ipld/go-ipld-prime/datamodel"
	"github.com/ipld/go-ipld-prime/fluent/qp"
	cidlink "github.com/ipld/go-ipld-prime/linking/cid"
	"github.com/ipld/go-ipld-prime/node/basicnode"
	"github.com/ipld/go-ipld-prime/traversal/selector"
	"github.com/ipld/go-ipld-prime/traversal/selector/builder"
	mh "github.com/multiformats/go-multihash"

	"verif/harness/internal/rng"
)

type pblock struct {
	Cid  cid.Cid
	Data []byte
}

type pdag struct {
	Tag    int
	Blocks []pblock // in load order; Blocks[0] is the root
}

func (d *pdag) root() ipld.Link { return cidlink.Link{Cid: d.Blocks[0].Cid} }

func (d *pdag) index(c cid.Cid) int {
	for i, b := range d.Blocks {
		if b.Cid.Equals(c) {
			return i
		}
	}
	return -1
}

func (d *pdag) indexOfData(data []byte) int {
	for i, b := range d.Blocks {
		if bytes.Equal(b.Data, data) {
			return i
		}
	}
	return -1
}

func (d *pdag) indexOfNode(n datamodel.Node) int {
	switch n.Kind() {
	case datamodel.Kind_Map:
		v, err := n.LookupByString("v")
		if err != nil {
			return -1
		}
		x, err := v.AsInt()
		if err != nil || int(x)/100000 != d.Tag {
			return -1
		}
		i := int(x) % 100000
		if i < len(d.Blocks) {
			return i
		}
	case datamodel.Kind_Bytes:
		b, err := n.AsBytes()
		if err != nil {
			return -1
		}
		return d.indexOfData(b)
	}
	return -1
}

func mkCid(codec uint64, data []byte) cid.Cid {
	h, err := mh.Sum(data, mh.SHA2_256, -1)
	if err != nil {
		panic(err)
	}
	return cid.NewCidV1(codec, h)
}

// genDag builds a DAG of exactly n blocks; shape "chain" or "tree"
func genDag(r *rng.R, tag, n int, shape string) *pdag {
	// choose the tree: kids[i] in pre-order numbering
	kids := make([][]int, n)
	if shape == "chain" {
		for i := 0; i+1 < n; i++ {
			kids[i] = []int{i + 1}
		}
	} else {
		next := 1
		var grow func(i, depth int)
		grow = func(i, depth int) {
			if next >= n {
				return
			}
			f := r.Range(1, 3)
			if depth > 0 && r.P(1, 3) {
				f = 0
			}
			for j := 0; j < f && next < n; j++ {
				c := next
				next++
				kids[i] = append(kids[i], c)
				grow(c, depth+1)
			}
		}
		for next < n {
			// (re)grow from the root until all blocks are placed; appended subtrees keep pre-order numbering
			grow(0, 0)
		}
	}
	d := &pdag{Tag: tag, Blocks: make([]pblock, n)}
	for i := n - 1; i >= 0; i-- {
		if len(kids[i]) == 0 && i > 0 && r.P(1, 3) {
			data := []byte(fmt.Sprintf("T%d-%d", tag, i))
			d.Blocks[i] = pblock{Cid: mkCid(cid.Raw, data), Data: data}
			continue
		}
		ks := kids[i]
		node, err := qp.BuildMap(basicnode.Prototype.Any, -1, func(ma datamodel.MapAssembler) {
			qp.MapEntry(ma, "v", qp.Int(int64(tag*100000+i)))
			qp.MapEntry(ma, "kids", qp.List(-1, func(la datamodel.ListAssembler) {
				for _, k := range ks {
					qp.ListEntry(la, qp.Link(cidlink.Link{Cid: d.Blocks[k].Cid}))
				}
			}))
		})
		if err != nil {
			panic(err)
		}
		var buf bytes.Buffer
		if err := dagcbor.Encode(node, &buf); err != nil {
			panic(err)
		}
		d.Blocks[i] = pblock{Cid: mkCid(cid.DagCBOR, buf.Bytes()), Data: buf.Bytes()}
	}
	return d
}

var ssb = builder.NewSelectorSpecBuilder(basicnode.Prototype.Any)

// matchAll explores everything and matches every node (so that the visitor sees selection matches)
func matchAll() datamodel.Node {
	return ssb.ExploreRecursive(selector.RecursionLimitNone(),
		ssb.ExploreUnion(ssb.Matcher(), ssb.ExploreAll(ssb.ExploreRecursiveEdge()))).Node()
}
