// gen_recover regenerates coq/gen/GenRecover.v (C22) from /repo's current source.
//
// GenRecover.v (C22): where the user-supplied functions of a request are called and which function
// on that goroutine's stack defers a recover.  For every known call site (side, kind of user function)
// the chain of go-graphsync functions from the goroutine's root to the caller is an anchored list
// below; this translator checks on the current source that each function of the chain exists and
// calls the next one, that the last one makes the user call, and derives for each function whether
// it defers `handler(recover())` with a handler made by panics.MakeHandler from the configured
// callback, and whether the resulting error is delivered (writeDone(err) in the traverser goroutine,
// assignment to the named error result in the executors).  panics.MakeHandler itself is read into
// three facts.  Anything of another shape is an error (fails closed).
package main

import (
	"flag"
	"fmt"
	"go/ast"
	"go/parser"
	"go/token"
	"os"
	"path/filepath"
	"strings"
)

func fail(format string, a ...any) {
	fmt.Fprintf(os.Stderr, "gen_recover: "+format+"\n", a...)
	os.Exit(1)
}

func writeIfChanged(path, content string) {
	old, err := os.ReadFile(path)
	if err == nil && string(old) == content {
		fmt.Println("unchanged", filepath.Base(path))
		return
	}
	if err := os.WriteFile(path, []byte(content), 0o644); err != nil {
		fail("%v", err)
	}
	fmt.Println("regenerated", filepath.Base(path))
}

func coqString(s string) string { return `"` + strings.ReplaceAll(s, `"`, `""`) + `"` }

func main() {
	repo := flag.String("repo", "/repo", "repository root")
	out := flag.String("out", "", "output directory (coq/gen)")
	flag.Parse()
	if *out == "" {
		fail("-out required")
	}
	genRecover(*repo, *out)
}

type rFrame struct {
	dir, recv, fn string
	lit           string // "": the function itself; "Visitor": the function literal given as Visitor: in a composite literal; "go": the literal of the go statement
}

type rSite struct {
	side, kind, gor string
	chain           []rFrame
	calls           []string // callee names of which at least one must be called by the last frame
}

type rgen struct {
	repo  string
	fset  *token.FileSet
	files map[string][]*ast.File // dir -> files
}

func (g *rgen) load(d string) []*ast.File {
	if fs, ok := g.files[d]; ok {
		return fs
	}
	matches, err := filepath.Glob(filepath.Join(g.repo, d, "*.go"))
	if err != nil {
		fail("%v", err)
	}
	var fs []*ast.File
	for _, m := range matches {
		if strings.HasSuffix(m, "_test.go") || strings.HasSuffix(m, "_verif.go") {
			continue
		}
		f, err := parser.ParseFile(g.fset, m, nil, 0)
		if err != nil {
			fail("%v", err)
		}
		fs = append(fs, f)
	}
	if len(fs) == 0 {
		fail("recover: no Go files in %s", d)
	}
	g.files[d] = fs
	return fs
}

func recvName(fd *ast.FuncDecl) string {
	if fd.Recv == nil || len(fd.Recv.List) == 0 {
		return ""
	}
	t := fd.Recv.List[0].Type
	if s, ok := t.(*ast.StarExpr); ok {
		t = s.X
	}
	if id, ok := t.(*ast.Ident); ok {
		return id.Name
	}
	return "?"
}

func (g *rgen) fn(dir, recv, name string) *ast.FuncDecl {
	for _, f := range g.load(dir) {
		for _, d := range f.Decls {
			if fd, ok := d.(*ast.FuncDecl); ok && fd.Name.Name == name && recvName(fd) == recv && fd.Body != nil {
				return fd
			}
		}
	}
	fail("recover: function %s.%s.%s not found", dir, recv, name)
	return nil
}

// topLits: function literals directly inside body (not nested in another literal), in source order —
// the Go compiler names them <outer>.func1, .func2, ...
func topLits(body *ast.BlockStmt) []*ast.FuncLit {
	var lits []*ast.FuncLit
	ast.Inspect(body, func(n ast.Node) bool {
		if fl, ok := n.(*ast.FuncLit); ok {
			lits = append(lits, fl)
			return false
		}
		return true
	})
	return lits
}

func litIndex(body *ast.BlockStmt, fl *ast.FuncLit) int {
	for i, l := range topLits(body) {
		if l == fl {
			return i + 1
		}
	}
	return 0
}

// resolved frame
type rBody struct {
	name    string
	body    *ast.BlockStmt
	ftype   *ast.FuncType
	pos     token.Pos
	outerFn *ast.FuncDecl
}

func (g *rgen) resolve(fr rFrame) rBody {
	fd := g.fn(fr.dir, fr.recv, fr.fn)
	name := fr.dir + "."
	if fr.recv != "" {
		name += fr.recv + "."
	}
	name += fr.fn
	switch fr.lit {
	case "":
		return rBody{name, fd.Body, fd.Type, fd.Pos(), fd}
	case "go":
		var found *ast.FuncLit
		ast.Inspect(fd.Body, func(n ast.Node) bool {
			if gs, ok := n.(*ast.GoStmt); ok {
				if fl, ok := gs.Call.Fun.(*ast.FuncLit); ok {
					if found != nil {
						fail("recover: %s has more than one go statement with a function literal", name)
					}
					found = fl
				}
			}
			return true
		})
		if found == nil {
			fail("recover: %s has no `go func() {...}()`", name)
		}
		i := litIndex(fd.Body, found)
		if i == 0 {
			fail("recover: the goroutine literal of %s is nested in another literal", name)
		}
		return rBody{fmt.Sprintf("%s.func%d", name, i), found.Body, found.Type, found.Pos(), fd}
	case "Visitor":
		var found *ast.FuncLit
		ast.Inspect(fd.Body, func(n ast.Node) bool {
			if kv, ok := n.(*ast.KeyValueExpr); ok {
				if id, ok := kv.Key.(*ast.Ident); ok && id.Name == "Visitor" {
					if fl, ok := kv.Value.(*ast.FuncLit); ok {
						if found != nil {
							fail("recover: %s has more than one Visitor literal", name)
						}
						found = fl
					}
				}
			}
			return true
		})
		if found == nil {
			fail("recover: %s has no `Visitor: func(...)` literal", name)
		}
		i := litIndex(fd.Body, found)
		if i == 0 {
			fail("recover: the Visitor literal of %s is nested in another literal", name)
		}
		return rBody{fmt.Sprintf("%s.func%d", name, i), found.Body, found.Type, found.Pos(), fd}
	}
	fail("recover: unknown literal selector %q", fr.lit)
	return rBody{}
}

func calleeName(c *ast.CallExpr) string {
	switch f := c.Fun.(type) {
	case *ast.Ident:
		return f.Name
	case *ast.SelectorExpr:
		return f.Sel.Name
	}
	return ""
}

// callsAny: does the body (not its nested literals) call a function or method of one of these names
func callsAny(body *ast.BlockStmt, names ...string) bool {
	found := false
	ast.Inspect(body, func(n ast.Node) bool {
		if _, ok := n.(*ast.FuncLit); ok {
			return false
		}
		if c, ok := n.(*ast.CallExpr); ok {
			cn := calleeName(c)
			for _, want := range names {
				if cn == want {
					found = true
				}
			}
		}
		return true
	})
	return found
}

func containsRecover(n ast.Node) bool {
	found := false
	ast.Inspect(n, func(n ast.Node) bool {
		if c, ok := n.(*ast.CallExpr); ok {
			if id, ok := c.Fun.(*ast.Ident); ok && id.Name == "recover" && len(c.Args) == 0 {
				found = true
			}
		}
		return true
	})
	return found
}

func isRecoverCall(e ast.Expr) bool {
	c, ok := e.(*ast.CallExpr)
	if !ok {
		return false
	}
	id, ok := c.Fun.(*ast.Ident)
	return ok && id.Name == "recover" && len(c.Args) == 0
}

func exprString(e ast.Expr) string {
	switch x := e.(type) {
	case *ast.Ident:
		return x.Name
	case *ast.SelectorExpr:
		return exprString(x.X) + "." + x.Sel.Name
	case *ast.CallExpr:
		s := exprString(x.Fun) + "("
		for i, a := range x.Args {
			if i > 0 {
				s += ", "
			}
			s += exprString(a)
		}
		return s + ")"
	}
	return fmt.Sprintf("<%T>", e)
}

func namedResults(ft *ast.FuncType) map[string]bool {
	out := map[string]bool{}
	if ft.Results != nil {
		for _, f := range ft.Results.List {
			for _, n := range f.Names {
				out[n.Name] = true
			}
		}
	}
	return out
}

// recoverOf classifies what the function body defers.  handlerExpr is the textual form of the handler
// ("t.panicHandler" or "panics.MakeHandler(<x>.PanicCallback)").
func (g *rgen) recoverOf(b rBody) (has bool, delivers bool, handlerExpr string) {
	for _, st := range b.body.List {
		ds, ok := st.(*ast.DeferStmt)
		if !ok {
			if containsRecoverOutsideLits(st) {
				fail("recover: %s: recover() outside a deferred function literal at %s", b.name, g.fset.Position(st.Pos()))
			}
			continue
		}
		if !containsRecover(ds) {
			continue
		}
		fl, ok := ds.Call.Fun.(*ast.FuncLit)
		if !ok {
			fail("recover: %s: deferred recover of unsupported shape at %s", b.name, g.fset.Position(ds.Pos()))
		}
		if has {
			fail("recover: %s: more than one deferred recover", b.name)
		}
		// find: if X := H(recover()); X != nil { BODY }
		var ifs *ast.IfStmt
		for _, s := range fl.Body.List {
			if !containsRecover(s) {
				continue
			}
			is, ok := s.(*ast.IfStmt)
			if !ok || ifs != nil {
				fail("recover: %s: deferred recover of unsupported shape at %s", b.name, g.fset.Position(s.Pos()))
			}
			ifs = is
		}
		as, ok := ifs.Init.(*ast.AssignStmt)
		if !ok || len(as.Lhs) != 1 || len(as.Rhs) != 1 {
			fail("recover: %s: expected `if x := handler(recover()); x != nil`", b.name)
		}
		x, ok := as.Lhs[0].(*ast.Ident)
		call, ok2 := as.Rhs[0].(*ast.CallExpr)
		if !ok || !ok2 || len(call.Args) != 1 || !isRecoverCall(call.Args[0]) {
			fail("recover: %s: expected `if x := handler(recover()); x != nil`", b.name)
		}
		cond, ok := ifs.Cond.(*ast.BinaryExpr)
		if !ok || cond.Op != token.NEQ || exprString(cond.X) != x.Name || exprString(cond.Y) != "nil" || ifs.Else != nil {
			fail("recover: %s: expected the condition `%s != nil` and no else", b.name, x.Name)
		}
		handlerExpr = exprString(call.Fun)
		has = true
		results := namedResults(b.ftype)
		ast.Inspect(ifs.Body, func(n ast.Node) bool {
			switch s := n.(type) {
			case *ast.CallExpr:
				if calleeName(s) == "writeDone" && len(s.Args) == 1 && exprString(s.Args[0]) == x.Name {
					delivers = true
				}
			case *ast.AssignStmt:
				if s.Tok == token.ASSIGN && len(s.Lhs) == 1 && len(s.Rhs) == 1 && exprString(s.Rhs[0]) == x.Name {
					if id, ok := s.Lhs[0].(*ast.Ident); ok && results[id.Name] {
						delivers = true
					}
				}
			}
			return true
		})
	}
	return
}

func containsRecoverOutsideLits(n ast.Node) bool {
	found := false
	ast.Inspect(n, func(n ast.Node) bool {
		if _, ok := n.(*ast.FuncLit); ok {
			return false
		}
		if c, ok := n.(*ast.CallExpr); ok && isRecoverCall(c) {
			found = true
		}
		return true
	})
	return found
}

// hasKeyValue: a composite-literal entry `key: <value>` (textual value) somewhere in the function
func hasKeyValue(fd *ast.FuncDecl, key, value string) int {
	n := 0
	ast.Inspect(fd.Body, func(nd ast.Node) bool {
		if kv, ok := nd.(*ast.KeyValueExpr); ok {
			if id, ok := kv.Key.(*ast.Ident); ok && id.Name == key && exprString(kv.Value) == value {
				n++
			}
		}
		return true
	})
	return n
}

func coqBool(b bool) string {
	if b {
		return "true"
	}
	return "false"
}

func genRecover(repo, out string) {
	g := &rgen{repo: repo, fset: token.NewFileSet(), files: map[string][]*ast.File{}}

	// ---- panics.MakeHandler ----
	mh := g.fn("panics", "", "MakeHandler")
	if len(mh.Type.Params.List) != 1 || len(mh.Type.Params.List[0].Names) != 1 {
		fail("recover: MakeHandler: expected one parameter")
	}
	cbName := mh.Type.Params.List[0].Names[0].Name
	if len(mh.Body.List) != 1 {
		fail("recover: MakeHandler: expected a single return statement")
	}
	ret, ok := mh.Body.List[0].(*ast.ReturnStmt)
	if !ok || len(ret.Results) != 1 {
		fail("recover: MakeHandler: expected `return func(obj any) error {...}`")
	}
	hl, ok := ret.Results[0].(*ast.FuncLit)
	if !ok || len(hl.Type.Params.List) != 1 || len(hl.Type.Params.List[0].Names) != 1 {
		fail("recover: MakeHandler: expected `return func(obj any) error {...}`")
	}
	obj := hl.Type.Params.List[0].Names[0].Name
	nilNil, callsCb, carries := false, false, false
	for i, st := range hl.Body.List {
		switch s := st.(type) {
		case *ast.IfStmt:
			c := exprString2(s.Cond)
			if i == 0 && c == obj+" == nil" && len(s.Body.List) == 1 {
				if r, ok := s.Body.List[0].(*ast.ReturnStmt); ok && len(r.Results) == 1 && exprString(r.Results[0]) == "nil" {
					nilNil = true
				}
			}
			if c == cbName+" != nil" {
				for _, b := range s.Body.List {
					if es, ok := b.(*ast.ExprStmt); ok {
						if call, ok := es.X.(*ast.CallExpr); ok && exprString(call.Fun) == cbName && len(call.Args) >= 1 && exprString(call.Args[0]) == obj {
							callsCb = true
						}
					}
				}
			}
		case *ast.ReturnStmt:
			if len(s.Results) == 1 {
				if cl, ok := s.Results[0].(*ast.CompositeLit); ok && exprString(cl.Type) == "RecoveredPanicErr" {
					for _, e := range cl.Elts {
						if kv, ok := e.(*ast.KeyValueExpr); ok && exprString(kv.Key) == "PanicObj" && exprString(kv.Value) == obj {
							carries = true
						}
					}
				}
			}
		}
	}

	// ---- is the configured callback what reaches the handlers ----
	implNew := g.fn("impl", "", "New")
	implPasses := map[string]bool{}
	ast.Inspect(implNew.Body, func(n ast.Node) bool {
		if c, ok := n.(*ast.CallExpr); ok {
			f := exprString(c.Fun)
			if f == "requestmanager.New" || f == "responsemanager.New" {
				for _, a := range c.Args {
					if exprString(a) == "gsConfig.panicCallback" {
						implPasses[f] = true
					}
				}
			}
		}
		return true
	})
	optSets := hasAssign(g.fn("impl", "", "PanicCallback"), "gs.panicCallback", "callbackFn")
	startMakes := hasKeyValue(g.fn("ipldutil", "TraversalBuilder", "Start"), "panicHandler", "panics.MakeHandler(tb.PanicCallback)") == 1
	reqTask := g.fn("requestmanager", "RequestManager", "requestTask")
	respTask := g.fn("responsemanager", "ResponseManager", "taskDataForKey")
	// requestTask / taskDataForKey build both the TraversalBuilder and the executor's task: PanicCallback twice
	wired := map[string]map[string]bool{
		"Requestor": {
			"t.panicHandler":                       optSets && implPasses["requestmanager.New"] && startMakes && hasKeyValue(reqTask, "PanicCallback", "rm.panicCallback") >= 1 && fieldInLit(reqTask, "TraversalBuilder", "PanicCallback", "rm.panicCallback"),
			"panics.MakeHandler(rt.PanicCallback)": optSets && implPasses["requestmanager.New"] && fieldInLit(reqTask, "RequestTask", "PanicCallback", "rm.panicCallback"),
		},
		"Responder": {
			"t.panicHandler": optSets && implPasses["responsemanager.New"] && startMakes && fieldInLit(respTask, "TraversalBuilder", "PanicCallback", "rm.panicCallback"),
			"panics.MakeHandler(taskData.PanicCallback)": optSets && implPasses["responsemanager.New"] && fieldInLit(respTask, "ResponseTask", "PanicCallback", "rm.panicCallback"),
		},
	}

	// ---- anchored call sites ----
	start := rFrame{"ipldutil", "traverser", "start", "go"}
	worker := rFrame{"taskqueue", "WorkerTaskQueue", "worker", ""}
	ex := func(n string) rFrame { return rFrame{"requestmanager/executor", "Executor", n, ""} }
	rl := func(n string) rFrame { return rFrame{"requestmanager/reconciledloader", "ReconciledLoader", n, ""} }
	qe := func(n string) rFrame { return rFrame{"responsemanager/queryexecutor", "QueryExecutor", n, ""} }
	reqLoad := func(leaf string, retry bool) []rFrame {
		c := []rFrame{worker, ex("ExecuteTask"), ex("traverse")}
		if retry {
			c = append(c, rl("RetryLastLoad"))
		}
		return append(c, rl("BlockReadOpener"), rl("blockReadOpener"), rl(leaf))
	}
	respLoad := []rFrame{worker, qe("ExecuteTask"), qe("executeQuery"), qe("runTraversal"), qe("loadBlock")}
	var sites []rSite
	for _, side := range []string{"Requestor", "Responder"} {
		sites = append(sites,
			rSite{side, "KChooser", "GTraverser", []rFrame{start}, []string{"chooser", "WalkAdv"}},
			rSite{side, "KCodec", "GTraverser", []rFrame{start}, []string{"Load", "WalkAdv"}},
			rSite{side, "KReifier", "GTraverser", []rFrame{start}, []string{"Load", "WalkAdv"}},
			rSite{side, "KSelector", "GTraverser", []rFrame{start}, []string{"ParseSelector", "WalkAdv"}},
		)
	}
	sites = append(sites,
		rSite{"Requestor", "KVisitor", "GTraverser", []rFrame{start, {"requestmanager", "RequestManager", "requestTask", "Visitor"}}, []string{"AsLargeBytes"}},
		rSite{"Responder", "KVisitor", "GTraverser", []rFrame{start, {"responsemanager", "ResponseManager", "taskDataForKey", "Visitor"}}, []string{"AsLargeBytes"}},
	)
	for _, retry := range []bool{false, true} {
		sites = append(sites,
			rSite{"Requestor", "KSRead", "GWorker", reqLoad("loadLocal", retry), []string{"StorageReadOpener"}},
			rSite{"Requestor", "KSReadStream", "GWorker", reqLoad("loadLocal", retry), []string{"ReadAll"}},
			rSite{"Requestor", "KSWrite", "GWorker", reqLoad("loadRemote", retry), []string{"StorageWriteOpener"}},
			rSite{"Requestor", "KSWriteStream", "GWorker", reqLoad("loadRemote", retry), []string{"Write", "SetBytes"}},
			rSite{"Requestor", "KSCommit", "GWorker", reqLoad("loadRemote", retry), []string{"committer"}},
		)
	}
	sites = append(sites,
		rSite{"Responder", "KSRead", "GWorker", respLoad, []string{"Loader"}},
		rSite{"Responder", "KSReadStream", "GWorker", respLoad, []string{"Copy"}},
	)
	// the worker goroutine's root must really be a goroutine root: Startup does `go tq.worker(executor)`
	startup := g.fn("taskqueue", "WorkerTaskQueue", "Startup")
	goWorker := false
	ast.Inspect(startup.Body, func(n ast.Node) bool {
		if gs, ok := n.(*ast.GoStmt); ok && calleeName(gs.Call) == "worker" {
			goWorker = true
		}
		return true
	})
	if !goWorker {
		fail("recover: taskqueue Startup no longer starts `go tq.worker(...)`")
	}
	// the traverser's consumer is handed the load: the traverser goroutine's own StorageReadOpener is t.loader
	if !hasAssign(g.fn("ipldutil", "TraversalBuilder", "Start"), "t.linkSystem.StorageReadOpener", "t.loader") {
		fail("recover: TraversalBuilder.Start no longer sets t.linkSystem.StorageReadOpener = t.loader")
	}
	// the visitor literal is what the traverser is given
	nextName := func(fr rFrame) string { return fr.fn }

	var b strings.Builder
	b.WriteString("(* GENERATED by /verif/harness/cmd/gen_recover from /repo: ipldutil/traverser.go, panics/panics.go,\n")
	b.WriteString("   taskqueue/taskqueue.go, requestmanager/executor/executor.go, requestmanager/reconciledloader/*.go,\n")
	b.WriteString("   requestmanager/server.go, responsemanager/queryexecutor/queryexecutor.go, responsemanager/server.go,\n")
	b.WriteString("   impl/graphsync.go.  Do not edit: rewritten on every run. *)\n")
	b.WriteString("From Coq Require Import List String.\nFrom GS Require Import Panics.\nImport ListNotations.\nOpen Scope string_scope.\n\n")
	fmt.Fprintf(&b, "(* panics.MakeHandler: handler(nil) = nil; calls the callback with the recovered value; the error carries it *)\n")
	fmt.Fprintf(&b, "Definition gen_handler : handler_facts := mk_handler %s %s %s.\n\n", coqBool(nilNil), coqBool(callsCb), coqBool(carries))
	b.WriteString("Definition gen_sites : list site := [\n")
	for si, s := range sites {
		var frames []string
		for i, fr := range s.chain {
			rb := g.resolve(fr)
			// each function calls the next one of the chain; the last one makes the user call
			if i+1 < len(s.chain) {
				nx := s.chain[i+1]
				if nx.lit == "Visitor" {
					if !callsAny(rb.body, "WalkAdv") {
						fail("recover: %s no longer calls WalkAdv (which calls the visitor)", rb.name)
					}
				} else if !callsAny(rb.body, nextName(nx)) {
					fail("recover: %s no longer calls %s", rb.name, nextName(nx))
				}
			} else if !callsAny(rb.body, s.calls...) {
				fail("recover: %s no longer calls any of %v (%s %s)", rb.name, s.calls, s.side, s.kind)
			}
			has, delivers, hexpr := g.recoverOf(rb)
			rec := "NoRecover"
			if has {
				w, known := wired[s.side][hexpr]
				if !known {
					fail("recover: %s: handler %q is not one made by panics.MakeHandler from the configured callback", rb.name, hexpr)
				}
				rec = fmt.Sprintf("(Recover %s %s)", coqBool(delivers), coqBool(w))
			}
			frames = append(frames, fmt.Sprintf("mk_frame %s %s", coqString(rb.name), rec))
		}
		sep := ";"
		if si+1 == len(sites) {
			sep = ""
		}
		fmt.Fprintf(&b, "  mk_site %s %s %s\n    [%s]%s\n", s.side, s.kind, s.gor, strings.Join(frames, ";\n     "), sep)
	}
	b.WriteString("].\n\nDefinition gen_cfg : cfg := mk_cfg gen_sites gen_handler.\n")
	writeIfChanged(filepath.Join(out, "GenRecover.v"), b.String())
}

func exprString2(e ast.Expr) string {
	if be, ok := e.(*ast.BinaryExpr); ok {
		return exprString(be.X) + " " + be.Op.String() + " " + exprString(be.Y)
	}
	return exprString(e)
}

func hasAssign(fd *ast.FuncDecl, lhs, rhs string) bool {
	found := false
	ast.Inspect(fd.Body, func(n ast.Node) bool {
		if as, ok := n.(*ast.AssignStmt); ok && len(as.Lhs) == 1 && len(as.Rhs) == 1 {
			if exprString(as.Lhs[0]) == lhs && exprString(as.Rhs[0]) == rhs {
				found = true
			}
		}
		return true
	})
	return found
}

// fieldInLit: a composite literal whose type name ends in typ has the entry key: value
func fieldInLit(fd *ast.FuncDecl, typ, key, value string) bool {
	found := false
	ast.Inspect(fd.Body, func(n ast.Node) bool {
		if cl, ok := n.(*ast.CompositeLit); ok && cl.Type != nil && strings.HasSuffix(exprString(cl.Type), typ) {
			for _, e := range cl.Elts {
				if kv, ok := e.(*ast.KeyValueExpr); ok && exprString(kv.Key) == key && exprString(kv.Value) == value {
					found = true
				}
			}
		}
		return true
	})
	return found
}
