// Command d_resppeer is the correspondence driver of C10 (messages from one peer cannot alter a
// response served to another): scripted histories against the real ResponseManager (see rig.go), each
// run twice - with and without the messages of the foreign peers - and written out as Coq terms for
// GS.RespMgrMsg (model comparison MISMATCH, property monitor MON10).
package main

import (
	"fmt"
	"os"
	"path/filepath"
	"regexp"
	"strconv"
	"time"

	"github.com/ipfs/go-cid"
	"github.com/ipld/go-ipld-prime"
	cidlink "github.com/ipld/go-ipld-prime/linking/cid"

	"verif/harness/internal/cw"
	"verif/harness/internal/drv"
	"verif/harness/internal/rng"
)

func linkOf(c cid.Cid) ipld.Link { return cidlink.Link{Cid: c} }

type opReq struct {
	K    string `json:"k"` // new | cancel | update
	ID   uint64 `json:"id"`
	Tag  uint64 `json:"tag,omitempty"`
	Hr   int    `json:"hr,omitempty"` // request hook: 0 accept 1 reject 2 pause 3 error
	Ext  bool   `json:"ext,omitempty"`
	Len  int    `json:"len,omitempty"`
	Code uint64 `json:"code,omitempty"`
	Ur   int    `json:"ur,omitempty"` // update hook: 0 none 1 unpause 2 error
}

type op struct {
	K    string  `json:"k"` // msg | api | run | step | notify
	P    uint64  `json:"p,omitempty"`
	Reqs []opReq `json:"reqs,omitempty"`
	A    string  `json:"a,omitempty"` // pause | unpause | cancel | update
	ID   uint64  `json:"id,omitempty"`
	Ext  bool    `json:"ext,omitempty"`
	Bh   int     `json:"bh,omitempty"` // block hook: 0 none 1 pause 2 error
	OK   bool    `json:"ok,omitempty"`
	Hold bool    `json:"hold,omitempty"` // step: hold the executor's FinishTask (released by a "finish" op)
}

type rcase struct {
	Ops  []op     `json:"ops"`
	Tags []string `json:"tags,omitempty"`
}

const header = `From Coq Require Import List NArith Bool.
From GS Require Import Base RespMgrMsg.
Import ListNotations.
Open Scope N_scope.
`

// the monitored peer is always peer 1; peers 2 and 3 are the foreign ones
func foreign(o op) bool { return (o.K == "msg" || o.K == "notify") && o.P != 1 }

func runOnce(ops []op) ([]step, error) {
	r := newRig()
	defer r.close()
	st, err := r.runOps(ops)
	r.drainExecutors()
	return st, err
}

func runCase(c rcase) (full, twin []step, err error) {
	for attempt := 0; attempt < 2; attempt++ { // a wait that expires (loaded machine) is retried once
		full, err = runOnce(c.Ops)
		if err == nil {
			break
		}
	}
	if err != nil {
		return
	}
	var red []op
	for _, o := range c.Ops {
		if !foreign(o) {
			red = append(red, o)
		}
	}
	for attempt := 0; attempt < 2; attempt++ {
		twin, err = runOnce(red)
		if err == nil {
			break
		}
	}
	return
}

func stepsTerm(st []step) string {
	xs := make([]string, len(st))
	for i, s := range st {
		xs[i] = fmt.Sprintf("mk_st (%s)\n      (%s)", s.Label, s.Obs)
	}
	return smallNums.ReplaceAllStringFunc(tlist("st_t", xs), func(d string) string {
		if len(d) <= 2 {
			if v, err := strconv.Atoi(d); err == nil && v < 64 {
				return "n" + d
			}
		}
		return d
	})
}

var smallNums = regexp.MustCompile(`\b[0-9]+\b`)

func joinNL(xs []string) string {
	out := ""
	for i, x := range xs {
		if i > 0 {
			out += ";\n     "
		}
		out += x
	}
	return out
}

// ---- generator ----
// lateFinish enables the family "a foreign peer's FinishTask arrives after its entry was retired and
// the id reused" (and corpus/resppeer-pending): on once the witness has been moved into
// corpus/resppeer (i.e. once /repo carries the owner check in startTask / finishTask), or by
// VERIF_C10_LATEFINISH=1.
var lateFinish = os.Getenv("VERIF_C10_LATEFINISH") != ""

func genCase(r *rng.R) rcase {
	var c rcase
	n := r.Range(6, 26)
	tag := uint64(0)
	aIDs := []uint64{}
	newReq := func(id uint64) opReq {
		tag++
		hr := 0
		switch x := r.Intn(100); {
		case x < 60:
		case x < 80:
			hr = 2
		case x < 90:
			hr = 1
		default:
			hr = 3
		}
		return opReq{K: "new", ID: id, Tag: tag, Hr: hr, Ext: r.P(3, 10), Len: r.Range(1, chainN)}
	}
	pickA := func() uint64 {
		if len(aIDs) == 0 || r.P(1, 10) {
			return uint64(r.Range(1, 4))
		}
		return rng.Pick(r, aIDs)
	}
	code := uint64(0)
	otherReq := func(id uint64) opReq {
		switch r.Intn(3) {
		case 0:
			return opReq{K: "cancel", ID: id}
		case 1:
			code++
			ur := 0
			switch x := r.Intn(10); {
			case x < 5:
			case x < 8:
				ur = 1
			default:
				ur = 2
			}
			return opReq{K: "update", ID: id, Code: code, Ur: ur, Ext: r.P(3, 10)}
		default:
			return newReq(id)
		}
	}
	// always begin with a request of the monitored peer; sometimes a foreign peer has used that id
	// before and left an unreported message behind (paused status, or a final status of a refused
	// request whose entry was replaced and cancelled): its report arrives during the monitored life
	first := uint64(r.Range(1, 3))
	var leftovers []op // pops of whatever the foreign peer may have left queued / parked under the id
	x0 := r.Intn(10)
	if lateFinish && r.P(1, 6) {
		// the foreign peer's response runs to its end, its FinishTask is held, the sent reports retire
		// the entry, the monitored peer takes the id, then the FinishTask arrives
		x0 = 99
		fp := uint64(r.Range(2, 3))
		q := newReq(first)
		q.Hr = 0
		c.Ops = append(c.Ops, op{K: "msg", P: fp, Reqs: []opReq{q}}, op{K: "run", P: fp, ID: first})
		for j := 0; j < chainN; j++ {
			c.Ops = append(c.Ops, op{K: "step", P: fp, ID: first, Hold: true, Bh: []int{0, 0, 0, 1, 2}[r.Intn(5)]})
		}
		for j := 0; j <= chainN; j++ {
			c.Ops = append(c.Ops, op{K: "notify", P: fp, ID: first, OK: true})
		}
		leftovers = []op{{K: "finish", P: fp, ID: first}}
	}
	switch x := x0; {
	case x < 2:
		// the foreign peer's request was queued (task pushed), perhaps started, then cancelled
		fp := uint64(r.Range(2, 3))
		q := newReq(first)
		q.Hr = 0
		c.Ops = append(c.Ops, op{K: "msg", P: fp, Reqs: []opReq{q}})
		if r.P(1, 4) {
			c.Ops = append(c.Ops, op{K: "run", P: fp, ID: first})
		}
		c.Ops = append(c.Ops, op{K: "msg", P: fp, Reqs: []opReq{{K: "cancel", ID: first}}})
		leftovers = []op{{K: "run", P: fp, ID: first}, {K: "step", P: fp, ID: first}, {K: "step", P: fp, ID: first}}
	case x < 4:
		fp := uint64(r.Range(2, 3))
		q := newReq(first)
		q.Hr = 2
		c.Ops = append(c.Ops, op{K: "msg", P: fp, Reqs: []opReq{q}}, op{K: "msg", P: fp, Reqs: []opReq{{K: "cancel", ID: first}}})
	case x < 6:
		fp := uint64(r.Range(2, 3))
		q1, q2 := newReq(first), newReq(first)
		q1.Hr, q2.Hr = 1+2*r.Intn(2), 2
		c.Ops = append(c.Ops, op{K: "msg", P: fp, Reqs: []opReq{q1}}, op{K: "msg", P: fp, Reqs: []opReq{q2}},
			op{K: "msg", P: fp, Reqs: []opReq{{K: "cancel", ID: first}}})
	}
	c.Ops = append(c.Ops, op{K: "msg", P: 1, Reqs: []opReq{newReq(first)}})
	aIDs = append(aIDs, first)
	popForeign := func(id uint64) {
		// every task a foreign peer still has queued under the id is popped, every executor it has
		// parked there is released
		for fp := uint64(2); fp <= nPeers; fp++ {
			c.Ops = append(c.Ops, op{K: "run", P: fp, ID: id})
			if r.P(1, 2) {
				c.Ops = append(c.Ops, op{K: "step", P: fp, ID: id, Bh: r.Intn(3)})
			}
		}
	}
	if len(leftovers) > 0 {
		c.Ops = append(c.Ops, leftovers...)
	} else if r.P(1, 3) {
		popForeign(first)
	}
	for i := 0; i < n; i++ {
		switch x := r.Intn(100); {
		case x < 10: // the monitored peer asks for something (fresh id, sometimes one it already uses)
			id := uint64(r.Range(1, 4))
			c.Ops = append(c.Ops, op{K: "msg", P: 1, Reqs: []opReq{newReq(id)}})
			aIDs = append(aIDs, id)
			if r.P(1, 2) {
				popForeign(id)
			}
		case x < 18: // its own cancel / update
			id := pickA()
			q := otherReq(id)
			if q.K == "new" {
				aIDs = append(aIDs, id)
			}
			c.Ops = append(c.Ops, op{K: "msg", P: 1, Reqs: []opReq{q}})
		case x < 42: // a foreign peer, mostly with ids the monitored peer uses
			p := uint64(r.Range(2, 3))
			k := 1
			if r.P(1, 4) {
				k = r.Range(2, 3)
			}
			var reqs []opReq
			for j := 0; j < k; j++ {
				id := pickA()
				if r.P(1, 8) {
					id = uint64(r.Range(4, nIDs))
				}
				reqs = append(reqs, otherReq(id))
			}
			c.Ops = append(c.Ops, op{K: "msg", P: p, Reqs: reqs})
		case x < 54:
			c.Ops = append(c.Ops, op{K: "run", P: 1, ID: pickA()})
		case x < 76:
			bh := 0
			switch y := r.Intn(10); {
			case y < 7:
			case y < 9:
				bh = 1
			default:
				bh = 2
			}
			c.Ops = append(c.Ops, op{K: "step", P: 1, ID: pickA(), Bh: bh, Ext: r.P(2, 10)})
		case x < 84:
			c.Ops = append(c.Ops, op{K: "api", A: rng.Pick(r, []string{"pause", "unpause", "unpause", "cancel", "update"}), ID: pickA(), Ext: r.P(3, 10)})
		case x < 93:
			c.Ops = append(c.Ops, op{K: "notify", P: 1, ID: pickA(), OK: r.P(8, 10)})
		case x < 97:
			c.Ops = append(c.Ops, op{K: "notify", P: uint64(r.Range(2, 3)), ID: pickA(), OK: r.P(7, 10)})
		case x < 98:
			id := pickA()
			if r.P(1, 3) {
				id = uint64(r.Range(1, nIDs))
			}
			c.Ops = append(c.Ops, op{K: "run", P: uint64(r.Range(2, 3)), ID: id})
		case x < 99:
			id := pickA()
			if r.P(1, 3) {
				id = uint64(r.Range(1, nIDs))
			}
			c.Ops = append(c.Ops, op{K: "step", P: uint64(r.Range(2, 3)), ID: id, Bh: r.Intn(3)})
		default:
			popForeign(pickA())
		}
	}
	return c
}

// tags derived from the case input and the run: which kind of foreign request met which state
func classify(c rcase, full []step) (tags []string, nontrivial bool) {
	nf, na := 0, 0
	for _, o := range c.Ops {
		if o.K == "msg" && o.P != 1 {
			nf++
			for _, q := range o.Reqs {
				tags = append(tags, "foreign-"+q.K)
			}
		}
		if o.K == "step" && o.P == 1 {
			na++
		}
	}
	return tags, nf > 0 && na > 0 && len(full) >= 4
}

func run(c *drv.Ctx) error {
	w := cw.New(c.Out, header, "rcase", []cw.Check{
		{Name: "MISMATCH", Fn: "rcase_agrees"},
		{Name: "MON10", Fn: "rcase_mon"},
	})
	w.ShardSize = 30 // a case is two histories of ~20 labels with full table snapshots: ~0.15 s to elaborate
	w.Stats.Rule = "histories of request messages (new/cancel/update, scripted hook results) from a monitored peer and two foreign peers that reuse its request ids, " +
		"API pause/unpause/cancel/update, task starts, block-by-block executor steps (block hook none/pause/error), sent / network-error notifications, against the real " +
		"ResponseManager + QueryExecutor + ResponseAssembler; each history is run twice (with and without the foreign peers' messages); " +
		"non-trivial = a foreign message and an executor step of the monitored peer occur; distinct = distinct (history, observation) terms"
	debug := os.Getenv("RESPPEER_DEBUG") != ""
	add := func(rc rcase, kind string) error {
		full, twin, err := runCase(rc)
		if err != nil {
			idx := w.Add("mk_rcase [] []", rc, false, "kind:"+kind, "hang")
			w.Violation(idx, "executor or manager goroutine did not park: "+err.Error(), "hang")
			return nil
		}
		if debug {
			for _, s := range full {
				fmt.Fprintf(os.Stderr, "FULL %s\n     %s\n", s.Label, s.Obs)
			}
			for _, s := range twin {
				fmt.Fprintf(os.Stderr, "TWIN %s\n     %s\n", s.Label, s.Obs)
			}
		}
		tags, nt := classify(rc, full)
		rc.Tags = tags
		w.Add(fmt.Sprintf("mk_rcase\n    %s\n    %s", stepsTerm(full), stepsTerm(twin)), rc, nt, append([]string{"kind:" + kind}, tags...)...)
		return nil
	}
	if c.Replay != "" {
		var rc rcase
		if err := drv.ReplayCase(c.Replay, &rc); err != nil {
			return err
		}
		if err := add(rc, "replay"); err != nil {
			return err
		}
		return w.Flush()
	}
	corpusFiles := c.CorpusFiles("resppeer")
	for _, f := range corpusFiles {
		if filepath.Base(f) == "w7_late_finish.json" {
			lateFinish = true
		}
	}
	if lateFinish {
		corpusFiles = append(corpusFiles, c.CorpusFiles("resppeer-pending")...)
	}
	for _, f := range corpusFiles {
		var rc rcase
		if err := drv.ReplayCase(f, &rc); err != nil {
			return fmt.Errorf("%s: %w", f, err)
		}
		if err := add(rc, "corpus"); err != nil {
			return err
		}
	}
	n := c.Count(300, 3000)
	t0 := time.Now()
	for i := 0; i < n; i++ {
		if err := add(genCase(c.R.Fork()), "generated"); err != nil {
			return err
		}
	}
	w.Stats.Extra = map[string]any{"drive_seconds": time.Since(t0).Seconds()}
	return w.Flush()
}

func main() { drv.Main("resppeer", run) }
