package main

// Rig for C10: the REAL responsemanager.ResponseManager + queryexecutor.QueryExecutor +
// responseassembler.ResponseAssembler + hooks/listeners packages + ipldutil traverser, with fakes only
// at the edges:
//   - the peer message handler captures every transaction as one message (real messagequeue.Builder);
//     "sent" / "network error" notifications are delivered by the script to the message's real
//     subscribers (responsemanager.subscriber), streams are closed and later messages scrubbed on error
//     exactly as messagequeue.publishError does;
//   - the task queue is one real taskqueue.WorkerTaskQueue per peer (never started: the script pops a
//     task and runs ExecuteTask itself), so that scheduling across peers is chosen by the script;
//   - request / update / block hooks are scripted by the extension carried in the message, the block
//     hook is a gate (the executor parks there until the script releases it with a result).
// No sleeps: every label ends with a synchronous call into the manager's loop (VerifTable) after the
// only running goroutine has parked or finished.

import (
	"context"
	"errors"
	"fmt"
	"sort"
	"sync"
	"time"

	"github.com/ipfs/go-peertaskqueue/peertask"
	"github.com/ipfs/go-peertaskqueue/peertracker"
	"github.com/ipld/go-ipld-prime/node/basicnode"
	"github.com/libp2p/go-libp2p/core/peer"

	"github.com/ipfs/go-graphsync"
	"github.com/ipfs/go-graphsync/ipldutil"
	"github.com/ipfs/go-graphsync/listeners"
	gsmsg "github.com/ipfs/go-graphsync/message"
	"github.com/ipfs/go-graphsync/messagequeue"
	"github.com/ipfs/go-graphsync/notifications"
	"github.com/ipfs/go-graphsync/persistenceoptions"
	"github.com/ipfs/go-graphsync/responsemanager"
	"github.com/ipfs/go-graphsync/responsemanager/hooks"
	"github.com/ipfs/go-graphsync/responsemanager/queryexecutor"
	"github.com/ipfs/go-graphsync/responsemanager/responseassembler"
	"github.com/ipfs/go-graphsync/taskqueue"

	"verif/harness/internal/cw"
	"verif/harness/internal/dag"
	"verif/harness/internal/e2e"
)

const (
	extNew  = graphsync.ExtensionName("verif/new")
	extUpd  = graphsync.ExtensionName("verif/upd")
	extResp = graphsync.ExtensionName("verif/resp")
	nPeers  = 3
	nIDs    = 6
	chainN  = 3
)

func peerOf(n uint64) peer.ID { return peer.ID(fmt.Sprintf("peer-%d", n)) }
func peerNum(p peer.ID) uint64 {
	for n := uint64(1); n <= nPeers; n++ {
		if peerOf(n) == p {
			return n
		}
	}
	return 99
}

func reqID(n uint64) graphsync.RequestID {
	b := make([]byte, 16)
	b[0] = 0xAB
	for i := 0; i < 8; i++ {
		b[15-i] = byte(n >> (8 * i))
	}
	id, err := graphsync.ParseRequestID(b)
	if err != nil {
		panic(err)
	}
	return id
}

type ev struct {
	ID   uint64
	Term string
}

type execKey struct{ Pid, ID, Tag uint64 }

type release struct {
	Bh  int // 0 none, 1 pause, 2 error
	Ext bool
}

type parkMsg struct {
	gate bool // true: parked in the block hook; false: ExecuteTask returned
	key  execKey
}

type capMsg struct {
	p peer.ID
	b *messagequeue.Builder
}

type rig struct {
	ctx    context.Context
	cancel context.CancelFunc
	mu     sync.Mutex
	events []ev

	rm    *responsemanager.ResponseManager
	qe    *queryexecutor.QueryExecutor
	tqs   map[[2]uint64]*taskqueue.WorkerTaskQueue // one real task queue per (peer, request id)
	chain *dag.DAG

	idNum  map[graphsync.RequestID]uint64
	tagNum map[string]uint64

	parkCh  chan parkMsg
	gates   map[execKey]chan release
	parked  []execKey
	msgs    map[[2]uint64][]*capMsg // undelivered messages per (peer, request id), oldest first
	topic   uint64
	hookTag map[[2]uint64]uint64 // (peer, id) -> tag of the request hook call not yet matched by NewStream
	strTag  map[any]uint64       // response stream -> tag of its incarnation (0: not created by newRequest's hook path)
	subInfo map[any][2]uint64    // subscriber -> (peer, tag)
	counts  []int                // inProgressRequestCount values seen by the processing listener (not compared)
	holdArmed [2]uint64               // (peer, id) whose next FinishTask is to be held
	held      map[[2]uint64]heldFinish // FinishTask calls being held
}

func (r *rig) rec(id uint64, format string, a ...any) {
	r.mu.Lock()
	r.events = append(r.events, ev{id, fmt.Sprintf(format, a...)})
	r.mu.Unlock()
}

func (r *rig) drain() []ev {
	r.mu.Lock()
	out := r.events
	r.events = nil
	r.mu.Unlock()
	return out
}

func intExt(name graphsync.ExtensionName, v int64) graphsync.ExtensionData {
	return graphsync.ExtensionData{Name: name, Data: basicnode.NewInt(v)}
}

func extInt(rd graphsync.RequestData, name graphsync.ExtensionName) (int64, bool) {
	n, ok := rd.Extension(name)
	if !ok || n == nil {
		return 0, false
	}
	v, err := n.AsInt()
	return v, err == nil
}

// ---- edge: connection manager ----
type recConn struct{ r *rig }

func (c recConn) Protect(p peer.ID, tag string) {
	c.r.rec(c.r.tagNum[tag], "SProtect %d", peerNum(p))
}
func (c recConn) Unprotect(p peer.ID, tag string) bool {
	c.r.rec(c.r.tagNum[tag], "SUnprotect %d", peerNum(p))
	return false
}

// ---- edge: task queue (one real WorkerTaskQueue per (peer, request id), no workers: which task is
// popped next is the script's choice, not the queue's cross-request order) ----
type multiTQ struct{ r *rig }

func (m multiTQ) q(p peer.ID, t peertask.Topic) *taskqueue.WorkerTaskQueue {
	k := [2]uint64{peerNum(p), m.r.idNum[t.(graphsync.RequestID)]}
	m.r.mu.Lock()
	defer m.r.mu.Unlock()
	q, ok := m.r.tqs[k]
	if !ok {
		q = taskqueue.NewTaskQueue(m.r.ctx)
		q.VerifSetTickerChan(make(chan time.Time)) // no workers are started; stop the 100ms thaw ticker
		m.r.tqs[k] = q
	}
	return q
}
func (m multiTQ) PushTask(p peer.ID, task peertask.Task) {
	m.r.rec(m.r.idNum[task.Topic.(graphsync.RequestID)], "SPush %d", peerNum(p))
	m.q(p, task.Topic).PushTask(p, task)
}
func (m multiTQ) TaskDone(p peer.ID, task *peertask.Task) {
	m.r.rec(m.r.idNum[task.Topic.(graphsync.RequestID)], "SDone %d", peerNum(p))
	m.q(p, task.Topic).TaskDone(p, task)
}
func (m multiTQ) Remove(t peertask.Topic, p peer.ID) {
	m.r.rec(m.r.idNum[t.(graphsync.RequestID)], "SRemove %d", peerNum(p))
	m.q(p, t).Remove(t, p)
}
func (m multiTQ) Stats() graphsync.RequestStats { return graphsync.RequestStats{} }
func (m multiTQ) WithPeerTopics(p peer.ID, f func(*peertracker.PeerTrackerTopics)) {
	all := &peertracker.PeerTrackerTopics{}
	for id := uint64(1); id <= nIDs; id++ {
		m.r.mu.Lock()
		q := m.r.tqs[[2]uint64{peerNum(p), id}]
		m.r.mu.Unlock()
		if q == nil {
			continue
		}
		if pt := q.PeerTaskQueue.PeerTopics(p); pt != nil {
			all.Pending = append(all.Pending, pt.Pending...)
			all.Active = append(all.Active, pt.Active...)
		}
	}
	f(all)
}

// ---- edge: peer message handler capturing transactions ----
type capHandler struct{ r *rig }

func (h capHandler) AllocateAndBuildMessage(p peer.ID, size uint64, fn func(*messagequeue.Builder)) {
	r := h.r
	r.mu.Lock()
	r.topic++
	t := r.topic
	r.mu.Unlock()
	b := messagequeue.NewBuilder(r.ctx, messagequeue.Topic(t))
	fn(b)
	msg, _ := b.Build()
	for id := range b.ResponseStreams() { // exactly one: the stream that ran the transaction
		next, nl, st := 0, 0, uint64(0)
		for _, resp := range msg.Responses() {
			if resp.RequestID() == id {
				next = len(resp.ExtensionNames())
				nl = int(resp.Metadata().Length())
				st = uint64(resp.Status())
			}
		}
		r.rec(r.idNum[id], "SMsg %d %d %d %d", peerNum(p), next, nl, st)
	}
	if !b.Empty() {
		for id := range b.ResponseStreams() {
			k := [2]uint64{peerNum(p), r.idNum[id]}
			r.mu.Lock()
			r.msgs[k] = append(r.msgs[k], &capMsg{p, b})
			r.mu.Unlock()
		}
	}
}

// ---- response assembler wrapper: learns which incarnation a stream / subscriber belongs to ----
type recRA struct {
	r  *rig
	ra *responseassembler.ResponseAssembler
}

func (a recRA) NewStream(ctx context.Context, p peer.ID, id graphsync.RequestID, sub notifications.Subscriber) responseassembler.ResponseStream {
	s := a.ra.NewStream(ctx, p, id, sub)
	k := [2]uint64{peerNum(p), a.r.idNum[id]}
	a.r.mu.Lock()
	tag := a.r.hookTag[k]
	delete(a.r.hookTag, k)
	a.r.strTag[s] = tag
	if sub != nil {
		a.r.subInfo[sub] = [2]uint64{peerNum(p), tag}
	}
	a.r.mu.Unlock()
	return s
}

// ---- manager wrapper handed to the executor (only to learn nothing: plain delegation) ----

// gateMgr is the manager the executor talks to: plain delegation, except that FinishTask can be held
// between the executor's return and the manager's loop (the worker goroutine is simply slow there),
// so that a "sent" report retires the entry first and the id is reused before finishTask runs
type gateMgr struct{ r *rig }

func (g gateMgr) StartTask(task *peertask.Task, p peer.ID, c chan<- queryexecutor.ResponseTask) {
	g.r.rm.StartTask(task, p, c)
}
func (g gateMgr) GetUpdates(id graphsync.RequestID, c chan<- []gsmsg.GraphSyncRequest) {
	g.r.rm.GetUpdates(id, c)
}
func (g gateMgr) FinishTask(task *peertask.Task, p peer.ID, err error) {
	r := g.r
	k := [2]uint64{peerNum(p), r.idNum[task.Topic.(graphsync.RequestID)]}
	r.mu.Lock()
	armed := r.holdArmed == k
	var rel chan struct{}
	if armed {
		r.holdArmed = [2]uint64{}
		rel = make(chan struct{})
		r.held[k] = heldFinish{rel, errCode(err)}
	}
	r.mu.Unlock()
	if armed {
		r.parkCh <- parkMsg{true, execKey{}}
		<-rel
	}
	r.rm.FinishTask(task, p, err)
}

type heldFinish struct {
	rel  chan struct{}
	code int
}

// errCode classifies the error an executor hands to FinishTask: 0 nil, 1 paused, 2 requestor cancel,
// 3 network error, 4 cancelled by command, 5 anything else (hook error)
func errCode(err error) int {
	switch {
	case err == nil:
		return 0
	case errors.As(err, &hooks.ErrPaused{}):
		return 1
	case ipldutil.IsContextCancelErr(err):
		return 2
	case err == queryexecutor.ErrNetworkError:
		return 3
	case err == queryexecutor.ErrCancelledByCommand:
		return 4
	}
	return 5
}

func newRig() *rig {
	ctx, cancel := context.WithCancel(context.Background())
	r := &rig{ctx: ctx, cancel: cancel,
		tqs: map[[2]uint64]*taskqueue.WorkerTaskQueue{}, chain: dag.Chain(chainN),
		idNum: map[graphsync.RequestID]uint64{}, tagNum: map[string]uint64{},
		parkCh: make(chan parkMsg, 4), gates: map[execKey]chan release{},
		msgs: map[[2]uint64][]*capMsg{}, held: map[[2]uint64]heldFinish{}, hookTag: map[[2]uint64]uint64{},
		strTag: map[any]uint64{}, subInfo: map[any][2]uint64{}}
	for n := uint64(1); n <= nIDs; n++ {
		r.idNum[reqID(n)] = n
		r.tagNum[reqID(n).Tag()] = n
	}
	store := e2e.NewStore()
	for _, b := range r.chain.Blocks {
		store.Put(linkOf(b.Cid), b.Data)
	}
	respExt := intExt(extResp, 7)

	reqHooks := hooks.NewRequestHooks(persistenceoptions.New())
	reqHooks.Register(func(p peer.ID, rd graphsync.RequestData, ha graphsync.IncomingRequestHookActions) {
		v, _ := extInt(rd, extNew)
		tag, hr, ext := uint64(v/1000), (v/100)%10, (v/10)%10
		id := r.idNum[rd.ID()]
		r.mu.Lock()
		r.hookTag[[2]uint64{peerNum(p), id}] = tag
		r.mu.Unlock()
		r.rec(id, "SReqHook %d %d", peerNum(p), tag)
		if ext == 1 {
			ha.SendExtensionData(respExt)
		}
		switch hr {
		case 0:
			ha.ValidateRequest()
		case 1: // not validated
		case 2:
			ha.ValidateRequest()
			ha.PauseResponse()
		case 3:
			ha.TerminateWithError(errors.New("request hook error"))
		}
	})
	updHooks := hooks.NewUpdateHooks()
	updHooks.Register(func(p peer.ID, rd graphsync.RequestData, upd graphsync.RequestData, ha graphsync.RequestUpdatedHookActions) {
		v, _ := extInt(rd, extNew)
		u, _ := extInt(upd, extUpd)
		code, ur, ext := uint64(u/100), (u/10)%10, u%10
		r.rec(r.idNum[rd.ID()], "SUpdHook %d %d %d", peerNum(p), uint64(v/1000), code)
		if ext == 1 {
			// a response keeps one extension per name: name it after the update so that counts add up
			ha.SendExtensionData(intExt(graphsync.ExtensionName(fmt.Sprintf("verif/resp-upd-%d", code)), 7))
		}
		switch ur {
		case 1:
			ha.UnpauseResponse()
		case 2:
			ha.TerminateWithError(errors.New("update hook error"))
		}
	})
	blkHooks := hooks.NewBlockHooks()
	blkHooks.Register(func(p peer.ID, rd graphsync.RequestData, bd graphsync.BlockData, ha graphsync.OutgoingBlockHookActions) {
		v, _ := extInt(rd, extNew)
		k := execKey{peerNum(p), r.idNum[rd.ID()], uint64(v / 1000)}
		r.rec(k.ID, "SBlkHook %d %d", k.Pid, k.Tag)
		g := make(chan release, 1)
		r.mu.Lock()
		r.gates[k] = g
		r.parked = append(r.parked, k)
		r.mu.Unlock()
		r.parkCh <- parkMsg{true, k}
		rel := <-g
		if rel.Ext {
			ha.SendExtensionData(intExt("verif/resp-blk", 7))
		}
		switch rel.Bh {
		case 1:
			ha.PauseResponse()
		case 2:
			ha.TerminateWithError(errors.New("block hook error"))
		}
	})
	tagOf := func(rd graphsync.RequestData) uint64 { v, _ := extInt(rd, extNew); return uint64(v / 1000) }
	procL := listeners.NewRequestProcessingListeners()
	procL.Register(func(p peer.ID, rd graphsync.RequestData, n int) {
		r.mu.Lock()
		r.counts = append(r.counts, n)
		r.mu.Unlock()
		r.rec(r.idNum[rd.ID()], "SProcessing %d %d", peerNum(p), tagOf(rd))
	})
	complL := listeners.NewCompletedResponseListeners()
	complL.Register(func(p peer.ID, rd graphsync.RequestData, st graphsync.ResponseStatusCode) {
		r.rec(r.idNum[rd.ID()], "SCompleted %d %d %d", peerNum(p), tagOf(rd), uint64(st))
	})
	cancL := listeners.NewRequestorCancelledListeners()
	cancL.Register(func(p peer.ID, rd graphsync.RequestData) {
		r.rec(r.idNum[rd.ID()], "SCancelled %d %d", peerNum(p), tagOf(rd))
	})
	sentL := listeners.NewBlockSentListeners()
	sentL.Register(func(p peer.ID, rd graphsync.RequestData, bd graphsync.BlockData) {
		r.rec(r.idNum[rd.ID()], "SBlockSent %d %d", peerNum(p), tagOf(rd))
	})
	netL := listeners.NewNetworkErrorListeners()
	netL.Register(func(p peer.ID, rd graphsync.RequestData, err error) {
		r.rec(r.idNum[rd.ID()], "SNetErr %d %d", peerNum(p), tagOf(rd))
	})

	ra := responseassembler.New(ctx, capHandler{r})
	r.rm = responsemanager.New(ctx, store.LinkSystem(), recRA{r, ra}, procL, reqHooks, updHooks, complL, cancL, sentL, netL,
		recConn{r}, 0, nil, multiTQ{r})
	r.qe = queryexecutor.New(ctx, gateMgr{r}, blkHooks, updHooks)
	r.rm.Startup()
	return r
}

func (r *rig) close() { r.cancel() }

// ---- building protocol messages ----
func (r *rig) mkReq(q opReq) gsmsg.GraphSyncRequest {
	switch q.K {
	case "new":
		ln := q.Len
		if ln < 1 || ln > chainN {
			ln = chainN
		}
		v := int64(q.Tag)*1000 + int64(q.Hr)*100 + int64(b2i(q.Ext))*10 + int64(ln)
		return gsmsg.NewRequest(reqID(q.ID), r.chain.Blocks[chainN-ln].Cid, dag.AllSelector(), graphsync.Priority(0), intExt(extNew, v))
	case "cancel":
		return gsmsg.NewCancelRequest(reqID(q.ID))
	default:
		v := int64(q.Code)*100 + int64(q.Ur)*10 + int64(b2i(q.Ext))
		return gsmsg.NewUpdateRequest(reqID(q.ID), intExt(extUpd, v))
	}
}

func b2i(b bool) int {
	if b {
		return 1
	}
	return 0
}

// ---- observation after a label ----
func stateNum(s graphsync.RequestState) int {
	switch s {
	case graphsync.Queued:
		return 0
	case graphsync.Running:
		return 1
	case graphsync.Paused:
		return 2
	default:
		return 3
	}
}

func (r *rig) observe() string {
	tab := responsemanager.VerifTable(r.rm) // also the barrier: runs inside the loop
	evs := r.drain()
	es := make([]string, len(evs))
	for i, e := range evs {
		es[i] = fmt.Sprintf("mk_out %d (%s)", e.ID, e.Term)
	}
	sort.Slice(tab, func(i, j int) bool { return r.idNum[tab[i].ID] < r.idNum[tab[j].ID] })
	rows := make([]string, len(tab))
	for i, t := range tab {
		v, _ := extInt(t.Request, extNew)
		rows[i] = fmt.Sprintf("mk_row %d %d %d %d %d %s %s %s", r.idNum[t.ID], peerNum(t.Peer), uint64(v/1000), stateNum(t.State), t.Updates,
			cw.Bool(t.PauseSignal > 0), cw.Bool(t.UpdateSignal > 0), cw.Bool(t.ErrSignal > 0))
	}
	type tqr struct{ id, p, st uint64 }
	var tq []tqr
	for n := uint64(1); n <= nPeers; n++ {
		for id := uint64(1); id <= nIDs; id++ {
			r.mu.Lock()
			q := r.tqs[[2]uint64{n, id}]
			r.mu.Unlock()
			if q == nil {
				continue
			}
			pt := q.PeerTaskQueue.PeerTopics(peerOf(n))
			if pt == nil {
				continue
			}
			for _, t := range pt.Pending {
				tq = append(tq, tqr{r.idNum[t.(graphsync.RequestID)], n, 0})
			}
			for _, t := range pt.Active {
				tq = append(tq, tqr{r.idNum[t.(graphsync.RequestID)], n, 1})
			}
		}
	}
	sort.Slice(tq, func(i, j int) bool {
		if tq[i].id != tq[j].id {
			return tq[i].id < tq[j].id
		}
		if tq[i].p != tq[j].p {
			return tq[i].p < tq[j].p
		}
		return tq[i].st < tq[j].st
	})
	tqs := make([]string, len(tq))
	for i, t := range tq {
		tqs[i] = fmt.Sprintf("mk_tqr %d %d %s", t.id, t.p, []string{"TPending", "TActive"}[t.st])
	}
	r.mu.Lock()
	pk := append([]execKey(nil), r.parked...)
	r.mu.Unlock()
	sort.Slice(pk, func(i, j int) bool {
		a, b := pk[i], pk[j]
		if a.ID != b.ID {
			return a.ID < b.ID
		}
		if a.Pid != b.Pid {
			return a.Pid < b.Pid
		}
		return a.Tag < b.Tag
	})
	xs := make([]string, len(pk))
	for i, k := range pk {
		xs[i] = fmt.Sprintf("mk_xr %d %d %d", k.ID, k.Pid, k.Tag)
	}
	return fmt.Sprintf("mk_obs %s %s %s %s", tlist("out_t", es), tlist("row", rows), tlist("tqr_t", tqs), tlist("xr_t", xs))
}

type step struct{ Label, Obs string }

var errHang = errors.New("executor goroutine neither parked nor finished within 60s")

func (r *rig) waitPark() error {
	select {
	case <-r.parkCh:
		return nil
	case <-time.After(60 * time.Second):
		return errHang
	}
}

func (r *rig) unpark(k execKey) {
	r.mu.Lock()
	defer r.mu.Unlock()
	delete(r.gates, k)
	for i, x := range r.parked {
		if x == k {
			r.parked = append(r.parked[:i:i], r.parked[i+1:]...)
			break
		}
	}
}

var bresName = []string{"BNone", "BPause", "BError"}
var hresName = []string{"HAccept", "HReject", "HPause", "HError"}
var uresName = []string{"UNone", "UUnpause", "UError"}

func reqTerm(q opReq) string {
	switch q.K {
	case "new":
		ln := q.Len
		if ln < 1 || ln > chainN {
			ln = chainN
		}
		return fmt.Sprintf("RNew %d %d %s %s %d", q.ID, q.Tag, hresName[q.Hr%4], cw.Bool(q.Ext), ln)
	case "cancel":
		return fmt.Sprintf("RCancel %d", q.ID)
	default:
		return fmt.Sprintf("RUpdate %d %d %s %s", q.ID, q.Code, uresName[q.Ur%3], cw.Bool(q.Ext))
	}
}

// runOps executes a script; returns one (label, observation) per model label
func (r *rig) runOps(ops []op) ([]step, error) {
	var out []step
	emit := func(label string) { out = append(out, step{label, r.observe()}) }
	for _, o := range ops {
		switch o.K {
		case "msg":
			reqs := make([]gsmsg.GraphSyncRequest, len(o.Reqs))
			ts := make([]string, len(o.Reqs))
			for i, q := range o.Reqs {
				reqs[i] = r.mkReq(q)
				ts[i] = reqTerm(q)
			}
			r.rm.ProcessRequests(r.ctx, peerOf(o.P), reqs)
			emit(fmt.Sprintf("LMsg %d %s", o.P, tlist("req", ts)))
		case "api":
			var err error
			var a string
			switch o.A {
			case "pause":
				a = "APause"
				err = r.rm.PauseResponse(r.ctx, reqID(o.ID))
			case "unpause":
				a = "AUnpause " + cw.Bool(o.Ext)
				if o.Ext {
					err = r.rm.UnpauseResponse(r.ctx, reqID(o.ID), intExt(extResp, 7))
				} else {
					err = r.rm.UnpauseResponse(r.ctx, reqID(o.ID))
				}
			case "cancel":
				a = "ACancel"
				err = r.rm.CancelResponse(r.ctx, reqID(o.ID))
			default:
				a = "AUpdate"
				err = r.rm.UpdateResponse(r.ctx, reqID(o.ID), intExt(extResp, 7))
			}
			r.rec(o.ID, "SRet %s", cw.Bool(err == nil))
			emit(fmt.Sprintf("LApi %d (%s)", o.ID, a))
		case "run":
			// pop the task of (peer, request id) from its own real queue
			r.mu.Lock()
			q := r.tqs[[2]uint64{o.P, o.ID}]
			r.mu.Unlock()
			if q == nil {
				continue
			}
			pt := q.PeerTaskQueue.PeerTopics(peerOf(o.P))
			found := false
			if pt != nil {
				for _, t := range pt.Pending {
					if t.(graphsync.RequestID) == reqID(o.ID) {
						found = true
					}
				}
			}
			for found {
				q.PeerTaskQueue.FullThaw()
				pid, tasks, _ := q.PeerTaskQueue.PopTasks(1)
				if len(tasks) == 0 {
					break
				}
				task := tasks[0]
				tid := r.idNum[task.Topic.(graphsync.RequestID)]
				go func() {
					r.qe.ExecuteTask(r.ctx, pid, task)
					r.parkCh <- parkMsg{false, execKey{}}
				}()
				if err := r.waitParkOrDone(); err != nil {
					return out, err
				}
				emit(fmt.Sprintf("LStart %d %d", peerNum(pid), tid))
				if tid == o.ID {
					break
				}
			}
		case "step":
			r.mu.Lock()
			var k execKey
			ok := false
			for _, x := range r.parked {
				if x.Pid == o.P && x.ID == o.ID {
					k, ok = x, true
					break
				}
			}
			var g chan release
			if ok {
				g = r.gates[k]
			}
			r.mu.Unlock()
			if !ok {
				continue
			}
			r.unpark(k)
			if o.Hold {
				r.mu.Lock()
				r.holdArmed = [2]uint64{k.Pid, k.ID}
				r.mu.Unlock()
			}
			g <- release{o.Bh, o.Ext}
			if err := r.waitParkOrDone(); err != nil {
				return out, err
			}
			r.mu.Lock()
			r.holdArmed = [2]uint64{}
			_, isHeld := r.held[[2]uint64{k.Pid, k.ID}]
			r.mu.Unlock()
			name := "LStep"
			if isHeld {
				name = "LStepH" // the executor returned, its FinishTask has not reached the manager yet
			}
			emit(fmt.Sprintf("%s %d %d %d %s %s", name, k.Pid, k.ID, k.Tag, bresName[o.Bh%3], cw.Bool(o.Ext)))
		case "finish":
			hk := [2]uint64{o.P, o.ID}
			r.mu.Lock()
			h, ok := r.held[hk]
			delete(r.held, hk)
			r.mu.Unlock()
			if !ok {
				continue
			}
			close(h.rel)
			if err := r.waitParkOrDone(); err != nil {
				return out, err
			}
			emit(fmt.Sprintf("LFinish %d %d %d", o.P, o.ID, h.code))
		case "notify":
			// the oldest message built for (peer, request id) that has not been reported yet
			mk := [2]uint64{o.P, o.ID}
			r.mu.Lock()
			ms := r.msgs[mk]
			if len(ms) == 0 {
				r.mu.Unlock()
				continue
			}
			m := ms[0]
			r.msgs[mk] = ms[1:]
			r.mu.Unlock()
			msg, _ := m.b.Build()
			codes := msg.ResponseCodes()
			md := messagequeue.Metadata{BlockData: m.b.BlockData(), ResponseCodes: codes}
			ids := func(n int, has func(graphsync.RequestID) bool) []graphsync.RequestID {
				var l []graphsync.RequestID
				for k := uint64(1); k <= nIDs; k++ {
					if has(reqID(k)) {
						l = append(l, reqID(k))
					}
				}
				return l
			}
			if !o.OK {
				// messagequeue.publishError: close the message's response streams and scrub those
				// requests from everything still queued for the peer, then publish the event
				streams := m.b.ResponseStreams()
				sids := ids(0, func(id graphsync.RequestID) bool { _, ok := streams[id]; return ok })
				for _, id := range sids {
					_ = streams[id].Close()
					r.mu.Lock()
					tag := r.strTag[streams[id]]
					r.mu.Unlock()
					emit(fmt.Sprintf("LClose %d %d %d", o.P, r.idNum[id], tag))
				}
				r.mu.Lock()
				var keep []*capMsg
				for _, m2 := range r.msgs[mk] {
					m2.b.ScrubResponses(sids)
					if !m2.b.Empty() {
						keep = append(keep, m2)
					}
				}
				r.msgs[mk] = keep
				r.mu.Unlock()
			}
			subs := m.b.Subscribers()
			for _, id := range ids(0, func(id graphsync.RequestID) bool { s, ok := subs[id]; return ok && s != nil }) {
				r.mu.Lock()
				info := r.subInfo[subs[id]]
				r.mu.Unlock()
				e := messagequeue.Event{Name: messagequeue.Sent, Metadata: md}
				if !o.OK {
					e = messagequeue.Event{Name: messagequeue.Error, Err: errors.New("send failed"), Metadata: md}
				}
				subs[id].OnNext(messagequeue.Topic(0), e)
				// the subscriber's peer is the peer the message was built for (the refusal subscriber is one
			// shared value, so only its tag 0 is taken from the table)
			emit(fmt.Sprintf("LSub %s %d %d %d %d %d", cw.Bool(o.OK), o.P, r.idNum[id], info[1], uint64(codes[id]), len(md.BlockData[id])))
			}
		}
	}
	return out, nil
}

func (r *rig) waitParkOrDone() error { return r.waitPark() }

// drainExecutors releases every parked executor with an error result so that no goroutine is left
// blocked when the case ends (not part of the recorded history)
func (r *rig) drainExecutors() {
	r.mu.Lock()
	hs := r.held
	r.held = map[[2]uint64]heldFinish{}
	r.mu.Unlock()
	for _, h := range hs {
		close(h.rel)
		if r.waitPark() != nil {
			return
		}
	}
	for i := 0; i < 64; i++ {
		r.mu.Lock()
		if len(r.parked) == 0 {
			r.mu.Unlock()
			return
		}
		k := r.parked[0]
		g := r.gates[k]
		r.mu.Unlock()
		r.unpark(k)
		g <- release{2, false}
		if r.waitPark() != nil {
			return
		}
	}
}

// tlist writes a list with every type argument explicit: Coq elaborates big literal lists with
// implicit arguments in time quadratic in their size
func tlist(ty string, xs []string) string {
	if len(xs) == 0 {
		return "(@nil " + ty + ")"
	}
	var b []byte
	for _, x := range xs {
		b = append(b, "(@cons "+ty+" ("+x+") "...)
	}
	b = append(b, "(@nil "+ty+")"...)
	for range xs {
		b = append(b, ')')
	}
	return string(b)
}
