(* PauseExec.v — C06, requestor side: pausing a request from its block hook and resuming it, over the
   requestor model of ReqExec.v.  executor.processResult turns a pause into ErrPaused after the block;
   ExecuteTask then sends a cancel, sets the loader offline and the request is parked; Unpause queues a
   new task whose traverse() starts with requestSent = false on the SAME traverser and loader (stale queue
   items, record, lastConsumed and path tracker survive).  No proofs here. *)
From Coq Require Import List NArith Bool.
From GS Require Export Base Ltree RecLoader ReqExec.
Import ListNotations.
Open Scope N_scope.

(* a pause after the k-th successfully loaded block; of the messages of the cancelled response that the
   requestor has not processed yet, the first [inflight] still arrive (the responder stops at the cancel) *)
Record pause := { pa_block : N; pa_inflight : nat }.

Record pstate := { p_x : xstate; p_pauses : list pause }.

Definition pause_resume (inflight : nat) (x : xstate) : xstate :=
  {| x_rl := set_online false (x_rl x); x_store := x_store x;
     x_sent := false;                                   (* the resumed traverse() has sent nothing yet *)
     x_nblocks := x_nblocks x; x_cancelled := x_cancelled x; x_errs := x_errs x;
     x_feed := firstn inflight (x_feed x); x_sched := x_sched x; x_log := x_log x |}.

Section PExec.
  Variable below : path -> path -> bool.
  Variable responder : N -> list msg.
  Variable dnsfb : N.

  Definition pexec_ask (ps : pstate) (p : path) (c : cid) : pstate * ans :=
    let '(x', a) := exec_ask below responder dnsfb (p_x ps) p c in
    match a with
    | AOk =>
        match find (fun pa => N.eqb (pa_block pa) (x_nblocks x')) (p_pauses ps) with
        | Some pa => ({| p_x := pause_resume (pa_inflight pa) x'; p_pauses := p_pauses ps |}, a)
        | None => ({| p_x := x'; p_pauses := p_pauses ps |}, a)
        end
    | _ => ({| p_x := x'; p_pauses := p_pauses ps |}, a)
    end.

  Definition run_paused (t : ltree) (L : store) (sched : list nat) (pauses : list pause) : pstate * list ev * bool :=
    run_tree pexec_ask t {| p_x := x_init L [] sched; p_pauses := pauses |}.
End PExec.

Definition paused_outcome (t : ltree) (L R : store) (sizes sched : list nat) (pauses : list pause) : outcome :=
  let r := run_paused proper_prefix (honest t R sizes) 0 t L sched pauses in
  let x := p_x (fst (fst r)) in
  let o := outcome_of (x, snd (fst r), snd r) in
  {| o_visits := o_visits o; o_missing := o_missing o; o_other_errs := o_other_errs o + final_errs x (snd r);
     o_store := o_store o; o_complete := true |}.

(* correspondence case: the real pair, pause from the requestor's block hook at block k, resume after the
   in-flight messages of the cancelled response were drained (safe) or at once *)
Record pcase := {
  pc_plan : ltree; pc_L : list cid; pc_R : list cid;
  pc_block : N;            (* 0 = no pause *)
  pc_safe : bool;
  pc_obs : outcome
}.
Definition pc_pauses (c : pcase) : list pause :=
  if N.eqb (pc_block c) 0 then [] else [{| pa_block := pc_block c; pa_inflight := 0 |}].
(* the property: the paused and resumed request ends as the reference says (= as the unpaused one does) *)
Definition pcase_mon (c : pcase) : bool :=
  outcome_eqb (pc_obs c) (ref_outcome (pc_plan c) (store_of (pc_L c)) (store_of (pc_R c))).
(* model against implementation; how much of the response had reached the loader's queue when the pause
   took effect is not observable: both extremes are evaluated (everything delivered at once / on demand) *)
Definition pcase_ok (c : pcase) : bool :=
  let L := store_of (pc_L c) in let R := store_of (pc_R c) in
  wf_plan (pc_plan c) &&
  (negb (pc_safe c) ||
   outcome_eqb (pc_obs c) (paused_outcome (pc_plan c) L R [] [] (pc_pauses c)) ||
   outcome_eqb (pc_obs c) (paused_outcome (pc_plan c) L R [] (repeat 1000%nat 64) (pc_pauses c)) ||
   outcome_eqb (pc_obs c) (paused_outcome (pc_plan c) L R [1; 1; 1; 1; 1; 1; 1; 1]%nat [] (pc_pauses c))).
