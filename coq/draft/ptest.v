From Coq Require Import List NArith Bool.
From GS Require Import Base Ltree RecLoader ReqExec PauseExec.
Import ListNotations. Open Scope N_scope.
Definition t := LNode [] 0 (IVisit 0 (IChild (LNode [0] 1 (IVisit 1 INil)) (IChild (LNode [1] 2 (IVisit 2 INil)) INil))).
Definition L : store := []. Definition R := store_of [0;2].
Eval vm_compute in (ref_outcome t L R).
Eval vm_compute in (paused_outcome t L R [] [] [Build_pause 1 0]).
Eval vm_compute in (paused_outcome t L R [] [] []).
Eval vm_compute in (paused_outcome t L R [1]%nat [] [Build_pause 1 5]).
