From Coq Require Import List NArith Bool Arith.
From GS Require Import Base ReqMgr.
Import ListNotations.

Definition envs : list label :=
  [LEnvCtxCancel; LEnvPause; LEnvApiCancel;
   LEnvResp (Build_resp SPartial 1 false); LEnvResp (Build_resp SSucc 0 false); LEnvResp (Build_resp (SFail 34%N) 0 false);
   LEnvResp (Build_resp SPartial 0 true)].
Definition all_int := internal_labels ++ caller_labels.
(* search node: env budget * state *)
Definition node := (nat * st)%type.
Definition nkey (n : node) : list N := N.of_nat (fst n) :: enc (snd n).
Definition nsuccs (n : node) : list node :=
  let (b, s) := n in
  flat_map (fun l => match step s l with Some (s1, _) => [(b, s1)] | None => [] end) all_int ++
  match b with
  | O => []
  | S b' => flat_map (fun l => match step s l with Some (s1, _) => [(b', s1)] | None => [] end) envs
  end.
Fixpoint addn (seen : list (list N)) (new : list node) : list (list N) * list node :=
  match new with
  | [] => (seen, [])
  | x :: r => let k := nkey x in
              if existsb (list_eqb N.eqb k) seen then addn seen r
              else let (sn, nw) := addn (k :: seen) r in (sn, x :: nw)
  end.
Definition waiting (s : st) : bool :=
  negb (cctx s) && negb (rctx s) &&
  match ent s with
  | Some en => match e_state en with
               | Paused => true
               | Running => ropen s && Nat.eqb (rq s) 0 && match xpc s with XLoad _ => true | _ => false end
               | Queued => false end
  | None => false end.
Definition stuck (s : st) : bool :=
  negb (both_closed s) && negb (waiting s) && forallb (fun l => negb (enabled s l)) all_int.
Fixpoint bfs (fuel : nat) (seen : list (list N)) (frontier : list node) (found : list st) (cnt : nat) : list st * nat :=
  match fuel with
  | O => (found, cnt)
  | S f => match frontier with
           | [] => (found, cnt)
           | _ => let (seen', nw) := addn seen (flat_map nsuccs frontier) in
                  bfs f seen' nw (filter stuck (map snd nw) ++ found) (cnt + length nw)
           end
  end.
Definition res := Eval vm_compute in
  let (f, c) := bfs 200 [] [(1%nat, init [Build_pentry 1 0 0 true])] [] 0 in
  (c, map enc f, length f).
Print res.
