(* C20 — Concurrent requests between two peers each retrieve completely.
   Only statements; proofs are in GS.ConcurrentProofs.

   Full statement (NOT true of the code; finding C20-F1): for every pair of plans, stores, interleaving of the
   two responder traversals and order of the two requestor traversals, each request's outcome in [run_two]
   equals its outcome alone ([solo] = C02's reference).  The responder suppresses a block for request 2 because
   request 1 (in progress) traversed it; the requestor stores a block only when the request it was sent to
   loads it; if request 2's traversal reaches the link first it finds the block neither in its response nor in
   the store. *)
From Coq Require Import List NArith Bool.
From GS Require Import Base Ltree RecLoader ReqExec.
From GS Require Import LinkTracker Concurrent ConcurrentProofs.
Import ListNotations.
Open Scope N_scope.

(* The witness (replayed on the real pair with a responder store gate and a requestor commit gate): blocks
   0 = root1 -> {X = 2, Z = 3}, 1 = root2 -> {X}; empty requestor; the responder serves request 1 up to X, then all
   of request 2, then the rest of request 1; the requestor runs request 2's traversal first: X is reported
   missing by request 2.  With the requestor order reversed, or with request 2 in its own deduplication scope,
   both requests end as they would alone. *)
Definition c20_t1 : ltree :=
  LNode [] 0 (IVisit 0 (IChild (LNode [0] 2 (IVisit 1 INil)) (IChild (LNode [1] 3 (IVisit 2 INil)) INil))).
Definition c20_t2 : ltree := LNode [] 1 (IVisit 3 (IChild (LNode [0] 2 (IVisit 4 INil)) INil)).
Theorem C20_refuted :
  let R := store_of [0; 1; 2; 3] in
  let q1 := {| cq_plan := c20_t1; cq_dedup := None |} in let q2 := {| cq_plan := c20_t2; cq_dedup := None |} in
  let order := [true; true; false; false; false; false] in
  o_missing (snd (run_two [] R q1 q2 order true)) = [([0], 2)] /\ o_missing (solo [] R q2) = [] /\
  same_result (snd (run_two [] R q1 q2 order true)) (solo [] R q2) = false /\
  same_result (fst (run_two [] R q1 q2 order true)) (solo [] R q1) = true /\
  (* the other requestor order, and a separate deduplication scope *)
  same_result (snd (run_two [] R q1 q2 order false)) (solo [] R q2) = true /\
  same_result (snd (run_two [] R q1 {| cq_plan := c20_t2; cq_dedup := Some 7 |} (false :: order) true)) (solo [] R q2) = true.
Proof. vm_compute. repeat split. Qed.
Print Assumptions C20_refuted.

(* Proved for every pair of plans and every responder store: when the responder serves the two requests one
   after the other (the first response's link tracking is finished before the second begins — no overlap in
   time), each request receives exactly the stream it would receive alone: the link tracker keeps no state
   between requests (C19_idle_no_state).  [streams]: composition of the C19 link-tracker model with the
   responder's metadata for each plan. *)
Theorem C20_sequential_partial :
  forall (R : store) (t1 t2 : ltree),
    streams R {| cq_plan := t1; cq_dedup := None |} {| cq_plan := t2; cq_dedup := None |} 0 0 [] =
    (solo_stream R 1 t1, solo_stream R 2 t2).
Proof. exact c20_sequential. Qed.
Print Assumptions C20_sequential_partial.

(* Non-vacuity: disjoint plans under the losing order: both as alone. *)
Example C20_disjoint_example :
  let R := store_of [0; 1; 2; 3; 4] in
  let q1 := {| cq_plan := c20_t1; cq_dedup := None |} in
  let q2 := {| cq_plan := LNode [] 1 (IVisit 3 (IChild (LNode [0] 4 (IVisit 4 INil)) INil)); cq_dedup := None |} in
  let r := run_two [] R q1 q2 [true; true; false; false; false; false] true in
  same_result (fst r) (solo [] R q1) = true /\ same_result (snd r) (solo [] R q2) = true.
Proof. vm_compute. split; reflexivity. Qed.
