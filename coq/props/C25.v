(* C25 — A stalled peer cannot block service to other peers.
   Only statements; proofs are in GS.StallProofs.  Model: GS.Stall (the blocking structure of
   responsemanager/server.go, responseassembler Transaction -> messagequeue AllocateAndBuildMessage ->
   allocator (GS.Alloc itself), the executor workers and the task queue's per-peer cap; and the
   requestor's loop with SendRequest).

   FULL STATEMENT (false of the code, see the refutations below): in every reachable state, for every
   set of stalled peers (sends never complete, allowances full), the response manager's loop is not
   waiting on account of a peer p while another peer's message is waiting, and some executor can run
   another peer's request; the request manager's loop never waits on a peer.

   What is proved instead:
     C25_loop_wait_sites   (all histories) wherever the loop waits it is in one of four transactions
                           (request-hook extensions in newRequest/prepareQuery, update-hook extensions for a
                           paused response, UnpauseResponse extensions, UpdateResponse extensions) and for a
                           positive number of extension bytes; a reservation waits exactly when the
                           allocator's decision rule says so (C25_reservation_waits_iff, from C14).
     C25_partial           guard = complement of findings C25-F1..F4: in histories whose messages carry no
                           loop-side extension data the loop never waits, whatever is stalled or full.
     C25_accept_*          under the same guard every waiting message is reached: the loop always has a
                           step, each of its steps strictly decreases the work ahead of the message, no other
                           label increases it (weak fairness of the loop goroutine is the assumption).
     C25_workers_partial   guard = complement of finding C25-F5: with MaxInProgressIncomingRequestsPerPeer = cap
                           set, a peer never occupies more than cap executors, and if cap * (number of stalled
                           peers) < number of executors some executor is idle or working for a peer that is
                           not stalled, in every reachable state.
     C25_requestor_holds   the request manager's loop never waits (SendRequest reserves 0 bytes) and always
                           has a next step.
     C25_refuted_*         one witness per loop-side site and one for the worker pool: a concrete history after
                           which the loop (all executors) wait for memory of the stalled peer 1, the request of
                           peer 2 sits in the mailbox (task queue), and no internal label is enabled.
     C25_stuck_forever     from any state in which the loop waits on a pending ticket of a stalled peer whose waiting
                           head does not fit its own allowance (and no executor holds an already granted ticket of
                           that peer), EVERY label sequence leaves the loop waiting on that peer and every message
                           that was in the mailbox in place: only the end of the stall (not a label of a stalled peer)
                           can end the wait.  C25_refuted_*_forever: the four site witnesses are such states. *)
From Coq Require Import List NArith Bool Lia.
From GS Require Import Base Alloc AllocProofs Stall StallProofs StallForever.
Import ListNotations.
Open Scope N_scope.

Theorem C25_loop_wait_sites : forall c tr s p t n st ents k rest,
  steps c (init c) tr s -> loop s = LWait p t n st ents k rest ->
  0 < n /\ (st = SNewReq \/ st = SUpdatePaused \/ st = SUnpause \/ st = SApiUpdate).
Proof. exact c25_loop_wait_sites. Qed.
Print Assumptions C25_loop_wait_sites.

Theorem C25_reservation_waits_iff : forall a p n, 0 < n ->
  (exists a' t, reserve a p n = (a', Some t)) <-> can_grant_now a p n = false.
Proof. exact reserve_waits_iff. Qed.
Print Assumptions C25_reservation_waits_iff.

Theorem C25_full_allowance_waits : forall a p n, 0 < n ->
  (max_peer a < alloc_of a p + n \/ AllocProofs.waiting_of a p <> []) ->
  exists a' t, reserve a p n = (a', Some t).
Proof. exact reserve_waits_when_full. Qed.
Print Assumptions C25_full_allowance_waits.

Theorem C25_partial : forall c tr s,
  steps c (init c) tr s -> forallb label_no_loop_ext tr = true -> loop_waits_on s = None.
Proof. exact c25_loop_never_waits. Qed.
Print Assumptions C25_partial.

Theorem C25_accept_enabled : forall c s, loop_waits_on s = None -> (mailbox s <> [] \/ loop s <> LIdle) ->
  exists s', step c s Loop_Step = Some s'.
Proof. exact loop_step_enabled. Qed.
Print Assumptions C25_accept_enabled.

Theorem C25_accept_decreases : forall c s s' pre m post,
  step c s Loop_Step = Some s' -> mailbox s = pre ++ m :: post -> Guard s -> forallb (fun _ => true) pre = true ->
  (exists pre', mailbox s' = pre' ++ m :: post /\ (ahead s' pre' < ahead s pre)%nat) \/
  (pre = [] /\ loop s' = LRun m /\ mailbox s' = post).
Proof. exact loop_step_ahead. Qed.
Print Assumptions C25_accept_decreases.

Theorem C25_accept_stable : forall c s l s' pre m post,
  step c s l = Some s' -> l <> Loop_Step -> l <> Loop_Unblock -> mailbox s = pre ++ m :: post ->
  exists post', mailbox s' = pre ++ m :: post' /\ ahead s' pre = ahead s pre.
Proof. exact other_step_ahead. Qed.
Print Assumptions C25_accept_stable.

Theorem C25_guard_invariant : forall c s tr s',
  steps c s tr s' -> forallb label_no_loop_ext tr = true -> Guard s -> Guard s'.
Proof. exact steps_guard. Qed.
Print Assumptions C25_guard_invariant.

Theorem C25_workers_partial : forall c s, Reach c s -> 0 < c_cap c ->
  (forall p, active_count (workers s) p <= c_cap c) /\
  ((length (c_stalled c) * N.to_nat (c_cap c) < N.to_nat (c_workers c))%nat ->
   exists w pc, In (w, pc) (workers s) /\ forall p, In p (c_stalled c) -> wpc_peer pc <> Some p).
Proof.
  intros c s R Hc. split; [exact (c25_workers_bounded c s R Hc) | exact (c25_worker_free c s R Hc)].
Qed.
Print Assumptions C25_workers_partial.

Theorem C25_requestor_holds : forall mt mp tr s, qsteps (qinit mt mp) tr s ->
  qwaits s = false /\ ((q_mailbox s <> [] \/ q_loop s <> QIdle) -> exists s', qstep s QLoop = Some s').
Proof.
  intros mt mp tr s H. pose proof (c25_requestor mt mp tr s H) as W.
  split; [exact W | exact (c25_requestor_progress s W)].
Qed.
Print Assumptions C25_requestor_holds.

Theorem C25_refuted_newrequest_hook_extensions :
  exists tr s, steps wit_cfg (init wit_cfg) tr s /\ loop_blocks_other wit_cfg s 1 2 SNewReq.
Proof. exact c25_refuted_newreq. Qed.
Print Assumptions C25_refuted_newrequest_hook_extensions.

Theorem C25_refuted_update_hook_extensions_while_paused :
  exists tr s, steps wit_cfg (init wit_cfg) tr s /\ loop_blocks_other wit_cfg s 1 2 SUpdatePaused.
Proof. exact c25_refuted_update. Qed.
Print Assumptions C25_refuted_update_hook_extensions_while_paused.

Theorem C25_refuted_unpause_with_extensions :
  exists tr s, steps wit_cfg (init wit_cfg) tr s /\ loop_blocks_other wit_cfg s 1 2 SUnpause.
Proof. exact c25_refuted_unpause. Qed.
Print Assumptions C25_refuted_unpause_with_extensions.

Theorem C25_refuted_update_response_extensions :
  exists tr s, steps wit_cfg (init wit_cfg) tr s /\ loop_blocks_other wit_cfg s 1 2 SApiUpdate.
Proof. exact c25_refuted_apiupdate. Qed.
Print Assumptions C25_refuted_update_response_extensions.

Theorem C25_refuted_worker_pool :
  exists tr s, steps wit_cfg (init wit_cfg) tr s /\ pool_blocks_other wit_cfg s 1 2.
Proof. exact c25_refuted_pool. Qed.
Print Assumptions C25_refuted_worker_pool.

Theorem C25_stuck_forever : forall c p s tr s', Stuck c p s -> steps c s tr s' ->
  loop_waits_on s' = Some p /\ exists extra, mailbox s' = mailbox s ++ extra.
Proof. exact c25_stuck_forever. Qed.
Print Assumptions C25_stuck_forever.

Theorem C25_refuted_newrequest_forever :
  exists tr s, steps wit_cfg (init wit_cfg) tr s /\ loop_blocks_other wit_cfg s 1 2 SNewReq /\
    forall tr' s', steps wit_cfg s tr' s' -> loop_waits_on s' = Some 1 /\ exists extra, mailbox s' = mailbox s ++ extra.
Proof. exact c25_forever_newreq. Qed.
Print Assumptions C25_refuted_newrequest_forever.

Theorem C25_refuted_update_forever :
  exists tr s, steps wit_cfg (init wit_cfg) tr s /\ loop_blocks_other wit_cfg s 1 2 SUpdatePaused /\
    forall tr' s', steps wit_cfg s tr' s' -> loop_waits_on s' = Some 1 /\ exists extra, mailbox s' = mailbox s ++ extra.
Proof. exact c25_forever_update. Qed.
Print Assumptions C25_refuted_update_forever.

Theorem C25_refuted_unpause_forever :
  exists tr s, steps wit_cfg (init wit_cfg) tr s /\ loop_blocks_other wit_cfg s 1 2 SUnpause /\
    forall tr' s', steps wit_cfg s tr' s' -> loop_waits_on s' = Some 1 /\ exists extra, mailbox s' = mailbox s ++ extra.
Proof. exact c25_forever_unpause. Qed.
Print Assumptions C25_refuted_unpause_forever.

Theorem C25_refuted_update_response_forever :
  exists tr s, steps wit_cfg (init wit_cfg) tr s /\ loop_blocks_other wit_cfg s 1 2 SApiUpdate /\
    forall tr' s', steps wit_cfg s tr' s' -> loop_waits_on s' = Some 1 /\ exists extra, mailbox s' = mailbox s ++ extra.
Proof. exact c25_forever_apiupdate. Qed.
Print Assumptions C25_refuted_update_response_forever.

(* The loop's only wait sites are the four above: the handler of ANY item without loop-side extension data runs to
   completion in every state.  In particular an abort never waits, however many aborts precede it and whether or not
   the executor drains its signal slot (SignalSendNonBlocking: a signal for a running response is dropped when the
   one-slot channel is full). *)
Theorem C25_handlers_without_extensions_complete : forall s it rest,
  item_loop_ext it = 0 -> loop (handle s it rest) = LRun rest.
Proof. exact handle_no_ext_completes. Qed.
Print Assumptions C25_handlers_without_extensions_complete.

Theorem C25_abort_never_waits : forall s p r rest,
  loop (handle s (ICancel p r) rest) = LRun rest /\ loop (handle s (IApiCancel r) rest) = LRun rest /\
  loop (handle s (INetErr p r) rest) = LRun rest.
Proof. intros; repeat split; apply handle_no_ext_completes; reflexivity. Qed.
Print Assumptions C25_abort_never_waits.

(* PeerTableLockNotHeldAcrossWait, the fact about peermanager the theorems above rest on: a write to the message
   manager's peer table (Connected, Disconnected, creation of a queue, a queue's shutdown callback) is enabled in
   every state and changes nothing, because GetProcess returns before any reservation can wait.  All theorems
   quantify over this label too; the driver performs such writes while a reservation is parked. *)
Theorem C25_peer_table_write_never_blocks : forall c s p, step c s (Env_PeerTable p) = Some s.
Proof. exact peer_table_write_never_blocks. Qed.
Print Assumptions C25_peer_table_write_never_blocks.

(* Non-vacuity.  The guard of C25_partial is satisfiable by a history in which peer 1 is stalled with a full
   allowance, has a paused response that is updated, unpaused without extensions and cancelled, and peer 2
   is answered; the same history with 7 bytes of update-hook extension data is not (and the model then
   leaves peer 2 unanswered until the stall ends). *)
Example C25_guard_nonvacuous :
  let quiet := [wit_fill; wit_paused; [IUpdate 1 11 0 false false]; [IApiUnpause 11 0]; wit_probe] in
  let c := {| sc_cfg := wit_cfg; sc_msgs := map EvMsg quiet; sc_probe_peer := 2; sc_probe_rid := 20; sc_api_sites := [];
              sc_obs_accepted := true; sc_obs_answered := true; sc_obs_answered_after := true |} in
  forallb label_no_loop_ext (snd (run_msgs case_fuel wit_cfg (init wit_cfg) quiet)) = true /\
  model_verdict c = (true, true, true) /\
  forallb label_no_loop_ext (snd (run_msgs case_fuel wit_cfg (init wit_cfg) wit_update)) = false /\
  model_verdict {| sc_cfg := wit_cfg; sc_msgs := map EvMsg wit_update; sc_probe_peer := 2; sc_probe_rid := 20; sc_api_sites := [];
                   sc_obs_accepted := false; sc_obs_answered := false; sc_obs_answered_after := true |}
    = (false, false, true).
Proof. vm_compute. repeat split. Qed.

(* With the per-peer cap set to 1 the worker-pool history leaves a worker for peer 2 (answered); the
   premise of C25_workers_partial holds for this configuration. *)
Example C25_cap_nonvacuous :
  let c1 := {| c_workers := 2; c_cap := 1; c_maxtotal := 100000; c_maxpeer := 1000; c_stalled := [1] |} in
  model_verdict {| sc_cfg := c1; sc_msgs := map EvMsg wit_pool; sc_probe_peer := 2; sc_probe_rid := 20; sc_api_sites := [];
                   sc_obs_accepted := true; sc_obs_answered := true; sc_obs_answered_after := true |} = (true, true, true) /\
  model_verdict {| sc_cfg := wit_cfg; sc_msgs := map EvMsg wit_pool; sc_probe_peer := 2; sc_probe_rid := 20; sc_api_sites := [];
                   sc_obs_accepted := true; sc_obs_answered := false; sc_obs_answered_after := true |} = (true, false, true) /\
  (length (c_stalled c1) * N.to_nat (c_cap c1) < N.to_nat (c_workers c1))%nat.
Proof. vm_compute. repeat split. repeat constructor. Qed.

(* The monitor of the property on an implementation observation. *)
Example C25_monitor_rejects_unanswered :
  scase_mon25 {| sc_cfg := wit_cfg; sc_msgs := map EvMsg wit_update; sc_probe_peer := 2; sc_probe_rid := 20; sc_api_sites := [];
                 sc_obs_accepted := false; sc_obs_answered := false; sc_obs_answered_after := true |} = false.
Proof. reflexivity. Qed.

(* Peer-table writes while an executor is parked on the stalled peer's reservation (cap 1, two executors): the probe of
   peer 2 and a request of the never-seen peer 5 are answered. *)
Example C25_table_writes_while_parked :
  let c1 := {| c_workers := 2; c_cap := 1; c_maxtotal := 100000; c_maxpeer := 1000; c_stalled := [1] |} in
  model_verdict {| sc_cfg := c1;
                   sc_msgs := [EvMsg [INew 1 10 0 true false [(600, 0); (600, 0)]]; EvPeerTable 4; EvPeerTable 3;
                               EvMsg [INew 5 30 0 true false [(50, 0)]]; EvPeerTable 5; EvMsg wit_probe];
                   sc_probe_peer := 2; sc_probe_rid := 20; sc_api_sites := [];
                   sc_obs_accepted := true; sc_obs_answered := true; sc_obs_answered_after := true |} = (true, true, true).
Proof. vm_compute. reflexivity. Qed.

(* Repeated aborts of mixed kinds for a response whose executor is parked on the stalled peer's reservation (it does not
   drain its signal slot): the loop goes on, peer 2 is answered. *)
Example C25_aborts_while_parked :
  let c1 := {| c_workers := 2; c_cap := 1; c_maxtotal := 100000; c_maxpeer := 1000; c_stalled := [1] |} in
  model_verdict {| sc_cfg := c1;
                   sc_msgs := [EvMsg [INew 1 10 0 true false [(600, 0); (600, 0)]]; EvMsg [ICancel 1 10]; EvMsg [IApiCancel 10];
                               EvMsg [INetErr 1 10]; EvMsg [ICancel 1 10]; EvMsg wit_probe];
                   sc_probe_peer := 2; sc_probe_rid := 20; sc_api_sites := [];
                   sc_obs_accepted := true; sc_obs_answered := true; sc_obs_answered_after := true |} = (true, true, true).
Proof. vm_compute. reflexivity. Qed.
