(* C14 — Allocator grants waiting memory promptly and in order.
   Only statements; proofs are in GS.AllocProofs. *)
From Coq Require Import List NArith Bool.
From GS Require Import Base Alloc AllocProofs.
Import ListNotations.
Open Scope N_scope.

(* Decision rule of an allocation, in any state: it is granted in the call itself exactly when the
   peer has nothing waiting and the amount fits under both limits; otherwise nothing is granted, no
   total changes, and the request joins the tail of its peer's waiting queue. *)
Theorem C14_immediate_iff : forall s p a,
  let '(s', outs, err, ok) := step s (OAlloc p a) in
  err = false /\ ok = true /\
  outs = (if can_grant_now s p a then [Granted (next_tkt s)] else []) /\
  alloc_of s' p = (if can_grant_now s p a then alloc_of s p + a else alloc_of s p) /\
  total s' = (if can_grant_now s p a then total s + a else total s) /\
  waiting_of s' p = (if can_grant_now s p a then waiting_of s p
                     else waiting_of s p ++ [ {| p_amt := a; p_idx := next_idx s; p_tkt := next_tkt s |} ]).
Proof. exact alloc_decision. Qed.
Print Assumptions C14_immediate_iff.

(* No lost wake-up, after every operation of every script: any waiting head that fits its own
   peer's limit has at or ahead of it (request order) a waiting head that also fits its own peer's
   limit and does not fit under the total limit.  Hence the earliest-requested eligible head never
   fits: nothing that could be granted is left waiting. *)
Theorem C14_no_lost_wakeup : forall mt mp ops, StableSt (final (init mt mp) ops).
Proof. exact c14_stable. Qed.
Print Assumptions C14_no_lost_wakeup.

(* Releasing a peer fails exactly its waiting allocations, in that very call, and forgets the peer. *)
Theorem C14_release_peer_fails_waiting : forall mt mp ops p ps,
  let s := final (init mt mp) ops in
  lookup p (peers s) = Some ps ->
  let '(s', outs, err, ok) := step s (OReleasePeer p) in
  err = false /\ ok = true /\ lookup p (peers s') = None /\ alloc_of s' p = 0 /\
  (forall x, In x (ps_pend ps) -> In (Failed (p_tkt x)) outs) /\
  (forall t, In (Failed t) outs -> exists x, In x (ps_pend ps) /\ p_tkt x = t).
Proof. exact c14_release_peer. Qed.
Print Assumptions C14_release_peer_fails_waiting.

(* Non-vacuity of the stability statement: a reachable state with two eligible waiting heads, the
   earlier of which blocks the later although the later would fit under the total. *)
Example C14_nonvacuous :
  let s := final (init 4 4) [OAlloc 1 3; OAlloc 2 3; OAlloc 3 2; ORelease 1 1] in
  map (fun x => map p_amt (ps_pend (snd x))) (peers s) = [[]; [3]; [2]] /\
  fits (total s) 2 4 = true /\ fits (total s) 3 4 = false.
Proof. vm_compute. repeat split. Qed.

(* The executable monitor of the whole property over an observed history (run on every
   implementation history by the check): accepts the model's own history of a script with queueing,
   FIFO grants and a peer release, and rejects a history in which a later request overtakes. *)
Example C14_monitor_accepts_and_rejects :
  let ops := [OAlloc 1 3; OAlloc 1 2; OAlloc 1 1; ORelease 1 3] in
  monitor_C14 4 3 ops (fst (run [1] (init 4 3) ops)) = true /\
  monitor_C14 4 3 ops
    [ Build_obs [Granted 0] false 3 0 0 [3]; Build_obs [] false 3 2 1 [3];
      Build_obs [] false 3 3 1 [3]; Build_obs [Granted 2] false 1 2 1 [1] ] = false.
Proof. vm_compute. split; reflexivity. Qed.
