(* C06 — the guard of C06_pause_after_send_guarded and the C02 guard.  Only statements; proofs in GS.C06GuardProofs. *)
From Coq Require Import List NArith Bool.
From GS Require Import Base Ltree RecLoader ReqExec C02Prefix C06Guard C06GuardProofs.
Import ListNotations.
Open Scope N_scope.

(* "No link below a link the responder lacks is ever loaded locally" (the whole traversal) implies "not finding
   C02-F1" (the same, restricted to the loads before the first request): finding C02-F1 is the instance
   "no pause" of the mechanism excluded by the C06 guard. *)
Theorem C06_guard_implies_no_F1 :
  forall t L R, no_local_below_missing t L R = true -> no_F1 t L R = true.
Proof. exact nlb_no_F1. Qed.
Print Assumptions C06_guard_implies_no_F1.

(* the converse fails: local loads below a responder-missing link AFTER the first request are not C02-F1 *)
Example C06_guard_stronger :
  let t := LNode [] 0 (IChild (LNode [0] 1 INil) (IChild (LNode [1] 2 (IChild (LNode [1; 0] 1 INil) INil)) INil)) in
  let L := store_of [2] in let R := store_of [0; 1] in
  no_F1 t L R = true /\ no_local_below_missing t L R = false.
Proof. vm_compute. split; reflexivity. Qed.
