(* C11 — Wire encoding round-trips every well-formed message.
   Only statements; proofs are in GS.VarintProofs, GS.CborProofs, GS.MsgCodecProofs. *)
From Coq Require Import List NArith ZArith Bool String.
From GS Require Import Base Varint VarintProofs Cbor CborProofs MsgCodec MsgCodecProofs CanonIdem.
Import ListNotations.
Open Scope string_scope.
Open Scope list_scope.
Open Scope N_scope.

(* Byte layer 1: every length below 2^63 survives the unsigned-varint prefix, whatever follows it. *)
Theorem C11_varint_roundtrip : forall n rest,
  n < 2 ^ 63 -> uvarint_dec (uvarint_enc n ++ rest) = VOk n rest.
Proof. exact uvarint_roundtrip. Qed.
Print Assumptions C11_varint_roundtrip.

(* Byte layer 2: a non-empty body of at most MessageSizeMax bytes is split off a stream exactly. *)
Theorem C11_frame_roundtrip : forall body rest,
  0 < blen body -> blen body <= MessageSizeMax -> read_frame (frame_enc body ++ rest) = FOk body rest.
Proof. exact frame_roundtrip. Qed.
Print Assumptions C11_frame_roundtrip.

(* Byte layer 3, DAG-CBOR: for EVERY node (any nesting of lists and maps; ints over the whole 64-bit
   head range, negative and unsigned; byte and text strings; links; booleans; null; finite floats) that
   is well-formed (wf_node: distinct map keys, strings up to the decoder's 32 MiB chunk limit, CIDs that
   go-cid accepts, collection sizes below 2^63) and within the decoder's depth limit and allocation
   budget, decoding the encoding followed by arbitrary bytes gives back the node with every map in wire
   order (canon: entries sorted length-first then bytewise, exactly what the encoder emits), the exact
   remaining budget, and the untouched rest. *)
Theorem C11_cbor_roundtrip : forall n rest,
  wf_node n -> ndepth n <= MaxDepth -> cost n <= Budget0 ->
  decode (encode n ++ rest) = DOk (canon n, Budget0 - cost n, rest).
Proof. exact cbor_roundtrip. Qed.
Print Assumptions C11_cbor_roundtrip.

(* One message.  For every hash function H and every well-formed message m — any number of new, cancel
   and update requests with distinct 16-byte ids, any int32 priority including 0, root and selector
   present or absent (a selector is not Null), any extensions (payload absent, Null, or any node);
   responses with distinct ids, any status of the schema's enum, any metadata list, any extensions; blocks
   with distinct CIDs each keyed by H of its own prefix and bytes; representation within the receiver's
   size, depth and allocation limits — the model of ToNet succeeds, and the model of FromNet applied to
   its output followed by arbitrary bytes returns exactly canon_msg m and the rest.  canon_msg m differs
   from m only in: map entries inside selector / extension data in DAG-CBOR key order, a part's
   extensions in key order, and an extension payload Null read back as "no payload"; request, response
   and block order, metadata order, and every other field are unchanged. *)
Theorem C11_msg_roundtrip : forall H m rest,
  wf_msg H m ->
  exists bs, to_net m = Some bs /\ from_net H (bs ++ rest) = NMsg (canon_msg m) rest.
Proof. exact msg_roundtrip. Qed.
Print Assumptions C11_msg_roundtrip.

(* The same with the equivalence made explicit: msg_equiv a b := canon_msg a = canon_msg b (an
   equivalence relation; canonicalisation is idempotent), and the decoded message is equivalent to m. *)
Theorem C11_msg_roundtrip_equiv : forall H m rest,
  wf_msg H m ->
  exists bs m', to_net m = Some bs /\ from_net H (bs ++ rest) = NMsg m' rest /\ msg_equiv m' m.
Proof. exact msg_roundtrip_equiv. Qed.
Print Assumptions C11_msg_roundtrip_equiv.

(* A stream: any number of well-formed messages written one after another are read back one by one,
   in order, and the reader ends cleanly. *)
Theorem C11_stream_roundtrip : forall H ms,
  Forall (wf_msg H) ms ->
  exists bss, map to_net ms = map Some bss /\ read_all H (List.concat bss) = Some (map canon_msg ms).
Proof. exact stream_roundtrip. Qed.
Print Assumptions C11_stream_roundtrip.

(* The three typed extension payloads, through the byte layer: do-not-send-cids (every list of CIDs
   comes back element for element, hence as the same set), do-not-send-first-blocks (every int64),
   dedup-by-key (every string). *)
Theorem C11_ext_cidset : forall cs rest,
  wf_node (enc_cidset cs) -> cost (enc_cidset cs) <= Budget0 ->
  exists n bu, decode (encode (enc_cidset cs) ++ rest) = DOk (n, bu, rest) /\ dec_cidset n = Some cs.
Proof. exact ext_cidset_roundtrip. Qed.
Print Assumptions C11_ext_cidset.
Theorem C11_ext_firstblocks : forall z rest,
  (-9223372036854775808 <= z <= 9223372036854775807)%Z ->
  exists bu, decode (encode (enc_firstblocks z) ++ rest) = DOk (enc_firstblocks z, bu, rest) /\
             dec_firstblocks (enc_firstblocks z) = Some z.
Proof. exact ext_firstblocks_roundtrip. Qed.
Print Assumptions C11_ext_firstblocks.
Theorem C11_ext_dedupkey : forall s rest,
  blen s <= MaxChunk -> blen s <= Budget0 ->
  exists bu, decode (encode (enc_dedupkey s) ++ rest) = DOk (enc_dedupkey s, bu, rest) /\
             dec_dedupkey (enc_dedupkey s) = Some s.
Proof. exact ext_dedupkey_roundtrip. Qed.
Print Assumptions C11_ext_dedupkey.

(* Non-vacuity: a concrete message (new request with zero priority, a selector whose map keys are
   given out of order, one extension with a Null payload and one with nested data; an update; a
   response with metadata; an identity-hash block) goes through both directions by computation and
   comes back in canonical form. *)
Definition ex_H : hashfn := fun code len d => if code =? 0 then Some (0 :: blen d :: d) else None.
Definition ex_id (b : N) : bytes := [b; 1; 2; 3; 4; 5; 6; 7; 8; 9; 10; 11; 12; 13; 14; 15].
Definition ex_cid : bytes := [1; 85; 0; 3; 7; 8; 9].     (* CIDv1, raw, identity, 3 bytes *)
Definition ex_msg : msg :=
  mk_msg [mk_req (ex_id 1) RNew 0 (Some ex_cid) (Some (NMap [(str "zz", NInt 1); (str "a", NList [NNull; NInt (-1)])]))
                 [(str "x", Some NNull); (str "k", Some (NMap [(str "b", NBool true)]))];
          mk_req (ex_id 2) RUpdate 0 None None [(str "u", None)]]
         [mk_rsp (ex_id 3) 20 [(ex_cid, APresent); (ex_cid, AMissing)] []]
         [(ex_cid, [7; 8; 9])].
Example C11_nonvacuous :
  exists bs, to_net ex_msg = Some bs /\ from_net ex_H (bs ++ [255]) = NMsg (canon_msg ex_msg) [255] /\
             canon_msg ex_msg <> ex_msg /\ msg_same (canon_msg ex_msg) ex_msg = true.
Proof.
  eexists. split; [vm_compute; reflexivity|]. split; [vm_compute; reflexivity|].
  split; [intro E; vm_compute in E; discriminate | vm_compute; reflexivity].
Qed.
(* ... and an undefined status code is refused by the encoder (as bindnode refuses it) *)
Example C11_undefined_status_refused :
  to_net (mk_msg [] [mk_rsp (ex_id 3) 16 [] []] []) = None.
Proof. vm_compute. reflexivity. Qed.
(* the example satisfies the hypothesis of C11_msg_roundtrip *)
Example C11_nonvacuous_wf : wf_msg ex_H ex_msg.
Proof.
  unfold wf_msg, ex_msg; cbn [m_reqs m_rsps m_blks map rq_id rs_id fst].
  repeat match goal with
  | |- _ /\ _ => split
  | |- Forall _ _ => constructor
  | |- NoDup _ => constructor
  | |- True => exact I
  | |- ~ In _ _ => cbv; intuition discriminate
  | |- wf_req _ => unfold wf_req, int32_range; cbn
  | |- wf_rsp _ => unfold wf_rsp; cbn
  | |- wf_node _ => vm_compute
  | |- (_ <= _)%Z => vm_compute; discriminate
  | |- (_ < _)%Z => vm_compute; reflexivity
  | |- _ <= _ => vm_compute; discriminate
  | |- _ < _ => vm_compute; reflexivity
  | |- _ = _ => vm_compute; reflexivity
  | |- _ -> False => let X := fresh in intro X; (discriminate X || (cbv in X; intuition discriminate))
  end.
Qed.
