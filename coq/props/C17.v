(* C17 — One live message queue per peer, delivering in queued order.
   Only statements; proofs are in GS.PeerMgrProofs. *)
From Coq Require Import List NArith Bool.
From GS Require Import Base PeerMgr PeerMgrProofs PeerMgrConc PeerMgrConcProofs PeerMgrMonitor.
Import ListNotations.
Open Scope N_scope.

(* For every interleaving of Connected / Disconnected notifications, GetProcess calls (sends), queue
   self-shutdowns (failed connects) and late queue exits, over any peers: *)

(* at most one live queue exists per peer; *)
Theorem C17_one_live : forall ls p q1 q2,
  let s := prun_pm pm_new ls in
  aget q1 (queues s) = Some (p, QLive) -> aget q2 (queues s) = Some (p, QLive) -> q1 = q2.
Proof. exact c17_one_live. Qed.
Print Assumptions C17_one_live.

(* the disconnect that drops the last connection leaves the peer with no live queue and no entry; *)
Theorem C17_last_disconnect : forall ls p rc q,
  let s := prun_pm pm_new ls in
  aget p (table s) = Some (rc, q) -> rc <= 1 ->
  let s' := fst (pstep s (LDisconnected p)) in
  aget p (table s') = None /\ forall q', aget q' (queues s') <> Some (p, QLive).
Proof. exact c17_last_disconnect. Qed.
Print Assumptions C17_last_disconnect.

(* no queue outlives the last disconnect: counting connections by the notifications seen (never
   negative), a Disconnected that leaves the count at 0 leaves the peer without a live queue; *)
Theorem C17_no_outlive : forall ls p,
  let s := prun_pm pm_new ls in
  cnt_run (fun _ => 0) (ls ++ [LDisconnected p]) p = 0 ->
  let s' := fst (pstep s (LDisconnected p)) in
  forall q, aget q (queues s') <> Some (p, QLive).
Proof. exact c17_no_outlive. Qed.
Print Assumptions C17_no_outlive.

(* every send goes to the one queue the table holds (so the order in which messages were queued for a
   peer is the order of that queue; FIFO inside a queue is part of the message-queue model, C16). *)
Theorem C17_get_process : forall ls p,
  let s := prun_pm pm_new ls in
  let '(s', ret) := pstep s (LGetProcess p) in
  exists rc q, ret = Some q /\ aget p (table s') = Some (rc, q) /\
    (aget p (table s) = Some (rc, q) /\ s' = s \/ aget p (table s) = None /\ is_live s' q = true).
Proof. exact c17_get_process. Qed.
Print Assumptions C17_get_process.

(* Concurrent senders.  GetProcess is double-checked in the code (read-locked lookup, then a
   write-locked getOrCreate); a group GConc p k w is k concurrent GetProcess(p) calls whose lookups all
   precede every write-locked section, with at most one other call w waiting for the write lock.
   Every group run is a run of the labels above (PeerMgrConcProofs.grun_prun), hence: at most one live
   queue per peer in every state reachable with groups, *)
Theorem C17_conc_one_live : forall gs p q1 q2,
  let s := grun pm_new gs in
  aget q1 (queues s) = Some (p, QLive) -> aget q2 (queues s) = Some (p, QLive) -> q1 = q2.
Proof. exact c17_conc_one_live. Qed.
Print Assumptions C17_conc_one_live.

(* and all concurrent senders of a group are handed one and the same queue — the one the table holds
   afterwards when the peer had none. *)
Theorem C17_conc_same_process : forall gs p k w,
  let s := grun pm_new gs in
  exists q, snd (gstep s (GConc p k w)) = repeat q k /\
    (aget p (table s) = None -> k <> O ->
     exists rc, aget p (table (fst (gstep s (GConc p k w)))) = Some (rc, q)).
Proof. exact c17_conc_same_process. Qed.
Print Assumptions C17_conc_same_process.

(* The monitors of the correspondence run accept every trace of the model: MON17 (one live queue per
   peer = the table's, GetProcess hands out the table's queue, no queue outlives the last disconnect)
   evaluated on the model's own trace of ANY label sequence is true, with the owner list (peer of each
   queue by creation order) of the final state.  So a history on which the implementation agrees with
   the model is never rejected, and a rejection is a statement about the implementation alone. *)
Theorem C17_monitor : forall ls,
  pmcase_mon {| pmc_labels := ls; pmc_owner := owners (prun_pm pm_new ls); pmc_obs := pm_trace pm_new ls |} = true.
Proof. exact c17_monitor. Qed.
Print Assumptions C17_monitor.
(* The same for MON17C on every group script the harness produces (gs_ok: a group whose lookups miss
   is never paired with a Disconnected of the same peer waiting for the write lock — that writer and
   the callers' getOrCreate do not commute, PeerMgrConc.v). *)
Theorem C17_conc_monitor : forall gs, gs_ok pm_new gs = true ->
  gcase_mon {| gc_labels := gs; gc_owner := owners (grun pm_new gs); gc_obs := g_trace pm_new gs |} = true.
Proof. exact c17_conc_monitor. Qed.
Print Assumptions C17_conc_monitor.
(* Non-vacuity for groups: three concurrent first sends to an unknown peer create exactly one queue;
   the monitor rejects the observation in which two of them created a queue each. *)
Example C17_conc_first_use :
  gstep pm_new (GConc 7 3 None) = ({| table := [(7, (0, 0))]; queues := [(0, (7, QLive))]; next_q := 1 |}, [0; 0; 0]) /\
  gobs_ok [7; 7] {| go_rets := [0; 1; 1]; go_table := [(7, 1)]; go_status := [0; 0] |} = false.
Proof. vm_compute. split; reflexivity. Qed.

(* Non-vacuity, and the history on which the unrepaired code failed: reconnect before the old queue
   has exited, then its late exit, then a send.  With the instance check the late exit leaves the
   successor in the table and the send reuses it. *)
Example C17_late_exit_history :
  let ls := [LConnected 7; LDisconnected 7; LConnected 7; LExit 0; LGetProcess 7] in
  let s := prun_pm pm_new ls in
  table s = [(7, (1, 1))] /\ live_for s 7 = [1] /\
  snd (pstep (prun_pm pm_new [LConnected 7; LDisconnected 7; LConnected 7; LExit 0]) (LGetProcess 7)) = Some 1.
Proof. vm_compute. repeat split. Qed.

(* the observation monitor rejects what the unrepaired code produced for that history: two live
   queues (1 and 2) for peer 7, queue 1 no longer in the table *)
Example C17_monitor_rejects_orphan :
  obs_ok [7; 7; 7] {| po_ret := Some 2; po_table := [(7, 2)]; po_status := [2; 0; 0] |} = false.
Proof. vm_compute. reflexivity. Qed.
