(* C06 — Pausing and resuming an exchange does not change its result: the RESPONDER side.
   Only statements; the model is GS.ResponderPause (the C03 responder model of GS.Responder extended with
   PauseResponse through the API — a signal consumed in checkForUpdates inside the next block's transaction,
   whether or not that link has block data —, pause from the outgoing-block hook — which runs only for a block
   that was really sent —, the RequestPaused status in the same transaction, the parked task, UnpauseResponse,
   and the closing transaction after an unpause when the pause fell on the last link); proofs in
   GS.ResponderPauseProofs.  Not modelled: extension data sent with Unpause (wmsg has no extension field). *)
From Coq Require Import List NArith Bool.
From GS Require Import Base Ltree LinkTracker Responder ResponderPause ResponderPauseProofs.
Import ListNotations.
Open Scope N_scope.

(* While a response is paused the responder sends no block data for it: for ANY number of requests sharing the
   peer's link tracker, any plans, stores, extensions and ANY schedule of link loads, API pauses, hook pauses and
   unpauses, every message emitted for request r by an action taken while r is paused carries no block
   (the only such message is the closing status after an unpause). *)
Theorem C06_responder_no_data_while_paused :
  forall r sched s sts pis, paused_quiet r s sts pis sched = true.
Proof. exact c06_responder_quiet. Qed.
Print Assumptions C06_responder_no_data_while_paused.

Theorem C06_responder_paused_step :
  forall s sts pis a s' sts' pis' ms r pi,
    psim_step s sts pis a = (s', sts', pis', ms) -> aget r pis = Some pi -> pi_paused pi = true ->
    forall m, In m ms -> wm_req m = r -> wm_blocks m = [].
Proof. exact paused_no_blocks. Qed.
Print Assumptions C06_responder_paused_step.

(* The stream does not depend on pauses: for a response alone on the peer (any plan, store, extensions) and EVERY
   schedule of link loads, API pauses, hook pauses (at any block counts) and unpauses: what went out — the
   RequestPaused status read as "in progress" — followed by what the uninterrupted response would still send from
   the tracker state reached is exactly the stream of the uninterrupted response; once the response has finished,
   what went out IS that stream (metadata, blocks, block indexes, final status). *)
Theorem C06_responder_stream :
  forall fx R q hook sched,
    let x := rst_init fx R q in
    exists s' x' pi' out,
      prun plt_new [x] [(rq_id q, pinf_init hook)] sched = (s', [x'], [(rq_id q, pi')], out) /\
      flat (psim plt_new [x] [(rq_id q, pinf_init hook)] sched) = out /\
      map norm_status out ++ run_ops (rs_fs x) s' (remaining (rq_id q) x' pi') = full_stream x /\
      (fin_done x' pi' = true -> rs_started x' = true -> map norm_status out = full_stream x).
Proof. exact c06_responder_stream. Qed.
Print Assumptions C06_responder_stream.

(* ... and the uninterrupted stream is the wire output of the C03 model (what C03_holds is about) *)
Theorem C06_responder_full_is_C03 :
  forall fx R q, full_stream (rst_init fx R q) = wire fx R q (own_ops fx R q).
Proof. exact full_stream_wire. Qed.
Print Assumptions C06_responder_full_is_C03.

(* Non-vacuity.  root(0) -> {a: 1 (the responder lacks it), b: 2}.  (i) PauseResponse arrives before the load
   of the link without block data: the RequestPaused status goes out with that link's metadata, nothing more until
   the unpause, then the rest: same stream.  (ii) a hook pause at block 2 = the last link: the closing status comes
   with the unpause.  (iii) a hook "at block 1" fires on the first block really sent. *)
Example C06_responder_nonvacuous :
  let t := LNode [] 0 (IVisit 0 (IChild (LNode [0] 1 INil) (IChild (LNode [1] 2 (IVisit 1 INil)) INil))) in
  let q := {| rq_id := 1; rq_plan := t; rq_dedup := None; rq_ignore := None; rq_skip := None |} in
  let R := store_fun [0; 2] in
  let x := rst_init true R q in
  let run hook sc := flat (psim plt_new [x] [(1, pinf_init hook)] sc) in
  map wm_status (full_stream x) = [14; 14; 14; 21] /\
  map wm_status (run [] [PA (SStart 1); PA (SStep 1); PPause 1; PA (SStep 1); PA (SStep 1); PUnpause 1; PA (SStep 1)]) = [14; 15; 14; 21] /\
  map norm_status (run [] [PA (SStart 1); PA (SStep 1); PPause 1; PA (SStep 1); PA (SStep 1); PUnpause 1; PA (SStep 1)]) = full_stream x /\
  map wm_status (run [2] [PA (SStart 1); PA (SStep 1); PA (SStep 1); PA (SStep 1); PA (SStep 1); PUnpause 1]) = [14; 14; 15; 21] /\
  map norm_status (run [2] [PA (SStart 1); PA (SStep 1); PA (SStep 1); PA (SStep 1); PA (SStep 1); PUnpause 1]) = full_stream x /\
  map wm_status (run [1] [PA (SStart 1); PA (SStep 1); PA (SStep 1)]) = [15].
Proof. vm_compute. repeat split. Qed.
