(* C21 — Work limits are respected and every queued request eventually runs.
   Only statements; proofs are in GS.TaskQueueProofs. *)
From Coq Require Import List NArith ZArith Bool Arith.
From GS Require Import Base TaskQueue TaskQueueProofs TaskQueueLive TaskQueueInv TaskQueueMon TaskQueueRank.
Import ListNotations.
Open Scope N_scope.

(* For every configuration (per-peer maximum set or not, freezing ignored or not), every number of
   workers and every sequence of pushes, removes, pops by workers at the loop top, wake-ups by the work
   signal or by a thaw tick, and completions — whichever tracker the peer heap presents at each pop —
   never more than [w] executions are in progress. *)
Theorem C21_workers_bound : forall cfg w ls s e,
  run cfg (init w) ls = Some (s, e) -> (running s <= w)%nat.
Proof. exact workers_bound. Qed.
Print Assumptions C21_workers_bound.

(* ... and when a per-peer maximum is set no peer ever has more active work than that. *)
Theorem C21_per_peer_bound : forall cfg w ls s e,
  run cfg (init w) ls = Some (s, e) ->
  forall p t, aget p (st_trk s) = Some t -> c_maxpp cfg <> O -> (nact t <= c_maxpp cfg)%nat.
Proof. exact per_peer_bound. Qed.
Print Assumptions C21_per_peer_bound.

(* The property's last clause — "every queued request that is not cancelled is eventually executed,
   even while other peers keep submitting requests" — is FALSE of the model (and of the code: the
   driver replays the schedule on the real WorkerTaskQueue).

   C21_starvation_cycle (every number of workers, every configuration): in a state where the light
   peer V has one request queued, nothing active and is not frozen, every other peer has one task
   executing and at least two queued, and every worker is busy — for every n there is a continuation
   without any Remove and without any operation of V in which n more tasks are started on workers that
   became free, V's tracker is untouched and the state is again of that shape: the schedule can be
   repeated for ever (an infinite run presented as an invariant with a cycle).  Each round is
   [push by f; f's task completes on worker w; w pops]: the freed worker is presented with f's tracker
   because DefaultPeerComparator ranks, among peers with equal active work, the one with MORE pending
   tasks first. *)
Theorem C21_starvation_cycle : forall cfg V n B s,
  Starve V B s ->
  exists ls s' evs,
    run cfg s ls = Some (s', evs) /\ Starve V (B + N.of_nat n) s' /\
    aget V (st_trk s') = aget V (st_trk s) /\
    length (filter is_start evs) = n /\ forallb (fun e => negb (touches V e)) evs = true /\
    Forall (fun l => match l with LPush p _ _ => p <> V | LRemove _ _ => False | _ => True end) ls.
Proof. exact starvation. Qed.
Print Assumptions C21_starvation_cycle.

(* C21_refuted: such a state is reachable from the initial state (shown for one worker, every
   per-peer limit and freezing setting): for every n there is a run in which peer 2's request 1 was
   submitted, is never removed and never executed, is still queued at the end with peer 2 neither
   frozen nor at any limit, and more than n other tasks were started in the meantime. *)
Theorem C21_refuted : forall cfg n,
  exists ls s evs v,
    run cfg (init 1) ls = Some (s, evs) /\
    existsb (fun e => match e with EPush 2 1 => true | _ => false end) evs = true /\
    forallb (not_served 2) evs = true /\
    (n < length (filter is_start evs))%nat /\
    aget 2 (st_trk s) = Some {| tr_pending := [v]; tr_active := []; tr_freeze := 0 |} /\ t_topic v = 1 /\
    Forall (fun l => match l with LRemove _ _ => False | _ => True end) ls.
Proof. exact refuted. Qed.
Print Assumptions C21_refuted.

(* C21_progress_partial — the no-stuck lemmas, for every configuration, every state (reachable or not) and
   every tracker the heap may present:
     (a) a worker at the loop top, and a waiting worker that receives a tick, START A TASK whenever
         some tracker holds an eligible request (queued, peer not frozen, peer below its maximum):
         the root the comparator allows is then itself eligible — a free worker never idles past an
         eligible request, whichever peer it belongs to;
     (b) every tick brings each frozen tracker strictly closer to being thawed.
   They are composed into the statement for finite arrivals in C21_finite_arrivals below (ranking
   function over whole runs, existence of a heap root in C21_heap_has_root). *)
Theorem C21_progress_partial :
  (forall cfg s w top q tq,
     nth_error (st_w s) w = Some WReady -> In (q, tq) (st_trk s) -> eligible (c_maxpp cfg) tq ->
     top <> None -> (forall p, top = Some p -> is_top (st_trk s) p = true) ->
     exists s' p tp, step cfg s (LPop w top) = Some (s', [EStart p tp])) /\
  (forall cfg s w top q tq,
     nth_error (st_w s) w = Some WWaiting -> In (q, tq) (st_trk s) -> eligible (c_maxpp cfg) tq ->
     top <> None -> (forall p, top = Some p -> is_top (thaw_round (st_trk s)) p = true) ->
     exists s' p tp, step cfg s (LWakeTick w top) = Some (s', [EStart p tp])) /\
  (forall t, tr_freeze t <> O -> (tr_freeze (thaw t) < tr_freeze t)%nat).
Proof. exact (conj no_stuck_pop (conj no_stuck_tick thaw_decreases)). Qed.
Print Assumptions C21_progress_partial.

(* The selection rule behind both results: a tracker that the comparator does not rank below an
   eligible one is eligible (same freeze level, no more active work). *)
Theorem C21_root_is_eligible : forall maxpp a b, eligible maxpp a -> peer_cmp a b = false -> eligible maxpp b.
Proof. exact top_eligible. Qed.
Print Assumptions C21_root_is_eligible.

(* C21_monitor: the executable monitor of the safety half — a request is handed to an executor only if it
   is queued (pushed, not removed since, not started before for that push), never more than [w]
   executions at once, never more than the per-peer maximum for one peer when set, a completion only
   of something executing — accepts EVERY run of the model: all configurations, worker counts and label
   sequences, whichever comparator-maximal tracker each pop is presented with.  This is the predicate the
   driver evaluates on the implementation's histories (MON21). *)
Theorem C21_monitor : forall cfg w ls s e,
  run cfg (init w) ls = Some (s, e) -> monitor_C21 w (c_maxpp cfg) e = true.
Proof. exact monitor_holds. Qed.
Print Assumptions C21_monitor.

(* The invariant it rests on, in every reachable state: inside one peer a topic is queued or active at
   most once and task identities are unique and older than the next stamp; every executing worker
   holds an active task of its peer; two workers never hold the same task; the active work of all
   trackers together equals the number of executing workers; tracker keys are unique. *)
Theorem C21_invariant : forall cfg w ls s e,
  run cfg (init w) ls = Some (s, e) -> wf (st_trk s) (st_w s) (st_next s).
Proof. intros cfg w ls s e H. exact (run_wf cfg ls _ _ _ (wf_init w) H). Qed.
Print Assumptions C21_invariant.

(* Conservation, per peer, in every reachable state: task objects created by pushes for the peer =
   queued + active + completed + removed while queued. *)
Theorem C21_conservation : forall cfg w ls s e,
  run cfg (init w) ls = Some (s, e) ->
  forall p, count_peer p (gh_created s) =
    (length (pendT (st_trk s) p) + length (actT (st_trk s) p) + count_peer p (gh_done s) + count_peer p (gh_removed s))%nat.
Proof. exact conservation. Qed.
Print Assumptions C21_conservation.

(* C21_heap_has_root: DefaultPeerComparator is a strict order (irreflexive, transitive), so in every
   reachable state with at least one tracker some tracker is not ranked below any other, and PopTasks
   presented with it returns: a pop is always possible (the [top] parameter of the pop labels is never
   an empty choice). *)
Theorem C21_heap_has_root : forall cfg w ls s e,
  run cfg (init w) ls = Some (s, e) -> st_trk s <> [] ->
  exists p r, is_top (st_trk s) p = true /\ pop_tasks cfg (st_trk s) (Some p) = Some r.
Proof.
  intros cfg w ls s e H Hne. pose proof (run_wf cfg ls _ _ _ (wf_init w) H) as Hwf.
  destruct (exists_top _ Hne (wf_keys _ _ _ Hwf)) as [p Hp]. destruct (pop_total cfg _ _ Hp) as [r Hr]. eauto.
Qed.
Print Assumptions C21_heap_has_root.

(* C21_finite_arrivals — "if from some point on no request is submitted, every queued, non-removed request
   is eventually executed", with the fairness assumption spelled out.  [rank] = 3 x queued tasks + sum of
   freeze values + number of trackers + 2 per executing worker + 1 per worker at the loop top + 1 for a
   pending work signal.
     (a) no label other than a push ever raises the rank (pops at the loop top, signal wake-ups and
         completions strictly lower it);
     (b) in every reachable state with at least one worker and something queued, a worker / ticker /
         completion label (a pop by a worker at the loop top, a tick taken by a waiting worker, the
         completion of an executing task) is ENABLED that strictly lowers the rank;
     (c) following such steps the backlog is empty after at most [rank s] of them, and exactly as many
         tasks were started as were queued (pushes and removes excluded: each queued task is started
         once).
   Fairness assumption (not provable in the model, named here): workers are scheduled, the thaw
   ticker keeps firing while a worker waits, and every executing task completes — i.e. a strictly
   rank-lowering worker/ticker/completion step that is enabled is eventually taken.  Under it (a) bounds
   the number of such steps by the rank at the last push and (b) says the run cannot stop earlier. *)
Theorem C21_finite_arrivals :
  (forall cfg s l s' e, is_push l = false -> step cfg s l = Some (s', e) -> (rank s' <= rank s)%nat) /\
  (forall cfg w ls s e, (0 < w)%nat -> run cfg (init w) ls = Some (s, e) -> (0 < pending_total s)%nat ->
     exists l s1 e1, worker_label l = true /\ step cfg s l = Some (s1, e1) /\ (rank s1 < rank s)%nat) /\
  (forall cfg w ls s e, (0 < w)%nat -> run cfg (init w) ls = Some (s, e) ->
     exists ls' s' e', forallb worker_label ls' = true /\ run cfg s ls' = Some (s', e') /\ pending_total s' = O /\
                       (length ls' <= rank s)%nat /\ length (filter is_start e') = pending_total s).
Proof.
  split; [|split].
  - intros cfg s l s' e Hl Hs. exact (proj1 (step_rank cfg s l s' e Hl Hs)).
  - intros cfg w ls s e Hw Hr Hp. apply progress_step; auto.
    + exact (run_wf cfg ls _ _ _ (wf_init w) Hr).
    + rewrite (run_workers _ _ _ _ _ Hr). simpl. now rewrite repeat_length.
  - intros cfg w ls s e Hw Hr. apply (drain cfg (rank s) s); auto.
    + exact (run_wf cfg ls _ _ _ (wf_init w) Hr).
    + rewrite (run_workers _ _ _ _ _ Hr). simpl. now rewrite repeat_length.
Qed.
Print Assumptions C21_finite_arrivals.

(* ---- non-vacuity ---- *)
(* two workers, per-peer maximum 1: peer 1's second request waits for the first although a worker is
   free; peer 2's request takes the free worker; a removed request is never started *)
Example C21_model_run :
  let cfg := {| c_maxpp := 1; c_ignore_freeze := false |} in
  let ls := [LPop 0 None; LPop 1 None; LPush 1 1 0%Z; LWakeSig 0 (Some 1); LPush 1 2 0%Z; LWakeSig 1 (Some 1);
             LPush 2 1 0%Z; LWakeSig 1 (Some 2); LPush 2 2 0%Z; LRemove 2 2; LDone 0; LPop 0 (Some 1)] in
  match run cfg (init 2) ls with
  | Some (s, evs) =>
      evs = [EPush 1 1; EStart 1 1; EPush 1 2; EPush 2 1; EStart 2 1; EPush 2 2; ERemove 2 2; EDone 1 1; EStart 1 2]
      /\ monitor_C21 2 1 evs = true /\ running s = 2%nat
  | None => False
  end.
Proof. vm_compute. repeat split. Qed.

(* the monitor rejects: a third execution with two workers; a second one for a peer limited to one;
   a start of a removed request; a second start for one push *)
Example C21_monitor_rejects :
  monitor_C21 2 0 [EPush 1 1; EPush 1 2; EPush 1 3; EStart 1 1; EStart 1 2; EStart 1 3] = false /\
  monitor_C21 2 1 [EPush 1 1; EPush 1 2; EStart 1 1; EStart 1 2] = false /\
  monitor_C21 2 0 [EPush 1 1; ERemove 1 1; EStart 1 1] = false /\
  monitor_C21 2 0 [EPush 1 1; EStart 1 1; EDone 1 1; EStart 1 1] = false.
Proof. vm_compute. repeat split. Qed.

(* the starvation schedule in the model, 40 rounds with one worker: the fairness monitor (bounded
   overtaking, bound 30) is false on it, the safety monitor true *)
Example C21_lasso_monitors :
  let cfg := {| c_maxpp := 0; c_ignore_freeze := false |} in
  let ls := prefix1 ++ flat_map (fun k => round 0 1 (4 + N.of_nat k)) (seq 0 40) in
  match run cfg (init 1) ls with
  | Some (s, evs) => monitor_C21 1 0 evs = true /\ monitor_C21_fair fair_bound evs = false
                     /\ forallb (not_served 2) evs = true
  | None => False
  end.
Proof. vm_compute. repeat split. Qed.
