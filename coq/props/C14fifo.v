(* C14 (FIFO clause and the monitor) — Allocator grants waiting memory promptly and in order.
   Only statements; proofs are in GS.AllocFifoProofs (which builds on GS.AllocProofs). *)
From Coq Require Import List NArith Bool.
From GS Require Import Base Alloc AllocProofs AllocFifoProofs AllocOrder AllocOrderProofs.
Import ListNotations.
Open Scope N_scope.

(* The executable monitor of C14 (Alloc.v: abstract waiting room with per-peer FIFO queues; every
   Granted/Failed ticket must be the head of its peer's queue when applied; immediate-grant decision
   rule; no lost wake-up after every operation; release-peer fails all of the peer's waiting tickets
   in that call) accepts EVERY history of the model: all limits, all scripts of any length, any
   observed universe.  No side condition.  The outcomes of one call are compared sorted by ticket
   (as the harness can only see per-ticket channels). *)
Theorem C14_monitor : forall mt mp univ ops,
  monitor_C14 mt mp ops (fst (run univ (init mt mp) ops)) = true.
Proof. exact c14_monitor. Qed.
Print Assumptions C14_monitor.

(* What acceptance by the monitor guarantees, for ANY observed history (model or implementation):
   for every peer, the tickets granted to that peer over the whole history appear in strictly
   increasing request order.  [tickets_of ops] numbers the OAlloc operations of the script 0,1,2,…
   and records their peer and amount; [granted_to tk p outs] lists the tickets of Granted outcomes
   that belong to peer p, in the order listed; [incr] = strictly increasing. *)
Theorem C14_monitor_enforces_request_order : forall mt mp ops obsl,
  monitor_C14 mt mp ops obsl = true ->
  forall p, incr (granted_to (tickets_of ops) p (flat_map o_outs obsl)).
Proof. exact monitor_C14_grants_in_request_order. Qed.
Print Assumptions C14_monitor_enforces_request_order.

(* Hence: in every history of the model the grants of each peer are in request order. *)
Theorem C14_grants_in_request_order : forall mt mp univ ops p,
  incr (granted_to (tickets_of ops) p (flat_map o_outs (fst (run univ (init mt mp) ops)))).
Proof. exact c14_grants_in_request_order. Qed.
Print Assumptions C14_grants_in_request_order.

(* Per-peer FIFO in every call from every reachable state: a ticket granted by a call is either the
   request of that very call, and then nothing of that peer was waiting; or it was waiting for some
   peer p, and every allocation p still has waiting after the call was requested later.  So no
   allocation of a peer is granted while an earlier-requested one of the same peer is still waiting. *)
Theorem C14_no_overtake : forall mt mp ops o,
  let s := final (init mt mp) ops in
  let '(s', outs, err, ok) := step s o in
  forall t, In (Granted t) outs ->
    (exists p a, o = OAlloc p a /\ t = next_tkt s /\ waiting_of s p = []) \/
    (exists p x, In x (waiting_of s p) /\ t = p_tkt x /\
                 forall y, In y (waiting_of s' p) -> p_tkt x < p_tkt y).
Proof. exact c14_no_overtake. Qed.
Print Assumptions C14_no_overtake.

(* The waiting queue of every peer in every reachable state is in request order (strictly increasing
   tickets, [tinc]) and holds only tickets already issued. *)
Theorem C14_queues_in_request_order : forall mt mp ops p,
  let s := final (init mt mp) ops in
  tinc (waiting_of s p) /\ forall x, In x (waiting_of s p) -> p_tkt x < next_tkt s.
Proof. exact c14_queues_in_request_order. Qed.
Print Assumptions C14_queues_in_request_order.

(* Non-vacuity: a script with queueing behind an own-peer limit and behind the total limit; one
   release grants tickets of two peers in the same call ([Granted 1; Granted 2]), the next grants
   the remaining ticket of peer 1.  The monitor accepts the model history; peer 1 is granted 0,1,3
   in this order; and a history in which ticket 3 overtakes ticket 1 of the same peer is rejected. *)
Example C14fifo_nonvacuous :
  let ops := [OAlloc 1 3; OAlloc 1 2; OAlloc 2 2; OAlloc 1 1; ORelease 1 3; ORelease 1 2; OReleasePeer 2] in
  let h := fst (run [1; 2] (init 4 3) ops) in
  map o_outs h = [[Granted 0]; []; []; []; [Granted 1; Granted 2]; [Granted 3]; []] /\
  monitor_C14 4 3 ops h = true /\
  granted_to (tickets_of ops) 1 (flat_map o_outs h) = [0; 1; 3] /\
  granted_to (tickets_of ops) 2 (flat_map o_outs h) = [2] /\
  monitor_C14 4 3 [OAlloc 1 3; OAlloc 1 2; OAlloc 2 2; OAlloc 1 1; ORelease 1 3]
    [ Build_obs [Granted 0] false 3 0 0 [3; 0]; Build_obs [] false 3 2 1 [3; 0];
      Build_obs [] false 3 4 2 [3; 0]; Build_obs [] false 3 5 2 [3; 0];
      Build_obs [Granted 2; Granted 3] false 3 2 1 [1; 2] ] = false.
Proof. vm_compute. repeat split. Qed.

(* ---- which eligible head a grant takes (cross-peer order) ---------------------------------- *)
(* The stronger monitor [monitor_C14x] (AllocOrder.v) is [monitor_C14] plus: when an outcome
   [Granted t] of a release / release-peer call is applied (outcomes of one call sorted by ticket),
   t is the smallest ticket among the waiting queue heads that fit their own peer's limit at that
   moment (peers other than the one being released) — no earlier-requested eligible waiting
   allocation is passed over.  It accepts EVERY history of the model; no side condition. *)
Theorem C14_monitor_x : forall mt mp univ ops,
  monitor_C14x mt mp ops (fst (run univ (init mt mp) ops)) = true.
Proof. exact c14_monitor_x. Qed.
Print Assumptions C14_monitor_x.

(* In every release / release-peer call from every reachable state: whatever is still waiting at the
   head of its peer's queue after the call and fits its own peer's limit was requested later than
   every allocation the call granted.  So no waiting allocation is granted while an
   earlier-requested waiting allocation of ANY peer that fits its own peer's limit is left waiting. *)
Theorem C14_no_pass_over : forall mt mp ops o,
  let s := final (init mt mp) ops in
  match o with
  | OAlloc _ _ => True
  | _ => let '(s', outs, err, ok) := step s o in
         forall t, In (Granted t) outs ->
         forall q hq r, waiting_of s' q = hq :: r ->
           fits (alloc_of s' q) (p_amt hq) (max_peer s') = true -> t < p_tkt hq
  end.
Proof. exact c14_no_pass_over. Qed.
Print Assumptions C14_no_pass_over.

(* Non-vacuity / discrimination: peer 3 holds everything; a1 (ticket 1, peer 1), b1 (ticket 2,
   peer 2), a2 (ticket 3, peer 1) wait in this request order; the release frees room for exactly two.
   The model grants a1 and b1.  A history that grants a1 and a2 and leaves b1 waiting (a2 overtakes
   the earlier-requested eligible b1; the post-state is stable because b1 no longer fits) is
   accepted by [monitor_C14] and rejected by [monitor_C14x]. *)
Example C14x_rejects_passing_over :
  let ops := [OAlloc 3 4; OAlloc 1 2; OAlloc 2 2; OAlloc 1 2; ORelease 3 4] in
  let bad := [ Build_obs [Granted 0] false 4 0 0 [0; 0; 4]; Build_obs [] false 4 2 1 [0; 0; 4];
               Build_obs [] false 4 4 2 [0; 0; 4]; Build_obs [] false 4 6 2 [0; 0; 4];
               Build_obs [Granted 1; Granted 3] false 4 2 1 [4; 0; 0] ] in
  map o_outs (fst (run [1; 2; 3] (init 4 4) ops)) = [[Granted 0]; []; []; []; [Granted 1; Granted 2]] /\
  monitor_C14x 4 4 ops (fst (run [1; 2; 3] (init 4 4) ops)) = true /\
  monitor_C14 4 4 ops bad = true /\ monitor_C14x 4 4 ops bad = false.
Proof. vm_compute. repeat split. Qed.

(* ---- an error of a release / release-peer call must be legitimate --------------------------- *)
(* [monitor_C14x] also requires, of a release / release-peer observation that returned an error,
   that the peer holds nothing and has nothing waiting (covered by C14_monitor_x above: the model's
   calls fail only for a peer they do not know).  Discrimination: A=1 is granted 1000 (the whole
   total), B=2 asks 400 and waits; ReleasePeer(B) returns the error although B has a waiting
   allocation, which is neither failed nor dropped; ReleasePeer(A) then grants B its 400.  The model
   fails B's ticket in the ReleasePeer(B) call.  [monitor_C14] accepts the bad history (it does not
   question an error), [monitor_C14x] rejects it. *)
Example C14x_rejects_illegitimate_error :
  let ops := [OAlloc 1 1000; OAlloc 2 400; OReleasePeer 2; OReleasePeer 1] in
  let bad := [ Build_obs [Granted 0] false 1000 0 0 [1000; 0]; Build_obs [] false 1000 400 1 [1000; 0];
               Build_obs [] true 1000 400 1 [1000; 0]; Build_obs [Granted 1] false 400 0 0 [0; 400] ] in
  map (fun ob => (o_outs ob, o_err ob)) (fst (run [1; 2] (init 1000 1000) ops)) =
    [([Granted 0], false); ([], false); ([Failed 1], false); ([], false)] /\
  monitor_C14x 1000 1000 ops (fst (run [1; 2] (init 1000 1000) ops)) = true /\
  monitor_C14 1000 1000 ops bad = true /\ monitor_C14x 1000 1000 ops bad = false.
Proof. vm_compute. repeat split. Qed.
