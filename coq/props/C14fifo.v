(* C14 (FIFO clause and the monitor) — Allocator grants waiting memory promptly and in order.
   Only statements; proofs are in GS.AllocFifoProofs (which builds on GS.AllocProofs). *)
From Coq Require Import List NArith Bool.
From GS Require Import Base Alloc AllocProofs AllocFifoProofs.
Import ListNotations.
Open Scope N_scope.

(* The executable monitor of C14 (Alloc.v: abstract waiting room with per-peer FIFO queues; every
   Granted/Failed ticket must be the head of its peer's queue when applied; immediate-grant decision
   rule; no lost wake-up after every operation; release-peer fails all of the peer's waiting tickets
   in that call) accepts EVERY history of the model: all limits, all scripts of any length, any
   observed universe.  No side condition.  The outcomes of one call are compared sorted by ticket
   (as the harness can only see per-ticket channels). *)
Theorem C14_monitor : forall mt mp univ ops,
  monitor_C14 mt mp ops (fst (run univ (init mt mp) ops)) = true.
Proof. exact c14_monitor. Qed.
Print Assumptions C14_monitor.

(* What acceptance by the monitor guarantees, for ANY observed history (model or implementation):
   for every peer, the tickets granted to that peer over the whole history appear in strictly
   increasing request order.  [tickets_of ops] numbers the OAlloc operations of the script 0,1,2,…
   and records their peer and amount; [granted_to tk p outs] lists the tickets of Granted outcomes
   that belong to peer p, in the order listed; [incr] = strictly increasing. *)
Theorem C14_monitor_enforces_request_order : forall mt mp ops obsl,
  monitor_C14 mt mp ops obsl = true ->
  forall p, incr (granted_to (tickets_of ops) p (flat_map o_outs obsl)).
Proof. exact monitor_C14_grants_in_request_order. Qed.
Print Assumptions C14_monitor_enforces_request_order.

(* Hence: in every history of the model the grants of each peer are in request order. *)
Theorem C14_grants_in_request_order : forall mt mp univ ops p,
  incr (granted_to (tickets_of ops) p (flat_map o_outs (fst (run univ (init mt mp) ops)))).
Proof. exact c14_grants_in_request_order. Qed.
Print Assumptions C14_grants_in_request_order.

(* Per-peer FIFO in every call from every reachable state: a ticket granted by a call is either the
   request of that very call, and then nothing of that peer was waiting; or it was waiting for some
   peer p, and every allocation p still has waiting after the call was requested later.  So no
   allocation of a peer is granted while an earlier-requested one of the same peer is still waiting. *)
Theorem C14_no_overtake : forall mt mp ops o,
  let s := final (init mt mp) ops in
  let '(s', outs, err, ok) := step s o in
  forall t, In (Granted t) outs ->
    (exists p a, o = OAlloc p a /\ t = next_tkt s /\ waiting_of s p = []) \/
    (exists p x, In x (waiting_of s p) /\ t = p_tkt x /\
                 forall y, In y (waiting_of s' p) -> p_tkt x < p_tkt y).
Proof. exact c14_no_overtake. Qed.
Print Assumptions C14_no_overtake.

(* The waiting queue of every peer in every reachable state is in request order (strictly increasing
   tickets, [tinc]) and holds only tickets already issued. *)
Theorem C14_queues_in_request_order : forall mt mp ops p,
  let s := final (init mt mp) ops in
  tinc (waiting_of s p) /\ forall x, In x (waiting_of s p) -> p_tkt x < next_tkt s.
Proof. exact c14_queues_in_request_order. Qed.
Print Assumptions C14_queues_in_request_order.

(* Non-vacuity: a script with queueing behind an own-peer limit and behind the total limit; one
   release grants tickets of two peers in the same call ([Granted 1; Granted 2]), the next grants
   the remaining ticket of peer 1.  The monitor accepts the model history; peer 1 is granted 0,1,3
   in this order; and a history in which ticket 3 overtakes ticket 1 of the same peer is rejected. *)
Example C14fifo_nonvacuous :
  let ops := [OAlloc 1 3; OAlloc 1 2; OAlloc 2 2; OAlloc 1 1; ORelease 1 3; ORelease 1 2; OReleasePeer 2] in
  let h := fst (run [1; 2] (init 4 3) ops) in
  map o_outs h = [[Granted 0]; []; []; []; [Granted 1; Granted 2]; [Granted 3]; []] /\
  monitor_C14 4 3 ops h = true /\
  granted_to (tickets_of ops) 1 (flat_map o_outs h) = [0; 1; 3] /\
  granted_to (tickets_of ops) 2 (flat_map o_outs h) = [2] /\
  monitor_C14 4 3 [OAlloc 1 3; OAlloc 1 2; OAlloc 2 2; OAlloc 1 1; ORelease 1 3]
    [ Build_obs [Granted 0] false 3 0 0 [3; 0]; Build_obs [] false 3 2 1 [3; 0];
      Build_obs [] false 3 4 2 [3; 0]; Build_obs [] false 3 5 2 [3; 0];
      Build_obs [Granted 2; Granted 3] false 3 2 1 [1; 2] ] = false.
Proof. vm_compute. repeat split. Qed.
